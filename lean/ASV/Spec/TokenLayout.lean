/-
  Spec for C02, layout: "whitespace and # comments are irrelevant".  A rule text is a sequence of
  written tokens, each preceded by any amount of filler (whitespace characters of any kind and
  `# … newline` comments); two multi-character words need at least one filler between them, a
  single-character symbol `( ) [ ] , .` needs none.  After the last token: more filler, possibly an
  unterminated comment.
-/
import ASV.Model.Parser
namespace ASV.Layout
open ASV ASV.Parser

inductive Filler where
  | ws (c : Char)
  | comment (body : List Char)

def Filler.ok : Filler → Bool
  | .ws c => isWs c
  | .comment body => body.all (· != '\n')

def Filler.chars : Filler → List Char
  | .ws c => [c]
  | .comment body => '#' :: body ++ ['\n']

def gapChars (g : List Filler) : List Char := g.flatMap Filler.chars

/-- characters a multi-character symbol may start with / continue with -/
def symChar (c : Char) : Bool := c.isAlphanum || c == '-' || c == '_'
def contChar (c : Char) : Bool := symChar c || c == ':' || c == '/'

inductive Word where
  | sym (c : Char)
  | word (first : Char) (more : List Char)

def Word.ok : Word → Bool
  | .sym c => isSingleCharToken c
  | .word f more => symChar f && more.all contChar

def Word.chars : Word → List Char
  | .sym c => [c]
  | .word f more => f :: more

def Word.text : Word → String
  | .sym c => String.singleton c
  | .word f more => String.ofList (f :: more)

def Word.isWord : Word → Bool
  | .word _ _ => true
  | .sym _ => false

/-- `prev`: the previous token was a multi-character word -/
def okSeq : Bool → List (List Filler × Word) → Bool
  | _, [] => true
  | prev, (g, w) :: rest =>
      g.all Filler.ok && w.ok && !(prev && w.isWord && g.isEmpty) && okSeq w.isWord rest

def render : List (List Filler × Word) → List Char
  | [] => []
  | (g, w) :: rest => gapChars g ++ w.chars ++ render rest

structure Tail where
  gap : List Filler
  openComment : Option (List Char)

def Tail.ok (t : Tail) : Bool :=
  t.gap.all Filler.ok && (match t.openComment with | some b => b.all (· != '\n') | none => true)

def Tail.chars (t : Tail) : List Char :=
  gapChars t.gap ++ (match t.openComment with | some b => '#' :: b | none => [])

end ASV.Layout
