/-
  Spec for C05: what candidate-cluster formation is documented to produce, written without
  reference to how formation.py computes it (no sorting, no scans, no windows, no table keyed
  by coordinates):

    * relational part, evaluated on any list of candidates (the model's or the implementation's):
      every protocluster is in some candidate (`coversAll`), every candidate's location is the
      connected span of its members and contains each of them (`locationsOK`), no two candidates
      have the same coordinates and the same members (`noDuplicates`), members are protoclusters
      of the record and not repeated (`membersOK`);
    * reference part (`reference`): the expected set of candidates as a function of the *set* of
      protoclusters — classes of the reflexive-transitive closure of a symmetric relation
      (`classes`), computed by a fixpoint union:
        hybrids      = classes (≥ 2 protoclusters) of "share a defining gene", each with every
                       otherwise unassigned protocluster whose core lies inside the class's
                       connected core;
        interleaved  = classes (≥ 2 units) of "cores overlap" over hybrid candidates (as units)
                       and the protoclusters not absorbed by a hybrid;
        neighbouring = classes (≥ 2 units) of "extents overlap" over all candidates so far and the
                       protoclusters in neither a hybrid nor an interleaved group;
        a group with the coordinates of an existing candidate is merged into it (kind of the
        existing one; when the kinds differ, the added members also get a single);
        singles for every protocluster not absorbed by a hybrid or interleaved group and for the
        added members just mentioned, unless a candidate with identical coordinates contains it.
-/
import ASV.Model.Candidates
namespace ASV.CC.Spec
open ASV ASV.CC

/-! ### relational part -/

/-- coordinates of a location: its parts' bounds -/
def coords (l : Loc) : List (Int × Int) := l.parts.map fun p => (p.lo, p.hi)

def sameMembers (a b : List Proto) : Bool := (a.all fun x => b.contains x) && (b.all fun x => a.contains x)

/-- every protocluster lies in at least one candidate -/
def coversAll (ps : List Proto) (cs : List Cand) : Bool :=
  ps.all fun p => cs.any fun c => c.members.contains p

/-- no element twice -/
def nodupB {α : Type} [DecidableEq α] : List α → Bool
  | [] => true
  | x :: xs => !xs.contains x && nodupB xs

/-- members are protoclusters of the record, none twice, at least one -/
def membersOK (ps : List Proto) (cs : List Cand) : Bool :=
  cs.all fun c => !c.members.isEmpty && (c.members.all fun m => ps.contains m) && nodupB c.members

/-- the location is what connecting the members' locations gives, and contains each member -/
def locationsOK (wrap : Option Int) (cs : List Cand) : Bool :=
  cs.all fun c =>
    (match connect (c.members.map (·.loc)) wrap with
      | .ok l => l == c.loc
      | .error _ => false) &&
    c.members.all fun m => locationContainsOther c.loc m.loc

/-- no two candidates with the same coordinates and the same members -/
def noDuplicates : List Cand → Bool
  | [] => true
  | c :: cs => (cs.all fun d => !(coords c.loc == coords d.loc && sameMembers c.members d.members)) && noDuplicates cs

/-- kinds are consistent with sizes: singles have one member, the others at least two -/
def sizesOK (cs : List Cand) : Bool :=
  cs.all fun c => if c.kind == .single then c.members.length == 1 else c.members.length ≥ 2

/-! ### chains of sets -/

/-- `a` and `b` are linked by a chain of the given sets: both lie in one set, or a chain of sets
    leads from one to the other with consecutive sets sharing an element -/
inductive Linked {α : Type} (G : List (List α)) : α → α → Prop
  | base {g : List α} {a b : α} : g ∈ G → a ∈ g → b ∈ g → Linked G a b
  | trans {a b c : α} : Linked G a b → Linked G b c → Linked G a c

/-- pairwise disjoint sets -/
def DisjointSets {α : Type} (R : List (List α)) : Prop := R.Pairwise fun a b => ∀ x, x ∈ a → x ∉ b

/-! ### classes of a symmetric relation -/

section classes
variable {α : Type} [DecidableEq α]

/-- grow `acc` by everything in `pool` related to a member of it, until nothing is added -/
def grow (rel : α → α → Bool) (pool : List α) : Nat → List α → List α
  | 0, acc => acc
  | n + 1, acc =>
    let more := pool.filter fun u => !acc.contains u && acc.any fun a => rel a u || rel u a
    if more.isEmpty then acc else grow rel pool n (acc ++ more)

/-- the classes of the reflexive-transitive closure of `rel` on `units` -/
def classes (rel : α → α → Bool) : Nat → List α → List (List α)
  | 0, _ => []
  | _, [] => []
  | n + 1, u :: rest =>
    let cls := grow rel rest rest.length [u]
    cls :: classes rel n (rest.filter fun x => !cls.contains x)

def classesOf (rel : α → α → Bool) (units : List α) : List (List α) := classes rel units.length units

end classes

/-! ### reference -/

/-- a unit of the interleaved / neighbouring passes: a candidate so far or a lone protocluster -/
structure U where
  members : List Proto
  span : Loc
deriving DecidableEq

/-- an entry of the result: coordinates, kind, members -/
structure Entry where
  key : List (Int × Int)
  kind : Kind
  members : List Proto

structure State where
  entries : List Entry
  singles : List Proto

def union (a b : List Proto) : List Proto := a ++ (b.filter fun x => !a.contains x).eraseDups

def sortById (l : List Proto) : List Proto :=
  l.foldr (fun x acc => (acc.filter (·.id < x.id)) ++ [x] ++ acc.filter (fun y => !(y.id < x.id))) []

def span (wrap : Option Int) (f : Proto → Loc) (g : List Proto) : E Loc := connect ((sortById g).map f) wrap

/-- merge the groups of one pass into the state, by coordinates -/
def addGroups (wrap : Option Int) (kind : Kind) (st : State) (groups : List (List Proto)) : E State := do
  let keyed ← groups.mapM fun g => do
    let l ← span wrap (·.loc) g
    pure (coords l, g)
  let added := fun (k : List (Int × Int)) => (keyed.filter fun x => x.1 == k).foldl (fun acc x => union acc x.2) []
  let entries := st.entries.map fun e => { e with members := union e.members (added e.key) }
  let promoted := st.entries.flatMap fun e =>
    if e.kind != kind then (added e.key).filter fun x => !e.members.contains x else []
  let fresh := ((keyed.map (·.1)).eraseDups.filter fun k => !(st.entries.any fun e => e.key == k)).map
    fun k => ({ key := k, kind := kind, members := added k } : Entry)
  pure ⟨entries ++ fresh, union st.singles promoted⟩

def unitsOf (wrap : Option Int) (f : Proto → Loc) (st : State) (lone : List Proto) : E (List U) := do
  let cs ← st.entries.mapM fun e => do pure (⟨e.members, ← span wrap f e.members⟩ : U)
  let ls ← lone.mapM fun p => do pure (⟨[p], ← span wrap f [p]⟩ : U)
  pure (cs ++ ls)

/-- all pairs (earlier, later) of a list -/
def allPairs {α : Type} : List α → List (α × α)
  | [] => []
  | a :: rest => rest.map (fun b => (a, b)) ++ allPairs rest

/-- for every two units whose spans overlap, the union of their members: the sets whose chains
    (`Linked`) are the documented "transitive groups" of the interleaved / neighbouring kinds -/
def overlapGroups (units : List U) : List (List Proto) :=
  ((allPairs units).filter fun x => locationsOverlap x.1.span x.2.span).map fun x => x.1.members ++ x.2.members

/-- for every two protoclusters sharing a defining gene, the pair: chains are the hybrid groups -/
def shareGroups (ps : List Proto) : List (List Proto) :=
  ((allPairs ps).filter fun x => x.1.defs.any fun g => x.2.defs.contains g).map fun x => [x.1, x.2]

/-- candidates as units with their full extent -/
def candUnits (cs : List Cand) : List U := cs.map fun c => ⟨c.members, c.loc⟩
/-- lone protoclusters as units -/
def protoUnits (f : Proto → Loc) (ps : List Proto) : List U := ps.map fun p => ⟨[p], f p⟩

/-- classes with at least two units, as member lists -/
def bigClasses (us : List U) : List (List U) :=
  (classesOf (fun (a b : U) => locationsOverlap a.span b.span) us).filter fun c => c.length ≥ 2

def shareGene (a b : Proto) : Bool := a.defs.any fun g => b.defs.contains g

/-- the expected candidates `(kind, members sorted by id)` -/
def reference (ps : List Proto) (wrap : Option Int) : E (List (Kind × List Proto)) := do
  if ps.isEmpty then return []
  -- chemical hybrids
  let hclasses := (classesOf shareGene ps).filter fun c => c.length ≥ 2
  let inClass := hclasses.flatten
  let hgroups ← hclasses.mapM fun c => do
    let core ← span wrap (·.core) c
    pure (c ++ ps.filter fun p => !inClass.contains p && locationContainsOther core p.core)
  let absorbed1 := hgroups.flatten
  let st1 ← addGroups wrap .hybrid ⟨[], []⟩ hgroups
  let un1 := ps.filter fun p => !absorbed1.contains p
  -- interleaved: cores
  let iclasses := bigClasses (← unitsOf wrap (·.core) st1 un1)
  let igroups := iclasses.map fun c => c.foldl (fun acc u => union acc u.members) []
  let absorbed2 := (iclasses.flatten.filter fun u => u.members.length == 1 && un1.any fun p => u.members == [p]).flatMap (·.members)
  let un2 := un1.filter fun p => !absorbed2.contains p
  let st2 ← addGroups wrap .interleaved st1 igroups
  -- neighbouring: full extents
  let nclasses := bigClasses (← unitsOf wrap (·.loc) st2 un2)
  let ngroups := nclasses.map fun c => c.foldl (fun acc u => union acc u.members) []
  let st3 ← addGroups wrap .neighbouring st2 ngroups
  -- singles
  let wantSingle := union un2 st3.singles
  let singles ← wantSingle.filterMapM fun p => do
    let k := coords (← span wrap (·.loc) [p])
    if st3.entries.any fun e => e.key == k && e.members.contains p then pure none
    else pure (some (Kind.single, [p]))
  pure ((st3.entries.map fun e => (e.kind, sortById e.members)) ++ singles)

end ASV.CC.Spec
