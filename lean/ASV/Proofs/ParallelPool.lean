/-
  C18 helper lemmas: the `MapResult` machine driven by an arbitrary event list.
  `await_spec` characterises `awaitResults` for every event list whose completion events name
  existing chunks; the remaining lemmas read the stored state back as the sequential result.
-/
import ASV.Proofs.ParallelChunks
namespace ASV.Parallel

variable {α ε β γ : Type}

/-! ### slice assignment = replacing one block -/

theorem setSlice_flatten (cs : Nat) :
    ∀ (i : Nat) (bs : List (List γ)) (r : List γ), Uniform cs bs → i < bs.length →
      bs.flatten.take (i * cs) ++ r ++ bs.flatten.drop ((i + 1) * cs) = (bs.set i r).flatten
  | _, [], _, _, h => by simp at h
  | 0, [b], r, hu, _ => by
    simp only [Uniform] at hu
    simp [List.drop_eq_nil_of_le hu]
  | 0, b :: b' :: rest, r, hu, _ => by
    simp only [Uniform] at hu
    simp only [Nat.zero_mul, List.take_zero, List.nil_append, Nat.zero_add, Nat.one_mul,
      List.flatten_cons, List.set_cons_zero]
    rw [List.drop_left' hu.1]
  | i + 1, [b], r, _, h => by simp at h
  | i + 1, b :: b' :: rest, r, hu, h => by
    simp only [Uniform] at hu
    have ih := setSlice_flatten cs i (b' :: rest) r hu.2 (by simpa using h)
    have e1 : (i + 1) * cs = b.length + i * cs := by rw [Nat.succ_mul, hu.1]; omega
    have e2 : (i + 1 + 1) * cs = b.length + (i + 1) * cs := by rw [Nat.succ_mul (i + 1), hu.1]; omega
    simp only [List.flatten_cons, List.set_cons_succ] at ih ⊢
    rw [e1, e2, List.take_length_add_append, List.drop_length_add_append, List.append_assoc,
      List.append_assoc, ← List.append_assoc (List.take _ _), ih]

/-! ### the value list as blocks -/

/-- the `None` placeholders of one chunk -/
def blank (t : List α) : List (Option β) := List.replicate t.length none

/-- one chunk's stretch of `MapResult._value` after the chunks in `D` have been stored -/
def cell (run : List α → Except ε (List β)) (D : List Nat) (j : Nat) (t : List α) : List (Option β) :=
  if j ∈ D then
    match run t with
    | .ok r => r.map some
    | .error _ => blank t
  else blank t

def blocksOf (run : List α → Except ε (List β)) (tasks : List (List α)) (D : List Nat) : List (List (Option β)) :=
  tasks.mapIdx (cell run D)

/-- a batch returns one result per call (true of `list(map(...))`) -/
def LengthPreserving (run : List α → Except ε (List β)) : Prop :=
  ∀ t r, run t = .ok r → r.length = t.length

theorem cell_length (run : List α → Except ε (List β)) (hrun : LengthPreserving run) (D : List Nat)
    (j : Nat) (t : List α) : (cell run D j t).length = t.length := by
  unfold cell
  split
  · split
    · rename_i r hr
      simp [hrun t r hr]
    · simp [blank]
  · simp [blank]

theorem blocksOf_lengths (run : List α → Except ε (List β)) (hrun : LengthPreserving run)
    (tasks : List (List α)) (D : List Nat) :
    (blocksOf run tasks D).map List.length = tasks.map List.length := by
  apply List.ext_getElem?
  intro j
  simp only [blocksOf, List.getElem?_map, List.getElem?_mapIdx]
  cases tasks[j]? with
  | none => rfl
  | some t => simp [cell_length run hrun]

theorem blocksOf_uniform (run : List α → Except ε (List β)) (hrun : LengthPreserving run)
    (tasks : List (List α)) (D : List Nat) (cs : Nat)
    (hU : Uniform cs tasks) : Uniform cs (blocksOf run tasks D) :=
  Uniform.of_lengths cs tasks _ (blocksOf_lengths run hrun tasks D).symm hU

theorem flatten_blank (tasks : List (List α)) :
    ((tasks.map (blank (β := β))).flatten) = List.replicate tasks.flatten.length none := by
  induction tasks with
  | nil => rfl
  | cons t rest ih =>
    simp only [List.map_cons, List.flatten_cons, ih, blank, List.length_append,
      List.replicate_append_replicate]

theorem blocksOf_nil (run : List α → Except ε (List β)) (tasks : List (List α)) :
    (blocksOf run tasks []).flatten = List.replicate tasks.flatten.length none := by
  rw [← flatten_blank]
  congr 1
  apply List.ext_getElem?
  intro j
  simp only [blocksOf, List.getElem?_mapIdx, List.getElem?_map]
  cases tasks[j]? with
  | none => rfl
  | some t => simp [cell]

theorem blocksOf_set (run : List α → Except ε (List β)) (tasks : List (List α)) (D : List Nat) (i : Nat)
    (t : List α) (r : List β) (ht : tasks[i]? = some t) (hr : run t = .ok r) :
    (blocksOf run tasks D).set i (r.map some) = blocksOf run tasks (i :: D) := by
  apply List.ext_getElem?
  intro j
  rw [List.getElem?_set]
  simp only [blocksOf, List.getElem?_mapIdx, List.length_mapIdx]
  by_cases hij : i = j
  · subst hij
    have hlt : i < tasks.length := by
      rcases Nat.lt_or_ge i tasks.length with h | h
      · exact h
      · rw [List.getElem?_eq_none h] at ht; cases ht
    have hget : tasks[i] = t := by
      rw [List.getElem?_eq_getElem hlt] at ht
      exact Option.some.inj ht
    simp [hlt, cell, hget, hr]
  · simp only [hij, if_false]
    cases tasks[j]? with
    | none => rfl
    | some t' =>
      have : (j ∈ i :: D) ↔ j ∈ D := by
        simp only [List.mem_cons]
        constructor
        · rintro (h | h)
          · exact absurd h.symm hij
          · exact h
        · exact Or.inr
      simp [cell, this]

/-- the chunk's stretch once stored successfully -/
def full (run : List α → Except ε (List β)) (t : List α) : List (Option β) :=
  match run t with
  | .ok r => r.map some
  | .error _ => blank t

theorem blocksOf_all (run : List α → Except ε (List β)) (tasks : List (List α)) (D : List Nat)
    (hD : ∀ j, j < tasks.length → j ∈ D) : blocksOf run tasks D = tasks.map (full run) := by
  apply List.ext_getElem?
  intro j
  simp only [blocksOf, List.getElem?_mapIdx, List.getElem?_map]
  rcases Nat.lt_or_ge j tasks.length with h | h
  · have hj := hD j h
    cases tasks[j]? with
    | none => rfl
    | some t => simp [cell, hj, full]
  · rw [List.getElem?_eq_none h]; rfl

/-! ### the machine -/

theorem MapResult.set_chunksize (mr : MapResult ε β) (i : Nat) (sr : Except ε (List β)) :
    (mr.set i sr).chunksize = mr.chunksize := by
  unfold MapResult.set; split <;> rfl
theorem MapResult.set_numberLeft (mr : MapResult ε β) (i : Nat) (sr : Except ε (List β)) :
    (mr.set i sr).numberLeft = mr.numberLeft - 1 := by
  unfold MapResult.set; split <;> rfl
theorem MapResult.set_ready (mr : MapResult ε β) (i : Nat) (sr : Except ε (List β)) :
    (mr.set i sr).ready = (mr.ready || mr.numberLeft - 1 == 0) := by
  unfold MapResult.set; split <;> rfl

/-- the abstract content of `_success`/`_value`: the set of chunks stored so far, or the first
    exception that arrived -/
def track (run : List α → Except ε (List β)) (tasks : List (List α)) (st : Except ε (List Nat)) (i : Nat) :
    Except ε (List Nat) :=
  match st with
  | .error e => .error e
  | .ok D =>
    match tasks[i]? with
    | none => .ok D
    | some t =>
      match run t with
      | .ok _ => .ok (i :: D)
      | .error e => .error e

def Rel (run : List α → Except ε (List β)) (tasks : List (List α)) (cs : Nat) (mr : MapResult ε β)
    (st : Except ε (List Nat)) : Prop :=
  mr.chunksize = cs ∧
  match st with
  | .ok D => mr.state = .ok (blocksOf run tasks D).flatten
  | .error e => mr.state = .error e

theorem Rel.set (run : List α → Except ε (List β)) (hrun : LengthPreserving run) (tasks : List (List α)) (cs : Nat) (hU : Uniform cs tasks)
    (mr : MapResult ε β) (st : Except ε (List Nat)) (h : Rel run tasks cs mr st) (i : Nat) (t : List α)
    (ht : tasks[i]? = some t) : Rel run tasks cs (mr.set i (run t)) (track run tasks st i) := by
  obtain ⟨hcs, hst⟩ := h
  refine ⟨by rw [MapResult.set_chunksize, hcs], ?_⟩
  cases st with
  | error e =>
    simp only at hst
    simp only [track, MapResult.set, hst]
  | ok D =>
    simp only at hst
    have hlt : i < tasks.length := by
      rcases Nat.lt_or_ge i tasks.length with h | h
      · exact h
      · rw [List.getElem?_eq_none h] at ht; cases ht
    cases hr : run t with
    | error e => simp only [track, ht, hr, MapResult.set, hst]
    | ok r =>
      simp only [track, ht, hr, MapResult.set, hst, hcs]
      have hlen : i < (blocksOf run tasks D).length := by simpa [blocksOf] using hlt
      rw [setSlice_flatten cs i _ _ (blocksOf_uniform run hrun tasks D cs hU) hlen,
        blocksOf_set run tasks D i t r ht hr]

/-- what `get()` yields for an abstract state -/
def outcomeOf (run : List α → Except ε (List β)) (tasks : List (List α)) : Except ε (List Nat) → Outcome ε β
  | .ok D => .returned (blocksOf run tasks D).flatten
  | .error e => .raised (.task e)

theorem Rel.get (run : List α → Except ε (List β)) (tasks : List (List α)) (cs : Nat) (mr : MapResult ε β)
    (st : Except ε (List Nat)) (h : Rel run tasks cs mr st) : mr.get = outcomeOf run tasks st := by
  obtain ⟨_, hst⟩ := h
  cases st with
  | error e => simp only at hst; simp [MapResult.get, outcomeOf, hst]
  | ok D => simp only at hst; simp [MapResult.get, outcomeOf, hst]

theorem doneIdxs_done (i : Nat) (rest : List Event) : doneIdxs (.done i :: rest) = i :: doneIdxs rest := rfl
theorem doneIdxs_timeout (rest : List Event) : doneIdxs (.timeout :: rest) = doneIdxs rest := rfl
theorem doneIdxs_died (w : Nat) (rest : List Event) : doneIdxs (.died w :: rest) = doneIdxs rest := rfl
theorem doneIdxs_bystander (p : Nat) (rest : List Event) : doneIdxs (.bystander p :: rest) = doneIdxs rest := rfl

theorem comprehension_lengthPreserving (f : α → Except ε β) : LengthPreserving (comprehension f) :=
  fun t r h => comprehension_length f t r h

/-- the chunk indices whose results the wait loop stores before it stops (at an interruption, or
    when `left` reaches zero) -/
def processed (ht : Bool) : Nat → List Event → List Nat
  | 0, _ => []
  | _ + 1, [] => []
  | l + 1, .done i :: rest => i :: processed ht l rest
  | l + 1, .timeout :: rest => if ht then [] else processed ht (l + 1) rest
  | _ + 1, .died _ :: _ => []
  | l + 1, .bystander _ :: rest => processed ht (l + 1) rest

/-- **the wait loop, for every event list**: with `left` chunks outstanding, the caller sees the
    first interruption that precedes the `left`-th completion; failing that it blocks if fewer
    than `left` completions are scheduled, and otherwise gets the state reached after exactly
    the first `left` completions — later events are never looked at. -/
theorem await_spec (run : List α → Except ε (List β)) (hrun : LengthPreserving run) (tasks : List (List α)) (cs : Nat) (hU : Uniform cs tasks)
    (ht : Bool) :
    ∀ (evs : List Event) (left : Nat) (mr : MapResult ε β) (st : Except ε (List Nat)),
      Rel run tasks cs mr st → mr.numberLeft = (left : Int) → mr.ready = (mr.numberLeft == 0) →
      (∀ i ∈ processed ht left evs, i < tasks.length) →
      awaitResultsWith run tasks ht mr evs =
        match interruption (ε := ε) ht left evs with
        | some err => .raised err
        | none =>
          if (processed ht left evs).length < left then .blocked
          else outcomeOf run tasks ((processed ht left evs).foldl (track run tasks) st) := by
  intro evs
  induction evs with
  | nil =>
    intro left mr st hrel hleft hready _
    cases left with
    | zero =>
      have : mr.ready = true := by rw [hready, hleft]; rfl
      rw [awaitResultsWith.eq_def]
      simp [this, interruption, processed, Rel.get run tasks cs mr st hrel]
    | succ l =>
      have : mr.ready = false := by rw [hready, hleft]; simp; omega
      rw [awaitResultsWith.eq_def]
      simp [this, interruption, processed]
  | cons ev rest ih =>
    intro left mr st hrel hleft hready hvalid
    cases left with
    | zero =>
      have : mr.ready = true := by rw [hready, hleft]; rfl
      rw [awaitResultsWith.eq_def]
      simp [this, interruption, processed, Rel.get run tasks cs mr st hrel]
    | succ l =>
      have hnr : mr.ready = false := by rw [hready, hleft]; simp; omega
      rw [awaitResultsWith.eq_def]
      simp only [hnr, Bool.false_eq_true, if_false]
      cases ev with
      | timeout =>
        cases ht with
        | true => simp [interruption]
        | false =>
          have hv : ∀ i ∈ processed false (l + 1) rest, i < tasks.length := by
            intro i hi; exact hvalid i (by simpa [processed] using hi)
          simp only [Bool.false_eq_true, if_false]
          rw [ih (l + 1) mr st hrel hleft hready hv]
          simp only [interruption, processed, Bool.false_eq_true, if_false]
      | died w => simp [interruption]
      | bystander p =>
        have hv : ∀ i ∈ processed ht (l + 1) rest, i < tasks.length := by
          intro i hi; exact hvalid i (by simpa [processed] using hi)
        dsimp only
        rw [ih (l + 1) mr st hrel hleft hready hv]
        simp only [interruption, processed] <;> rfl
      | done i =>
        have hi : i < tasks.length := hvalid i (by simp [processed])
        have hti : tasks[i]? = some tasks[i] := List.getElem?_eq_getElem hi
        have hv : ∀ j ∈ processed ht l rest, j < tasks.length := by
          intro j hj; exact hvalid j (by simp only [processed]; exact List.mem_cons_of_mem _ hj)
        simp only [hti]
        rw [ih l (mr.set i (run tasks[i])) (track run tasks st i)
          (Rel.set run hrun tasks cs hU mr st hrel i tasks[i] hti)
          (by rw [MapResult.set_numberLeft, hleft]; omega)
          (by rw [MapResult.set_ready, MapResult.set_numberLeft, hnr]; simp)
          hv]
        simp only [interruption, processed, List.length_cons, Nat.add_lt_add_iff_right,
          List.foldl_cons]

/-! ### reading the abstract state back -/

theorem foldl_track_error (run : List α → Except ε (List β)) (tasks : List (List α)) (e : ε) (ds : List Nat) :
    ds.foldl (track run tasks) (.error e) = .error e := by
  induction ds with
  | nil => rfl
  | cons i rest ih => simpa [track] using ih

/-- a stored exception is the exception of a chunk that completed -/
theorem foldl_track_is_error (run : List α → Except ε (List β)) (tasks : List (List α)) :
    ∀ (ds : List Nat) (D₀ : List Nat) (e : ε), ds.foldl (track run tasks) (.ok D₀) = .error e →
      ∃ i ∈ ds, ∃ t, tasks[i]? = some t ∧ run t = .error e
  | [], _, _, h => by cases h
  | i :: rest, D₀, e, h => by
    simp only [List.foldl_cons, track] at h
    cases hti : tasks[i]? with
    | none =>
      simp only [hti] at h
      obtain ⟨j, hj, x⟩ := foldl_track_is_error run tasks rest D₀ e h
      exact ⟨j, by simp [hj], x⟩
    | some t =>
      simp only [hti] at h
      cases hr : run t with
      | error e' =>
        simp only [hr, foldl_track_error] at h
        cases h
        exact ⟨i, by simp, t, hti, hr⟩
      | ok r =>
        simp only [hr] at h
        obtain ⟨j, hj, x⟩ := foldl_track_is_error run tasks rest (i :: D₀) e h
        exact ⟨j, by simp [hj], x⟩

/-- a state without exception: every completed chunk succeeded and is recorded -/
theorem foldl_track_is_ok (run : List α → Except ε (List β)) (tasks : List (List α)) :
    ∀ (ds : List Nat) (D₀ D : List Nat), ds.foldl (track run tasks) (.ok D₀) = .ok D →
      (∀ i ∈ ds, ∀ t, tasks[i]? = some t → ∃ r, run t = .ok r) ∧
      (∀ i ∈ ds, i < tasks.length → i ∈ D) ∧ (∀ i ∈ D₀, i ∈ D)
  | [], D₀, D, h => by
    cases h
    exact ⟨by simp, by simp, fun _ h => h⟩
  | i :: rest, D₀, D, h => by
    simp only [List.foldl_cons, track] at h
    cases hti : tasks[i]? with
    | none =>
      simp only [hti] at h
      obtain ⟨h1, h2, h3⟩ := foldl_track_is_ok run tasks rest D₀ D h
      refine ⟨?_, ?_, h3⟩
      · intro j hj t htj
        rcases List.mem_cons.mp hj with rfl | hj
        · rw [hti] at htj; cases htj
        · exact h1 j hj t htj
      · intro j hj hlt
        rcases List.mem_cons.mp hj with rfl | hj
        · rw [List.getElem?_eq_getElem hlt] at hti; cases hti
        · exact h2 j hj hlt
    | some t =>
      simp only [hti] at h
      cases hr : run t with
      | error e' =>
        simp only [hr, foldl_track_error] at h
        cases h
      | ok r =>
        simp only [hr] at h
        obtain ⟨h1, h2, h3⟩ := foldl_track_is_ok run tasks rest (i :: D₀) D h
        refine ⟨?_, ?_, fun j hj => h3 j (by simp [hj])⟩
        · intro j hj t' htj
          rcases List.mem_cons.mp hj with rfl | hj
          · rw [hti] at htj; cases htj; exact ⟨r, hr⟩
          · exact h1 j hj t' htj
        · intro j hj hlt
          rcases List.mem_cons.mp hj with rfl | hj
          · exact h3 j (by simp)
          · exact h2 j hj hlt

/-! ### stateless calls: a batch is a comprehension -/

/-- if every chunk succeeds so does the whole batch, and the stored blocks are its result -/
theorem flatten_full (f : α → Except ε β) :
    ∀ (tasks : List (List α)), (∀ t ∈ tasks, ∃ r, comprehension f t = .ok r) →
      ∃ r, comprehension f tasks.flatten = .ok r ∧ (tasks.map (full (comprehension f))).flatten = r.map some
  | [], _ => ⟨[], rfl, rfl⟩
  | t :: rest, h => by
    obtain ⟨r₁, h₁⟩ := h t (by simp)
    obtain ⟨r₂, h₂, e₂⟩ := flatten_full f rest (fun t' ht' => h t' (by simp [ht']))
    refine ⟨r₁ ++ r₂, ?_, ?_⟩
    · simp only [List.flatten_cons, comprehension_append, h₁, h₂]
    · simp only [List.map_cons, List.flatten_cons, e₂, full, h₁, List.map_append]

/-- a failing chunk makes the whole batch fail -/
theorem flatten_error (f : α → Except ε β) :
    ∀ (tasks : List (List α)) (t : List α) (e : ε), t ∈ tasks → comprehension f t = .error e →
      ∃ e', comprehension f tasks.flatten = .error e'
  | [], _, _, h, _ => by simp at h
  | t₀ :: rest, t, e, h, he => by
    simp only [List.flatten_cons, comprehension_append]
    cases h₀ : comprehension f t₀ with
    | error e₀ => exact ⟨e₀, rfl⟩
    | ok r₀ =>
      have hmem : t ∈ rest := by
        rcases List.mem_cons.mp h with h | h
        · subst h; rw [h₀] at he; cases he
        · exact h
      obtain ⟨e', he'⟩ := flatten_error f rest t e hmem he
      exact ⟨e', by simp only [he']⟩

end ASV.Parallel
