/-
  `connect_locations` on a circular record: from the inputs (single-part locations and
  origin-spanning spans) to the closed form on reduced locations (C04).
-/
import ASV.Proofs.LocConnectRingN
set_option linter.unusedSimpArgs false
set_option linter.unusedVariables false
namespace ASV

/-- an origin-spanning span on the reverse strand, in Biopython's part order -/
def areaTwoRev (x y L : Int) : Loc := .compound [⟨0, y, .rev⟩, ⟨x, L, .rev⟩]

/-- the inputs covered: a location that does not bridge the origin, with all parts non-empty and
    inside `[0, L]` (single-part locations of any strand, genes with introns, …), or an
    origin-spanning span `[x, L) + [0, y)` with `0 < y ≤ x < L` (any single strand; on the reverse
    strand also in Biopython's part order `[0, y)(−), [x, L)(−)`) -/
def RingIn (L : Int) (l : Loc) : Prop :=
  (l.parts ≠ [] ∧ bridgesOrigin l = false ∧ ∀ p ∈ l.parts, 0 ≤ p.lo ∧ p.lo < p.hi ∧ p.hi ≤ L) ∨
  (∃ x y s, l = areaTwo x y L s ∧ 0 < y ∧ y ≤ x ∧ x < L) ∨
  (∃ x y, l = areaTwoRev x y L ∧ 0 < y ∧ y ≤ x ∧ x < L)

/-- what `_reduce_parts_to_location` makes of an input -/
def toR (l : Loc) : RLoc :=
  if bridgesOrigin l then
    match l.parts with
    | [p, q] => if p.strand == .rev then .two q.lo p.hi else .two p.lo q.hi
    | _ => .one default
  else .one ⟨l.start, l.end, l.strand⟩

theorem start_end_attained (l : Loc) (hne : l.parts ≠ []) :
    (∃ p ∈ l.parts, l.start = p.lo) ∧ (∃ p ∈ l.parts, l.end = p.hi) := by
  cases l with
  | simple q => exact ⟨⟨q, by simp [Loc.parts], rfl⟩, ⟨q, by simp [Loc.parts], rfl⟩⟩
  | compound ps =>
    simp only [Loc.parts] at hne
    have h1 : ps.map (·.lo) ≠ [] := by simpa using hne
    have h2 : ps.map (·.hi) ≠ [] := by simpa using hne
    obtain ⟨q, hq, e⟩ := List.mem_map.1 (minList_mem h1)
    obtain ⟨q2, hq2, e2⟩ := List.mem_map.1 (maxList_mem h2)
    exact ⟨⟨q, hq, e.symm⟩, ⟨q2, hq2, e2.symm⟩⟩

theorem splitBridging_twoRev (x y L : Int) (hy0 : 0 < y) (hyx : y ≤ x) (hxL : x < L) :
    splitBridging (areaTwoRev x y L) = .ok ([⟨0, y, .rev⟩], [⟨x, L, .rev⟩]) := by
  have c1 : ¬ (x < 0) := by omega
  have hno : locationsOverlap (partsHull [(⟨0, y, .rev⟩ : Part)]) (partsHull [(⟨x, L, .rev⟩ : Part)]) = false := by
    simp only [partsHull, hullOf, List.map, minList, maxList, List.foldl, Loc.start, Loc.end, locationsOverlap,
      Loc.parts, List.any_cons, List.any_nil, Bool.or_false, partsOverlap, Part.mem, Bool.or_eq_false_iff,
      Bool.and_eq_false_iff, decide_eq_false_iff_not]
    omega
  have hstr : (Loc.compound [(⟨0, y, .rev⟩ : Part), ⟨x, L, .rev⟩]).strand = .rev := by simp [Loc.strand]
  simp only [areaTwoRev, splitBridging, strandsUsed, List.foldl, List.contains_nil, Bool.false_eq_true, if_false, List.nil_append,
    List.contains_cons, beq_self_eq_true, Bool.true_or, if_true, List.length_singleton, hstr, splitRev, c1,
    List.reverse_cons, List.reverse_nil, List.isEmpty_cons, Bool.or_self, isValidSplit, hno,
    List.map, sortInts, List.foldr, insertInt, beq_self_eq_true, Bool.and_self, Bool.not_true,
    bind, Except.bind, pure, Except.pure, throw, throwThe, MonadExceptOf.throw]
  simp [hno, insertInt]

/-- the reduced form of each kind of input -/
theorem toR_eq (L : Int) (hL : 0 < L) (l : Loc) (h : RingIn L l) :
    (l.parts ≠ [] ∧ bridgesOrigin l = false ∧ (∀ p ∈ l.parts, 0 ≤ p.lo ∧ p.lo < p.hi ∧ p.hi ≤ L) ∧
      toR l = .one ⟨l.start, l.end, l.strand⟩) ∨
    (∃ x y s, s ≠ .rev ∧ l = areaTwo x y L s ∧ 0 < y ∧ y ≤ x ∧ x < L ∧ toR l = .two x y) ∨
    (∃ x y, l = areaTwoRev x y L ∧ 0 < y ∧ y ≤ x ∧ x < L ∧ toR l = .two x y) := by
  rcases h with ⟨hne, hb, hp⟩ | ⟨x, y, s, rfl, hy0, hyx, hxL⟩ | ⟨x, y, rfl, hy0, hyx, hxL⟩
  · exact Or.inl ⟨hne, hb, hp, by simp only [toR, hb, Bool.false_eq_true, if_false]⟩
  · by_cases hs : s = .rev
    · subst hs
      have hb : bridgesOrigin (areaTwo x y L .rev) = false := by
        have : ¬ x < 0 := by omega
        simp [areaTwo, bridgesOrigin, Loc.strand, orderInvalid, this]
      refine Or.inl ⟨by simp [areaTwo, Loc.parts], hb, ?_, by simp only [toR, hb, Bool.false_eq_true, if_false]⟩
      intro p hp
      simp only [areaTwo, Loc.parts, List.mem_cons, List.mem_nil_iff, or_false] at hp
      rcases hp with rfl | rfl <;> (dsimp only; omega)
    · have hb : bridgesOrigin (areaTwo x y L s) = true := by
        have h1 : x > 0 := by omega
        have h2 : ¬ x ≤ 0 := by omega
        cases s <;> simp [areaTwo, bridgesOrigin, Loc.strand, orderInvalid, sortInts, insertInt, h1, h2] at hs ⊢
        all_goals omega
      have hsr : (s == Strand.rev) = false := by simpa using hs
      have ht : toR (areaTwo x y L s) = .two x y := by
        simp only [toR, hb, if_true]
        simp only [areaTwo, Loc.parts, hsr, Bool.false_eq_true, if_false]
      exact Or.inr (Or.inl ⟨x, y, s, hs, rfl, hy0, hyx, hxL, ht⟩)
  · have hb : bridgesOrigin (areaTwoRev x y L) = true := by
      have h1 : 0 < x := by omega
      simp [areaTwoRev, bridgesOrigin, Loc.strand, orderInvalid, h1]
    have ht : toR (areaTwoRev x y L) = .two x y := by
      simp only [toR, hb, if_true]
      simp only [areaTwoRev, Loc.parts, beq_self_eq_true, if_true]
    exact Or.inr (Or.inr ⟨x, y, rfl, hy0, hyx, hxL, ht⟩)

/-- the reduced form of an input: well-formed, what `_reduce_parts_to_location` returns, bridging
    exactly when it has two parts, and covering every base of the input -/
theorem toR_spec (L : Int) (hL : 0 < L) (l : Loc) (h : RingIn L l) :
    (toR l).OK L ∧ reduceParts l.parts (some L) = .ok ((toR l).toLoc L) ∧
      bridgesOrigin l = (toR l).isTwo ∧ ∀ i, l.mem i = true → ((toR l).toLoc L).mem i = true := by
  have hL' : ¬ L ≤ 0 := by omega
  rcases toR_eq L hL l h with ⟨hne, hb, hp, ht⟩ | ⟨x, y, s, hs, rfl, hy0, hyx, hxL, ht⟩ | ⟨x, y, rfl, hy0, hyx, hxL, ht⟩
  · rw [ht]
    obtain ⟨⟨p1, hp1, e1⟩, ⟨p2, hp2, e2⟩⟩ := start_end_attained l hne
    have b1 := hp p1 hp1
    have b2 := hp p2 hp2
    have b3 := start_le_part l p2 hp2
    refine ⟨by simp only [RLoc.OK]; omega, reduceParts_nonbridging l hne hb _, hb, ?_⟩
    intro i hi
    simp only [Loc.mem, List.any_eq_true, Part.mem_iff] at hi
    obtain ⟨p, hpm, h1, h2⟩ := hi
    have := start_le_part l p hpm
    simp only [RLoc.toLoc, mem_simple]; omega
  · rw [ht]
    have hb := bridges_two x y L hy0 hyx
    have hb' : bridgesOrigin (areaTwo x y L s) = true := by
      have h1 : x > 0 := by omega
      have h2 : ¬ x ≤ 0 := by omega
      cases s <;> simp [areaTwo, bridgesOrigin, Loc.strand, orderInvalid, sortInts, insertInt, h1, h2] at hs ⊢
      all_goals omega
    refine ⟨⟨hy0, hyx, hxL⟩, ?_, hb', ?_⟩
    · have hb'' := hb'
      simp only [areaTwo] at hb''
      simp only [areaTwo, Loc.parts, reduceParts, hb'', if_true, hL', if_false,
        splitBridging_two x y L s hs hy0 hyx hxL, List.map, minList, maxList, List.foldl, bind, Except.bind,
        pure, Except.pure, RLoc.toLoc]
    · intro i hi
      rw [areaTwo, mem_two] at hi
      simp only [RLoc.toLoc, mem_two, fl]
      exact hi
  · rw [ht]
    have hb : bridgesOrigin (areaTwoRev x y L) = true := by
      have h1 : 0 < x := by omega
      simp [areaTwoRev, bridgesOrigin, Loc.strand, orderInvalid, h1]
    refine ⟨⟨hy0, hyx, hxL⟩, ?_, hb, ?_⟩
    · have hb' := hb
      have hsb := splitBridging_twoRev x y L hy0 hyx hxL
      simp only [areaTwoRev] at hb' hsb
      simp only [areaTwoRev, Loc.parts, reduceParts, hb', if_true, hL', if_false, hsb,
        List.map, minList, maxList, List.foldl, bind, Except.bind, pure, Except.pure, RLoc.toLoc]
    · intro i hi
      rw [areaTwoRev, mem_two] at hi
      simp only [RLoc.toLoc, mem_two, fl]
      dsimp only at hi ⊢; omega

theorem mapM_reduce_in (L : Int) (hL : 0 < L) (ls : List Loc) (h : ∀ l ∈ ls, RingIn L l) :
    ls.mapM (fun l => reduceParts l.parts (some L)) = .ok ((ls.map toR).map (RLoc.toLoc L)) := by
  induction ls with
  | nil => rfl
  | cons l ls ih =>
    rw [List.mapM_cons, (toR_spec L hL l (h l (by simp))).2.1, ih (fun x hx => h x (List.mem_cons_of_mem _ hx))]
    rfl

theorem any_bridges_in (L : Int) (hL : 0 < L) (ls : List Loc) (h : ∀ l ∈ ls, RingIn L l) :
    ls.any bridgesOrigin = (ls.map toR).any RLoc.isTwo := by
  induction ls with
  | nil => rfl
  | cons l ls ih =>
    rw [List.map_cons, List.any_cons, List.any_cons, (toR_spec L hL l (h l (by simp))).2.2.1,
      ih (fun x hx => h x (List.mem_cons_of_mem _ hx))]

theorem toR_ok (L : Int) (hL : 0 < L) (ls : List Loc) (h : ∀ l ∈ ls, RingIn L l) : ∀ r ∈ ls.map toR, r.OK L := by
  intro r hr
  obtain ⟨l, hl, rfl⟩ := List.mem_map.1 hr
  exact (toR_spec L hL l (h l hl)).1

/-- `connect_locations` on a ring of length `L`, for any non-empty list of single-part locations
    and origin-spanning spans: it succeeds, with the closed form `connR` -/
theorem connect_ring_closed (ls : List Loc) (L : Int) (hne : ls ≠ []) (hL : 0 < L) (h : ∀ l ∈ ls, RingIn L l) :
    connect ls (some L) = .ok (connR (ls.map toR) L) := by
  have hok := toR_ok L hL ls h
  have hred := mapM_reduce_in L hL ls h
  have hany := any_bridges_in L hL ls h
  unfold connR connect
  cases htwo : (ls.map toR).any RLoc.isTwo
  · rw [if_neg (by simp)]
    obtain ⟨ps, hps⟩ := all_one _ htwo
    rw [hps] at hok hred ⊢
    rw [map_one_toLoc] at hred
    have hpne : ps ≠ [] := by
      intro e; subst e
      simp only [List.map_nil, List.map_eq_nil_iff] at hps
      exact hne hps
    exact connectLocations_A 2 ls L ps hne hpne hL hok hred (by rw [hany, htwo])
  · rw [if_pos rfl]
    exact connectLocations_B 1 ls L _ hne hL hok hred (by rw [hany, htwo]) htwo

/-- reducing keeps `start` and `end` -/
theorem toR_start_end (L : Int) (hL : 0 < L) (l : Loc) (h : RingIn L l) :
    ((toR l).toLoc L).start = l.start ∧ ((toR l).toLoc L).end = l.end := by
  rcases toR_eq L hL l h with ⟨hne, hb, hp, ht⟩ | ⟨x, y, s, hs, rfl, hy0, hyx, hxL, ht⟩ | ⟨x, y, rfl, hy0, hyx, hxL, ht⟩
  · rw [ht]; exact ⟨rfl, rfl⟩
  · rw [ht]; exact ⟨rfl, rfl⟩
  · rw [ht]; simp only [RLoc.toLoc, areaTwoRev, Loc.start, Loc.end, List.map, minList, maxList, List.foldl, fl]; omega

/-- an input whose reduced form has exactly its bases: a single part, or an origin-spanning span.
    (A location with several parts that does not bridge the origin — a gene with introns, among them
    the two-exon reverse-strand location `[x, L)(−), [0, y)(−)` — is reduced to its line hull.) -/
def RingInStrict (L : Int) (l : Loc) : Prop :=
  (∃ p, l.parts = [p] ∧ 0 ≤ p.lo ∧ p.lo < p.hi ∧ p.hi ≤ L) ∨
  (∃ x y s, s ≠ .rev ∧ l = areaTwo x y L s ∧ 0 < y ∧ y ≤ x ∧ x < L) ∨
  (∃ x y, l = areaTwoRev x y L ∧ 0 < y ∧ y ≤ x ∧ x < L)

theorem single_not_bridging (l : Loc) (p : Part) (hp : l.parts = [p]) : bridgesOrigin l = false := by
  cases l with
  | simple q => rfl
  | compound ps =>
    simp only [Loc.parts] at hp; subst hp
    cases hs : p.strand <;> simp [bridgesOrigin, Loc.strand, hs, orderInvalid, sortInts, insertInt]

theorem RingInStrict.ringIn {L : Int} {l : Loc} (h : RingInStrict L l) : RingIn L l := by
  rcases h with ⟨p, hp, h0, h1, h2⟩ | ⟨x, y, s, _, h⟩ | h
  · refine Or.inl ⟨by rw [hp]; simp, single_not_bridging l p hp, ?_⟩
    intro q hq; rw [hp] at hq; simp only [List.mem_singleton] at hq; subst hq; exact ⟨h0, h1, h2⟩
  · exact Or.inr (Or.inl ⟨x, y, s, h⟩)
  · exact Or.inr (Or.inr h)

theorem toR_mem_iff (L : Int) (hL : 0 < L) (l : Loc) (h : RingInStrict L l) (i : Int) :
    ((toR l).toLoc L).mem i = true ↔ l.mem i = true := by
  rcases h with ⟨p, hp, h0, h1, h2⟩ | ⟨x, y, s, hs, rfl, hy0, hyx, hxL⟩ | ⟨x, y, rfl, hy0, hyx, hxL⟩
  · have hb := single_not_bridging l p hp
    have ht : toR l = .one ⟨l.start, l.end, l.strand⟩ := by simp only [toR, hb, Bool.false_eq_true, if_false]
    obtain ⟨e1, e2⟩ := start_single l p hp
    rw [ht]
    simp only [RLoc.toLoc]
    rw [mem_simple]
    simp only [e1, e2, Loc.mem, hp, List.any_cons, List.any_nil, Bool.or_false, Part.mem_iff]
  · rcases toR_eq L hL _ (Or.inr (Or.inl ⟨x, y, s, rfl, hy0, hyx, hxL⟩)) with ⟨_, hb, _, _⟩ | ⟨x', y', s', _, e, _, _, _, ht⟩ | ⟨x', y', e, _⟩
    · exfalso
      have h1 : x > 0 := by omega
      have h2 : ¬ x ≤ 0 := by omega
      cases s <;> simp [areaTwo, bridgesOrigin, Loc.strand, orderInvalid, sortInts, insertInt, h1, h2] at hs hb
      all_goals omega
    · simp only [areaTwo, Loc.compound.injEq, List.cons.injEq, Part.mk.injEq, and_true] at e
      obtain ⟨⟨rfl, _, _⟩, _, rfl, _⟩ := e
      rw [ht, areaTwo, mem_two]; simp only [RLoc.toLoc, mem_two, fl]
    · exfalso; simp [areaTwo, areaTwoRev] at e; omega
  · rcases toR_eq L hL _ (Or.inr (Or.inr ⟨x, y, rfl, hy0, hyx, hxL⟩)) with ⟨_, hb, _, _⟩ | ⟨x', y', s', _, e, _⟩ | ⟨x', y', e, _, _, _, ht⟩
    · exfalso
      have h1 : 0 < x := by omega
      simp [areaTwoRev, bridgesOrigin, Loc.strand, orderInvalid, h1] at hb
    · exfalso; simp [areaTwo, areaTwoRev] at e; omega
    · simp only [areaTwoRev, Loc.compound.injEq, List.cons.injEq, Part.mk.injEq, and_true, true_and] at e
      obtain ⟨rfl, rfl, _⟩ := e
      rw [ht, areaTwoRev, mem_two]; simp only [RLoc.toLoc, mem_two, fl]; omega

end ASV
