/-
  `connect_locations` on a circular record: from the inputs (locations that do not bridge the
  origin, origin-spanning spans, origin-bridging genes) to the closed form on reduced locations (C04).
-/
import ASV.Proofs.LocConnectRingN
set_option linter.unusedSimpArgs false
set_option linter.unusedVariables false
namespace ASV

/-- an origin-spanning span on the reverse strand, in Biopython's part order -/
def areaTwoRev (x y L : Int) : Loc := .compound [⟨0, y, .rev⟩, ⟨x, L, .rev⟩]

def Loc.Inside (L : Int) (l : Loc) : Prop := ∀ p ∈ l.parts, 0 ≤ p.lo ∧ p.lo < p.hi ∧ p.hi ≤ L

/-- inputs whose line hull is meaningful: a location that does not bridge the origin, with all
    parts non-empty and inside `[0, L]` (single-part locations of any strand, genes with introns, …),
    or an origin-spanning span `[x, L) + [0, y)` with `0 < y ≤ x < L` (any single strand; on the
    reverse strand also in Biopython's part order `[0, y)(−), [x, L)(−)`) -/
def RingInSpan (L : Int) (l : Loc) : Prop :=
  (l.parts ≠ [] ∧ bridgesOrigin l = false ∧ l.Inside L) ∨
  (∃ x y s, l = areaTwo x y L s ∧ 0 < y ∧ y ≤ x ∧ x < L) ∨
  (∃ x y, l = areaTwoRev x y L ∧ 0 < y ∧ y ≤ x ∧ x < L)

/-- all inputs covered: parts non-empty and inside `[0, L]`, and when the location bridges the
    origin (`location_bridges_origin`) it can be split there (`split_origin_bridging_location`
    does not raise) — what `ensure_valid_locations` guarantees for the features of a record -/
def RingIn (L : Int) (l : Loc) : Prop :=
  l.parts ≠ [] ∧ l.Inside L ∧
  (bridgesOrigin l = true → ∃ lower upper, splitBridging l = .ok (lower, upper))

/-- what `_reduce_parts_to_location` makes of an input -/
def toR (l : Loc) : RLoc :=
  if bridgesOrigin l then
    match splitBridging l with
    | .ok (lower, upper) => .two (minList (upper.map (·.lo))) (maxList (lower.map (·.hi)))
    | .error _ => .one default
  else .one ⟨l.start, l.end, l.strand⟩

theorem start_end_attained (l : Loc) (hne : l.parts ≠ []) :
    (∃ p ∈ l.parts, l.start = p.lo) ∧ (∃ p ∈ l.parts, l.end = p.hi) := by
  cases l with
  | simple q => exact ⟨⟨q, by simp [Loc.parts], rfl⟩, ⟨q, by simp [Loc.parts], rfl⟩⟩
  | compound ps =>
    simp only [Loc.parts] at hne
    have h1 : ps.map (·.lo) ≠ [] := by simpa using hne
    have h2 : ps.map (·.hi) ≠ [] := by simpa using hne
    obtain ⟨q, hq, e⟩ := List.mem_map.1 (minList_mem h1)
    obtain ⟨q2, hq2, e2⟩ := List.mem_map.1 (maxList_mem h2)
    exact ⟨⟨q, hq, e.symm⟩, ⟨q2, hq2, e2.symm⟩⟩

theorem splitBridging_twoRev (x y L : Int) (hy0 : 0 < y) (hyx : y ≤ x) (hxL : x < L) :
    splitBridging (areaTwoRev x y L) = .ok ([⟨0, y, .rev⟩], [⟨x, L, .rev⟩]) := by
  have c1 : ¬ (x < 0) := by omega
  have hno : locationsOverlap (partsHull [(⟨0, y, .rev⟩ : Part)]) (partsHull [(⟨x, L, .rev⟩ : Part)]) = false := by
    simp only [partsHull, hullOf, List.map, minList, maxList, List.foldl, Loc.start, Loc.end, locationsOverlap,
      Loc.parts, List.any_cons, List.any_nil, Bool.or_false, partsOverlap, Part.mem, Bool.or_eq_false_iff,
      Bool.and_eq_false_iff, decide_eq_false_iff_not]
    omega
  have hstr : (Loc.compound [(⟨0, y, .rev⟩ : Part), ⟨x, L, .rev⟩]).strand = .rev := by simp [Loc.strand]
  simp only [areaTwoRev, splitBridging, strandsUsed, List.foldl, List.contains_nil, Bool.false_eq_true, if_false, List.nil_append,
    List.contains_cons, beq_self_eq_true, Bool.true_or, if_true, List.length_singleton, hstr, splitRev, c1,
    List.reverse_cons, List.reverse_nil, List.isEmpty_cons, Bool.or_self, isValidSplit, hno,
    List.map, sortInts, List.foldr, insertInt, beq_self_eq_true, Bool.and_self, Bool.not_true,
    bind, Except.bind, pure, Except.pure, throw, throwThe, MonadExceptOf.throw]
  simp [hno, insertInt]

/-! ### `split_origin_bridging_location` in general -/

theorem splitFwd_spec (ps : List Part) : ∀ (acc lo up : List Part), splitFwd acc ps = (lo, up) →
    up ++ lo = acc.reverse ++ ps ∧ (lo ≠ [] → ∃ a ∈ lo, ∃ b ∈ up, a.lo ≤ b.lo) := by
  induction ps with
  | nil =>
    intro acc lo up h
    simp only [splitFwd, Prod.mk.injEq] at h
    obtain ⟨rfl, rfl⟩ := h
    exact ⟨by simp, fun h => absurd rfl h⟩
  | cons p rest ih =>
    intro acc lo up h
    cases acc with
    | nil =>
      simp only [splitFwd] at h
      obtain ⟨h1, h2⟩ := ih [p] lo up h
      exact ⟨by simpa using h1, h2⟩
    | cons u us =>
      simp only [splitFwd] at h
      by_cases hc : p.lo > u.lo
      · rw [if_pos hc] at h
        obtain ⟨h1, h2⟩ := ih (p :: u :: us) lo up h
        exact ⟨by simpa using h1, h2⟩
      · rw [if_neg hc] at h
        simp only [Prod.mk.injEq] at h
        obtain ⟨rfl, rfl⟩ := h
        exact ⟨by simp, fun _ => ⟨p, by simp, u, by simp, by omega⟩⟩

theorem splitRev_spec (ps : List Part) : ∀ (acc lo up : List Part), splitRev acc ps = (lo, up) →
    lo ++ up = acc.reverse ++ ps ∧ (up ≠ [] → ∃ a ∈ lo, ∃ b ∈ up, a.lo ≤ b.lo) := by
  induction ps with
  | nil =>
    intro acc lo up h
    simp only [splitRev, Prod.mk.injEq] at h
    obtain ⟨rfl, rfl⟩ := h
    exact ⟨by simp, fun h => absurd rfl h⟩
  | cons p rest ih =>
    intro acc lo up h
    cases acc with
    | nil =>
      simp only [splitRev] at h
      obtain ⟨h1, h2⟩ := ih [p] lo up h
      exact ⟨by simpa using h1, h2⟩
    | cons u us =>
      simp only [splitRev] at h
      by_cases hc : p.lo < u.lo
      · rw [if_pos hc] at h
        obtain ⟨h1, h2⟩ := ih (p :: u :: us) lo up h
        exact ⟨by simpa using h1, h2⟩
      · rw [if_neg hc] at h
        simp only [Prod.mk.injEq] at h
        obtain ⟨rfl, rfl⟩ := h
        exact ⟨by simp, fun _ => ⟨u, by simp, p, by simp, by omega⟩⟩

/-- what a successful split guarantees: the two sections partition the parts, both are non-empty,
    their hulls do not overlap, and some lower part starts no later than some upper part -/
theorem splitBridging_ok (ps lower upper : List Part) (h : splitBridging (.compound ps) = .ok (lower, upper)) :
    (∀ p, p ∈ ps ↔ (p ∈ lower ∨ p ∈ upper)) ∧ lower ≠ [] ∧ upper ≠ [] ∧
      locationsOverlap (partsHull lower) (partsHull upper) = false ∧
      (∃ a ∈ lower, ∃ b ∈ upper, a.lo ≤ b.lo) := by
  simp only [splitBridging, bind, Except.bind, pure, Except.pure, throw, throwThe, MonadExceptOf.throw] at h
  split at h
  · cases h
  · by_cases hr : ((Loc.compound ps).strand != .rev) = true
    · rw [if_pos hr] at h
      obtain ⟨e, hab⟩ := splitFwd_spec ps [] (splitFwd [] ps).1 (splitFwd [] ps).2 rfl
      split at h
      · cases h
      · next hemp =>
        split at h
        · cases h
        · next hval =>
          simp only [Except.ok.injEq, Prod.mk.injEq] at h
          obtain ⟨rfl, rfl⟩ := h
          simp only [Bool.or_eq_true, not_or, Bool.not_eq_true, List.isEmpty_eq_false_iff] at hemp
          simp only [Bool.not_eq_true', Bool.not_eq_false] at hval
          refine ⟨?_, hemp.1, hemp.2, ?_, hab hemp.1⟩
          · intro p
            have : p ∈ (splitFwd [] ps).2 ++ (splitFwd [] ps).1 ↔ p ∈ ps := by rw [e]; simp
            rw [← this, List.mem_append]; exact Or.comm
          · unfold isValidSplit at hval
            split at hval
            · cases hval
            · split at hval
              · cases hval
              · next hov => simpa using hov
    · rw [if_neg hr] at h
      obtain ⟨e, hab⟩ := splitRev_spec ps [] (splitRev [] ps).1 (splitRev [] ps).2 rfl
      split at h
      · cases h
      · next hemp =>
        split at h
        · cases h
        · next hval =>
          simp only [Except.ok.injEq, Prod.mk.injEq] at h
          obtain ⟨rfl, rfl⟩ := h
          simp only [Bool.or_eq_true, not_or, Bool.not_eq_true, List.isEmpty_eq_false_iff] at hemp
          simp only [Bool.not_eq_true', Bool.not_eq_false] at hval
          refine ⟨?_, hemp.1, hemp.2, ?_, hab hemp.2⟩
          · intro p
            have : p ∈ (splitRev [] ps).1 ++ (splitRev [] ps).2 ↔ p ∈ ps := by rw [e]; simp
            rw [← this, List.mem_append]
          · unfold isValidSplit at hval
            split at hval
            · cases hval
            · split at hval
              · cases hval
              · next hov => simpa using hov

theorem bridging_is_compound (l : Loc) (hb : bridgesOrigin l = true) : ∃ p q rest, l = .compound (p :: q :: rest) := by
  cases l with
  | simple p => cases hb
  | compound ps =>
    match ps with
    | [] => simp [bridgesOrigin, Loc.strand, sortInts] at hb
    | [p] => rw [single_not_bridging' p] at hb; cases hb
    | p :: q :: rest => exact ⟨p, q, rest, rfl⟩
where
  single_not_bridging' (p : Part) : bridgesOrigin (.compound [p]) = false := by
    cases hs : p.strand <;> simp [bridgesOrigin, Loc.strand, hs, orderInvalid, sortInts, insertInt]

/-- an origin-bridging input that can be split: its reduced form `[X, L) + [0, Y)` with
    `X = min upper.start`, `Y = max lower.end` -/
theorem bridging_facts (L : Int) (hL : 0 < L) (l : Loc) (hb : bridgesOrigin l = true) (hin : l.Inside L)
    (lower upper : List Part) (hs : splitBridging l = .ok (lower, upper)) :
    toR l = .two (minList (upper.map (·.lo))) (maxList (lower.map (·.hi))) ∧
    (RLoc.two (minList (upper.map (·.lo))) (maxList (lower.map (·.hi)))).OK L ∧
    reduceParts l.parts (some L) = .ok ((RLoc.two (minList (upper.map (·.lo))) (maxList (lower.map (·.hi)))).toLoc L) ∧
    ∀ i, l.mem i = true → ((RLoc.two (minList (upper.map (·.lo))) (maxList (lower.map (·.hi)))).toLoc L).mem i = true := by
  have hL' : ¬ L ≤ 0 := by omega
  obtain ⟨p, q, rest, rfl⟩ := bridging_is_compound l hb
  obtain ⟨hmem, hlne, hune, hov, a, ha, b, hbm, hab⟩ := splitBridging_ok _ lower upper hs
  have hina := hin a ((hmem a).2 (Or.inl ha))
  have hinb := hin b ((hmem b).2 (Or.inr hbm))
  -- hull facts
  have hl1 : lower.map (·.lo) ≠ [] := by simpa using hlne
  have hl2 : lower.map (·.hi) ≠ [] := by simpa using hlne
  have hu1 : upper.map (·.lo) ≠ [] := by simpa using hune
  have hu2 : upper.map (·.hi) ≠ [] := by simpa using hune
  have a1 : minList (lower.map (·.lo)) ≤ a.lo := minList_le_of_mem (List.mem_map.2 ⟨a, ha, rfl⟩)
  have a2 : a.hi ≤ maxList (lower.map (·.hi)) := le_maxList_of_mem (List.mem_map.2 ⟨a, ha, rfl⟩)
  have b1 : minList (upper.map (·.lo)) ≤ b.lo := minList_le_of_mem (List.mem_map.2 ⟨b, hbm, rfl⟩)
  have b2 : b.hi ≤ maxList (upper.map (·.hi)) := le_maxList_of_mem (List.mem_map.2 ⟨b, hbm, rfl⟩)
  have hdis : maxList (lower.map (·.hi)) ≤ minList (upper.map (·.lo)) := by
    simp only [partsHull, hullOf, map_simple_start, map_simple_end, locationsOverlap, Loc.parts, List.any_cons,
      List.any_nil, Bool.or_false] at hov
    have := noOverlap_disjoint (p := ⟨minList (lower.map (·.lo)), maxList (lower.map (·.hi)), _⟩)
      (q := ⟨minList (upper.map (·.lo)), maxList (upper.map (·.hi)), _⟩) (by dsimp only; omega) (by dsimp only; omega) hov
    dsimp only at this
    omega
  have hxL : minList (upper.map (·.lo)) < L := by omega
  have hok : (RLoc.two (minList (upper.map (·.lo))) (maxList (lower.map (·.hi)))).OK L := by
    simp only [RLoc.OK]; omega
  refine ⟨?_, hok, ?_, ?_⟩
  · simp only [toR, hb, if_true, hs]
  · simp only [Loc.parts, reduceParts, hb, if_true, hL', if_false, hs, bind, Except.bind, pure, Except.pure, RLoc.toLoc]
  · intro i hi
    simp only [Loc.mem, Loc.parts, List.any_eq_true, Part.mem_iff] at hi
    obtain ⟨r, hr, h1, h2⟩ := hi
    have hinr := hin r hr
    simp only [RLoc.toLoc, mem_two, fl]
    rcases (hmem r).1 hr with hlo | hup
    · have : r.hi ≤ maxList (lower.map (·.hi)) := le_maxList_of_mem (List.mem_map.2 ⟨r, hlo, rfl⟩)
      right; omega
    · have : minList (upper.map (·.lo)) ≤ r.lo := minList_le_of_mem (List.mem_map.2 ⟨r, hup, rfl⟩)
      left; omega

/-- the reduced form of an input: well-formed, what `_reduce_parts_to_location` returns, bridging
    exactly when it has two parts, and covering every base of the input -/
theorem toR_spec (L : Int) (hL : 0 < L) (l : Loc) (h : RingIn L l) :
    (toR l).OK L ∧ reduceParts l.parts (some L) = .ok ((toR l).toLoc L) ∧
      bridgesOrigin l = (toR l).isTwo ∧ ∀ i, l.mem i = true → ((toR l).toLoc L).mem i = true := by
  obtain ⟨hne, hp, hsplit⟩ := h
  cases hb : bridgesOrigin l
  · have ht : toR l = .one ⟨l.start, l.end, l.strand⟩ := by simp only [toR, hb, Bool.false_eq_true, if_false]
    rw [ht]
    obtain ⟨⟨p1, hp1, e1⟩, ⟨p2, hp2, e2⟩⟩ := start_end_attained l hne
    have b1 := hp p1 hp1
    have b2 := hp p2 hp2
    have b3 := start_le_part l p2 hp2
    refine ⟨by simp only [RLoc.OK]; omega, reduceParts_nonbridging l hne hb _, rfl, ?_⟩
    intro i hi
    simp only [Loc.mem, List.any_eq_true, Part.mem_iff] at hi
    obtain ⟨p, hpm, h1, h2⟩ := hi
    have := start_le_part l p hpm
    simp only [RLoc.toLoc, mem_simple]; omega
  · obtain ⟨lower, upper, hs⟩ := hsplit hb
    obtain ⟨ht, hok, hred, hmem⟩ := bridging_facts L hL l hb hp lower upper hs
    rw [ht]
    exact ⟨hok, hred, rfl, hmem⟩

theorem mapM_reduce_in (L : Int) (hL : 0 < L) (ls : List Loc) (h : ∀ l ∈ ls, RingIn L l) :
    ls.mapM (fun l => reduceParts l.parts (some L)) = .ok ((ls.map toR).map (RLoc.toLoc L)) := by
  induction ls with
  | nil => rfl
  | cons l ls ih =>
    rw [List.mapM_cons, (toR_spec L hL l (h l (by simp))).2.1, ih (fun x hx => h x (List.mem_cons_of_mem _ hx))]
    rfl

theorem any_bridges_in (L : Int) (hL : 0 < L) (ls : List Loc) (h : ∀ l ∈ ls, RingIn L l) :
    ls.any bridgesOrigin = (ls.map toR).any RLoc.isTwo := by
  induction ls with
  | nil => rfl
  | cons l ls ih =>
    rw [List.map_cons, List.any_cons, List.any_cons, (toR_spec L hL l (h l (by simp))).2.2.1,
      ih (fun x hx => h x (List.mem_cons_of_mem _ hx))]

theorem toR_ok (L : Int) (hL : 0 < L) (ls : List Loc) (h : ∀ l ∈ ls, RingIn L l) : ∀ r ∈ ls.map toR, r.OK L := by
  intro r hr
  obtain ⟨l, hl, rfl⟩ := List.mem_map.1 hr
  exact (toR_spec L hL l (h l hl)).1

/-- `connect_locations` on a ring of length `L`, for any non-empty list of `RingIn` locations:
    it succeeds, with the closed form `connR` -/
theorem connect_ring_closed (ls : List Loc) (L : Int) (hne : ls ≠ []) (hL : 0 < L) (h : ∀ l ∈ ls, RingIn L l) :
    connect ls (some L) = .ok (connR (ls.map toR) L) := by
  have hok := toR_ok L hL ls h
  have hred := mapM_reduce_in L hL ls h
  have hany := any_bridges_in L hL ls h
  unfold connR connect
  cases htwo : (ls.map toR).any RLoc.isTwo
  · rw [if_neg (by simp)]
    obtain ⟨ps, hps⟩ := all_one _ htwo
    rw [hps] at hok hred ⊢
    rw [map_one_toLoc] at hred
    have hpne : ps ≠ [] := by
      intro e; subst e
      simp only [List.map_nil, List.map_eq_nil_iff] at hps
      exact hne hps
    exact connectLocations_A 2 ls L ps hne hpne hL hok hred (by rw [hany, htwo])
  · rw [if_pos rfl]
    exact connectLocations_B 1 ls L _ hne hL hok hred (by rw [hany, htwo]) htwo

/-! ### the span-shaped inputs -/

theorem bridges_areaTwo (x y L : Int) (s : Strand) (hs : s ≠ .rev) (hy0 : 0 < y) (hyx : y ≤ x) :
    bridgesOrigin (areaTwo x y L s) = true := by
  have h1 : x > 0 := by omega
  have h2 : ¬ x ≤ 0 := by omega
  cases s <;> simp [areaTwo, bridgesOrigin, Loc.strand, orderInvalid, sortInts, insertInt, h1, h2] at hs ⊢
  all_goals omega

theorem not_bridges_areaTwo_rev (x y L : Int) (hy0 : 0 < y) (hyx : y ≤ x) :
    bridgesOrigin (areaTwo x y L .rev) = false := by
  have : ¬ x < 0 := by omega
  simp [areaTwo, bridgesOrigin, Loc.strand, orderInvalid, this]

theorem bridges_areaTwoRev (x y L : Int) (hy0 : 0 < y) (hyx : y ≤ x) : bridgesOrigin (areaTwoRev x y L) = true := by
  have h1 : 0 < x := by omega
  simp [areaTwoRev, bridgesOrigin, Loc.strand, orderInvalid, h1]

theorem inside_areaTwo (x y L : Int) (s : Strand) (hy0 : 0 < y) (hyx : y ≤ x) (hxL : x < L) : (areaTwo x y L s).Inside L := by
  intro p hp
  simp only [areaTwo, Loc.parts, List.mem_cons, List.mem_nil_iff, or_false] at hp
  rcases hp with rfl | rfl <;> (dsimp only; omega)

theorem inside_areaTwoRev (x y L : Int) (hy0 : 0 < y) (hyx : y ≤ x) (hxL : x < L) : (areaTwoRev x y L).Inside L := by
  intro p hp
  simp only [areaTwoRev, Loc.parts, List.mem_cons, List.mem_nil_iff, or_false] at hp
  rcases hp with rfl | rfl <;> (dsimp only; omega)

theorem toR_areaTwo (x y L : Int) (s : Strand) (hs : s ≠ .rev) (hy0 : 0 < y) (hyx : y ≤ x) (hxL : x < L) :
    toR (areaTwo x y L s) = .two x y := by
  have hb := bridges_areaTwo x y L s hs hy0 hyx
  have hsb : splitBridging (areaTwo x y L s) = .ok ([⟨0, y, s⟩], [⟨x, L, s⟩]) := splitBridging_two x y L s hs hy0 hyx hxL
  simp only [toR, hb, if_true, hsb]
  rfl

theorem toR_areaTwoRev (x y L : Int) (hy0 : 0 < y) (hyx : y ≤ x) (hxL : x < L) : toR (areaTwoRev x y L) = .two x y := by
  have hb := bridges_areaTwoRev x y L hy0 hyx
  simp only [toR, hb, if_true, splitBridging_twoRev x y L hy0 hyx hxL]
  rfl

theorem RingInSpan.ringIn {L : Int} {l : Loc} (h : RingInSpan L l) : RingIn L l := by
  rcases h with ⟨hne, hb, hp⟩ | ⟨x, y, s, rfl, hy0, hyx, hxL⟩ | ⟨x, y, rfl, hy0, hyx, hxL⟩
  · exact ⟨hne, hp, fun h => by rw [hb] at h; cases h⟩
  · refine ⟨by simp [areaTwo, Loc.parts], inside_areaTwo x y L s hy0 hyx hxL, fun hb => ?_⟩
    by_cases hs : s = .rev
    · subst hs; rw [not_bridges_areaTwo_rev x y L hy0 hyx] at hb; cases hb
    · exact ⟨_, _, splitBridging_two x y L s hs hy0 hyx hxL⟩
  · exact ⟨by simp [areaTwoRev, Loc.parts], inside_areaTwoRev x y L hy0 hyx hxL,
      fun _ => ⟨_, _, splitBridging_twoRev x y L hy0 hyx hxL⟩⟩

/-- reducing a span-shaped input keeps `start` and `end` -/
theorem toR_start_end (L : Int) (hL : 0 < L) (l : Loc) (h : RingInSpan L l) :
    ((toR l).toLoc L).start = l.start ∧ ((toR l).toLoc L).end = l.end := by
  rcases h with ⟨hne, hb, hp⟩ | ⟨x, y, s, rfl, hy0, hyx, hxL⟩ | ⟨x, y, rfl, hy0, hyx, hxL⟩
  · have ht : toR l = .one ⟨l.start, l.end, l.strand⟩ := by simp only [toR, hb, Bool.false_eq_true, if_false]
    rw [ht]; exact ⟨rfl, rfl⟩
  · by_cases hs : s = .rev
    · subst hs
      have hb := not_bridges_areaTwo_rev x y L hy0 hyx
      have ht : toR (areaTwo x y L .rev) = .one ⟨(areaTwo x y L .rev).start, (areaTwo x y L .rev).end, (areaTwo x y L .rev).strand⟩ := by
        simp only [toR, hb, Bool.false_eq_true, if_false]
      rw [ht]; exact ⟨rfl, rfl⟩
    · rw [toR_areaTwo x y L s hs hy0 hyx hxL]; exact ⟨rfl, rfl⟩
  · rw [toR_areaTwoRev x y L hy0 hyx hxL]
    simp only [RLoc.toLoc, areaTwoRev, Loc.start, Loc.end, List.map, minList, maxList, List.foldl, fl]; omega

/-- an input whose reduced form has exactly its bases: a single part, or an origin-spanning span.
    (A location with several parts that does not bridge the origin — a gene with introns, among them
    the two-exon reverse-strand location `[x, L)(−), [0, y)(−)` — is reduced to its line hull.) -/
def RingInStrict (L : Int) (l : Loc) : Prop :=
  (∃ p, l.parts = [p] ∧ 0 ≤ p.lo ∧ p.lo < p.hi ∧ p.hi ≤ L) ∨
  (∃ x y s, s ≠ .rev ∧ l = areaTwo x y L s ∧ 0 < y ∧ y ≤ x ∧ x < L) ∨
  (∃ x y, l = areaTwoRev x y L ∧ 0 < y ∧ y ≤ x ∧ x < L)

theorem single_not_bridging (l : Loc) (p : Part) (hp : l.parts = [p]) : bridgesOrigin l = false := by
  cases l with
  | simple q => rfl
  | compound ps =>
    simp only [Loc.parts] at hp; subst hp
    exact bridging_is_compound.single_not_bridging' p

theorem RingInStrict.ringInSpan {L : Int} {l : Loc} (h : RingInStrict L l) : RingInSpan L l := by
  rcases h with ⟨p, hp, h0, h1, h2⟩ | ⟨x, y, s, _, h⟩ | h
  · refine Or.inl ⟨by rw [hp]; simp, single_not_bridging l p hp, ?_⟩
    intro q hq; rw [hp] at hq; simp only [List.mem_singleton] at hq; subst hq; exact ⟨h0, h1, h2⟩
  · exact Or.inr (Or.inl ⟨x, y, s, h⟩)
  · exact Or.inr (Or.inr h)

theorem RingInStrict.ringIn {L : Int} {l : Loc} (h : RingInStrict L l) : RingIn L l := h.ringInSpan.ringIn

theorem toR_mem_iff (L : Int) (hL : 0 < L) (l : Loc) (h : RingInStrict L l) (i : Int) :
    ((toR l).toLoc L).mem i = true ↔ l.mem i = true := by
  rcases h with ⟨p, hp, h0, h1, h2⟩ | ⟨x, y, s, hs, rfl, hy0, hyx, hxL⟩ | ⟨x, y, rfl, hy0, hyx, hxL⟩
  · have hb := single_not_bridging l p hp
    have ht : toR l = .one ⟨l.start, l.end, l.strand⟩ := by simp only [toR, hb, Bool.false_eq_true, if_false]
    obtain ⟨e1, e2⟩ := start_single l p hp
    rw [ht]
    simp only [RLoc.toLoc]
    rw [mem_simple]
    simp only [e1, e2, Loc.mem, hp, List.any_cons, List.any_nil, Bool.or_false, Part.mem_iff]
  · rw [toR_areaTwo x y L s hs hy0 hyx hxL, areaTwo, mem_two]; simp only [RLoc.toLoc, mem_two, fl]
  · rw [toR_areaTwoRev x y L hy0 hyx hxL, areaTwoRev, mem_two]; simp only [RLoc.toLoc, mem_two, fl]; omega

end ASV
