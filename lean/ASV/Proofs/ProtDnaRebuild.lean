/-
  Helper lemmas for C09: the prepeptide write-out / re-read cycle
  (`to_biopython` → `Prepeptide.from_biopython` → `to_biopython`).
-/
import ASV.Proofs.ProtDna
import ASV.Spec.ProtDnaRebuild
namespace ASV.ProtDna
open ASV

theorem upRange_append (lo : Int) (n m : Nat) : upRange lo (n + m) = upRange lo n ++ upRange (lo + n) m := by
  induction n generalizing lo with
  | zero => simp [upRange]
  | succ n ih =>
    have : n + 1 + m = (n + m) + 1 := by omega
    rw [this]
    have e : lo + 1 + (n : Int) = lo + ((n + 1 : Nat) : Int) := by push_cast; omega
    simp only [upRange, ih, List.cons_append, e]

theorem downRange_append (hi : Int) (n m : Nat) : downRange hi (n + m) = downRange hi n ++ downRange (hi - n) m := by
  induction n generalizing hi with
  | zero => simp [downRange]
  | succ n ih =>
    have : n + 1 + m = (n + m) + 1 := by omega
    rw [this]
    have e : hi - 1 - (n : Int) = hi - ((n + 1 : Nat) : Int) := by push_cast; omega
    simp only [downRange, ih, List.cons_append, e]

/-- two parts that adjoin upwards on a non-reverse strand, merged -/
theorem merge_bases_up (p q : Part) (st : Strand) (hp : p.lo ≤ p.hi) (hq : q.lo ≤ q.hi) (hadj : q.lo = p.hi)
    (hps : p.strand = st) (hqs : q.strand = st) (hnr : (st == .rev) = false) :
    partBases ⟨p.lo, q.hi, st⟩ = partBases p ++ partBases q := by
  simp only [partBases, hps, hqs, hnr, Bool.false_eq_true, if_false]
  have : (q.hi - p.lo).toNat = (p.hi - p.lo).toNat + (q.hi - q.lo).toNat := by omega
  rw [this, upRange_append]
  congr 2; omega

/-- two parts that adjoin downwards on the reverse strand, merged -/
theorem merge_bases_down (p q : Part) (st : Strand) (hp : p.lo ≤ p.hi) (hq : q.lo ≤ q.hi) (hadj : q.hi = p.lo)
    (hps : p.strand = st) (hqs : q.strand = st) (hr : (st == .rev) = true) :
    partBases ⟨q.lo, p.hi, st⟩ = partBases p ++ partBases q := by
  simp only [partBases, hps, hqs, hr, if_true]
  have : (p.hi - q.lo).toNat = (p.hi - p.lo).toNat + (q.hi - q.lo).toNat := by omega
  rw [this, downRange_append]
  congr 2; omega

/-- parts: all non-empty, all on strand `st` -/
def PartsOK (st : Strand) (ps : List Part) : Prop := ∀ q ∈ ps, q.lo < q.hi ∧ q.strand = st

theorem PartsOK.append {st ps qs} (h1 : PartsOK st ps) (h2 : PartsOK st qs) : PartsOK st (ps ++ qs) := by
  intro q hq
  rcases List.mem_append.mp hq with h | h
  · exact h1 q h
  · exact h2 q h

/-- one iteration of `_combine_sections`: the kept parts list the old bases followed by the section's -/
theorem combineStep_ok (st : Strand) (parts : List Part) (sec : Loc) (hp : PartsOK st parts)
    (hs : SectionOK st sec) :
    PartsOK st (combineStep parts sec) ∧ combineStep parts sec ≠ [] ∧
      (combineStep parts sec).flatMap partBases = parts.flatMap partBases ++ bases sec := by
  obtain ⟨hne, hsp⟩ := hs
  have hplain : PartsOK st (parts ++ sec.parts) ∧ parts ++ sec.parts ≠ [] ∧
      (parts ++ sec.parts).flatMap partBases = parts.flatMap partBases ++ bases sec := by
    refine ⟨hp.append hsp, by simp [hne], by simp [bases]⟩
  unfold combineStep
  cases hl : parts.getLast? with
  | none => simpa using hplain
  | some prev =>
    match hsec : sec.parts, hne with
    | first :: rest, _ =>
      obtain ⟨ys, hys⟩ := List.getLast?_eq_some_iff.mp hl
      have hdl : parts.dropLast = ys := by rw [hys, List.dropLast_concat]
      have hprev : prev ∈ parts := by rw [hys]; simp
      have hpv := hp prev hprev
      have hfi := hsp first (by simp [hsec])
      have hdrop : PartsOK st parts.dropLast := fun q hq => hp q (List.dropLast_subset _ hq)
      have hrest : PartsOK st rest := fun q hq => hsp q (by simp [hsec, hq])
      have hbp : parts.flatMap partBases = parts.dropLast.flatMap partBases ++ partBases prev := by
        rw [hdl]; conv => lhs; rw [hys]
        simp
      simp only [hsec] at hplain ⊢
      split
      · split
        · rename_i _ hc
          simp only [Bool.and_eq_true, decide_eq_true_eq, beq_iff_eq] at hc
          have hm := merge_bases_down prev first st (Int.le_of_lt hpv.1) (Int.le_of_lt hfi.1) hc.2 hpv.2 hfi.2
            (by rw [← hfi.2]; simp [hc.1])
          refine ⟨?_, by simp, ?_⟩
          · apply PartsOK.append (PartsOK.append hdrop ?_) hrest
            intro q hq; simp only [List.mem_singleton] at hq; subst hq
            exact ⟨by simp only; omega, hfi.2⟩
          · rw [hfi.2]
            simp only [List.flatMap_append, List.flatMap_cons, List.flatMap_nil, List.append_nil, hm, hbp, bases,
              hsec, List.append_assoc]
        · split
          · rename_i _ _ hc
            simp only [Bool.and_eq_true, decide_eq_true_eq, bne_iff_ne, ne_eq] at hc
            have hm := merge_bases_up prev first st (Int.le_of_lt hpv.1) (Int.le_of_lt hfi.1) hc.2 hpv.2 hfi.2
              (by rw [← hfi.2]; simpa using hc.1)
            refine ⟨?_, by simp, ?_⟩
            · apply PartsOK.append (PartsOK.append hdrop ?_) hrest
              intro q hq; simp only [List.mem_singleton] at hq; subst hq
              exact ⟨by simp only; omega, hfi.2⟩
            · rw [hfi.2]
              simp only [List.flatMap_append, List.flatMap_cons, List.flatMap_nil, List.append_nil, hm, hbp, bases,
                hsec, List.append_assoc]
          · exact hplain
      · exact hplain

theorem strand_of_sectionOK (st : Strand) (r : Loc) (h : SectionOK st r) : r.strand = st := by
  obtain ⟨hne, hp⟩ := h
  cases r with
  | simple p => exact (hp p (by simp [Loc.parts])).2
  | compound ps =>
    match ps, hne with
    | p :: rest, _ =>
      have h1 := (hp p (by simp [Loc.parts])).2
      have : rest.all (fun q => q.strand == p.strand) = true := by
        simp only [List.all_eq_true, beq_iff_eq]
        intro q hq
        rw [(hp q (by simp [Loc.parts, hq])).2, h1]
      rw [h1] at this
      simp only [Loc.strand, h1, this, if_true]

theorem geneWF_of_sectionOK (st : Strand) (r : Loc) (h : SectionOK st r) : geneWF r = true := by
  rw [geneWF_iff]
  exact ⟨h.1, fun p hp => ⟨(h.2 p hp).1, by rw [strand_of_sectionOK st r h]; exact (h.2 p hp).2⟩⟩

theorem combineFold_ok (st : Strand) : ∀ (secs : List Loc) (parts : List Part), PartsOK st parts →
    (∀ r ∈ secs, SectionOK st r) →
    PartsOK st (secs.foldl combineStep parts) ∧ (secs ≠ [] → secs.foldl combineStep parts ≠ []) ∧
      (secs.foldl combineStep parts).flatMap partBases = parts.flatMap partBases ++ secs.flatMap bases := by
  intro secs
  induction secs with
  | nil => intro parts hp _; exact ⟨hp, by simp, by simp⟩
  | cons sec rest ih =>
    intro parts hp hs
    obtain ⟨h1, h2, h3⟩ := combineStep_ok st parts sec hp (hs sec (by simp))
    obtain ⟨i1, i2, i3⟩ := ih (combineStep parts sec) h1 (fun r hr => hs r (by simp [hr]))
    refine ⟨i1, fun _ => ?_, by simp only [List.foldl_cons, i3, h3, List.flatMap_cons, List.append_assoc]⟩
    cases rest with
    | nil => simpa using h2
    | cons r rs => exact i2 (by simp)

/-- `_combine_sections` on sections of one gene: succeeds, lists the sections' bases in order -/
theorem combineSections_ok (st : Strand) (secs : List Loc) (hne : secs ≠ []) (h : ∀ r ∈ secs, SectionOK st r) :
    ∃ r, combineSections secs = .ok r ∧ bases r = secs.flatMap bases ∧ SectionOK st r := by
  obtain ⟨h1, h2, h3⟩ := combineFold_ok st secs [] (by intro q hq; cases hq) h
  obtain ⟨r, hr, hrp⟩ := locOfNewParts_ok _ (h2 hne)
  refine ⟨r, by simp [combineSections, hr], ?_, ?_⟩
  · rw [bases_of_parts r _ hrp, h3]; simp
  · exact ⟨by rw [hrp]; exact h2 hne, by rw [hrp]; exact h1⟩

theorem buildLocationFromOthers_eq (l : Loc) (ls : List Loc) :
    buildLocationFromOthers (l :: ls) = .ok (ls.foldl blfoStep l) := rfl

/-- one step of `build_location_from_others` on sections of one gene, when the step is sound -/
theorem blfoStep_ok (st : Strand) (location loc : Loc) (h1 : SectionOK st location) (h2 : SectionOK st loc)
    (hs : stepSound location loc = true) :
    SectionOK st (blfoStep location loc) ∧ bases (blfoStep location loc) = bases location ++ bases loc := by
  have hstr := strand_of_sectionOK st location h1
  obtain ⟨hne1, hp1⟩ := h1
  obtain ⟨hne2, hp2⟩ := h2
  unfold blfoStep
  split
  · rename_i heq
    -- the coordinate test fired: soundness says the two parts really adjoin, upwards, not on the − strand
    obtain ⟨ys, lastP, hys⟩ : ∃ ys lastP, location.parts = ys ++ [lastP] := by
      rcases List.eq_nil_or_concat location.parts with h | ⟨ys, a, h⟩
      · exact absurd h hne1
      · exact ⟨ys, a, by simpa using h⟩
    obtain ⟨firstP, rest, hfr⟩ : ∃ firstP rest, loc.parts = firstP :: rest := by
      cases hlp : loc.parts with
      | nil => exact absurd hlp hne2
      | cons a b => exact ⟨a, b, rfl⟩
    have hgl : location.parts.getLast? = some lastP := by rw [hys]; simp
    have hhd : loc.parts.head? = some firstP := by rw [hfr]; simp
    simp only [stepSound, heq, ne_eq, not_true_eq_false, decide_false, Bool.false_or, hgl, hhd,
      Bool.and_eq_true, bne_iff_ne, decide_eq_true_eq] at hs
    obtain ⟨hnr, hadj⟩ := hs
    have hl := hp1 lastP (by rw [hys]; simp)
    have hf := hp2 firstP (by rw [hfr]; simp)
    have hm := merge_bases_up lastP firstP st (Int.le_of_lt hl.1) (Int.le_of_lt hf.1) hadj.symm hl.2 hf.2
      (by rw [hstr] at hnr; simpa using hnr)
    have hdl : location.parts.dropLast = ys := by rw [hys, List.dropLast_concat]
    have hd1 : loc.parts.drop 1 = rest := by rw [hfr]; rfl
    have hys_ok : PartsOK st ys := fun q hq => hp1 q (by rw [hys]; simp [hq])
    have hrest_ok : PartsOK st rest := fun q hq => hp2 q (by rw [hfr]; simp [hq])
    have hnew_ok : PartsOK st [(Part.mk lastP.lo firstP.hi location.strand)] := by
      intro q hq; simp only [List.mem_singleton] at hq; subst hq
      exact ⟨by simp only; omega, hstr⟩
    have hall : PartsOK st (ys ++ [(Part.mk lastP.lo firstP.hi location.strand)] ++ rest) :=
      (hys_ok.append hnew_ok).append hrest_ok
    have hb : (ys ++ [(Part.mk lastP.lo firstP.hi location.strand)] ++ rest).flatMap partBases
        = bases location ++ bases loc := by
      simp only [bases, hys, hfr, List.flatMap_append, List.flatMap_cons, List.flatMap_nil, List.append_nil,
        hstr, hm, List.append_assoc]
    simp only [hgl, hhd, hdl, hd1]
    split
    · exact ⟨⟨by simp [Loc.parts], fun q hq => hall q (by simpa [Loc.parts] using hq)⟩,
        by simpa [bases, Loc.parts] using hb⟩
    · rename_i hlen
      simp only [Bool.or_eq_true, decide_eq_true_eq, not_or, Nat.not_lt] at hlen
      have hy0 : ys = [] := by
        cases ys with
        | nil => rfl
        | cons a b => have := hlen.1; rw [hys] at this; simp at this
      have hr0 : rest = [] := by
        cases rest with
        | nil => rfl
        | cons a b => have := hlen.2; rw [hfr] at this; simp at this
      subst hy0; subst hr0
      refine ⟨⟨by simp [Loc.parts], ?_⟩, ?_⟩
      · intro q hq; exact hall q (by simpa [Loc.parts] using hq)
      · simpa [bases, Loc.parts] using hb
  · exact ⟨⟨by show location.parts ++ loc.parts ≠ []; simp [hne1], fun q hq => PartsOK.append hp1 hp2 q (by simpa [Loc.parts] using hq)⟩,
      by simp [bases, Loc.parts]⟩

theorem blfoFold_ok (st : Strand) : ∀ (secs : List Loc) (acc : Loc), SectionOK st acc →
    (∀ r ∈ secs, SectionOK st r) → foldSound acc secs = true →
    SectionOK st (secs.foldl blfoStep acc) ∧ bases (secs.foldl blfoStep acc) = bases acc ++ secs.flatMap bases := by
  intro secs
  induction secs with
  | nil => intro acc h _ _; exact ⟨h, by simp⟩
  | cons sec rest ih =>
    intro acc hacc hs hsound
    simp only [foldSound, Bool.and_eq_true] at hsound
    obtain ⟨h1, h2⟩ := blfoStep_ok st acc sec hacc (hs sec (by simp)) hsound.1
    obtain ⟨i1, i2⟩ := ih (blfoStep acc sec) h1 (fun r hr => hs r (by simp [hr])) hsound.2
    exact ⟨i1, by simp only [List.foldl_cons, i2, h2, List.flatMap_cons, List.append_assoc]⟩

/-- unrepaired `build_location_from_others` on sections of one gene, all steps sound -/
theorem rebuildUnrepaired_ok (st : Strand) (secs : List Loc) (hne : secs ≠ []) (h : ∀ r ∈ secs, SectionOK st r)
    (hs : sectionsSound secs = true) :
    ∃ r, rebuildUnrepaired secs = .ok r ∧ bases r = secs.flatMap bases ∧ SectionOK st r := by
  match secs, hne with
  | x :: xs, _ =>
    obtain ⟨h1, h2⟩ := blfoFold_ok st xs x (h x (by simp)) (fun r hr => h r (by simp [hr])) hs
    exact ⟨_, by simp [rebuildUnrepaired, buildLocationFromOthers_eq], by simpa using h2, h1⟩

theorem sliceL_take {α} (l : List α) (n a b : Nat) (h : b ≤ n) : sliceL (l.take n) a b = sliceL l a b := by
  unfold sliceL
  rw [List.drop_take, List.take_take]
  congr 1; omega

theorem flatMap_sectionList (a : Option Loc) (c : Loc) (b : Option Loc) :
    (sectionList (a, c, b)).flatMap bases = optBases a ++ bases c ++ optBases b := by
  cases a <;> cases b <;> simp [sectionList, optBases]

theorem mem_sectionList (a : Option Loc) (c : Loc) (b : Option Loc) (r : Loc) (h : r ∈ sectionList (a, c, b)) :
    a = some r ∨ c = r ∨ b = some r := by
  cases a <;> cases b <;> simp [sectionList] at h <;> simp <;> grind

/-- the write-out / re-read cycle, for either way of rebuilding the location (`how`), as long as `how` returns
    a well-formed location listing the sections' bases in order -/
theorem rebuild_cycle (repaired : Bool) (l : Loc) (hwf : geneWF l = true) (ld tl : Nat)
    (h : (ld : Int) + tl < l.len / 3)
    (how : ∀ secs : List Loc, secs ≠ [] → (∀ r ∈ secs, SectionOK l.strand r) →
      (repaired = false → sectionsSound secs = true) →
      ∃ r, rebuildLocation repaired secs = .ok r ∧ bases r = secs.flatMap bases ∧ SectionOK l.strand r)
    (hsound : repaired = false →
      ∀ x, prepeptideSections l ld tl = .ok x → sectionsSound (sectionList x) = true) :
    ∃ r, bases r = (bases l).take (3 * (l.len / 3).toNat) ∧ geneWF r = true ∧
      prepeptideRebuild repaired l ld tl = (if containsOverlappingExons r then .valueError else .ok r) ∧
      ∃ a c b, prepeptideSections r ld tl = .ok (a, c, b) ∧
        (a = none ↔ ld = 0) ∧ (b = none ↔ tl = 0) ∧
        optBases a = sliceL (bases l) 0 (3 * ld) ∧
        bases c = sliceL (bases l) (3 * ld) (3 * ((l.len / 3).toNat - tl)) ∧
        optBases b = sliceL (bases l) (3 * ((l.len / 3).toNat - tl)) (3 * (l.len / 3).toNat) := by
  obtain ⟨a, c, b, hm, _, _, ha, hc, hb, hok⟩ := prepeptide_sections l hwf ld tl h
  have hpos := len_nonneg l hwf
  obtain ⟨_, hparts⟩ := (geneWF_iff l).mp hwf
  have hlen := len_eq_bases_length l (fun p hp => Int.le_of_lt (hparts p hp).1)
  generalize hT : (l.len / 3).toNat = T at *
  have hTi : l.len / 3 = (T : Int) := by omega
  obtain ⟨r, hr, hrb, hrok⟩ := how (sectionList (a, c, b)) (by cases a <;> simp [sectionList])
    (fun r hr => hok r (mem_sectionList a c b r hr)) (fun hrep => hsound hrep _ hm)
  have hbases : bases r = (bases l).take (3 * T) := by
    rw [hrb, flatMap_sectionList, ha, hc, hb, sliceL_append _ _ _ _ (by omega) (by omega),
      sliceL_append _ _ _ _ (by omega) (by omega), sliceL_zero]
  have hrwf := geneWF_of_sectionOK l.strand r hrok
  have hrlen : r.len = 3 * (T : Int) := by
    rw [len_eq_bases_length r (fun p hp => Int.le_of_lt (hrok.2 p hp).1), hbases, List.length_take]
    omega
  refine ⟨r, hbases, hrwf, ?_, ?_⟩
  · simp only [prepeptideRebuild, hm, Res.bind, hr, featureAt]
  · obtain ⟨a', c', b', hm', ha0', hb0', ha', hc', hb', _⟩ := prepeptide_sections r hrwf ld tl (by omega)
    have hT' : (r.len / 3).toNat = T := by omega
    rw [hT'] at hc' hb'
    refine ⟨a', c', b', hm', ha0', hb0', ?_, ?_, ?_⟩
    · rw [ha', hbases, sliceL_take _ _ _ _ (by omega)]
    · rw [hc', hbases, sliceL_take _ _ _ _ (by omega)]
    · rw [hb', hbases, sliceL_take _ _ _ _ (by omega)]

/-! ### partial genes -/

theorem subLocationFuzzy_eq (amb : Bool) (l : Loc) (s e : Int) (h : e ≤ l.len / 3 ∨ amb = false) :
    subLocationFuzzy amb l s e = subLocation l s e := by
  unfold subLocationFuzzy
  split
  · rename_i h1; unfold subLocation; rw [if_pos h1]
  · rename_i h1
    split
    · rfl
    · rename_i h2
      have hv : subLocation l s e = .valueError := by
        unfold subLocation
        rw [if_neg h1, if_pos (by simp at h2 ⊢; omega)]
      rw [hv]
      split
      · rename_i h3
        simp only [Bool.and_eq_true, decide_eq_true_eq] at h2 h3
        rcases h with h | h
        · omega
        · rw [h] at h3; exact absurd h3.2 (by simp)
      · rfl

theorem subLocationFuzzy_truncates (l : Loc) (s e : Int) (h0 : 0 ≤ s) (hs : s < l.len / 3) (he : l.len / 3 < e) :
    subLocationFuzzy true l s e = subLocation l s (l.len / 3) := by
  unfold subLocationFuzzy
  rw [if_neg (by simp; omega), if_neg (by simp; omega), if_pos (by simp; omega)]

/-! ### the gene's own translation -/

theorem takeWhile_take_of_all {α} (p : α → Bool) (l : List α) (n : Nat) (h : ∀ x ∈ l.take n, p x = true) :
    (l.takeWhile p).take n = l.take n := by
  induction l generalizing n with
  | nil => simp
  | cons a l ih =>
    cases n with
    | zero => simp
    | succ n =>
      have ha : p a = true := h a (by simp)
      simp only [List.takeWhile_cons, ha, if_true, List.take_succ_cons]
      rw [ih n (fun x hx => h x (by simp [hx]))]

theorem sliceL_of_take_eq {α} (x y : List α) (s e : Nat) (h : x.take e = y.take e) : sliceL x s e = sliceL y s e := by
  unfold sliceL
  have hx : (x.drop s).take (e - s) = (x.take e).drop s := by rw [List.drop_take]
  have hy : (y.drop s).take (e - s) = (y.take e).drop s := by rw [List.drop_take]
  rw [hx, hy, h]

theorem sliceL_forceMet (x : List Char) (s e : Nat) (hs : 1 ≤ s) : sliceL (forceMet x) s e = sliceL x s e := by
  cases x with
  | nil => rfl
  | cons a r =>
    obtain ⟨k, rfl⟩ : ∃ k, s = k + 1 := ⟨s - 1, by omega⟩
    simp [sliceL, forceMet]

/-- residues before the first stop (and not one of the letters replaced by X) come through
    `get_aa_translation_from_location` unchanged -/
theorem aaTranslation_take (aas : List Char) (e : Nat) (he : 1 ≤ e) (hlen : e ≤ aas.length)
    (h : ∀ c ∈ aas.take e, "*BJOUZ".toList.contains c = false) :
    (aaTranslation aas).take e = aas.take e := by
  have hns : ∀ c ∈ aas.take e, (c != '*') = true := by
    intro c hc
    have := h c hc
    by_cases hcs : c = '*'
    · subst hcs; simp at this
    · simpa using hcs
  have htw := takeWhile_take_of_all (· != '*') aas e hns
  have hne : (aas.takeWhile (· != '*')).isEmpty = false := by
    cases aas with
    | nil => simp at hlen; omega
    | cons a r =>
      have : (a != '*') = true := hns a (by
        obtain ⟨k, rfl⟩ : ∃ k, e = k + 1 := ⟨e - 1, by omega⟩
        simp)
      simp [this]
  unfold aaTranslation
  simp only [hne, Bool.false_eq_true, if_false]
  rw [← List.map_take, htw]
  conv => rhs; rw [← List.map_id (aas.take e)]
  apply List.map_congr_left
  intro c hc
  have := h c hc
  simp only [this, Bool.false_eq_true, if_false, id]


theorem codons_length {β} (l : List β) : (codons l).length = l.length / 3 := by
  induction l using codons.induct with
  | case1 a b c rest ih => simp only [codons, List.length_cons, ih]; omega
  | case2 l h =>
    match l, h with
    | [], _ => simp [codons]
    | [_], _ => simp [codons]
    | [_, _], _ => simp [codons]
    | a :: b :: c :: r, h => exact absurd rfl (h a b c r)

theorem extract_length {β} (seq : Int → β) (compl : β → β) (l : Loc) (hwf : geneWF l = true) :
    ((extract seq compl l).length : Int) = l.len := by
  obtain ⟨_, hparts⟩ := (geneWF_iff l).mp hwf
  rw [extract_uniform seq compl l l.strand (fun p hp => (hparts p hp).2), List.length_map,
    len_eq_bases_length l (fun p hp => Int.le_of_lt (hparts p hp).1)]

/-! ### features read back through `Record.from_biopython` -/

/-- without `allow_reversing` the origin test answers `location_bridges_origin` and touches nothing -/
theorem bridgesOriginAR_false (l : Loc) : bridgesOriginAR false l = (bridgesOrigin l, l) := by
  cases l with
  | simple p => rfl
  | compound ps =>
    simp only [bridgesOriginAR, bridgesOrigin]
    cases hs : (Loc.compound ps).strand <;> simp
    split <;> simp_all

/-- a feature that is not a misc_feature keeps its location when read back -/
theorem readLocation_other (c : Bool) (l : Loc) : readLocation c false l = l := by
  simp [readLocation, bridgesOriginAR_false]

theorem readLocation_not_bridging (c m : Bool) (l : Loc) (h : bridgesOrigin l = false) : readLocation c m l = l := by
  simp [readLocation, bridgesOriginAR_false, h]

/-- two exons, neither inside the other (e.g. a codon or a range split over the origin): nothing is redundant -/
theorem removeRedundant_two (p q : Part) (h1 : partContains p q = false) (h2 : partContains q p = false) :
    removeRedundantExons (.compound [p, q]) = .compound [p, q] := by
  by_cases hlen : p.len > q.len
  · simp [removeRedundantExons, sortBySizeDesc, insertBySizeDesc, hlen, h1]
  · simp [removeRedundantExons, sortBySizeDesc, insertBySizeDesc, hlen, h2]

/-! ### deepening round: single-exon frameshift, `Feature.start/end` -/

/-- a frameshifted single-exon location is a single-exon location -/
theorem frameshift_simple_shape (p : Part) (c : Int) (undo : Bool) (l' : Loc)
    (h : frameshift (.simple p) c undo = .ok l') : ∃ q, l' = .simple q := by
  by_cases hc : 1 ≤ c ∧ c ≤ 3
  · rw [frameshift_eq _ c undo hc] at h
    generalize (if (isRev (Loc.simple p) != undo) = true then -(c - 1) else c - 1) = off at h
    by_cases h0 : off = 0
    · subst h0
      simp [adjustByOffset] at h
      exact ⟨p, h.symm⟩
    · by_cases hr : -2 ≤ off ∧ off ≤ 2
      · rw [adjust_simple p off h0 hr] at h
        cases hq : adjustSingle p off with
        | ok q => rw [hq] at h; simp [Res.bind] at h; exact ⟨q, h.symm⟩
        | valueError => rw [hq] at h; simp [Res.bind] at h
        | assertion => rw [hq] at h; simp [Res.bind] at h
      · have : (decide (-2 ≤ off) && decide (off ≤ 2)) = false := by
          simp only [Bool.and_eq_false_iff, decide_eq_false_iff_not]; omega
        simp [adjustByOffset, h0, this] at h
  · rw [frameshift_refuses _ c undo hc] at h; cases h

theorem upRange_head? (lo : Int) (n : Nat) (h : 0 < n) : (upRange lo n).head? = some lo := by
  cases n with
  | zero => omega
  | succ n => rfl

theorem downRange_head? (hi : Int) (n : Nat) (h : 0 < n) : (downRange hi n).head? = some (hi - 1) := by
  cases n with
  | zero => omega
  | succ n => rfl

theorem upRange_getLast? (lo : Int) (n : Nat) (h : 0 < n) : (upRange lo n).getLast? = some (lo + n - 1) := by
  induction n generalizing lo with
  | zero => omega
  | succ n ih =>
    cases n with
    | zero => simp [upRange]
    | succ m =>
      have := ih (lo + 1) (by omega)
      simp only [upRange] at this ⊢
      rw [List.getLast?_cons_cons, this]
      congr 1; push_cast; omega

theorem downRange_getLast? (hi : Int) (n : Nat) (h : 0 < n) : (downRange hi n).getLast? = some (hi - n) := by
  induction n generalizing hi with
  | zero => omega
  | succ n ih =>
    cases n with
    | zero => simp [downRange]
    | succ m =>
      have := ih (hi - 1) (by omega)
      simp only [downRange] at this ⊢
      rw [List.getLast?_cons_cons, this]
      congr 1; push_cast; omega

/-- `Feature.start` / `Feature.end` are the gene's ends in transcription order: on a non-reverse strand the first
    transcribed base is `start` and the last is `end - 1`; on the reverse strand the first is `end - 1`, the last `start` -/
theorem feature_ends (l : Loc) (hwf : geneWF l = true) :
    (isRev l = false → (bases l).head? = some (featureStart l) ∧ (bases l).getLast? = some (featureEnd l - 1)) ∧
    (isRev l = true → (bases l).head? = some (featureEnd l - 1) ∧ (bases l).getLast? = some (featureStart l)) := by
  obtain ⟨hne, hparts⟩ := (geneWF_iff l).mp hwf
  obtain ⟨p, rest, hpr⟩ : ∃ p rest, l.parts = p :: rest := by
    cases h : l.parts with
    | nil => exact absurd h hne
    | cons a b => exact ⟨a, b, rfl⟩
  obtain ⟨ys, z, hyz⟩ : ∃ ys z, l.parts = ys ++ [z] := by
    rcases List.eq_nil_or_concat l.parts with h | ⟨ys, a, h⟩
    · exact absurd h hne
    · exact ⟨ys, a, by simpa using h⟩
  have hp := hparts p (by rw [hpr]; simp)
  have hz := hparts z (by rw [hyz]; simp)
  have hhead : (bases l).head? = (partBases p).head? := by
    have hne' : partBases p ≠ [] := by
      intro h0; have := partBases_length p; rw [h0] at this; simp at this; omega
    simp only [bases, hpr, List.flatMap_cons]
    cases hpb : partBases p with
    | nil => exact absurd hpb hne'
    | cons a b => rfl
  have hlast : (bases l).getLast? = (partBases z).getLast? := by
    have hne' : partBases z ≠ [] := by
      intro h0; have := partBases_length z; rw [h0] at this; simp at this; omega
    simp only [bases, hyz, List.flatMap_append, List.flatMap_cons, List.flatMap_nil, List.append_nil]
    rw [List.getLast?_append]
    cases hg : (partBases z).getLast? with
    | none => exact absurd (List.getLast?_eq_none_iff.mp hg) hne'
    | some v => rfl
  have hgl : l.parts.getLast? = some z := by rw [hyz]; simp
  have hhd : l.parts.head? = some p := by rw [hpr]; rfl
  constructor
  · intro hr
    have hpr' : (p.strand == Strand.rev) = false := by rw [hp.2]; simpa [isRev] using hr
    have hzr' : (z.strand == Strand.rev) = false := by rw [hz.2]; simpa [isRev] using hr
    refine ⟨?_, ?_⟩
    · rw [hhead]; simp only [partBases, hpr', Bool.false_eq_true, if_false, featureStart, hr, hhd]
      rw [upRange_head? _ _ (by omega)]; rfl
    · rw [hlast]; simp only [partBases, hzr', Bool.false_eq_true, if_false, featureEnd, hr, hgl]
      rw [upRange_getLast? _ _ (by omega)]
      simp only [Option.map_some, Option.getD_some]; congr 1; omega
  · intro hr
    have hpr' : (p.strand == Strand.rev) = true := by rw [hp.2]; simpa [isRev] using hr
    have hzr' : (z.strand == Strand.rev) = true := by rw [hz.2]; simpa [isRev] using hr
    refine ⟨?_, ?_⟩
    · rw [hhead]; simp only [partBases, hpr', if_true, featureEnd, hr, hhd]
      rw [downRange_head? _ _ (by omega)]; rfl
    · rw [hlast]; simp only [partBases, hzr', if_true, featureStart, hr, hgl]
      rw [downRange_getLast? _ _ (by omega)]
      simp only [Option.map_some, Option.getD_some]; congr 1; omega

end ASV.ProtDna
