/-
  C08 helper lemmas, part 5f: rewriting the annotations of a gene that is in the record (and in no collection
  yet) preserves the invariant.
-/
import ASV.Proofs.LookupInvOps
namespace ASV.Lookup
open ASV

mutual
theorem downNodes_congr {g g' : Gene} (h : g.loc = g'.loc) : ∀ (given : Option Section) (a : AreaT),
    downNodes g given a = downNodes g' given a
  | given, .mk id kind loc core product kids => by
    have hc : chooseSection loc g given = chooseSection loc g' given := by simp only [chooseSection, h]
    simp only [downNodes, hc, downKids_congr h]
theorem downKids_congr {g g' : Gene} (h : g.loc = g'.loc) : ∀ (sec : Option Section) (ks : List AreaT),
    downKids g sec ks = downKids g' sec ks
  | _, [] => rfl
  | sec, k :: ks => by simp only [downKids, h, downNodes_congr h, downKids_congr h]
end

theorem LinkedS.congr_gene {areas : List AreaT} {g g' : Gene} (h : g.loc = g'.loc) (d : AreaT) (s : Section) :
    LinkedS areas g d s ↔ LinkedS areas g' d s := by
  simp only [LinkedS, h, downNodes_congr h]

theorem Linked.congr_gene {areas : List AreaT} {g g' : Gene} (h : g.loc = g'.loc) (d : AreaT) :
    Linked areas g d ↔ Linked areas g' d := by
  simp only [Linked, LinkedS.congr_gene h]

/-- the gene after its annotations were rewritten -/
def recore (gid : Nat) (cs : List String) (g : Gene) : Gene := if g.id == gid then { g with cores := cs } else g

theorem recore_loc (gid : Nat) (cs : List String) (g : Gene) : (recore gid cs g).loc = g.loc := by
  unfold recore; split <;> rfl
theorem recore_id (gid : Nat) (cs : List String) (g : Gene) : (recore gid cs g).id = g.id := by
  unfold recore; split <;> rfl
theorem recore_other {gid : Nat} (cs : List String) {g : Gene} (h : g.id ≠ gid) : recore gid cs g = g := by
  unfold recore; simp [h]

theorem setCores_ok {r r' : Rec} {gid : Nat} {cs : List String} (h : setCores r gid cs = .ok r') :
    (∀ x ∈ r.members, x.2 ≠ gid) ∧
    r' = { r with genes := r.genes.map (recore gid cs), byName := r.byName.map (fun x => (x.1, recore gid cs x.2)),
                  cdsCache := r.cdsCache.map (recore gid cs) } := by
  unfold Lookup.setCores at h
  cases hm : (r.members.any fun x => x.2 == gid) with
  | true => simp [hm, throw, throwThe, MonadExceptOf.throw] at h
  | false =>
    simp only [hm, Bool.false_eq_true, if_false, pure, Except.pure] at h
    injection h with h
    refine ⟨?_, h.symm⟩
    rw [List.any_eq_false] at hm
    intro x hx; simpa using hm x hx

/-- rewriting a gene's annotations preserves the invariant; its definition-set part only if no collection lists
    the gene yet (`hS`), the rest always -/
theorem Inv.rewriteCores {S : Prop} {L : Live} {ever : List AreaT} {r : Rec} (h : Inv S L ever r) (gid : Nat) (cs : List String)
    (hS : S → ∀ x ∈ r.members, x.2 ≠ gid) :
    Inv S (L.step (.setCores gid cs)) ever (setCoresAny r gid cs) := by
  show Inv S (L.step (.setCores gid cs)) ever
    { r with genes := r.genes.map (Lookup.recore gid cs), byName := r.byName.map (fun x => (x.1, Lookup.recore gid cs x.2)),
             cdsCache := r.cdsCache.map (Lookup.recore gid cs) }
  have c := h.core
  let f := recore gid cs
  have floc : ∀ g, (f g).loc = g.loc := recore_loc gid cs
  have fid : ∀ g, (f g).id = g.id := recore_id gid cs
  have hmem : ∀ g', g' ∈ r.genes.map f ↔ ∃ g ∈ r.genes, f g = g' := fun g' => List.mem_map
  have hLstep : (L.step (.setCores gid cs)).genes = L.genes.map f := rfl
  refine ⟨?_, ?_⟩
  · refine { genesLive := ?_, regionsEq := c.regionsEq, protosEq := c.protosEq, candsEq := c.candsEq,
             subsEq := c.subsEq, liveEver := c.liveEver, sorted := ?_, ok := ?_, ids := ?_, byName := ?_,
             byLoc := ?_, areasOK := c.areasOK, kindsR := c.kindsR, kindsO := c.kindsO, disjoint := c.disjoint,
             membersSound := ?_, membersComplete := ?_, sectionsSound := ?_, sectionsComplete := ?_,
             cover := c.cover, defsSub := c.defsSub, defsSound := ?_, defsComplete := ?_,
             regionKeys := ?_, regionPtr := ?_ }
    · intro g'
      rw [hLstep]
      simp only [List.mem_map]
      constructor
      · rintro ⟨g, hg, e⟩; exact ⟨g, (c.genesLive g).1 hg, e⟩
      · rintro ⟨g, hg, e⟩; exact ⟨g, (c.genesLive g).2 hg, e⟩
    · show Sorted (r.genes.map f)
      unfold Sorted
      rw [List.pairwise_map]
      simp only [floc]
      exact c.sorted
    · intro g' hg'
      obtain ⟨g, hg, rfl⟩ := (hmem g').1 hg'
      rw [floc]; exact c.ok g hg
    · show (r.genes.map f).Pairwise _
      rw [List.pairwise_map]
      simp only [fid]
      exact c.ids
    · intro x
      simp only [List.mem_map]
      constructor
      · rintro ⟨y, hy, rfl⟩
        obtain ⟨g, hg, rfl⟩ := (c.byName y).1 hy
        exact ⟨f g, ⟨g, hg, rfl⟩, by rw [fid]⟩
      · rintro ⟨g', ⟨g, hg, rfl⟩, rfl⟩
        exact ⟨(g.id, g), (c.byName _).2 ⟨g, hg, rfl⟩, by rw [fid]⟩
    · intro l
      rw [c.byLoc]
      simp only [List.mem_map]
      constructor
      · rintro ⟨g, hg, rfl⟩; exact ⟨f g, ⟨g, hg, rfl⟩, floc g⟩
      · rintro ⟨g', ⟨g, hg, rfl⟩, rfl⟩; exact ⟨g, hg, (floc g).symm⟩
    · intro x hx
      obtain ⟨g, hg, d, hl, e⟩ := c.membersSound x hx
      exact ⟨f g, (hmem _).2 ⟨g, hg, rfl⟩, d, (Linked.congr_gene (floc g) d).2 hl, by rw [fid]; exact e⟩
    · intro g' hg' d hl
      obtain ⟨g, hg, rfl⟩ := (hmem g').1 hg'
      rw [fid]
      exact c.membersComplete g hg d ((Linked.congr_gene (floc g) d).1 hl)
    · intro x hx
      obtain ⟨g, hg, d, s, hl, e⟩ := c.sectionsSound x hx
      exact ⟨f g, (hmem _).2 ⟨g, hg, rfl⟩, d, s, (LinkedS.congr_gene (floc g) d s).2 hl, by rw [fid]; exact e⟩
    · intro g' hg' d s hl
      obtain ⟨g, hg, rfl⟩ := (hmem g').1 hg'
      rw [fid]
      exact c.sectionsComplete g hg d s ((LinkedS.congr_gene (floc g) d s).1 hl)
    · intro hS' x hx
      obtain ⟨g, hg, d, hl, hd, e⟩ := c.defsSound hS' x hx
      have hne : g.id ≠ gid := by
        intro e'
        have := hS hS' x (c.defsSub x hx)
        rw [e] at this; exact this e'
      exact ⟨g, (hmem _).2 ⟨g, hg, recore_other cs hne⟩, d, hl, hd, e⟩
    · intro hS' g' hg' d hl hd
      obtain ⟨g, hg, rfl⟩ := (hmem g').1 hg'
      have hl' := (Linked.congr_gene (floc g) d).1 hl
      by_cases hne : g.id = gid
      · exact absurd hne (hS hS' _ (c.membersComplete g hg d hl'))
      · have e : f g = g := recore_other cs hne
        rw [e] at hd ⊢
        exact c.defsComplete hS' g hg d hl' hd
    · intro x hx
      obtain ⟨g, hg, e⟩ := c.regionKeys x hx
      exact ⟨f g, (hmem _).2 ⟨g, hg, rfl⟩, by rw [fid]; exact e⟩
    · intro g' hg'
      obtain ⟨g, hg, rfl⟩ := (hmem g').1 hg'
      simp only [floc, fid]
      exact c.regionPtr g hg
  · refine ⟨?_, h.cache.slot, h.cache.tuple⟩
    intro hd
    show r.cdsCache.map f = r.genes.map f
    rw [h.cache.cds hd]

theorem Inv.setCores {S : Prop} {L : Live} {ever : List AreaT} {r r' : Rec} (h : Inv S L ever r) (gid : Nat) (cs : List String)
    (hstep : Lookup.setCores r gid cs = .ok r') : Inv S (L.step (.setCores gid cs)) ever r' := by
  obtain ⟨hno, e⟩ := setCores_ok hstep
  subst e
  exact h.rewriteCores gid cs (fun _ => hno)

end ASV.Lookup
