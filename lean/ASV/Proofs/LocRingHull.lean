/-
  Hulls of the pre- and post-origin chunk lists and the distance test of `_merge_over_origin` (C04, ring).
-/
import ASV.Proofs.LocRingSplit
set_option linter.unusedSimpArgs false
set_option linter.unusedVariables false
namespace ASV

/-- `FeatureLocation(min start, max end, 1)` of a list of forward parts -/
def hullP (qs : List Part) : Part := ⟨minList (qs.map (·.lo)), maxList (qs.map (·.hi)), .fwd⟩

def preOf (L : Int) (rs : List RLoc) : List Part := rs.flatMap (RLoc.pre L)
def postOf (L : Int) (rs : List RLoc) : List Part := rs.flatMap (RLoc.post L)

theorem map_simple_start (qs : List Part) : (qs.map Loc.simple).map (·.start) = qs.map (·.lo) := by
  rw [List.map_map]; rfl
theorem map_simple_end (qs : List Part) : (qs.map Loc.simple).map (·.end) = qs.map (·.hi) := by
  rw [List.map_map]; rfl

theorem commonStrand_fwd (qs : List Part) (hne : qs ≠ []) (hf : ∀ q ∈ qs, q.strand = .fwd) :
    commonStrand (qs.map Loc.simple) = .fwd := by
  cases qs with
  | nil => exact absurd rfl hne
  | cons q qs =>
    have hq : q.strand = .fwd := hf q (by simp)
    have hall : (qs.map Loc.simple).all (fun l => l.strand == (Loc.simple q).strand) = true := by
      rw [List.all_eq_true]
      intro l hl
      obtain ⟨q', hq', rfl⟩ := List.mem_map.1 hl
      simp [Loc.strand, hq, hf q' (List.mem_cons_of_mem _ hq')]
    rw [List.map_cons, commonStrand, if_pos hall]; exact hq

theorem hullOf_fwd (qs : List Part) (hne : qs ≠ []) (hf : ∀ q ∈ qs, q.strand = .fwd) :
    hullOf (qs.map .simple) = .simple (hullP qs) := by
  simp only [hullOf, hullP, map_simple_start, map_simple_end, commonStrand_fwd qs hne hf]

theorem hullP_bounds (qs : List Part) (q : Part) (hq : q ∈ qs) : (hullP qs).lo ≤ q.lo ∧ q.hi ≤ (hullP qs).hi :=
  ⟨minList_le_of_mem (List.mem_map.2 ⟨q, hq, rfl⟩), le_maxList_of_mem (List.mem_map.2 ⟨q, hq, rfl⟩)⟩

theorem hullP_attained (qs : List Part) (hne : qs ≠ []) :
    (∃ q ∈ qs, (hullP qs).lo = q.lo) ∧ (∃ q ∈ qs, (hullP qs).hi = q.hi) := by
  have h1 : qs.map (·.lo) ≠ [] := by simpa using hne
  have h2 : qs.map (·.hi) ≠ [] := by simpa using hne
  obtain ⟨q, hq, e⟩ := List.mem_map.1 (minList_mem h1)
  obtain ⟨q2, hq2, e2⟩ := List.mem_map.1 (maxList_mem h2)
  exact ⟨⟨q, hq, e.symm⟩, ⟨q2, hq2, e2.symm⟩⟩

theorem hullP_strand (qs : List Part) : (hullP qs).strand = .fwd := rfl

/-- every pre-origin chunk: forward, inside the record, nearer to the record end -/
theorem mem_preOf {L : Int} {rs : List RLoc} (h : ∀ r ∈ rs, r.OK L) {q : Part} (hq : q ∈ preOf L rs) :
    q.strand = .fwd ∧ 0 ≤ q.lo ∧ q.lo < q.hi ∧ q.hi ≤ L ∧ L ≤ q.lo + q.hi := by
  simp only [preOf, List.mem_flatMap] at hq
  obtain ⟨r, hr, hq⟩ := hq
  have hok := h r hr
  cases r with
  | one p =>
    simp only [RLoc.pre] at hq
    obtain ⟨h0, h1, h2⟩ := hok
    by_cases hc : p.lo < L - p.hi
    · rw [if_pos hc] at hq; cases hq
    · rw [if_neg hc] at hq
      simp only [List.mem_singleton] at hq; subst hq
      refine ⟨rfl, ?_, ?_, ?_, ?_⟩ <;> simp only [fl] <;> omega
  | two x y =>
    simp only [RLoc.pre, List.mem_singleton] at hq; subst hq
    obtain ⟨h0, h1, h2⟩ := hok
    refine ⟨rfl, ?_, ?_, ?_, ?_⟩ <;> simp only [fl] <;> omega

/-- every post-origin chunk: forward, inside the record, nearer to the origin -/
theorem mem_postOf {L : Int} {rs : List RLoc} (h : ∀ r ∈ rs, r.OK L) {q : Part} (hq : q ∈ postOf L rs) :
    q.strand = .fwd ∧ 0 ≤ q.lo ∧ q.lo < q.hi ∧ q.hi ≤ L ∧ q.lo + q.hi < L := by
  simp only [postOf, List.mem_flatMap] at hq
  obtain ⟨r, hr, hq⟩ := hq
  have hok := h r hr
  cases r with
  | one p =>
    simp only [RLoc.post] at hq
    obtain ⟨h0, h1, h2⟩ := hok
    by_cases hc : p.lo < L - p.hi
    · rw [if_pos hc] at hq
      simp only [List.mem_singleton] at hq; subst hq
      refine ⟨rfl, ?_, ?_, ?_, ?_⟩ <;> simp only [fl] <;> omega
    · rw [if_neg hc] at hq; cases hq
  | two x y =>
    simp only [RLoc.post, List.mem_singleton] at hq; subst hq
    obtain ⟨h0, h1, h2⟩ := hok
    refine ⟨rfl, ?_, ?_, ?_, ?_⟩ <;> simp only [fl] <;> omega

/-- the hull of the pre-origin chunks is again a pre-origin chunk -/
theorem hull_pre {L : Int} {rs : List RLoc} (h : ∀ r ∈ rs, r.OK L) (hne : preOf L rs ≠ []) :
    0 ≤ (hullP (preOf L rs)).lo ∧ (hullP (preOf L rs)).lo < (hullP (preOf L rs)).hi ∧
      (hullP (preOf L rs)).hi ≤ L ∧ L ≤ (hullP (preOf L rs)).lo + (hullP (preOf L rs)).hi := by
  obtain ⟨⟨q1, hq1, e1⟩, ⟨q2, hq2, e2⟩⟩ := hullP_attained _ hne
  have a := mem_preOf h hq1
  have b := mem_preOf h hq2
  have c := hullP_bounds _ q1 hq1
  have d := hullP_bounds _ q2 hq2
  omega

theorem hull_post {L : Int} {rs : List RLoc} (h : ∀ r ∈ rs, r.OK L) (hne : postOf L rs ≠ []) :
    0 ≤ (hullP (postOf L rs)).lo ∧ (hullP (postOf L rs)).lo < (hullP (postOf L rs)).hi ∧
      (hullP (postOf L rs)).hi ≤ L ∧ (hullP (postOf L rs)).lo + (hullP (postOf L rs)).hi < L := by
  obtain ⟨⟨q1, hq1, e1⟩, ⟨q2, hq2, e2⟩⟩ := hullP_attained _ hne
  have a := mem_postOf h hq1
  have b := mem_postOf h hq2
  have c := hullP_bounds _ q1 hq1
  have d := hullP_bounds _ q2 hq2
  omega

/-- each base of a reduced location lies in one of its chunks -/
theorem chunk_of_mem {L : Int} {rs : List RLoc} {r : RLoc} (hr : r ∈ rs) {i : Int} (hi : (r.toLoc L).mem i = true) :
    ∃ q, (q ∈ preOf L rs ∨ q ∈ postOf L rs) ∧ q.lo ≤ i ∧ i < q.hi := by
  cases r with
  | one p =>
    simp only [RLoc.toLoc, mem_simple] at hi
    refine ⟨fl p.lo p.hi, ?_, hi.1, hi.2⟩
    by_cases hc : p.lo < L - p.hi
    · right; simp only [postOf, List.mem_flatMap]; exact ⟨_, hr, by simp [RLoc.post, hc]⟩
    · left; simp only [preOf, List.mem_flatMap]; exact ⟨_, hr, by simp [RLoc.pre, hc]⟩
  | two x y =>
    simp only [RLoc.toLoc, mem_two, fl] at hi
    rcases hi with hi | hi
    · exact ⟨fl x L, Or.inl (by simp only [preOf, List.mem_flatMap]; exact ⟨_, hr, by simp [RLoc.pre]⟩), hi.1, hi.2⟩
    · exact ⟨fl 0 y, Or.inr (by simp only [postOf, List.mem_flatMap]; exact ⟨_, hr, by simp [RLoc.post]⟩), hi.1, hi.2⟩

/-- the test `over_origin < standard` of `_merge_over_origin` between a pre-origin hull `u` and a
    post-origin hull `l`: `l` lies before `u` and the way over the origin is strictly shorter -/
theorem over_lt_standard (u l : Part) (L : Int) (hL : 0 < L)
    (hu0 : 0 ≤ u.lo) (hu1 : u.lo < u.hi) (hu2 : u.hi ≤ L) (hu3 : L ≤ u.lo + u.hi)
    (hl0 : 0 ≤ l.lo) (hl1 : l.lo < l.hi) (hl2 : l.hi ≤ L) (hl3 : l.lo + l.hi < L) :
    getDistance (.simple u) (.simple l) L < getDistance (.simple u) (.simple l) 0 ↔
      (l.hi ≤ u.lo ∧ l.lo + L - u.hi < u.lo - l.hi) := by
  have hL0 : L ≠ 0 := by omega
  rw [getDistance_simple, getDistance_simple]
  cases hov : partsOverlap u l
  · have hd := noOverlap_disjoint hu1 hl1 hov
    rw [partDistance_eq_spec L u l ⟨hu0, hu1, fun _ => hu2⟩ ⟨hl0, hl1, fun _ => hl2⟩ hov,
      partDistance_eq_spec 0 u l ⟨hu0, hu1, fun h => absurd rfl h⟩ ⟨hl0, hl1, fun h => absurd rfl h⟩ hov]
    have hd' : l.hi ≤ u.lo := by omega
    have hn : ¬ u.hi ≤ l.lo := by omega
    simp only [specPartDist, hL0, if_false, if_true, lineGap]
    rw [if_neg hn, if_pos hd', if_neg hn, if_pos hd']
    omega
  · have hsh := (partsOverlap_iff u l hu1 hl1).1 hov
    obtain ⟨i, h1, h2⟩ := hsh
    rw [Part.mem_iff] at h1 h2
    simp only [partDistance, hov, if_true]
    omega

end ASV
