/-
  C05: on a linear record with well-formed protoclusters, candidate formation raises nothing
  (no constructor guard, no `assert`, no `ValueError`), so it always returns candidates.
-/
import ASV.Proofs.Passes
set_option linter.unusedSectionVars false
set_option linter.unusedVariables false
namespace ASV.CC
open ASV.CC.Spec

/-- a protocluster of a linear record: extent and core are single parts, the extent inside the record -/
def SimpleProto (p : Proto) : Prop :=
  (∃ q, p.loc = .simple q ∧ 0 ≤ q.lo ∧ q.lo ≤ q.hi) ∧ ∃ r, p.core = .simple r

theorem simple_line {l : Loc} (h : ∃ q, l = .simple q) : l.parts ≠ [] ∧ bridgesOrigin l = false := by
  obtain ⟨q, rfl⟩ := h
  simp [Loc.parts, bridgesOrigin]

theorem connect_simple_ok {ls : List Loc} (hne : ls ≠ []) (h : ∀ l, l ∈ ls → ∃ q, l = .simple q) :
    connect ls none = .ok (.simple ⟨minList (ls.map (·.start)), maxList (ls.map (·.end)), commonStrand ls⟩) :=
  connect_line ls hne (fun l hl => simple_line (h l hl))

theorem mkCand_simple {k : Kind} {ms : List Proto} (hne : ms ≠ []) (h : ∀ m, m ∈ ms → SimpleProto m) :
    ∃ c, mkCand none k ms = .ok c := by
  have hls : ∀ l, l ∈ ms.map (·.loc) → ∃ q, l = .simple q := by
    intro l hl
    obtain ⟨m, hm, e⟩ := List.mem_map.1 hl
    obtain ⟨⟨q, hq, _⟩, _⟩ := h m hm
    exact ⟨q, by rw [← e, hq]⟩
  have hc := connect_simple_ok (by simpa using hne) hls
  have hemp : ms.isEmpty = false := by cases ms <;> simp_all
  unfold mkCand
  rw [hemp]
  simp only [Bool.false_eq_true, if_false, hc]
  -- the guards on a one-part location
  have hstart : ¬ minList (List.map (fun x => x.start) (List.map (fun x => x.loc) ms)) < 0 := by
    have hmem := minList_mem (l := (List.map (fun x => x.start) (List.map (fun x => x.loc) ms))) (by simpa using hne)
    obtain ⟨l, hl, e⟩ := List.mem_map.1 hmem
    obtain ⟨m, hm, e2⟩ := List.mem_map.1 hl
    obtain ⟨⟨q, hq, h0, _⟩, _⟩ := h m hm
    rw [← e, ← e2, hq]
    simp only [Loc.start]; omega
  have hcont : (ms.all fun m => locationContainsOther
      (.simple ⟨minList (List.map (fun x => x.start) (List.map (fun x => x.loc) ms)),
                maxList (List.map (fun x => x.end) (List.map (fun x => x.loc) ms)),
                commonStrand (List.map (fun x => x.loc) ms)⟩) m.loc) = true := by
    rw [List.all_eq_true]
    intro m hm
    obtain ⟨⟨q, hq, _, hqq⟩, _⟩ := h m hm
    have h1 : minList (List.map (fun x => x.start) (List.map (fun x => x.loc) ms)) ≤ q.lo := by
      apply minList_le_of_mem
      exact List.mem_map.2 ⟨m.loc, List.mem_map.2 ⟨m, hm, rfl⟩, by rw [hq]; rfl⟩
    have h2 : q.hi ≤ maxList (List.map (fun x => x.end) (List.map (fun x => x.loc) ms)) := by
      apply le_maxList_of_mem
      exact List.mem_map.2 ⟨m.loc, List.mem_map.2 ⟨m, hm, rfl⟩, by rw [hq]; rfl⟩
    rw [hq]
    simp only [locationContainsOther, Loc.parts, List.all_cons, List.all_nil, List.any_cons, List.any_nil,
      Bool.or_false, Bool.and_true, partContains, Bool.and_eq_true, decide_eq_true_eq]
    exact ⟨⟨h1, hqq⟩, h2⟩
  generalize minList (List.map (fun x => x.start) (List.map (fun x => x.loc) ms)) = lo at hstart hcont ⊢
  generalize maxList (List.map (fun x => x.end) (List.map (fun x => x.loc) ms)) = hi at hcont ⊢
  generalize commonStrand (List.map (fun x => x.loc) ms) = st at hcont ⊢
  simp only [Loc.parts, Loc.start, List.length_singleton, hcont]
  simp [hstart]

theorem candCore_simple {c : Cand} (hne : c.members ≠ []) (h : ∀ m, m ∈ c.members → SimpleProto m) :
    ∃ k, candCore none c = .ok k ∧ twoParts k = false := by
  have hls : ∀ l, l ∈ c.members.map (·.core) → ∃ q, l = .simple q := by
    intro l hl
    obtain ⟨m, hm, e⟩ := List.mem_map.1 hl
    obtain ⟨_, r, hr⟩ := h m hm
    exact ⟨r, by rw [← e, hr]⟩
  refine ⟨_, connect_simple_ok (by simpa using hne) hls, ?_⟩
  simp [twoParts, Loc.parts]

theorem withCores_simple {cands : List Cand} (h : ∀ c, c ∈ cands → c.members ≠ [] ∧ ∀ m, m ∈ c.members → SimpleProto m) :
    ∃ cc, withCores none cands = .ok cc := by
  induction cands with
  | nil => exact ⟨[], rfl⟩
  | cons c cs ih =>
    obtain ⟨k, hk, _⟩ := candCore_simple (h c List.mem_cons_self).1 (h c List.mem_cons_self).2
    obtain ⟨r, hr⟩ := ih (fun c' hc' => h c' (List.mem_cons_of_mem _ hc'))
    exact ⟨(c, k) :: r, by simp only [withCores, hk, hr]⟩

theorem extendGroups_simple {byCore : List Proto} {gs : List (List Proto)}
    (h : ∀ g, g ∈ gs → g ≠ [] ∧ ∀ m, m ∈ g → SimpleProto m) : ∃ gs', extendGroups none byCore gs = .ok gs' := by
  induction gs with
  | nil => exact ⟨[], rfl⟩
  | cons g rest ih =>
    obtain ⟨r, hr⟩ := ih (fun g' hg' => h g' (List.mem_cons_of_mem _ hg'))
    have hls : ∀ l, l ∈ g.map (·.core) → ∃ q, l = .simple q := by
      intro l hl
      obtain ⟨m, hm, e⟩ := List.mem_map.1 hl
      obtain ⟨_, r, hr⟩ := (h g List.mem_cons_self).2 m hm
      exact ⟨r, by rw [← e, hr]⟩
    have hc := connect_simple_ok (by simpa using (h g List.mem_cons_self).1) hls
    have : ∃ g', extendGroup none byCore g = .ok g' := by
      unfold extendGroup
      rw [hc]
      exact ⟨_, rfl⟩
    obtain ⟨g', hg'⟩ := this
    exact ⟨g' :: r, by simp only [extendGroups, hg', hr]⟩

theorem findHybrids_simple {clusters : List Proto} (hne : clusters ≠ []) (hn : clusters.Nodup)
    (h : ∀ p, p ∈ clusters → SimpleProto p) : ∃ r, findHybrids clusters none = .ok r := by
  unfold findHybrids
  cases clusters with
  | nil => exact absurd rfl hne
  | cons c0 rest =>
    dsimp only
    generalize hgroups : (pairsWhere shares (fun a b => [a, b]) (sortBy coreKeyLt (c0 :: rest)) ++
      match (sortBy coreKeyLt (c0 :: rest)).head?, (sortBy coreKeyLt (c0 :: rest)).getLast? with
      | some f, some l => if (f != l && shares f l) = true then [[f, l]] else []
      | x, x_1 => []) = groups
    have hpair : ∀ g, g ∈ groups → ∀ p, p ∈ g → p ∈ c0 :: rest := by
      intro g hg
      rw [← hgroups] at hg
      rcases List.mem_append.1 hg with h1 | h1
      · obtain ⟨a, b, hbf, _, e⟩ := (mem_pairsWhere _ _ _ _).1 h1
        subst e
        have hm := before_mem hbf
        intro p hp
        rcases List.mem_cons.1 hp with e | e
        · rw [e]; exact (mem_sortBy _ _ _).1 hm.1
        · have : p = b := by simpa using e
          rw [this]; exact (mem_sortBy _ _ _).1 hm.2
      · split at h1
        · rename_i f l hf hl
          split at h1
          · have hg' : g = [f, l] := by simpa using h1
            subst hg'
            intro p hp
            rcases List.mem_cons.1 hp with e | e
            · rw [e]; exact (mem_sortBy _ _ _).1 (List.mem_of_head? hf)
            · have : p = l := by simpa using e
              rw [this]; exact (mem_sortBy _ _ _).1 (List.mem_of_getLast? hl)
          · cases h1
        · cases h1
    have hmerged : ∀ m, m ∈ mergeSets groups → m ≠ [] ∧ ∀ p, p ∈ m → SimpleProto p := by
      intro m hm
      obtain ⟨r0, h0, e⟩ := mem_mergeSets.1 hm
      refine ⟨?_, ?_⟩
      · intro em
        have hr0 := (mergeSetsCore_spec groupKey groups).2.1 r0 h0
        apply hr0
        have : (sortProtos r0).length = 0 := by rw [← e, em]; rfl
        simp only [length_sortProtos] at this
        exact List.eq_nil_of_length_eq_zero this
      · intro p hp
        obtain ⟨g, hg, hpg⟩ := mergeSets_from hm p hp
        exact h p (hpair g hg p hpg)
    obtain ⟨ext, hext⟩ := extendGroups_simple (byCore := sortBy coreStartLt
      (List.filter (fun c => !groups.flatten.contains c) (c0 :: rest))) hmerged
    rw [hext]
    exact ⟨_, rfl⟩

theorem findInterleaved_simple {clusters : List Proto} {cands : List Cand}
    (h : ∀ c, c ∈ cands → c.members ≠ [] ∧ ∀ m, m ∈ c.members → SimpleProto m) :
    ∃ r, findInterleaved clusters cands none = .ok r := by
  obtain ⟨cc, hcc⟩ := withCores_simple h
  have hno := withCores_none_simple hcc
  unfold findInterleaved
  dsimp only
  have hx : ∀ (cc' : List CandC) un groups, (∀ x, x ∈ cc' → twoParts x.2 = false) →
      findCrossOriginInterleaved cc' un groups none = .ok ([], groups) := by
    intro cc' un groups hno'
    unfold findCrossOriginInterleaved
    split
    · rfl
    · have : (cc'.any fun c => twoParts c.2) = false := by
        rw [List.any_eq_false]; intro x hxc; simp [hno' x hxc]
      rw [if_pos (by simp [this])]
  by_cases hneed : (decide (cands.length > 1) || (!clusters.isEmpty && !cands.isEmpty)) = true
  · rw [if_pos hneed, hcc]
    dsimp only
    rw [hx cc _ _ hno]
    exact ⟨_, rfl⟩
  · rw [if_neg hneed]
    dsimp only
    rw [hx [] _ _ (fun x hx => by cases hx)]
    exact ⟨_, rfl⟩

theorem buildOne_simple {ps : List Proto} (hps : ∀ p, p ∈ ps → SimpleProto p) {kind : Kind} {t : Table} {g : List Proto}
    (hlen : 2 ≤ g.length) (hgp : ∀ p, p ∈ g → p ∈ ps) (ht : TableWF none ps t) :
    ∃ t', buildOne none kind t g = .ok t' := by
  unfold buildOne
  have h1 : (!(kind == Kind.single || decide (g.length > 1))) = false := by
    have : g.length > 1 := by omega
    simp [this]
  rw [h1]
  simp only [Bool.false_eq_true, if_false]
  have hgne : sortProtos g ≠ [] := by
    intro e
    have : (sortProtos g).length = 0 := by rw [e]; rfl
    simp only [length_sortProtos] at this
    omega
  obtain ⟨cand, hcand⟩ := mkCand_simple (k := kind) hgne (fun m hm => hps m (hgp m (mem_sortProtos.1 hm)))
  rw [hcand]
  dsimp only
  split
  · exact ⟨_, rfl⟩
  · rename_i ex hget
    have hexwf : CandWF none ps ex := ht.1 ex (mem_values.2 ⟨_, getGo_mem hget⟩)
    split
    · rename_i hextras
      -- nothing new: every protocluster of the group is a member of the kept candidate, which contains it
      have hall : (g.all fun m => locationContainsOther ex.loc m.loc) = true := by
        rw [List.all_eq_true]
        intro m hm
        apply hexwf.ok.contains
        by_cases hin : m ∈ ex.members
        · exact hin
        · exfalso
          have : m ∈ diffL (dedup g) ex.members := mem_diffL.2 ⟨mem_dedup.2 hm, hin⟩
          have he : diffL (dedup g) ex.members = [] := by simpa using hextras
          rw [he] at this; cases this
      rw [hall]
      exact ⟨_, rfl⟩
    · have hne2 : sortProtos (dedup ex.members ++ diffL (dedup g) ex.members) ≠ [] := by
        intro e
        have hl : (sortProtos (dedup ex.members ++ diffL (dedup g) ex.members)).length = 0 := by rw [e]; rfl
        simp only [length_sortProtos, List.length_append] at hl
        have : dedup ex.members = [] := List.eq_nil_of_length_eq_zero (by omega)
        obtain ⟨x, hx⟩ := List.exists_mem_of_ne_nil _ hexwf.ok.nonempty
        have := mem_dedup.2 hx
        rw [‹dedup ex.members = []›] at this
        cases this
      obtain ⟨repl, hrepl⟩ := mkCand_simple (k := ex.kind) hne2 (fun m hm => by
        rcases List.mem_append.1 (mem_sortProtos.1 hm) with h1 | h1
        · exact hps m (hexwf.fromInput m (mem_dedup.1 h1))
        · exact hps m (hgp m (mem_dedup.1 (mem_diffL.1 h1).1)))
      rw [hrepl]
      exact ⟨_, rfl⟩

theorem buildCandidates_simple {ps : List Proto} (hps : ∀ p, p ∈ ps → SimpleProto p) {kind : Kind} (hk : kind ≠ .single)
    {gs : List (List Proto)} {t : Table}
    (hg : ∀ g, g ∈ gs → g.Nodup ∧ 2 ≤ g.length ∧ ∀ p, p ∈ g → p ∈ ps) (ht : TableWF none ps t) :
    ∃ t', buildCandidates none kind t gs = .ok t' := by
  induction gs generalizing t with
  | nil => exact ⟨t, rfl⟩
  | cons g gs ih =>
    obtain ⟨a, b, c⟩ := hg g List.mem_cons_self
    obtain ⟨t1, h1⟩ := buildOne_simple hps (kind := kind) b c ht
    obtain ⟨t2, h2⟩ := ih (fun g' hg' => hg g' (List.mem_cons_of_mem _ hg')) (buildOne_wf h1 hk a c ht)
    exact ⟨t2, by simp only [buildCandidates, h1, h2]⟩

theorem addSingles_simple {ps : List Proto} (hps : ∀ p, p ∈ ps → SimpleProto p) {t : Table} {l : List Proto}
    (hl : ∀ p, p ∈ l → p ∈ ps) : ∃ ss, addSingles none t l = .ok ss := by
  induction l with
  | nil => exact ⟨[], rfl⟩
  | cons q rest ih =>
    obtain ⟨cs, hcs⟩ := ih (fun p hp => hl p (List.mem_cons_of_mem _ hp))
    obtain ⟨c, hc⟩ := mkCand_simple (k := .single) (ms := [q]) (by simp) (fun m hm => by
      have : m = q := by simpa using hm
      rw [this]; exact hps q (hl q List.mem_cons_self))
    simp only [addSingles, hcs, hc]
    repeat' split
    all_goals exact ⟨_, rfl⟩

/-- on a linear record with well-formed protoclusters formation raises nothing -/
theorem formation_total_linear {ps : List Proto} (hn : ps.Nodup) (hps : ∀ p, p ∈ ps → SimpleProto p) :
    ∃ cs, formation ps none = .ok cs := by
  by_cases hne : ps = []
  · subst hne; exact ⟨[], rfl⟩
  have hun0 : (sortProtos ps).Nodup := nodup_sortProtos hn
  have hps0 : ∀ p, p ∈ sortProtos ps → p ∈ ps := fun p hp => mem_sortProtos.1 hp
  have hne0 : sortProtos ps ≠ [] := by
    intro e
    have : (sortProtos ps).length = 0 := by rw [e]; rfl
    simp only [length_sortProtos] at this
    exact hne (List.eq_nil_of_length_eq_zero this)
  obtain ⟨⟨hgroups, un1⟩, hH⟩ := findHybrids_simple hne0 hun0 (fun p hp => hps p (hps0 p hp))
  obtain ⟨hH1, hH2, hH3⟩ := findHybrids_wf hH hun0
  have ht0 : TableWF none ps ⟨[], []⟩ := ⟨fun c hc => by simp [Table.values] at hc, fun p hp => by cases hp⟩
  have hg1 : ∀ g, g ∈ hgroups → g.Nodup ∧ 2 ≤ g.length ∧ ∀ p, p ∈ g → p ∈ ps :=
    fun g hg => ⟨(hH1 g hg).1, (hH1 g hg).2.1, fun p hp => hps0 p ((hH1 g hg).2.2 p hp)⟩
  obtain ⟨t1, hB1⟩ := buildCandidates_simple hps (kind := .hybrid) (by decide) hg1 ht0
  have ht1 : TableWF none ps t1 := buildCandidates_wf hB1 (by decide) (fun g hg => ⟨(hg1 g hg).1, (hg1 g hg).2.2⟩) ht0
  have hc1 : ∀ c, c ∈ sortCands t1.values → c.members ≠ [] ∧ ∀ m, m ∈ c.members → SimpleProto m := fun c hc =>
    ⟨(ht1.1 c (mem_sortCands.1 hc)).ok.nonempty, fun m hm => hps m ((ht1.1 c (mem_sortCands.1 hc)).fromInput m hm)⟩
  obtain ⟨⟨igroups, un2⟩, hI⟩ := findInterleaved_simple (clusters := un1) hc1
  have hbig1 : ∀ c, c ∈ sortCands t1.values → CandBig c := fun c hc =>
    ⟨(ht1.1 c (mem_sortCands.1 hc)).nodup, (ht1.1 c (mem_sortCands.1 hc)).big⟩
  obtain ⟨hI1, hI2, hI3⟩ := findInterleaved_wf hI hH2 hbig1
  have hg2 : ∀ g, g ∈ igroups → g.Nodup ∧ 2 ≤ g.length ∧ ∀ p, p ∈ g → p ∈ ps := fun g hg =>
    ⟨(hI1 g hg).1, (hI1 g hg).2.1, fun p hp => by
      rcases (hI1 g hg).2.2 p hp with h1 | ⟨c, hc, hpc⟩
      · exact hps0 p (hH3 p h1)
      · exact (ht1.1 c (mem_sortCands.1 hc)).fromInput p hpc⟩
  obtain ⟨t2, hB2⟩ := buildCandidates_simple hps (kind := .interleaved) (by decide) hg2 ht1
  have ht2 : TableWF none ps t2 := buildCandidates_wf hB2 (by decide) (fun g hg => ⟨(hg2 g hg).1, (hg2 g hg).2.2⟩) ht1
  have hbig2 : ∀ c, c ∈ sortCands t2.values → CandBig c := fun c hc =>
    ⟨(ht2.1 c (mem_sortCands.1 hc)).nodup, (ht2.1 c (mem_sortCands.1 hc)).big⟩
  have hN := findNeighbouring_wf hI2 hbig2
  have hg3 : ∀ g, g ∈ findNeighbouring un2 (sortCands t2.values) → g.Nodup ∧ 2 ≤ g.length ∧ ∀ p, p ∈ g → p ∈ ps := fun g hg =>
    ⟨(hN g hg).1, (hN g hg).2.1, fun p hp => by
      rcases (hN g hg).2.2 p hp with h1 | ⟨c, hc, hpc⟩
      · exact hps0 p (hH3 p (hI3 p h1))
      · exact (ht2.1 c (mem_sortCands.1 hc)).fromInput p hpc⟩
  obtain ⟨t3, hB3⟩ := buildCandidates_simple hps (kind := .neighbouring) (by decide) hg3 ht2
  have ht3 : TableWF none ps t3 := buildCandidates_wf hB3 (by decide) (fun g hg => ⟨(hg3 g hg).1, (hg3 g hg).2.2⟩) ht2
  obtain ⟨singles, hS⟩ := addSingles_simple hps (t := t3) (l := sortProtos (dedup (un2 ++ t3.singles))) (fun p hp => by
    rcases List.mem_append.1 (mem_dedup.1 (mem_sortProtos.1 hp)) with h2 | h2
    · exact hps0 p (hH3 p (hI3 p h2))
    · exact ht3.2 p h2)
  have hcore : formationCore ps none = .ok (sortCands t3.values ++ singles) := by
    unfold formationCore
    have : ps.isEmpty = false := by cases ps <;> simp_all
    rw [this]
    simp only [Bool.false_eq_true, if_false, hH, hB1, hI, hB2, hB3, hS]
  exact ⟨_, formation_eq_core hcore hn⟩

end ASV.CC
