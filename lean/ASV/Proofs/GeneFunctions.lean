/-
  C08 helper lemmas: the gene-function container keeps its two indexes in step with the annotation list.
-/
import ASV.Spec.GeneFunctions
namespace ASV.GeneFn

/-- the indexes list exactly the annotations, under their keys, in the same order -/
structure Consistent (g : GF) : Prop where
  byFunction : g.byFunction = g.annotations.map fun a => (a.fn, a)
  byTool : g.byTool = g.annotations.map fun a => (a.tool, a)

theorem Consistent.getByFunction {g : GF} (h : Consistent g) (fn : Nat) :
    g.getByFunction fn = g.annotations.filter fun a => a.fn == fn := by
  simp only [GF.getByFunction, h.byFunction, List.filter_map, List.map_map]
  induction g.annotations with
  | nil => rfl
  | cons a l ih => simp only [List.filter_cons, Function.comp]; split <;> simp [ih]

theorem Consistent.getByTool {g : GF} (h : Consistent g) (tool : String) :
    g.getByTool tool = g.annotations.filter fun a => a.tool == tool := by
  simp only [GF.getByTool, h.byTool, List.filter_map, List.map_map]
  induction g.annotations with
  | nil => rfl
  | cons a l ih => simp only [List.filter_cons, Function.comp]; split <;> simp [ih]

theorem Consistent.step {g : GF} (h : Consistent g) (op : Op) : Consistent (step g op) := by
  cases op with
  | clear => exact ⟨rfl, rfl⟩
  | add a =>
    simp only [GeneFn.step, GF.add]
    split
    · exact h
    · exact ⟨by simp [h.byFunction], by simp [h.byTool]⟩

theorem foldl_consistent : ∀ (ops : List Op) (g : GF), Consistent g → Consistent (ops.foldl step g)
  | [], _, h => h
  | op :: ops, g, h => foldl_consistent ops (step g op) (h.step op)

theorem run_consistent (ops : List Op) : Consistent (run ops) := foldl_consistent ops {} ⟨rfl, rfl⟩

/-- the annotation list is what the spec says the gene carries -/
theorem foldl_carried : ∀ (ops : List Op) (g : GF), Consistent g →
    (ops.foldl step g).annotations = ops.foldl (fun acc op => match op with
      | .clear => []
      | .add a => if acc.contains a then acc else acc ++ [a]) g.annotations
  | [], _, _ => rfl
  | op :: ops, g, h => by
    simp only [List.foldl_cons]
    rw [foldl_carried ops (step g op) (h.step op)]
    congr 1
    cases op with
    | clear => rfl
    | add a =>
      simp only [GeneFn.step, GF.add, h.getByFunction]
      have : ((g.annotations.filter fun b => b.fn == a.fn).contains a) = g.annotations.contains a := by
        rw [Bool.eq_iff_iff]
        simp only [List.contains_iff_mem, List.mem_filter, beq_iff_eq, and_true]
      rw [this]
      split <;> rfl

theorem run_annotations (ops : List Op) : (run ops).annotations = carried ops :=
  foldl_carried ops {} ⟨rfl, rfl⟩

end ASV.GeneFn
