/-
  Helper lemmas for the feature ordering (`Feature.__lt__`), C04.
-/
import ASV.Proofs.LocOffset
namespace ASV


/-- the sort key of `Feature.__lt__`: (comparator start, length), compared lexicographically -/
def keyLt (a b : Int × Int) : Bool := decide (a.1 < b.1) || (a.1 == b.1 && decide (a.2 < b.2))

theorem featureLt_eq (a b : Loc) (ka kb : Int) (ha : comparatorStart a = .ok ka) (hb : comparatorStart b = .ok kb) :
    featureLt a b = .ok (keyLt (ka, a.len) (kb, b.len)) := by
  simp [featureLt, ha, hb, keyLt, bind, Except.bind, pure, Except.pure]

theorem keyLt_irrefl (a : Int × Int) : keyLt a a = false := by
  simp [keyLt]

theorem keyLt_trans (a b c : Int × Int) (h1 : keyLt a b = true) (h2 : keyLt b c = true) : keyLt a c = true := by
  simp only [keyLt, Bool.or_eq_true, Bool.and_eq_true, decide_eq_true_eq, beq_iff_eq] at *
  omega

theorem keyLt_total (a b : Int × Int) (h : a ≠ b) : keyLt a b = true ∨ keyLt b a = true := by
  simp only [keyLt, Bool.or_eq_true, Bool.and_eq_true, decide_eq_true_eq, beq_iff_eq]
  have : a.1 ≠ b.1 ∨ a.2 ≠ b.2 := by
    by_cases h1 : a.1 = b.1
    · by_cases h2 : a.2 = b.2
      · exact absurd (Prod.ext h1 h2) h
      · exact Or.inr h2
    · exact Or.inl h1
  omega

/-- incomparability (equal keys) is transitive: with irreflexivity and transitivity this makes
    `Feature.__lt__` a strict weak order, so `sorted()`/`bisect` behave -/
theorem keyLt_incomp_trans (a b c : Int × Int)
    (h1 : keyLt a b = false ∧ keyLt b a = false) (h2 : keyLt b c = false ∧ keyLt c b = false) :
    keyLt a c = false ∧ keyLt c a = false := by
  simp only [keyLt, Bool.or_eq_false_iff, Bool.and_eq_false_iff, decide_eq_false_iff_not, beq_eq_false_iff_ne] at *
  omega

end ASV
