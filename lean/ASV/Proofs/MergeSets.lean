/-
  Helper lemmas for `_merge_sets` (C05): the repeat-until-stable merge yields the partition of
  the union of the input sets into the classes of "linked by a chain of input sets".
-/
import ASV.Model.Candidates
import ASV.Spec.Candidates
set_option linter.unusedSectionVars false
set_option linter.unusedVariables false
namespace ASV.CC
open ASV.CC.Spec

section
variable {α : Type} [DecidableEq α]

theorem mem_unionL {a b : List α} {x : α} : x ∈ unionL a b ↔ x ∈ a ∨ x ∈ b := by
  simp only [unionL, List.mem_append, List.mem_filter, Bool.not_eq_true', List.contains_eq_mem,
    decide_eq_false_iff_not]
  constructor
  · rintro (h | ⟨h, _⟩)
    · exact Or.inl h
    · exact Or.inr h
  · intro h
    by_cases hx : x ∈ a
    · exact Or.inl hx
    · rcases h with h | h
      · exact absurd h hx
      · exact Or.inr ⟨h, hx⟩

theorem disjointB_iff {a b : List α} : disjointB a b = true ↔ ∀ x, x ∈ a → x ∉ b := by
  simp [disjointB]

theorem mem_dedup {l : List α} {x : α} : x ∈ dedup l ↔ x ∈ l := by
  induction l with
  | nil => simp [dedup]
  | cons y ys ih =>
    simp only [dedup, List.mem_cons, List.mem_filter, ih, bne_iff_ne, ne_eq]
    constructor
    · rintro (h | ⟨h, _⟩)
      · exact Or.inl h
      · exact Or.inr h
    · intro h
      by_cases hxy : x = y
      · exact Or.inl hxy
      · rcases h with h | h
        · exact absurd h hxy
        · exact Or.inr ⟨h, hxy⟩

theorem nodup_dedup (l : List α) : (dedup l).Nodup := by
  induction l with
  | nil => simp [dedup]
  | cons y ys ih =>
    simp only [dedup, List.nodup_cons, List.mem_filter, bne_self_eq_false, Bool.false_eq_true, and_false,
      not_false_eq_true, true_and]
    exact ih.filter _

/-! ### stable insertion sort: a permutation -/

theorem mem_insertBy (lt : α → α → Bool) (x y : α) (l : List α) : y ∈ insertBy lt x l ↔ y = x ∨ y ∈ l := by
  induction l with
  | nil => simp [insertBy]
  | cons z zs ih =>
    simp only [insertBy]
    split
    · simp only [List.mem_cons, ih]
      constructor
      · rintro (h | h | h)
        · exact Or.inr (Or.inl h)
        · exact Or.inl h
        · exact Or.inr (Or.inr h)
      · rintro (h | h | h)
        · exact Or.inr (Or.inl h)
        · exact Or.inl h
        · exact Or.inr (Or.inr h)
    · simp [List.mem_cons]

theorem mem_sortBy (lt : α → α → Bool) (y : α) (l : List α) : y ∈ sortBy lt l ↔ y ∈ l := by
  induction l with
  | nil => simp [sortBy]
  | cons z zs ih =>
    have : sortBy lt (z :: zs) = insertBy lt z (sortBy lt zs) := rfl
    rw [this, mem_insertBy, ih]; simp [List.mem_cons]

theorem length_insertBy (lt : α → α → Bool) (x : α) (l : List α) : (insertBy lt x l).length = l.length + 1 := by
  induction l with
  | nil => simp [insertBy]
  | cons z zs ih =>
    simp only [insertBy]
    split
    · simp [ih]
    · simp

theorem length_sortBy (lt : α → α → Bool) (l : List α) : (sortBy lt l).length = l.length := by
  induction l with
  | nil => simp [sortBy]
  | cons z zs ih =>
    have : sortBy lt (z :: zs) = insertBy lt z (sortBy lt zs) := rfl
    rw [this, length_insertBy, ih]; simp

theorem perm_insertBy (lt : α → α → Bool) (x : α) (l : List α) : (insertBy lt x l).Perm (x :: l) := by
  induction l with
  | nil => simp [insertBy]
  | cons z zs ih =>
    simp only [insertBy]
    split
    · exact (List.Perm.cons z ih).trans (List.Perm.swap x z zs)
    · exact List.Perm.refl _

theorem perm_sortBy (lt : α → α → Bool) (l : List α) : (sortBy lt l).Perm l := by
  induction l with
  | nil => simp [sortBy]
  | cons z zs ih =>
    have : sortBy lt (z :: zs) = insertBy lt z (sortBy lt zs) := rfl
    rw [this]
    exact (perm_insertBy lt z _).trans (List.Perm.cons z ih)

/-! ### CPython's small-list sort: a permutation too -/

theorem perm_binInsert (lt : α → α → Bool) (sorted : List α) (pivot : α) :
    (binInsert lt sorted pivot).Perm (pivot :: sorted) := by
  simp only [binInsert]
  have h := List.take_append_drop (binSearch lt sorted pivot (sorted.length + 1) 0 sorted.length) sorted
  exact List.perm_middle.trans (List.Perm.cons pivot (by rw [h]))

theorem perm_foldl_binInsert (lt : α → α → Bool) (rest run : List α) :
    (rest.foldl (binInsert lt) run).Perm (run ++ rest) := by
  induction rest generalizing run with
  | nil => simp
  | cons x xs ih =>
    simp only [List.foldl_cons]
    refine (ih (binInsert lt run x)).trans ?_
    refine (List.Perm.append_right xs (perm_binInsert lt run x)).trans ?_
    simp only [List.cons_append]
    exact List.perm_middle.symm

theorem perm_pySort (lt : α → α → Bool) (l : List α) : (pySort lt l).Perm l := by
  simp only [pySort]
  refine (perm_foldl_binInsert lt _ _).trans ?_
  have h := List.take_append_drop (countRun lt l).1 l
  split
  · refine (List.Perm.append_right _ (List.reverse_perm _)).trans ?_
    rw [h]
  · rw [h]

theorem mem_pySort (lt : α → α → Bool) (y : α) (l : List α) : y ∈ pySort lt l ↔ y ∈ l :=
  (perm_pySort lt l).mem_iff

theorem length_pySort (lt : α → α → Bool) (l : List α) : (pySort lt l).length = l.length :=
  (perm_pySort lt l).length_eq

/-! ### one absorbing pass -/

/-- number of non-empty sets -/
def nonEmptyCount (l : List (List α)) : Nat := (l.filter fun s => !s.isEmpty).length

theorem absorbPass_length (first : List α) (rest : List (List α)) :
    (absorbPass first rest).2.1.length = rest.length := by
  induction rest generalizing first with
  | nil => simp [absorbPass]
  | cons s rest ih =>
    simp only [absorbPass]
    split <;> simp [ih]

theorem absorbPass_first_sub (first : List α) (rest : List (List α)) :
    ∀ x, x ∈ first → x ∈ (absorbPass first rest).1 := by
  induction rest generalizing first with
  | nil => simp [absorbPass]
  | cons s rest ih =>
    intro x hx
    simp only [absorbPass]
    split
    · exact ih first x hx
    · exact ih _ x (mem_unionL.2 (Or.inl hx))

/-- elements of the grown set come from `first` or from a later set -/
theorem absorbPass_first_from (first : List α) (rest : List (List α)) :
    ∀ x, x ∈ (absorbPass first rest).1 → x ∈ first ∨ ∃ s ∈ rest, x ∈ s := by
  induction rest generalizing first with
  | nil => simp [absorbPass]
  | cons s rest ih =>
    intro x hx
    simp only [absorbPass] at hx
    split at hx
    · rcases ih first x hx with h | ⟨t, ht, hxt⟩
      · exact Or.inl h
      · exact Or.inr ⟨t, List.mem_cons_of_mem _ ht, hxt⟩
    · rcases ih _ x hx with h | ⟨t, ht, hxt⟩
      · rcases mem_unionL.1 h with h | h
        · exact Or.inl h
        · exact Or.inr ⟨s, List.mem_cons_self, h⟩
      · exact Or.inr ⟨t, List.mem_cons_of_mem _ ht, hxt⟩

/-- every later set after the pass is one of the later sets before it, or empty -/
theorem absorbPass_rest_from (first : List α) (rest : List (List α)) :
    ∀ t, t ∈ (absorbPass first rest).2.1 → t = [] ∨ t ∈ rest := by
  induction rest generalizing first with
  | nil => simp [absorbPass]
  | cons s rest ih =>
    intro t ht
    simp only [absorbPass] at ht
    split at ht
    · rcases List.mem_cons.1 ht with h | h
      · exact Or.inr (h ▸ List.mem_cons_self)
      · rcases ih first t h with h | h
        · exact Or.inl h
        · exact Or.inr (List.mem_cons_of_mem _ h)
    · rcases List.mem_cons.1 ht with h | h
      · exact Or.inl h
      · rcases ih _ t h with h | h
        · exact Or.inl h
        · exact Or.inr (List.mem_cons_of_mem _ h)

/-- every later set is absorbed into the grown set or kept -/
theorem absorbPass_cover (first : List α) (rest : List (List α)) :
    ∀ s, s ∈ rest → (∀ x, x ∈ s → x ∈ (absorbPass first rest).1) ∨ s ∈ (absorbPass first rest).2.1 := by
  induction rest generalizing first with
  | nil => simp
  | cons s0 rest ih =>
    intro s hs
    simp only [absorbPass]
    split
    · rcases List.mem_cons.1 hs with h | h
      · exact Or.inr (h ▸ List.mem_cons_self)
      · rcases ih first s h with h | h
        · exact Or.inl h
        · exact Or.inr (List.mem_cons_of_mem _ h)
    · rcases List.mem_cons.1 hs with h | h
      · left; intro x hx
        exact absorbPass_first_sub _ _ x (mem_unionL.2 (Or.inr (h ▸ hx)))
      · rcases ih _ s h with h | h
        · exact Or.inl h
        · exact Or.inr (List.mem_cons_of_mem _ h)

/-- an unchanged pass: nothing moved and the first set meets none of the later ones -/
theorem absorbPass_unchanged (first : List α) (rest : List (List α)) (h : (absorbPass first rest).2.2 = false) :
    (absorbPass first rest).1 = first ∧ (absorbPass first rest).2.1 = rest ∧ ∀ s, s ∈ rest → disjointB first s = true := by
  induction rest generalizing first with
  | nil => simp [absorbPass]
  | cons s rest ih =>
    simp only [absorbPass] at h ⊢
    split at h
    · rename_i hd
      simp only [hd, if_true]
      obtain ⟨h1, h2, h3⟩ := ih first h
      refine ⟨h1, by rw [h2], ?_⟩
      intro t ht
      rcases List.mem_cons.1 ht with e | e
      · rw [e]; exact hd
      · exact h3 t e
    · simp at h

theorem nonEmptyCount_cons (s : List α) (l : List (List α)) :
    nonEmptyCount (s :: l) = (if s.isEmpty then 0 else 1) + nonEmptyCount l := by
  simp only [nonEmptyCount, List.filter_cons]
  cases s <;> simp <;> omega

theorem absorbPass_count_le (first : List α) (rest : List (List α)) :
    nonEmptyCount (absorbPass first rest).2.1 ≤ nonEmptyCount rest := by
  induction rest generalizing first with
  | nil => simp [absorbPass]
  | cons s rest ih =>
    simp only [absorbPass]
    split
    · rw [nonEmptyCount_cons, nonEmptyCount_cons]
      have := ih first
      omega
    · rw [nonEmptyCount_cons, nonEmptyCount_cons]
      have := ih (unionL first s)
      simp; omega

/-- a changed pass empties at least one non-empty set -/
theorem absorbPass_count_lt (first : List α) (rest : List (List α)) (h : (absorbPass first rest).2.2 = true) :
    nonEmptyCount (absorbPass first rest).2.1 < nonEmptyCount rest := by
  induction rest generalizing first with
  | nil => simp [absorbPass] at h
  | cons s rest ih =>
    simp only [absorbPass] at h ⊢
    split at h
    · rename_i hd
      simp only [hd, if_true]
      rw [nonEmptyCount_cons, nonEmptyCount_cons]
      have := ih first h
      omega
    · rename_i hd
      simp only [hd, Bool.false_eq_true, if_false]
      rw [nonEmptyCount_cons, nonEmptyCount_cons]
      have hle := absorbPass_count_le (unionL first s) rest
      have hs : s.isEmpty = false := by
        cases s with
        | nil => simp [disjointB] at hd
        | cons => rfl
      simp [hs]; omega

/-! ### the repeat-until-stable loop -/

theorem absorbLoop_length (n : Nat) (first : List α) (rest : List (List α)) :
    (absorbLoop n first rest).2.length = rest.length := by
  induction n generalizing first rest with
  | zero => simp [absorbLoop]
  | succ n ih =>
    simp only [absorbLoop]
    split
    · rw [ih, absorbPass_length]
    · exact absorbPass_length _ _

theorem absorbLoop_first_sub (n : Nat) (first : List α) (rest : List (List α)) :
    ∀ x, x ∈ first → x ∈ (absorbLoop n first rest).1 := by
  induction n generalizing first rest with
  | zero => simp [absorbLoop]
  | succ n ih =>
    intro x hx
    simp only [absorbLoop]
    split
    · exact ih _ _ x (absorbPass_first_sub _ _ x hx)
    · exact absorbPass_first_sub _ _ x hx

theorem absorbLoop_first_from (n : Nat) (first : List α) (rest : List (List α)) :
    ∀ x, x ∈ (absorbLoop n first rest).1 → x ∈ first ∨ ∃ s ∈ rest, x ∈ s := by
  induction n generalizing first rest with
  | zero => intro x hx; exact Or.inl hx
  | succ n ih =>
    intro x hx
    simp only [absorbLoop] at hx
    split at hx
    · rcases ih _ _ x hx with h | ⟨t, ht, hxt⟩
      · exact absorbPass_first_from _ _ x h
      · rcases absorbPass_rest_from _ _ t ht with e | e
        · subst e; cases hxt
        · exact Or.inr ⟨t, e, hxt⟩
    · exact absorbPass_first_from _ _ x hx

theorem absorbLoop_rest_from (n : Nat) (first : List α) (rest : List (List α)) :
    ∀ t, t ∈ (absorbLoop n first rest).2 → t = [] ∨ t ∈ rest := by
  induction n generalizing first rest with
  | zero => intro t ht; exact Or.inr ht
  | succ n ih =>
    intro t ht
    simp only [absorbLoop] at ht
    split at ht
    · rcases ih _ _ t ht with e | e
      · exact Or.inl e
      · exact absorbPass_rest_from _ _ t e
    · exact absorbPass_rest_from _ _ t ht

theorem absorbLoop_cover (n : Nat) (first : List α) (rest : List (List α)) :
    ∀ s, s ∈ rest → (∀ x, x ∈ s → x ∈ (absorbLoop n first rest).1) ∨ s ∈ (absorbLoop n first rest).2 := by
  induction n generalizing first rest with
  | zero => intro s hs; exact Or.inr hs
  | succ n ih =>
    intro s hs
    simp only [absorbLoop]
    split
    · rcases absorbPass_cover first rest s hs with h | h
      · left; intro x hx; exact absorbLoop_first_sub _ _ _ x (h x hx)
      · exact ih _ _ s h
    · exact absorbPass_cover first rest s hs

/-- with enough fuel the loop ends after an unchanged pass: the grown set meets no later set -/
theorem absorbLoop_disjoint (n : Nat) (first : List α) (rest : List (List α)) (hn : nonEmptyCount rest < n) :
    ∀ s, s ∈ (absorbLoop n first rest).2 → disjointB (absorbLoop n first rest).1 s = true := by
  induction n generalizing first rest with
  | zero => omega
  | succ n ih =>
    simp only [absorbLoop]
    split
    · rename_i hc
      have := absorbPass_count_lt first rest hc
      exact ih _ _ (by omega)
    · rename_i hc
      have hc' : (absorbPass first rest).2.2 = false := by simpa using hc
      obtain ⟨h1, h2, h3⟩ := absorbPass_unchanged first rest hc'
      rw [h1, h2]; exact h3

theorem nonEmptyCount_le_length (l : List (List α)) : nonEmptyCount l ≤ l.length := by
  simp only [nonEmptyCount]; exact List.length_filter_le _ _


/-! ### connectedness is preserved -/

/-- any two elements of the set are linked by a chain of sets of `G` -/
def Conn (G : List (List α)) (s : List α) : Prop := ∀ a b, a ∈ s → b ∈ s → Linked G a b

theorem conn_nil (G : List (List α)) : Conn G ([] : List α) := by
  intro a b ha; cases ha

theorem conn_union (G : List (List α)) (a b : List α) (ha : Conn G a) (hb : Conn G b)
    (hnd : disjointB a b = false) : Conn G (unionL a b) := by
  have : ∃ x, x ∈ a ∧ x ∈ b := by
    by_cases h : ∃ x, x ∈ a ∧ x ∈ b
    · exact h
    · exfalso
      have : disjointB a b = true := disjointB_iff.2 (fun x hx hxb => h ⟨x, hx, hxb⟩)
      rw [this] at hnd; cases hnd
  obtain ⟨x, hxa, hxb⟩ := this
  intro p q hp hq
  rcases mem_unionL.1 hp with hp | hp <;> rcases mem_unionL.1 hq with hq | hq
  · exact ha p q hp hq
  · exact Linked.trans (ha p x hp hxa) (hb x q hxb hq)
  · exact Linked.trans (hb p x hp hxb) (ha x q hxa hq)
  · exact hb p q hp hq

theorem absorbPass_conn (G : List (List α)) (first : List α) (rest : List (List α))
    (hf : Conn G first) (hr : ∀ s, s ∈ rest → Conn G s) : Conn G (absorbPass first rest).1 := by
  induction rest generalizing first with
  | nil => simpa [absorbPass] using hf
  | cons s rest ih =>
    simp only [absorbPass]
    split
    · exact ih first hf (fun t ht => hr t (List.mem_cons_of_mem _ ht))
    · rename_i hd
      exact ih _ (conn_union G first s hf (hr s List.mem_cons_self) (by simpa using hd))
        (fun t ht => hr t (List.mem_cons_of_mem _ ht))

theorem absorbLoop_conn (G : List (List α)) (n : Nat) (first : List α) (rest : List (List α))
    (hf : Conn G first) (hr : ∀ s, s ∈ rest → Conn G s) : Conn G (absorbLoop n first rest).1 := by
  induction n generalizing first rest with
  | zero => simpa [absorbLoop] using hf
  | succ n ih =>
    simp only [absorbLoop]
    split
    · apply ih _ _ (absorbPass_conn G first rest hf hr)
      intro t ht
      rcases absorbPass_rest_from _ _ t ht with e | e
      · subst e; exact conn_nil G
      · exact hr t e
    · exact absorbPass_conn G first rest hf hr

theorem absorbLoop_rest_conn (G : List (List α)) (n : Nat) (first : List α) (rest : List (List α))
    (hr : ∀ s, s ∈ rest → Conn G s) : ∀ t, t ∈ (absorbLoop n first rest).2 → Conn G t := by
  intro t ht
  rcases absorbLoop_rest_from n first rest t ht with e | e
  · subst e; exact conn_nil G
  · exact hr t e

/-! ### the outer loop -/

theorem mergeGo_from (n : Nat) (S : List (List α)) :
    ∀ o, o ∈ mergeGo n S → ∀ x, x ∈ o → ∃ s, s ∈ S ∧ x ∈ s := by
  induction n generalizing S with
  | zero => intro o ho x hx; exact ⟨o, by simpa [mergeGo] using ho, hx⟩
  | succ n ih =>
    cases S with
    | nil => intro o ho; simp [mergeGo] at ho
    | cons first rest =>
      intro o ho x hx
      simp only [mergeGo] at ho
      split at ho
      · rcases List.mem_cons.1 ho with e | e
        · subst e; exact ⟨o, List.mem_cons_self, hx⟩
        · obtain ⟨s, hs, hxs⟩ := ih rest o e x hx
          exact ⟨s, List.mem_cons_of_mem _ hs, hxs⟩
      · rcases List.mem_cons.1 ho with e | e
        · subst e
          rcases absorbLoop_first_from _ _ _ x hx with h | ⟨t, ht, hxt⟩
          · exact ⟨first, List.mem_cons_self, h⟩
          · exact ⟨t, List.mem_cons_of_mem _ ht, hxt⟩
        · obtain ⟨s, hs, hxs⟩ := ih _ o e x hx
          rcases absorbLoop_rest_from _ _ _ s hs with e2 | e2
          · subst e2; cases hxs
          · exact ⟨s, List.mem_cons_of_mem _ e2, hxs⟩

theorem mergeGo_conn (G : List (List α)) (n : Nat) (S : List (List α)) (hS : ∀ s, s ∈ S → Conn G s) :
    ∀ o, o ∈ mergeGo n S → Conn G o := by
  induction n generalizing S with
  | zero => intro o ho; exact hS o (by simpa [mergeGo] using ho)
  | succ n ih =>
    cases S with
    | nil => intro o ho; simp [mergeGo] at ho
    | cons first rest =>
      intro o ho
      simp only [mergeGo] at ho
      split at ho
      · rcases List.mem_cons.1 ho with e | e
        · subst e; exact hS o List.mem_cons_self
        · exact ih rest (fun s hs => hS s (List.mem_cons_of_mem _ hs)) o e
      · rcases List.mem_cons.1 ho with e | e
        · subst e
          exact absorbLoop_conn G _ first rest (hS first List.mem_cons_self)
            (fun s hs => hS s (List.mem_cons_of_mem _ hs))
        · exact ih _ (absorbLoop_rest_conn G _ first rest (fun s hs => hS s (List.mem_cons_of_mem _ hs))) o e

theorem mergeGo_cover (n : Nat) (S : List (List α)) (hn : S.length ≤ n) :
    ∀ s, s ∈ S → ∃ o, o ∈ mergeGo n S ∧ ∀ x, x ∈ s → x ∈ o := by
  induction n generalizing S with
  | zero =>
    intro s hs
    have : S = [] := List.eq_nil_of_length_eq_zero (by omega)
    subst this; cases hs
  | succ n ih =>
    cases S with
    | nil => intro s hs; cases hs
    | cons first rest =>
      have hlen : rest.length ≤ n := by simp at hn; omega
      intro s hs
      simp only [mergeGo]
      split
      · rcases List.mem_cons.1 hs with e | e
        · subst e; exact ⟨s, List.mem_cons_self, fun x hx => hx⟩
        · obtain ⟨o, ho, hsub⟩ := ih rest hlen s e
          exact ⟨o, List.mem_cons_of_mem _ ho, hsub⟩
      · rcases List.mem_cons.1 hs with e | e
        · subst e
          exact ⟨_, List.mem_cons_self, fun x hx => absorbLoop_first_sub _ _ _ x hx⟩
        · rcases absorbLoop_cover (rest.length + 1) first rest s e with h | h
          · exact ⟨_, List.mem_cons_self, h⟩
          · obtain ⟨o, ho, hsub⟩ := ih _ (by rw [absorbLoop_length]; exact hlen) s h
            exact ⟨o, List.mem_cons_of_mem _ ho, hsub⟩

theorem mergeGo_disjoint (n : Nat) (S : List (List α)) (hn : S.length ≤ n) : DisjointSets (mergeGo n S) := by
  induction n generalizing S with
  | zero =>
    have : S = [] := List.eq_nil_of_length_eq_zero (by omega)
    subst this; simp [mergeGo, DisjointSets]
  | succ n ih =>
    cases S with
    | nil => simp [mergeGo, DisjointSets]
    | cons first rest =>
      have hlen : rest.length ≤ n := by simp at hn; omega
      simp only [mergeGo]
      split
      · rename_i he
        have : first = [] := by simpa using he
        subst this
        refine List.Pairwise.cons ?_ (ih rest hlen)
        intro o _ x hx; cases hx
      · refine List.Pairwise.cons ?_ (ih _ (by rw [absorbLoop_length]; exact hlen))
        intro o ho x hx hxo
        obtain ⟨t, ht, hxt⟩ := mergeGo_from n _ o ho x hxo
        have := absorbLoop_disjoint (rest.length + 1) first rest
          (Nat.lt_succ_of_le (nonEmptyCount_le_length rest)) t ht
        exact disjointB_iff.1 this x hx hxt

/-! ### `_merge_sets` -/

theorem linked_mem_left {G : List (List α)} {a b : α} (h : Linked G a b) : ∃ g, g ∈ G ∧ a ∈ g := by
  induction h with
  | base hg ha hb => exact ⟨_, hg, ha⟩
  | trans _ _ ih _ => exact ih

theorem pairwise_disjoint_eq {R : List (List α)} (h : DisjointSets R) {r1 r2 : List α} {x : α}
    (h1 : r1 ∈ R) (h2 : r2 ∈ R) (hx1 : x ∈ r1) (hx2 : x ∈ r2) : r1 = r2 := by
  induction R with
  | nil => cases h1
  | cons r rs ih =>
    have hp := List.pairwise_cons.1 h
    rcases List.mem_cons.1 h1 with e1 | e1 <;> rcases List.mem_cons.1 h2 with e2 | e2
    · rw [e1, e2]
    · subst e1; exact absurd hx2 (hp.1 r2 e2 x hx1)
    · subst e2; exact absurd hx1 (hp.1 r1 e1 x hx2)
    · exact ih hp.2 e1 e2

/-- the sets returned by `_merge_sets` (before the per-group sort): pairwise disjoint, non-empty,
    duplicate-free in total, and two elements lie in one returned set iff a chain of input sets links them -/
theorem mergeSetsCore_spec (key : List α → Int) (G : List (List α)) :
    DisjointSets (mergeSetsCore key G) ∧
    (∀ r, r ∈ mergeSetsCore key G → r ≠ []) ∧
    (∀ a b, (∃ r, r ∈ mergeSetsCore key G ∧ a ∈ r ∧ b ∈ r) ↔ Linked G a b) := by
  let S := sortBy (fun a b => decide (key a < key b)) (G.map dedup)
  have hS : ∀ s, s ∈ S ↔ ∃ g, g ∈ G ∧ s = dedup g := by
    intro s
    simp only [S, mem_sortBy, List.mem_map]
    constructor
    · rintro ⟨g, hg, e⟩; exact ⟨g, hg, e.symm⟩
    · rintro ⟨g, hg, e⟩; exact ⟨g, hg, e.symm⟩
  have hconn : ∀ s, s ∈ S → Conn G s := by
    intro s hs a b ha hb
    obtain ⟨g, hg, e⟩ := (hS s).1 hs
    subst e
    exact Linked.base hg (mem_dedup.1 ha) (mem_dedup.1 hb)
  have hdis := mergeGo_disjoint S.length S (Nat.le_refl _)
  have hR : mergeSetsCore key G = (mergeGo S.length S).filter fun g => !g.isEmpty := rfl
  have hmemR : ∀ r, r ∈ mergeSetsCore key G ↔ r ∈ mergeGo S.length S ∧ r ≠ [] := by
    intro r; rw [hR, List.mem_filter]; simp
  have hdisR : DisjointSets (mergeSetsCore key G) := by
    rw [hR]; exact List.Pairwise.filter _ hdis
  refine ⟨hdisR, fun r hr => ((hmemR r).1 hr).2, ?_⟩
  intro a b
  constructor
  · rintro ⟨r, hr, ha, hb⟩
    exact mergeGo_conn G S.length S hconn r ((hmemR r).1 hr).1 a b ha hb
  · intro h
    induction h with
    | base hg ha hb =>
      rename_i g a b
      obtain ⟨o, ho, hsub⟩ := mergeGo_cover S.length S (Nat.le_refl _) (dedup g) ((hS _).2 ⟨g, hg, rfl⟩)
      have hao := hsub a (mem_dedup.2 ha)
      exact ⟨o, (hmemR o).2 ⟨ho, fun e => by rw [e] at hao; cases hao⟩, hao, hsub b (mem_dedup.2 hb)⟩
    | trans _ _ ih1 ih2 =>
      obtain ⟨r1, hr1, ha, hb1⟩ := ih1
      obtain ⟨r2, hr2, hb2, hc⟩ := ih2
      have := pairwise_disjoint_eq hdisR hr1 hr2 hb1 hb2
      subst this
      exact ⟨r1, hr1, ha, hc⟩

/-- the union of the returned sets is the union of the input sets -/
theorem mergeSetsCore_union (key : List α → Int) (G : List (List α)) (x : α) :
    (∃ r, r ∈ mergeSetsCore key G ∧ x ∈ r) ↔ ∃ g, g ∈ G ∧ x ∈ g := by
  obtain ⟨_, _, h3⟩ := mergeSetsCore_spec key G
  constructor
  · rintro ⟨r, hr, hx⟩
    exact linked_mem_left ((h3 x x).1 ⟨r, hr, hx, hx⟩)
  · rintro ⟨g, hg, hx⟩
    obtain ⟨r, hr, hx1, _⟩ := (h3 x x).2 (Linked.base hg hx hx)
    exact ⟨r, hr, hx1⟩


/-! ### the returned sets have no repeated element -/

theorem nodup_unionL {a b : List α} (ha : a.Nodup) (hb : b.Nodup) : (unionL a b).Nodup := by
  simp only [unionL]
  refine List.nodup_append.2 ⟨ha, hb.filter _, ?_⟩
  intro x hx y hy e
  subst e
  have := (List.mem_filter.1 hy).2
  simp at this
  exact this hx

theorem absorbPass_nodup (first : List α) (rest : List (List α)) (hf : first.Nodup) (hr : ∀ s, s ∈ rest → s.Nodup) :
    (absorbPass first rest).1.Nodup ∧ ∀ s, s ∈ (absorbPass first rest).2.1 → s.Nodup := by
  refine ⟨?_, ?_⟩
  · induction rest generalizing first with
    | nil => simpa [absorbPass] using hf
    | cons s rest ih =>
      simp only [absorbPass]
      split
      · exact ih first hf (fun t ht => hr t (List.mem_cons_of_mem _ ht))
      · exact ih _ (nodup_unionL hf (hr s List.mem_cons_self)) (fun t ht => hr t (List.mem_cons_of_mem _ ht))
  · intro s hs
    rcases absorbPass_rest_from first rest s hs with e | e
    · subst e; exact List.nodup_nil
    · exact hr s e

theorem absorbLoop_nodup (n : Nat) (first : List α) (rest : List (List α)) (hf : first.Nodup)
    (hr : ∀ s, s ∈ rest → s.Nodup) :
    (absorbLoop n first rest).1.Nodup ∧ ∀ s, s ∈ (absorbLoop n first rest).2 → s.Nodup := by
  induction n generalizing first rest with
  | zero => exact ⟨hf, hr⟩
  | succ n ih =>
    simp only [absorbLoop]
    have hp := absorbPass_nodup first rest hf hr
    split
    · exact ih _ _ hp.1 hp.2
    · exact hp

theorem mergeGo_nodup (n : Nat) (S : List (List α)) (hS : ∀ s, s ∈ S → s.Nodup) :
    ∀ o, o ∈ mergeGo n S → o.Nodup := by
  induction n generalizing S with
  | zero => intro o ho; exact hS o (by simpa [mergeGo] using ho)
  | succ n ih =>
    cases S with
    | nil => intro o ho; simp [mergeGo] at ho
    | cons first rest =>
      intro o ho
      simp only [mergeGo] at ho
      have hrest : ∀ s, s ∈ rest → s.Nodup := fun s hs => hS s (List.mem_cons_of_mem _ hs)
      split at ho
      · rcases List.mem_cons.1 ho with e | e
        · subst e; exact hS o List.mem_cons_self
        · exact ih rest hrest o e
      · have hl := absorbLoop_nodup (rest.length + 1) first rest (hS first List.mem_cons_self) hrest
        rcases List.mem_cons.1 ho with e | e
        · subst e; exact hl.1
        · exact ih _ hl.2 o e

theorem mergeSetsCore_nodup (key : List α → Int) (G : List (List α)) :
    ∀ r, r ∈ mergeSetsCore key G → r.Nodup := by
  intro r hr
  simp only [mergeSetsCore, List.mem_filter] at hr
  refine mergeGo_nodup _ _ ?_ r hr.1
  intro s hs
  rw [mem_sortBy] at hs
  obtain ⟨g, _, e⟩ := List.mem_map.1 hs
  subst e; exact nodup_dedup g

/-- every returned set contains one of the input sets (and so inherits its size) -/
theorem mergeSetsCore_contains_input (key : List α → Int) (G : List (List α)) :
    ∀ r, r ∈ mergeSetsCore key G → ∃ g, g ∈ G ∧ g ≠ [] ∧ ∀ x, x ∈ g → x ∈ r := by
  intro r hr
  obtain ⟨hdis, hne, h3⟩ := mergeSetsCore_spec key G
  have hrne := hne r hr
  obtain ⟨x, hx⟩ := List.exists_mem_of_ne_nil r hrne
  obtain ⟨g, hg, hxg⟩ := (mergeSetsCore_union key G x).1 ⟨r, hr, hx⟩
  refine ⟨g, hg, (fun e => by rw [e] at hxg; cases hxg), ?_⟩
  intro y hy
  obtain ⟨r', hr', hx', hy'⟩ := (h3 x y).2 (Linked.base hg hxg hy)
  have := pairwise_disjoint_eq hdis hr hr' hx hx'
  rw [this]; exact hy'

end
end ASV.CC
