/-
  Proofs for the textual qualifier formats (C10): `_parse_format` inverts `str.format` on values that
  fit the format; gene function annotations and sec_met domains read back from their text.
-/
import ASV.Spec.SerialQual
namespace ASV.Serial
open ASV

/-! ### the matcher -/

/-- the lazy group stops at the first place where the rest of the pattern matches -/
theorem lazyGo_first (k : List Char → Option Groups) (R : List Char) (gs : Groups) (hk : k R = some gs) :
    ∀ (p acc : List Char), '\n' ∉ p → (∀ p1 d p2, p = p1 ++ d :: p2 → k (d :: p2 ++ R) = none) →
      lazyGo k acc (p ++ R) = some ((acc.reverse ++ p) :: gs)
  | [], acc, _, _ => by
    cases R with
    | nil => simp [lazyGo, hk]
    | cons x r => simp [lazyGo, hk]
  | d :: p', acc, hn, hfail => by
    have h0 : k (d :: p' ++ R) = none := hfail [] d p' rfl
    have hd : d ≠ '\n' := fun e => hn (by simp [e])
    have ih := lazyGo_first k R gs hk p' (d :: acc) (fun h => hn (by simp [h]))
      (fun p1 d' p2 e => hfail (d :: p1) d' p2 (by simp [e]))
    simp only [List.cons_append] at h0 ⊢
    rw [lazyGo, h0]
    simp only [hd, if_false]
    rw [ih]
    simp

theorem lazyGo_some (k : List Char → Option Groups) :
    ∀ (xs acc : List Char) (gs : Groups), lazyGo k acc xs = some gs → ∃ s gs', s <:+ xs ∧ k s = some gs'
  | [], acc, gs, h => by
    simp only [lazyGo, Option.map_eq_some_iff] at h
    obtain ⟨g', hg, _⟩ := h
    exact ⟨[], g', List.suffix_refl _, hg⟩
  | x :: r, acc, gs, h => by
    rw [lazyGo] at h
    cases hk : k (x :: r) with
    | some g' => exact ⟨x :: r, g', List.suffix_refl _, hk⟩
    | none =>
      simp only [hk] at h
      split at h
      · cases h
      · obtain ⟨s, g', hs, hg⟩ := lazyGo_some k r (x :: acc) gs h
        exact ⟨s, g', List.IsSuffix.trans hs (List.suffix_cons x r), hg⟩

theorem greedyGo_some (k : List Char → Option Groups) :
    ∀ (xs acc : List Char) (gs : Groups), greedyGo k acc xs = some gs → ∃ s gs', s <:+ xs ∧ k s = some gs'
  | [], acc, gs, h => by
    simp only [greedyGo, Option.map_eq_some_iff] at h
    obtain ⟨g', hg, _⟩ := h
    exact ⟨[], g', List.suffix_refl _, hg⟩
  | x :: r, acc, gs, h => by
    rw [greedyGo] at h
    split at h
    · cases hg : greedyGo k (x :: acc) r with
      | some g1 =>
        obtain ⟨s, g', hs, hg'⟩ := greedyGo_some k r (x :: acc) g1 hg
        exact ⟨s, g', List.IsSuffix.trans hs (List.suffix_cons x r), hg'⟩
      | none =>
        simp only [hg, Option.map_eq_some_iff] at h
        obtain ⟨g', hg', _⟩ := h
        exact ⟨x :: r, g', List.suffix_refl _, hg'⟩
    · simp only [Option.map_eq_some_iff] at h
      obtain ⟨g', hg', _⟩ := h
      exact ⟨x :: r, g', List.suffix_refl _, hg'⟩

/-- a literal character of the pattern occurs in every text the pattern matches -/
theorem rx_lit_mem (c : Char) : ∀ (ts : List Tok) (xs : List Char) (gs : Groups), rx ts xs = some gs → Tok.lit c ∈ ts → c ∈ xs
  | [], _, _, _, hm => by cases hm
  | .lit c' :: ts, xs, gs, h, hm => by
    cases xs with
    | nil => simp [rx] at h
    | cons x r =>
      simp only [rx] at h
      split at h
      · rename_i hx
        rcases List.mem_cons.1 hm with e | e
        · cases e; simp [hx]
        · exact List.mem_cons_of_mem _ (rx_lit_mem c ts r gs h e)
      · cases h
  | .optSpace :: ts, xs, gs, h, hm => by
    have hm' : Tok.lit c ∈ ts := by
      rcases List.mem_cons.1 hm with e | e
      · cases e
      · exact e
    cases xs with
    | nil => simp only [rx] at h; exact rx_lit_mem c ts [] gs h hm'
    | cons x r =>
      simp only [rx] at h
      split at h
      · cases h1 : rx ts r with
        | some g1 => exact List.mem_cons_of_mem _ (rx_lit_mem c ts r g1 h1 hm')
        | none => simp only [h1] at h; exact rx_lit_mem c ts (x :: r) gs h hm'
      · exact rx_lit_mem c ts (x :: r) gs h hm'
  | .grp :: ts, xs, gs, h, hm => by
    have hm' : Tok.lit c ∈ ts := by
      rcases List.mem_cons.1 hm with e | e
      · cases e
      · exact e
    cases xs with
    | nil => simp [rx] at h
    | cons x r =>
      simp only [rx] at h
      split at h
      · cases h
      · obtain ⟨s, g', hs, hg⟩ := lazyGo_some (rx ts) r [x] gs h
        exact List.mem_cons_of_mem _ (hs.subset (rx_lit_mem c ts s g' hg hm'))
  | .digits :: ts, xs, gs, h, hm => by
    have hm' : Tok.lit c ∈ ts := by
      rcases List.mem_cons.1 hm with e | e
      · cases e
      · exact e
    cases xs with
    | nil => simp [rx] at h
    | cons x r =>
      simp only [rx] at h
      split at h
      · obtain ⟨s, g', hs, hg⟩ := greedyGo_some (rx ts) r [x] gs h
        exact List.mem_cons_of_mem _ (hs.subset (rx_lit_mem c ts s g' hg hm'))
      · cases h

theorem contains_false_iff {l : List Char} {c : Char} : (!l.contains c) = true ↔ c ∉ l := by simp

/-- inside a value that avoids the stop characters the rest of the pattern does not match -/
theorem rx_stop_none (ts : List Tok) (g : List Char) (hs : stopOk ts g = true) (hn : '\n' ∉ g) (d : Char) (hd : d ∈ g)
    (rest : List Char) : rx ts (d :: rest) = none := by
  match ts, hs with
  | [], _ =>
    have : d ≠ '\n' := fun e => hn (e ▸ hd)
    simp [rx, this]
  | .lit c :: ts', hs =>
    simp only [stopOk, contains_false_iff] at hs
    have : d ≠ c := fun e => hs (e ▸ hd)
    simp [rx, this]
  | .optSpace :: .lit c :: ts', hs =>
    simp only [stopOk, Bool.and_eq_true, contains_false_iff] at hs
    have h1 : d ≠ ' ' := fun e => hs.1 (e ▸ hd)
    have h2 : d ≠ c := fun e => hs.2 (e ▸ hd)
    simp [rx, h1, h2]

/-- `_parse_format(fmt, fmt.format(*values)) == values` for values that fit the format -/
theorem rx_render : ∀ (ts : List Tok) (gs : Groups), fitsFormat ts gs = true → rx ts (render ts gs) = some gs
  | [], gs, h => by
    have : gs = [] := by simpa [fitsFormat] using h
    subst this
    simp [rx, render]
  | .lit c :: ts, gs, h => by
    simp only [fitsFormat] at h
    simp [rx, render, rx_render ts gs h]
  | .optSpace :: ts, gs, h => by
    simp only [fitsFormat] at h
    simp [rx, render, rx_render ts gs h]
  | .digits :: ts, gs, h => by simp [fitsFormat] at h
  | .grp :: ts, [], h => by simp [fitsFormat] at h
  | .grp :: ts, g :: gs, h => by
    simp only [fitsFormat, Bool.and_eq_true, groupOk, contains_false_iff] at h
    obtain ⟨⟨⟨hne, hnl⟩, hstop⟩, hfit⟩ := h
    cases g with
    | nil => simp at hne
    | cons a g' =>
      have ha : a ≠ '\n' := fun e => hnl (by simp [e])
      have ih := rx_render ts gs hfit
      have := lazyGo_first (rx ts) (render ts gs) gs ih g' [a] (fun hm => hnl (List.mem_cons_of_mem _ hm))
        (fun p1 d p2 e => rx_stop_none ts (a :: g') hstop hnl d (by simp [e]) _)
      simp only [render, List.cons_append, rx, ha, if_false]
      rw [this]
      simp

/-! ### gene function annotations -/

theorem label_facts (f : GeneFn) :
    (groupOk f.label.toList && !f.label.toList.contains ' ' && !f.label.toList.contains '(' &&
      !f.label.toList.contains ':' && !f.label.toList.contains ')') = true := by
  cases f <;> decide +kernel

theorem ofLabel_label (f : GeneFn) : GeneFn.ofLabel f.label = some f := by
  cases f <;> decide +kernel

theorem isEmpty_toList (s : String) : s.isEmpty = s.toList.isEmpty := by
  cases h : s.toList.isEmpty
  · cases h2 : s.isEmpty
    · rfl
    · rw [String.isEmpty_iff] at h2
      subst h2
      simp at h
  · rw [List.isEmpty_iff, String.toList_eq_nil_iff] at h
    subst h
    rfl

theorem mk'_ok (a : Annot) (hw : a.wf = true) : Annot.mk' a.fn a.tool a.description a.product = .ok a := by
  simp only [Annot.wf, Bool.and_eq_true, Bool.not_eq_true', beq_iff_eq] at hw
  obtain ⟨⟨⟨h1, h2⟩, h3⟩, h4⟩ := hw
  unfold Annot.mk'
  simp [h1, h2, h3, h4, pure, Except.pure]

theorem annot_text_roundtrip (a : Annot) (hw : a.wf = true) (hs : a.textSafe = true) :
    Annot.fromStr a.toStr = .ok a := by
  have hl := label_facts a.fn
  simp only [Bool.and_eq_true, contains_false_iff] at hl
  obtain ⟨⟨⟨⟨l1, l2⟩, l3⟩, l4⟩, l5⟩ := hl
  unfold Annot.fromStr Annot.toStr
  rw [String.toList_ofList]
  obtain ⟨fn, tool, desc, product⟩ := a
  simp only [Annot.textSafe, Bool.and_eq_true, contains_false_iff] at hs
  obtain ⟨⟨⟨t1, t2⟩, d1⟩, hp⟩ := hs
  cases product with
  | some p =>
    simp only [Bool.and_eq_true, contains_false_iff] at hp
    obtain ⟨p1, p2⟩ := hp
    have hpe : p.isEmpty = false := by
      rw [isEmpty_toList]
      simp only [groupOk, Bool.and_eq_true, Bool.not_eq_true'] at p1
      exact p1.1
    have hfit : fitsFormat fmt4 [fn.label.toList, tool.toList, p.toList, desc.toList] = true := by
      simp [fmt4, fitsFormat, stopOk, l1, l2, l3, t1, t2, p1, p2, d1]
    have hrx := rx_render fmt4 _ hfit
    simp only [Annot.chars, Option.getD_some, hpe, Bool.false_eq_true, if_false]
    simp only [Annot.ofChars, hrx, String.ofList_toList, ofLabel_label]
    exact mk'_ok ⟨fn, tool, desc, some p⟩ hw
  | none =>
    simp only [Bool.and_eq_true, contains_false_iff] at hp
    obtain ⟨c1, c2⟩ := hp
    have hfit : fitsFormat fmt3 [fn.label.toList, tool.toList, desc.toList] = true := by
      simp [fmt3, fitsFormat, stopOk, l1, l2, l3, t1, t2, d1]
    have hrx := rx_render fmt3 _ hfit
    have hno : rx fmt4 (render fmt3 [fn.label.toList, tool.toList, desc.toList]) = none := by
      cases h : rx fmt4 (render fmt3 [fn.label.toList, tool.toList, desc.toList]) with
      | none => rfl
      | some gs =>
        exfalso
        have := rx_lit_mem ':' fmt4 _ gs h (by simp [fmt4])
        simp only [render, fmt3, List.mem_cons, List.mem_append, List.append_nil] at this
        rcases this with h | h | h | h | h | h | h
        · exact l4 h
        · cases h
        · cases h
        · exact c1 h
        · cases h
        · cases h
        · exact c2 h
    have he : ("" : String).isEmpty = true := by decide
    simp only [Annot.chars, Option.getD_none, he, if_true]
    simp only [Annot.ofChars, hno, hrx, String.ofList_toList, ofLabel_label]
    exact mk'_ok ⟨fn, tool, desc, none⟩ hw

theorem annFromQualifier_roundtrip : ∀ (l acc : List Annot), (∀ a ∈ l, a.wf = true ∧ a.textSafe = true) → (acc ++ l).Nodup →
    annFromQualifier acc (l.map Annot.toStr) = .ok (acc ++ l)
  | [], acc, _, _ => by simp [annFromQualifier, pure, Except.pure]
  | a :: l, acc, h, hnd => by
    have ha := h a (by simp)
    have hnot : a ∉ acc := by
      intro hm
      rw [List.nodup_append] at hnd
      exact hnd.2.2 a hm a (by simp) rfl
    have hadd : annAdd acc a.fn a.tool a.description a.product = .ok (acc ++ [a]) := by
      unfold annAdd
      rw [mk'_ok a ha.1]
      simp [bind, Except.bind, pure, Except.pure, hnot]
    have ih := annFromQualifier_roundtrip l (acc ++ [a]) (fun b hb => h b (by simp [hb])) (by simpa using hnd)
    simp only [List.map_cons, annFromQualifier, annot_text_roundtrip a ha.1 ha.2, bind, Except.bind, hadd]
    simpa using ih

/-! ### sec_met domains -/

theorem smdom_text_roundtrip (d : SMDom) (h : d.textSafe = true) : SMDom.fromStr d.toStr = .ok d := by
  unfold SMDom.fromStr SMDom.toStr SMDom.ofChars SMDom.chars
  rw [String.toList_ofList, rx_render smFmt _ h]
  simp [String.ofList_toList, pure, Except.pure]

theorem smParseAll_roundtrip : ∀ (ds : List SMDom), (∀ d ∈ ds, d.textSafe = true) → smParseAll (ds.map SMDom.toStr) = .ok ds
  | [], _ => rfl
  | d :: ds, h => by
    simp [smParseAll, smdom_text_roundtrip d (h d (by simp)), smParseAll_roundtrip ds (fun e he => h e (by simp [he])),
      bind, Except.bind, pure, Except.pure]

theorem smAdd_distinct : ∀ (ds acc : List SMDom), ((acc ++ ds).map (·.name)).Nodup → smAdd acc ds = acc ++ ds
  | [], acc, _ => by simp [smAdd]
  | d :: ds, acc, h => by
    have hnot : acc.any (fun e => e.name == d.name) = false := by
      rw [List.any_eq_false]
      intro e he hname
      simp only [List.map_append, List.map_cons, List.nodup_append] at h
      exact h.2.2 e.name (List.mem_map_of_mem he) d.name (by simp) (by simpa using hname)
    have ih := smAdd_distinct ds (acc ++ [d]) (by simpa using h)
    unfold smAdd at ih ⊢
    simp only [List.foldl_cons, hnot, Bool.false_eq_true, if_false]
    simpa using ih

end ASV.Serial
