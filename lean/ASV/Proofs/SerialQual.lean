/-
  Proofs for the textual qualifier formats (C10): `_parse_format` inverts `str.format` on values that
  fit the format; gene function annotations and sec_met domains read back from their text.
-/
import ASV.Spec.SerialQual
import ASV.Proofs.SerialQ
import ASV.Proofs.LocString
namespace ASV.Serial
open ASV

/-! ### the matcher -/

/-- the lazy group stops at the first place where the rest of the pattern matches -/
theorem lazyGo_first (k : List Char → Option Groups) (R : List Char) (gs : Groups) (hk : k R = some gs) :
    ∀ (p acc : List Char), '\n' ∉ p → (∀ p1 d p2, p = p1 ++ d :: p2 → k (d :: p2 ++ R) = none) →
      lazyGo k acc (p ++ R) = some ((acc.reverse ++ p) :: gs)
  | [], acc, _, _ => by
    cases R with
    | nil => simp [lazyGo, hk]
    | cons x r => simp [lazyGo, hk]
  | d :: p', acc, hn, hfail => by
    have h0 : k (d :: p' ++ R) = none := hfail [] d p' rfl
    have hd : d ≠ '\n' := fun e => hn (by simp [e])
    have ih := lazyGo_first k R gs hk p' (d :: acc) (fun h => hn (by simp [h]))
      (fun p1 d' p2 e => hfail (d :: p1) d' p2 (by simp [e]))
    simp only [List.cons_append] at h0 ⊢
    rw [lazyGo, h0]
    simp only [hd, if_false]
    rw [ih]
    simp

theorem lazyGo_some (k : List Char → Option Groups) :
    ∀ (xs acc : List Char) (gs : Groups), lazyGo k acc xs = some gs → ∃ s gs', s <:+ xs ∧ k s = some gs'
  | [], acc, gs, h => by
    simp only [lazyGo, Option.map_eq_some_iff] at h
    obtain ⟨g', hg, _⟩ := h
    exact ⟨[], g', List.suffix_refl _, hg⟩
  | x :: r, acc, gs, h => by
    rw [lazyGo] at h
    cases hk : k (x :: r) with
    | some g' => exact ⟨x :: r, g', List.suffix_refl _, hk⟩
    | none =>
      simp only [hk] at h
      split at h
      · cases h
      · obtain ⟨s, g', hs, hg⟩ := lazyGo_some k r (x :: acc) gs h
        exact ⟨s, g', List.IsSuffix.trans hs (List.suffix_cons x r), hg⟩

theorem greedyGo_some (k : List Char → Option Groups) :
    ∀ (xs acc : List Char) (gs : Groups), greedyGo k acc xs = some gs → ∃ s gs', s <:+ xs ∧ k s = some gs'
  | [], acc, gs, h => by
    simp only [greedyGo, Option.map_eq_some_iff] at h
    obtain ⟨g', hg, _⟩ := h
    exact ⟨[], g', List.suffix_refl _, hg⟩
  | x :: r, acc, gs, h => by
    rw [greedyGo] at h
    split at h
    · cases hg : greedyGo k (x :: acc) r with
      | some g1 =>
        obtain ⟨s, g', hs, hg'⟩ := greedyGo_some k r (x :: acc) g1 hg
        exact ⟨s, g', List.IsSuffix.trans hs (List.suffix_cons x r), hg'⟩
      | none =>
        simp only [hg, Option.map_eq_some_iff] at h
        obtain ⟨g', hg', _⟩ := h
        exact ⟨x :: r, g', List.suffix_refl _, hg'⟩
    · simp only [Option.map_eq_some_iff] at h
      obtain ⟨g', hg', _⟩ := h
      exact ⟨x :: r, g', List.suffix_refl _, hg'⟩

/-- a literal character of the pattern occurs in every text the pattern matches -/
theorem rx_lit_mem (c : Char) : ∀ (ts : List Tok) (xs : List Char) (gs : Groups), rx ts xs = some gs → Tok.lit c ∈ ts → c ∈ xs
  | [], _, _, _, hm => by cases hm
  | .lit c' :: ts, xs, gs, h, hm => by
    cases xs with
    | nil => simp [rx] at h
    | cons x r =>
      simp only [rx] at h
      split at h
      · rename_i hx
        rcases List.mem_cons.1 hm with e | e
        · cases e; simp [hx]
        · exact List.mem_cons_of_mem _ (rx_lit_mem c ts r gs h e)
      · cases h
  | .optSpace :: ts, xs, gs, h, hm => by
    have hm' : Tok.lit c ∈ ts := by
      rcases List.mem_cons.1 hm with e | e
      · cases e
      · exact e
    cases xs with
    | nil => simp only [rx] at h; exact rx_lit_mem c ts [] gs h hm'
    | cons x r =>
      simp only [rx] at h
      split at h
      · cases h1 : rx ts r with
        | some g1 => exact List.mem_cons_of_mem _ (rx_lit_mem c ts r g1 h1 hm')
        | none => simp only [h1] at h; exact rx_lit_mem c ts (x :: r) gs h hm'
      · exact rx_lit_mem c ts (x :: r) gs h hm'
  | .grp :: ts, xs, gs, h, hm => by
    have hm' : Tok.lit c ∈ ts := by
      rcases List.mem_cons.1 hm with e | e
      · cases e
      · exact e
    cases xs with
    | nil => simp [rx] at h
    | cons x r =>
      simp only [rx] at h
      split at h
      · cases h
      · obtain ⟨s, g', hs, hg⟩ := lazyGo_some (rx ts) r [x] gs h
        exact List.mem_cons_of_mem _ (hs.subset (rx_lit_mem c ts s g' hg hm'))
  | .digits :: ts, xs, gs, h, hm => by
    have hm' : Tok.lit c ∈ ts := by
      rcases List.mem_cons.1 hm with e | e
      · cases e
      · exact e
    cases xs with
    | nil => simp [rx] at h
    | cons x r =>
      simp only [rx] at h
      split at h
      · obtain ⟨s, g', hs, hg⟩ := greedyGo_some (rx ts) r [x] gs h
        exact List.mem_cons_of_mem _ (hs.subset (rx_lit_mem c ts s g' hg hm'))
      · cases h

theorem contains_false_iff {l : List Char} {c : Char} : (!l.contains c) = true ↔ c ∉ l := by simp

/-- inside a value that avoids the stop characters the rest of the pattern does not match -/
theorem rx_stop_none (ts : List Tok) (g : List Char) (hs : stopOk ts g = true) (hn : '\n' ∉ g) (d : Char) (hd : d ∈ g)
    (rest : List Char) : rx ts (d :: rest) = none := by
  match ts, hs with
  | [], _ =>
    have : d ≠ '\n' := fun e => hn (e ▸ hd)
    simp [rx, this]
  | .lit c :: ts', hs =>
    simp only [stopOk, contains_false_iff] at hs
    have : d ≠ c := fun e => hs (e ▸ hd)
    simp [rx, this]
  | .optSpace :: .lit c :: ts', hs =>
    simp only [stopOk, Bool.and_eq_true, contains_false_iff] at hs
    have h1 : d ≠ ' ' := fun e => hs.1 (e ▸ hd)
    have h2 : d ≠ c := fun e => hs.2 (e ▸ hd)
    simp [rx, h1, h2]

/-- `_parse_format(fmt, fmt.format(*values)) == values` for values that fit the format -/
theorem rx_render : ∀ (ts : List Tok) (gs : Groups), fitsFormat ts gs = true → rx ts (render ts gs) = some gs
  | [], gs, h => by
    have : gs = [] := by simpa [fitsFormat] using h
    subst this
    simp [rx, render]
  | .lit c :: ts, gs, h => by
    simp only [fitsFormat] at h
    simp [rx, render, rx_render ts gs h]
  | .optSpace :: ts, gs, h => by
    simp only [fitsFormat] at h
    simp [rx, render, rx_render ts gs h]
  | .digits :: ts, gs, h => by simp [fitsFormat] at h
  | .grp :: ts, [], h => by simp [fitsFormat] at h
  | .grp :: ts, g :: gs, h => by
    simp only [fitsFormat, Bool.and_eq_true, groupOk, contains_false_iff] at h
    obtain ⟨⟨⟨hne, hnl⟩, hstop⟩, hfit⟩ := h
    cases g with
    | nil => simp at hne
    | cons a g' =>
      have ha : a ≠ '\n' := fun e => hnl (by simp [e])
      have ih := rx_render ts gs hfit
      have := lazyGo_first (rx ts) (render ts gs) gs ih g' [a] (fun hm => hnl (List.mem_cons_of_mem _ hm))
        (fun p1 d p2 e => rx_stop_none ts (a :: g') hstop hnl d (by simp [e]) _)
      simp only [render, List.cons_append, rx, ha, if_false]
      rw [this]
      simp

/-! ### gene function annotations -/

theorem label_facts (f : GeneFn) :
    (groupOk f.label.toList && !f.label.toList.contains ' ' && !f.label.toList.contains '(' &&
      !f.label.toList.contains ':' && !f.label.toList.contains ')') = true := by
  cases f <;> decide +kernel

theorem ofLabel_label (f : GeneFn) : GeneFn.ofLabel f.label = some f := by
  cases f <;> decide +kernel

theorem isEmpty_toList (s : String) : s.isEmpty = s.toList.isEmpty := by
  cases h : s.toList.isEmpty
  · cases h2 : s.isEmpty
    · rfl
    · rw [String.isEmpty_iff] at h2
      subst h2
      simp at h
  · rw [List.isEmpty_iff, String.toList_eq_nil_iff] at h
    subst h
    rfl

theorem mk'_ok (a : Annot) (hw : a.wf = true) : Annot.mk' a.fn a.tool a.description a.product = .ok a := by
  simp only [Annot.wf, Bool.and_eq_true, Bool.not_eq_true', beq_iff_eq] at hw
  obtain ⟨⟨⟨h1, h2⟩, h3⟩, h4⟩ := hw
  unfold Annot.mk'
  simp [h1, h2, h3, h4, pure, Except.pure]

theorem annot_text_roundtrip (a : Annot) (hw : a.wf = true) (hs : a.textSafe = true) :
    Annot.fromStr a.toStr = .ok a := by
  have hl := label_facts a.fn
  simp only [Bool.and_eq_true, contains_false_iff] at hl
  obtain ⟨⟨⟨⟨l1, l2⟩, l3⟩, l4⟩, l5⟩ := hl
  unfold Annot.fromStr Annot.toStr
  rw [String.toList_ofList]
  obtain ⟨fn, tool, desc, product⟩ := a
  simp only [Annot.textSafe, Bool.and_eq_true, contains_false_iff] at hs
  obtain ⟨⟨⟨t1, t2⟩, d1⟩, hp⟩ := hs
  cases product with
  | some p =>
    simp only [Bool.and_eq_true, contains_false_iff] at hp
    obtain ⟨p1, p2⟩ := hp
    have hpe : p.isEmpty = false := by
      rw [isEmpty_toList]
      simp only [groupOk, Bool.and_eq_true, Bool.not_eq_true'] at p1
      exact p1.1
    have hfit : fitsFormat fmt4 [fn.label.toList, tool.toList, p.toList, desc.toList] = true := by
      simp [fmt4, fitsFormat, stopOk, l1, l2, l3, t1, t2, p1, p2, d1]
    have hrx := rx_render fmt4 _ hfit
    simp only [Annot.chars, Option.getD_some, hpe, Bool.false_eq_true, if_false]
    simp only [Annot.ofChars, hrx, String.ofList_toList, ofLabel_label]
    exact mk'_ok ⟨fn, tool, desc, some p⟩ hw
  | none =>
    simp only [Bool.and_eq_true, contains_false_iff] at hp
    obtain ⟨c1, c2⟩ := hp
    have hfit : fitsFormat fmt3 [fn.label.toList, tool.toList, desc.toList] = true := by
      simp [fmt3, fitsFormat, stopOk, l1, l2, l3, t1, t2, d1]
    have hrx := rx_render fmt3 _ hfit
    have hno : rx fmt4 (render fmt3 [fn.label.toList, tool.toList, desc.toList]) = none := by
      cases h : rx fmt4 (render fmt3 [fn.label.toList, tool.toList, desc.toList]) with
      | none => rfl
      | some gs =>
        exfalso
        have := rx_lit_mem ':' fmt4 _ gs h (by simp [fmt4])
        simp only [render, fmt3, List.mem_cons, List.mem_append, List.append_nil] at this
        rcases this with h | h | h | h | h | h | h
        · exact l4 h
        · cases h
        · cases h
        · exact c1 h
        · cases h
        · cases h
        · exact c2 h
    have he : ("" : String).isEmpty = true := by decide
    simp only [Annot.chars, Option.getD_none, he, if_true]
    simp only [Annot.ofChars, hno, hrx, String.ofList_toList, ofLabel_label]
    exact mk'_ok ⟨fn, tool, desc, none⟩ hw

theorem annFromQualifier_roundtrip : ∀ (l acc : List Annot), (∀ a ∈ l, a.wf = true ∧ a.textSafe = true) → (acc ++ l).Nodup →
    annFromQualifier acc (l.map Annot.toStr) = .ok (acc ++ l)
  | [], acc, _, _ => by simp [annFromQualifier, pure, Except.pure]
  | a :: l, acc, h, hnd => by
    have ha := h a (by simp)
    have hnot : a ∉ acc := by
      intro hm
      rw [List.nodup_append] at hnd
      exact hnd.2.2 a hm a (by simp) rfl
    have hadd : annAdd acc a.fn a.tool a.description a.product = .ok (acc ++ [a]) := by
      unfold annAdd
      rw [mk'_ok a ha.1]
      simp [bind, Except.bind, pure, Except.pure, hnot]
    have ih := annFromQualifier_roundtrip l (acc ++ [a]) (fun b hb => h b (by simp [hb])) (by simpa using hnd)
    simp only [List.map_cons, annFromQualifier, annot_text_roundtrip a ha.1 ha.2, bind, Except.bind, hadd]
    simpa using ih

/-! ### sec_met domains -/

theorem smdom_text_roundtrip (d : SMDom) (h : d.textSafe = true) : SMDom.fromStr d.toStr = .ok d := by
  unfold SMDom.fromStr SMDom.toStr SMDom.ofChars SMDom.chars
  rw [String.toList_ofList, rx_render smFmt _ h]
  simp [String.ofList_toList, pure, Except.pure]

theorem smParseAll_roundtrip : ∀ (ds : List SMDom), (∀ d ∈ ds, d.textSafe = true) → smParseAll (ds.map SMDom.toStr) = .ok ds
  | [], _ => rfl
  | d :: ds, h => by
    simp [smParseAll, smdom_text_roundtrip d (h d (by simp)), smParseAll_roundtrip ds (fun e he => h e (by simp [he])),
      bind, Except.bind, pure, Except.pure]

theorem smAdd_distinct : ∀ (ds acc : List SMDom), ((acc ++ ds).map (·.name)).Nodup → smAdd acc ds = acc ++ ds
  | [], acc, _ => by simp [smAdd]
  | d :: ds, acc, h => by
    have hnot : acc.any (fun e => e.name == d.name) = false := by
      rw [List.any_eq_false]
      intro e he hname
      simp only [List.map_append, List.map_cons, List.nodup_append] at h
      exact h.2.2 e.name (List.mem_map_of_mem he) d.name (by simp) (by simpa using hname)
    have ih := smAdd_distinct ds (acc ++ [d]) (by simpa using h)
    unfold smAdd at ih ⊢
    simp only [List.foldl_cons, hnot, Bool.false_eq_true, if_false]
    simpa using ih

/-! ### type II PKS annotation -/

theorem dictSet_absent : ∀ (d : List (String × String)) (k v : String), k ∉ d.map (·.1) → dictSet d k v = d ++ [(k, v)]
  | [], _, _, _ => rfl
  | (k', v') :: rest, k, v, h => by
    have h1 : k' ≠ k := fun e => h (by simp [e])
    have h2 : k ∉ rest.map (·.1) := fun e => h (by simp [e])
    simp [dictSet, h1, dictSet_absent rest k v h2]

theorem t2ParseWeights_roundtrip : ∀ (ws acc : List (String × String)),
    (∀ e ∈ ws, fitsFormat t2WeightFmt [e.1.toList, e.2.toList] = true) → ((acc ++ ws).map (·.1)).Nodup →
    t2ParseWeights (ws.map t2WeightStr) acc = .ok (acc ++ ws)
  | [], acc, _, _ => by simp [t2ParseWeights, pure, Except.pure]
  | e :: ws, acc, h, hn => by
    have hk : e.1 ∉ acc.map (·.1) := by
      intro hm
      rw [List.map_append, List.nodup_append] at hn
      exact hn.2.2 e.1 hm e.1 (by simp) rfl
    have ih := t2ParseWeights_roundtrip ws (acc ++ [e]) (fun x hx => h x (by simp [hx])) (by simpa using hn)
    simp only [List.map_cons, t2ParseWeights, t2WeightStr, String.toList_ofList, rx_render t2WeightFmt _ (h e (by simp)),
      String.ofList_toList, dictSet_absent acc e.1 e.2 hk]
    simpa using ih

theorem Q.eq_nil_of_get? : ∀ (l : Quals), (∀ k, Q.get? l k = none) → l = []
  | [], _ => rfl
  | (k, v) :: _, h => by have := h k; simp [Q.get?] at this

def listQ (l : List String) : Option (List String) := if l.isEmpty then none else some l

theorem get?_t2quals (t : T2) (k : String) :
    Q.get? t.toQuals k =
      if k = "t2pks_product_classes" then listQ t.classes
      else if k = "t2pks_molecular_weights" then (if t.elongations.isEmpty then none else some (t.weights.map t2WeightStr))
      else if k = "t2pks_malonyl_elongations" then listQ t.elongations
      else if k = "t2pks_starter_units" then some t.starters
      else none := by
  unfold T2.toQuals listQ
  cases t.elongations.isEmpty <;> cases t.classes.isEmpty <;>
    by_cases a1 : k = "t2pks_product_classes" <;> by_cases a2 : k = "t2pks_molecular_weights" <;>
    by_cases a3 : k = "t2pks_malonyl_elongations" <;> by_cases a4 : k = "t2pks_starter_units" <;>
    simp_all [Q.get?_set, Q.get?] <;> (intro e; exact a4 e.symm)

theorem t2_roundtrip (t : T2) (h : t.wf = true) : T2.fromQuals t.toQuals = .ok (some t, []) := by
  have hwf := h
  simp only [T2.wf, Bool.and_eq_true, Bool.not_eq_true', beq_iff_eq, decide_eq_true_eq, List.all_eq_true] at h
  obtain ⟨⟨⟨h1, h2⟩, h3⟩, h4⟩ := h
  have hw := t2ParseWeights_roundtrip t.weights [] h4 (by simpa using h3)
  simp only [List.nil_append] at hw
  have hleft : Q.erase (Q.erase (Q.erase (Q.erase t.toQuals "t2pks_starter_units") "t2pks_malonyl_elongations")
      "t2pks_molecular_weights") "t2pks_product_classes" = [] := by
    apply Q.eq_nil_of_get?
    intro k
    simp only [Q.get?_erase, get?_t2quals]
    by_cases a1 : k = "t2pks_product_classes" <;> by_cases a2 : k = "t2pks_molecular_weights" <;>
      by_cases a3 : k = "t2pks_malonyl_elongations" <;> by_cases a4 : k = "t2pks_starter_units" <;> simp [a1, a2, a3, a4]
  unfold T2.fromQuals
  simp only [Q.get?_erase, get?_t2quals, hleft]
  simp only [show ("t2pks_starter_units" = "t2pks_product_classes") = False by decide,
    show ("t2pks_starter_units" = "t2pks_molecular_weights") = False by decide,
    show ("t2pks_starter_units" = "t2pks_malonyl_elongations") = False by decide,
    show ("t2pks_malonyl_elongations" = "t2pks_product_classes") = False by decide,
    show ("t2pks_malonyl_elongations" = "t2pks_molecular_weights") = False by decide,
    show ("t2pks_malonyl_elongations" = "t2pks_starter_units") = False by decide,
    show ("t2pks_molecular_weights" = "t2pks_product_classes") = False by decide,
    show ("t2pks_molecular_weights" = "t2pks_malonyl_elongations") = False by decide,
    show ("t2pks_molecular_weights" = "t2pks_starter_units") = False by decide,
    show ("t2pks_product_classes" = "t2pks_molecular_weights") = False by decide,
    show ("t2pks_product_classes" = "t2pks_malonyl_elongations") = False by decide,
    show ("t2pks_product_classes" = "t2pks_starter_units") = False by decide,
    if_false, if_true, Option.getD_some, h1, Bool.false_eq_true]
  obtain ⟨starters, elongations, classes, weights⟩ := t
  simp only at h2 hw ⊢
  unfold listQ
  cases he : elongations.isEmpty <;> cases hc : classes.isEmpty
  · have hwe : weights.isEmpty = false := by rw [← h2, he]
    have hne : ¬ elongations = [] := fun e => by simp [e] at he
    simp [hw, hwe, hne, pure, Except.pure]
  · have hwe : weights.isEmpty = false := by rw [← h2, he]
    have hne : ¬ elongations = [] := fun e => by simp [e] at he
    have : classes = [] := List.isEmpty_iff.1 hc
    subst this
    simp [hw, hwe, hne, pure, Except.pure]
  · have hwe : weights = [] := List.isEmpty_iff.1 (by rw [← h2, he])
    have : elongations = [] := List.isEmpty_iff.1 he
    subst this hwe
    simp [t2ParseWeights, pure, Except.pure]
  · have hwe : weights = [] := List.isEmpty_iff.1 (by rw [← h2, he])
    have e1 : elongations = [] := List.isEmpty_iff.1 he
    have e2 : classes = [] := List.isEmpty_iff.1 hc
    subst e1 e2 hwe
    simp [t2ParseWeights, pure, Except.pure]

/-! ### Pfam identifier, `db_xref`, gene ontology terms -/

def goQ (e : String × String) : String × List String := (e.1, [e.2])

theorem insertGo_map (e : String × String) : ∀ l, (insertGo e l).map goQ = Q.insertKey (goQ e) (l.map goQ)
  | [] => rfl
  | y :: ys => by
    have ih := insertGo_map e ys
    simp only [insertGo, List.map_cons, Q.insertKey]
    have e1 : (goQ e).1 = e.1 := rfl
    have e2 : (goQ y).1 = y.1 := rfl
    rw [e1, e2]
    by_cases h : e.1 < y.1
    · simp [h]
    · simp only [h, if_false, List.map_cons]
      rw [ih]

theorem sortGo_map_aux (g : List (String × String)) : ∀ acc, (g.foldl (fun a e => insertGo e a) acc).map goQ
    = (g.map goQ).foldl (fun a e => Q.insertKey e a) (acc.map goQ) := by
  induction g with
  | nil => intro acc; rfl
  | cons e rest ih => intro acc; simp only [List.foldl_cons, List.map_cons]; rw [ih, insertGo_map]

theorem sortGo_map (g : List (String × String)) : (sortGo g).map goQ = Q.sortKeys (g.map goQ) := by
  simpa [sortGo, Q.sortKeys] using sortGo_map_aux g []

theorem goQ_injective : ∀ (a b : List (String × String)), a.map goQ = b.map goQ → a = b
  | [], [], _ => rfl
  | [], _ :: _, h => by simp at h
  | _ :: _, [], h => by simp at h
  | x :: xs, y :: ys, h => by
    simp only [List.map_cons, List.cons.injEq, goQ, Prod.mk.injEq] at h
    obtain ⟨⟨h1, h2⟩, h3⟩ := h
    have : x = y := Prod.ext h1 h2.1
    rw [this, goQ_injective xs ys h3]

theorem keys_goQ (g : List (String × String)) : Q.keys (g.map goQ) = g.map (·.1) := by
  simp [Q.keys, goQ, List.map_map, Function.comp_def]

theorem sortGo_idem (g : List (String × String)) (hn : (g.map (·.1)).Nodup) : sortGo (sortGo g) = sortGo g := by
  apply goQ_injective
  have hq : Q.Nodup (g.map goQ) := by unfold Q.Nodup; rw [keys_goQ]; exact hn
  rw [sortGo_map, sortGo_map]
  exact Q.sortKeys_congr (Q.nodup_sortKeys hq) hq (Q.get?_sortKeys hq)

theorem insertKey_keys (e : String × List String) : ∀ l, Q.keys (Q.insertKey e l) = insertStr e.1 (Q.keys l)
  | [] => rfl
  | y :: ys => by
    simp only [Q.insertKey, Q.keys, List.map_cons, insertStr]
    by_cases h : e.1 < y.1
    · simp [h]
    · simp only [h, if_false, List.map_cons]
      have := insertKey_keys e ys
      simp only [Q.keys] at this
      rw [this]

theorem sortKeys_keys_aux (q : Quals) : ∀ acc, Q.keys (q.foldl (fun a e => Q.insertKey e a) acc)
    = (Q.keys q).foldl (fun a x => insertStr x a) (Q.keys acc) := by
  induction q with
  | nil => intro acc; rfl
  | cons e rest ih =>
    intro acc
    simp only [List.foldl_cons, Q.keys, List.map_cons]
    have := ih (Q.insertKey e acc)
    simp only [Q.keys] at this
    rw [this]
    have h2 := insertKey_keys e acc
    simp only [Q.keys] at h2
    rw [h2]

theorem sortGo_ids (g : List (String × String)) : (sortGo g).map (·.1) = sortStrs (g.map (·.1)) := by
  rw [← keys_goQ, sortGo_map, ← keys_goQ g]
  simpa [Q.sortKeys, sortStrs, Q.keys] using sortKeys_keys_aux (g.map goQ) []

theorem partition_goStr : ∀ (i d : List Char), hasColonSpace i = false → partitionColonSpace (i ++ ':' :: ' ' :: d) = some (i, d)
  | [], d, _ => rfl
  | [c], d, h => by
    have ih := partition_goStr [] d rfl
    simp only [List.nil_append] at ih
    simp only [List.cons_append, List.nil_append]
    rw [partitionColonSpace.eq_def]
    by_cases hc : c = ':'
    · subst hc; simp [ih]
    · simp [hc, ih]
  | c :: c2 :: i, d, h => by
    have h' : hasColonSpace (c2 :: i) = false := by
      simp only [hasColonSpace, Bool.or_eq_false_iff] at h ⊢
      exact h.2
    have ih := partition_goStr (c2 :: i) d h'
    simp only [List.cons_append] at ih ⊢
    rw [partitionColonSpace.eq_def]
    by_cases hc : c = ':'
    · subst hc
      have h2 : c2 ≠ ' ' := by
        intro e
        subst e
        simp [hasColonSpace] at h
      simp [h2, ih]
    · simp [hc, ih]

theorem goFromQualifier_roundtrip : ∀ (g acc : List (String × String)),
    (∀ e ∈ g, hasColonSpace e.1.toList = false) → ((acc ++ g).map (·.1)).Nodup →
    goFromQualifier (g.map goStr) acc = .ok (acc ++ g)
  | [], acc, _, _ => by simp [goFromQualifier, pure, Except.pure]
  | e :: g, acc, h, hn => by
    have hk : e.1 ∉ acc.map (·.1) := by
      intro hm
      rw [List.map_append, List.nodup_append] at hn
      exact hn.2.2 e.1 hm e.1 (by simp) rfl
    have ih := goFromQualifier_roundtrip g (acc ++ [e]) (fun x hx => h x (by simp [hx])) (by simpa using hn)
    simp only [List.map_cons, goFromQualifier, goStr, String.toList_ofList, partition_goStr _ _ (h e (by simp)),
      String.ofList_toList, dictSet_absent acc e.1 e.2 hk]
    simpa using ih

theorem span_dot : ∀ (cs r : List Char), (∀ c ∈ cs, c ≠ '.') →
    (cs ++ '.' :: r).takeWhile (· != '.') = cs ∧ (cs ++ '.' :: r).dropWhile (· != '.') = '.' :: r
  | [], r, _ => by simp
  | c :: cs, r, h => by
    have hc : c ≠ '.' := h c (by simp)
    have ih := span_dot cs r (fun x hx => h x (by simp [hx]))
    simp [hc, ih.1, ih.2]

theorem span_nodot : ∀ (cs : List Char), (∀ c ∈ cs, c ≠ '.') →
    cs.takeWhile (· != '.') = cs ∧ cs.dropWhile (· != '.') = []
  | [], _ => by simp
  | c :: cs, h => by
    have hc : c ≠ '.' := h c (by simp)
    have ih := span_nodot cs (fun x hx => h x (by simp [hx]))
    simp [hc, ih.1, ih.2]

theorem pfam_ident_nodot (cs : List Char) (h2 : cs.take 2 = ['P', 'F']) (h3 : (cs.drop 2).all Char.isDigit = true) :
    ∀ c ∈ cs, c ≠ '.' := by
  intro c hc
  rw [← List.take_append_drop 2 cs, List.mem_append] at hc
  rcases hc with hc | hc
  · rw [h2] at hc
    simp only [List.mem_cons, List.mem_nil_iff, or_false] at hc
    rcases hc with e | e <;> (subst e; decide)
  · have := List.all_eq_true.1 h3 c hc
    intro e
    subst e
    exact absurd this (by decide)

theorem parsePfamName_fullId (p : PfamX) (h : p.wf = true) : parsePfamName p.fullId = .ok (p.identifier, p.version) := by
  obtain ⟨desc, ident, version, go⟩ := p
  simp only [PfamX.wf, Bool.and_eq_true, Bool.not_eq_true', beq_iff_eq, bne_iff_ne, ne_eq] at h
  obtain ⟨⟨⟨_, ⟨⟨h1, h2⟩, h3⟩⟩, h4⟩, _⟩ := h
  have hnd := pfam_ident_nodot ident.toList h2 h3
  have hvalid : (ident.toList.length = 7 ∧ ident.toList.take 2 = ['P', 'F'] ∧ (ident.toList.drop 2).all Char.isDigit = true) :=
    ⟨h1, h2, h3⟩
  unfold parsePfamName PfamX.fullId
  cases version with
  | none =>
    simp only [(span_nodot _ hnd).1, (span_nodot _ hnd).2, pure, Except.pure, hvalid, and_self, if_true, String.ofList_toList]
  | some v =>
    have hv : v ≠ 0 := fun e => h4 (by rw [e])
    simp only [hv, if_false, String.toList_ofList, (span_dot _ (intChars v) hnd).1, (span_dot _ (intChars v) hnd).2,
      parseInt_intChars, pure, Except.pure, hvalid, and_self, if_true, String.ofList_toList]

/-- what is read from the three written qualifiers: the same description, identifier and version, the gene
    ontology terms in the order of their ids, and the sorted ids as the `db_xref` leftovers -/
theorem pfam_read_quals (p : PfamX) (h : p.wf = true) :
    PfamX.read p.quals = .ok ({ p with go := p.go.map sortGo }, p.leftXref) := by
  unfold PfamX.leftXref
  have hname := parsePfamName_fullId p h
  obtain ⟨desc, ident, version, go⟩ := p
  have hwf := h
  simp only [PfamX.wf, Bool.and_eq_true, Bool.not_eq_true', beq_iff_eq, bne_iff_ne, ne_eq] at h
  obtain ⟨⟨⟨hd, ⟨⟨h1, h2⟩, h3⟩⟩, _⟩, hgo⟩ := h
  have hpf : (['P', 'F'].isPrefixOf (PfamX.fullId ⟨desc, ident, version, go⟩).toList) = true := by
    unfold PfamX.fullId
    have hp : ['P', 'F'].isPrefixOf ident.toList = true := by
      rw [← List.take_append_drop 2 ident.toList, h2]; rfl
    cases version with
    | none => exact hp
    | some v =>
      simp only
      split
      · exact hp
      · rw [String.toList_ofList, ← List.take_append_drop 2 ident.toList, h2]; rfl
  cases go with
  | none =>
    simp only [PfamX.read, PfamX.quals, Q.get?, if_true, Option.getD_some, hpf, hd, hname, Option.getD_none, pure, Except.pure,
      show ("description" = "db_xref") = False by decide, show ("description" = "gene_ontologies") = False by decide,
      show ("db_xref" = "gene_ontologies") = False by decide, if_false, Bool.not_true, Bool.false_eq_true, Option.map_none]
  | some g =>
    simp only [Bool.and_eq_true, Bool.not_eq_true', decide_eq_true_eq, List.all_eq_true] at hgo
    obtain ⟨⟨g1, g2⟩, g3⟩ := hgo
    have hids : ((sortGo g).map (·.1)).Nodup := by
      rw [sortGo_ids]; exact (sortStrs_perm _).nodup_iff.2 g2
    have hcol : ∀ e ∈ sortGo g, hasColonSpace e.1.toList = false := by
      intro e he
      have hm : e.1 ∈ (sortGo g).map (·.1) := List.mem_map_of_mem he
      rw [sortGo_ids] at hm
      have hm2 := (sortStrs_perm _).mem_iff.1 hm
      obtain ⟨e0, he0, he1⟩ := List.mem_map.1 hm2
      have := g3 e0 he0
      rw [← he1]
      simpa using this
    have hparse := goFromQualifier_roundtrip (sortGo g) [] hcol (by simpa using hids)
    simp only [List.nil_append] at hparse
    have hne : (sortGo g).map goStr ≠ [] := by
      intro e
      have hl : ((sortGo g).map (·.1)).length = 0 := by
        have := congrArg List.length e
        simpa using this
      rw [sortGo_ids, (sortStrs_perm _).length_eq] at hl
      have : g = [] := by
        cases g with
        | nil => rfl
        | cons _ _ => simp at hl
      subst this
      simp at g1
    simp only [PfamX.read, PfamX.quals, Q.get?, if_true, Option.getD_some, hpf, hd, hname, pure, Except.pure,
      show ("description" = "db_xref") = False by decide, show ("description" = "gene_ontologies") = False by decide,
      show ("db_xref" = "gene_ontologies") = False by decide, if_false, Bool.not_true, Bool.false_eq_true, Option.map_some]
    cases hterms : (sortGo g).map goStr with
    | nil => exact absurd hterms hne
    | cons t ts =>
      rw [← hterms, hparse]

/-- … and the re-read data writes the same three qualifiers: the first write is a fixed point whatever the order
    in which the gene ontology terms were attached -/
theorem pfam_second_write (p : PfamX) (h : p.wf = true) : ({ p with go := p.go.map sortGo } : PfamX).quals = p.quals := by
  obtain ⟨desc, ident, version, go⟩ := p
  cases go with
  | none => rfl
  | some g =>
    simp only [PfamX.wf, Bool.and_eq_true, Bool.not_eq_true', decide_eq_true_eq] at h
    obtain ⟨_, ⟨_, g2⟩, _⟩ := h
    simp only [PfamX.quals, Option.map_some, PfamX.fullId, sortGo_ids, sortStrs_idem, sortGo_idem g g2]

end ASV.Serial
