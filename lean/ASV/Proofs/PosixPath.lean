/-
  Lemmas about the `posixpath` model: when two absolute paths normalise to the same string, and what
  joining a plain name onto a directory does to the normalised components.
-/
import ASV.Model.PosixPath
namespace ASV.PosixPath

/-- a directory entry's name as `os.listdir` returns it -/
def Plain (n : Path) : Prop := n ≠ [] ∧ n ≠ dot ∧ n ≠ dotdot ∧ '/' ∉ n

/-- what the lexical identity of an absolute path consists of -/
def Good (c : Path) : Prop := c ≠ [] ∧ '/' ∉ c

theorem splitSlash_ne_nil : ∀ p : Path, splitSlash p ≠ []
  | [] => by simp [splitSlash]
  | c :: cs => by
      unfold splitSlash
      split
      · simp
      · split <;> simp

theorem splitSlash_noSlash : ∀ (p : Path), ∀ c ∈ splitSlash p, '/' ∉ c
  | [] => by simp [splitSlash]
  | x :: xs => by
      have ih := splitSlash_noSlash xs
      unfold splitSlash
      by_cases hx : x = '/'
      · simp only [hx, if_true, List.mem_cons]
        rintro c (rfl | hc)
        · simp
        · exact ih c hc
      · simp only [hx, if_false]
        cases hs : splitSlash xs with
        | nil => exact absurd hs (splitSlash_ne_nil xs)
        | cons h t =>
          rw [hs] at ih
          simp only [List.mem_cons]
          rintro c (rfl | hc)
          · have := ih h (List.mem_cons_self ..)
            simp only [List.mem_cons, not_or]
            exact ⟨fun e => hx e.symm, this⟩
          · exact ih c (List.mem_cons_of_mem _ hc)

/-- a slash-free prefix followed by a slash is one component -/
theorem splitSlash_comp_slash : ∀ (c rest : Path), '/' ∉ c →
    splitSlash (c ++ '/' :: rest) = c :: splitSlash rest
  | [], rest, _ => by simp [splitSlash]
  | x :: xs, rest, h => by
      simp only [List.mem_cons, not_or] at h
      have hx : x ≠ '/' := fun e => h.1 e.symm
      have ih := splitSlash_comp_slash xs rest h.2
      simp only [List.cons_append]
      rw [splitSlash]
      simp [hx, ih]

theorem splitSlash_single : ∀ (c : Path), '/' ∉ c → splitSlash c = [c]
  | [], _ => by simp [splitSlash]
  | x :: xs, h => by
      simp only [List.mem_cons, not_or] at h
      have hx : x ≠ '/' := fun e => h.1 e.symm
      rw [splitSlash]
      simp [hx, splitSlash_single xs h.2]

theorem splitSlash_append_slash : ∀ (d n : Path), '/' ∉ n →
    splitSlash (d ++ '/' :: n) = splitSlash d ++ [n]
  | [], n, h => by simp [splitSlash, splitSlash_single n h]
  | x :: xs, n, h => by
      have ih := splitSlash_append_slash xs n h
      simp only [List.cons_append]
      rw [splitSlash, splitSlash]
      by_cases hx : x = '/'
      · simp [hx, ih]
      · simp only [hx, if_false, ih]
        cases hs : splitSlash xs with
        | nil => exact absurd hs (splitSlash_ne_nil xs)
        | cons h t => simp

theorem splitSlash_joinSlash : ∀ (xs : List Path), xs ≠ [] → (∀ c ∈ xs, '/' ∉ c) →
    splitSlash (joinSlash xs) = xs
  | [], h, _ => absurd rfl h
  | [c], _, hc => by simpa [joinSlash] using splitSlash_single c (hc c (List.mem_cons_self ..))
  | c :: d :: cs, _, hc => by
      have ih := splitSlash_joinSlash (d :: cs) (by simp) fun x hx => hc x (List.mem_cons_of_mem _ hx)
      simp only [joinSlash]
      rw [splitSlash_comp_slash c _ (hc c (List.mem_cons_self ..)), ih]

theorem joinSlash_head (xs : List Path) (h : ∀ c ∈ xs, Good c) : (joinSlash xs).head? ≠ some '/' := by
  match xs with
  | [] => simp [joinSlash]
  | [c] =>
    obtain ⟨h1, h2⟩ := h c (List.mem_cons_self ..)
    cases c with
    | nil => exact absurd rfl h1
    | cons x xs =>
      simp only [joinSlash, List.head?_cons, ne_eq, Option.some.injEq]
      simp only [List.mem_cons, not_or] at h2
      exact fun e => h2.1 e.symm
  | c :: d :: cs =>
    obtain ⟨h1, h2⟩ := h c (List.mem_cons_self ..)
    cases c with
    | nil => exact absurd rfl h1
    | cons x xs =>
      simp only [joinSlash, List.cons_append, List.head?_cons, ne_eq, Option.some.injEq]
      simp only [List.mem_cons, not_or] at h2
      exact fun e => h2.1 e.symm

theorem joinSlash_inj (xs ys : List Path) (hx : ∀ c ∈ xs, Good c) (hy : ∀ c ∈ ys, Good c)
    (h : joinSlash xs = joinSlash ys) : xs = ys := by
  have nonempty : ∀ zs : List Path, (∀ c ∈ zs, Good c) → joinSlash zs = [] → zs = [] := by
    intro zs hz hj
    match zs, hz, hj with
    | [], _, _ => rfl
    | [c], hz, hj => exact absurd (by simpa [joinSlash] using hj) (hz c (List.mem_cons_self ..)).1
    | c :: d :: cs, hz, hj =>
      have := (hz c (List.mem_cons_self ..)).1
      simp [joinSlash] at hj
  by_cases hxs : xs = []
  · subst hxs
    exact (nonempty ys hy (by simpa [joinSlash] using h.symm)).symm
  · by_cases hys : ys = []
    · subst hys
      exact nonempty xs hx (by simpa [joinSlash] using h)
    · rw [← splitSlash_joinSlash xs hxs fun c hc => (hx c hc).2,
          ← splitSlash_joinSlash ys hys fun c hc => (hy c hc).2, h]

/-! ### the normalisation loop -/

theorem normStep_good (rooted : Bool) (acc : List Path) (comp : Path) (hacc : ∀ c ∈ acc, Good c)
    (hcomp : '/' ∉ comp) : ∀ c ∈ normStep rooted acc comp, Good c := by
  unfold normStep
  split
  · exact hacc
  · rename_i h1
    split
    · intro c hc
      rcases List.mem_cons.1 hc with rfl | hc
      · refine ⟨?_, hcomp⟩
        intro e
        simp [e] at h1
      · exact hacc c hc
    · intro c hc
      exact hacc c (List.mem_of_mem_tail hc)

theorem foldl_normStep_good (rooted : Bool) : ∀ (comps : List Path) (acc : List Path),
    (∀ c ∈ acc, Good c) → (∀ c ∈ comps, '/' ∉ c) → ∀ c ∈ comps.foldl (normStep rooted) acc, Good c
  | [], acc, hacc, _ => hacc
  | x :: xs, acc, hacc, hc => by
      simp only [List.foldl_cons]
      exact foldl_normStep_good rooted xs _
        (normStep_good rooted acc x hacc (hc x (List.mem_cons_self ..)))
        fun c h => hc c (List.mem_cons_of_mem _ h)

theorem normComps_good (rooted : Bool) (p : Path) : ∀ c ∈ normComps rooted (splitSlash p), Good c := by
  intro c hc
  simp only [normComps, List.mem_reverse] at hc
  exact foldl_normStep_good rooted _ [] (by simp) (splitSlash_noSlash p) c hc

theorem normComps_snoc_empty (rooted : Bool) (cs : List Path) :
    normComps rooted (cs ++ [[]]) = normComps rooted cs := by
  simp [normComps, List.foldl_append, normStep]

theorem normComps_snoc_plain (rooted : Bool) (cs : List Path) (n : Path) (hn : Plain n) :
    normComps rooted (cs ++ [n]) = normComps rooted cs ++ [n] := by
  obtain ⟨h1, h2, h3, _⟩ := hn
  simp [normComps, List.foldl_append, normStep, h1, h2, h3]

/-! ### rendering -/

theorem slashes_cancel : ∀ (k k' : Nat) (b b' : Path), b.head? ≠ some '/' → b'.head? ≠ some '/' →
    List.replicate k '/' ++ b = List.replicate k' '/' ++ b' → k = k' ∧ b = b'
  | 0, 0, _, _, _, _, h => ⟨rfl, by simpa using h⟩
  | 0, k' + 1, b, _, hb, _, h => by
      simp only [List.replicate_zero, List.nil_append, List.replicate_succ, List.cons_append] at h
      exact absurd (by rw [h]; rfl) hb
  | k + 1, 0, _, b', _, hb', h => by
      simp only [List.replicate_zero, List.nil_append, List.replicate_succ, List.cons_append] at h
      exact absurd (by rw [← h]; rfl) hb'
  | k + 1, k' + 1, b, b', hb, hb', h => by
      simp only [List.replicate_succ, List.cons_append, List.cons.injEq, true_and] at h
      obtain ⟨h1, h2⟩ := slashes_cancel k k' b b' hb hb' h
      exact ⟨by omega, h2⟩

theorem leadSlashes_pos (p : Path) (h : isabs p = true) : leadSlashes p ≠ 0 := by
  match p with
  | [] => simp [isabs] at h
  | [c] =>
    have : c = '/' := by simpa [isabs] using h
    subst this; simp [leadSlashes]
  | [c, d] =>
    have : c = '/' := by simpa [isabs] using h
    subst this
    by_cases hd : d = '/'
    · subst hd; simp [leadSlashes]
    · unfold leadSlashes; split <;> simp_all
  | c :: d :: e :: rest =>
    have : c = '/' := by simpa [isabs] using h
    subst this
    unfold leadSlashes
    split <;> simp_all

/-- the normalised string of an absolute path, spelled out -/
theorem normpath_abs (p : Path) (h : isabs p = true) :
    normpath p = List.replicate (leadSlashes p) '/' ++ joinSlash (normComps true (splitSlash p)) := by
  have hk := leadSlashes_pos p h
  have hne : p ≠ [] := by intro e; simp [e, isabs] at h
  unfold normpath
  have h1 : p.isEmpty = false := by simpa using hne
  have h2 : (leadSlashes p != 0) = true := by simpa using hk
  simp only [h1, Bool.false_eq_true, if_false, h2]
  obtain ⟨k, hk'⟩ := Nat.exists_eq_succ_of_ne_zero hk
  simp [hk', List.replicate_succ]

/-- two absolute paths have the same `normpath` exactly when they have the same number of kept leading
    slashes and the same normalised components -/
theorem normpath_abs_eq_iff (p q : Path) (hp : isabs p = true) (hq : isabs q = true) :
    normpath p = normpath q ↔
      leadSlashes p = leadSlashes q ∧ normComps true (splitSlash p) = normComps true (splitSlash q) := by
  rw [normpath_abs p hp, normpath_abs q hq]
  constructor
  · intro h
    obtain ⟨h1, h2⟩ := slashes_cancel _ _ _ _ (joinSlash_head _ (normComps_good true p))
      (joinSlash_head _ (normComps_good true q)) h
    exact ⟨h1, joinSlash_inj _ _ (normComps_good true p) (normComps_good true q) h2⟩
  · rintro ⟨h1, h2⟩
    rw [h1, h2]


/-! ### joining a plain name onto a directory -/

theorem plain_head (n : Path) (hn : Plain n) : n.head? ≠ some '/' := by
  obtain ⟨h1, _, _, h4⟩ := hn
  cases n with
  | nil => exact absurd rfl h1
  | cons x xs =>
    simp only [List.mem_cons, not_or] at h4
    simpa using fun e : x = '/' => h4.1 e.symm

theorem join_plain (a n : Path) (ha : a ≠ []) (hn : Plain n) :
    join a n = if a.getLast? = some '/' then a ++ n else a ++ '/' :: n := by
  have h1 : (n.head? == some '/') = false := by simpa using plain_head n hn
  have h2 : a.isEmpty = false := by simpa using ha
  unfold join
  by_cases hl : a.getLast? = some '/' <;> simp [h1, h2, hl]

theorem eq_snoc_of_getLast? {α} : ∀ (a : List α) (x : α), a.getLast? = some x → ∃ a', a = a' ++ [x]
  | [], _, h => by simp at h
  | [y], x, h => ⟨[], by simpa using h⟩
  | y :: z :: rest, x, h => by
      rw [List.getLast?_cons_cons] at h
      obtain ⟨a', ha'⟩ := eq_snoc_of_getLast? (z :: rest) x h
      exact ⟨y :: a', by rw [ha']; rfl⟩

/-- the components of `join(a, n)` are those of `a` followed by `n` -/
theorem normComps_join_plain (rooted : Bool) (a n : Path) (ha : a ≠ []) (hn : Plain n) :
    normComps rooted (splitSlash (join a n)) = normComps rooted (splitSlash a) ++ [n] := by
  rw [join_plain a n ha hn]
  by_cases hl : a.getLast? = some '/'
  · simp only [hl, if_true]
    obtain ⟨a', rfl⟩ := eq_snoc_of_getLast? a '/' hl
    rw [List.append_assoc, List.singleton_append, splitSlash_append_slash a' n hn.2.2.2,
      show a' ++ ['/'] = a' ++ '/' :: [] from rfl, splitSlash_append_slash a' [] (by simp),
      normComps_snoc_plain rooted _ n hn, normComps_snoc_empty]
  · simp only [hl, if_false]
    rw [splitSlash_append_slash a n hn.2.2.2, normComps_snoc_plain rooted _ n hn]

theorem isabs_join_plain (a n : Path) (ha : isabs a = true) (hn : Plain n) : isabs (join a n) = true := by
  have hne : a ≠ [] := by intro e; simp [e, isabs] at ha
  rw [join_plain a n hne hn]
  cases a with
  | nil => exact absurd rfl hne
  | cons x xs => split <;> simpa [isabs] using ha

theorem leadSlashes_join_plain (a n : Path) (ha : a ≠ []) (hn : Plain n) :
    leadSlashes (join a n) = leadSlashes a := by
  rw [join_plain a n ha hn]
  obtain ⟨x, xs, rfl⟩ : ∃ x xs, n = x :: xs := by
    cases n with
    | nil => exact absurd rfl hn.1
    | cons x xs => exact ⟨x, xs, rfl⟩
  have hx : x ≠ '/' := by
    have := hn.2.2.2
    simp only [List.mem_cons, not_or] at this
    exact fun e => this.1 e.symm
  match a, ha with
  | [c], _ =>
    by_cases hc : c = '/'
    · subst hc; simp [leadSlashes, hx]
    · simp [leadSlashes, hc]
  | [c, d], _ =>
    by_cases hc : c = '/'
    · subst hc
      by_cases hd : d = '/'
      · subst hd; simp [leadSlashes, hx]
      · simp [leadSlashes, hd]
    · split <;> simp [leadSlashes, hc]
  | c :: d :: e :: rest, _ =>
    by_cases hc : c = '/'
    · subst hc
      by_cases hd : d = '/'
      · subst hd
        by_cases he : e = '/'
        · subst he; split <;> simp [leadSlashes]
        · split <;> simp [leadSlashes, he]
      · split <;> simp [leadSlashes, hd]
    · split <;> simp [leadSlashes, hc]

theorem getLast?_append_ne_nil {α} (x y : List α) (hy : y ≠ []) : (x ++ y).getLast? = y.getLast? := by
  induction x with
  | nil => rfl
  | cons a x ih =>
    cases hxy : x ++ y with
    | nil => simp at hxy; exact absurd hxy.2 hy
    | cons b r => rw [List.cons_append, hxy, List.getLast?_cons_cons, ← hxy, ih]

/-- `abspath` of an entry of directory `name` is the entry's name joined onto `abspath`'s argument
    for `name` itself -/
theorem absArg_join_plain (cwd name n : Path) (hname : name ≠ []) (hn : Plain n) :
    absArg cwd (join name n) = join (absArg cwd name) n := by
  by_cases habs : isabs name = true
  · simp [absArg, habs, isabs_join_plain name n habs hn]
  · have hrel : isabs (join name n) = false := by
      rw [join_plain name n hname hn]
      cases name with
      | nil => exact absurd rfl hname
      | cons x xs => split <;> simpa [isabs] using habs
    have hnh : (name.head? == some '/') = false := by simpa [isabs] using habs
    have hjh : ((join name n).head? == some '/') = false := by simpa [isabs] using hrel
    simp only [absArg, hrel, habs, Bool.false_eq_true, if_false]
    have hcn : ∀ pre : Path, join (pre ++ name) n = pre ++ join name n := by
      intro pre
      have hne : pre ++ name ≠ [] := by simp [hname]
      rw [join_plain _ n hne hn, join_plain name n hname hn, getLast?_append_ne_nil pre name hname]
      split <;> simp
    have j1 : ∀ x : Path, (x.head? == some '/') = false →
        join cwd x = if cwd.isEmpty || cwd.getLast? == some '/' then cwd ++ x else cwd ++ '/' :: x := by
      intro x hx
      simp only [join, hx, Bool.false_eq_true, if_false]
    rw [j1 _ hjh, j1 _ hnh]
    split
    · exact (hcn cwd).symm
    · have := hcn (cwd ++ ['/'])
      simpa using this.symm

theorem isabs_absArg (cwd p : Path) (hcwd : isabs cwd = true) : isabs (absArg cwd p) = true := by
  unfold absArg
  by_cases h : isabs p = true
  · simp [h]
  · simp only [h, Bool.false_eq_true, if_false]
    have hp : (p.head? == some '/') = false := by simpa [isabs] using h
    unfold join
    simp only [hp, Bool.false_eq_true, if_false]
    cases cwd with
    | nil => simp [isabs] at hcwd
    | cons x xs => split <;> simpa [isabs] using hcwd

/-- **same path ⇔ same name**: inside one (absolute) directory, two plain names give the same
    normalised path exactly when they are the same name -/
theorem normpath_join_eq_iff (a n m : Path) (ha : isabs a = true) (hn : Plain n) (hm : Plain m) :
    normpath (join a n) = normpath (join a m) ↔ n = m := by
  have hne : a ≠ [] := by intro e; simp [e, isabs] at ha
  rw [normpath_abs_eq_iff _ _ (isabs_join_plain a n ha hn) (isabs_join_plain a m ha hm),
    leadSlashes_join_plain a n hne hn, leadSlashes_join_plain a m hne hm,
    normComps_join_plain true a n hne hn, normComps_join_plain true a m hne hm]
  constructor
  · rintro ⟨_, h⟩
    simpa using h
  · rintro rfl
    exact ⟨rfl, rfl⟩

/-- an entry is never the same path as something one level further down inside it -/
theorem normpath_join_ne_deeper (a n m : Path) (ha : isabs a = true) (hn : Plain n) (hm : Plain m) :
    normpath (join a n) ≠ normpath (join (join a n) m) := by
  have hne : a ≠ [] := by intro e; simp [e, isabs] at ha
  have hab := isabs_join_plain a n ha hn
  have hne' : join a n ≠ [] := by intro e; simp [e, isabs] at hab
  rw [Ne, normpath_abs_eq_iff _ _ hab (isabs_join_plain _ m hab hm),
    normComps_join_plain true (join a n) m hne' hm]
  rintro ⟨_, h⟩
  have := congrArg List.length h
  simp at this


/-- `abspath(join(name, n)) == abspath(join(name, m))` ⇔ `n == m`, for any working directory and any
    non-empty directory argument, absolute or relative, in any spelling -/
theorem abspath_entry_eq_iff (cwd name n m : Path) (hcwd : isabs cwd = true) (hname : name ≠ [])
    (hn : Plain n) (hm : Plain m) :
    abspath cwd (join name n) = abspath cwd (join name m) ↔ n = m := by
  unfold abspath
  rw [absArg_join_plain cwd name n hname hn, absArg_join_plain cwd name m hname hm]
  exact normpath_join_eq_iff _ n m (isabs_absArg cwd name hcwd) hn hm

theorem abspath_entry_ne_deeper (cwd name n m : Path) (hcwd : isabs cwd = true) (hname : name ≠ [])
    (hn : Plain n) (hm : Plain m) :
    abspath cwd (join name n) ≠ abspath cwd (join (join name n) m) := by
  unfold abspath
  have hjn : join name n ≠ [] := by
    rw [join_plain name n hname hn]; split <;> simp [hname]
  rw [absArg_join_plain cwd (join name n) m hjn hm, absArg_join_plain cwd name n hname hn]
  exact normpath_join_ne_deeper _ n m (isabs_absArg cwd name hcwd) hn hm


/-! ### `entry.endswith('/' + n)` -/

theorem join_plain_shape (a n : Path) (ha : a ≠ []) (hn : Plain n) : ∃ a', join a n = a' ++ '/' :: n := by
  rw [join_plain a n ha hn]
  by_cases hl : a.getLast? = some '/'
  · obtain ⟨a', rfl⟩ := eq_snoc_of_getLast? a '/' hl
    exact ⟨a', by simp [hl]⟩
  · exact ⟨a, by simp [hl]⟩

/-- `os.path.join(name, n).endswith('/' + m)` ⇔ `n == m`, for plain names -/
theorem join_endswith_iff (a n m : Path) (ha : a ≠ []) (hn : Plain n) (hm : '/' ∉ m) :
    ('/' :: m).isSuffixOf (join a n) = true ↔ n = m := by
  obtain ⟨a', ha'⟩ := join_plain_shape a n ha hn
  rw [ha', List.isSuffixOf_iff_suffix]
  constructor
  · rintro ⟨t, ht⟩
    have := congrArg splitSlash ht
    rw [splitSlash_append_slash t m hm, splitSlash_append_slash a' n hn.2.2.2] at this
    have := congrArg List.getLast? this
    simpa using this.symm
  · rintro rfl
    exact ⟨a', rfl⟩

end ASV.PosixPath

namespace ASV.PosixPath

/-! ### components of a normalised absolute path are plain names -/

theorem normStep_rooted_plain (acc : List Path) (comp : Path) (hacc : ∀ c ∈ acc, Plain c)
    (hcomp : '/' ∉ comp) : ∀ c ∈ normStep true acc comp, Plain c := by
  unfold normStep
  split
  · exact hacc
  · rename_i h1
    split
    · rename_i h2
      intro c hc
      rcases List.mem_cons.1 hc with rfl | hc
      · have hne : c ≠ [] ∧ c ≠ dot := by
          constructor <;> intro e <;> simp [e] at h1
        have hdd : c ≠ dotdot := by
          intro e
          subst e
          have : acc.head? = some dotdot := by simpa using h2
          cases acc with
          | nil => simp at this
          | cons a as =>
            have ha := hacc a (List.mem_cons_self ..)
            simp only [List.head?_cons, Option.some.injEq] at this
            exact ha.2.2.1 this
        exact ⟨hne.1, hne.2, hdd, hcomp⟩
      · exact hacc c hc
    · intro c hc
      exact hacc c (List.mem_of_mem_tail hc)

theorem foldl_normStep_rooted_plain : ∀ (comps : List Path) (acc : List Path),
    (∀ c ∈ acc, Plain c) → (∀ c ∈ comps, '/' ∉ c) → ∀ c ∈ comps.foldl (normStep true) acc, Plain c
  | [], acc, hacc, _ => hacc
  | x :: xs, acc, hacc, hc => by
      simp only [List.foldl_cons]
      exact foldl_normStep_rooted_plain xs _
        (normStep_rooted_plain acc x hacc (hc x (List.mem_cons_self ..)))
        fun c h => hc c (List.mem_cons_of_mem _ h)

/-- no `.`, no `..`, no empty component survives in an absolute path's normal form -/
theorem normComps_rooted_plain (p : Path) : ∀ c ∈ normComps true (splitSlash p), Plain c := by
  intro c hc
  simp only [normComps, List.mem_reverse] at hc
  exact foldl_normStep_rooted_plain _ [] (by simp) (splitSlash_noSlash p) c hc

end ASV.PosixPath
