/-
  C16 helper lemmas: "clean" (no illegal character) and length facts for the building blocks
  (`strip`, `mkName`, `shortenIds`).  Facts about the regenerated table are discharged by `decide`.
-/
import ASV.Proofs.Ids
namespace ASV.Ids
open ASV.Generated.Ids

/-- no character of the (regenerated) illegal set occurs -/
def Clean (s : Str) : Prop := ∀ c ∈ s, c ∉ illegalRecordChars

/-- table fact: neither `_`, `.`, `c` nor any digit is an illegal character (re-checked whenever
    the table is regenerated) -/
theorem table_safe_chars :
    illegalRecordChars.all (fun c => !c.isDigit && c != '_' && c != '.' && c != 'c') = true := by decide

theorem digit_not_illegal {c : Char} (h : c.isDigit = true) : c ∉ illegalRecordChars := by
  intro hm
  have := List.all_eq_true.mp table_safe_chars c hm
  simp [h] at this

theorem underscore_not_illegal : '_' ∉ illegalRecordChars := by decide
theorem dot_not_illegal : '.' ∉ illegalRecordChars := by decide
theorem c_not_illegal : 'c' ∉ illegalRecordChars := by decide

theorem clean_iff_fileSafe (s : Str) : Clean s ↔ IdSpec.fileSafe s = true := by
  unfold Clean IdSpec.fileSafe
  simp only [List.all_eq_true, Bool.not_eq_true']
  constructor
  · intro h bad hb
    have : bad ∉ s := fun hs => h bad hs hb
    simpa using this
  · intro h c hc hb
    have := h c hb
    simp [hc] at this

theorem strip_clean (s : Str) : Clean (strip s) := by
  intro c hc
  unfold strip at hc
  have := (List.mem_filter.mp hc).2
  simpa using this

theorem strip_eq_self {s : Str} : strip s = s ↔ Clean s := by
  unfold strip Clean
  rw [List.filter_eq_self]
  simp

theorem strip_length_le (s : Str) : (strip s).length ≤ s.length := List.length_filter_le _ _

theorem Clean.take {s : Str} (h : Clean s) (n : Nat) : Clean (s.take n) :=
  fun c hc => h c (List.mem_of_mem_take hc)

theorem Clean.takeWhile {s : Str} (h : Clean s) (p : Char → Bool) : Clean (s.takeWhile p) :=
  fun c hc => h c ((List.takeWhile_prefix p).subset hc)

theorem toDigits_clean (n : Nat) : Clean (Nat.toDigits 10 n) :=
  fun _ hc => digit_not_illegal (Nat.isDigit_of_mem_toDigits (by omega) (by omega) hc)

theorem mkName_clean {pre : Str} (h : Clean pre) (k : Nat) : Clean (mkName pre k) := by
  intro c hc
  unfold mkName at hc
  rcases List.mem_append.mp hc with hc | hc
  · exact h c hc
  · rcases List.mem_cons.mp hc with rfl | hc
    · exact underscore_not_illegal
    · exact toDigits_clean k c hc

/-! ### `_shorten_ids` always fits into 16 characters -/

theorem lastN_length_le (k : Nat) (s : Str) : (lastN k s).length ≤ k := by
  unfold lastN
  simp only [List.length_drop]
  omega

theorem shortenIds_length (idx : Nat) (s : Str) : (shortenIds idx s).length ≤ 16 := by
  unfold shortenIds
  simp only [List.length_cons, List.length_append, List.length_take, List.length_nil]
  have := lastN_length_le 12 (pad5 (contigNoOf idx s))
  omega

/-- for numbers of at most five digits the repaired `_shorten_ids` is the original
    `f"c{contig_no:05d}_{idstring[:7]}.."` -/
theorem shortenIds_small (idx : Nat) (s : Str) (hd : (Nat.toDigits 10 (contigNoOf idx s)).length ≤ 5) :
    shortenIds idx s = 'c' :: pad5 (contigNoOf idx s) ++ '_' :: s.take 7 ++ ['.', '.'] := by
  unfold shortenIds
  have hl : (pad5 (contigNoOf idx s)).length = 5 := by
    unfold pad5
    simp only [List.length_append, List.length_replicate]
    omega
  have : lastN 12 (pad5 (contigNoOf idx s)) = pad5 (contigNoOf idx s) := by
    unfold lastN
    rw [hl]
    rfl
  simp only [this, hl]

end ASV.Ids
