/-
  C05: the executable checks of Spec/Candidates.lean, read as propositions.
-/
import ASV.Proofs.Members
import ASV.Proofs.LocConnect
set_option linter.unusedSectionVars false
set_option linter.unusedVariables false
namespace ASV.CC
open ASV.CC.Spec

theorem coversAll_iff {ps : List Proto} {cs : List Cand} :
    coversAll ps cs = true ↔ ∀ p, p ∈ ps → ∃ c, c ∈ cs ∧ p ∈ c.members := by
  simp only [coversAll, List.all_eq_true, List.any_eq_true, List.contains_eq_mem, decide_eq_true_eq]

theorem nodupB_iff {α : Type} [DecidableEq α] {l : List α} : nodupB l = true ↔ l.Nodup := by
  induction l with
  | nil => simp [nodupB]
  | cons x xs ih => simp [nodupB, ih]

theorem membersOK_iff {ps : List Proto} {cs : List Cand} :
    membersOK ps cs = true ↔ ∀ c, c ∈ cs → c.members ≠ [] ∧ (∀ m, m ∈ c.members → m ∈ ps) ∧ c.members.Nodup := by
  simp only [membersOK, List.all_eq_true, Bool.and_eq_true, nodupB_iff, List.contains_eq_mem, decide_eq_true_eq,
    Bool.not_eq_true', List.isEmpty_eq_false_iff, and_assoc, ne_eq]

theorem locationsOK_iff {wrap : Option Int} {cs : List Cand} :
    locationsOK wrap cs = true ↔ ∀ c, c ∈ cs →
      connect (c.members.map (·.loc)) wrap = .ok c.loc ∧ ∀ m, m ∈ c.members → locationContainsOther c.loc m.loc = true := by
  simp only [locationsOK, List.all_eq_true, Bool.and_eq_true]
  constructor
  · intro h c hc
    obtain ⟨h1, h2⟩ := h c hc
    refine ⟨?_, h2⟩
    split at h1
    · rename_i l hl
      have : l = c.loc := by simpa using h1
      rw [hl, this]
    · cases h1
  · intro h c hc
    obtain ⟨h1, h2⟩ := h c hc
    refine ⟨?_, h2⟩
    rw [h1]; simp

theorem sizesOK_iff {cs : List Cand} :
    sizesOK cs = true ↔ ∀ c, c ∈ cs → (c.kind = .single → c.members.length = 1) ∧ (c.kind ≠ .single → 2 ≤ c.members.length) := by
  simp only [sizesOK, List.all_eq_true]
  constructor
  · intro h c hc
    have := h c hc
    by_cases hk : c.kind = .single
    · simp only [hk, beq_self_eq_true, if_true] at this
      exact ⟨fun _ => by simpa using this, fun hne => absurd hk hne⟩
    · have hk' : (c.kind == Kind.single) = false := by simpa using hk
      simp only [hk', Bool.false_eq_true, if_false] at this
      exact ⟨fun e => absurd e hk, fun _ => by simpa using this⟩
  · intro h c hc
    obtain ⟨h1, h2⟩ := h c hc
    by_cases hk : c.kind = .single
    · simp only [hk, beq_self_eq_true, if_true]; simpa using h1 hk
    · have hk' : (c.kind == Kind.single) = false := by simpa using hk
      simp only [hk', Bool.false_eq_true, if_false]; simpa using h2 hk

/-- "same coordinates and same members" -/
def Dup (c d : Cand) : Prop := coords c.loc = coords d.loc ∧ sameMembers c.members d.members = true

theorem sameMembers_symm {a b : List Proto} (h : sameMembers a b = true) : sameMembers b a = true := by
  simp only [sameMembers, Bool.and_eq_true] at h ⊢
  exact ⟨h.2, h.1⟩

theorem noDuplicates_iff {cs : List Cand} : noDuplicates cs = true ↔ cs.Pairwise fun c d => ¬ Dup c d := by
  induction cs with
  | nil => simp [noDuplicates]
  | cons c cs ih =>
    simp only [noDuplicates, Bool.and_eq_true, List.all_eq_true, ih, List.pairwise_cons, Dup]
    constructor
    · rintro ⟨h1, h2⟩
      refine ⟨?_, h2⟩
      intro d hd hdup
      have := h1 d hd
      simp [hdup.1, hdup.2] at this
    · rintro ⟨h1, h2⟩
      refine ⟨?_, h2⟩
      intro d hd
      have := h1 d hd
      by_cases e1 : coords c.loc = coords d.loc
      · by_cases e2 : sameMembers c.members d.members = true
        · exact absurd ⟨e1, e2⟩ this
        · simp [e2]
      · simp [e1]

theorem noDuplicates_perm {l₁ l₂ : List Cand} (hp : l₁.Perm l₂) (h : noDuplicates l₁ = true) : noDuplicates l₂ = true := by
  rw [noDuplicates_iff] at h ⊢
  refine hp.pairwise h ?_
  intro x y hxy hd
  exact hxy ⟨hd.1.symm, sameMembers_symm hd.2⟩

/-- `_merge_sets` as it was before fix D16: one forward pass per set (negation witness only) -/
def singlePassMerge (groups : List (List Nat)) : List (List Nat) :=
  let rec go : Nat → List (List Nat) → List (List Nat)
    | 0, l => l
    | _, [] => []
    | n + 1, first :: rest =>
      if first.isEmpty then first :: go n rest
      else let p := absorbPass first rest; p.1 :: go n p.2.1
  (go groups.length groups).filter fun g => !g.isEmpty

/-- kinds and member ids of a result, for concrete examples -/
def summary (r : E (List Cand)) : Option (List (Kind × List Nat)) :=
  match r with
  | .ok cs => some (cs.map fun c => (c.kind, c.members.map (·.id)))
  | .error _ => none

end ASV.CC
