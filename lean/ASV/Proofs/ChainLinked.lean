/-
  C03 helper lemmas: linkage inside a chained group; the chain relation on a line; assembling the
  chain-partition statement from the sweep lemmas.
-/
import ASV.Proofs.ProtoLine
namespace ASV.Chains
open ASV ASV.ChainSweep ASV.Proto

variable {α : Type}

theorem Linked.mono {rel : α → α → Prop} {g g' : List α} (hsub : ∀ x ∈ g, x ∈ g') {a b : α}
    (h : Linked rel g a b) : Linked rel g' a b := by
  induction h with
  | refl ha => exact Linked.refl (hsub a ha)
  | step _ hc hr ih => exact Linked.step ih (hsub _ hc) hr

theorem Linked.left_mem {rel : α → α → Prop} {g : List α} {a b : α} (h : Linked rel g a b) : a ∈ g := by
  induction h with
  | refl ha => exact ha
  | step _ _ _ ih => exact ih

theorem Linked.right_mem {rel : α → α → Prop} {g : List α} {a b : α} (h : Linked rel g a b) : b ∈ g := by
  cases h with
  | refl ha => exact ha
  | step _ hc _ => exact hc

theorem Linked.trans {rel : α → α → Prop} {g : List α} {a b c : α} (h1 : Linked rel g a b)
    (h2 : Linked rel g b c) : Linked rel g a c := by
  induction h2 with
  | refl _ => exact h1
  | step _ hc hr ih => exact Linked.step ih hc hr

theorem Linked.symm {rel : α → α → Prop} {g : List α} {a b : α} (h : Linked rel g a b) : Linked rel g b a := by
  induction h with
  | refl ha => exact Linked.refl ha
  | @step c' d' hab hc hr ih =>
    -- d' — c' … a : first the step back from d' to c', then the reversed chain
    have hb : c' ∈ g := hab.right_mem
    have h1 : Linked rel g d' c' := Linked.step (Linked.refl hc) hb (hr.symm)
    exact h1.trans ih

/-- a chained list is linked throughout -/
theorem linked_of_chained {lo hi : α → Int} {c : Int} {l : List α} (h : Chained lo hi c l) :
    ∀ a ∈ l, ∀ b ∈ l, Linked (reach lo hi c) l a b := by
  induction h with
  | single x =>
    intro a ha b hb
    simp at ha hb; subst ha; subst hb
    exact Linked.refl (by simp)
  | @snoc l y _ hex ih =>
    obtain ⟨m, hm, hr⟩ := hex
    have hsub : ∀ x ∈ l, x ∈ l ++ [y] := fun x hx => by simp [hx]
    have hmy : Linked (reach lo hi c) (l ++ [y]) m y :=
      Linked.step (Linked.refl (hsub m hm)) (by simp) (Or.inl hr)
    have toY : ∀ a ∈ l, Linked (reach lo hi c) (l ++ [y]) a y := fun a ha =>
      ((ih a ha m hm).mono hsub).trans hmy
    intro a ha b hb
    simp only [List.mem_append, List.mem_singleton] at ha hb
    rcases ha with ha | rfl <;> rcases hb with hb | rfl
    · exact (ih a ha b hb).mono hsub
    · exact toY a ha
    · exact (toY b hb).symm
    · exact Linked.refl (by simp)

/-! ### the chain relation on a line is `reach` on the spans -/

theorem spanLoc_nb (w : Int) (l : Loc) (h : bridgesOrigin l = false) :
    spanLoc w l = .simple ⟨l.start, l.end, .fwd⟩ := by
  simp [spanLoc, spanParts, h, Loc.ofParts, fl]

theorem nearB_simple_line (c : Int) (hc : 0 ≤ c) (p q : Part) (hp : p.lo < p.hi) (hq : q.lo < q.hi) :
    (sharesPts (.simple p) (.simple q) || decide (specDistFull 0 (.simple p) (.simple q) < c)) = true ↔
      (p.lo < q.hi + c ∧ q.lo < p.hi + c) := by
  by_cases hs : sharesPts (.simple p) (.simple q) = true
  · have h2 := hs
    simp only [sharesPts, Loc.parts, List.map_cons, List.map_nil, List.cons_append, List.nil_append,
      List.any_cons, List.any_nil, Bool.or_false, Loc.mem, Part.mem, Bool.and_eq_true, Bool.or_eq_true,
      decide_eq_true_eq] at h2
    simp only [hs, Bool.true_or, true_iff]
    omega
  · have h2 := hs
    simp only [sharesPts, Loc.parts, List.map_cons, List.map_nil, List.cons_append, List.nil_append,
      List.any_cons, List.any_nil, Bool.or_false, Loc.mem, Part.mem, Bool.and_eq_true, Bool.or_eq_true,
      decide_eq_true_eq] at h2
    have hsf : sharesPts (.simple p) (.simple q) = false := by simpa using hs
    simp only [hsf, Bool.false_or, decide_eq_true_eq, specDistFull, Bool.false_eq_true, if_false, specDist,
      Loc.parts, List.map_cons, List.map_nil, List.flatMap_cons, List.flatMap_nil, List.append_nil, minList,
      List.foldl_nil, specPartDist, if_true, lineGap]
    split <;> (try split) <;> omega

theorem nearB_line_iff (len c : Int) (hc : 0 ≤ c) (a b : Loc) (ha : GeneOK len a) (hb : GeneOK len b) :
    nearB 0 c a b = true ↔ reach Loc.start Loc.end c a b := by
  simp only [nearB, spanLoc_nb 0 a ha.nb, spanLoc_nb 0 b hb.nb, reach]
  exact nearB_simple_line c hc _ _ ha.start_lt_end hb.start_lt_end

theorem reach_symm {lo hi : α → Int} {c : Int} {a b : α} (h : reach lo hi c a b) : reach lo hi c b a :=
  ⟨h.2, h.1⟩

theorem Linked.imp {rel rel' : α → α → Prop} {g : List α} (himp : ∀ x ∈ g, ∀ y ∈ g, rel x y → rel' x y)
    {a b : α} (h : Linked rel g a b) : Linked rel' g a b := by
  induction h with
  | refl ha => exact Linked.refl ha
  | step hab hc hr ih =>
    have hb := hab.right_mem
    exact Linked.step ih hc (hr.imp (himp _ hb _ hc) (himp _ hc _ hb))

theorem paired_of_map_eq {β γ : Type} {f : α → γ} {g : β → γ} {P : α → Prop} {Q : β → Prop} :
    ∀ (l1 : List α) (l2 : List β), l1.map f = l2.map g → (∀ a ∈ l1, P a) → (∀ b ∈ l2, Q b) →
      Paired (fun a b => f a = g b ∧ P a ∧ Q b) l1 l2
  | [], [], _, _, _ => Paired.nil
  | [], _ :: _, h, _, _ => by simp at h
  | _ :: _, [], h, _, _ => by simp at h
  | a :: l1, b :: l2, h, hp, hq => by
    simp only [List.map_cons, List.cons.injEq] at h
    exact Paired.cons ⟨h.1, hp a (by simp), hq b (by simp)⟩
      (paired_of_map_eq l1 l2 h.2 (fun x hx => hp x (by simp [hx])) (fun x hx => hq x (by simp [hx])))

theorem Paired.imp {β : Type} {R S : α → β → Prop} (h : ∀ a b, R a b → S a b) :
    ∀ {l1 : List α} {l2 : List β}, Paired R l1 l2 → Paired S l1 l2
  | _, _, .nil => .nil
  | _, _, .cons hab t => .cons (h _ _ hab) (Paired.imp h t)

theorem Paired.map_right {β γ : Type} {R : α → γ → Prop} (f : β → γ) :
    ∀ {l1 : List α} {l2 : List β}, Paired (fun a b => R a (f b)) l1 l2 → Paired R l1 (l2.map f)
  | _, _, .nil => .nil
  | _, _, .cons hab t => .cons hab (Paired.map_right f t)

/-- the groups of the sorted sweep over gene spans are the maximal chains of any relation that
    coincides with `reach` on the anchors, and each group's hull is the least start / greatest end of
    its members -/
theorem sweep_is_chain_partition_of (rel : Loc → Loc → Prop) (c : Int) (hc : 0 ≤ c) (anchors sorted : List Loc)
    (hperm : sorted.Perm anchors) (hsorted : Sorted Loc.start sorted) (hwf : ∀ l ∈ anchors, l.start < l.end)
    (hrel : ∀ a ∈ anchors, ∀ b ∈ anchors, rel a b ↔ reach Loc.start Loc.end c a b) :
    IsChainPartition rel anchors ((sweep Loc.start Loc.end c sorted).map Grp.members) ∧
      ∀ g ∈ sweep Loc.start Loc.end c sorted, GInv Loc.start Loc.end c g := by
  have hin : ∀ l ∈ sorted, l ∈ anchors := fun l hl => hperm.mem_iff.1 hl
  have hwf' : ∀ x ∈ sorted, x.start < x.end := fun x hx => hwf x (hin x hx)
  have hinv := sweep_inv Loc.start Loc.end c hc sorted hsorted hwf'
  have hflat := sweep_flatten Loc.start Loc.end c sorted
  have hmem : ∀ g ∈ sweep Loc.start Loc.end c sorted, ∀ m ∈ g.members, m ∈ sorted := by
    intro g hg m hm
    rw [← hflat]
    simp only [List.mem_flatten, List.mem_map]
    exact ⟨g.members, ⟨g, hg, rfl⟩, hm⟩
  refine ⟨⟨?_, ?_, ?_, ?_⟩, hinv⟩
  · rw [hflat]; exact hperm
  · intro g hg
    obtain ⟨G, hG, rfl⟩ := List.mem_map.1 hg
    exact (hinv G hG).ne
  · intro g hg a ha b hb
    obtain ⟨G, hG, rfl⟩ := List.mem_map.1 hg
    refine (linked_of_chained (hinv G hG).chained a ha b hb).imp ?_
    intro x hx y hy hr
    exact (hrel x (hin x (hmem G hG x hx)) y (hin y (hmem G hG y hy))).2 hr
  · intro gs₁ g gs₂ hsplit a ha g' hg' b hb
    obtain ⟨l₁, l₂, e, e1, e2⟩ := List.map_eq_append_iff.1 hsplit
    obtain ⟨G, t, rfl, rfl, rfl⟩ := List.map_eq_cons_iff.1 e2
    obtain ⟨G', hG', rfl⟩ := List.mem_map.1 hg'
    have hGm : G ∈ sweep Loc.start Loc.end c sorted := by rw [e]; simp
    have hG'm : G' ∈ sweep Loc.start Loc.end c sorted := by rw [e]; simp [hG']
    have hsep := sweep_separated Loc.start Loc.end c hc sorted hsorted hwf' l₁ G t e a ha G' hG' b hb
    have hA := hin a (hmem G hGm a ha)
    have hB := hin b (hmem G' hG'm b hb)
    constructor
    · intro h; exact hsep ((hrel a hA b hB).1 h)
    · intro h; exact hsep (reach_symm ((hrel b hB a hA).1 h))

theorem sweep_is_chain_partition (len c : Int) (hc : 0 ≤ c) (anchors sorted : List Loc)
    (hperm : sorted.Perm anchors) (hsorted : Sorted Loc.start sorted) (hok : ∀ l ∈ anchors, GeneOK len l) :
    IsChainPartition (fun a b => nearB 0 c a b = true) anchors
        ((sweep Loc.start Loc.end c sorted).map Grp.members) ∧
      ∀ g ∈ sweep Loc.start Loc.end c sorted, GInv Loc.start Loc.end c g :=
  sweep_is_chain_partition_of _ c hc anchors sorted hperm hsorted (fun l hl => (hok l hl).start_lt_end)
    (fun a ha b hb => nearB_line_iff len c hc a b (hok a ha) (hok b hb))

/-- the chain relation on a ring, for two spans inside an arc `[A, B)` of at most half the ring: the
    way over the origin is never the shorter one, so it is `reach` as on a line -/
theorem nearB_simple_ring (L c A B : Int) (hc : 0 ≤ c) (hL : L ≠ 0) (hhalf : 2 * (B - A) ≤ L) (p q : Part)
    (hp : p.lo < p.hi) (hq : q.lo < q.hi) (hpA : A ≤ p.lo) (hpB : p.hi ≤ B) (hqA : A ≤ q.lo) (hqB : q.hi ≤ B) :
    (sharesPts (.simple p) (.simple q) || decide (specDistFull L (.simple p) (.simple q) < c)) = true ↔
      (p.lo < q.hi + c ∧ q.lo < p.hi + c) := by
  by_cases hs : sharesPts (.simple p) (.simple q) = true
  · have h2 := hs
    simp only [sharesPts, Loc.parts, List.map_cons, List.map_nil, List.cons_append, List.nil_append,
      List.any_cons, List.any_nil, Bool.or_false, Loc.mem, Part.mem, Bool.and_eq_true, Bool.or_eq_true,
      decide_eq_true_eq] at h2
    simp only [hs, Bool.true_or, true_iff]
    omega
  · have h2 := hs
    simp only [sharesPts, Loc.parts, List.map_cons, List.map_nil, List.cons_append, List.nil_append,
      List.any_cons, List.any_nil, Bool.or_false, Loc.mem, Part.mem, Bool.and_eq_true, Bool.or_eq_true,
      decide_eq_true_eq] at h2
    have hsf : sharesPts (.simple p) (.simple q) = false := by simpa using hs
    simp only [hsf, Bool.false_or, decide_eq_true_eq, specDistFull, Bool.false_eq_true, if_false, specDist,
      Loc.parts, List.map_cons, List.map_nil, List.flatMap_cons, List.flatMap_nil, List.append_nil, minList,
      List.foldl_nil, specPartDist, hL]
    split <;> (try split) <;> omega

end ASV.Chains
