/-
  Helper lemmas about qualifier dictionaries (C10).
-/
import ASV.Model.Serial
namespace ASV.Serial
open ASV

namespace Q

theorem get?_set_same (q : Quals) (k : String) (v : List String) : get? (set q k v) k = some v := by
  induction q with
  | nil => simp [set, get?]
  | cons e rest ih =>
    obtain ⟨k', v'⟩ := e
    by_cases h : k' = k
    · simp [set, get?, h]
    · simp [set, get?, h, ih]

theorem get?_set_other (q : Quals) (k k2 : String) (v : List String) (h : k2 ≠ k) :
    get? (set q k v) k2 = get? q k2 := by
  induction q with
  | nil => simp [set, get?, Ne.symm h]
  | cons e rest ih =>
    obtain ⟨k', v'⟩ := e
    by_cases h1 : k' = k
    · subst h1; simp [set, get?, Ne.symm h]
    · by_cases h2 : k' = k2
      · subst h2; simp [set, get?, h]
      · simp [set, get?, h1, h2, ih]

end Q
end ASV.Serial
