/-
  Helper lemmas about qualifier dictionaries (C10): lookups through `set / erase / update / sortKeys`,
  and the canonical-form facts: two dictionaries with distinct keys and the same lookups have the same
  `sortKeys`; two rearrangements of the same strings have the same `sortStrs`.
-/
import ASV.Proofs.SerialSort
namespace ASV.Serial
open ASV

namespace Q

def keys (q : Quals) : List String := q.map (·.1)
/-- a well-formed dictionary: no key twice -/
def Nodup (q : Quals) : Prop := (keys q).Nodup

theorem get?_set_same (q : Quals) (k : String) (v : List String) : get? (set q k v) k = some v := by
  induction q with
  | nil => simp [set, get?]
  | cons e rest ih =>
    obtain ⟨k', v'⟩ := e
    by_cases h : k' = k
    · simp [set, get?, h]
    · simp [set, get?, h, ih]

theorem get?_set_other (q : Quals) (k k2 : String) (v : List String) (h : k2 ≠ k) :
    get? (set q k v) k2 = get? q k2 := by
  induction q with
  | nil => simp [set, get?, Ne.symm h]
  | cons e rest ih =>
    obtain ⟨k', v'⟩ := e
    by_cases h1 : k' = k
    · subst h1; simp [set, get?, Ne.symm h]
    · by_cases h2 : k' = k2
      · subst h2; simp [set, get?, h]
      · simp [set, get?, h1, h2, ih]

theorem get?_set (q : Quals) (k k2 : String) (v : List String) :
    get? (set q k v) k2 = if k2 = k then some v else get? q k2 := by
  by_cases h : k2 = k
  · subst h; simp [get?_set_same]
  · simp [h, get?_set_other q k k2 v h]

theorem get?_none_iff (q : Quals) (k : String) : get? q k = none ↔ k ∉ keys q := by
  induction q with
  | nil => simp [get?, keys]
  | cons e rest ih =>
    obtain ⟨k', v'⟩ := e
    by_cases h : k' = k
    · simp [get?, keys, h]
    · simp only [get?, h, if_false, keys, List.map_cons, List.mem_cons, not_or]
      constructor
      · intro hn; exact ⟨fun e => h e.symm, (ih.1 hn)⟩
      · intro hn; exact ih.2 hn.2

theorem get?_erase_same (q : Quals) (k : String) : get? (erase q k) k = none := by
  rw [get?_none_iff]
  simp [erase, keys, List.mem_map, List.mem_filter]

theorem get?_erase_other (q : Quals) (k k2 : String) (h : k2 ≠ k) : get? (erase q k) k2 = get? q k2 := by
  induction q with
  | nil => simp [erase, get?]
  | cons e rest ih =>
    obtain ⟨k', v'⟩ := e
    unfold erase at ih ⊢
    by_cases h1 : k' = k
    · subst h1
      have : k' ≠ k2 := fun e => h e.symm
      simp [List.filter_cons, get?, this, ih]
    · by_cases h2 : k' = k2
      · subst h2; simp [List.filter_cons, get?, h]
      · simp [List.filter_cons, get?, h1, h2, ih]

theorem get?_erase (q : Quals) (k k2 : String) : get? (erase q k) k2 = if k2 = k then none else get? q k2 := by
  by_cases h : k2 = k
  · subst h; simp [get?_erase_same]
  · simp [h, get?_erase_other q k k2 h]

theorem keys_erase_sub (q : Quals) (k : String) : (keys (erase q k)).Sublist (keys q) := by
  unfold keys erase; exact List.Sublist.map _ List.filter_sublist

theorem nodup_erase {q : Quals} (h : Nodup q) (k : String) : Nodup (erase q k) :=
  List.Nodup.sublist (keys_erase_sub q k) h

theorem mem_keys_set (q : Quals) (k k2 : String) (v : List String) : k2 ∈ keys (set q k v) ↔ k2 = k ∨ k2 ∈ keys q := by
  have e1 := get?_none_iff (set q k v) k2
  have e2 := get?_none_iff q k2
  rw [get?_set] at e1
  by_cases h : k2 = k
  · simp only [h, if_true, true_or, iff_true]
    subst h
    simp at e1
    exact e1
  · simp only [h, if_false, false_or] at e1 ⊢
    constructor
    · intro hm
      apply Classical.byContradiction
      intro hn; exact (e1.1 (e2.2 hn)) hm
    · intro hm
      apply Classical.byContradiction
      intro hn; exact (e2.1 (e1.2 hn)) hm

theorem set_not_mem (q : Quals) (k : String) (v : List String) (h : k ∉ keys q) : set q k v = q ++ [(k, v)] := by
  induction q with
  | nil => rfl
  | cons e rest ih =>
    obtain ⟨k', v'⟩ := e
    have h1 : k' ≠ k := fun e => h (by simp [keys, e])
    have h2 : k ∉ keys rest := fun m => h (by simp [keys] at m ⊢; exact Or.inr m)
    simp [set, h1, ih h2]

theorem keys_set_mem (q : Quals) (k : String) (v : List String) (h : k ∈ keys q) : keys (set q k v) = keys q := by
  induction q with
  | nil => simp [keys] at h
  | cons e rest ih =>
    obtain ⟨k', v'⟩ := e
    by_cases h1 : k' = k
    · simp [set, h1, keys]
    · have : k ∈ keys rest := by
        simp only [keys, List.map_cons, List.mem_cons] at h
        rcases h with h | h
        · exact absurd h.symm h1
        · exact h
      have ih' := ih this
      simp only [keys] at ih' ⊢
      simp [set, h1, ih']

theorem nodup_set {q : Quals} (h : Nodup q) (k : String) (v : List String) : Nodup (set q k v) := by
  unfold Nodup at *
  by_cases hk : k ∈ keys q
  · rw [keys_set_mem q k v hk]; exact h
  · rw [set_not_mem q k v hk]
    simp only [keys, List.map_append, List.map_cons, List.map_nil]
    rw [List.nodup_append]
    refine ⟨h, by simp, ?_⟩
    intro a ha b hb
    simp only [List.mem_singleton] at hb
    subst hb
    intro e; subst e; exact hk ha

theorem nodup_update {q : Quals} (h : Nodup q) (o : Quals) : Nodup (update q o) := by
  unfold update
  induction o generalizing q with
  | nil => exact h
  | cons e rest ih => exact ih (nodup_set h e.1 e.2)

/-- `{}.update(o)` is `o` itself -/
theorem update_disjoint (o : Quals) : ∀ q : Quals, Nodup o → (∀ k ∈ keys o, k ∉ keys q) → update q o = q ++ o := by
  induction o with
  | nil => intro q _ _; simp [update]
  | cons e rest ih =>
    intro q hn hd
    obtain ⟨k, v⟩ := e
    have hk : k ∉ keys q := hd k (by simp [keys])
    have hn' : Nodup rest := (List.nodup_cons.1 hn).2
    have hkr : k ∉ keys rest := (List.nodup_cons.1 hn).1
    have : update q ((k, v) :: rest) = update (set q k v) rest := rfl
    rw [this, set_not_mem q k v hk, ih (q ++ [(k, v)]) hn']
    · simp
    · intro k2 hk2 hm
      simp only [keys, List.map_append, List.mem_append, List.map_cons, List.map_nil, List.mem_singleton] at hm
      rcases hm with hm | hm
      · exact hd k2 (by simp only [keys, List.map_cons, List.mem_cons]; exact Or.inr hk2) hm
      · subst hm; exact hkr hk2

theorem update_nil (o : Quals) (h : Nodup o) : update [] o = o := by
  simpa using update_disjoint o [] h (by simp [keys])

theorem get?_some_iff {q : Quals} (h : Nodup q) (k : String) (v : List String) : get? q k = some v ↔ (k, v) ∈ q := by
  induction q with
  | nil => simp [get?]
  | cons e rest ih =>
    obtain ⟨k', v'⟩ := e
    have hn := List.nodup_cons.1 h
    by_cases h1 : k' = k
    · subst h1
      simp only [get?, if_true, Option.some.injEq, List.mem_cons, Prod.mk.injEq, true_and]
      constructor
      · intro e; exact Or.inl e.symm
      · intro hm
        rcases hm with hm | hm
        · exact hm.symm
        · exact absurd (List.mem_map.2 ⟨(k', v), hm, rfl⟩) hn.1
    · simp only [get?, h1, if_false, List.mem_cons, Prod.mk.injEq]
      rw [ih hn.2]
      constructor
      · intro hm; exact Or.inr hm
      · intro hm
        rcases hm with hm | hm
        · exact absurd hm.1.symm h1
        · exact hm

/-! ### `sorted(d.items())` -/

theorem insertKey_perm (e : String × List String) (q : Quals) : (insertKey e q).Perm (e :: q) := by
  induction q with
  | nil => exact List.Perm.refl _
  | cons y ys ih =>
    unfold insertKey
    by_cases h : e.1 < y.1
    · simp [h]
    · simp only [h, if_false]
      exact (List.Perm.cons y ih).trans (List.Perm.swap e y ys)

theorem sortKeys_perm_aux (q acc : Quals) : (q.foldl (fun a e => insertKey e a) acc).Perm (acc ++ q) := by
  induction q generalizing acc with
  | nil => simp
  | cons e rest ih =>
    simp only [List.foldl_cons]
    refine (ih _).trans ?_
    have := (insertKey_perm e acc).append_right rest
    refine this.trans ?_
    simpa using (List.perm_middle (a := e) (l₁ := acc) (l₂ := rest)).symm

theorem sortKeys_perm (q : Quals) : (sortKeys q).Perm q := by
  simpa [sortKeys] using sortKeys_perm_aux q []

theorem nodup_sortKeys {q : Quals} (h : Nodup q) : Nodup (sortKeys q) := by
  unfold Nodup keys at *
  exact ((sortKeys_perm q).map _).nodup_iff.2 h

theorem get?_perm {q q' : Quals} (hp : q.Perm q') (h : Nodup q) (k : String) : get? q k = get? q' k := by
  have h' : Nodup q' := by unfold Nodup keys at *; exact (hp.map _).nodup_iff.1 h
  cases hg : get? q k with
  | none =>
    have := (get?_none_iff q k).1 hg
    have hk : k ∉ keys q' := fun m => this (by unfold keys at *; exact ((hp.map _).mem_iff).2 m)
    exact ((get?_none_iff q' k).2 hk).symm
  | some v =>
    have := (get?_some_iff h k v).1 hg
    exact ((get?_some_iff h' k v).2 (hp.mem_iff.1 this)).symm

theorem get?_sortKeys {q : Quals} (h : Nodup q) (k : String) : get? (sortKeys q) k = get? q k :=
  get?_perm (sortKeys_perm q) (nodup_sortKeys h) k

/-! ### canonical forms -/

def ltKey (a b : String × List String) : Bool := decide (a.1 < b.1)
def ltStr (a b : String) : Bool := decide (a < b)

theorem swo_ltKey : SWO ltKey (fun _ => True) := by
  constructor
  · intro a b _ _ h
    simp only [ltKey, decide_eq_true_eq, decide_eq_false_iff_not] at *
    exact String.lt_asymm h
  · intro a b c _ _ _ h1 h2
    simp only [ltKey, decide_eq_false_iff_not, String.not_lt] at *
    exact String.le_trans h2 h1

theorem swo_ltStr : SWO ltStr (fun _ => True) := by
  constructor
  · intro a b _ _ h
    simp only [ltStr, decide_eq_true_eq, decide_eq_false_iff_not] at *
    exact String.lt_asymm h
  · intro a b c _ _ _ h1 h2
    simp only [ltStr, decide_eq_false_iff_not, String.not_lt] at *
    exact String.le_trans h2 h1

theorem eqv_ltKey (a b : String × List String) : eqv ltKey a b = true ↔ a.1 = b.1 := by
  simp only [eqv, ltKey, Bool.and_eq_true, Bool.not_eq_true', decide_eq_false_iff_not, String.not_lt]
  constructor
  · intro h; exact String.le_antisymm h.2 h.1
  · intro h; rw [h]; exact ⟨String.le_refl _, String.le_refl _⟩

theorem eqv_ltStr (a b : String) : eqv ltStr a b = true ↔ a = b := by
  simp only [eqv, ltStr, Bool.and_eq_true, Bool.not_eq_true', decide_eq_false_iff_not, String.not_lt]
  constructor
  · intro h; exact String.le_antisymm h.2 h.1
  · intro h; rw [h]; exact ⟨String.le_refl _, String.le_refl _⟩

/-- inserting into a sorted list keeps it sorted (any strict weak order, linear insertion) -/
theorem sorted_insertGen {α : Type} {lt : α → α → Bool} (h : SWO lt (fun _ => True))
    (ins : α → List α → List α)
    (hins : ∀ e y ys, ins e (y :: ys) = if lt e y then e :: y :: ys else y :: ins e ys)
    (hnil : ∀ e, ins e [] = [e]) (hperm : ∀ e l, (ins e l).Perm (e :: l)) (e : α) :
    ∀ l, Sorted lt l → Sorted lt (ins e l) := by
  intro l
  induction l with
  | nil => intro _; rw [hnil]; simp [Sorted]
  | cons y ys ih =>
    intro hs
    have hs' := List.pairwise_cons.1 hs
    rw [hins]
    cases hey : lt e y
    · simp only [Bool.false_eq_true, if_false]
      unfold Sorted at *
      rw [List.pairwise_cons]
      refine ⟨?_, ih hs'.2⟩
      intro b hb
      rcases List.mem_cons.1 ((hperm e ys).mem_iff.1 hb) with rfl | hb
      · exact hey
      · exact hs'.1 b hb
    · simp only [if_true]
      unfold Sorted at *
      rw [List.pairwise_cons]
      refine ⟨?_, hs⟩
      intro b hb
      rcases List.mem_cons.1 hb with rfl | hb
      · exact h.asymm e b trivial trivial hey
      · exact h.negTrans b y e trivial trivial trivial (hs'.1 b hb) (h.asymm e y trivial trivial hey)

theorem insertKey_eq (e y : String × List String) (ys : Quals) :
    insertKey e (y :: ys) = if ltKey e y then e :: y :: ys else y :: insertKey e ys := by
  simp only [insertKey, ltKey]
  by_cases h : e.1 < y.1 <;> simp [h]

theorem sortKeys_sorted_aux (q acc : Quals) (h : Sorted ltKey acc) : Sorted ltKey (q.foldl (fun a e => insertKey e a) acc) := by
  induction q generalizing acc with
  | nil => exact h
  | cons e rest ih =>
    exact ih _ (sorted_insertGen swo_ltKey insertKey insertKey_eq (fun _ => rfl) insertKey_perm e acc h)

theorem sortKeys_sorted (q : Quals) : Sorted ltKey (sortKeys q) :=
  sortKeys_sorted_aux q [] (by simp [Sorted])

theorem filter_key {q : Quals} (h : Nodup q) (k : String) :
    q.filter (fun b => decide (k = b.1)) = match get? q k with | some v => [(k, v)] | none => [] := by
  induction q with
  | nil => simp [get?]
  | cons e rest ih =>
    obtain ⟨k', v'⟩ := e
    have hn := List.nodup_cons.1 h
    by_cases h1 : k' = k
    · subst h1
      have hnone : get? rest k' = none := (get?_none_iff rest k').2 hn.1
      have := ih hn.2
      rw [hnone] at this
      simp [List.filter_cons, get?, this]
    · have h1' : ¬ k = k' := fun e => h1 e.symm
      simp only [List.filter_cons, h1', decide_false, Bool.false_eq_true, if_false, get?, h1]
      exact ih hn.2

/-- two dictionaries with the same lookups are written identically -/
theorem sortKeys_congr {q q' : Quals} (h : Nodup q) (h' : Nodup q') (he : ∀ k, get? q k = get? q' k) :
    sortKeys q = sortKeys q' := by
  apply sorted_unique swo_ltKey _ _ (fun _ _ => trivial) (fun _ _ => trivial) (sortKeys_sorted q) (sortKeys_sorted q')
  intro a _
  have e1 : ∀ l : Quals, l.filter (eqv ltKey a) = l.filter (fun b => decide (a.1 = b.1)) := by
    intro l; congr 1; funext b
    by_cases hb : a.1 = b.1
    · simp [(eqv_ltKey a b).2 hb, hb]
    · have : eqv ltKey a b = false := by
        cases hx : eqv ltKey a b
        · rfl
        · exact absurd ((eqv_ltKey a b).1 hx) hb
      simp [this, hb]
  rw [e1, e1, filter_key (nodup_sortKeys h), filter_key (nodup_sortKeys h'), get?_sortKeys h, get?_sortKeys h', he]

end Q

/-! ### `sorted(notes)` -/

theorem insertStr_perm (x : String) (l : List String) : (insertStr x l).Perm (x :: l) := by
  induction l with
  | nil => exact List.Perm.refl _
  | cons y ys ih =>
    unfold insertStr
    by_cases h : x < y
    · simp [h]
    · simp only [h, if_false]
      exact (List.Perm.cons y ih).trans (List.Perm.swap x y ys)

theorem sortStrs_perm_aux (l acc : List String) : (l.foldl (fun a x => insertStr x a) acc).Perm (acc ++ l) := by
  induction l generalizing acc with
  | nil => simp
  | cons e rest ih =>
    simp only [List.foldl_cons]
    refine (ih _).trans ?_
    have := (insertStr_perm e acc).append_right rest
    refine this.trans ?_
    simpa using (List.perm_middle (a := e) (l₁ := acc) (l₂ := rest)).symm

theorem sortStrs_perm (l : List String) : (sortStrs l).Perm l := by
  simpa [sortStrs] using sortStrs_perm_aux l []

theorem insertStr_eq (e y : String) (ys : List String) :
    insertStr e (y :: ys) = if Q.ltStr e y then e :: y :: ys else y :: insertStr e ys := by
  simp only [insertStr, Q.ltStr]
  by_cases h : e < y <;> simp [h]

theorem sortStrs_sorted_aux (l acc : List String) (h : Sorted Q.ltStr acc) :
    Sorted Q.ltStr (l.foldl (fun a x => insertStr x a) acc) := by
  induction l generalizing acc with
  | nil => exact h
  | cons e rest ih =>
    exact ih _ (Q.sorted_insertGen Q.swo_ltStr insertStr insertStr_eq (fun _ => rfl) insertStr_perm e acc h)

theorem sortStrs_sorted (l : List String) : Sorted Q.ltStr (sortStrs l) :=
  sortStrs_sorted_aux l [] (by simp [Sorted])

theorem eq_of_perm_of_all_eq {α : Type} (a : α) : ∀ (l l' : List α), l.Perm l' → (∀ x ∈ l, x = a) → l = l' := by
  intro l l' hp hall
  have hall' : ∀ x ∈ l', x = a := fun x hx => hall x (hp.mem_iff.2 hx)
  have e1 : l = List.replicate l.length a := List.eq_replicate_iff.2 ⟨rfl, hall⟩
  have e2 : l' = List.replicate l'.length a := List.eq_replicate_iff.2 ⟨rfl, hall'⟩
  rw [e1, e2, hp.length_eq]

/-- the sorted notes depend only on which notes there are -/
theorem sortStrs_congr {l l' : List String} (hp : l.Perm l') : sortStrs l = sortStrs l' := by
  apply sorted_unique Q.swo_ltStr _ _ (fun _ _ => trivial) (fun _ _ => trivial) (sortStrs_sorted l) (sortStrs_sorted l')
  intro a _
  have hperm : (sortStrs l).Perm (sortStrs l') := (sortStrs_perm l).trans (hp.trans (sortStrs_perm l').symm)
  apply eq_of_perm_of_all_eq a _ _ (hperm.filter _)
  intro x hx
  exact ((Q.eqv_ltStr a x).1 (List.mem_filter.1 hx).2).symm

theorem sortStrs_idem (l : List String) : sortStrs (sortStrs l) = sortStrs l :=
  sortStrs_congr (sortStrs_perm l)

end ASV.Serial
