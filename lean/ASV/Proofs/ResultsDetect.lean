/-
  C11 helper lemmas, part 2: rule-based detection results (sets as sorted lists, integers as text,
  protoclusters as features, RuleDetectionResults, HMMDetectionResults).
-/
import ASV.Proofs.Results
import ASV.Proofs.ResultsOther
namespace ASV.Results
open ASV

/-! ### `int(str(i)) = i` -/

theorem natChars_all_digit (n : Nat) : (natChars n).all Char.isDigit = true := by
  simp only [natChars, List.all_eq_true]
  intro c hc
  exact Nat.isDigit_of_mem_toDigits (by decide) (by decide) hc

theorem natChars_ne_nil (n : Nat) : natChars n ≠ [] := Nat.toDigits_ne_nil

theorem natChars_head_ne_minus (n : Nat) : ∀ c rest, natChars n = c :: rest → c ≠ '-' := by
  intro c rest h hc
  have := natChars_all_digit n
  rw [h] at this
  simp only [List.all_cons, Bool.and_eq_true] at this
  rw [hc] at this
  exact absurd this.1 (by decide)

theorem parseInt_natChars (n : Nat) : parseInt (natChars n) = some (n : Int) := by
  have hne := natChars_ne_nil n
  have hd := natChars_all_digit n
  cases h : natChars n with
  | nil => exact absurd h hne
  | cons c rest =>
    have hc := natChars_head_ne_minus n c rest h
    have hval : Nat.ofDigitChars 10 (c :: rest) 0 = n := by
      rw [← h]; exact Nat.ofDigitChars_ten_toDigits
    rw [h] at hd
    unfold parseInt
    split
    · rename_i heq; cases heq
    · rename_i ds heq
      cases heq
      exact absurd rfl hc
    · rename_i ds hnil hminus
      simp [hd, hval]

theorem parseInt_intChars (i : Int) : parseInt (intChars i) = some i := by
  unfold intChars
  split
  · rename_i hneg
    have hne := natChars_ne_nil i.natAbs
    have hd := natChars_all_digit i.natAbs
    have hval : Nat.ofDigitChars 10 (natChars i.natAbs) 0 = i.natAbs := Nat.ofDigitChars_ten_toDigits
    simp only [parseInt]
    have : (natChars i.natAbs).isEmpty = false := by
      cases h : natChars i.natAbs with
      | nil => exact absurd h hne
      | cons _ _ => rfl
    simp [this, hd, hval]
    omega
  · rename_i hpos
    rw [parseInt_natChars]
    congr 1
    omega

@[simp] theorem strInt_intStr (i : Int) : strInt (intStr i) = some i := by
  simp [strInt, intStr, parseInt_intChars]

/-! ### sets of strings as strictly ascending lists -/

theorem setOf_of_strictAsc : ∀ l : List String, strictAsc l = true → setOf l = l
  | [], _ => rfl
  | [x], _ => rfl
  | x :: y :: rest, h => by
    simp only [strictAsc, Bool.and_eq_true, decide_eq_true_eq] at h
    have ih := setOf_of_strictAsc (y :: rest) h.2
    show insertS x (setOf (y :: rest)) = x :: y :: rest
    rw [ih]
    simp [insertS, h.1]

/-! ### SecMet domains and CDSResults -/

@[simp] theorem SDomain.fromJson_toJson (d : SDomain) : SDomain.fromJson d.toJson = .reuse d := by
  cases d; rfl

theorem CdsRes.defItem_roundtrip (p : String × List String) (h : strictAsc p.2 = true) :
    CdsRes.defItem (p.1, jStrs (setOf p.2)) = .reuse p := by
  simp [CdsRes.defItem, setOf_of_strictAsc p.2 h]

theorem CdsRes.fromJson_toJson (ctx : Ctx) (c : CdsRes) (hv : c.valid ctx = true) :
    CdsRes.fromJson ctx c.toJson = .reuse c := by
  simp only [CdsRes.valid, Bool.and_eq_true, List.all_eq_true, Bool.not_eq_true'] at hv
  obtain ⟨⟨hname, hdom⟩, hdefs⟩ := hv
  have h1 := mapO_map SDomain.toJson SDomain.fromJson c.domains (fun d _ => SDomain.fromJson_toJson d)
  have h2 := mapO_map (fun p : String × List String => (p.1, jStrs (setOf p.2))) CdsRes.defItem c.defDomains
    (fun p hp => CdsRes.defItem_roundtrip p (hdefs p hp))
  have hname' : c.cdsName ∈ ctx.cdsNames := by simpa using hname
  have hdom' : ¬ c.domains = [] := by
    intro h; rw [h] at hdom; simp at hdom
  simp [CdsRes.toJson, CdsRes.fromJson, lookup, reqArr, reqStr, reqObj, h1, h2, hname', hdom']

/-! ### protoclusters as serialised features -/

theorem Proto.fromJson_toJson (p : Proto) (hv : p.valid = true) :
    Proto.fromJson p.toJson = .reuse p.detach := by
  simp only [Proto.valid, Bool.and_eq_true, Bool.not_eq_true'] at hv
  obtain ⟨⟨hl, hc⟩, hctor⟩ := hv
  have hloc : locFromString (locToString p.loc) = some p.loc :=
    locFromString_locToString p.loc (by intro h; rw [h] at hl; simp at hl)
  have hcore : locFromString (locToString p.core) = some p.core :=
    locFromString_locToString p.core (by intro h; rw [h] at hc; simp at hc)
  have hctor' : Proto.ctorOk p.loc p.core p.product = .reuse () := by
    cases h : Proto.ctorOk p.loc p.core p.product with
    | reuse u => rfl
    | discard => rw [h] at hctor; simp [Outcome.isReuse] at hctor
    | refuse e => rw [h] at hctor; simp [Outcome.isReuse] at hctor
  cases p with
  | mk loc core tool product cutoff nbh rule category number edge =>
    simp only at hloc hcore hctor'
    by_cases hcat : category.isEmpty <;> cases number <;> cases edge <;>
      simp [Proto.toJson, Proto.fromJson, Proto.qual, Proto.q1, Proto.detach, lookup, reqStr, reqObj,
            hloc, hcore, hctor', hcat] <;>
      (rw [String.isEmpty_iff] at hcat; simp [hcat])

/-- once the record has numbered the regenerated protocluster again, it writes the same feature -/
theorem Proto.toJson_attach_detach (p : Proto) (n : Int) (e : Bool)
    (hn : p.number = some n) (he : p.contigEdge = some e) :
    (p.detach.attach n e).toJson = p.toJson := by
  cases p; simp_all [Proto.detach, Proto.attach]

theorem Proto.detach_valid (p : Proto) (h : p.valid = true) : p.detach.valid = true := by
  simpa [Proto.valid, Proto.detach] using h

theorem Proto.detach_detach (p : Proto) : p.detach.detach = p.detach := rfl

/-! ### RuleDetectionResults -/

theorem RuleRes.pair_roundtrip (ctx : Ctx) (p : Proto × List CdsRes)
    (h1 : p.1.valid = true) (h2 : ∀ c ∈ p.2, CdsRes.valid ctx c = true) :
    RuleRes.pairFromJson ctx (.arr [p.1.toJson, .arr (p.2.map CdsRes.toJson)]) = .reuse (p.1.detach, p.2) := by
  have hc := mapO_map CdsRes.toJson (CdsRes.fromJson ctx) p.2 (fun c hc => CdsRes.fromJson_toJson ctx c (h2 c hc))
  simp [RuleRes.pairFromJson, Proto.fromJson_toJson p.1 h1, hc]

theorem RuleRes.fromJson_toJson (ctx : Ctx) (x : RuleRes) (hv : x.valid ctx = true) :
    RuleRes.fromJson ctx x.toJson = .reuse x.detach := by
  simp only [RuleRes.valid, Bool.and_eq_true, List.all_eq_true] at hv
  obtain ⟨⟨⟨hcl, hout⟩, hc⟩, hn⟩ := hv
  have h1 := mapO_map' (fun p : Proto × List CdsRes => J.arr [p.1.toJson, .arr (p.2.map CdsRes.toJson)])
    (RuleRes.pairFromJson ctx) (fun p => (p.1.detach, p.2)) x.byCluster
    (fun p hp => RuleRes.pair_roundtrip ctx p (hcl p hp).1 (hcl p hp).2)
  have h2 := mapO_map CdsRes.toJson (CdsRes.fromJson ctx) x.outside (fun c hc => CdsRes.fromJson_toJson ctx c (hout c hc))
  have hc' : Dec.le x.cutoffMult Dec.zero = false := by rw [Dec.le_eq_not_lt, hc]; rfl
  have hn' : Dec.le x.neighMult Dec.zero = false := by rw [Dec.le_eq_not_lt, hn]; rfl
  simp [RuleRes.toJson, RuleRes.fromJson, RuleRes.multFromJson, RuleRes.detach, lookup, reqArr, reqStr, reqObj,
        isIntLit, RuleRes.schemaVersion, h1, h2, hc', hn']

theorem RuleRes.detach_valid (ctx : Ctx) (x : RuleRes) (h : x.valid ctx = true) : x.detach.valid ctx = true := by
  simp only [RuleRes.valid, RuleRes.detach, Bool.and_eq_true, List.all_eq_true] at h ⊢
  refine ⟨⟨⟨?_, h.1.1.2⟩, h.1.2⟩, h.2⟩
  intro p hp
  simp only [List.mem_map] at hp
  obtain ⟨q, hq, rfl⟩ := hp
  exact ⟨Proto.detach_valid q.1 (h.1.1.1 q hq).1, (h.1.1.1 q hq).2⟩

theorem RuleRes.detach_detach (x : RuleRes) : x.detach.detach = x.detach := by
  simp [RuleRes.detach, Proto.detach]

/-! ### HMMDetectionResults -/

theorem HmmDet.fromJson_toJson (ctx : Ctx) (x : HmmDet) (hv : x.valid ctx = true) :
    HmmDet.fromJson ctx x.toJson = .reuse { x with rules := x.rules.detach } := by
  simp only [HmmDet.valid, Bool.and_eq_true, beq_iff_eq] at hv
  obtain ⟨⟨hid, hrules⟩, hstrict⟩ := hv
  have hr := RuleRes.fromJson_toJson ctx x.rules hrules
  cases x with
  | mk rid rules et strictness =>
    simp only at hid hr hstrict; subst hid
    have hs : strictness ∈ strictnessLevels := by simpa using hstrict
    simp [HmmDet.toJson, HmmDet.fromJson, HmmDet.enabledOf, HmmDet.strictnessOf, lookup, isIntLit, isStrLit, HmmDet.schemaVersion, hr, hs]

end ASV.Results
