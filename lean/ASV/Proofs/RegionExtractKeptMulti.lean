/-
  C12: nothing inside the region is left out — origin-spanning features with any number of exons on each side of
  the origin (in transcription order, `ringOrdered`) inside a region over the origin pass the loop that gathers
  them: `offset_location` turns them into one ascending (forward) or descending (reverse) run of parts inside
  the region file, which neither sticks out of the file nor still looks origin-spanning.
-/
import ASV.Proofs.RegionExtractKept
import ASV.Proofs.LocOffsetGeneral
set_option linter.unusedSimpArgs false
namespace ASV.RegionExtract
open ASV

theorem ofParts_parts (ps : List Part) : (Loc.ofParts ps).parts = ps := by
  unfold Loc.ofParts
  split <;> simp [Loc.parts]

theorem mem_takeWhile_sat {α} (p : α → Bool) : ∀ (l : List α) (x : α), x ∈ l.takeWhile p → p x = true
  | [], _, h => by simp at h
  | a :: l, x, h => by
    rw [List.takeWhile_cons] at h
    split at h
    · rcases List.mem_cons.1 h with rfl | h
      · assumption
      · exact mem_takeWhile_sat p l x h
    · simp at h

theorem ascParts_iff : ∀ l : List Part, ascParts l = true ↔ l.Pairwise (fun p q => p.hi ≤ q.lo)
  | [] => by simp [ascParts]
  | p :: rest => by
    simp only [ascParts, Bool.and_eq_true, List.all_eq_true, decide_eq_true_eq, List.pairwise_cons, ascParts_iff rest]

theorem flatMap_singleton {α β} (g : α → List β) (h : α → β) : ∀ ps : List α, (∀ p ∈ ps, g p = [h p]) →
    ps.flatMap g = ps.map h
  | [], _ => rfl
  | p :: ps, hp => by
    simp only [List.flatMap_cons, List.map_cons, hp p (by simp), flatMap_singleton g h ps (fun q hq => hp q (by simp [hq]))]
    rfl

theorem strand_parts (l : Loc) (s : Strand) (hs : l.strand = s) (hn : s ≠ .none) : ∀ p ∈ l.parts, p.strand = s := by
  cases l with
  | simple q => intro p hp; simp [Loc.parts] at hp; subst hp; exact hs
  | compound ps =>
    cases ps with
    | nil => simp [Loc.strand] at hs; exact absurd hs.symm hn
    | cons q qs =>
      simp only [Loc.strand] at hs
      split at hs
      · rename_i hall
        intro p hp
        simp only [Loc.parts, List.mem_cons] at hp
        rcases hp with rfl | hp
        · exact hs
        · have := (List.all_eq_true.1 hall) p hp
          rw [beq_iff_eq] at this
          rw [this]; exact hs
      · exact absurd hs.symm hn

/-- merging an ascending run: succeeds, the result is an ascending run of non-empty parts below the same bound -/
theorem mergeAdjacent_asc (s : Strand) (bound : Int) : ∀ (rest more : List Part) (previous m : Part),
    m.hi = previous.hi → previous.strand = s →
    (m :: more).Pairwise (fun a b => b.hi ≤ a.lo) →
    (∀ p ∈ m :: more, p.lo < p.hi ∧ p.hi ≤ bound ∧ p.strand = s) →
    rest.Pairwise (fun p q => p.hi ≤ q.lo) →
    (∀ q ∈ rest, previous.hi ≤ q.lo ∧ q.lo < q.hi ∧ q.hi ≤ bound ∧ q.strand = s) →
    ∃ out, mergeAdjacent (m :: more) previous rest = .ok out ∧ out ≠ [] ∧
      out.Pairwise (fun p q => p.hi ≤ q.lo) ∧ ∀ p ∈ out, p.lo < p.hi ∧ p.hi ≤ bound ∧ p.strand = s
  | [], more, previous, m, _, _, hpw, hall, _, _ => by
    refine ⟨(m :: more).reverse, rfl, by simp, ?_, ?_⟩
    · rw [List.pairwise_reverse]; exact hpw
    · intro p hp; exact hall p (List.mem_reverse.1 hp)
  | part :: rest, more, previous, m, hm, hps, hpw, hall, hrest, hq => by
    obtain ⟨hq1, hq2, hq3, hq4⟩ := hq part (by simp)
    obtain ⟨hr1, hr2⟩ := List.pairwise_cons.1 hrest
    have hm' := hall m (by simp)
    unfold mergeAdjacent
    by_cases hadj : previous.hi = part.lo
    · have hst : (previous.strand != part.strand) = false := by simp [hps, hq4]
      simp only [hadj, if_true, hst, Bool.false_eq_true, if_false]
      apply mergeAdjacent_asc s bound rest more part ⟨m.lo, part.hi, part.strand⟩ rfl hq4
      · obtain ⟨hp1, hp2⟩ := List.pairwise_cons.1 hpw
        exact List.pairwise_cons.2 ⟨hp1, hp2⟩
      · intro p hp
        rcases List.mem_cons.1 hp with rfl | hp
        · exact ⟨by simp only; omega, hq3, hq4⟩
        · exact hall p (by simp [hp])
      · exact hr2
      · intro q hqm
        obtain ⟨_, h2, h3, h4⟩ := hq q (by simp [hqm])
        exact ⟨hr1 q hqm, h2, h3, h4⟩
    · simp only [hadj, if_false]
      apply mergeAdjacent_asc s bound rest (m :: more) part part rfl hq4
      · refine List.pairwise_cons.2 ⟨?_, hpw⟩
        intro b hb
        rcases List.mem_cons.1 hb with rfl | hb
        · omega
        · have := (List.pairwise_cons.1 hpw).1 b hb
          omega
      · intro p hp
        rcases List.mem_cons.1 hp with rfl | hp
        · exact ⟨hq2, hq3, hq4⟩
        · exact hall p hp
      · exact hr2
      · intro q hqm
        obtain ⟨_, h2, h3, h4⟩ := hq q (by simp [hqm])
        exact ⟨hr1 q hqm, h2, h3, h4⟩

/-- merging a descending run of non-empty parts: nothing abuts, the run comes back as it is -/
theorem mergeAdjacent_desc : ∀ (rest mergedRev : List Part) (previous : Part),
    previous.lo < previous.hi →
    rest.Pairwise (fun p q => q.hi ≤ p.lo) →
    (∀ q ∈ rest, q.hi ≤ previous.lo ∧ q.lo < q.hi) →
    mergeAdjacent mergedRev previous rest = .ok (mergedRev.reverse ++ rest)
  | [], mergedRev, _, _, _, _ => by simp [mergeAdjacent, pure, Except.pure]
  | part :: rest, mergedRev, previous, hp, hrest, hq => by
    obtain ⟨hq1, hq2⟩ := hq part (by simp)
    obtain ⟨hr1, hr2⟩ := List.pairwise_cons.1 hrest
    have hadj : ¬ previous.hi = part.lo := by omega
    unfold mergeAdjacent
    simp only [hadj, if_false]
    rw [mergeAdjacent_desc rest (part :: mergedRev) part hq2 hr2 (fun q hqm => ⟨hr1 q hqm, (hq q (by simp [hqm])).2⟩)]
    simp

theorem orderInvalid_asc : ∀ ps : List Part, ps.Pairwise (fun p q => p.hi ≤ q.lo) → (∀ p ∈ ps, p.lo < p.hi) →
    orderInvalid false ps = false
  | [], _, _ => rfl
  | [_], _, _ => rfl
  | p :: q :: rest, hpw, hne => by
    obtain ⟨h1, h2⟩ := List.pairwise_cons.1 hpw
    have := h1 q (by simp)
    have := hne p (by simp)
    simp only [orderInvalid, Bool.false_eq_true, if_false, Bool.or_eq_false_iff, decide_eq_false_iff_not]
    exact ⟨by omega, orderInvalid_asc (q :: rest) h2 (fun x hx => hne x (by simp [hx]))⟩

theorem orderInvalid_desc : ∀ ps : List Part, ps.Pairwise (fun p q => q.hi ≤ p.lo) → (∀ p ∈ ps, p.lo < p.hi) →
    orderInvalid true ps = false
  | [], _, _ => rfl
  | [_], _, _ => rfl
  | p :: q :: rest, hpw, hne => by
    obtain ⟨h1, h2⟩ := List.pairwise_cons.1 hpw
    have := h1 q (by simp)
    have := hne q (by simp)
    simp only [orderInvalid, if_true, Bool.or_eq_false_iff, decide_eq_false_iff_not]
    exact ⟨by omega, orderInvalid_desc (q :: rest) h2 (fun x hx => hne x (by simp [hx]))⟩

/-- a run of parts of one strand in transcription order does not look origin-spanning -/
theorem bridges_ofParts_run (ps : List Part) (hne : ps ≠ []) (hpos : ∀ p ∈ ps, p.lo < p.hi)
    (h : (ps.Pairwise (fun p q => p.hi ≤ q.lo) ∧ ∀ p ∈ ps, p.strand = .fwd) ∨
         (ps.Pairwise (fun p q => q.hi ≤ p.lo) ∧ ∀ p ∈ ps, p.strand = .rev)) :
    bridgesOrigin (Loc.ofParts ps) = false := by
  match ps, hne with
  | [p], _ => rfl
  | p :: q :: rest, _ =>
    show bridgesOrigin (Loc.compound (p :: q :: rest)) = false
    rcases h with ⟨hpw, hs⟩ | ⟨hpw, hs⟩
    · have hst : (Loc.compound (p :: q :: rest)).strand = .fwd := strand_of_parts _ _ (by simp [Loc.parts]) hs
      simp only [bridgesOrigin, hst]
      exact orderInvalid_asc _ hpw hpos
    · have hst : (Loc.compound (p :: q :: rest)).strand = .rev := strand_of_parts _ _ (by simp [Loc.parts]) hs
      simp only [bridgesOrigin, hst]
      exact orderInvalid_desc _ hpw hpos

/-- the tail of `offset_location` on an ascending run of forward parts inside `[0, n]`: one location that neither
    reaches beyond `n` nor looks origin-spanning -/
theorem finish_asc (L n : Int) (hnL : n ≤ L) (P : List Part) (hne : P ≠ [])
    (hpw : P.Pairwise (fun p q => p.hi ≤ q.lo))
    (hall : ∀ p ∈ P, 0 ≤ p.lo ∧ p.lo < p.hi ∧ p.hi ≤ n ∧ p.strand = .fwd) :
    ∃ r, finishOffset L P = .ok r ∧ bridgesOrigin r = false ∧ r.end ≤ n := by
  have hin : ∀ p ∈ P, PartIn L p := fun p hp => by
    obtain ⟨h1, h2, h3, _⟩ := hall p hp; exact ⟨h1, h2, by omega⟩
  match P, hne with
  | first :: rest, _ =>
    obtain ⟨h1, h2⟩ := List.pairwise_cons.1 hpw
    obtain ⟨out, hout, hone, hopw, hoall⟩ := mergeAdjacent_asc .fwd n rest [] first first rfl (hall first (by simp)).2.2.2
      (by simp) (by intro p hp; simp at hp; subst hp; obtain ⟨_, a, b, c⟩ := hall p (by simp); exact ⟨a, b, c⟩) h2
      (fun q hq => by obtain ⟨_, a, b, c⟩ := hall q (by simp [hq]); exact ⟨h1 q hq, a, b, c⟩)
    refine ⟨Loc.ofParts out, ?_, ?_, ?_⟩
    · unfold finishOffset
      simp only [allIn_of L _ hin, Bool.not_true, Bool.false_eq_true, if_false, bind, Except.bind, hout, pure, Except.pure]
    · exact bridges_ofParts_run out hone (fun p hp => (hoall p hp).1) (.inl ⟨hopw, fun p hp => (hoall p hp).2.2⟩)
    · apply end_le_of_parts _ _ (by rw [ofParts_parts]; exact hone)
      intro p hp; rw [ofParts_parts] at hp; exact (hoall p hp).2.1

theorem finish_desc (L n : Int) (hnL : n ≤ L) (P : List Part) (hne : P ≠ [])
    (hpw : P.Pairwise (fun p q => q.hi ≤ p.lo))
    (hall : ∀ p ∈ P, 0 ≤ p.lo ∧ p.lo < p.hi ∧ p.hi ≤ n ∧ p.strand = .rev) :
    ∃ r, finishOffset L P = .ok r ∧ bridgesOrigin r = false ∧ r.end ≤ n := by
  have hin : ∀ p ∈ P, PartIn L p := fun p hp => by
    obtain ⟨h1, h2, h3, _⟩ := hall p hp; exact ⟨h1, h2, by omega⟩
  match P, hne with
  | first :: rest, _ =>
    obtain ⟨h1, h2⟩ := List.pairwise_cons.1 hpw
    have hout := mergeAdjacent_desc rest [first] first (hall first (by simp)).2.1 h2
      (fun q hq => ⟨h1 q hq, (hall q (by simp [hq])).2.1⟩)
    refine ⟨Loc.ofParts (first :: rest), ?_, ?_, ?_⟩
    · unfold finishOffset
      simp only [allIn_of L _ hin, Bool.not_true, Bool.false_eq_true, if_false, bind, Except.bind, hout, pure, Except.pure]
      rfl
    · exact bridges_ofParts_run _ (by simp) (fun p hp => (hall p hp).2.1) (.inr ⟨hpw, fun p hp => (hall p hp).2.2.2⟩)
    · apply end_le_of_parts _ _ (by rw [ofParts_parts]; simp)
      intro p hp; rw [ofParts_parts] at hp; exact (hall p hp).2.2.1

/-- `offset_location` by `-st` on a location whose parts are `X ++ Y`, the pieces of `X` and of `Y` each moved as
    a whole -/
theorem offset_pieces (l : Loc) (L st kx ky : Int) (X Y : List Part) (hparts : l.parts = X ++ Y)
    (hX : ∀ p ∈ X, wrapPart L (shiftPart (-st) p) = [shiftPart kx p])
    (hY : ∀ p ∈ Y, wrapPart L (shiftPart (-st) p) = [shiftPart ky p])
    (hpos : ∀ p ∈ l.parts, p.lo < p.hi) (hL : 0 < L) (hk : st ≠ 0) (hlen : l.len ≠ L) (hnt : l.start - st < 0) :
    offsetLocation l (-st) L = finishOffset L (X.map (shiftPart kx) ++ Y.map (shiftPart ky)) := by
  rw [offsetLocation_general l (-st) L _ hL (by omega) hlen (by omega) (shiftedParts_ok l (-st) hpos)]
  congr 1
  have e : (l.parts.map fun p => (⟨p.lo + -st, p.hi + -st, p.strand⟩ : Part)).flatMap (wrapPart L) =
      l.parts.flatMap fun p => wrapPart L (shiftPart (-st) p) := by
    rw [List.flatMap_map]; rfl
  rw [e, hparts, List.flatMap_append, flatMap_singleton _ _ X hX, flatMap_singleton _ _ Y hY]

/-- the pieces of parts before / after the origin of a region over the origin under `offset_location(-start)` -/
theorem piece_pre (rd : RegionData) (L : Int) (he0 : 0 < rd.end) (hes : rd.end ≤ rd.start) (hsL : rd.start < L) (p : Part)
    (hpos : p.lo < p.hi) (h : onPre L rd p = true) :
    wrapPart L (shiftPart (-rd.start) p) = [shiftPart (-rd.start) p] := by
  simp only [onPre, Bool.and_eq_true, decide_eq_true_eq] at h
  exact wrapPart_inside L _ (by simp [shiftPart]; omega) (by simp [shiftPart]; omega) (by simp [shiftPart]; omega)

theorem piece_post (rd : RegionData) (L : Int) (he0 : 0 < rd.end) (hes : rd.end ≤ rd.start) (hsL : rd.start < L) (p : Part)
    (hpos : p.lo < p.hi) (h : onPost rd p = true) :
    wrapPart L (shiftPart (-rd.start) p) = [shiftPart (L - rd.start) p] := by
  simp only [onPost, Bool.and_eq_true, decide_eq_true_eq] at h
  rw [wrapPart_below L _ (by simp [shiftPart]; omega) (by simp [shiftPart]; omega) (by simp [shiftPart]; omega)]
  simp only [shiftPart, List.cons.injEq, Part.mk.injEq, and_true]
  omega

/-- an origin-spanning feature with any number of exons on each side of the origin, in transcription order, inside a
    region over the origin is kept by the loop gathering origin-spanning features -/
theorem crossStep_keeps_multi (rd : RegionData) (L n : Int) (f : BioFeature) (he0 : 0 < rd.end)
    (hes : rd.end ≤ rd.start) (hsL : rd.start < L) (hn : n = L - rd.start + rd.end)
    (hb : bridgesOrigin f.loc = true) (hord : ringOrdered L rd f.loc = true) (hlen : f.loc.len ≠ L) :
    ∃ p g, crossStep rd L n f = .ok (p, some g) ∧ g.tag = f.tag := by
  have hL : 0 < L := by omega
  unfold ringOrdered at hord
  rw [Bool.and_eq_true, List.all_eq_true] at hord
  obtain ⟨hpos', hord⟩ := hord
  have hpos : ∀ p ∈ f.loc.parts, p.lo < p.hi := fun p hp => by simpa using hpos' p hp
  -- what is left to show once `offset_location` is known to give a run inside the file
  have finish : ∀ (s : Strand), (∀ p ∈ f.loc.parts, PartIn L p) → (∀ p ∈ f.loc.parts, p.strand = s) → f.loc.parts ≠ [] →
      (∃ r, offsetLocation f.loc (-rd.start) L = .ok r ∧ bridgesOrigin r = false ∧ r.end ≤ n) →
      ∃ p g, crossStep rd L n f = .ok (p, some g) ∧ g.tag = f.tag := by
    intro s hin hs hne ⟨r, hr, hnb, hend⟩
    obtain ⟨r', hr', _, hrl, _⟩ := offset_rotates_full f.loc (-rd.start) L s hne hin hs (by omega) (by omega) (by omega) hlen
    rw [hr] at hr'
    injection hr' with hr'
    subst hr'
    unfold crossStep
    have hwf : wholeFix L r = r := by simp [wholeFix, hrl, hlen]
    simp only [hb, if_true, hr, hwf, hnb, Bool.or_false, decide_eq_true_eq]
    rw [if_neg (by omega)]
    exact ⟨_, _, rfl, rfl⟩
  cases hst : f.loc.strand with
  | zero => simp [hst] at hord
  | none => simp [hst] at hord
  | fwd =>
    simp only [hst, Bool.and_eq_true, Bool.not_eq_true', List.isEmpty_eq_false_iff, List.all_eq_true, ascParts_iff] at hord
    obtain ⟨⟨⟨⟨hAne, hBne⟩, hBpost⟩, hApw⟩, hBpw⟩ := hord
    have hdec : f.loc.parts = f.loc.parts.takeWhile (onPre L rd) ++ f.loc.parts.dropWhile (onPre L rd) :=
      (List.takeWhile_append_dropWhile).symm
    generalize hA : f.loc.parts.takeWhile (onPre L rd) = A at *
    generalize hB : f.loc.parts.dropWhile (onPre L rd) = B at *
    have hApre : ∀ p ∈ A, onPre L rd p = true := fun p hp => by
      rw [← hA] at hp; exact mem_takeWhile_sat _ _ _ hp
    have hAside : ∀ p ∈ A, rd.start ≤ p.lo ∧ p.hi ≤ L ∧ p.lo < p.hi := fun p hp => by
      have := hApre p hp
      simp only [onPre, Bool.and_eq_true, decide_eq_true_eq] at this
      exact ⟨this.1, this.2, hpos p (by rw [hdec]; simp [hp])⟩
    have hBside : ∀ p ∈ B, 0 ≤ p.lo ∧ p.hi ≤ rd.end ∧ p.lo < p.hi := fun p hp => by
      have := hBpost p hp
      simp only [onPost, Bool.and_eq_true, decide_eq_true_eq] at this
      exact ⟨this.1, this.2, hpos p (by rw [hdec]; simp [hp])⟩
    have hin : ∀ p ∈ f.loc.parts, PartIn L p := fun p hp => by
      rw [hdec] at hp
      rcases List.mem_append.1 hp with hp | hp
      · have := hAside p hp; exact ⟨by omega, this.2.2, this.2.1⟩
      · have := hBside p hp; exact ⟨this.1, this.2.2, by omega⟩
    have hne : f.loc.parts ≠ [] := by rw [hdec]; simp [hAne]
    apply finish .fwd hin (strand_parts _ _ hst (by simp)) hne
    obtain ⟨b0, hb0⟩ := List.exists_mem_of_ne_nil B hBne
    have hnt : f.loc.start - rd.start < 0 := by
      have := (start_le_part f.loc b0 (by rw [hdec]; simp [hb0])).1
      have := hBside b0 hb0
      omega
    rw [offset_pieces f.loc L rd.start (-rd.start) (L - rd.start) A B hdec
      (fun p hp => piece_pre rd L he0 hes hsL p (hAside p hp).2.2 (hApre p hp))
      (fun p hp => piece_post rd L he0 hes hsL p (hBside p hp).2.2 (hBpost p hp)) hpos hL (by omega) hlen hnt]
    apply finish_asc L n (by omega) _ (by simp [hAne])
    · rw [List.pairwise_append, List.pairwise_map, List.pairwise_map]
      refine ⟨hApw.imp (fun h => by simp only [shiftPart]; omega), hBpw.imp (fun h => by simp only [shiftPart]; omega), ?_⟩
      intro a ha b hb
      obtain ⟨a0, ha0, rfl⟩ := List.mem_map.1 ha
      obtain ⟨b1, hb1, rfl⟩ := List.mem_map.1 hb
      have := hAside a0 ha0
      have := hBside b1 hb1
      simp only [shiftPart]; omega
    · intro p hp
      have hfs := strand_parts _ _ hst (by simp)
      rcases List.mem_append.1 hp with hp | hp
      · obtain ⟨a0, ha0, rfl⟩ := List.mem_map.1 hp
        have := hAside a0 ha0
        refine ⟨by simp only [shiftPart]; omega, by simp only [shiftPart]; omega, by simp only [shiftPart]; omega, ?_⟩
        exact hfs a0 (by rw [hdec]; simp [ha0])
      · obtain ⟨b1, hb1, rfl⟩ := List.mem_map.1 hp
        have := hBside b1 hb1
        refine ⟨by simp only [shiftPart]; omega, by simp only [shiftPart]; omega, by simp only [shiftPart]; omega, ?_⟩
        exact hfs b1 (by rw [hdec]; simp [hb1])
  | rev =>
    simp only [hst, Bool.and_eq_true, Bool.not_eq_true', List.isEmpty_eq_false_iff, List.all_eq_true, ascParts_iff,
      List.pairwise_reverse] at hord
    obtain ⟨⟨⟨⟨hAne, hBne⟩, hApre⟩, hApw⟩, hBpw⟩ := hord
    have hdec : f.loc.parts = f.loc.parts.takeWhile (onPost rd) ++ f.loc.parts.dropWhile (onPost rd) :=
      (List.takeWhile_append_dropWhile).symm
    generalize hB : f.loc.parts.takeWhile (onPost rd) = B at *
    generalize hA : f.loc.parts.dropWhile (onPost rd) = A at *
    have hBpost : ∀ p ∈ B, onPost rd p = true := fun p hp => by
      rw [← hB] at hp; exact mem_takeWhile_sat _ _ _ hp
    have hAside : ∀ p ∈ A, rd.start ≤ p.lo ∧ p.hi ≤ L ∧ p.lo < p.hi := fun p hp => by
      have := hApre p hp
      simp only [onPre, Bool.and_eq_true, decide_eq_true_eq] at this
      exact ⟨this.1, this.2, hpos p (by rw [hdec]; simp [hp])⟩
    have hBside : ∀ p ∈ B, 0 ≤ p.lo ∧ p.hi ≤ rd.end ∧ p.lo < p.hi := fun p hp => by
      have := hBpost p hp
      simp only [onPost, Bool.and_eq_true, decide_eq_true_eq] at this
      exact ⟨this.1, this.2, hpos p (by rw [hdec]; simp [hp])⟩
    have hin : ∀ p ∈ f.loc.parts, PartIn L p := fun p hp => by
      rw [hdec] at hp
      rcases List.mem_append.1 hp with hp | hp
      · have := hBside p hp; exact ⟨this.1, this.2.2, by omega⟩
      · have := hAside p hp; exact ⟨by omega, this.2.2, this.2.1⟩
    have hne : f.loc.parts ≠ [] := by rw [hdec]; simp [hBne]
    apply finish .rev hin (strand_parts _ _ hst (by simp)) hne
    obtain ⟨b0, hb0⟩ := List.exists_mem_of_ne_nil B hBne
    have hnt : f.loc.start - rd.start < 0 := by
      have := (start_le_part f.loc b0 (by rw [hdec]; simp [hb0])).1
      have := hBside b0 hb0
      omega
    rw [offset_pieces f.loc L rd.start (L - rd.start) (-rd.start) B A hdec
      (fun p hp => piece_post rd L he0 hes hsL p (hBside p hp).2.2 (hBpost p hp))
      (fun p hp => piece_pre rd L he0 hes hsL p (hAside p hp).2.2 (hApre p hp)) hpos hL (by omega) hlen hnt]
    apply finish_desc L n (by omega) _ (by simp [hBne])
    · rw [List.pairwise_append, List.pairwise_map, List.pairwise_map]
      refine ⟨hBpw.imp (fun h => by simp only [shiftPart]; omega), hApw.imp (fun h => by simp only [shiftPart]; omega), ?_⟩
      intro b hb a ha
      obtain ⟨a0, ha0, rfl⟩ := List.mem_map.1 ha
      obtain ⟨b1, hb1, rfl⟩ := List.mem_map.1 hb
      have := hAside a0 ha0
      have := hBside b1 hb1
      simp only [shiftPart]; omega
    · intro p hp
      have hfs := strand_parts _ _ hst (by simp)
      rcases List.mem_append.1 hp with hp | hp
      · obtain ⟨b1, hb1, rfl⟩ := List.mem_map.1 hp
        have := hBside b1 hb1
        refine ⟨by simp only [shiftPart]; omega, by simp only [shiftPart]; omega, by simp only [shiftPart]; omega, ?_⟩
        exact hfs b1 (by rw [hdec]; simp [hb1])
      · obtain ⟨a0, ha0, rfl⟩ := List.mem_map.1 hp
        have := hAside a0 ha0
        refine ⟨by simp only [shiftPart]; omega, by simp only [shiftPart]; omega, by simp only [shiftPart]; omega, ?_⟩
        exact hfs a0 (by rw [hdec]; simp [ha0])

/-- every feature inside the region (in the spec's sense) is written; an origin-spanning feature inside a region
    over the origin has one part on each side of the origin, or any number of parts in transcription order
    (`ringOrdered`) and is not as long as the record -/
theorem written_contains_inside_multi (rd : RegionData) (rec : BioRecord) (w : Written) (h : writeToGenbank rd rec = .ok w)
    (hreg : rd.crossesOrigin = true → 0 < rd.end ∧ rd.start < rec.length)
    (f : BioFeature) (hf : f ∈ rec.features) (hne : f.loc.parts ≠ [])
    (hin : insideRegion rec.length rd f.loc = true)
    (hord : rd.crossesOrigin = true → bridgesOrigin f.loc = true →
      twoPart rec.length f.loc = true ∨ (ringOrdered rec.length rd f.loc = true ∧ f.loc.len ≠ rec.length)) :
    ∃ g ∈ w.extract.features, g.tag = f.tag := by
  by_cases hcase : rd.crossesOrigin = true ∧ bridgesOrigin f.loc = true ∧ twoPart rec.length f.loc ≠ true
  · obtain ⟨hc, hb, hnt⟩ := hcase
    obtain ⟨he0, hsL⟩ := hreg hc
    have hes : rd.end ≤ rd.start := by simpa [RegionData.crossesOrigin] using hc
    rcases hord hc hb with h2 | ⟨h2, h3⟩
    · exact absurd h2 hnt
    · exact written_contains_kept rd rec w h hc he0 hsL f hf
        (fun n hn => crossStep_keeps_multi rd rec.length n f he0 hes hsL hn hb h2 h3)
  · refine written_contains_inside rd rec w h hreg f hf hne hin (fun hc hb => ?_)
    cases htp : twoPart rec.length f.loc with
    | true => rfl
    | false => exact absurd ⟨hc, hb, by simp [htp]⟩ hcase

end ASV.RegionExtract
