/-
  C08 helper lemmas: the tree of collections an `add_cds` call walks.
-/
import ASV.Proofs.LookupRec
namespace ASV.Lookup
open ASV

theorem nodes_self (a : AreaT) : a ∈ nodes a := by
  cases a; simp [nodes]

theorem mem_nodesL {ks : List AreaT} {d : AreaT} : d ∈ nodes.nodesL ks ↔ ∃ k ∈ ks, d ∈ nodes k := by
  induction ks with
  | nil => simp [nodes.nodesL]
  | cons k ks ih => simp [nodes.nodesL, ih]

theorem mem_nodes {a d : AreaT} : d ∈ nodes a ↔ d = a ∨ ∃ k ∈ a.kids, d ∈ nodes k := by
  cases a with
  | mk id kind loc core product kids => simp [nodes, mem_nodesL, AreaT.kids]

theorem nodes_kid {a k : AreaT} (hk : k ∈ a.kids) : ∀ d ∈ nodes k, d ∈ nodes a :=
  fun d hd => mem_nodes.2 (Or.inr ⟨k, hk, hd⟩)

/-- the section the collection itself files the gene under -/
def ownSection (a : AreaT) (g : Gene) (given : Option Section) : Section := (chooseSection a.loc g given).getD .post

theorem mem_downKids {g : Gene} {sec : Option Section} {ks : List AreaT} {d : AreaT × Section} :
    d ∈ downKids g sec ks ↔ ∃ k ∈ ks, containedBy g.loc k.loc = true ∧ d ∈ downNodes g sec k := by
  induction ks with
  | nil => simp [downKids]
  | cons k ks ih =>
    simp only [downKids, List.mem_append, ih, List.mem_cons, exists_eq_or_imp]
    by_cases hc : containedBy g.loc k.loc = true
    · simp [hc]
    · simp [hc]

theorem mem_downNodes {g : Gene} {given : Option Section} {a : AreaT} {d : AreaT × Section} :
    d ∈ downNodes g given a ↔ d = (a, ownSection a g given) ∨
      ∃ k ∈ a.kids, containedBy g.loc k.loc = true ∧ d ∈ downNodes g (chooseSection a.loc g given) k := by
  cases a with
  | mk id kind loc core product kids => simp [downNodes, mem_downKids, AreaT.kids, ownSection, AreaT.loc]

theorem downNodes_self (g : Gene) (given : Option Section) (a : AreaT) : (a, ownSection a g given) ∈ downNodes g given a :=
  mem_downNodes.2 (Or.inl rfl)

/-- size of a tree, for inductions over it -/
def AreaT.size : AreaT → Nat
  | .mk _ _ _ _ _ kids => 1 + sizeL kids
where sizeL : List AreaT → Nat
  | [] => 0
  | k :: ks => k.size + sizeL ks

theorem size_kid {a k : AreaT} (hk : k ∈ a.kids) : k.size < a.size := by
  cases a with
  | mk id kind loc core product kids =>
    simp only [AreaT.kids] at hk
    simp only [AreaT.size]
    induction kids with
    | nil => simp at hk
    | cons k' ks ih =>
      simp only [AreaT.size.sizeL]
      rcases List.mem_cons.1 hk with rfl | hk'
      · omega
      · have := ih hk'; omega

/-- everything `add_cds` reaches contains the gene, and is a node of the collection's tree -/
theorem downNodes_sound (g : Gene) : ∀ (n : Nat) (given : Option Section) (a : AreaT) (d : AreaT × Section), a.size ≤ n →
    containedBy g.loc a.loc = true → d ∈ downNodes g given a → containedBy g.loc d.1.loc = true ∧ d.1 ∈ nodes a
  | 0, _, a, _, hn, _, _ => by cases a; simp [AreaT.size] at hn
  | n + 1, given, a, d, hn, hc, hd => by
    rcases mem_downNodes.1 hd with rfl | ⟨k, hk, hck, hdk⟩
    · exact ⟨hc, nodes_self _⟩
    · have := size_kid hk
      obtain ⟨h1, h2⟩ := downNodes_sound g n _ k d (by omega) hck hdk
      exact ⟨h1, nodes_kid hk d.1 h2⟩

/-! ### containment is transitive -/

theorem containedBy_trans {g k a : Loc} (h1 : containedBy g k = true) (h2 : containedBy k a = true) :
    containedBy g a = true := by
  simp only [containedBy, locationContainsOther, List.all_eq_true, List.any_eq_true, partContains,
    Bool.and_eq_true, decide_eq_true_eq] at *
  intro gp hgp
  obtain ⟨kp, hkp, hk⟩ := h1 gp hgp
  obtain ⟨ap, hap, ha⟩ := h2 kp hkp
  exact ⟨ap, hap, by omega⟩

/-- every child collection lies inside its parent (what the `parent` setter asserts) -/
def KidsInside (a : AreaT) : Prop := ∀ n ∈ nodes a, ∀ k ∈ n.kids, containedBy k.loc n.loc = true

theorem KidsInside.kid {a k : AreaT} (h : KidsInside a) (hk : k ∈ a.kids) : KidsInside k :=
  fun n hn k' hk' => h n (nodes_kid hk n hn) k' hk'

/-- … then a gene inside a node is inside all its ancestors and is passed down to it -/
theorem downNodes_complete (g : Gene) : ∀ (n : Nat) (given : Option Section) (a d : AreaT), a.size ≤ n → KidsInside a →
    d ∈ nodes a → containedBy g.loc d.loc = true →
    containedBy g.loc a.loc = true ∧ ∃ s, (d, s) ∈ downNodes g given a
  | 0, _, a, _, hn, _, _, _ => by cases a; simp [AreaT.size] at hn
  | n + 1, given, a, d, hn, hin, hd, hc => by
    rcases mem_nodes.1 hd with rfl | ⟨k, hk, hdk⟩
    · exact ⟨hc, _, downNodes_self g given _⟩
    · have := size_kid hk
      obtain ⟨h1, s, h2⟩ := downNodes_complete g n (chooseSection a.loc g given) k d (by omega) (hin.kid hk) hdk hc
      have hka : containedBy k.loc a.loc = true := hin a (nodes_self a) k hk
      exact ⟨containedBy_trans h1 hka, s, mem_downNodes.2 (Or.inr ⟨k, hk, h1, h2⟩)⟩

end ASV.Lookup
