/-
  The closed form of `connect_locations` on a ring is never longer than the line hull (C04).
-/
import ASV.Proofs.LocConnectRingCover
set_option linter.unusedSimpArgs false
set_option linter.unusedVariables false
namespace ASV

/-- every chunk lies inside the line hull of the locations -/
theorem chunk_in_hull {L : Int} {rs : List RLoc} (hok : ∀ r ∈ rs, r.OK L) {q : Part}
    (hq : q ∈ preOf L rs ∨ q ∈ postOf L rs) :
    minList ((rs.map (RLoc.toLoc L)).map (·.start)) ≤ q.lo ∧ q.hi ≤ maxList ((rs.map (RLoc.toLoc L)).map (·.end)) := by
  have key : ∃ r ∈ rs, (r.toLoc L).start ≤ q.lo ∧ q.hi ≤ (r.toLoc L).end := by
    rcases hq with hq | hq
    · simp only [preOf, List.mem_flatMap] at hq
      obtain ⟨r, hr, hq⟩ := hq
      refine ⟨r, hr, ?_⟩
      cases r with
      | one p =>
        simp only [RLoc.pre] at hq
        split at hq
        · cases hq
        · simp only [List.mem_singleton] at hq; subst hq; simp [RLoc.toLoc, Loc.start, Loc.end, fl]
      | two x y =>
        simp only [RLoc.pre, List.mem_singleton] at hq; subst hq
        simp only [RLoc.toLoc, Loc.start, Loc.end, fl, List.map, minList, maxList, List.foldl]; omega
    · simp only [postOf, List.mem_flatMap] at hq
      obtain ⟨r, hr, hq⟩ := hq
      refine ⟨r, hr, ?_⟩
      cases r with
      | one p =>
        simp only [RLoc.post] at hq
        split at hq
        · simp only [List.mem_singleton] at hq; subst hq; simp [RLoc.toLoc, Loc.start, Loc.end, fl]
        · cases hq
      | two x y =>
        simp only [RLoc.post, List.mem_singleton] at hq; subst hq
        simp only [RLoc.toLoc, Loc.start, Loc.end, fl, List.map, minList, maxList, List.foldl]; omega
  obtain ⟨r, hr, h1, h2⟩ := key
  have h3 : minList ((rs.map (RLoc.toLoc L)).map (·.start)) ≤ (r.toLoc L).start :=
    minList_le_of_mem (List.mem_map.2 ⟨_, List.mem_map.2 ⟨r, hr, rfl⟩, rfl⟩)
  have h4 : (r.toLoc L).end ≤ maxList ((rs.map (RLoc.toLoc L)).map (·.end)) :=
    le_maxList_of_mem (List.mem_map.2 ⟨_, List.mem_map.2 ⟨r, hr, rfl⟩, rfl⟩)
  omega

theorem len_simple (p : Part) : (Loc.simple p).len = p.hi - p.lo := by
  simp [Loc.len, Loc.parts, Part.len]
theorem len_two (a b : Part) : (Loc.compound [a, b]).len = (a.hi - a.lo) + (b.hi - b.lo) := by
  simp [Loc.len, Loc.parts, Part.len]

/-- the closed form is never longer than the line hull `max end - min start` -/
theorem connR_le_hull (rs : List RLoc) (L : Int) (hL : 0 < L) (hne : rs ≠ []) (hok : ∀ r ∈ rs, r.OK L) :
    (connR rs L).len ≤ maxList ((rs.map (RLoc.toLoc L)).map (·.end)) - minList ((rs.map (RLoc.toLoc L)).map (·.start)) := by
  unfold connR
  by_cases htwo : rs.any RLoc.isTwo = true
  · rw [if_pos htwo]
    -- the hull is the whole record
    have hfull : minList ((rs.map (RLoc.toLoc L)).map (·.start)) ≤ 0 ∧ L ≤ maxList ((rs.map (RLoc.toLoc L)).map (·.end)) := by
      obtain ⟨hpre, hpost, hhi, hlo⟩ := hull_two_ends L _ hok htwo
      obtain ⟨⟨q1, hq1, e1⟩, _⟩ := hullP_attained _ hpost
      obtain ⟨_, ⟨q2, hq2, e2⟩⟩ := hullP_attained _ hpre
      have a := chunk_in_hull hok (Or.inr hq1)
      have b := chunk_in_hull hok (Or.inl hq2)
      omega
    have hwf := connR_wf rs L hL hne hok
    unfold connR at hwf
    rw [if_pos htwo] at hwf
    have hlen : (connB rs L).len ≤ L := by
      match hp : (connB rs L).parts with
      | [p] =>
        simp only [areaWF, hp, Bool.and_eq_true, decide_eq_true_eq] at hwf
        simp only [Loc.len, hp, List.map, List.sum_cons, List.sum_nil, Part.len]; omega
      | [p, q] =>
        simp only [areaWF, hp, Bool.and_eq_true, decide_eq_true_eq] at hwf
        simp only [Loc.len, hp, List.map, List.sum_cons, List.sum_nil, Part.len]; omega
      | [] => simp [areaWF, hp] at hwf
      | _ :: _ :: _ :: _ => simp [areaWF, hp] at hwf
    omega
  · rw [if_neg htwo]
    unfold connA
    split
    · split
      · next hpost =>
        have hpre : preOf L rs ≠ [] := fun h => chunks_ne L rs hne h hpost
        obtain ⟨⟨q1, hq1, e1⟩, ⟨q2, hq2, e2⟩⟩ := hullP_attained _ hpre
        have a := chunk_in_hull hok (Or.inl hq1)
        have b := chunk_in_hull hok (Or.inl hq2)
        rw [len_simple]; omega
      · split
        · next hpost hpre =>
          obtain ⟨⟨q1, hq1, e1⟩, ⟨q2, hq2, e2⟩⟩ := hullP_attained _ hpost
          have a := chunk_in_hull hok (Or.inr hq1)
          have b := chunk_in_hull hok (Or.inr hq2)
          rw [len_simple]; omega
        · next hpost hpre =>
          obtain ⟨⟨q1, hq1, e1⟩, ⟨q2, hq2, e2⟩⟩ := hullP_attained _ hpre
          obtain ⟨⟨q3, hq3, e3⟩, ⟨q4, hq4, e4⟩⟩ := hullP_attained _ hpost
          have a := chunk_in_hull hok (Or.inl hq1)
          have b := chunk_in_hull hok (Or.inl hq2)
          have c := chunk_in_hull hok (Or.inr hq3)
          have d := chunk_in_hull hok (Or.inr hq4)
          split
          · rw [len_two]; simp only [fl]; omega
          · rw [len_simple]; dsimp only; omega
    · rw [hullOf, len_simple]; exact Int.le_refl _

end ASV
