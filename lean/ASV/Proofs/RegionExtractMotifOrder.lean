/-
  C12: `_adjust_motif` on leader / tail locations in transcription order (`motifOrdered`, a condition on the
  ORIGINAL location): the moved parts come out ascending or descending, which is what `adjustMotifLoc_parts` needs.
-/
import ASV.Proofs.RegionExtractMotif
import ASV.Proofs.RegionExtractKeptMulti
set_option linter.unusedSimpArgs false
namespace ASV.RegionExtract
open ASV

theorem motifPart_pre (rd : RegionData) (L : Int) (p : Part) (h : rd.start ≤ p.lo) :
    motifPart rd L p = shiftPart (-rd.start) p := by
  unfold motifPart shiftPart
  rw [if_neg (by omega)]
  simp only [Part.mk.injEq, and_true]
  omega

theorem motifPart_post (rd : RegionData) (L : Int) (p : Part) (h : p.lo < rd.start) :
    motifPart rd L p = shiftPart (L - rd.start) p := by
  unfold motifPart shiftPart
  rw [if_pos (by omega)]
  simp only [Part.mk.injEq, and_true]
  omega

theorem map_motifPart_shift (rd : RegionData) (L k : Int) : ∀ (ps : List Part),
    (∀ p ∈ ps, motifPart rd L p = shiftPart k p) → ps.map (motifPart rd L) = ps.map (shiftPart k)
  | [], _ => rfl
  | p :: ps, h => by
    simp only [List.map_cons, h p (by simp), map_motifPart_shift rd L k ps (fun q hq => h q (by simp [hq]))]

theorem asc_shift (k : Int) (ps : List Part) (h : ps.Pairwise (fun a b => a.hi ≤ b.lo)) (hpos : ∀ p ∈ ps, p.lo < p.hi) :
    AscParts (ps.map (shiftPart k)) := by
  refine ⟨?_, ?_⟩
  · rw [List.pairwise_map]; exact h.imp (fun hh => by simp only [shiftPart]; omega)
  · intro p hp; obtain ⟨q, hq, rfl⟩ := List.mem_map.1 hp; have := hpos q hq; simp only [shiftPart]; omega

theorem desc_shift (k : Int) (ps : List Part) (h : ps.Pairwise (fun a b => b.hi ≤ a.lo)) (hpos : ∀ p ∈ ps, p.lo < p.hi) :
    DescParts (ps.map (shiftPart k)) := by
  refine ⟨?_, ?_⟩
  · rw [List.pairwise_map]; exact h.imp (fun hh => by simp only [shiftPart]; omega)
  · intro p hp; obtain ⟨q, hq, rfl⟩ := List.mem_map.1 hp; have := hpos q hq; simp only [shiftPart]; omega

/-- all parts moved by the same amount, in ascending or descending order -/
theorem mono_same_shift (rd : RegionData) (L k : Int) (ps : List Part) (hk : ∀ p ∈ ps, motifPart rd L p = shiftPart k p)
    (hpos : ∀ p ∈ ps, p.lo < p.hi) (ho : (ascParts ps || ascParts ps.reverse) = true) :
    AscParts (ps.map (motifPart rd L)) ∨ DescParts (ps.map (motifPart rd L)) := by
  rw [map_motifPart_shift rd L k ps hk]
  rw [Bool.or_eq_true, ascParts_iff, ascParts_iff, List.pairwise_reverse] at ho
  rcases ho with ho | ho
  · exact .inl (asc_shift k ps ho hpos)
  · exact .inr (desc_shift k ps ho hpos)

/-- the origin inside the leader / tail: the moved parts form one ascending (forward) or descending (reverse) run -/
theorem mono_ring (rd : RegionData) (L : Int) (l : Loc) (hes : rd.end ≤ rd.start)
    (hord : ringOrdered L rd l = true) :
    AscParts (l.parts.map (motifPart rd L)) ∨ DescParts (l.parts.map (motifPart rd L)) := by
  unfold ringOrdered at hord
  rw [Bool.and_eq_true, List.all_eq_true] at hord
  obtain ⟨hpos', hord⟩ := hord
  have hpos : ∀ p ∈ l.parts, p.lo < p.hi := fun p hp => by simpa using hpos' p hp
  cases hst : l.strand with
  | zero => simp [hst] at hord
  | none => simp [hst] at hord
  | fwd =>
    simp only [hst, Bool.and_eq_true, Bool.not_eq_true', List.isEmpty_eq_false_iff, List.all_eq_true, ascParts_iff] at hord
    obtain ⟨⟨⟨⟨_, _⟩, hBpost⟩, hApw⟩, hBpw⟩ := hord
    have hdec : l.parts = l.parts.takeWhile (onPre L rd) ++ l.parts.dropWhile (onPre L rd) :=
      (List.takeWhile_append_dropWhile).symm
    generalize hA : l.parts.takeWhile (onPre L rd) = A at *
    generalize hB : l.parts.dropWhile (onPre L rd) = B at *
    have hAside : ∀ p ∈ A, rd.start ≤ p.lo ∧ p.hi ≤ L ∧ p.lo < p.hi := fun p hp => by
      have : onPre L rd p = true := by rw [← hA] at hp; exact mem_takeWhile_sat _ _ _ hp
      simp only [onPre, Bool.and_eq_true, decide_eq_true_eq] at this
      exact ⟨this.1, this.2, hpos p (by rw [hdec]; simp [hp])⟩
    have hBside : ∀ p ∈ B, 0 ≤ p.lo ∧ p.hi ≤ rd.end ∧ p.lo < p.hi := fun p hp => by
      have := hBpost p hp
      simp only [onPost, Bool.and_eq_true, decide_eq_true_eq] at this
      exact ⟨this.1, this.2, hpos p (by rw [hdec]; simp [hp])⟩
    left
    rw [hdec, List.map_append,
      map_motifPart_shift rd L (-rd.start) A (fun p hp => motifPart_pre rd L p (hAside p hp).1),
      map_motifPart_shift rd L (L - rd.start) B (fun p hp => motifPart_post rd L p (by have := hBside p hp; omega))]
    refine ⟨?_, ?_⟩
    · rw [List.pairwise_append, List.pairwise_map, List.pairwise_map]
      refine ⟨hApw.imp (fun h => by simp only [shiftPart]; omega), hBpw.imp (fun h => by simp only [shiftPart]; omega), ?_⟩
      intro a ha b hb
      obtain ⟨a0, ha0, rfl⟩ := List.mem_map.1 ha
      obtain ⟨b1, hb1, rfl⟩ := List.mem_map.1 hb
      have := hAside a0 ha0
      have := hBside b1 hb1
      simp only [shiftPart]; omega
    · intro p hp
      rcases List.mem_append.1 hp with hp | hp
      · obtain ⟨q, hq, rfl⟩ := List.mem_map.1 hp; have := hAside q hq; simp only [shiftPart]; omega
      · obtain ⟨q, hq, rfl⟩ := List.mem_map.1 hp; have := hBside q hq; simp only [shiftPart]; omega
  | rev =>
    simp only [hst, Bool.and_eq_true, Bool.not_eq_true', List.isEmpty_eq_false_iff, List.all_eq_true, ascParts_iff,
      List.pairwise_reverse] at hord
    obtain ⟨⟨⟨⟨_, _⟩, hApre⟩, hApw⟩, hBpw⟩ := hord
    have hdec : l.parts = l.parts.takeWhile (onPost rd) ++ l.parts.dropWhile (onPost rd) :=
      (List.takeWhile_append_dropWhile).symm
    generalize hB : l.parts.takeWhile (onPost rd) = B at *
    generalize hA : l.parts.dropWhile (onPost rd) = A at *
    have hAside : ∀ p ∈ A, rd.start ≤ p.lo ∧ p.hi ≤ L ∧ p.lo < p.hi := fun p hp => by
      have := hApre p hp
      simp only [onPre, Bool.and_eq_true, decide_eq_true_eq] at this
      exact ⟨this.1, this.2, hpos p (by rw [hdec]; simp [hp])⟩
    have hBside : ∀ p ∈ B, 0 ≤ p.lo ∧ p.hi ≤ rd.end ∧ p.lo < p.hi := fun p hp => by
      have : onPost rd p = true := by rw [← hB] at hp; exact mem_takeWhile_sat _ _ _ hp
      simp only [onPost, Bool.and_eq_true, decide_eq_true_eq] at this
      exact ⟨this.1, this.2, hpos p (by rw [hdec]; simp [hp])⟩
    right
    rw [hdec, List.map_append,
      map_motifPart_shift rd L (L - rd.start) B (fun p hp => motifPart_post rd L p (by have := hBside p hp; omega)),
      map_motifPart_shift rd L (-rd.start) A (fun p hp => motifPart_pre rd L p (hAside p hp).1)]
    refine ⟨?_, ?_⟩
    · rw [List.pairwise_append, List.pairwise_map, List.pairwise_map]
      refine ⟨hBpw.imp (fun h => by simp only [shiftPart]; omega), hApw.imp (fun h => by simp only [shiftPart]; omega), ?_⟩
      intro b hb a ha
      obtain ⟨a0, ha0, rfl⟩ := List.mem_map.1 ha
      obtain ⟨b1, hb1, rfl⟩ := List.mem_map.1 hb
      have := hAside a0 ha0
      have := hBside b1 hb1
      simp only [shiftPart]; omega
    · intro p hp
      rcases List.mem_append.1 hp with hp | hp
      · obtain ⟨q, hq, rfl⟩ := List.mem_map.1 hp; have := hBside q hq; simp only [shiftPart]; omega
      · obtain ⟨q, hq, rfl⟩ := List.mem_map.1 hp; have := hAside q hq; simp only [shiftPart]; omega

/-- every part of a location in transcription order around the origin lies on one side of it -/
theorem ringOrdered_sides (rd : RegionData) (L : Int) (l : Loc) (hord : ringOrdered L rd l = true) :
    ∀ p ∈ l.parts, onPre L rd p = true ∨ onPost rd p = true := by
  unfold ringOrdered at hord
  rw [Bool.and_eq_true] at hord
  obtain ⟨_, hord⟩ := hord
  intro p hp
  cases hst : l.strand with
  | zero => simp [hst] at hord
  | none => simp [hst] at hord
  | fwd =>
    simp only [hst, Bool.and_eq_true, List.all_eq_true] at hord
    rw [← List.takeWhile_append_dropWhile (p := onPre L rd) (l := l.parts)] at hp
    rcases List.mem_append.1 hp with hp | hp
    · exact .inl (mem_takeWhile_sat _ _ _ hp)
    · exact .inr (hord.1.1.2 p hp)
  | rev =>
    simp only [hst, Bool.and_eq_true, List.all_eq_true] at hord
    rw [← List.takeWhile_append_dropWhile (p := onPost rd) (l := l.parts)] at hp
    rcases List.mem_append.1 hp with hp | hp
    · exact .inr (mem_takeWhile_sat _ _ _ hp)
    · exact .inl (hord.1.1.2 p hp)

/-- `_adjust_motif` on a leader / tail location in transcription order inside the region (`motifOrdered`): the new
    text reads back and covers the same bases -/
theorem adjustMotifLoc_ordered (t : String) (l : Loc) (rd : RegionData) (L : Int) (hL : 0 < L)
    (ht : locFromString t = some l) (hne : l.parts ≠ []) (hord : motifOrdered L rd l = true) :
    ∃ l', adjustMotifLoc t rd L = .ok (locToString l') ∧ locFromString (locToString l') = some l' ∧
      SameBases L rd l l' := by
  unfold motifOrdered at hord
  rw [Bool.and_eq_true, List.all_eq_true] at hord
  obtain ⟨hpos', hord⟩ := hord
  have hpos : ∀ p ∈ l.parts, p.lo < p.hi := fun p hp => by simpa using hpos' p hp
  cases hc : rd.crossesOrigin with
  | false =>
    simp only [hc, Bool.false_eq_true, if_false, Bool.and_eq_true, List.all_eq_true, decide_eq_true_eq] at hord
    obtain ⟨hin, ho⟩ := hord
    refine adjustMotifLoc_parts t l rd L hL ht hne ?_ (fun _ => hin) (fun h => by rw [hc] at h; cases h)
    exact mono_same_shift rd L (-rd.start) l.parts (fun p hp => motifPart_pre rd L p (hin p hp).1) hpos
      (by simpa [Bool.or_eq_true] using ho)
  | true =>
    simp only [hc, if_true, Bool.and_eq_true, decide_eq_true_eq] at hord
    obtain ⟨⟨⟨he0, hes⟩, hsL⟩, hcase⟩ := hord
    rw [Bool.or_eq_true] at hcase
    have hsides : ∀ p ∈ l.parts, (rd.start ≤ p.lo ∧ p.hi ≤ L) ∨ (0 ≤ p.lo ∧ p.hi ≤ rd.end ∧ p.lo < p.hi) := by
      intro p hp
      have hside : onPre L rd p = true ∨ onPost rd p = true := by
        rcases hcase with hring | hside
        · exact ringOrdered_sides rd L l hring p hp
        · rw [Bool.and_eq_true, Bool.or_eq_true, List.all_eq_true, List.all_eq_true] at hside
          rcases hside.1 with h1 | h1
          · exact .inl (h1 p hp)
          · exact .inr (h1 p hp)
      rcases hside with h1 | h1
      · simp only [onPre, Bool.and_eq_true, decide_eq_true_eq] at h1; exact .inl h1
      · simp only [onPost, Bool.and_eq_true, decide_eq_true_eq] at h1; exact .inr ⟨h1.1, h1.2, hpos p hp⟩
    refine adjustMotifLoc_parts t l rd L hL ht hne ?_ (fun h => by rw [hc] at h; cases h)
      (fun _ => ⟨he0, hes, hsL, hsides⟩)
    rcases hcase with hring | hside
    · exact mono_ring rd L l hes hring
    · rw [Bool.and_eq_true, Bool.or_eq_true] at hside
      obtain ⟨hwhich, ho⟩ := hside
      rcases hwhich with hpre | hpost
      · rw [List.all_eq_true] at hpre
        exact mono_same_shift rd L (-rd.start) l.parts (fun p hp => motifPart_pre rd L p (by
          have := hpre p hp; simp only [onPre, Bool.and_eq_true, decide_eq_true_eq] at this; exact this.1)) hpos ho
      · rw [List.all_eq_true] at hpost
        exact mono_same_shift rd L (L - rd.start) l.parts (fun p hp => motifPart_post rd L p (by
          have := hpost p hp; simp only [onPost, Bool.and_eq_true, decide_eq_true_eq] at this
          have := hpos p hp; omega)) hpos ho

end ASV.RegionExtract
