/-
  C07: a rule's distances (and everything else about it) are the same in every sub-selection of the
  ruleset — over C02's heap model of `Ruleset` / `hmm_detection.get_ruleset` (`Model/Rulesets.lean`).
-/
import ASV.Proofs.Rulesets
import ASV.Spec.Rulesets
set_option linter.unusedVariables false
namespace ASV.Rulesets
open ASV ASV.Parser

theorem mem_wanted (rules : List Rule) (names cats : List String) (m : Mul) (r' : Rule) :
    r' ∈ wanted rules names cats m ↔ ∃ r ∈ rules, wantedRule names cats r = true ∧
      r' = { r with cutoff := r.cutoff * m.cutoff.1 / m.cutoff.2,
                    neighbourhood := r.neighbourhood * m.neighbourhood.1 / m.neighbourhood.2 } := by
  simp only [wanted, List.mem_map, List.mem_filter]
  constructor
  · rintro ⟨r, ⟨hr, hw⟩, e⟩; exact ⟨r, hr, hw, e.symm⟩
  · rintro ⟨r, hr, hw, e⟩; exact ⟨r, ⟨hr, hw⟩, e.symm⟩

/-- what two restrictions of the same parsed rules, with the same multipliers, hold under one rule name
    is the same rule: same cutoff, same neighbourhood, same conditions, same superiors -/
theorem wanted_rule_independent (rules : List Rule) (n1 c1 n2 c2 : List String) (m : Mul)
    (hd : ∀ x ∈ rules, ∀ y ∈ rules, x.name = y.name → x = y)
    (r1 r2 : Rule) (h1 : r1 ∈ wanted rules n1 c1 m) (h2 : r2 ∈ wanted rules n2 c2 m) (hn : r1.name = r2.name) :
    r1 = r2 := by
  obtain ⟨a, ha, _, rfl⟩ := (mem_wanted rules n1 c1 m r1).1 h1
  obtain ⟨b, hb, _, rfl⟩ := (mem_wanted rules n2 c2 m r2).1 h2
  have : a = b := hd a ha b hb hn
  subst this
  rfl

end ASV.Rulesets
