/-
  C06 helper lemmas, part 15: on a circular record the location of a region has exactly the bases of the areas it
  lists (under `ArcUnions`, conditional on `create_regions` returning).
-/
import ASV.Proofs.RegionsRingNear
namespace ASV.Regions
open ASV ASV.Components

/-- the children of the region built for a section, in `Region.__init__`'s order -/
def childrenOfSec (areas : List Feat) : List Feat :=
  areas.filter (·.kind != .cand) ++ areas.filter (·.kind == .cand)

theorem mem_childrenOfSec (areas : List Feat) (f : Feat) : f ∈ childrenOfSec areas ↔ f ∈ areas := by
  simp only [childrenOfSec, List.mem_append, List.mem_filter]
  constructor
  · rintro (h | h) <;> exact h.1
  · intro h
    by_cases hk : f.kind == .cand
    · exact Or.inr ⟨h, hk⟩
    · exact Or.inl ⟨h, by simpa [bne] using hk⟩

/-- every region added for the sections lists exactly the areas of one section and is located by connecting them -/
theorem addSections_regions {s s' : State} {secs : List Sec} (h : addSections s secs = .ok s') :
    ∀ r ∈ s'.regions, r ∈ s.regions ∨ ∃ sec ∈ secs, (∀ k, k ∈ memberIds r ↔ k ∈ ids sec.2) ∧
      ∃ w, regionWrap ((childrenOfSec sec.2).map (·.loc)) = .ok w ∧
        connect ((childrenOfSec sec.2).map (·.loc)) w = .ok r.loc := by
  induction secs generalizing s with
  | nil =>
    simp only [addSections, pure, Except.pure, Except.ok.injEq] at h
    subst h
    intro r hr; exact Or.inl hr
  | cons sec secs ih =>
    obtain ⟨l, areas⟩ := sec
    rw [addSections_cons'] at h
    simp only [bind, Except.bind] at h
    split at h
    · cases h
    · next v hmk =>
      obtain ⟨s1, r0⟩ := v
      simp only at h
      split at h
      · cases h
      · next s2 hadd =>
        obtain ⟨w, hw, hconn, _⟩ := mkRegion_loc hmk
        obtain ⟨hrid, hrk, hrs, _, rfl⟩ := mkRegion_ok hmk
        obtain ⟨index, hle, hno, rfl⟩ := addRegion_ok hadd
        intro r hr
        rcases ih h r hr with h1 | ⟨sec, hsec, hk⟩
        · have h1' := (insertAt_perm _ _ _).mem_iff.1 h1
          rcases List.mem_cons.1 h1' with rfl | h2
          · right
            refine ⟨(l, areas), by simp, ?_, w, hw, hconn⟩
            intro k
            simp only [memberIds, hrk, hrs]
            rw [← ids_append]
            exact ((List.filter_append_perm (fun x : Feat => x.kind == Kind.cand) areas).map (fun f : Feat => f.id)).mem_iff
          · exact Or.inl h2
        · exact Or.inr ⟨sec, by simp [hsec], hk⟩

/-- the union of a joined family of single-part areas is the interval from its least start to its greatest end -/
theorem joined_line_union {L : Int} {all : List Feat} {ms : List Feat} (hj : Joined all ms)
    (hline : ∀ m ∈ ms, LineArea L m.loc) :
    ∃ lo hi, (∀ i, (∃ m ∈ ms, m.loc.mem i = true) ↔ lo ≤ i ∧ i < hi) ∧
      (∃ m ∈ ms, fLo m = lo) ∧ (∀ m ∈ ms, lo ≤ fLo m) ∧ (∃ m ∈ ms, fHi m = hi) ∧ (∀ m ∈ ms, fHi m ≤ hi) ∧ lo < hi := by
  induction hj with
  | single a ha =>
    obtain ⟨p, hp, h0, h1, h2⟩ := hline a (by simp)
    refine ⟨p.lo, p.hi, ?_, ⟨a, by simp, by simp [fLo, hp, Loc.start]⟩, by simp [fLo, hp, Loc.start],
      ⟨a, by simp, by simp [fHi, hp, Loc.end]⟩, by simp [fHi, hp, Loc.end], h1⟩
    intro i
    simp [hp, mem_simple]
  | join m1 m2 ms _ _ hshare hms ih1 ih2 =>
    obtain ⟨lo1, hi1, a1, ⟨x1, hx1, ex1⟩, a3, ⟨y1, hy1, ey1⟩, a5, a6⟩ := ih1 (fun m hm => hline m ((hms m).2 (Or.inl hm)))
    obtain ⟨lo2, hi2, b1, ⟨x2, hx2, ex2⟩, b3, ⟨y2, hy2, ey2⟩, b5, b6⟩ := ih2 (fun m hm => hline m ((hms m).2 (Or.inr hm)))
    obtain ⟨a, ha, b, hb, j, hja, hjb⟩ := hshare
    have hj1 := (a1 j).1 ⟨a, ha, hja⟩
    have hj2 := (b1 j).1 ⟨b, hb, hjb⟩
    refine ⟨min lo1 lo2, max hi1 hi2, ?_, ?_, ?_, ?_, ?_, by omega⟩
    · intro i
      have e : (∃ m ∈ ms, m.loc.mem i = true) ↔ (∃ m ∈ m1, m.loc.mem i = true) ∨ (∃ m ∈ m2, m.loc.mem i = true) := by
        constructor
        · rintro ⟨m, hm, hmi⟩
          rcases (hms m).1 hm with h | h
          · exact Or.inl ⟨m, h, hmi⟩
          · exact Or.inr ⟨m, h, hmi⟩
        · rintro (⟨m, hm, hmi⟩ | ⟨m, hm, hmi⟩)
          · exact ⟨m, (hms m).2 (Or.inl hm), hmi⟩
          · exact ⟨m, (hms m).2 (Or.inr hm), hmi⟩
      rw [e, a1 i, b1 i]; omega
    · by_cases hc : lo1 ≤ lo2
      · exact ⟨x1, (hms x1).2 (Or.inl hx1), by omega⟩
      · exact ⟨x2, (hms x2).2 (Or.inr hx2), by omega⟩
    · intro m hm
      rcases (hms m).1 hm with h | h
      · have := a3 m h; omega
      · have := b3 m h; omega
    · by_cases hc : hi2 ≤ hi1
      · exact ⟨y1, (hms y1).2 (Or.inl hy1), by omega⟩
      · exact ⟨y2, (hms y2).2 (Or.inr hy2), by omega⟩
    · intro m hm
      rcases (hms m).1 hm with h | h
      · have := a5 m h; omega
      · have := b5 m h; omega


/-- **Circular record** (`ArcUnions`, conditional on `create_regions` returning): the location of every region has
    exactly the bases of the areas it lists -/
theorem ring_region_union (s s' : State) (hcirc : s.circular = true) (hL : 0 < s.len) (hi : Inv s)
    (hreg : s.regions = []) (hring : ∀ f ∈ s.cands ++ s.subs, RingArea s.len f.loc)
    (harc : ArcUnions s.len (s.cands ++ s.subs)) (h : createRegions s = .ok s') :
    ∀ r ∈ s'.regions, ∀ i, r.loc.mem i = true ↔ ∃ f ∈ s.cands ++ s.subs, f.id ∈ memberIds r ∧ f.loc.mem i = true := by
  have hw : s.wrap = some s.len := by simp [State.wrap, hcirc]
  simp only [createRegions, createRegionsOf] at h
  split at h
  · simp only [pure, Except.pure, Except.ok.injEq] at h
    subst h
    intro r hr; rw [hreg] at hr; cases hr
  · simp only [bind, Except.bind] at h
    split at h
    · cases h
    · next secs hsecs =>
      rw [hw] at hsecs
      have hnd := nodup_areas hi
      have hok := sectionsOf_secOK hL hring harc hnd hsecs
      intro r hr i
      rcases addSections_regions h r hr with h1 | ⟨sec, hsec, hk, w, hwrap, hconn⟩
      · rw [hreg] at h1; cases h1
      · have hS := hok sec hsec
        -- members of the region = areas of the section
        have hmem : (∃ f ∈ s.cands ++ s.subs, f.id ∈ memberIds r ∧ f.loc.mem i = true) ↔ ∃ m ∈ sec.2, m.loc.mem i = true := by
          constructor
          · rintro ⟨f, hf, hm, hfi⟩
            obtain ⟨g, hg, e⟩ := mem_ids.1 ((hk f.id).1 hm)
            have : g = f := ids_inj hnd (hS.sub g hg) hf e
            subst this
            exact ⟨g, hg, hfi⟩
          · rintro ⟨m, hm, hmi⟩
            exact ⟨m, hS.sub m hm, (hk m.id).2 (mem_ids.2 ⟨m, hm, rfl⟩), hmi⟩
        rw [hmem]
        have hchild : ∀ j, (∃ l ∈ (childrenOfSec sec.2).map (·.loc), l.mem j = true) ↔ ∃ m ∈ sec.2, m.loc.mem j = true := by
          intro j
          constructor
          · rintro ⟨l, hl, hlj⟩
            obtain ⟨f, hf, rfl⟩ := List.mem_map.1 hl
            exact ⟨f, (mem_childrenOfSec _ f).1 hf, hlj⟩
          · rintro ⟨m, hm, hmj⟩
            exact ⟨m.loc, List.mem_map.2 ⟨m, (mem_childrenOfSec _ m).2 hm, rfl⟩, hmj⟩
        have hlocs : ∀ l ∈ (childrenOfSec sec.2).map (·.loc), RingArea s.len l := by
          intro l hl
          obtain ⟨f, hf, rfl⟩ := List.mem_map.1 hl
          exact hring f (hS.sub f ((mem_childrenOfSec _ f).1 hf))
        have hne : (childrenOfSec sec.2).map (·.loc) ≠ [] := by
          obtain ⟨x, hx⟩ := List.exists_mem_of_ne_nil _ hS.ne
          exact List.ne_nil_of_mem (List.mem_map.2 ⟨x, (mem_childrenOfSec _ x).2 hx, rfl⟩)
        cases hany : ((childrenOfSec sec.2).map (·.loc)).any bridgesOrigin with
        | true =>
          rw [regionWrap_ring _ hlocs hany] at hwrap
          simp only [Except.ok.injEq] at hwrap
          subst hwrap
          obtain ⟨c, hwf, hlen, hc⟩ := harc sec.2 hS.joined
          obtain ⟨r', hr', _, hrm⟩ := connect_ring_exact hL _ hne hlocs c hwf hlen (by
            intro j; rw [hc j, hchild j])
          rw [hr'] at hconn
          simp only [Except.ok.injEq] at hconn
          rw [← hconn, hrm i, hchild i]
        | false =>
          rw [regionWrap_eq, if_neg (by simp [hany])] at hwrap
          simp only [pure, Except.pure, Except.ok.injEq] at hwrap
          subst hwrap
          have hline : ∀ m ∈ sec.2, LineArea s.len m.loc := by
            intro m hm
            refine (hring m (hS.sub m hm)).line_of_not_bridging ?_
            have := List.any_eq_false.1 hany m.loc (List.mem_map.2 ⟨m, (mem_childrenOfSec _ m).2 hm, rfl⟩)
            simpa using this
          obtain ⟨lo, hi', hu, ⟨x, hx, ex⟩, hlo, ⟨y, hy, ey⟩, hhi, _⟩ := joined_line_union hS.joined hline
          rw [connect_line _ hne (by
            intro l hl
            obtain ⟨f, hf, rfl⟩ := List.mem_map.1 hl
            exact (hline f ((mem_childrenOfSec _ f).1 hf)).parts)] at hconn
          simp only [Except.ok.injEq] at hconn
          have e1 : minList (((childrenOfSec sec.2).map (·.loc)).map (·.start)) = lo := by
            apply minList_eq
            · exact List.mem_map.2 ⟨x.loc, List.mem_map.2 ⟨x, (mem_childrenOfSec _ x).2 hx, rfl⟩, ex⟩
            · intro v hv
              obtain ⟨l, hl, rfl⟩ := List.mem_map.1 hv
              obtain ⟨f, hf, rfl⟩ := List.mem_map.1 hl
              exact hlo f ((mem_childrenOfSec _ f).1 hf)
          have e2 : maxList (((childrenOfSec sec.2).map (·.loc)).map (·.end)) = hi' := by
            apply maxList_eq
            · exact List.mem_map.2 ⟨y.loc, List.mem_map.2 ⟨y, (mem_childrenOfSec _ y).2 hy, rfl⟩, ey⟩
            · intro v hv
              obtain ⟨l, hl, rfl⟩ := List.mem_map.1 hv
              obtain ⟨f, hf, rfl⟩ := List.mem_map.1 hl
              exact hhi f ((mem_childrenOfSec _ f).1 hf)
          rw [← hconn, e1, e2, mem_simple, hu i]

end ASV.Regions
