/-
  C05 on circular records: what the C04 closed form of `connect_locations` on a ring gives for
  candidate clusters (shape of a connected span, origin-spanning spans, their union).
-/
import ASV.Proofs.PermInvariant
import ASV.Proofs.LocConnectRingArc
import ASV.Proofs.LocOffsetArea
set_option linter.unusedSectionVars false
set_option linter.unusedVariables false
set_option linter.unusedSimpArgs false
namespace ASV.CC
open ASV.CC.Spec

/-- the two shapes `connect_locations` returns on a ring: one part, or `[a, L) + [0, b)` forward -/
def Shaped (L : Int) (r : Loc) : Prop :=
  (∃ p, r = .simple p) ∨ ∃ a b, r = .compound [⟨a, L, .fwd⟩, ⟨0, b, .fwd⟩]

/-- an origin-spanning span `[a, L) + [0, b)`, forward, with `0 < b ≤ a < L` -/
def TwoArea (L : Int) (r : Loc) : Prop := ∃ a b, r = areaTwo a b L .fwd ∧ 0 < b ∧ b ≤ a ∧ a < L

theorem connect_ring_ok (ls : List Loc) (L : Int) (hne : ls ≠ []) (hL : 0 < L) (hin : ∀ l ∈ ls, RingIn L l) :
    ∃ r, connect ls (some L) = .ok r ∧ areaWF L L r = true ∧ Shaped L r ∧
      ∀ l ∈ ls, ∀ i, l.mem i = true → r.mem i = true := by
  have hrs : ls.map toR ≠ [] := by simpa using hne
  refine ⟨_, connect_ring_closed ls L hne hL hin, connR_wf _ L hL hrs (toR_ok L hL ls hin),
    connR_shape _ L hL hrs (toR_ok L hL ls hin), ?_⟩
  intro l hl i hi
  exact connR_covers _ L hL (toR_ok L hL ls hin) (toR l) (List.mem_map.2 ⟨l, hl, rfl⟩) i
    ((toR_spec L hL l (hin l hl)).2.2.2 i hi)

theorem twoParts_twoArea {L : Int} {r : Loc} (hs : Shaped L r) (hwf : areaWF L L r = true)
    (h2 : twoParts r = true) : TwoArea L r := by
  rcases hs with ⟨p, rfl⟩ | ⟨a, b, rfl⟩
  · simp [twoParts, Loc.parts] at h2
  · simp only [areaWF, Loc.parts, Bool.and_eq_true, decide_eq_true_eq] at hwf
    exact ⟨a, b, rfl, by omega, by omega, by omega⟩

theorem twoArea_strict {L : Int} {r : Loc} (h : TwoArea L r) : RingInStrict L r := by
  obtain ⟨a, b, rfl, h1, h2, h3⟩ := h
  exact Or.inr (Or.inl ⟨a, b, .fwd, by decide, rfl, h1, h2, h3⟩)

theorem twoArea_mem {L : Int} {a b : Int} (i : Int) :
    (areaTwo a b L .fwd).mem i = true ↔ (a ≤ i ∧ i < L) ∨ (0 ≤ i ∧ i < b) := by
  simp only [areaTwo]; rw [mem_two]

theorem twoArea_nonEmpty {L : Int} {r : Loc} (h : TwoArea L r) : r.PartsNonEmpty := by
  obtain ⟨a, b, rfl, h1, h2, h3⟩ := h
  intro p hp
  simp only [areaTwo, Loc.parts, List.mem_cons, List.mem_nil_iff, or_false] at hp
  rcases hp with rfl | rfl <;> simp <;> omega

/-- two origin-spanning spans always overlap (both contain the last base of the record) -/
theorem twoArea_overlap {L : Int} {r s : Loc} (hr : TwoArea L r) (hs : TwoArea L s) : locationsOverlap r s = true := by
  apply (locationsOverlap_iff r s (twoArea_nonEmpty hr) (twoArea_nonEmpty hs)).2
  obtain ⟨a, b, rfl, h1, h2, h3⟩ := hr
  obtain ⟨c, d, rfl, h4, h5, h6⟩ := hs
  exact ⟨L - 1, (twoArea_mem _).2 (Or.inl ⟨by omega, by omega⟩), (twoArea_mem _).2 (Or.inl ⟨by omega, by omega⟩)⟩

theorem toR_twoArea {L : Int} {a b : Int} (h1 : 0 < b) (h2 : b ≤ a) (h3 : a < L) :
    toR (areaTwo a b L .fwd) = .two a b := toR_areaTwo a b L .fwd (by decide) h1 h2 h3

/-- connecting origin-spanning spans gives exactly the union of their bases -/
theorem connect_twoAreas_union (ls : List Loc) (L : Int) (hne : ls ≠ []) (hL : 0 < L) (h : ∀ l ∈ ls, TwoArea L l) :
    ∃ r, connect ls (some L) = .ok r ∧ ∀ i, r.mem i = true → ∃ l ∈ ls, l.mem i = true := by
  have hin : ∀ l ∈ ls, RingIn L l := fun l hl => (twoArea_strict (h l hl)).ringIn
  refine ⟨_, connect_ring_closed ls L hne hL hin, ?_⟩
  have hok := toR_ok L hL ls hin
  -- every reduced input is a `two`
  have htwo : ∀ r ∈ ls.map toR, ∃ l ∈ ls, ∃ a b, l = areaTwo a b L .fwd ∧ r = .two a b ∧ 0 < b ∧ b ≤ a ∧ a < L := by
    intro r hr
    obtain ⟨l, hl, rfl⟩ := List.mem_map.1 hr
    obtain ⟨a, b, rfl, h1, h2, h3⟩ := h l hl
    exact ⟨_, hl, a, b, rfl, toR_twoArea h1 h2 h3, h1, h2, h3⟩
  have hany : (ls.map toR).any RLoc.isTwo = true := by
    obtain ⟨l, hl⟩ := List.exists_mem_of_ne_nil ls hne
    obtain ⟨_, _, a, b, _, e, _⟩ := htwo (toR l) (List.mem_map.2 ⟨l, hl, rfl⟩)
    exact List.any_eq_true.2 ⟨toR l, List.mem_map.2 ⟨l, hl, rfl⟩, by rw [e]; rfl⟩
  intro i hi
  unfold connR at hi
  rw [if_pos hany] at hi
  generalize hrs : ls.map toR = rs at hi htwo hok
  match rs, hi, htwo, hok with
  | [], hi, _, _ =>
    have : ls.map toR ≠ [] := by simpa using hne
    exact absurd hrs this
  | [r], hi, htwo, _ =>
    obtain ⟨l, hl, a, b, e1, e2, _⟩ := htwo r List.mem_cons_self
    refine ⟨l, hl, ?_⟩
    rw [e1]
    simp only [connB, e2, RLoc.toLoc, fl] at hi
    exact hi
  | r1 :: r2 :: rest, hi, htwo, hok =>
    rw [connB_many] at hi
    have hpre : preOf L (r1 :: r2 :: rest) ≠ [] := by
      obtain ⟨_, _, a, b, _, e, _⟩ := htwo r1 List.mem_cons_self
      simp [preOf, e, RLoc.pre]
    have hpost : postOf L (r1 :: r2 :: rest) ≠ [] := by
      obtain ⟨_, _, a, b, _, e, _⟩ := htwo r1 List.mem_cons_self
      simp [postOf, e, RLoc.post]
    obtain ⟨⟨q1, hq1, e1⟩, _⟩ := hullP_attained _ hpre
    obtain ⟨_, ⟨q2, hq2, e2⟩⟩ := hullP_attained _ hpost
    -- the span attaining the smallest start, and the one attaining the largest end
    obtain ⟨ra, hra, hqa⟩ := List.mem_flatMap.1 hq1
    obtain ⟨la, hla, a, b, ela, era, ha1, ha2, ha3⟩ := htwo ra hra
    have hq1lo : q1.lo = a := by
      rw [era] at hqa
      simp only [RLoc.pre, List.mem_singleton] at hqa
      rw [hqa]; rfl
    obtain ⟨rb, hrb, hqb⟩ := List.mem_flatMap.1 hq2
    obtain ⟨lb, hlb, c, d, elb, erb, hb1, hb2, hb3⟩ := htwo rb hrb
    have hq2hi : q2.hi = d := by
      rw [erb] at hqb
      simp only [RLoc.post, List.mem_singleton] at hqb
      rw [hqb]; rfl
    split at hi
    · rw [mem_two] at hi
      simp only at hi
      rcases hi with hi | hi
      · exact ⟨la, hla, by rw [ela]; exact (twoArea_mem i).2 (Or.inl ⟨by omega, hi.2⟩)⟩
      · exact ⟨lb, hlb, by rw [elb]; exact (twoArea_mem i).2 (Or.inr ⟨hi.1, by omega⟩)⟩
    · rename_i hcond
      rw [mem_simple] at hi
      simp only at hi
      have hgt : (hullP (preOf L (r1 :: r2 :: rest))).lo < (hullP (postOf L (r1 :: r2 :: rest))).hi := by
        have : 0 < (hullP (preOf L (r1 :: r2 :: rest))).lo := by omega
        by_cases hh : (hullP (postOf L (r1 :: r2 :: rest))).hi ≤ (hullP (preOf L (r1 :: r2 :: rest))).lo
        · exact absurd ⟨this, hh⟩ hcond
        · omega
      by_cases hia : a ≤ i
      · exact ⟨la, hla, by rw [ela]; exact (twoArea_mem i).2 (Or.inl ⟨hia, hi.2⟩)⟩
      · exact ⟨lb, hlb, by rw [elb]; exact (twoArea_mem i).2 (Or.inr ⟨hi.1, by omega⟩)⟩

end ASV.CC
