/-
  C15 helper lemmas: `find_all_orfs` composed with the record's own gene lookup (C08's model of
  `Record.get_cds_features_within_location`): no ORF found shares more than `max_overlap` bases
  with ANY gene of the record — the genes the lookup hands over because the gap search steers
  clear of them, all the others because they share no base with the searched stretch.
-/
import ASV.Proofs.OrfGapsComplete
import ASV.Proofs.OrfArea
import ASV.Proofs.OrfCross
import ASV.Proofs.LookupOk
import ASV.Proofs.LocConnect
namespace ASV.Orf
open ASV

/-- every area of the loop lies beside every gene (stronger than missing its core: it also holds
    for genes shorter than twice the padding) -/
theorem intergenicLoop_beside (start «end» pad : Int) (hpad : 0 ≤ pad) :
    ∀ (gs : List Gene) (last : Int), start ≤ last → sortedByStart gs →
    ∀ a ∈ intergenicLoop start «end» pad gs last,
      last ≤ a.1 ∧ ∀ g ∈ gs, Beside g pad a.1 a.2 := by
  intro gs
  induction gs with
  | nil =>
    intro last hl _ a ha
    unfold intergenicLoop at ha
    split at ha
    · rw [List.mem_singleton] at ha; subst ha
      exact ⟨by simp only; omega, fun g hg => absurd hg List.not_mem_nil⟩
    · exact absurd ha List.not_mem_nil
  | cons g gs ih =>
    intro last hl hsorted a ha
    obtain ⟨hg, hrest⟩ := hsorted
    have tail : ∀ last', last ≤ last' → g.end - pad ≤ last' →
        a ∈ intergenicLoop start «end» pad gs last' →
        last ≤ a.1 ∧ ∀ h ∈ g :: gs, Beside h pad a.1 a.2 := by
      intro last' h1 h2 hmem
      obtain ⟨b1, b2⟩ := ih last' (by omega) hrest a hmem
      refine ⟨by omega, ?_⟩
      intro h hh
      rcases List.mem_cons.1 hh with rfl | hh
      · exact Or.inr (by omega)
      · exact b2 h hh
    unfold intergenicLoop at ha
    split at ha
    · rcases List.mem_cons.1 ha with rfl | ha
      · refine ⟨by simp only; omega, ?_⟩
        intro h hh
        rcases List.mem_cons.1 hh with rfl | hh
        · exact Or.inl (by simp only; omega)
        · have := hg h hh; exact Or.inl (by simp only; omega)
      · exact tail _ (by omega) (by omega) ha
    · split at ha
      · exact tail _ (by omega) (by omega) ha
      · exact tail last (by omega) (by omega) ha

/-- a stretch beside a gene shares at most `pad` bases with it -/
theorem overlap_of_beside (g : Gene) (pad x y : Int) (hpad : 0 ≤ pad) (h : Beside g pad x y) :
    overlapSize g x y ≤ pad := by
  unfold overlapSize; rcases h with h | h <;> omega

/-- `find_intergenic_areas`: every area shares at most `pad` bases with every gene -/
theorem findIntergenic_overlap (start «end» minLen pad : Int) (genes : List Gene) (hpad : 0 ≤ pad)
    (a : Int × Int)
    (ha : a ∈ findIntergenic start «end» genes minLen pad) (g : Gene) (hg : g ∈ genes)
    (x y : Int) (hx : a.1 ≤ x) (hy : y ≤ a.2) : overlapSize g x y ≤ pad := by
  unfold findIntergenic at ha
  have hm := (List.mem_filter.1 ha).1
  have hb := (intergenicLoop_beside start «end» pad hpad (sortGenes genes) start (Int.le_refl _)
    (sortGenes_sorted genes) a hm).2 g ((mem_sortGenes genes g).2 hg)
  apply overlap_of_beside g pad x y hpad
  rcases hb with hb | hb
  · exact Or.inl (by omega)
  · exact Or.inr (by omega)

/-! ### the record's genes -/

theorem within_simple_filter (genes : List Lookup.Gene) (hs : Lookup.Sorted genes) (hok : Lookup.GenesOK genes)
    (p : Part) (h0 : 0 ≤ p.lo) (h1 : p.lo < p.hi) :
    Lookup.within genes (.simple p) true = genes.filter fun g => Lookup.specKeeps true g.loc (.simple p) := by
  have hq : Lookup.QueryOK (.simple p) :=
    ⟨by simp [Loc.parts], fun x hx => by simp [Loc.parts] at hx; subst hx; exact ⟨h0, h1⟩⟩
  rw [Lookup.within_eq_spec hs hok _ true hq]
  simp [Lookup.specWithin, Loc.parts]

/-- one part of the search: the genes come from the record's lookup for `[st, en)`; any stretch
    inside a returned area shares at most `pad` bases with every gene of the record -/
theorem part_search_overlap (genes : List Lookup.Gene) (hs : Lookup.Sorted genes) (hok : Lookup.GenesOK genes)
    (st en minLen pad : Int) (strand : Strand) (hpad : 0 ≤ pad)
    (h0 : 0 ≤ st) (h1 : st < en) (a : Int × Int)
    (ha : a ∈ findIntergenic st en ((Lookup.within genes (.simple ⟨st, en, strand⟩) true).map geneOf) minLen pad)
    (x y : Int) (hx : a.1 ≤ x) (hy : y ≤ a.2) (g : Lookup.Gene) (hg : g ∈ genes)
    (gp : Part) (hgp : gp ∈ g.loc.parts) :
    exonOverlap gp x y ≤ pad := by
  rw [within_simple_filter genes hs hok ⟨st, en, strand⟩ h0 h1] at ha
  have hne : gp.lo < gp.hi := ((hok g hg).2.1 gp hgp).2
  by_cases hk : Lookup.specKeeps true g.loc (.simple ⟨st, en, strand⟩) = true
  · have := findIntergenic_overlap st en minLen pad _ hpad a ha (geneOf g)
      (List.mem_map.2 ⟨g, List.mem_filter.2 ⟨hg, hk⟩, rfl⟩) x y hx hy
    have hull := start_le_part g.loc gp hgp
    simp only [overlapSize, geneOf] at this
    simp only [exonOverlap]
    omega
  · -- the lookup leaves `g` out: it shares no base with `[st, en)`, and the area lies inside
    obtain ⟨s1, s2, _, _⟩ := findIntergenic_sound st en minLen pad _ hpad a ha
    have hdis : gp.hi ≤ st ∨ en ≤ gp.lo := by
      by_cases hd : gp.hi ≤ st ∨ en ≤ gp.lo
      · exact hd
      · exfalso
        apply hk
        simp only [Lookup.specKeeps, if_true, Lookup.specShares]
        rw [sharesPts_iff]
        refine ⟨max gp.lo st, ?_, ?_⟩
        · simp only [Loc.mem, List.any_eq_true]
          exact ⟨gp, hgp, by rw [Part.mem_iff]; omega⟩
        · simp only [Loc.mem, Loc.parts, List.any_cons, List.any_nil, Bool.or_false, Part.mem_iff]; omega
    simp only [exonOverlap]
    omega

theorem locOverlapOk_of_parts (gs : List Loc) (pad : Int) (l : Loc)
    (h : ∀ q ∈ l.parts, ∀ gl ∈ gs, ∀ gp ∈ gl.parts, exonOverlap gp q.lo q.hi ≤ pad) :
    locOverlapOk gs pad l = true := by
  simp only [locOverlapOk, List.all_eq_true, decide_eq_true_eq]
  exact h

theorem parts_in_area_nonneg (L : Int) (a : Int × Int) (l : Loc) (ha : 0 ≤ a.1)
    (h : locInArea L a l = true) : ∀ q ∈ l.parts, a.1 ≤ q.lo ∧ q.hi ≤ a.2 := by
  intro q hq
  simp only [locInArea, List.all_eq_true, Bool.and_eq_true, decide_eq_true_eq] at h
  have := (h q hq).2
  rw [if_pos (by omega)] at this
  simpa using this

/-- whole-record search and search of a single-stretch area: no ORF found shares more than `pad`
    bases with any gene of the record -/
theorem findAllOrfsRec_overlap_linear (rec : Seq) (genes : List Lookup.Gene) (hs : Lookup.Sorted genes)
    (hok : Lookup.GenesOK genes) (area : Option Part) (minLen pad : Int)
    (hL : 0 < rec.length) (hpad : 0 ≤ pad) (hmin : 0 ≤ minLen)
    (harea : ∀ p, area = some p → 0 ≤ p.lo ∧ p.lo < p.hi ∧ p.hi ≤ rec.length)
    (locs : List Loc) (h : findAllOrfsRec rec genes (area.map Loc.simple) minLen pad = some locs) :
    ∀ l ∈ locs, locOverlapOk (genes.map (·.loc)) pad l = true := by
  intro l hl
  apply locOverlapOk_of_parts
  intro q hq gl hgl gp hgp
  obtain ⟨g0, hg0, rfl⟩ := List.mem_map.1 hgl
  cases area with
  | none =>
    simp only [findAllOrfsRec, recordParts, Option.map_none, findAllOrfs, orfAreas, Option.bind_some] at h
    have hsound := fun a ha => findIntergenic_sound 0 rec.length minLen pad (genes.map geneOf) hpad a ha
    obtain ⟨a, ha, hin⟩ := scanAreas_in_areas rec minLen hL _ locs (fun a ha => by
      obtain ⟨h1, h2, h3, _⟩ := hsound a ha
      exact ⟨by omega, by omega, by omega, by omega⟩) h l hl
    obtain ⟨h1, _, _, _⟩ := hsound a ha
    obtain ⟨b1, b2⟩ := parts_in_area_nonneg _ a l h1 hin q hq
    have := findIntergenic_overlap 0 rec.length minLen pad _ hpad a ha (geneOf g0)
      (List.mem_map.2 ⟨g0, hg0, rfl⟩) q.lo q.hi b1 b2
    have hull := start_le_part g0.loc gp hgp
    simp only [overlapSize, geneOf] at this
    simp only [exonOverlap]
    omega
  | some p =>
    obtain ⟨p0, p1, p2⟩ := harea p rfl
    have hnc : Lookup.crosses (Loc.simple p) = false := rfl
    simp only [findAllOrfsRec, recordParts, Option.map_some, hnc, Bool.false_eq_true, if_false, findAllOrfs,
      orfAreas, Option.bind_some, Loc.start, Loc.end] at h
    have hsound := fun a ha => findIntergenic_sound p.lo p.hi minLen pad
      ((Lookup.within genes (.simple p) true).map geneOf) hpad a ha
    obtain ⟨a, ha, hin⟩ := scanAreas_in_areas rec minLen hL _ locs (fun a ha => by
      obtain ⟨h1, h2, h3, _⟩ := hsound a ha
      exact ⟨by omega, by omega, by omega, by omega⟩) h l hl
    obtain ⟨h1, _, _, _⟩ := hsound a ha
    obtain ⟨b1, b2⟩ := parts_in_area_nonneg _ a l (by omega) hin q hq
    have hp : p = ⟨p.lo, p.hi, p.strand⟩ := rfl
    rw [hp] at ha
    exact part_search_overlap genes hs hok p.lo p.hi minLen pad p.strand hpad p0 p1 a ha
      q.lo q.hi b1 b2 g0 hg0 gp hgp

/-- origin-crossing area `join{[a, L), [0, b)}` (`0 < b ≤ a < L`): the same -/
theorem findAllOrfsRec_overlap_crossing (rec : Seq) (genes : List Lookup.Gene) (hs : Lookup.Sorted genes)
    (hok : Lookup.GenesOK genes) (a b : Int) (s1 s2 : Strand) (minLen pad : Int)
    (hpad : 0 ≤ pad) (hmin : 0 ≤ minLen) (hb : 0 < b) (hba : b ≤ a) (haL : a < rec.length)
    (hcross : Lookup.crosses (.compound [⟨a, rec.length, s1⟩, ⟨0, b, s2⟩]) = true)
    (locs : List Loc)
    (h : findAllOrfsRec rec genes (some (.compound [⟨a, rec.length, s1⟩, ⟨0, b, s2⟩])) minLen pad = some locs) :
    ∀ l ∈ locs, locOverlapOk (genes.map (·.loc)) pad l = true := by
  have hL : 0 < rec.length := by omega
  simp only [findAllOrfsRec, recordParts, hcross, if_true, Loc.parts, List.map_cons, List.map_nil, findAllOrfs,
    orfAreas] at h
  generalize hW1 : (Lookup.within genes (.simple ⟨a, rec.length, s1⟩) true).map geneOf = W1 at h
  generalize hW2 : (Lookup.within genes (.simple ⟨0, b, s2⟩) true).map geneOf = W2 at h
  cases hareas : crossOriginIntergenic [(a, (rec.length : Int), W1), (0, b, W2)] rec.length minLen pad with
  | none => rw [hareas] at h; simp only [Option.bind_none, reduceCtorEq] at h
  | some areas =>
    rw [hareas] at h
    simp only [Option.bind_some] at h
    have hs1 := fun x hx => findIntergenic_sound a rec.length minLen pad W1 hpad x hx
    have hs2 := fun x hx => findIntergenic_sound 0 b minLen pad W2 hpad x hx
    -- every stretch inside an area of one of the two parts is fine
    have piece1 : ∀ x ∈ findIntergenic a rec.length W1 minLen pad, ∀ lo hi, x.1 ≤ lo → hi ≤ x.2 →
        ∀ g ∈ genes, ∀ gp ∈ g.loc.parts, exonOverlap gp lo hi ≤ pad := by
      intro x hx lo hi h1 h2 g hg gp hgp
      rw [← hW1] at hx
      exact part_search_overlap genes hs hok a rec.length minLen pad s1 hpad (by omega) haL x hx lo hi h1 h2 g hg gp hgp
    have piece2 : ∀ x ∈ findIntergenic 0 b W2 minLen pad, ∀ lo hi, x.1 ≤ lo → hi ≤ x.2 →
        ∀ g ∈ genes, ∀ gp ∈ g.loc.parts, exonOverlap gp lo hi ≤ pad := by
      intro x hx lo hi h1 h2 g hg gp hgp
      rw [← hW2] at hx
      exact part_search_overlap genes hs hok 0 b minLen pad s2 hpad (Int.le_refl _) hb x hx lo hi h1 h2 g hg gp hgp
    -- what the areas are
    have hcs := crossOrigin_sound _ rec.length minLen pad areas hareas
    have shape : ∀ x ∈ areas,
        (x ∈ findIntergenic a rec.length W1 minLen pad) ∨ (x ∈ findIntergenic 0 b W2 minLen pad) ∨
        (∃ pre ∈ findIntergenic a rec.length W1 minLen pad, ∃ post ∈ findIntergenic 0 b W2 minLen pad,
          pre.2 = rec.length ∧ post.1 = 0 ∧ x = (pre.1 - rec.length, post.2)) := by
      intro x hx
      rcases hcs x hx with ⟨p, hp, hm⟩ | ⟨p, hp, q, hq, pre, hpre, post, hpost, e1, e2, e3⟩
      · simp only [List.mem_cons, List.not_mem_nil, or_false] at hp
        rcases hp with rfl | rfl
        · exact Or.inl hm
        · exact Or.inr (Or.inl hm)
      · simp only [List.mem_cons, List.not_mem_nil, or_false] at hp hq
        rcases hp with rfl | rfl
        · rcases hq with rfl | rfl
          · have := (hs1 post hpost).1; omega
          · exact Or.inr (Or.inr ⟨pre, hpre, post, hpost, e1, e2, e3⟩)
        · have := (hs2 pre hpre).2.1; omega
    have hok' : ∀ x ∈ areas, AreaOk rec.length x := by
      intro x hx
      rcases shape x hx with hm | hm | ⟨pre, hpre, post, hpost, e1, e2, rfl⟩
      · obtain ⟨h1, h2, h3, _⟩ := hs1 x hm; exact ⟨by omega, by omega, by omega, by omega⟩
      · obtain ⟨h1, h2, h3, _⟩ := hs2 x hm; exact ⟨by omega, by omega, by omega, by omega⟩
      · obtain ⟨h1, h2, h3, _⟩ := hs1 pre hpre
        obtain ⟨k1, k2, k3, _⟩ := hs2 post hpost
        exact ⟨by simp only; omega, by simp only; omega, by simp only; omega, by simp only; omega⟩
    intro l hl
    apply locOverlapOk_of_parts
    intro q hq gl hgl gp hgp
    obtain ⟨g0, hg0, rfl⟩ := List.mem_map.1 hgl
    obtain ⟨x, hx, hin⟩ := scanAreas_in_areas rec minLen hL areas locs hok' h l hl
    rcases shape x hx with hm | hm | ⟨pre, hpre, post, hpost, e1, e2, rfl⟩
    · obtain ⟨b1, b2⟩ := parts_in_area_nonneg _ x l (by have := (hs1 x hm).1; omega) hin q hq
      exact piece1 x hm q.lo q.hi b1 b2 g0 hg0 gp hgp
    · obtain ⟨b1, b2⟩ := parts_in_area_nonneg _ x l (by have := (hs2 x hm).1; omega) hin q hq
      exact piece2 x hm q.lo q.hi b1 b2 g0 hg0 gp hgp
    · -- the joined area: each part of the ORF lies in the stretch before or in the one after the origin
      by_cases hneg : pre.1 - (rec.length : Int) ≥ 0
      · -- degenerate: the pre-origin area is empty, the join is the post-origin area
        obtain ⟨b1, b2⟩ := parts_in_area_nonneg _ _ l hneg hin q hq
        simp only at b1 b2
        have := (hs1 pre hpre).2.1
        exact piece2 post hpost q.lo q.hi (by omega) b2 g0 hg0 gp hgp
      · simp only [locInArea, List.all_eq_true, Bool.and_eq_true, decide_eq_true_eq] at hin
        have hq2 := (hin q hq).2
        rw [if_neg hneg] at hq2
        simp only [Bool.or_eq_true, Bool.and_eq_true, decide_eq_true_eq] at hq2
        rcases hq2 with ⟨c1, c2⟩ | ⟨c1, c2⟩
        · exact piece1 pre hpre q.lo q.hi (by omega) (by omega) g0 hg0 gp hgp
        · exact piece2 post hpost q.lo q.hi (by omega) (by omega) g0 hg0 gp hgp

/-- a location made of pieces of another one overlaps genes no more than that one does -/
theorem locOverlapOk_mono (gs : List Loc) (pad : Int) (l r : Loc)
    (hin : ∀ q ∈ r.parts, ∃ p ∈ l.parts, p.lo ≤ q.lo ∧ q.lo < q.hi ∧ q.hi ≤ p.hi ∧ q.strand = p.strand)
    (h : locOverlapOk gs pad l = true) : locOverlapOk gs pad r = true := by
  simp only [locOverlapOk, List.all_eq_true, decide_eq_true_eq] at h ⊢
  intro q hq gl hgl gp hgp
  obtain ⟨p, hp, h1, h2, h3, _⟩ := hin q hq
  have := h p hp gl hgl gp hgp
  simp only [exonOverlap] at this ⊢
  omega

/-! ### the final `sorted(new_features)` -/

theorem insertLoc_perm (x : Loc) (l : List Loc) : (insertLoc x l).Perm (x :: l) := by
  induction l with
  | nil => exact List.Perm.refl _
  | cons y ys ih =>
    unfold insertLoc
    split
    · exact ((List.Perm.cons y ih).trans (List.Perm.swap x y ys))
    · exact List.Perm.refl _

theorem sortLocs_perm (l : List Loc) : (sortLocs l).Perm l := by
  induction l with
  | nil => exact List.Perm.refl _
  | cons x xs ih =>
    show (insertLoc x (sortLocs xs)).Perm (x :: xs)
    exact (insertLoc_perm x _).trans (List.Perm.cons x ih)

theorem insertLoc_sorted (x : Loc) (l : List Loc)
    (h : l.Pairwise fun a b => Lookup.locLt b a = false) :
    (insertLoc x l).Pairwise fun a b => Lookup.locLt b a = false := by
  induction l with
  | nil => exact List.pairwise_singleton _ _
  | cons y ys ih =>
    unfold insertLoc
    rw [List.pairwise_cons] at h
    split
    · rename_i hyx
      refine List.Pairwise.cons ?_ (ih h.2)
      intro z hz
      rcases List.mem_cons.1 ((insertLoc_perm x ys).mem_iff.1 hz) with rfl | hz
      · rw [Lookup.locLt_true_iff] at hyx
        rw [Lookup.locLt_false_iff]
        omega
      · exact h.1 z hz
    · rename_i hyx
      have hyx' : Lookup.locLt y x = false := by simpa using hyx
      refine List.Pairwise.cons ?_ (List.Pairwise.cons h.1 h.2)
      intro z hz
      rcases List.mem_cons.1 hz with rfl | hz
      · exact hyx'
      · have := h.1 z hz
        rw [Lookup.locLt_false_iff] at this hyx' ⊢
        omega

theorem sortLocs_sorted (l : List Loc) : (sortLocs l).Pairwise fun a b => Lookup.locLt b a = false := by
  induction l with
  | nil => exact List.Pairwise.nil
  | cons x xs ih => exact insertLoc_sorted x _ ih

end ASV.Orf
