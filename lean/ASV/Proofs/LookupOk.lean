/-
  C08 helper lemmas, part 7: which histories succeed.  A history runs without an exception exactly when its
  calls are pairwise compatible (distinct gene locations and names, non-overlapping regions) and every area
  lies inside the record — a condition that does not depend on the order of the calls.
-/
import ASV.Proofs.LookupHist
namespace ASV.Lookup
open ASV

/-- two calls that do not exclude each other -/
def Compatible : Op → Op → Prop
  | .cds g, .cds h => g.loc ≠ h.loc ∧ g.id ≠ h.id
  | .area a, .area b => a.kind = .region → b.kind = .region → overlapsWith a.loc b.loc = false
  | _, _ => True

theorem Compatible.symm {x y : Op} (h : Compatible x y) : Compatible y x := by
  cases x <;> cases y <;> simp only [Compatible] at *
  · exact ⟨fun e => h.1 e.symm, fun e => h.2 e.symm⟩
  · intro hb ha
    have := h ha hb
    simp only [overlapsWith] at *
    rw [locationsOverlap_comm]; exact this

/-- the bounds assertions of the `add_<area>` methods -/
def InBounds (len : Int) : Op → Prop
  | .cds _ => True
  | .area a => 0 ≤ a.loc.start ∧ a.loc.end ≤ len

theorem addCds_eq {r : Rec} {g : Gene} (hk : keyExists g.loc = true)
    (h1 : ∀ f ∈ r.genes, f.loc ≠ g.loc) (h2 : ∀ f ∈ r.genes, f.id ≠ g.id) :
    addCds r g = .ok (linkCdsToParent { r with genes := ins r.genes g } g) := by
  have e1 : (r.genes.any fun f => f.loc == g.loc) = false := by
    rw [List.any_eq_false]; intro f hf; simpa using h1 f hf
  have e2 : (r.genes.any fun f => f.id == g.id) = false := by
    rw [List.any_eq_false]; intro f hf; simpa using h2 f hf
  simp only [Lookup.addCds, hk, e1, e2, Bool.not_true, Bool.false_eq_true, if_false, pure, Except.pure, ins]

theorem addCds_guards {r r' : Rec} {g : Gene} (h : addCds r g = .ok r') :
    (∀ f ∈ r.genes, f.loc ≠ g.loc) ∧ (∀ f ∈ r.genes, f.id ≠ g.id) := by
  refine ⟨?_, (addCds_ok h).1⟩
  unfold Lookup.addCds at h
  cases h1 : keyExists g.loc with
  | false => simp [h1, throw, throwThe, MonadExceptOf.throw] at h
  | true =>
    simp only [h1, Bool.not_true, Bool.false_eq_true, if_false] at h
    cases h2 : (r.genes.any fun f => f.loc == g.loc) with
    | true => simp [h2, throw, throwThe, MonadExceptOf.throw] at h
    | false =>
      rw [List.any_eq_false] at h2
      intro f hf; simpa using h2 f hf

theorem addArea_eq {r : Rec} {a : AreaT} (h1 : 0 ≤ a.loc.start) (h2 : a.loc.end ≤ r.len)
    (h3 : a.kind = .region → ∀ x ∈ r.regions, overlapsWith a.loc x.loc = false) :
    addArea r a = addFound (reg r a) a := by
  have e1 : ¬ a.loc.start < 0 := by omega
  have e2 : ¬ a.loc.end > r.len := by omega
  unfold addArea reg
  simp only [e1, e2, if_false]
  cases hk : a.kind with
  | proto => rfl
  | cand => rfl
  | sub => rfl
  | region =>
    have : (r.regions.any fun x => overlapsWith a.loc x.loc) = false := by
      rw [List.any_eq_false]; intro x hx; simp [h3 hk x hx]
    simp only [this, Bool.false_eq_true, if_false]

theorem addArea_bounds {r r' : Rec} {a : AreaT} (h : addArea r a = .ok r') : 0 ≤ a.loc.start ∧ a.loc.end ≤ r.len := by
  unfold addArea at h
  by_cases h1 : a.loc.start < 0
  · simp [h1, throw, throwThe, MonadExceptOf.throw] at h
  · by_cases h2 : a.loc.end > r.len
    · simp [h1, h2, throw, throwThe, MonadExceptOf.throw] at h
    · omega

/-- under the invariant, adding an area that passes the guards cannot raise, and nothing changes the length -/
theorem addFound_ok {seen : List Op} {r : Rec} (inv : Inv seen r) (a : AreaT) (ha : QueryOK a.loc) :
    ∃ r', addFound (reg r a) a = .ok r' ∧ r'.len = r.len := by
  obtain ⟨f1, f2, _⟩ := reg_frame r a
  have hL : ∀ g ∈ within r.genes a.loc false, containedBy g.loc a.loc = true := by
    intro g hg
    obtain ⟨hg', hk⟩ := (mem_within inv.sorted inv.ok a.loc false ha g).1 hg
    rw [containedBy_eq_spec (gene_le (inv.ok g hg'))]; simpa [specKeeps] using hk
  obtain ⟨r', hrun, eff⟩ := addAll_eff a (within r.genes a.loc false) (reg r a) hL
  exact ⟨r', by unfold addFound; rw [f2]; exact hrun, by rw [eff.len, f1]⟩

theorem step_len {seen : List Op} {r r' : Rec} (inv : Inv seen r) {op : Op} (hop : OpOK op)
    (h : step r op = .ok r') : r'.len = r.len := by
  cases op with
  | cds g =>
    obtain ⟨_, e⟩ := addCds_ok h
    rw [e, (linkCdsToParent_eff _ g).len]
  | area a =>
    obtain ⟨_, hf⟩ := addArea_ok h
    obtain ⟨r'', h1, h2⟩ := addFound_ok inv a hop
    rw [h1] at hf; injection hf with hf; rw [← hf]; exact h2

/-- a call succeeds exactly when it is compatible with every earlier call and inside the record -/
theorem step_ok_iff {seen : List Op} {r : Rec} (inv : Inv seen r) (op : Op) (hop : OpOK op) :
    (∃ r', step r op = .ok r') ↔ (∀ o ∈ seen, Compatible o op) ∧ InBounds r.len op := by
  cases op with
  | cds g =>
    simp only [step, InBounds, and_true]
    constructor
    · rintro ⟨r', h⟩
      obtain ⟨h1, h2⟩ := addCds_guards h
      intro o ho
      cases o with
      | cds g' =>
        have hg' := (inv.genesSeen g').2 ho
        exact ⟨h1 g' hg', h2 g' hg'⟩
      | area a => trivial
    · intro h
      have hk : keyExists g.loc = true := by
        obtain ⟨k, hk⟩ := hop.2.2
        simp [keyExists, hk]
      exact ⟨_, addCds_eq hk (fun f hf => (h _ ((inv.genesSeen f).1 hf)).1)
        (fun f hf => (h _ ((inv.genesSeen f).1 hf)).2)⟩
  | area a =>
    simp only [step, InBounds]
    constructor
    · rintro ⟨r', h⟩
      refine ⟨?_, addArea_bounds h⟩
      obtain ⟨hd, _⟩ := addArea_ok h
      intro o ho
      cases o with
      | cds g' => trivial
      | area b =>
        intro hb hka
        have := hd hka b ((inv.regionsSeen b).2 ⟨ho, hb⟩)
        simp only [overlapsWith] at *
        rw [locationsOverlap_comm]; exact this
    · rintro ⟨hc, h1, h2⟩
      have h3 : a.kind = .region → ∀ x ∈ r.regions, overlapsWith a.loc x.loc = false := by
        intro hk x hx
        obtain ⟨hs, hkx⟩ := (inv.regionsSeen x).1 hx
        have := hc _ hs hkx hk
        simp only [overlapsWith] at *
        rw [locationsOverlap_comm]; exact this
      obtain ⟨r', hr', _⟩ := addFound_ok inv a hop
      exact ⟨r', by rw [addArea_eq h1 h2 h3]; exact hr'⟩

/-- the calls of a history that runs through, and those of any history that would -/
def Valid (len : Int) (ops : List Op) : Prop := ops.Pairwise Compatible ∧ ∀ op ∈ ops, InBounds len op

theorem foldlM_ok_iff (len : Int) : ∀ (ops seen : List Op) (r0 : Rec), Inv seen r0 → r0.len = len →
    (∀ op ∈ ops, OpOK op) →
    ((∃ r, ops.foldlM step r0 = .ok r) ↔
      (∀ o ∈ seen, ∀ p ∈ ops, Compatible o p) ∧ ops.Pairwise Compatible ∧ ∀ op ∈ ops, InBounds len op)
  | [], seen, r0, _, _, _ => by simp [pure, Except.pure]
  | op :: ops, seen, r0, inv, hlen, hok => by
    have hop := hok op (by simp)
    have hstep := step_ok_iff inv op hop
    rw [hlen] at hstep
    simp only [List.foldlM_cons, bind, Except.bind]
    constructor
    · rintro ⟨r, hr⟩
      cases hs : step r0 op with
      | error e => rw [hs] at hr; cases hr
      | ok r1 =>
        rw [hs] at hr
        obtain ⟨hc, hb⟩ := hstep.1 ⟨r1, hs⟩
        have inv1 := inv.step op hop hs
        have hl1 : r1.len = len := by rw [step_len inv hop hs, hlen]
        obtain ⟨h1, h2, h3⟩ := (foldlM_ok_iff len ops (seen ++ [op]) r1 inv1 hl1
          (fun o ho => hok o (by simp [ho]))).1 ⟨r, hr⟩
        refine ⟨?_, ?_, ?_⟩
        · intro o ho p hp
          rcases List.mem_cons.1 hp with rfl | hp'
          · exact hc o ho
          · exact h1 o (by simp [ho]) p hp'
        · rw [List.pairwise_cons]
          exact ⟨fun p hp => h1 op (by simp) p hp, h2⟩
        · intro p hp
          rcases List.mem_cons.1 hp with rfl | hp'
          · exact hb
          · exact h3 p hp'
    · rintro ⟨h1, h2, h3⟩
      obtain ⟨h2a, h2b⟩ := List.pairwise_cons.1 h2
      obtain ⟨r1, hs⟩ := hstep.2 ⟨fun o ho => h1 o ho op (by simp), h3 op (by simp)⟩
      have inv1 := inv.step op hop hs
      have hl1 : r1.len = len := by rw [step_len inv hop hs, hlen]
      obtain ⟨r, hr⟩ := (foldlM_ok_iff len ops (seen ++ [op]) r1 inv1 hl1
        (fun o ho => hok o (by simp [ho]))).2
        ⟨by
          intro o ho p hp
          rcases List.mem_append.1 ho with ho' | ho'
          · exact h1 o ho' p (by simp [hp])
          · simp only [List.mem_singleton] at ho'; subst ho'; exact h2a p hp,
         h2b, fun p hp => h3 p (by simp [hp])⟩
      exact ⟨r, by rw [hs]; exact hr⟩

/-- a history of well-formed calls runs through iff it is valid -/
theorem run_ok_iff {len : Int} {ops : List Op} (hok : ∀ op ∈ ops, OpOK op) :
    (∃ r, run len ops = .ok r) ↔ Valid len ops := by
  have := foldlM_ok_iff len ops [] { len := len } (Inv.init len) rfl hok
  simpa [run, Valid] using this

theorem Valid.perm {len : Int} {ops₁ ops₂ : List Op} (hp : ops₁.Perm ops₂) (h : Valid len ops₁) : Valid len ops₂ :=
  ⟨(hp.pairwise_iff (fun h => Compatible.symm h)).1 h.1, fun op hop => h.2 op (hp.mem_iff.2 hop)⟩

end ASV.Lookup
