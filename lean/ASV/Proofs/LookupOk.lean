/-
  C08 helper lemmas, part 7: histories made of adding calls only — build-order independence and which of them
  succeed; observing calls return live values.
-/
import ASV.Proofs.LookupHist
namespace ASV.Lookup
open ASV

/-- `add_cds_feature` / `add_<area>` calls only (no clearing, no observing) -/
def Op.isAdd : Op → Bool
  | .cds _ => true
  | .area _ => true
  | _ => false

def AddsOnly (ops : List Op) : Prop := ∀ op ∈ ops, op.isAdd = true

theorem AddsOnly.perm {ops₁ ops₂ : List Op} (hp : ops₁.Perm ops₂) (h : AddsOnly ops₁) : AddsOnly ops₂ :=
  fun op hop => h op (hp.mem_iff.2 hop)

/-- what is alive after adding calls only: everything that was added -/
theorem live_adds : ∀ (ops : List Op) (L0 : Live), AddsOnly ops →
    (∀ g, g ∈ (ops.foldl Live.step L0).genes ↔ g ∈ L0.genes ∨ Op.cds g ∈ ops) ∧
    (∀ a, a ∈ (ops.foldl Live.step L0).regions ↔ a ∈ L0.regions ∨ (Op.area a ∈ ops ∧ a.kind = .region)) ∧
    (∀ a, a ∈ (ops.foldl Live.step L0).areas ↔ a ∈ L0.areas ∨ Op.area a ∈ ops)
  | [], L0, _ => by simp
  | op :: ops, L0, h => by
    have ih := live_adds ops (L0.step op) (fun o ho => h o (by simp [ho]))
    have hop := h op (by simp)
    simp only [List.foldl_cons]
    obtain ⟨i1, i2, i3⟩ := ih
    cases op with
    | cds g =>
      refine ⟨fun x => ?_, fun a => ?_, fun a => ?_⟩
      · rw [i1]; simp [Live.step]; grind
      · rw [i2]; simp [Live.step]
      · rw [i3]; simp [Live.step, Live.areas]
    | area b =>
      refine ⟨fun x => ?_, fun a => ?_, fun a => ?_⟩
      · rw [i1]; have : (L0.step (.area b)).genes = L0.genes := by simp only [Live.step]; cases b.kind <;> rfl
        rw [this]; simp
      · rw [i2]
        have : a ∈ (L0.step (.area b)).regions ↔ a ∈ L0.regions ∨ (a = b ∧ b.kind = .region) := by
          simp only [Live.step]; cases hk : b.kind <;> simp
        rw [this]; simp only [List.mem_cons, Op.area.injEq]
        constructor
        · rintro ((h1 | ⟨rfl, h1⟩) | ⟨h1, h2⟩)
          · exact Or.inl h1
          · exact Or.inr ⟨Or.inl rfl, h1⟩
          · exact Or.inr ⟨Or.inr h1, h2⟩
        · rintro (h1 | ⟨rfl | h1, h2⟩)
          · exact Or.inl (Or.inl h1)
          · exact Or.inl (Or.inr ⟨rfl, h2⟩)
          · exact Or.inr ⟨h1, h2⟩
      · rw [i3, Live.step_area_areas]; simp only [List.mem_cons, Op.area.injEq]; grind
    | _ => simp [Op.isAdd] at hop

theorem opsAreas_adds {ops : List Op} (h : AddsOnly ops) (a : AreaT) : a ∈ opsAreas ops ↔ Op.area a ∈ ops := by
  simp only [opsAreas, List.mem_flatMap]
  constructor
  · rintro ⟨op, hop, ha⟩
    have := h op hop
    cases op <;> simp [Op.isAdd, opAreas] at this ha
    subst ha; exact hop
  · intro ha; exact ⟨.area a, ha, by simp [opAreas]⟩

/-- the state after adding calls only, in terms of the calls -/
theorem adds_state {len : Int} {ops : List Op} {r : Rec} (hadd : AddsOnly ops) (hok : ∀ op ∈ ops, OpOK op)
    (hrun : run len ops = .ok r) :
    (∀ g, g ∈ r.genes ↔ Op.cds g ∈ ops) ∧ (∀ a, a ∈ r.regions ↔ (Op.area a ∈ ops ∧ a.kind = .region)) ∧
    (∀ a, a ∈ registered r ↔ Op.area a ∈ ops) := by
  have inv := (run_inv hok hrun).core
  obtain ⟨l1, l2, l3⟩ := live_adds ops {} hadd
  refine ⟨fun g => ?_, fun a => ?_, fun a => ?_⟩
  · rw [inv.genesLive]; simpa [liveAfter] using l1 g
  · rw [inv.regionsEq]; simpa [liveAfter] using l2 a
  · rw [registered_eq_live inv]; simpa [liveAfter, Live.areas] using l3 a

/-- after adding calls only the three relations are exactly "linked through what was added" -/
theorem adds_relations {len : Int} {ops : List Op} {r : Rec} (hadd : AddsOnly ops) (hok : ∀ op ∈ ops, OpOK op)
    (hrun : run len ops = .ok r) :
    (∀ x, x ∈ r.members ↔ ∃ g ∈ r.genes, ∃ d, Linked (registered r) g d ∧ x = (d.id, g.id)) ∧
    (∀ x, x ∈ r.defs ↔ ∃ g ∈ r.genes, ∃ d, Linked (registered r) g d ∧ defines g d = true ∧ x = (d.id, g.id)) ∧
    (∀ x, x ∈ r.sections ↔ ∃ g ∈ r.genes, ∃ d s, LinkedS (registered r) g d s ∧ x = ((d.id, s), g.id)) := by
  have inv := (run_inv hok hrun).core
  obtain ⟨_, _, s3⟩ := adds_state hadd hok hrun
  have hback : ∀ a ∈ opsAreas ops, a ∈ registered r := fun a ha => (s3 a).2 ((opsAreas_adds hadd a).1 ha)
  refine ⟨fun x => ⟨fun hx => ?_, ?_⟩, fun x => ⟨fun hx => ?_, ?_⟩, fun x => ⟨fun hx => ?_, ?_⟩⟩
  · obtain ⟨g, hg, d, hl, e⟩ := inv.membersSound x hx; exact ⟨g, hg, d, hl.mono hback, e⟩
  · rintro ⟨g, hg, d, hl, rfl⟩; exact inv.membersComplete g hg d hl
  · obtain ⟨g, hg, d, hl, hd, e⟩ := inv.defsSound trivial x hx; exact ⟨g, hg, d, hl.mono hback, hd, e⟩
  · rintro ⟨g, hg, d, hl, hd, rfl⟩; exact inv.defsComplete trivial g hg d hl hd
  · obtain ⟨g, hg, d, s, hl, e⟩ := inv.sectionsSound x hx; exact ⟨g, hg, d, s, hl.mono hback, e⟩
  · rintro ⟨g, hg, d, s, hl, rfl⟩; exact inv.sectionsComplete g hg d s hl

theorem LinkedS.congr {l₁ l₂ : List AreaT} (h : ∀ a, a ∈ l₁ ↔ a ∈ l₂) (g : Gene) (d : AreaT) (s : Section) :
    LinkedS l₁ g d s ↔ LinkedS l₂ g d s := by
  simp only [LinkedS, h]

/-- two orderings of the same adding calls end with the same genes, the same regions, the same
    area ↔ gene relation (with sections), the same defining genes -/
theorem order_independent_sets {len : Int} {ops₁ ops₂ : List Op} {r₁ r₂ : Rec} (hp : ops₁.Perm ops₂)
    (hadd : AddsOnly ops₁) (hok : ∀ op ∈ ops₁, OpOK op) (h1 : run len ops₁ = .ok r₁) (h2 : run len ops₂ = .ok r₂) :
    (∀ g, g ∈ r₁.genes ↔ g ∈ r₂.genes) ∧ (∀ a, a ∈ r₁.regions ↔ a ∈ r₂.regions)
    ∧ (∀ x, x ∈ r₁.members ↔ x ∈ r₂.members) ∧ (∀ x, x ∈ r₁.defs ↔ x ∈ r₂.defs)
    ∧ (∀ x, x ∈ r₁.sections ↔ x ∈ r₂.sections) := by
  have hok2 : ∀ op ∈ ops₂, OpOK op := fun op hop => hok op (hp.mem_iff.2 hop)
  obtain ⟨a1, a2, a3⟩ := adds_state hadd hok h1
  obtain ⟨b1, b2, b3⟩ := adds_state (hadd.perm hp) hok2 h2
  obtain ⟨m1, d1, s1⟩ := adds_relations hadd hok h1
  obtain ⟨m2, d2, s2⟩ := adds_relations (hadd.perm hp) hok2 h2
  have hg : ∀ g, g ∈ r₁.genes ↔ g ∈ r₂.genes := fun g => by rw [a1, b1, hp.mem_iff]
  have hr : ∀ a, a ∈ registered r₁ ↔ a ∈ registered r₂ := fun a => by rw [a3, b3, hp.mem_iff]
  have hl := fun g d s => LinkedS.congr hr g d s
  refine ⟨hg, fun a => by rw [a2, b2, hp.mem_iff], fun x => ?_, fun x => ?_, fun x => ?_⟩
  · rw [m1, m2]; simp only [hg, Linked, hl]
  · rw [d1, d2]; simp only [hg, Linked, hl]
  · rw [s1, s2]; simp only [hg, hl]

/-- … and every gene points to the same region -/
theorem order_independent_region {len : Int} {ops₁ ops₂ : List Op} {r₁ r₂ : Rec} (hp : ops₁.Perm ops₂)
    (hadd : AddsOnly ops₁) (hok : ∀ op ∈ ops₁, OpOK op) (h1 : run len ops₁ = .ok r₁) (h2 : run len ops₂ = .ok r₂) :
    ∀ g ∈ r₁.genes, r₁.regionOfGene g.id = r₂.regionOfGene g.id := by
  have hok2 : ∀ op ∈ ops₂, OpOK op := fun op hop => hok op (hp.mem_iff.2 hop)
  obtain ⟨hg, hr, _⟩ := order_independent_sets hp hadd hok h1 h2
  intro g hg1
  have hg2 := (hg g).1 hg1
  obtain ⟨a1, n1⟩ := region_of_gene h1 hok hg1
  obtain ⟨a2, n2⟩ := region_of_gene h2 hok2 hg2
  by_cases hex : ∃ a ∈ r₁.regions, containedBy g.loc a.loc = true
  · obtain ⟨a, ha, hc⟩ := hex
    rw [a1 a ha hc, a2 a ((hr a).1 ha) hc]
  · have hnone : ∀ a ∈ r₁.regions, containedBy g.loc a.loc = false := by
      intro a ha
      cases hc : containedBy g.loc a.loc
      · rfl
      · exact absurd ⟨a, ha, hc⟩ hex
    rw [n1 hnone, n2 (fun a ha => hnone a ((hr a).2 ha))]

/-! ### observing calls return the live values -/

theorem run_snoc {len : Int} {ops : List Op} {op : Op} {r' : Rec} (h : run len (ops ++ [op]) = .ok r') :
    ∃ r, run len ops = .ok r ∧ step r op = .ok r' := by
  simp only [run, List.foldlM_append, List.foldlM_cons, List.foldlM_nil, bind, Except.bind] at h
  cases hr : List.foldlM step { len := len } ops with
  | error e => rw [hr] at h; cases h
  | ok r =>
    rw [hr] at h
    refine ⟨r, hr, ?_⟩
    simp only [] at h
    cases hs : step r op with
    | error e => rw [hs] at h; cases h
    | ok r1 => rw [hs] at h; simpa [pure, Except.pure] using h

/-! ### position of a gene in a collection's list -/

theorem indexIn_some {x : Nat} : ∀ {l : List Nat} {i : Nat}, indexIn x l = some i →
    l[i]? = some x ∧ ∀ j < i, l[j]? ≠ some x
  | [], _, h => by simp [indexIn] at h
  | y :: ys, i, h => by
    simp only [indexIn] at h
    by_cases hy : (y == x) = true
    · simp only [hy, if_true, Option.some.injEq] at h
      subst h
      exact ⟨by simpa using hy, fun j hj => by omega⟩
    · simp only [hy, if_false, Bool.false_eq_true] at h
      cases hr : indexIn x ys with
      | none => rw [hr] at h; simp at h
      | some k =>
        rw [hr] at h; simp at h; subst h
        obtain ⟨h1, h2⟩ := indexIn_some hr
        refine ⟨by simpa using h1, ?_⟩
        intro j hj
        cases j with
        | zero => simpa using hy
        | succ j => simpa using h2 j (by omega)

theorem indexIn_none {x : Nat} : ∀ {l : List Nat}, indexIn x l = none ↔ x ∉ l
  | [] => by simp [indexIn]
  | y :: ys => by
    simp only [indexIn]
    by_cases hy : (y == x) = true
    · have : y = x := by simpa using hy
      simp [hy, this]
    · have hne : ¬ x = y := by
        intro e; apply hy; simp [e]
      simp only [hy, if_false, Bool.false_eq_true, Option.map_eq_none_iff, indexIn_none (l := ys), List.mem_cons, hne, false_or]

end ASV.Lookup
