/-
  C17 helper lemmas, generic part: a sort whose key separates the members of a container gives
  one result for every enumeration of the container; sorting commutes with field-preserving
  relations.  (The sort is `ASV.Refine.sortBy`, the stable insertion sort modelling `sorted`.)
-/
import ASV.Proofs.Sort
import ASV.Model.Determinism
import ASV.Spec.Determinism
namespace ASV.Determinism
open ASV.Refine

variable {α : Type}

/-- uniqueness of sorted permutations: total + transitive order, antisymmetric on the members -/
theorem sortBy_eq_of_perm_on {le : α → α → Bool} (total : ∀ a b, le a b = true ∨ le b a = true)
    (trans : ∀ a b c, le a b = true → le b c = true → le a c = true) {l₁ l₂ : List α}
    (antisymm : ∀ a ∈ l₁, ∀ b ∈ l₁, le a b = true → le b a = true → a = b)
    (h : l₁.Perm l₂) : sortBy le l₁ = sortBy le l₂ := by
  apply List.Perm.eq_of_pairwise (le := fun x y => le x y = true)
  · intro a b ha hb hab hba
    exact antisymm a ((mem_sortBy le).mp ha) b (h.mem_iff.mpr ((mem_sortBy le).mp hb)) hab hba
  · exact sortBy_pairwise total trans l₁
  · exact sortBy_pairwise total trans l₂
  · exact (sortBy_perm le l₁).trans (h.trans (sortBy_perm le l₂).symm)

/-- the same for `sorted(container, key=key)`: a linear order on the keys and a key that is
    injective on the members -/
theorem sortBy_key_eq_of_perm {κ : Type} {leK : κ → κ → Bool} (key : α → κ)
    (total : ∀ a b, leK a b = true ∨ leK b a = true)
    (trans : ∀ a b c, leK a b = true → leK b c = true → leK a c = true)
    (antisymm : ∀ a b, leK a b = true → leK b a = true → a = b) {l₁ l₂ : List α}
    (inj : ∀ a ∈ l₁, ∀ b ∈ l₁, key a = key b → a = b) (h : l₁.Perm l₂) :
    sortBy (fun a b => leK (key a) (key b)) l₁ = sortBy (fun a b => leK (key a) (key b)) l₂ :=
  sortBy_eq_of_perm_on (fun a b => total (key a) (key b)) (fun a b c => trans (key a) (key b) (key c))
    (fun a ha b hb hab hba => inj a ha b hb (antisymm _ _ hab hba)) h

/-- two duplicate-free enumerations of one set are permutations of each other -/
theorem perm_of_same_set {l₁ l₂ : List α} (n₁ : l₁.Nodup) (n₂ : l₂.Nodup) (h : ∀ x, x ∈ l₁ ↔ x ∈ l₂) :
    l₁.Perm l₂ :=
  (List.perm_ext_iff_of_nodup n₁ n₂).mpr h

/-! ### the orders used by the stages -/

theorem leInt_total (a b : Int) : leInt a b = true ∨ leInt b a = true := by
  simp only [leInt, decide_eq_true_eq]; omega
theorem leInt_trans (a b c : Int) : leInt a b = true → leInt b c = true → leInt a c = true := by
  simp only [leInt, decide_eq_true_eq]; omega
theorem leInt_antisymm (a b : Int) : leInt a b = true → leInt b a = true → a = b := by
  simp only [leInt, decide_eq_true_eq]; omega

theorem sortedNames_perm {l₁ l₂ : List Int} (h : l₁.Perm l₂) : sortedNames l₁ = sortedNames l₂ :=
  sortBy_eq_of_perm leInt_total leInt_trans leInt_antisymm h

theorem mem_sortedNames {l : List Int} {x : Int} : x ∈ sortedNames l ↔ x ∈ l := mem_sortBy leInt

theorem keyLe_total (a b : Int × Int × Int × Int × Int) : keyLe a b = true ∨ keyLe b a = true := by
  obtain ⟨a1, a2, a3, a4, a5⟩ := a; obtain ⟨b1, b2, b3, b4, b5⟩ := b
  simp only [keyLe, decide_eq_true_eq]; omega
theorem keyLe_trans (a b c : Int × Int × Int × Int × Int) : keyLe a b = true → keyLe b c = true → keyLe a c = true := by
  obtain ⟨a1, a2, a3, a4, a5⟩ := a; obtain ⟨b1, b2, b3, b4, b5⟩ := b; obtain ⟨c1, c2, c3, c4, c5⟩ := c
  simp only [keyLe, decide_eq_true_eq]; omega
theorem keyLe_antisymm (a b : Int × Int × Int × Int × Int) : keyLe a b = true → keyLe b a = true → a = b := by
  obtain ⟨a1, a2, a3, a4, a5⟩ := a; obtain ⟨b1, b2, b3, b4, b5⟩ := b
  simp only [keyLe, decide_eq_true_eq, Prod.mk.injEq]; omega

/-! ### sorting commutes with a relation that preserves what the comparison reads -/

theorem insertBy_forall₂ {β : Type} {R : α → β → Prop} {le : α → α → Bool} {le' : β → β → Bool}
    (hle : ∀ a a' b b', R a a' → R b b' → le a b = le' a' b') {a : α} {a' : β} (ha : R a a') :
    ∀ {l : List α} {l' : List β}, Pointwise R l l' → Pointwise R (insertBy le a l) (insertBy le' a' l')
  | _, _, .nil => by simp only [insertBy]; exact .cons ha .nil
  | _, _, .cons (a := b) (b := b') (l₁ := l) (l₂ := l') hb hl => by
    simp only [insertBy, hle a a' b b' ha hb]
    split
    · exact .cons ha (.cons hb hl)
    · exact .cons hb (insertBy_forall₂ hle ha hl)

theorem sortBy_forall₂ {β : Type} {R : α → β → Prop} {le : α → α → Bool} {le' : β → β → Bool}
    (hle : ∀ a a' b b', R a a' → R b b' → le a b = le' a' b') :
    ∀ {l : List α} {l' : List β}, Pointwise R l l' → Pointwise R (sortBy le l) (sortBy le' l')
  | _, _, .nil => by simp only [sortBy]; exact .nil
  | _, _, .cons ha hl => by
    simp only [sortBy]
    exact insertBy_forall₂ hle ha (sortBy_forall₂ hle hl)

theorem map_eq_of_forall₂ {β γ : Type} {R : α → β → Prop} {f : α → γ} {g : β → γ}
    (hfg : ∀ a b, R a b → f a = g b) : ∀ {l : List α} {l' : List β}, Pointwise R l l' → l.map f = l'.map g
  | _, _, .nil => rfl
  | _, _, .cons ha hl => by simp only [List.map_cons, hfg _ _ ha, map_eq_of_forall₂ hfg hl]

theorem flatten_forall₂ {β : Type} {R : α → β → Prop} :
    ∀ {g : List (List α)} {g' : List (List β)}, Pointwise (Pointwise R) g g' →
      Pointwise R g.flatten g'.flatten
  | _, _, .nil => .nil
  | _, _, .cons h t => by
    simp only [List.flatten_cons]
    exact append_forall₂ h (flatten_forall₂ t)
where
  append_forall₂ {β : Type} {R : α → β → Prop} : ∀ {l₁ : List α} {l₁' : List β} {l₂ : List α} {l₂' : List β},
      Pointwise R l₁ l₁' → Pointwise R l₂ l₂' → Pointwise R (l₁ ++ l₂) (l₁' ++ l₂')
    | _, _, _, _, .nil, h₂ => h₂
    | _, _, _, _, .cons h t, h₂ => .cons h (append_forall₂ t h₂)

end ASV.Determinism
