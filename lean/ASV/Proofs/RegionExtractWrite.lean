/-
  C12: `write_to_genbank` does not raise — under `wfInput` every call of `offset_location` succeeds (the base
  record is built), under `consistent` the core locations can be moved, and under `writable` every dictionary
  lookup of `_adjust_features` finds its key and the motif texts read back.
-/
import ASV.Proofs.RegionExtractFinal
set_option linter.unusedSimpArgs false
namespace ASV.RegionExtract
open ASV

theorem mapE_ok_of_forall {α β} (f : α → E β) : ∀ (l : List α), (∀ a ∈ l, ∃ b, f a = .ok b) → ∃ r, mapE f l = .ok r
  | [], _ => ⟨[], rfl⟩
  | a :: as, h => by
    obtain ⟨b, hb⟩ := h a (by simp)
    obtain ⟨bs, hbs⟩ := mapE_ok_of_forall f as (fun x hx => h x (by simp [hx]))
    exact ⟨b :: bs, by simp [mapE, hb, hbs]⟩

theorem dictGet_ok_of_key {α} (d : List (Int × α)) (k : Int) (h : hasKey d k = true) : ∃ v, dictGet d k = .ok v := by
  unfold hasKey at h
  simp only [List.contains_iff_mem, List.mem_map] at h
  obtain ⟨kv, hkv, hk⟩ := h
  unfold dictGet
  cases hf : d.find? (·.1 == k) with
  | some x => exact ⟨x.2, rfl⟩
  | none =>
    exfalso
    have := List.find?_eq_none.1 hf kv hkv
    simp [hk] at this

/-- a key of the areas is a key of their renumbering -/
theorem renumber_ok (areas : List (Int × Loc)) (rd : RegionData) (L : Int) (hnd : (areas.map (·.1)).Nodup)
    (k : Int) (h : hasKey areas k = true) : ∃ m, dictGet (numberByPosition areas rd L) k = .ok m := by
  unfold hasKey at h
  simp only [List.contains_iff_mem, List.mem_map] at h
  obtain ⟨⟨a, la⟩, hkv, hk⟩ := h
  simp only at hk
  subst hk
  exact (numberByPosition_spec areas rd L hnd).1 a la hkv

theorem hasKey_protoAreas (rd : RegionData) (k : Int) : hasKey (protoAreas rd) k = hasKey (protoDict rd) k := by
  unfold hasKey protoAreas
  rw [List.map_map]; rfl

theorem renumberList_ok (areas : List (Int × Loc)) (rd : RegionData) (L : Int) (hnd : (areas.map (·.1)).Nodup)
    (xs : List Int) (h : xs.all (hasKey areas) = true) : ∃ ys, renumberList (numberByPosition areas rd L) xs = .ok ys := by
  unfold renumberList
  split
  · exact ⟨xs, rfl⟩
  · exact mapE_ok_of_forall _ xs (fun x hx => renumber_ok areas rd L hnd x (List.all_eq_true.1 h x hx))

theorem adjustMotifLoc_ok (t : String) (rd : RegionData) (L : Int) (h : textOK (some t) = true) :
    ∃ u, adjustMotifLoc t rd L = .ok u := by
  unfold textOK at h
  unfold adjustMotifLoc
  cases hl : locFromString t with
  | none => simp [hl] at h
  | some loc =>
    simp only [hl] at h ⊢
    have hne : loc.parts ≠ [] := by simpa using h
    obtain ⟨p, ps, hps⟩ := List.exists_cons_of_ne_nil hne
    simp only [hps, List.map_cons, buildLocationFromOthers, bind, Except.bind, pure, Except.pure]
    exact ⟨_, rfl⟩

theorem adjustMotif_ok (q : Quals) (rd : RegionData) (L : Int) (h1 : textOK q.leaderLoc = true) (h2 : textOK q.tailLoc = true) :
    ∃ q', adjustMotif q rd L = .ok q' := by
  unfold adjustMotif
  cases hle : q.leaderLoc with
  | none =>
    cases hta : q.tailLoc with
    | none => simp only [bind, Except.bind, pure, Except.pure]; exact ⟨_, rfl⟩
    | some t =>
      rw [hta] at h2
      obtain ⟨u, hu⟩ := adjustMotifLoc_ok t rd L h2
      simp only [bind, Except.bind, pure, Except.pure, hu]; exact ⟨_, rfl⟩
  | some t1 =>
    rw [hle] at h1
    obtain ⟨u1, hu1⟩ := adjustMotifLoc_ok t1 rd L h1
    cases hta : q.tailLoc with
    | none => simp only [bind, Except.bind, pure, Except.pure, hu1]; exact ⟨_, rfl⟩
    | some t =>
      rw [hta] at h2
      obtain ⟨u, hu⟩ := adjustMotifLoc_ok t rd L h2
      simp only [bind, Except.bind, pure, Except.pure, hu, hu1]; exact ⟨_, rfl⟩

theorem adjustFeature_ok (rd : RegionData) (L : Int) (g0 : BioFeature) (hadj : adjustable rd g0 = true)
    (hcore : ∀ p, p ∈ (protoDict rd).map (·.2) → ∃ newLoc, offsetLocation p.core (-rd.start) L = .ok newLoc) :
    ∃ g, adjustFeature rd L (renumbering rd L) g0 = .ok g := by
  have hndP : ((protoAreas rd).map (·.1)).Nodup := by unfold protoAreas; rw [List.map_map]; exact protoDict_nodup rd
  unfold adjustable at hadj
  unfold adjustFeature
  by_cases h1 : (g0.type == "region") = true
  · simp only [h1, if_true, Bool.and_eq_true] at hadj ⊢
    obtain ⟨c, hc⟩ := renumberList_ok (candDict rd) rd L (candDict_nodup rd) _ hadj.1
    obtain ⟨s', hs'⟩ := renumberList_ok (subDict rd) rd L (subDict_nodup rd) _ hadj.2
    have hc' : renumberList (renumbering rd L).cands g0.q.candNumbers = .ok c := hc
    have hs'' : renumberList (renumbering rd L).subs g0.q.subNumbers = .ok s' := hs'
    rw [hc', hs'']
    exact ⟨_, rfl⟩
  · simp only [h1, Bool.false_eq_true, if_false] at hadj ⊢
    by_cases h2 : (g0.type == "cand_cluster") = true
    · simp only [h2, if_true, Bool.and_eq_true] at hadj ⊢
      obtain ⟨ha, hb⟩ := hadj
      cases hn : g0.q.candNumber with
      | none => rw [hn] at ha; cases ha
      | some n =>
        rw [hn] at ha
        obtain ⟨m, hm⟩ := renumber_ok (candDict rd) rd L (candDict_nodup rd) n ha
        have hm' : dictGet (renumbering rd L).cands n = .ok m := hm
        cases hps : g0.q.protoNumbers with
        | none => rw [hps] at hb; cases hb
        | some ps =>
          rw [hps] at hb
          have hb' : ps.all (hasKey (protoAreas rd)) = true := by
            simp only [List.all_eq_true] at hb ⊢
            intro x hx; rw [hasKey_protoAreas]; exact hb x hx
          obtain ⟨ps', hps'⟩ := mapE_ok_of_forall (dictGet (numberByPosition (protoAreas rd) rd L)) ps
            (fun x hx => renumber_ok (protoAreas rd) rd L hndP x (List.all_eq_true.1 hb' x hx))
          have hps'' : mapE (dictGet (renumbering rd L).protos) ps = .ok ps' := hps'
          simp only [hm', hps'']
          exact ⟨_, rfl⟩
    · simp only [h2, Bool.false_eq_true, if_false] at hadj ⊢
      by_cases h3 : (g0.type == "protocluster" || g0.type == "proto_core") = true
      · simp only [h3, if_true] at hadj ⊢
        cases hn : g0.q.protoNumber with
        | none => rw [hn] at hadj; cases hadj
        | some n =>
          rw [hn] at hadj
          simp only at hadj ⊢
          obtain ⟨p, hp⟩ := dictGet_ok_of_key (protoDict rd) n hadj
          obtain ⟨m, hm⟩ := renumber_ok (protoAreas rd) rd L hndP n (by rw [hasKey_protoAreas]; exact hadj)
          have hm' : dictGet (renumbering rd L).protos n = .ok m := hm
          simp only [hp, hm']
          unfold adjustProtocluster
          split
          · obtain ⟨newLoc, hnl⟩ := hcore p (List.mem_map.2 ⟨(n, p), dictGet_mem _ n p hp, rfl⟩)
            simp only [hnl]
            exact ⟨_, rfl⟩
          · exact ⟨_, rfl⟩
      · simp only [h3, Bool.false_eq_true, if_false] at hadj ⊢
        by_cases h4 : (g0.type == "subregion") = true
        · simp only [h4, if_true] at hadj ⊢
          cases hn : g0.q.subNumber with
          | none => rw [hn] at hadj; cases hadj
          | some n =>
            rw [hn] at hadj
            simp only at hadj ⊢
            obtain ⟨m, hm⟩ := renumber_ok (subDict rd) rd L (subDict_nodup rd) n hadj
            have hm' : dictGet (renumbering rd L).subs n = .ok m := hm
            simp only [hm']
            exact ⟨_, rfl⟩
        · simp only [h4, Bool.false_eq_true, if_false] at hadj ⊢
          by_cases h5 : (g0.type == "CDS_motif") = true
          · simp only [h5, if_true, Bool.and_eq_true] at hadj ⊢
            obtain ⟨q', hq'⟩ := adjustMotif_ok g0.q rd L hadj.1 hadj.2
            simp only [hq']
            exact ⟨_, rfl⟩
          · simp only [h5, Bool.false_eq_true, if_false]
            exact ⟨_, rfl⟩

theorem adjustable_congr (rd : RegionData) (a b : BioFeature) (h1 : a.type = b.type) (h2 : a.q = b.q) :
    adjustable rd a = adjustable rd b := by
  unfold adjustable; rw [h1, h2]

/-- the source of a feature of the region record passes one of the tests that put features there -/
theorem origin_written (rd : RegionData) (rec : BioRecord) (g0 : BioFeature) (ho : Origin rd rec g0) :
    ∃ f ∈ rec.features, g0.type = f.type ∧ g0.q = f.q ∧ mayBeWritten rd rec.length f = true := by
  cases ho with
  | plain f hf hc h1 h2 hg => exact ⟨f, hf, by rw [hg], by rw [hg], by simp [mayBeWritten, hc, h1, h2]⟩
  | pre f hf hc h1 h2 hg => exact ⟨f, hf, by rw [hg], by rw [hg], by simp [mayBeWritten, hc, h1, h2]⟩
  | post f hf hc h1 h2 _ _ hg => exact ⟨f, hf, by rw [hg], by rw [hg], by simp [mayBeWritten, hc, h1, h2]⟩
  | cross f hf hc hb _ _ _ _ hg => exact ⟨f, hf, by rw [hg], by rw [hg], by simp [mayBeWritten, hc, hb]⟩

/-- under `wfInput` the base record is built without an exception -/
theorem base_ok (rd : RegionData) (rec : BioRecord) (hwf : wfInput rd rec = true) :
    ∃ v, buildBaseRecord rd rec = .ok v := by
  obtain ⟨hL, hcross, _, hfeat⟩ := wf_unpack rd rec hwf
  cases hres : buildBaseRecord rd rec with
  | ok v => exact ⟨v, rfl⟩
  | error e =>
    exfalso
    unfold buildBaseRecord at hres
    split at hres
    · rename_i hc
      obtain ⟨he0, hes, hsL⟩ := hcross hc
      -- the two loops succeed
      have hpostok : ∃ post, mapE (postStep rd rec.length) (sliceFeatures rec.features 0 rd.end) = .ok post := by
        apply mapE_ok_of_forall
        intro g hg
        obtain ⟨f, hf, h1, h2, hgf⟩ := slice_from _ _ _ g hg
        obtain ⟨⟨hne, hparts⟩, hok⟩ := hfeat f hf
        have hok := hok hc
        have hrot : f.loc.len ≠ rec.length ∧ oneStrand f.loc = true := by
          rcases hok with ⟨_, htwo⟩ | h
          · have := twoPart_end _ f.loc htwo hL; omega
          · exact h
        obtain ⟨s, hs⟩ := oneStrand_unpack f.loc hrot.2
        obtain ⟨r, hr, _⟩ := offset_rotates_general f.loc (rec.length - rd.start) rec.length s hne hparts hs
          (by omega) (by omega) (by omega) hrot.1
        refine ⟨{ g with loc := r }, ?_⟩
        unfold postStep
        rw [hgf]
        simp only [Int.neg_zero, shiftLoc_zero, hr]
      have hstepok : ∀ n, ∃ steps, mapE (crossStep rd rec.length n) rec.features = .ok steps := by
        intro n
        apply mapE_ok_of_forall
        intro f hf
        obtain ⟨⟨hne, hparts⟩, hok⟩ := hfeat f hf
        unfold crossStep
        cases hb : bridgesOrigin f.loc with
        | false => exact ⟨_, rfl⟩
        | true =>
          obtain ⟨r, hr, _⟩ := cross_rotated rd rec.length f.loc hL (by omega) hsL hne hparts hb (hok hc)
          simp only [if_true, hr]
          split <;> exact ⟨_, rfl⟩
      unfold buildRecordFromCrossOrigin at hres
      simp only [bind, Except.bind, pure, Except.pure] at hres
      split at hres
      · rename_i hx
        simp [hc] at hx
      · split at hres
        · rename_i e' he'
          obtain ⟨post, hpost⟩ := hpostok
          have : mapE (postStep rd rec.length) (sliceFeatures rec.features 0 rd.end) = .error e' := he'
          rw [hpost] at this; cases this
        · split at hres
          · rename_i e' he'
            unfold gatherCrossOrigin at he'
            split at he'
            · rename_i e'' he''
              obtain ⟨steps, hsteps⟩ := hstepok _
              rw [hsteps] at he''; cases he''
            · cases he'
          · cases hres
    · cases hres

/-- Under `wfInput`, `consistent` and `writable` `write_to_genbank` does not raise -/
theorem write_ok (rd : RegionData) (rec : BioRecord) (hwf : wfInput rd rec = true) (hcons : consistent rd rec = true)
    (hwr : writable rd rec = true) : ∃ w, writeToGenbank rd rec = .ok w := by
  obtain ⟨hL, hcross, hplain, hfeat⟩ := wf_unpack rd rec hwf
  obtain ⟨_, _, _, _, _, hlcore, hpcore, hincore, hshcore⟩ := consistent_unpack rd rec hcons
  obtain ⟨⟨seq, ws, parent⟩, hb⟩ := base_ok rd rec hwf
  -- core locations can be moved
  have hcore : ∀ p, p ∈ (protoDict rd).map (·.2) → ∃ newLoc, offsetLocation p.core (-rd.start) rec.length = .ok newLoc := by
    intro p hp
    obtain ⟨⟨n, p'⟩, hmem, rfl⟩ := List.mem_map.1 hp
    have hcoreA : (n, p'.core) ∈ coreAreas rd := List.mem_map.2 ⟨(n, p'), hmem, rfl⟩
    obtain ⟨f', hf', hf't, hf'n⟩ := hpcore _ hcoreA
    have hf'loc : p'.core = f'.loc := linkedKind_loc _ _ _ rec hlcore f' hf' hf't n hf'n p'.core hcoreA
    have hparts : ∀ q ∈ p'.core.parts, PartIn rec.length q := by rw [hf'loc]; exact (hfeat f' hf').1.2
    obtain ⟨newLoc, hoff, _⟩ := core_offset rd rec.length p'.core hL hplain hcross (hshcore _ hcoreA) hparts (hincore _ hcoreA)
    exact ⟨newLoc, hoff⟩
  have hadj : ∃ adjusted, adjustFeatures rd rec.length ws = .ok adjusted := by
    unfold adjustFeatures
    apply mapE_ok_of_forall
    intro w0 hw0
    obtain ⟨f, hf, hty, hq, hmay⟩ := origin_written rd rec w0.f (base_origin rd rec seq ws parent hb w0 hw0)
    have hwrf := List.all_eq_true.1 hwr f hf
    simp only [hmay, Bool.not_true, Bool.false_or] at hwrf
    obtain ⟨g, hg⟩ := adjustFeature_ok rd rec.length w0.f (by rw [adjustable_congr rd w0.f f hty hq]; exact hwrf) hcore
    exact ⟨{ w0 with f := g }, by simp only [hg]⟩
  obtain ⟨adjusted, hadj⟩ := hadj
  unfold writeToGenbank
  simp only [bind, Except.bind, pure, Except.pure, hb, hadj]
  exact ⟨_, rfl⟩

end ASV.RegionExtract
