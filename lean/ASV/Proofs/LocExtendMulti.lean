/-
  `Record.extend_location` for locations with two or more parts (C04): on a linear record, and on a circular
  record when neither end reaches the record edge, the outer ends move and nothing else changes.
-/
import ASV.Proofs.LocOffset
set_option linter.unusedSimpArgs false
namespace ASV

/-- `extend_location` of a location with two or more parts on a linear record: the outer ends move, nothing else -/
theorem extend_line_multi_eq (p0 pn : Part) (mid : List Part) (d mx : Int)
    (hs : (Loc.compound (p0 :: (mid ++ [pn]))).strand ≠ .rev)
    (hsep : p0.hi ≤ pn.lo) (h0 : p0.lo < p0.hi) (hn : pn.lo < pn.hi) (hd : 0 ≤ d) (hmx : pn.hi ≤ mx) (hlo : 0 ≤ p0.lo) :
    extendLocation (.compound (p0 :: (mid ++ [pn]))) d mx false =
      .ok (.compound (⟨max 0 (p0.lo - d), p0.hi, p0.strand⟩ :: (mid ++ [⟨pn.lo, min (pn.hi + d) mx, pn.strand⟩]))) := by
  have hrev : ((Loc.compound (p0 :: (mid ++ [pn]))).strand == Strand.rev) = false := by
    cases h : (Loc.compound (p0 :: (mid ++ [pn]))).strand <;> simp_all
  have o1 : partsOverlap p0 pn = false := by
    simp only [partsOverlap, Part.mem, Bool.or_eq_false_iff, Bool.and_eq_false_iff, decide_eq_false_iff_not]; omega
  have o2 : partsOverlap (⟨max 0 (p0.lo - d), p0.hi, p0.strand⟩ : Part) (⟨pn.lo, min (pn.hi + d) mx, pn.strand⟩ : Part) = false := by
    simp only [partsOverlap, Part.mem, Bool.or_eq_false_iff, Bool.and_eq_false_iff, decide_eq_false_iff_not]; omega
  have hl : ∀ (a : Part) (x : Part), (a :: (mid ++ [x])).getLast? = some x := by
    intro a x; rw [show a :: (mid ++ [x]) = (a :: mid) ++ [x] by simp, List.getLast?_append]; simp
  have hdl : ∀ (a : Part) (x : Part), (a :: (mid ++ [x])).dropLast = a :: mid := by
    intro a x; rw [show a :: (mid ++ [x]) = (a :: mid) ++ [x] by simp, List.dropLast_concat]
  have hl' : ∀ (x : Part), (mid ++ [x]).getLast? = some x := by intro x; simp
  have hdl' : ∀ (x : Part), (mid ++ [x]).dropLast = mid := by intro x; simp
  have m1 : ∀ n, mergeEnds n (p0 :: (mid ++ [pn])) = p0 :: (mid ++ [pn]) := by
    intro n; cases n with
    | zero => rfl
    | succ k => simp only [mergeEnds, hl', o1, Bool.false_eq_true, if_false]
  have m2 : ∀ n, mergeEnds n (⟨max 0 (p0.lo - d), p0.hi, p0.strand⟩ :: (mid ++ [⟨pn.lo, min (pn.hi + d) mx, pn.strand⟩]))
      = ⟨max 0 (p0.lo - d), p0.hi, p0.strand⟩ :: (mid ++ [⟨pn.lo, min (pn.hi + d) mx, pn.strand⟩]) := by
    intro n; cases n with
    | zero => rfl
    | succ k => simp only [mergeEnds, hl', o2, Bool.false_eq_true, if_false]
  simp only [extendLocation, Loc.parts, hrev, Bool.false_eq_true, if_false, List.head?_cons, hl, Bool.false_and,
    m1, setHead, setLast, hdl, Bool.and_false, List.cons_append, m2]
  cases mid <;> rfl

/-- the same on a circular record when neither end reaches the record edge and the location does not bridge the origin -/
theorem extend_ring_multi_nowrap_eq (p0 pn : Part) (mid : List Part) (d mx : Int)
    (hs : (Loc.compound (p0 :: (mid ++ [pn]))).strand ≠ .rev)
    (hb : bridgesOrigin (Loc.compound (p0 :: (mid ++ [pn]))) = false)
    (hsep : p0.hi ≤ pn.lo) (h0 : p0.lo < p0.hi) (hn : pn.lo < pn.hi) (hd : 0 ≤ d) (hmx : pn.hi + d ≤ mx) (hlo : d ≤ p0.lo) :
    extendLocation (.compound (p0 :: (mid ++ [pn]))) d mx true =
      .ok (.compound (⟨max 0 (p0.lo - d), p0.hi, p0.strand⟩ :: (mid ++ [⟨pn.lo, min (pn.hi + d) mx, pn.strand⟩]))) := by
  have hrev : ((Loc.compound (p0 :: (mid ++ [pn]))).strand == Strand.rev) = false := by
    cases h : (Loc.compound (p0 :: (mid ++ [pn]))).strand <;> simp_all
  have o1 : partsOverlap p0 pn = false := by
    simp only [partsOverlap, Part.mem, Bool.or_eq_false_iff, Bool.and_eq_false_iff, decide_eq_false_iff_not]; omega
  have o2 : partsOverlap (⟨max 0 (p0.lo - d), p0.hi, p0.strand⟩ : Part) (⟨pn.lo, min (pn.hi + d) mx, pn.strand⟩ : Part) = false := by
    simp only [partsOverlap, Part.mem, Bool.or_eq_false_iff, Bool.and_eq_false_iff, decide_eq_false_iff_not]; omega
  have hl : ∀ (a : Part) (x : Part), (a :: (mid ++ [x])).getLast? = some x := by
    intro a x; rw [show a :: (mid ++ [x]) = (a :: mid) ++ [x] by simp, List.getLast?_append]; simp
  have hdl : ∀ (a : Part) (x : Part), (a :: (mid ++ [x])).dropLast = a :: mid := by
    intro a x; rw [show a :: (mid ++ [x]) = (a :: mid) ++ [x] by simp, List.dropLast_concat]
  have hl' : ∀ (x : Part), (mid ++ [x]).getLast? = some x := by intro x; simp
  have m1 : ∀ n, mergeEnds n (p0 :: (mid ++ [pn])) = p0 :: (mid ++ [pn]) := by
    intro n; cases n with
    | zero => rfl
    | succ k => simp only [mergeEnds, hl', o1, Bool.false_eq_true, if_false]
  have m2 : ∀ n, mergeEnds n (⟨max 0 (p0.lo - d), p0.hi, p0.strand⟩ :: (mid ++ [⟨pn.lo, min (pn.hi + d) mx, pn.strand⟩]))
      = ⟨max 0 (p0.lo - d), p0.hi, p0.strand⟩ :: (mid ++ [⟨pn.lo, min (pn.hi + d) mx, pn.strand⟩]) := by
    intro n; cases n with
    | zero => rfl
    | succ k => simp only [mergeEnds, hl', o2, Bool.false_eq_true, if_false]
  have f1 : decide (p0.lo - d < 0) = false := by simp; omega
  have f2 : decide (pn.hi + d > mx) = false := by simp; omega
  simp only [extendLocation, Loc.parts, hrev, hb, Bool.false_eq_true, if_false, List.head?_cons, hl, Bool.false_and,
    Bool.and_false, Bool.true_and, f1, f2,
    m1, setHead, setLast, hdl, List.cons_append, m2]
  cases mid <;> rfl

/-- the bases of that result: the input's bases plus the two flanks, clipped to the record -/
theorem extend_line_multi_mem (p0 pn : Part) (mid : List Part) (d mx : Int)
    (h0 : p0.lo < p0.hi) (hn : pn.lo < pn.hi) (hd : 0 ≤ d) (hmx : pn.hi ≤ mx) (hlo : 0 ≤ p0.lo) (i : Int) :
    (Loc.compound (⟨max 0 (p0.lo - d), p0.hi, p0.strand⟩ :: (mid ++ [⟨pn.lo, min (pn.hi + d) mx, pn.strand⟩]))).mem i = true ↔
      ((Loc.compound (p0 :: (mid ++ [pn]))).mem i = true ∨ (max 0 (p0.lo - d) ≤ i ∧ i < p0.lo) ∨ (pn.hi ≤ i ∧ i < min (pn.hi + d) mx)) := by
  simp only [Loc.mem, Loc.parts, List.any_cons, List.any_append, List.any_nil, Bool.or_false, Bool.or_eq_true, Part.mem_iff]
  constructor
  · rintro (h | h | h)
    · by_cases hx : p0.lo ≤ i
      · exact Or.inl (Or.inl ⟨hx, h.2⟩)
      · exact Or.inr (Or.inl ⟨h.1, by omega⟩)
    · exact Or.inl (Or.inr (Or.inl h))
    · by_cases hx : i < pn.hi
      · exact Or.inl (Or.inr (Or.inr ⟨h.1, hx⟩))
      · exact Or.inr (Or.inr ⟨by omega, h.2⟩)
  · rintro ((h | h | h) | h | h)
    · exact Or.inl ⟨by omega, h.2⟩
    · exact Or.inr (Or.inl h)
    · exact Or.inr (Or.inr ⟨h.1, by omega⟩)
    · exact Or.inl ⟨h.1, by omega⟩
    · exact Or.inr (Or.inr ⟨by omega, h.2⟩)
/-- reverse-strand location with two or more parts (Biopython order: descending), linear record or ring without wrap -/
theorem extend_multi_rev_eq (p0 pn : Part) (mid : List Part) (d mx : Int) (circ : Bool)
    (hs : (Loc.compound (p0 :: (mid ++ [pn])).reverse).strand = .rev)
    (hsep : p0.hi ≤ pn.lo) (h0 : p0.lo < p0.hi) (hn : pn.lo < pn.hi) (hd : 0 ≤ d) (hmx : pn.hi ≤ mx) (hlo : 0 ≤ p0.lo)
    (hc : circ = true → bridgesOrigin (Loc.compound (p0 :: (mid ++ [pn])).reverse) = false ∧ pn.hi + d ≤ mx ∧ d ≤ p0.lo) :
    extendLocation (.compound (p0 :: (mid ++ [pn])).reverse) d mx circ =
      .ok (.compound (⟨max 0 (p0.lo - d), p0.hi, p0.strand⟩ :: (mid ++ [⟨pn.lo, min (pn.hi + d) mx, pn.strand⟩])).reverse) := by
  have hrev : ((Loc.compound (p0 :: (mid ++ [pn])).reverse).strand == Strand.rev) = true := by rw [hs]; rfl
  have o1 : partsOverlap p0 pn = false := by
    simp only [partsOverlap, Part.mem, Bool.or_eq_false_iff, Bool.and_eq_false_iff, decide_eq_false_iff_not]; omega
  have o2 : partsOverlap (⟨max 0 (p0.lo - d), p0.hi, p0.strand⟩ : Part) (⟨pn.lo, min (pn.hi + d) mx, pn.strand⟩ : Part) = false := by
    simp only [partsOverlap, Part.mem, Bool.or_eq_false_iff, Bool.and_eq_false_iff, decide_eq_false_iff_not]; omega
  have hl : ∀ (a : Part) (x : Part), (a :: (mid ++ [x])).getLast? = some x := by
    intro a x; rw [show a :: (mid ++ [x]) = (a :: mid) ++ [x] by simp, List.getLast?_append]; simp
  have hdl : ∀ (a : Part) (x : Part), (a :: (mid ++ [x])).dropLast = a :: mid := by
    intro a x; rw [show a :: (mid ++ [x]) = (a :: mid) ++ [x] by simp, List.dropLast_concat]
  have hl' : ∀ (x : Part), (mid ++ [x]).getLast? = some x := by intro x; simp
  have m1 : ∀ n, mergeEnds n (p0 :: (mid ++ [pn])) = p0 :: (mid ++ [pn]) := by
    intro n; cases n with
    | zero => rfl
    | succ k => simp only [mergeEnds, hl', o1, Bool.false_eq_true, if_false]
  have m2 : ∀ n, mergeEnds n (⟨max 0 (p0.lo - d), p0.hi, p0.strand⟩ :: (mid ++ [⟨pn.lo, min (pn.hi + d) mx, pn.strand⟩]))
      = ⟨max 0 (p0.lo - d), p0.hi, p0.strand⟩ :: (mid ++ [⟨pn.lo, min (pn.hi + d) mx, pn.strand⟩]) := by
    intro n; cases n with
    | zero => rfl
    | succ k => simp only [mergeEnds, hl', o2, Bool.false_eq_true, if_false]
  cases circ with
  | false =>
    simp only [extendLocation, Loc.parts, hrev, if_true, List.reverse_reverse, List.head?_cons, hl, Bool.false_and,
      m1, setHead, setLast, hdl, Bool.and_false, List.cons_append, m2, Bool.false_eq_true, if_false]
    cases mid <;> rfl
  | true =>
    obtain ⟨hb, h1, h2⟩ := hc rfl
    have f1 : decide (p0.lo - d < 0) = false := by simp; omega
    have f2 : decide (pn.hi + d > mx) = false := by simp; omega
    simp only [extendLocation, Loc.parts, hrev, hb, if_true, List.reverse_reverse, List.head?_cons, hl, Bool.false_and,
      Bool.and_false, Bool.true_and, f1, f2, m1, setHead, setLast, hdl, List.cons_append, m2, Bool.false_eq_true, if_false]
    cases mid <;> rfl

theorem mem_reverse_compound (ps : List Part) (i : Int) :
    (Loc.compound ps.reverse).mem i = (Loc.compound ps).mem i := by
  simp [Loc.mem, Loc.parts, List.any_reverse]

end ASV
