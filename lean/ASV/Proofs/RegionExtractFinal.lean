/-
  C12: assembling `extract_reloads`: under `wfInput` and `consistent` the written file is numbered as a loading
  record numbers it, all its references by number resolve, its `core_location` texts read back to the cores, and
  the features references point at are the images of the original referents.
-/
import ASV.Proofs.RegionExtractReload
import ASV.Proofs.LocString
set_option linter.unusedSimpArgs false
namespace ASV.RegionExtract
open ASV

theorem chainFree_short (l : List Part) (h : l.length ≤ 2) : chainFree l = true := by
  match l, h with
  | [], _ => rfl
  | [_], _ => rfl
  | [_, _], _ => rfl
  | _ :: _ :: _ :: _, h => simp at h

theorem wrapPart_length (L : Int) (p : Part) : (wrapPart L p).length ≤ 2 := by
  unfold wrapPart; simp only; split <;> simp

theorem len_pos_of_parts (L : Int) (l : Loc) (hne : l.parts ≠ []) (hp : ∀ p ∈ l.parts, PartIn L p) : 0 < l.len := by
  unfold Loc.len
  have : ∀ ps : List Part, ps ≠ [] → (∀ p ∈ ps, PartIn L p) → 0 < (ps.map Part.len).sum := by
    intro ps
    induction ps with
    | nil => intro h; exact absurd rfl h
    | cons p ps ih =>
      intro _ h
      have hp := h p (by simp)
      unfold PartIn at hp
      by_cases hps : ps = []
      · subst hps; simp [Part.len]; omega
      · have := ih hps (fun q hq => h q (by simp [hq]))
        simp only [List.map_cons, List.sum_cons, Part.len] at this ⊢
        omega
  exact this l.parts hne hp

/-- a simple location moved back by `st` on a ring: the rotated bases -/
theorem simple_rotated (p : Part) (st L : Int) (hp : PartIn L p) (hst0 : 0 < st) (hstL : st < L) (hlen : p.hi - p.lo ≠ L) :
    ∃ r, offsetLocation (.simple p) (-st) L = .ok r ∧ r.parts ≠ [] ∧
      ∀ i, r.mem i = true ↔ (0 ≤ i ∧ i < L ∧ p.mem ((st + i) % L) = true) := by
  have hparts : ∀ q ∈ (Loc.simple p).parts, PartIn L q := by intro q hq; simp [Loc.parts] at hq; subst hq; exact hp
  obtain ⟨r, hr, _, hrl, hmem⟩ := offset_rotates_general (.simple p) (-st) L p.strand (by simp [Loc.parts]) hparts
    (by intro q hq; simp [Loc.parts] at hq; subst hq; rfl) (by omega) (by omega) (by omega)
    (by simpa [Loc.len, Loc.parts, Part.len] using hlen)
    (chainFree_short _ (by simp [rotPieces, Loc.parts]; exact wrapPart_length L _))
  refine ⟨r, hr, ?_, fun i => ?_⟩
  · intro he
    have h0 := len_pos_of_parts L (.simple p) (by simp [Loc.parts]) hparts
    rw [← hrl] at h0
    simp [Loc.len, he] at h0
  · rw [hmem i]
    have : i - -st = st + i := by omega
    rw [this]
    simp [Loc.mem, Loc.parts]

/-- what `_adjust_protocluster` makes of a core location: it covers the same bases -/
theorem core_offset (rd : RegionData) (L : Int) (core : Loc) (hL : 0 < L)
    (hplain : rd.crossesOrigin = false → 0 ≤ rd.start ∧ rd.end ≤ L)
    (hcross : rd.crossesOrigin = true → 0 < rd.end ∧ rd.end ≤ rd.start ∧ rd.start < L)
    (hshape : areaShape L rd core = true) (hparts : ∀ p ∈ core.parts, PartIn L p)
    (hin : insideRegion L rd core = true) :
    ∃ newLoc, offsetLocation core (-rd.start) L = .ok newLoc ∧ newLoc.parts ≠ [] ∧ SameBases L rd core newLoc := by
  have hne := areaShape_parts L rd core hshape
  by_cases hst : rd.start = 0
  · -- nothing to move (then the region does not run over the origin)
    have hc : rd.crossesOrigin = false := by
      cases hcr : rd.crossesOrigin with
      | false => rfl
      | true => have := hcross hcr; omega
    have hw : wraps rd = false := by rw [wraps_eq, hc]
    refine ⟨core, by simp [offsetLocation, hst, pure, Except.pure], hne, fun i => ?_⟩
    unfold insideRegion at hin
    simp only [hw, Bool.false_eq_true, if_false, List.all_eq_true, Bool.and_eq_true, decide_eq_true_eq] at hin
    simp only [regionLen, toRecord, hw, Bool.false_eq_true, if_false, hst]
    have e : (0 : Int) + i = i := by omega
    rw [e]
    constructor
    · intro h
      have hb := mem_bounds core i h
      have h1 := start_ge_of_parts core rd.start hne (fun p hp => (hin p hp).1)
      have h2 := end_le_of_parts core rd.end hne (fun p hp => (hin p hp).2)
      exact ⟨by omega, by omega, h⟩
    · intro h; exact h.2.2
  · unfold areaShape at hshape
    split at hshape
    · -- one part
      rename_i p
      have hp : PartIn L p := hparts p (by simp [Loc.parts])
      cases hc : rd.crossesOrigin with
      | false =>
        obtain ⟨h0, hE⟩ := hplain hc
        have hw : wraps rd = false := by rw [wraps_eq, hc]
        unfold insideRegion at hin
        simp only [hw, Bool.false_eq_true, if_false, Loc.parts, List.all_cons, List.all_nil, Bool.and_true,
          Bool.and_eq_true, decide_eq_true_eq] at hin
        have hse : rd.start < rd.end := by unfold PartIn at hp; omega
        obtain ⟨r, hr, hrne, hmem⟩ := simple_rotated p rd.start L hp (by omega) (by omega) (by unfold PartIn at hp; omega)
        refine ⟨r, hr, hrne, fun i => ?_⟩
        simp only [regionLen, toRecord, hw, Bool.false_eq_true, if_false, mem_simple]
        rw [hmem i, Part.mem_iff]
        constructor
        · rintro ⟨hi0, hiL, hm⟩
          rcases rot_cases rd.start i L (by omega) (by omega) hi0 hiL with ⟨_, e⟩ | ⟨_, e⟩ <;> rw [e] at hm <;>
            exact ⟨by omega, by omega, by omega, by omega⟩
        · rintro ⟨hi0, hlt, hm⟩
          have e : (rd.start + i) % L = rd.start + i := emod_small' _ L (by omega) (by omega)
          rw [e]
          exact ⟨hi0, by omega, hm⟩
      | true =>
        obtain ⟨he0, hes, hsL⟩ := hcross hc
        have hw : wraps rd = true := by rw [wraps_eq, hc]
        have hnb : bridgesOrigin (Loc.simple p) = false := rfl
        unfold insideRegion at hin
        simp only [hw, if_true, hnb, Bool.false_and, Bool.or_false, Loc.parts, List.all_cons, List.all_nil, Bool.and_true,
          Bool.or_eq_true, Bool.and_eq_true, decide_eq_true_eq] at hin
        obtain ⟨r, hr, hrne, hmem⟩ := simple_rotated p rd.start L hp (by omega) hsL (by unfold PartIn at hp; omega)
        refine ⟨r, hr, hrne, fun i => ?_⟩
        simp only [regionLen, toRecord, hw, if_true, mem_simple]
        rw [hmem i, Part.mem_iff]
        constructor
        · rintro ⟨hi0, hiL, hm⟩
          rcases rot_cases rd.start i L (by omega) hsL hi0 hiL with ⟨_, e⟩ | ⟨_, e⟩ <;> rw [e] at hm <;>
            exact ⟨by omega, by omega, by omega, by omega⟩
        · rintro ⟨hi0, hlt, hm⟩
          exact ⟨hi0, by omega, hm⟩
    · -- a pair over the origin: only in a region over the origin (a region from the origin was handled above)
      rename_i a b
      simp only [Bool.and_eq_true, Bool.or_eq_true, Bool.not_eq_true', decide_eq_true_eq, beq_iff_eq] at hshape
      obtain ⟨⟨⟨⟨⟨⟨⟨hsa, hsb⟩, h1⟩, h2⟩, h3⟩, h4⟩, h5⟩, h6⟩ := hshape
      obtain ⟨x, ahi, as⟩ := a
      obtain ⟨blo, y, bs⟩ := b
      simp only at hsa hsb h1 h2 h3 h4 h5 h6
      subst hsa hsb h1 h2
      cases hc : rd.crossesOrigin with
      | false =>
        exfalso
        obtain ⟨h0, hE⟩ := hplain hc
        have hw : wraps rd = false := by rw [wraps_eq, hc]
        unfold insideRegion at hin
        simp only [hw, Bool.false_eq_true, if_false, Loc.parts, List.all_cons, List.all_nil, Bool.and_true,
          Bool.and_eq_true, decide_eq_true_eq] at hin
        omega
      | true =>
        obtain ⟨he0, hes, hsL⟩ := hcross hc
        have hw : wraps rd = true := by rw [wraps_eq, hc]
        have hbr := bridges_two_fwd x y ahi .fwd (by decide) (by omega)
        unfold insideRegion at hin
        simp only [hw, if_true, hbr, Bool.true_and, Loc.parts, List.all_cons, List.all_nil, Bool.and_true,
          Bool.or_eq_true, Bool.and_eq_true, decide_eq_true_eq] at hin
        have hx : rd.start ≤ x := by omega
        have hy : y ≤ rd.end := by omega
        obtain ⟨r, hr, hcase⟩ := cross_two_fwd_exact x y rd.start ahi .fwd h3 h4 h5 (by omega) hsL
        obtain ⟨r', hr', hmem⟩ := cross_two_fwd x y rd.start ahi .fwd h3 h4 h5 (by omega) hsL
        rw [hr] at hr'; injection hr' with hr'; subst hr'
        refine ⟨r, hr, ?_, fun i => ?_⟩
        · rcases hcase with ⟨_, _, _, e, _⟩ | ⟨_, e, _⟩ | ⟨hno, _⟩
          · rw [e]; simp [Loc.parts]
          · rw [e]; simp [Loc.parts]
          · exfalso; omega
        · simp only [regionLen, toRecord, hw, if_true]
          rcases hcase with ⟨_, _, _, _, e⟩ | ⟨hyx, e, e2⟩ | ⟨hno, _⟩
          · rw [← e, hmem i]
            constructor
            · rintro ⟨hi0, hiL, hm⟩
              refine ⟨hi0, ?_, hm⟩
              rw [mem_two] at hm
              rcases rot_cases rd.start i ahi (by omega) hsL hi0 hiL with ⟨_, e'⟩ | ⟨_, e'⟩ <;> rw [e'] at hm <;>
                simp only at hm <;> omega
            · rintro ⟨hi0, hlt, hm⟩; exact ⟨hi0, by omega, hm⟩
          · -- all the way round
            have hm2 := hmem i
            rw [e2, mem_simple] at hm2
            simp only at hm2
            rw [e, mem_two]
            simp only
            constructor
            · intro hh
              have := hm2.1 ⟨by omega, by omega⟩
              exact ⟨this.1, by omega, this.2.2⟩
            · rintro ⟨hi0, hlt, _⟩; omega
          · exfalso; omega
    · cases hshape

theorem locFromString_locToString (l : Loc) (hne : l.parts ≠ []) : locFromString (locToString l) = some l := by
  unfold locFromString locToString
  simp only [String.toList_ofList]
  exact locFromChars_locChars l hne

theorem adjustFeature_core (rd : RegionData) (L : Int) (rn : Renumbering) (g0 g : BioFeature)
    (h : adjustFeature rd L rn g0 = .ok g) (ht : g0.type = "protocluster") :
    ∃ n p newLoc, g0.q.protoNumber = some n ∧ dictGet (protoDict rd) n = .ok p ∧
      offsetLocation p.core (-rd.start) L = .ok newLoc ∧ g.q.coreLoc = some (locToString newLoc) := by
  unfold adjustFeature at h
  have h1 : (g0.type == "region") = false := by rw [ht]; decide
  have h2 : (g0.type == "cand_cluster") = false := by rw [ht]; decide
  have h3 : (g0.type == "protocluster" || g0.type == "proto_core") = true := by rw [ht]; decide
  simp only [h1, h2, h3, Bool.false_eq_true, if_false, if_true] at h
  split at h
  · cases h
  · rename_i n hn
    split at h
    · cases h
    · rename_i p hp
      split at h
      · cases h
      · rename_i m hm
        unfold adjustProtocluster at h
        have h4 : (g0.type == "protocluster") = true := by rw [ht]; decide
        simp only [h4, if_true] at h
        split at h
        · cases h
        · rename_i newLoc hl
          injection h with h
          exact ⟨n, p, newLoc, hn, hp, hl, by rw [← h]⟩

/-- unpacking `consistent` -/
theorem consistent_unpack (rd : RegionData) (rec : BioRecord) (h : consistent rd rec = true) :
    (rec.features.map (·.tag)).Nodup ∧
    (∀ f ∈ rec.features, bridgesOrigin f.loc = true → f.loc.start = 0 ∧ f.loc.end = rec.length) ∧
    KindOK rd rec "protocluster" (·.q.protoNumber) (protoAreas rd) ∧
    KindOK rd rec "cand_cluster" (·.q.candNumber) (candDict rd) ∧
    KindOK rd rec "subregion" (·.q.subNumber) (subDict rd) ∧
    linkedKind "proto_core" (·.q.protoNumber) (coreAreas rd) rec = true ∧
    (∀ a ∈ coreAreas rd, ∃ f ∈ rec.features, f.type = "proto_core" ∧ f.q.protoNumber = some a.1) ∧
    (∀ a ∈ coreAreas rd, insideRegion rec.length rd a.2 = true) ∧
    (∀ a ∈ coreAreas rd, areaShape rec.length rd a.2 = true) := by
  unfold consistent at h
  simp only [Bool.and_eq_true] at h
  obtain ⟨⟨⟨⟨⟨⟨⟨⟨hlinked, htag⟩, hspan⟩, hkp⟩, hkc⟩, hks⟩, hlcore⟩, hkcore⟩, hshapecore⟩ := h
  unfold linked at hlinked
  simp only [Bool.and_eq_true, List.all_eq_true, List.mem_append] at hlinked
  obtain ⟨⟨⟨hl1, hl2⟩, hl3⟩, hshape⟩ := hlinked
  obtain ⟨hp1, hp2, hp3⟩ := consistentKind_unpack _ _ _ rd rec hkp
  obtain ⟨hc1, hc2, hc3⟩ := consistentKind_unpack _ _ _ rd rec hkc
  obtain ⟨hs1, hs2, hs3⟩ := consistentKind_unpack _ _ _ rd rec hks
  obtain ⟨hk1, _, hk3⟩ := consistentKind_unpack _ _ _ rd rec hkcore
  refine ⟨(nodupB_iff _).1 htag, ?_, ?_, ?_, ?_, hlcore, hk1, hk3, ?_⟩
  · intro f hf hb
    have := List.all_eq_true.1 hspan f hf
    simpa [hb] using this
  · exact { nodupKeys := by unfold protoAreas; rw [List.map_map]; exact protoDict_nodup rd
            shape := fun a ha => hshape a (.inl (.inl ha))
            link := hl1, present := hp1, distinct := hp2, inside := hp3
            renum := by
              intro g0 g hadj ht
              obtain ⟨n, m, hn, hm, hd⟩ := (adjustFeature_refs rd _ g0 g hadj).2.2.1 (.inl ht)
              exact ⟨n, m, hn, hm, hd⟩
            ofQ := fun a b e => by rw [e] }
  · exact { nodupKeys := candDict_nodup rd
            shape := fun a ha => hshape a (.inl (.inr ha))
            link := hl2, present := hc1, distinct := hc2, inside := hc3
            renum := by
              intro g0 g hadj ht
              obtain ⟨n, m, _, _, hn, hm, hd, _⟩ := (adjustFeature_refs rd _ g0 g hadj).2.1 ht
              exact ⟨n, m, hn, hm, hd⟩
            ofQ := fun a b e => by rw [e] }
  · exact { nodupKeys := subDict_nodup rd
            shape := fun a ha => hshape a (.inr ha)
            link := hl3, present := hs1, distinct := hs2, inside := hs3
            renum := by
              intro g0 g hadj ht
              obtain ⟨n, m, hn, hm, hd⟩ := (adjustFeature_refs rd _ g0 g hadj).2.2.2 ht
              exact ⟨n, m, hn, hm, hd⟩
            ofQ := fun a b e => by rw [e] }
  · exact List.all_eq_true.1 hshapecore

theorem through_range (areas : List (Int × Loc)) (rd : RegionData) (L : Int) (hnd : (areas.map (·.1)).Nodup)
    (xs ys : List Int) (h : Through (numberByPosition areas rd L) xs ys) :
    inRange areas.length ys = true := by
  obtain ⟨_, hrange, _⟩ := numberByPosition_spec areas rd L hnd
  unfold inRange
  simp only [List.all_eq_true, Bool.and_eq_true, decide_eq_true_eq]
  intro y hy
  obtain ⟨x, _, hd⟩ := mapE_mem _ xs ys h y hy
  have := hrange x y hd
  exact ⟨this.1, this.2.1⟩

/-- the written file is what a record loading it expects -/
theorem written_selfconsistent (rd : RegionData) (rec : BioRecord) (w : Written) (h : writeToGenbank rd rec = .ok w)
    (hwf : wfInput rd rec = true) (hcons : consistent rd rec = true) :
    numberedAsLoaded (·.q.protoNumber) (ofType "protocluster" w.extract.features) = true ∧
    numberedAsLoaded (·.q.candNumber) (ofType "cand_cluster" w.extract.features) = true ∧
    numberedAsLoaded (·.q.subNumber) (ofType "subregion" w.extract.features) = true ∧
    refsInRange w.extract.features = true ∧ CoresAgree w.extract.features := by
  obtain ⟨htags, hspan, okP, okC, okS, hlcore, hpcore, hincore, hshcore⟩ := consistent_unpack rd rec hcons
  have hlinked : linked rd rec = true := by
    unfold consistent at hcons; simp only [Bool.and_eq_true] at hcons; exact hcons.1.1.1.1.1.1.1.1
  obtain ⟨hfP, hfC, hfS⟩ := written_follow_load_order rd rec w h hwf hlinked
  obtain ⟨hnP, hlenP⟩ := kind_numbered rd rec w h hwf htags hspan _ _ _ okP hfP
  obtain ⟨hnC, hlenC⟩ := kind_numbered rd rec w h hwf htags hspan _ _ _ okC hfC
  obtain ⟨hnS, hlenS⟩ := kind_numbered rd rec w h hwf htags hspan _ _ _ okS hfS
  obtain ⟨hL, hcross, hplain, hfeat⟩ := wf_unpack rd rec hwf
  refine ⟨hnP, hnC, hnS, ?_, ?_⟩
  · -- every reference by number points at an area present in the file
    unfold refsInRange
    simp only [List.all_eq_true]
    intro g hg
    obtain ⟨f, hf, _, hty, hrefs⟩ := written_refs rd rec w h g hg
    rw [hlenC, hlenP, hlenS]
    by_cases h1 : g.type = "region"
    · obtain ⟨hc, hs⟩ := hrefs.1 (by rw [← hty]; exact h1)
      simp only [h1, beq_self_eq_true, if_true, Bool.and_eq_true]
      exact ⟨through_range _ rd _ okC.nodupKeys _ _ hc, through_range _ rd _ okS.nodupKeys _ _ hs⟩
    · have h1' : (g.type == "region") = false := by simpa using h1
      simp only [h1', Bool.false_eq_true, if_false]
      by_cases h2 : g.type = "cand_cluster"
      · obtain ⟨n, m, ps, ps', _, _, _, _, hps', hthr⟩ := hrefs.2.1 (by rw [← hty]; exact h2)
        simp only [h2, beq_self_eq_true, if_true, hps', Option.getD_some]
        exact through_range _ rd _ okP.nodupKeys _ _ hthr
      · have h2' : (g.type == "cand_cluster") = false := by simpa using h2
        simp only [h2', Bool.false_eq_true, if_false]
        by_cases h3 : g.type = "proto_core"
        · obtain ⟨n, m, _, hm, hd⟩ := hrefs.2.2.1 (.inr (by rw [← hty]; exact h3))
          simp only [h3, beq_self_eq_true, if_true, hm, Option.toList_some]
          exact through_range _ rd _ okP.nodupKeys [n] [m] (by
            unfold Through; simp only [mapE]
            have : dictGet (numberByPosition (protoAreas rd) rd rec.length) n = .ok m := hd
            rw [this])
        · have h3' : (g.type == "proto_core") = false := by simpa using h3
          simp only [h3', Bool.false_eq_true, if_false]
  · -- core locations
    intro g hg ht
    obtain ⟨g0, ho, hadj⟩ := written_origin rd rec w h g hg
    obtain ⟨_, hty, _⟩ := adjustFeature_same rd _ _ g0 g hadj
    have ht0 : g0.type = "protocluster" := by rw [← hty]; exact ht
    obtain ⟨n, p, newLoc, hn, hp, hoff, hcl⟩ := adjustFeature_core rd _ _ g0 g hadj ht0
    have hmemd := dictGet_mem _ n p hp
    have hcoreA : (n, p.core) ∈ coreAreas rd := List.mem_map.2 ⟨(n, p), hmemd, rfl⟩
    -- the proto_core feature of the record with this number
    obtain ⟨f', hf', hf't, hf'n⟩ := hpcore _ hcoreA
    have hf'loc : p.core = f'.loc := linkedKind_loc _ _ _ rec hlcore f' hf' hf't n hf'n p.core hcoreA
    have hparts : ∀ q ∈ p.core.parts, PartIn rec.length q := by rw [hf'loc]; exact (hfeat f' hf').1.2
    obtain ⟨newLoc', hoff', hne, hsame⟩ := core_offset rd rec.length p.core hL hplain hcross (hshcore _ hcoreA) hparts (hincore _ hcoreA)
    rw [hoff] at hoff'; injection hoff' with hoff'; subst hoff'
    refine ⟨locToString newLoc, newLoc, hcl, locFromString_locToString newLoc hne, ?_⟩
    -- the written proto_core feature
    obtain ⟨g', hg', hg't⟩ := written_contains_inside rd rec w h (fun hc => ⟨(hcross hc).1, (hcross hc).2.2⟩) f' hf'
      (hfeat f' hf').1.1 (by rw [← hf'loc]; exact hincore _ hcoreA)
      (fun _ hb => areaShape_twoPart _ rd _ (by rw [← hf'loc]; exact hshcore _ hcoreA) hb)
    obtain ⟨f'', hf'', ht'', hty'', hrefs''⟩ := written_refs rd rec w h g' hg'
    have e1 : f'' = f' := nodup_map_inj (·.tag) rec.features htags f'' f' hf'' hf' (by rw [← ht'', hg't])
    subst e1
    obtain ⟨f3, hf3, ht3, _, hsb⟩ := written_sameBases rd rec w h hwf g' hg'
    have e2 : f3 = f'' := nodup_map_inj (·.tag) rec.features htags f3 f'' hf3 hf'' (by rw [← ht3, ht''])
    subst e2
    obtain ⟨n', m', hn', hm', hd'⟩ := hrefs''.2.2.1 (.inr hf't)
    rw [hf'n] at hn'; injection hn' with hn'; subst hn'
    obtain ⟨n2, m2, hn2, hm2, hd2⟩ := (adjustFeature_refs rd _ g0 g hadj).2.2.1 (.inl ht0)
    rw [hn] at hn2; injection hn2 with hn2; subst hn2
    rw [hd'] at hd2; injection hd2 with hd2
    refine ⟨g', hg', by rw [hty'', hf't], by rw [hm', hm2, hd2], fun i => ?_⟩
    rw [Bool.eq_iff_iff, hsame i, hsb i, hf'loc]

/-- the written cross references resolve to the images of the original referents: for every area of the region
    (number `n` in the record) the feature of the record carrying `n` has exactly one image in the file, and it
    carries the number `ν n` that every reference to `n` was rewritten to -/
theorem written_images (rd : RegionData) (rec : BioRecord) (w : Written) (h : writeToGenbank rd rec = .ok w)
    (hwf : wfInput rd rec = true) (hcons : consistent rd rec = true) :
    (∀ a ∈ protoAreas rd, ∃ f ∈ rec.features, f.type = "protocluster" ∧ f.q.protoNumber = some a.1 ∧ f.loc = a.2 ∧
      ∃ g ∈ w.extract.features, g.tag = f.tag ∧ g.type = "protocluster" ∧
        ∃ m, g.q.protoNumber = some m ∧ dictGet (renumbering rd rec.length).protos a.1 = .ok m) ∧
    (∀ a ∈ candDict rd, ∃ f ∈ rec.features, f.type = "cand_cluster" ∧ f.q.candNumber = some a.1 ∧ f.loc = a.2 ∧
      ∃ g ∈ w.extract.features, g.tag = f.tag ∧ g.type = "cand_cluster" ∧
        ∃ m, g.q.candNumber = some m ∧ dictGet (renumbering rd rec.length).cands a.1 = .ok m) ∧
    (∀ a ∈ subDict rd, ∃ f ∈ rec.features, f.type = "subregion" ∧ f.q.subNumber = some a.1 ∧ f.loc = a.2 ∧
      ∃ g ∈ w.extract.features, g.tag = f.tag ∧ g.type = "subregion" ∧
        ∃ m, g.q.subNumber = some m ∧ dictGet (renumbering rd rec.length).subs a.1 = .ok m) := by
  obtain ⟨htags, hspan, okP, okC, okS, _⟩ := consistent_unpack rd rec hcons
  exact ⟨fun a ha => kind_to rd rec w h hwf htags hspan _ _ _ okP a.1 a.2 ha,
    fun a ha => kind_to rd rec w h hwf htags hspan _ _ _ okC a.1 a.2 ha,
    fun a ha => kind_to rd rec w h hwf htags hspan _ _ _ okS a.1 a.2 ha⟩

end ASV.RegionExtract
