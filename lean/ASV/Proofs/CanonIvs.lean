/-
  The canonical form of a set of bases (`canon`): sorted, separated, non-empty intervals with the
  same bases as the parts it was computed from (spec-level lemmas for C04).
-/
import ASV.Proofs.LocConnect
set_option linter.unusedSimpArgs false
set_option linter.unusedVariables false
namespace ASV

def IvSorted (l : List Iv) : Prop := l.Pairwise (fun x y => x.1 ≤ y.1)
/-- consecutive (hence all) intervals are separated by at least one base -/
def IvSep (l : List Iv) : Prop := l.Pairwise (fun x y => x.2 < y.1)

theorem insertIv_cons (x y : Iv) (ys : List Iv) :
    insertIv x (y :: ys) = if x.1 ≤ y.1 then x :: y :: ys else y :: insertIv x ys := rfl

theorem insertIv_perm (x : Iv) (l : List Iv) : (insertIv x l).Perm (x :: l) := by
  induction l with
  | nil => simp [insertIv]
  | cons y ys ih =>
    rw [insertIv_cons]
    by_cases h : x.1 ≤ y.1
    · rw [if_pos h]
    · rw [if_neg h]
      exact (List.Perm.cons y ih).trans (List.Perm.swap x y ys)

theorem insertIv_sorted (x : Iv) (l : List Iv) (h : IvSorted l) : IvSorted (insertIv x l) := by
  induction l with
  | nil => simp [insertIv, IvSorted]
  | cons y ys ih =>
    rw [insertIv_cons]
    have hy := List.pairwise_cons.1 h
    by_cases hxy : x.1 ≤ y.1
    · rw [if_pos hxy]
      refine List.pairwise_cons.2 ⟨?_, h⟩
      intro z hz
      rcases List.mem_cons.1 hz with rfl | hz
      · exact hxy
      · exact Int.le_trans hxy (hy.1 z hz)
    · rw [if_neg hxy]
      refine List.pairwise_cons.2 ⟨?_, ih hy.2⟩
      intro z hz
      have : z ∈ x :: ys := (insertIv_perm x ys).mem_iff.1 hz
      rcases List.mem_cons.1 this with rfl | hz'
      · omega
      · exact hy.1 z hz'

theorem sortIvs_cons (x : Iv) (l : List Iv) : sortIvs (x :: l) = insertIv x (sortIvs l) := rfl

theorem sortIvs_perm (l : List Iv) : (sortIvs l).Perm l := by
  induction l with
  | nil => exact List.Perm.refl _
  | cons x xs ih => rw [sortIvs_cons]; exact (insertIv_perm x _).trans (List.Perm.cons x ih)

theorem sortIvs_sorted (l : List Iv) : IvSorted (sortIvs l) := by
  induction l with
  | nil => exact List.Pairwise.nil
  | cons x xs ih => rw [sortIvs_cons]; exact insertIv_sorted x _ ih

theorem ivsMem_iff (l : List Iv) (i : Int) : ivsMem l i = true ↔ ∃ x ∈ l, x.1 ≤ i ∧ i < x.2 := by
  simp [ivsMem]

theorem mergeSorted_spec (l : List Iv) (hs : IvSorted l) (hne : ∀ x ∈ l, x.1 < x.2) :
    IvSep (mergeSorted l) ∧ (∀ x ∈ mergeSorted l, x.1 < x.2) ∧
      (∀ i, ivsMem (mergeSorted l) i = true ↔ ivsMem l i = true) ∧
      (∀ z ∈ mergeSorted l, ∃ w ∈ l, z.1 = w.1) := by
  fun_induction mergeSorted l with
  | case1 => exact ⟨List.Pairwise.nil, by simp, by simp, by simp⟩
  | case2 x => exact ⟨List.pairwise_singleton _ _, hne, fun _ => Iff.rfl, fun z hz => ⟨z, hz, rfl⟩⟩
  | case3 x y rest hle ih =>
    have hx := List.pairwise_cons.1 hs
    have hy := List.pairwise_cons.1 hx.2
    have hxy : x.1 ≤ y.1 := hx.1 y (by simp)
    have hxne := hne x (by simp)
    have hs' : IvSorted ((x.1, max x.2 y.2) :: rest) := by
      refine List.pairwise_cons.2 ⟨?_, hy.2⟩
      intro z hz
      exact hx.1 z (by simp [hz])
    have hne' : ∀ z ∈ (x.1, max x.2 y.2) :: rest, z.1 < z.2 := by
      intro z hz
      rcases List.mem_cons.1 hz with rfl | hz
      · show x.1 < max x.2 y.2; omega
      · exact hne z (by simp [hz])
    obtain ⟨i1, i2, i3, i4⟩ := ih hs' hne'
    refine ⟨i1, i2, ?_, ?_⟩
    · intro i
      rw [i3 i, ivsMem_iff, ivsMem_iff]
      constructor
      · rintro ⟨z, hz, h1, h2⟩
        rcases List.mem_cons.1 hz with rfl | hz
        · by_cases hc : i < x.2
          · exact ⟨x, by simp, h1, hc⟩
          · exact ⟨y, by simp, by omega, by simp only at h2; omega⟩
        · exact ⟨z, by simp [hz], h1, h2⟩
      · rintro ⟨z, hz, h1, h2⟩
        simp only [List.mem_cons] at hz
        rcases hz with rfl | rfl | hz
        · exact ⟨(z.1, max z.2 y.2), by simp, h1, by show i < max z.2 y.2; omega⟩
        · exact ⟨(x.1, max x.2 z.2), by simp, by show x.1 ≤ i; omega, by show i < max x.2 z.2; omega⟩
        · exact ⟨z, by simp [hz], h1, h2⟩
    · intro z hz
      obtain ⟨w, hw, e⟩ := i4 z hz
      rcases List.mem_cons.1 hw with rfl | hw
      · exact ⟨x, by simp, e⟩
      · exact ⟨w, by simp [hw], e⟩
  | case4 x y rest hnle ih =>
    have hx := List.pairwise_cons.1 hs
    obtain ⟨i1, i2, i3, i4⟩ := ih hx.2 (fun z hz => hne z (List.mem_cons_of_mem _ hz))
    have hy := List.pairwise_cons.1 hx.2
    refine ⟨?_, ?_, ?_, ?_⟩
    · refine List.pairwise_cons.2 ⟨?_, i1⟩
      intro z hz
      obtain ⟨w, hw, e⟩ := i4 z hz
      have : y.1 ≤ w.1 := by
        rcases List.mem_cons.1 hw with rfl | hw
        · exact Int.le_refl _
        · exact hy.1 w hw
      omega
    · intro z hz
      rcases List.mem_cons.1 hz with rfl | hz
      · exact hne z (by simp)
      · exact i2 z hz
    · intro i
      rw [ivsMem_iff, ivsMem_iff]
      constructor
      · rintro ⟨z, hz, h1, h2⟩
        rcases List.mem_cons.1 hz with rfl | hz
        · exact ⟨z, by simp, h1, h2⟩
        · obtain ⟨w, hw, h3⟩ := (ivsMem_iff _ _).1 ((i3 i).1 ((ivsMem_iff _ _).2 ⟨z, hz, h1, h2⟩))
          exact ⟨w, List.mem_cons_of_mem _ hw, h3⟩
      · rintro ⟨z, hz, h1, h2⟩
        rcases List.mem_cons.1 hz with rfl | hz
        · exact ⟨z, by simp, h1, h2⟩
        · obtain ⟨w, hw, h3⟩ := (ivsMem_iff _ _).1 ((i3 i).2 ((ivsMem_iff _ _).2 ⟨z, hz, h1, h2⟩))
          exact ⟨w, List.mem_cons_of_mem _ hw, h3⟩
    · intro z hz
      rcases List.mem_cons.1 hz with rfl | hz
      · exact ⟨z, by simp, rfl⟩
      · obtain ⟨w, hw, e⟩ := i4 z hz
        exact ⟨w, List.mem_cons_of_mem _ hw, e⟩

/-- the canonical form: separated, non-empty intervals holding exactly the bases of the parts -/
theorem canon_spec (ps : List Part) :
    IvSep (canon ps) ∧ (∀ x ∈ canon ps, x.1 < x.2) ∧
      (∀ i, ivsMem (canon ps) i = true ↔ ∃ p ∈ ps, p.mem i = true) := by
  have hs := sortIvs_sorted ((ps.map fun p => (p.lo, p.hi)).filter fun x => x.1 < x.2)
  have hp := sortIvs_perm ((ps.map fun p => (p.lo, p.hi)).filter fun x => x.1 < x.2)
  have hne : ∀ x ∈ sortIvs ((ps.map fun p => (p.lo, p.hi)).filter fun x => x.1 < x.2), x.1 < x.2 := by
    intro x hx
    have := hp.mem_iff.1 hx
    simp only [List.mem_filter, decide_eq_true_eq] at this
    exact this.2
  obtain ⟨i1, i2, i3, _⟩ := mergeSorted_spec _ hs hne
  refine ⟨i1, i2, ?_⟩
  intro i
  show ivsMem (mergeSorted _) i = true ↔ _
  rw [i3 i, ivsMem_iff]
  constructor
  · rintro ⟨x, hx, h1, h2⟩
    have := hp.mem_iff.1 hx
    simp only [List.mem_filter, List.mem_map, decide_eq_true_eq] at this
    obtain ⟨⟨p, hp', rfl⟩, _⟩ := this
    exact ⟨p, hp', by rw [Part.mem_iff]; exact ⟨h1, h2⟩⟩
  · rintro ⟨p, hp', hm⟩
    rw [Part.mem_iff] at hm
    refine ⟨(p.lo, p.hi), hp.mem_iff.2 ?_, hm.1, hm.2⟩
    simp only [List.mem_filter, List.mem_map, decide_eq_true_eq]
    exact ⟨⟨p, hp', rfl⟩, by show p.lo < p.hi; omega⟩

end ASV
