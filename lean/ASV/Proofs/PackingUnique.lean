/-
  C19 helper lemmas, part 7: `Region.get_unique_protoclusters` — gathering by identity loses
  nothing and repeats nothing, the stable sort only reorders, and the result is sorted by the key.
-/
import ASV.Proofs.PackingBase
namespace ASV.Packing
open ASV ASV.Packing.Spec

/-! ### the set: gather by identity -/

theorem setAdd_nodup {acc : List PObj} {p : PObj} (h : (acc.map (·.id)).Nodup) :
    ((setAdd acc p).map (·.id)).Nodup := by
  unfold setAdd
  split
  · exact h
  · rename_i hn
    simp only [List.any_eq_true, beq_iff_eq, not_exists, not_and] at hn
    rw [List.map_append, List.nodup_append]
    refine ⟨h, by simp, ?_⟩
    intro a ha b hb
    simp only [List.map_cons, List.map_nil, List.mem_singleton] at hb
    simp only [List.mem_map] at ha
    obtain ⟨q, hq, rfl⟩ := ha
    subst hb
    exact hn q hq

theorem foldl_setAdd_nodup : ∀ (l acc : List PObj), (acc.map (·.id)).Nodup →
    ((l.foldl setAdd acc).map (·.id)).Nodup
  | [], _, h => h
  | p :: ps, acc, h => foldl_setAdd_nodup ps (setAdd acc p) (setAdd_nodup h)

theorem mem_setAdd {acc : List PObj} {p x : PObj} (h : x ∈ setAdd acc p) : x ∈ acc ∨ x = p := by
  unfold setAdd at h
  split at h
  · exact Or.inl h
  · simp only [List.mem_append, List.mem_singleton] at h; exact h

theorem mem_foldl_setAdd : ∀ (l acc : List PObj) (x : PObj), x ∈ l.foldl setAdd acc → x ∈ acc ∨ x ∈ l
  | [], _, _, h => Or.inl h
  | p :: ps, acc, x, h => by
    rcases mem_foldl_setAdd ps (setAdd acc p) x h with h1 | h1
    · rcases mem_setAdd h1 with h2 | rfl
      · exact Or.inl h2
      · exact Or.inr (by simp)
    · exact Or.inr (by simp [h1])

theorem acc_subset_foldl_setAdd : ∀ (l acc : List PObj) (x : PObj), x ∈ acc → x ∈ l.foldl setAdd acc
  | [], _, _, h => h
  | p :: ps, acc, x, h => by
    apply acc_subset_foldl_setAdd ps
    unfold setAdd
    split
    · exact h
    · simp [h]

/-- every object offered to the set is represented in it (by identity) -/
theorem foldl_setAdd_covers : ∀ (l acc : List PObj) (x : PObj), x ∈ l →
    ∃ y ∈ l.foldl setAdd acc, y.id = x.id
  | [], _, _, h => by simp at h
  | p :: ps, acc, x, h => by
    simp only [List.mem_cons] at h
    rcases h with rfl | h
    · -- x is added now unless its identity is already there
      by_cases hin : acc.any (·.id == x.id) = true
      · simp only [List.any_eq_true, beq_iff_eq] at hin
        obtain ⟨y, hy, hid⟩ := hin
        exact ⟨y, acc_subset_foldl_setAdd ps _ y (by
          unfold setAdd; split
          · exact hy
          · simp [hy]), hid⟩
      · refine ⟨x, acc_subset_foldl_setAdd ps _ x ?_, rfl⟩
        simp [setAdd, hin]
    · exact foldl_setAdd_covers ps (setAdd acc p) x h

/-! ### the spec's list -/

theorem mem_dedupId : ∀ (l : List PObj) (x : PObj), x ∈ dedupId l → x ∈ l
  | [], _, h => by simp [dedupId] at h
  | p :: ps, x, h => by
    simp only [dedupId, List.mem_cons, List.mem_filter] at h
    rcases h with rfl | ⟨h, _⟩
    · simp
    · simp [mem_dedupId ps x h]

theorem dedupId_nodup : ∀ (l : List PObj), ((dedupId l).map (·.id)).Nodup
  | [] => by simp [dedupId]
  | p :: ps => by
    simp only [dedupId, List.map_cons, List.nodup_cons, List.mem_map, List.mem_filter, not_exists,
      not_and, and_imp]
    refine ⟨?_, ?_⟩
    · intro x _ hne heq
      simp [heq] at hne
    · exact ((dedupId_nodup ps).sublist (List.Sublist.map _ List.filter_sublist))

theorem dedupId_covers : ∀ (l : List PObj) (x : PObj), x ∈ l → ∃ y ∈ dedupId l, y.id = x.id
  | [], _, h => by simp at h
  | p :: ps, x, h => by
    simp only [List.mem_cons] at h
    by_cases hid : x.id = p.id
    · exact ⟨p, by simp [dedupId], hid.symm⟩
    · rcases h with rfl | h
      · exact absurd rfl hid
      · obtain ⟨y, hy, hyx⟩ := dedupId_covers ps x h
        refine ⟨y, ?_, hyx⟩
        simp only [dedupId, List.mem_cons, List.mem_filter]
        right
        exact ⟨hy, by simp [hyx, hid]⟩

theorem idsConsistent_iff {l : List PObj} (h : idsConsistent l = true) :
    ∀ p ∈ l, ∀ q ∈ l, p.id = q.id → p = q := by
  intro p hp q hq hid
  simp only [idsConsistent, List.all_eq_true, Bool.or_eq_true, bne_iff_ne, ne_eq, beq_iff_eq] at h
  rcases h p hp q hq with h | h
  · exact absurd hid h
  · exact h

theorem nodup_of_ids {l : List PObj} (h : (l.map (·.id)).Nodup) : l.Nodup :=
  List.Pairwise.of_map (·.id) (fun _ _ hne heq => hne (heq ▸ rfl)) h

/-- gathering in a set and the spec's "each object once" give the same objects -/
theorem gather_perm_regionProtos (cands : List Cand)
    (hid : idsConsistent (cands.flatMap (·.members)) = true) :
    (gatherProtoclusters cands).Perm (regionProtos cands) := by
  have hc := idsConsistent_iff hid
  have n1 : ((gatherProtoclusters cands).map (·.id)).Nodup := foldl_setAdd_nodup _ [] (by simp)
  have n2 : ((regionProtos cands).map (·.id)).Nodup := dedupId_nodup _
  have s1 : ∀ x, x ∈ gatherProtoclusters cands → x ∈ cands.flatMap (·.members) := by
    intro x hx
    rcases mem_foldl_setAdd _ [] x hx with h | h
    · simp at h
    · exact h
  have s2 : ∀ x, x ∈ regionProtos cands → x ∈ cands.flatMap (·.members) := mem_dedupId _
  refine (List.perm_ext_iff_of_nodup (nodup_of_ids n1) (nodup_of_ids n2)).2 ?_
  intro x
  constructor
  · intro hx
    have hxa := s1 x hx
    obtain ⟨y, hy, hyx⟩ := dedupId_covers _ x hxa
    have : y = x := hc y (s2 y hy) x hxa hyx
    exact this ▸ hy
  · intro hx
    have hxa := s2 x hx
    obtain ⟨y, hy, hyx⟩ := foldl_setAdd_covers _ [] x hxa
    have : y = x := hc y (s1 y hy) x hxa hyx
    exact this ▸ hy

/-! ### the stable sort -/

theorem insertByKey_perm (c : Ctx) (p : PObj) : ∀ l, (insertByKey c p l).Perm (p :: l)
  | [] => by simp [insertByKey]
  | q :: qs => by
    simp only [insertByKey]
    split
    · exact List.Perm.refl _
    · exact ((insertByKey_perm c p qs).cons q).trans (List.Perm.swap p q qs)

theorem sortByKey_perm (c : Ctx) : ∀ l, (sortByKey c l).Perm l
  | [] => by simp [sortByKey]
  | p :: ps => by
    simp only [sortByKey, List.foldr_cons]
    exact (insertByKey_perm c p _).trans ((sortByKey_perm c ps).cons p)

theorem keyLe_total {a b : Int × Int × String} (h : keyLe a b = false) : keyLe b a = true := by
  obtain ⟨a1, a2, a3⟩ := a
  obtain ⟨b1, b2, b3⟩ := b
  simp only [keyLe, Bool.or_eq_false_iff, Bool.and_eq_false_iff, decide_eq_false_iff_not, beq_eq_false_iff_ne,
    ne_eq] at h
  simp only [keyLe, Bool.or_eq_true, Bool.and_eq_true, decide_eq_true_eq, beq_iff_eq]
  obtain ⟨h1, h2⟩ := h
  by_cases e1 : a1 = b1
  · right
    refine ⟨e1.symm, ?_⟩
    rcases h2 with h2 | ⟨h2, h3⟩
    · exact absurd e1 h2
    · by_cases e2 : a2 = b2
      · right
        refine ⟨e2.symm, ?_⟩
        rcases h3 with h3 | h3
        · exact absurd e2 h3
        · rcases String.le_total a3 b3 with h4 | h4
          · exact absurd h4 h3
          · exact h4
      · left; omega
  · left; omega

theorem sortedByKey_insert (c : Ctx) (p : PObj) : ∀ l, sortedByKey c (l.map (·.feat)) = true →
    sortedByKey c ((insertByKey c p l).map (·.feat)) = true
  | [], _ => by simp [insertByKey, sortedByKey]
  | [q], _ => by
    simp only [insertByKey]
    split
    · rename_i h; simp [sortedByKey, h]
    · rename_i h
      have := keyLe_total (by simpa using h)
      simp [sortedByKey, this]
  | q :: r :: rest, hs => by
    simp only [List.map_cons, sortedByKey, Bool.and_eq_true] at hs
    simp only [insertByKey]
    split
    · rename_i h
      simp only [List.map_cons, sortedByKey, Bool.and_eq_true]
      exact ⟨h, hs.1, hs.2⟩
    · rename_i h
      have hqp := keyLe_total (by simpa using h)
      have ih := sortedByKey_insert c p (r :: rest) (by simpa using hs.2)
      simp only [insertByKey] at ih ⊢
      split
      · rename_i h2
        simp only [List.map_cons, sortedByKey, Bool.and_eq_true]
        exact ⟨hqp, h2, hs.2⟩
      · rename_i h2
        simp only [h2] at ih
        simp only [List.map_cons, sortedByKey, Bool.and_eq_true]
        exact ⟨hs.1, by simpa using ih⟩

theorem sortByKey_sorted (c : Ctx) : ∀ l, sortedByKey c ((sortByKey c l).map (·.feat)) = true
  | [] => by simp [sortByKey, sortedByKey]
  | p :: ps => by
    simp only [sortByKey, List.foldr_cons]
    exact sortedByKey_insert c p _ (sortByKey_sorted c ps)

end ASV.Packing
