/-
  C05: no two candidates with the same coordinates and members on a circular record, when all
  protoclusters fit into a span shorter than half the record (then every candidate's span is the
  unique shortest arc covering its members, so promotion keeps the table key).
-/
import ASV.Proofs.RingInterleaved
set_option linter.unusedSectionVars false
set_option linter.unusedVariables false
set_option linter.unusedSimpArgs false
namespace ASV.CC
open ASV.CC.Spec

/-! ### shortest arcs -/

theorem ring_shortest (ls : List Loc) (L : Int) (hne : ls ≠ []) (hL : 0 < L)
    (hin : ∀ l ∈ ls, RingInStrict L l) (c : Loc) (hwf : areaWF L L c = true) (hlen : 2 * c.len < L)
    (hcov : ∀ l ∈ ls, ∀ i, l.mem i = true → c.mem i = true) (r : Loc) (hr : connect ls (some L) = .ok r) :
    r.len ≤ c.len ∧ ∀ i, r.mem i = true → c.mem i = true := by
  have hin' : ∀ l ∈ ls, RingIn L l := fun l hl => (hin l hl).ringIn
  rw [connect_ring_closed ls L hne hL hin'] at hr
  injection hr with hr
  subst hr
  apply connR_shortest _ L hL (by simpa using hne) (toR_ok L hL ls hin') c hwf hlen
  intro r hr i hi
  obtain ⟨l, hl, rfl⟩ := List.mem_map.1 hr
  exact hcov l hl i ((toR_mem_iff L hL l (hin l hl) i).1 hi)

theorem mem_of_coords {r s : Loc} (h : coords r = coords s) (i : Int) : r.mem i = s.mem i := by
  have : ∀ l : Loc, l.mem i = (coords l).any fun x => decide (x.1 ≤ i) && decide (i < x.2) := by
    intro l; simp [Loc.mem, coords, List.any_map, Part.mem, Function.comp_def]
  rw [this r, this s, h]

/-- spans of the two shapes with the same bases, shorter than half the record, have the same coordinates -/
theorem coords_of_mem_eq {L : Int} {r s : Loc} (hr : Shaped L r) (hs : Shaped L s)
    (hwr : areaWF L L r = true) (hws : areaWF L L s = true) (hlen : 2 * r.len < L)
    (hm : ∀ i, r.mem i = true ↔ s.mem i = true) : coords r = coords s := by
  rcases hr with ⟨p, rfl⟩ | ⟨a, b, rfl⟩ <;> rcases hs with ⟨q, rfl⟩ | ⟨c, d, rfl⟩
  · simp only [areaWF, Loc.parts, Bool.and_eq_true, decide_eq_true_eq] at hwr hws
    have h1 := hm p.lo; have h2 := hm q.lo; have h3 := hm (p.hi - 1); have h4 := hm (q.hi - 1)
    simp only [mem_simple] at h1 h2 h3 h4
    have e1 : p.lo = q.lo := by omega
    have e2 : p.hi = q.hi := by omega
    simp [coords, Loc.parts, e1, e2]
  · exfalso
    simp only [areaWF, Loc.parts, Bool.and_eq_true, decide_eq_true_eq] at hwr hws
    have h1 := hm 0; have h2 := hm (L - 1)
    rw [mem_simple, mem_two] at h1 h2
    simp only [Loc.len, Loc.parts, List.map, List.sum_cons, List.sum_nil, Part.len] at hlen
    simp only at h1 h2
    omega
  · exfalso
    simp only [areaWF, Loc.parts, Bool.and_eq_true, decide_eq_true_eq] at hwr hws
    have h1 := hm 0; have h2 := hm (L - 1); have h3 := hm b; have h4 := hm (a - 1)
    rw [mem_simple, mem_two] at h1 h2 h3 h4
    simp only [Loc.len, Loc.parts, List.map, List.sum_cons, List.sum_nil, Part.len] at hlen
    simp only at h1 h2 h3 h4
    omega
  · simp only [areaWF, Loc.parts, Bool.and_eq_true, decide_eq_true_eq] at hwr hws
    have h1 := hm (b - 1); have h2 := hm b; have h3 := hm a; have h4 := hm (a - 1)
    have h5 := hm (d - 1); have h6 := hm d; have h7 := hm c; have h8 := hm (c - 1)
    rw [mem_two, mem_two] at h1 h2 h3 h4 h5 h6 h7 h8
    simp only [Loc.len, Loc.parts, List.map, List.sum_cons, List.sum_nil, Part.len] at hlen
    simp only at h1 h2 h3 h4 h5 h6 h7 h8
    have e1 : a = c := by omega
    have e2 : b = d := by omega
    simp [coords, Loc.parts, e1, e2]

theorem locKey_two (a b L : Int) : locKey (.compound [⟨a, L, .fwd⟩, ⟨0, b, .fwd⟩]) = (a, b) := by
  simp [locKey, featStart, featEnd, Loc.parts, Loc.strand]

theorem locKey_of_coords {L : Int} {r s : Loc} (hr : Shaped L r) (hs : Shaped L s) (h : coords r = coords s) :
    locKey r = locKey s := by
  rcases hr with ⟨p, rfl⟩ | ⟨a, b, rfl⟩ <;> rcases hs with ⟨q, rfl⟩ | ⟨c, d, rfl⟩
  · exact coords_simple_key h
  · simp [coords, Loc.parts] at h
  · simp [coords, Loc.parts] at h
  · simp only [coords, Loc.parts, List.map_cons, List.map_nil, List.cons.injEq, Prod.mk.injEq, and_true] at h
    rw [locKey_two, locKey_two, h.1, h.2.2]

theorem coords_of_locKey {L : Int} {r s : Loc} (hr : Shaped L r) (hs : Shaped L s)
    (hwr : areaWF L L r = true) (hws : areaWF L L s = true) (h : locKey r = locKey s) : coords r = coords s := by
  rcases hr with ⟨p, rfl⟩ | ⟨a, b, rfl⟩ <;> rcases hs with ⟨q, rfl⟩ | ⟨c, d, rfl⟩
  · rw [locKey_simple, locKey_simple] at h
    injection h with h1 h2
    simp [coords, Loc.parts, h1, h2]
  · exfalso
    simp only [areaWF, Loc.parts, Bool.and_eq_true, decide_eq_true_eq] at hwr hws
    rw [locKey_simple, locKey_two] at h
    injection h with h1 h2
    omega
  · exfalso
    simp only [areaWF, Loc.parts, Bool.and_eq_true, decide_eq_true_eq] at hwr hws
    rw [locKey_simple, locKey_two] at h
    injection h with h1 h2
    omega
  · rw [locKey_two, locKey_two] at h
    injection h with h1 h2
    simp [coords, Loc.parts, h1, h2]

/-! ### the setting: a circular record whose protoclusters fit into less than half of it -/

/-- every protocluster's extent is a single part or an origin-spanning span of the record, and one
    span shorter than half the record covers them all -/
structure HalfRing (L : Int) (ps : List Proto) : Prop where
  pos : 0 < L
  valid : ∀ p, p ∈ ps → RingInStrict L p.loc
  half : ∃ c, areaWF L L c = true ∧ 2 * c.len < L ∧ ∀ p, p ∈ ps → ∀ i, p.loc.mem i = true → c.mem i = true

/-- the span of any group of the protoclusters: well-formed, of one of the two shapes, shorter than
    half the record, covering the members -/
theorem group_span {L : Int} {ps : List Proto} (H : HalfRing L ps) {ms : List Proto} (hne : ms ≠ [])
    (hsub : ∀ m, m ∈ ms → m ∈ ps) {r : Loc} (hr : connect (ms.map (·.loc)) (some L) = .ok r) :
    areaWF L L r = true ∧ Shaped L r ∧ 2 * r.len < L ∧ ∀ m, m ∈ ms → ∀ i, m.loc.mem i = true → r.mem i = true := by
  have hin : ∀ l ∈ ms.map (·.loc), RingInStrict L l := by
    intro l hl
    obtain ⟨m, hm, e⟩ := List.mem_map.1 hl
    rw [← e]; exact H.valid m (hsub m hm)
  obtain ⟨r', hr', hwf, hsh, hcov⟩ := connect_ring_ok (ms.map (·.loc)) L (by simpa using hne) H.pos
    (fun l hl => (hin l hl).ringIn)
  rw [hr] at hr'; injection hr' with e; subst e
  obtain ⟨c, hcw, hcl, hcc⟩ := H.half
  have hs := ring_shortest (ms.map (·.loc)) L (by simpa using hne) H.pos hin c hcw hcl
    (fun l hl i hi => by
      obtain ⟨m, hm, e⟩ := List.mem_map.1 hl
      rw [← e] at hi
      exact hcc m (hsub m hm) i hi) r hr
  refine ⟨hwf, hsh, by omega, ?_⟩
  intro m hm i hi
  exact hcov m.loc (List.mem_map.2 ⟨m, hm, rfl⟩) i hi

/-- two groups whose spans cover each other have the same coordinates -/
theorem group_span_unique {L : Int} {ps : List Proto} (H : HalfRing L ps) {ms ns : List Proto}
    (hm : ms ≠ []) (hn : ns ≠ []) (hms : ∀ m, m ∈ ms → m ∈ ps) (hns : ∀ m, m ∈ ns → m ∈ ps) {r s : Loc}
    (hr : connect (ms.map (·.loc)) (some L) = .ok r) (hs : connect (ns.map (·.loc)) (some L) = .ok s)
    (h1 : ∀ m, m ∈ ns → ∀ i, m.loc.mem i = true → r.mem i = true)
    (h2 : ∀ m, m ∈ ms → ∀ i, m.loc.mem i = true → s.mem i = true) : coords r = coords s := by
  obtain ⟨rw, rsh, rl, _⟩ := group_span H hm hms hr
  obtain ⟨sw, ssh, sl, _⟩ := group_span H hn hns hs
  have hinm : ∀ l ∈ ms.map (·.loc), RingInStrict L l := by
    intro l hl; obtain ⟨m, hmm, e⟩ := List.mem_map.1 hl; rw [← e]; exact H.valid m (hms m hmm)
  have hinn : ∀ l ∈ ns.map (·.loc), RingInStrict L l := by
    intro l hl; obtain ⟨m, hmm, e⟩ := List.mem_map.1 hl; rw [← e]; exact H.valid m (hns m hmm)
  have a := ring_shortest (ms.map (·.loc)) L (by simpa using hm) H.pos hinm s sw sl
    (fun l hl i hi => by obtain ⟨m, hmm, e⟩ := List.mem_map.1 hl; rw [← e] at hi; exact h2 m hmm i hi) r hr
  have b := ring_shortest (ns.map (·.loc)) L (by simpa using hn) H.pos hinn r rw rl
    (fun l hl i hi => by obtain ⟨m, hmm, e⟩ := List.mem_map.1 hl; rw [← e] at hi; exact h1 m hmm i hi) s hs
  exact coords_of_mem_eq rsh ssh rw sw rl (fun i => ⟨a.2 i, b.2 i⟩)

/-! ### the table on such a record -/

theorem buildOne_ring {L : Int} {ps : List Proto} (H : HalfRing L ps) {kind : Kind} {t t' : Table} {g : List Proto}
    (h : buildOne (some L) kind t g = .ok t') (hk : kind ≠ .single) (hg : g.Nodup) (hgp : ∀ p, p ∈ g → p ∈ ps)
    (hwf : TableWF (some L) ps t) (ht : TableLin t) : TableLin t' := by
  have hwf' := buildOne_wf h hk hg hgp hwf
  unfold buildOne at h
  split at h
  · cases h
  · split at h
    · cases h
    · rename_i cand hcand
      obtain ⟨hkind, hmem, hok⟩ := mkCand_ok hcand
      dsimp only at h
      split at h
      · rename_i hget
        injection h with h; subst h
        have hnot := getGo_none hget
        refine ⟨?_, ?_⟩
        · simp only [Table.set, keys_setGo, if_neg hnot]
          refine List.nodup_append.2 ⟨ht.1, by simp, ?_⟩
          intro x hx y hy e
          have : y = locKey cand.loc := by simpa using hy
          subst this; subst e; exact hnot hx
        · intro e he
          rcases mem_setGo_new he with e1 | e1
          · rw [e1]
          · exact ht.2 e e1
      · rename_i ex hget
        split at h
        · split at h
          · cases h
          injection h with h; subst h; exact ht
        · split at h
          · cases h
          · rename_i repl hrepl
            obtain ⟨hrk, hrm, hrok⟩ := mkCand_ok hrepl
            have hexin := getGo_mem hget
            have hkin : locKey cand.loc ∈ keys t.existing := List.mem_map.2 ⟨_, hexin, rfl⟩
            have hexwf : CandWF (some L) ps ex := hwf.1 ex (mem_values.2 ⟨_, hexin⟩)
            have hcandfrom : ∀ m, m ∈ cand.members → m ∈ ps := by
              intro m hm; rw [hmem] at hm; exact hgp m (mem_sortProtos.1 hm)
            have hreplfrom : ∀ m, m ∈ repl.members → m ∈ ps := by
              intro m hm
              rw [hrm] at hm
              rcases List.mem_append.1 (mem_sortProtos.1 hm) with h1 | h1
              · exact hexwf.fromInput m (mem_dedup.1 h1)
              · exact hgp m (mem_dedup.1 (mem_diffL.1 h1).1)
            obtain ⟨cw, csh, cl, ccov⟩ := group_span H hok.nonempty hcandfrom hok.loc_eq
            obtain ⟨xw, xsh, xl, xcov⟩ := group_span H hexwf.ok.nonempty hexwf.fromInput hexwf.ok.loc_eq
            obtain ⟨rw', rsh, rl, rcov⟩ := group_span H hrok.nonempty hreplfrom hrok.loc_eq
            -- the group's span and the existing candidate's span have the same key, hence the same bases
            have hkx : locKey cand.loc = locKey ex.loc := ht.2 _ hexin
            have hcx : coords cand.loc = coords ex.loc := coords_of_locKey csh xsh cw xw hkx
            -- the existing span covers the replacement's members and vice versa
            have h1 : ∀ m, m ∈ repl.members → ∀ i, m.loc.mem i = true → ex.loc.mem i = true := by
              intro m hm i hi
              rw [hrm] at hm
              rcases List.mem_append.1 (mem_sortProtos.1 hm) with h1 | h1
              · exact xcov m (mem_dedup.1 h1) i hi
              · rw [← mem_of_coords hcx i]
                exact ccov m (by rw [hmem]; exact mem_sortProtos.2 (mem_dedup.1 (mem_diffL.1 h1).1)) i hi
            have h2 : ∀ m, m ∈ ex.members → ∀ i, m.loc.mem i = true → repl.loc.mem i = true := by
              intro m hm i hi
              exact rcov m (by rw [hrm]; exact mem_sortProtos.2 (List.mem_append.2 (Or.inl (mem_dedup.2 hm)))) i hi
            have hxr : coords ex.loc = coords repl.loc :=
              group_span_unique H hexwf.ok.nonempty hrok.nonempty hexwf.fromInput hreplfrom hexwf.ok.loc_eq hrok.loc_eq h1 h2
            have k3 : locKey repl.loc = locKey cand.loc := by
              rw [hkx]; exact (locKey_of_coords xsh rsh hxr).symm
            injection h with h; subst h
            have hT : TableLin (t.set (locKey cand.loc) repl) := by
              refine ⟨?_, ?_⟩
              · simp only [Table.set, keys_setGo, if_pos hkin]; exact ht.1
              · intro e he
                rcases mem_setGo_new he with e1 | e1
                · rw [e1]; exact k3.symm
                · exact ht.2 e e1
            split
            · exact hT
            · exact hT

theorem reach_ring {L : Int} {ps : List Proto} (H : HalfRing L ps) {t : Table} (h : Reach (some L) ps t) : TableLin t := by
  induction h with
  | empty => exact ⟨by simp [keys], fun e he => by cases he⟩
  | step hr hk hg hgp hb ih => exact buildOne_ring H hb hk hg hgp (reach_wf hr) ih

theorem formation_noDuplicates_ring {L : Int} {ps : List Proto} {cs : List Cand} (hn : ps.Nodup) (H : HalfRing L ps)
    (h : formation ps (some L) = .ok cs) : noDuplicates cs = true := by
  obtain ⟨cs0, h0, e⟩ := formation_ok_core h
  subst e
  by_cases hne : ps = []
  · subst hne
    simp only [formationCore, List.isEmpty_nil, if_true] at h0
    injection h0 with h0; subst h0
    rfl
  obtain ⟨t3, l, singles, hr, hln, hS, e⟩ := formationCore_struct h0 hn hne
  subst e
  have hwf := reach_wf hr
  have hlinT := reach_ring H hr
  refine noDuplicates_perm (perm_sortCands _).symm ?_
  refine noDuplicates_perm (List.Perm.append_right singles (perm_sortCands t3.values).symm) ?_
  rw [noDuplicates_iff, List.pairwise_append]
  refine ⟨?_, ?_, ?_⟩
  · simp only [Table.values, List.pairwise_map]
    have hk : t3.existing.Pairwise fun e f => e.1 ≠ f.1 := by
      have := hlinT.1
      simpa [keys, List.Nodup, List.pairwise_map] using this
    refine hk.imp_of_mem ?_
    intro e f he hf hne hdup
    apply hne
    rw [hlinT.2 e he, hlinT.2 f hf]
    have we := hwf.1 e.2 (mem_values.2 ⟨e.1, he⟩)
    have wf' := hwf.1 f.2 (mem_values.2 ⟨f.1, hf⟩)
    obtain ⟨_, esh, _, _⟩ := group_span H we.ok.nonempty we.fromInput we.ok.loc_eq
    obtain ⟨_, fsh, _, _⟩ := group_span H wf'.ok.nonempty wf'.fromInput wf'.ok.loc_eq
    exact locKey_of_coords esh fsh hdup.1
  · exact (addSingles_pairwise hS hln).imp (fun hxy hd => hxy hd.2)
  · intro c hc d hd hdup
    have wc := hwf.1 c hc
    obtain ⟨_, _, p, _, e, _⟩ := addSingles_wf hS d hd
    have hs := hdup.2
    rw [e] at hs
    have hall := sameMembers_single hs
    obtain ⟨x, y, hx, hy, hxy⟩ := two_of_nodup wc.nodup wc.big
    exact hxy ((hall x hx).trans (hall y hy).symm)

end ASV.CC
