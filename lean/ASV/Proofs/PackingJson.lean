/-
  C19 helper lemmas, part 9: `Area.to_minimal_json` drops only what a reader restores.
-/
import ASV.Spec.Layout
namespace ASV.Packing
open ASV ASV.Packing.Spec

set_option linter.unusedSimpArgs false

theorem lookup_popKey (k k' : String) : ∀ (l : List (String × JVal)),
    jLookup k (popKey k' l) = if k = k' then none else jLookup k l
  | [] => by simp [popKey, jLookup]
  | (k1, v1) :: t => by
    have ih := lookup_popKey k k' t
    simp only [popKey] at ih ⊢
    by_cases h1 : k1 = k' <;> by_cases h2 : k = k1 <;> by_cases h3 : k = k' <;>
      simp_all [List.filter_cons, jLookup]

theorem jLookup_none {k : String} : ∀ {l : List (String × JVal)}, k ∉ l.map Prod.fst → jLookup k l = none
  | [], _ => rfl
  | (k1, v1) :: t, h => by
    simp only [List.map_cons, List.mem_cons, not_or] at h
    simp [jLookup, h.1, jLookup_none h.2]

theorem lookup_filter_val (P : JVal → Bool) (k : String) : ∀ (l : List (String × JVal)),
    (l.map Prod.fst).Nodup →
    jLookup k (l.filter fun kv => P kv.2) = (jLookup k l).bind fun v => if P v then some v else none
  | [], _ => by simp [jLookup]
  | (k1, v1) :: t, hn => by
    simp only [List.map_cons, List.nodup_cons] at hn
    have ih := lookup_filter_val P k t hn.2
    by_cases h2 : k = k1
    · subst h2
      have hnone := jLookup_none hn.1
      cases hP : P v1 <;> simp_all [List.filter_cons, jLookup]
    · cases hP : P v1 <;> simp_all [List.filter_cons, jLookup]

theorem minimal_json_lossless (a : Area) : readArea a.toMinimalJson = some a := by
  have hk : ∀ a : Area, (a.asdict.map Prod.fst).Nodup := by intro a; simp [Area.asdict]
  obtain ⟨start, stop, kind, height, nstart, nend, product, group, pre, cat, tool⟩ := a
  simp only [Area.toMinimalJson]
  by_cases h1 : nstart = start <;> by_cases h2 : nend = stop <;> by_cases h3 : group = 0 <;>
    simp only [h1, h2, h3, beq_self_eq_true, ↓reduceIte, beq_iff_eq] <;>
    simp only [readArea, jInt, jStr, lookup_popKey, lookup_filter_val (fun v => v != JVal.str "") _ _ (hk _)] <;>
    cases kind <;>
    simp [Area.asdict, jLookup, kindName, kindOfName] <;>
    (first | done | (and_intros <;> (first | omega | (split <;> simp_all))))

end ASV.Packing
