/-
  Helper lemmas for C01: the code-shaped evaluator refines the documented denotation.
-/
import ASV.Spec.Formula
namespace ASV.Rules

/-! ### inside cds(...): local evaluation -/
mutual
theorem evalC_local (e : Env) (g : Gene) :
    ∀ c, c.localWF = true → (evalC e g true c).met = semLocal e g c
  | .single neg p, _ => by simp [evalC, semLocal]
  | .score _ _ _, h => by simp [Cond.localWF] at h
  | .minimum _ _ _, h => by simp [Cond.localWF] at h
  | .cds _ _, h => by simp [Cond.localWF] at h
  | .group neg subs, h => by
      simp only [Cond.localWF] at h
      simp [evalC, semLocal, evalOr_local e g subs h]
  | .conj subs, h => by
      simp only [Cond.localWF] at h
      simp [evalC, semLocal, evalAnd_local e g subs h]
theorem evalOr_local (e : Env) (g : Gene) :
    ∀ cs, localWFs cs = true → (evalOr e g true cs).met = semLocalAny e g cs
  | [], _ => by simp [evalOr, semLocalAny]
  | c :: cs, h => by
      simp only [localWFs, Bool.and_eq_true] at h
      simp [evalOr, semLocalAny, evalC_local e g c h.1, evalOr_local e g cs h.2]
theorem evalAnd_local (e : Env) (g : Gene) :
    ∀ cs, localWFs cs = true → (evalAnd e g true cs).met = semLocalAll e g cs
  | [], _ => by simp [evalAnd, semLocalAll]
  | c :: cs, h => by
      simp only [localWFs, Bool.and_eq_true] at h
      simp [evalAnd, semLocalAll, evalC_local e g c h.1, evalAnd_local e g cs h.2]
end

mutual
theorem evalC_local_reasons (e : Env) (g : Gene) :
    ∀ c, c.localWF = true → (evalC e g true c).reasons = leafHits e g c
  | .single neg p, _ => by simp [evalC, leafHits]
  | .score _ _ _, h => by simp [Cond.localWF] at h
  | .minimum _ _ _, h => by simp [Cond.localWF] at h
  | .cds _ _, h => by simp [Cond.localWF] at h
  | .group neg subs, h => by
      simp only [Cond.localWF] at h
      simp [evalC, leafHits, evalOr_local_reasons e g subs h]
  | .conj subs, h => by
      simp only [Cond.localWF] at h
      simp [evalC, leafHits, evalAnd_local_reasons e g subs h]
theorem evalOr_local_reasons (e : Env) (g : Gene) :
    ∀ cs, localWFs cs = true → (evalOr e g true cs).reasons = leafHitsL e g cs
  | [], _ => by simp [evalOr, leafHitsL]
  | c :: cs, h => by
      simp only [localWFs, Bool.and_eq_true] at h
      simp [evalOr, leafHitsL, evalC_local_reasons e g c h.1, evalOr_local_reasons e g cs h.2]
theorem evalAnd_local_reasons (e : Env) (g : Gene) :
    ∀ cs, localWFs cs = true → (evalAnd e g true cs).reasons = leafHitsL e g cs
  | [], _ => by simp [evalAnd, leafHitsL]
  | c :: cs, h => by
      simp only [localWFs, Bool.and_eq_true] at h
      simp [evalAnd, leafHitsL, evalC_local_reasons e g c h.1, evalAnd_local_reasons e g cs h.2]
end

theorem any_evalOr_local (e : Env) (subs : List Cond) (h : localWFs subs = true) (l : List Gene) :
    (l.any fun x => (evalOr e x true subs).met) = l.any (semLocalAny e · subs) := by
  induction l with
  | nil => rfl
  | cons x xs ih => simp [List.any_cons, evalOr_local e x subs h, ih]

/-! ### the two iteration sources agree under `Env.WF` -/

theorem has_imp_hits_ne (e : Env) (h : Gene) (p : Prof) (hp : e.has h p = true) : e.hits h ≠ [] := by
  intro hn
  simp [Env.has, Env.profs, hn] at hp

theorem hasScore_imp_hits_ne (e : Env) (h : Gene) (p : Prof) (s : Int)
    (hp : e.hasScore h p s = true) : e.hits h ≠ [] := by
  intro hn
  simp [Env.hasScore, hn] at hp

/-- SingleCondition looks at `results_by_id`; the spec at all genes in range -/
theorem nbrsHit_any_has (e : Env) (wf : e.WF) (g : Gene) (p : Prof) :
    ((e.nbrsHit g).filter (e.has · p)).isEmpty = !((e.near g).any (e.has · p)) := by
  rw [Bool.eq_not]
  cases hA : (e.near g).any (e.has · p)
  · -- nothing near: the filtered list is empty
    simp only [ne_eq, Bool.not_eq_false] at *
    rw [List.isEmpty_iff, List.filter_eq_nil_iff]
    intro h hh hhas
    simp only [Env.nbrsHit, List.mem_filter] at hh
    rw [List.any_eq_false] at hA
    exact hA h (by simp only [Env.near, List.mem_filter]; exact ⟨wf.sub h hh.1, hh.2⟩) hhas
  · simp only [ne_eq, Bool.not_eq_true]
    rw [List.any_eq_true] at hA
    obtain ⟨h, hh, hhas⟩ := hA
    simp only [Env.near, List.mem_filter] at hh
    have hm : h ∈ (e.nbrsHit g).filter (e.has · p) := by
      simp only [Env.nbrsHit, List.mem_filter]
      exact ⟨⟨wf.hit h hh.1 (has_imp_hits_ne e h p hhas), hh.2⟩, hhas⟩
    cases hE : ((e.nbrsHit g).filter (e.has · p)).isEmpty
    · rfl
    · rw [List.isEmpty_iff] at hE; rw [hE] at hm; cases hm

/-- ScoreCondition looks at `results_by_id` without skipping the gene itself -/
theorem inRangeHit_any_score (e : Env) (wf : e.WF) (g : Gene) (p : Prof) (s : Int)
    (hself : e.hasScore g p s = false) :
    (e.inRangeHit g).any (e.hasScore · p s) = (e.near g).any (e.hasScore · p s) := by
  cases hA : (e.near g).any (e.hasScore · p s)
  · rw [List.any_eq_false] at hA ⊢
    intro h hh
    simp only [Env.inRangeHit, List.mem_filter] at hh
    by_cases hg : h = g
    · subst hg; simp [hself]
    · exact hA h (by
        simp only [Env.near, List.mem_filter, Bool.and_eq_true, bne_iff_ne, ne_eq]
        exact ⟨wf.sub h hh.1, hg, hh.2⟩)
  · rw [List.any_eq_true] at hA ⊢
    obtain ⟨h, hh, hsc⟩ := hA
    simp only [Env.near, List.mem_filter, Bool.and_eq_true] at hh
    refine ⟨h, ?_, hsc⟩
    simp only [Env.inRangeHit, List.mem_filter]
    exact ⟨wf.hit h hh.1 (hasScore_imp_hits_ne e h p s hsc), hh.2.2⟩

theorem nbrs_eq_near (e : Env) (g : Gene) : e.nbrs g = e.near g := rfl

/-! ### top level: met = documented meaning -/
mutual
theorem evalC_sem (e : Env) (wf : e.WF) (g : Gene) :
    ∀ c, c.WF = true → (evalC e g false c).met = sem e g c
  | .single neg p, _ => by
      simp only [evalC, sem, Bool.false_or]
      rw [nbrsHit_any_has e wf g p]
      cases hf : e.has g p <;> cases hn : (e.near g).any (e.has · p) <;> cases neg <;> simp_all
  | .score neg p s, _ => by
      simp only [evalC, sem]
      cases hf : e.hasScore g p s
      · rw [inRangeHit_any_score e wf g p s hf]
        cases hn : (e.near g).any (e.hasScore · p s) <;> cases neg <;> simp_all
      · cases neg <;> simp
  | .minimum neg n opts, _ => by
      simp only [evalC, sem, List.map_cons, List.sum_cons, nbrs_eq_near, List.map_map]
      have hcomp : ((fun x : Gene × List Prof => x.2.length) ∘ fun h => (h, opts.filter (e.has h)))
          = fun h => (opts.filter (e.has h)).length := rfl
      rw [hcomp]
      split
      · next h => cases neg <;> simp <;> omega
      · next h =>
          split
          · next h2 => cases neg <;> simp <;> omega
          · next h2 => cases neg <;> simp <;> omega
  | .cds neg subs, h => by
      simp only [Cond.WF] at h
      simp only [evalC, sem, Bool.false_or, nbrs_eq_near]
      rw [evalOr_local e g subs h, any_evalOr_local e subs h]
      cases hi : semLocalAny e g subs <;> cases neg <;> simp
  | .group neg subs, h => by
      simp only [Cond.WF] at h
      simp [evalC, sem, evalOr_sem e wf g subs h]
  | .conj subs, h => by
      simp only [Cond.WF] at h
      simp [evalC, sem, evalAnd_sem e wf g subs h]
theorem evalOr_sem (e : Env) (wf : e.WF) (g : Gene) :
    ∀ cs, WFs cs = true → (evalOr e g false cs).met = semAny e g cs
  | [], _ => by simp [evalOr, semAny]
  | c :: cs, h => by
      simp only [WFs, Bool.and_eq_true] at h
      simp [evalOr, semAny, evalC_sem e wf g c h.1, evalOr_sem e wf g cs h.2]
theorem evalAnd_sem (e : Env) (wf : e.WF) (g : Gene) :
    ∀ cs, WFs cs = true → (evalAnd e g false cs).met = semAll e g cs
  | [], _ => by simp [evalAnd, semAll]
  | c :: cs, h => by
      simp only [WFs, Bool.and_eq_true] at h
      simp [evalAnd, semAll, evalC_sem e wf g c h.1, evalAnd_sem e wf g cs h.2]
end

/-! ### top level: reasons = documented reasons (as lists, hence as sets) -/
mutual
theorem evalC_reasons (e : Env) (g : Gene) :
    ∀ c, c.WF = true → (evalC e g false c).reasons = specReasons e g c
  | .single neg p, _ => by
      simp only [evalC, specReasons, Bool.false_or]
      cases hf : e.has g p <;> simp
      split <;> rfl
  | .score neg p s, _ => by
      simp only [evalC, specReasons]
      cases hf : e.hasScore g p s <;> simp
      split <;> rfl
  | .minimum neg n opts, _ => by
      simp only [evalC, specReasons]
      split
      · rfl
      · split <;> rfl
  | .cds neg subs, h => by
      simp only [Cond.WF] at h
      simp only [evalC, specReasons, Bool.false_or]
      rw [evalOr_local e g subs h, evalOr_local_reasons e g subs h]
      cases hi : semLocalAny e g subs <;> simp
  | .group neg subs, h => by
      simp only [Cond.WF] at h
      simp [evalC, specReasons, evalOr_reasons e g subs h]
  | .conj subs, h => by
      simp only [Cond.WF] at h
      simp [evalC, specReasons, evalAnd_reasons e g subs h]
theorem evalOr_reasons (e : Env) (g : Gene) :
    ∀ cs, WFs cs = true → (evalOr e g false cs).reasons = specReasonsL e g cs
  | [], _ => by simp [evalOr, specReasonsL]
  | c :: cs, h => by
      simp only [WFs, Bool.and_eq_true] at h
      simp [evalOr, specReasonsL, evalC_reasons e g c h.1, evalOr_reasons e g cs h.2]
theorem evalAnd_reasons (e : Env) (g : Gene) :
    ∀ cs, WFs cs = true → (evalAnd e g false cs).reasons = specReasonsL e g cs
  | [], _ => by simp [evalAnd, specReasonsL]
  | c :: cs, h => by
      simp only [WFs, Bool.and_eq_true] at h
      simp [evalAnd, specReasonsL, evalC_reasons e g c h.1, evalAnd_reasons e g cs h.2]
end

/-! ### ancillary hits are genuine neighbours carrying a profile of the rule -/
def AncOK (e : Env) (g : Gene) (ps : List Prof) (x : Gene × Prof) : Prop :=
  x.1 ∈ e.near g ∧ e.has x.1 x.2 = true ∧ x.2 ∈ ps

theorem AncOK.mono {e : Env} {g : Gene} {ps qs : List Prof} {x : Gene × Prof}
    (h : AncOK e g ps x) (hs : ∀ p, p ∈ ps → p ∈ qs) : AncOK e g qs x :=
  ⟨h.1, h.2.1, hs _ h.2.2⟩

mutual
theorem evalC_anc (e : Env) (wf : e.WF) (g : Gene) (lo : Bool) :
    ∀ c, ∀ x ∈ (evalC e g lo c).ancillary, AncOK e g c.profiles x
  | .single neg p, x, hx => by
      simp only [evalC] at hx
      split at hx
      · cases hx
      · split at hx
        · simp only [List.mem_map, List.mem_filter] at hx
          obtain ⟨h, ⟨hh, hhas⟩, rfl⟩ := hx
          simp only [Env.nbrsHit, List.mem_filter] at hh
          refine ⟨?_, hhas, by simp [Cond.profiles]⟩
          simp only [Env.near, List.mem_filter]
          exact ⟨wf.sub h hh.1, hh.2⟩
        · cases hx
  | .score neg p s, x, hx => by
      simp only [evalC] at hx
      split at hx
      · cases hx
      · split at hx <;> cases hx
  | .minimum neg n opts, x, hx => by
      simp only [evalC] at hx
      split at hx
      · cases hx
      · split at hx
        · simp only [List.mem_flatMap, List.mem_map] at hx
          obtain ⟨y, ⟨h, hh, rfl⟩, p, hp, rfl⟩ := hx
          simp only [List.mem_filter] at hp
          exact ⟨hh, hp.2, by simpa [Cond.profiles] using hp.1⟩
        · cases hx
  | .cds neg subs, x, hx => by
      simp only [evalC] at hx
      split at hx <;> cases hx
  | .group neg subs, x, hx => by
      simp only [evalC] at hx
      exact evalOr_anc e wf g lo subs x hx
  | .conj subs, x, hx => by
      simp only [evalC] at hx
      exact evalAnd_anc e wf g lo subs x hx
theorem evalOr_anc (e : Env) (wf : e.WF) (g : Gene) (lo : Bool) :
    ∀ cs, ∀ x ∈ (evalOr e g lo cs).ancillary, AncOK e g (profilesL cs) x
  | [], x, hx => by simp [evalOr] at hx
  | c :: cs, x, hx => by
      simp only [evalOr, List.mem_append] at hx
      rcases hx with hx | hx
      · exact (evalC_anc e wf g lo c x hx).mono (by intro p hp; simp [profilesL, hp])
      · exact (evalOr_anc e wf g lo cs x hx).mono (by intro p hp; simp [profilesL, hp])
theorem evalAnd_anc (e : Env) (wf : e.WF) (g : Gene) (lo : Bool) :
    ∀ cs, ∀ x ∈ (evalAnd e g lo cs).ancillary, AncOK e g (profilesL cs) x
  | [], x, hx => by simp [evalAnd] at hx
  | c :: cs, x, hx => by
      simp only [evalAnd, List.mem_append] at hx
      rcases hx with hx | hx
      · exact (evalC_anc e wf g lo c x hx).mono (by intro p hp; simp [profilesL, hp])
      · exact (evalAnd_anc e wf g lo cs x hx).mono (by intro p hp; simp [profilesL, hp])
end

end ASV.Rules
