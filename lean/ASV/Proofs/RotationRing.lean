/-
  C07 helper lemmas for the composite rotation theorems over the code models of
  `find_protoclusters` / `merge_over_origin` (C03's ring theorems) and `create_regions` (C06's).
-/
import ASV.Proofs.RotationStages
import ASV.Props.C03
import ASV.Props.C06
set_option linter.unusedVariables false
namespace ASV.Proto
open ASV ASV.Chains

theorem iabs_swap (x y : Int) : iabs (x - y) = iabs (y - x) := by
  simp only [iabs_def]; split <;> split <;> omega

theorem ringAbs_comm (L i j : Int) : ringAbs L i j = ringAbs L j i := by
  simp only [ringAbs, iabs_swap i j]

/-- two cores that are further apart than the cutoff cannot cover two bases within the cutoff -/
theorem not_farApart_of_close {L c : Int} {p q : Loc} {x y : Int} (hx : p.mem x = true) (hy : q.mem y = true)
    (hxy : ringAbs L y x ≤ c) : ¬ FarApart L c p q := by
  intro h
  have := h x y hx hy
  omega

/-- the span of a gene of a line or of an inner arc (no exon order across the origin) is well formed -/
theorem GeneOK.span_OK {len : Int} {l : Loc} (h : GeneOK len l) : (spanLoc len l).OK len := by
  rw [spanLoc_nb len l h.nb]
  refine ⟨by simp [Loc.parts], ?_⟩
  intro p hp
  simp only [Loc.parts, List.mem_singleton] at hp
  subst hp
  exact ⟨h.start_nonneg, h.start_lt_end, fun _ => h.end_le⟩

end ASV.Proto
