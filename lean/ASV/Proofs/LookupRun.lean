/-
  C08 helper lemmas, part 5e: every call preserves the invariant; whole histories.
-/
import ASV.Proofs.LookupInvAnn
namespace ASV.Lookup
open ASV

/-- what a call's arguments must satisfy: a well-formed gene location; a well-formed collection; the
    regions a clearing call re-creates are well-formed region objects -/
def OpOK : Op → Prop
  | .cds g => LocOK g.loc
  | .area a => AreaOK a
  | .clearSubs new => ∀ a ∈ new, AreaOK a ∧ a.kind = .region
  | .clearCands new => ∀ a ∈ new, AreaOK a ∧ a.kind = .region
  | .clearProtos new => ∀ a ∈ new, AreaOK a ∧ a.kind = .region
  | _ => True

theorem Inv.peek {S : Prop} {L : Live} {ever : List AreaT} {r r' : Rec} (h : Inv S L ever r) (e : CoreEq r r') (c : InvCache r') :
    Inv S L (ever ++ []) r' := by
  rw [List.append_nil]; exact ⟨h.core.congr e, c⟩

theorem getByName_ok {r r' : Rec} {gid : Nat} (h : getByName r gid = .ok r') :
    ∃ g, r.byName.find? (fun x => x.1 == gid) = some (gid, g) ∧
      r' = { r with log := r.log ++ [[[g.id, g.loc.start.toNat, g.loc.end.toNat]]] } := by
  unfold getByName at h
  cases hf : r.byName.find? (fun x => x.1 == gid) with
  | none => rw [hf] at h; cases h
  | some x =>
    rw [hf] at h
    obtain ⟨i, g⟩ := x
    simp only [pure, Except.pure] at h
    injection h with h
    have hi : i = gid := by simpa using List.find?_some hf
    exact ⟨g, by rw [hi], h.symm⟩

theorem Inv.step {S : Prop} {L : Live} {ever : List AreaT} {r r' : Rec} (h : Inv S L ever r) (op : Op) (hop : OpOK op)
    (hstep : Lookup.step r op = .ok r') : Inv S (L.step op) (ever ++ opAreas op) r' := by
  cases op with
  | cds g => simpa [opAreas] using h.addCds g hop hstep
  | area a => exact h.addArea a hop hstep
  | clearRegions =>
    simp only [Lookup.step, pure, Except.pure] at hstep
    injection hstep with hstep; subst hstep
    simpa [opAreas, Live.step] using h.clearRegions
  | clearSubs new =>
    have e1 : { r with subs := [] } = dropLists r false false true := by simp [dropLists]
    have e2 : Live.step L (.clearSubs new) = (L.drop false false true).reset new := by simp [Live.step, Live.drop]
    simp only [Lookup.step, e1] at hstep
    rw [e2]
    exact (h.drop false false true).reset new hop hstep
  | clearCands new =>
    have e1 : { r with cands := [] } = dropLists r false true false := by simp [dropLists]
    have e2 : Live.step L (.clearCands new) = (L.drop false true false).reset new := by simp [Live.step, Live.drop]
    simp only [Lookup.step, e1] at hstep
    rw [e2]
    exact (h.drop false true false).reset new hop hstep
  | clearProtos new =>
    have e1 : { r with protos := [], cands := [] } = dropLists r true true false := by simp [dropLists]
    have e2 : Live.step L (.clearProtos new) = (L.drop true true false).reset new := by simp [Live.step, Live.drop]
    simp only [Lookup.step, e1] at hstep
    rw [e2]
    exact (h.drop true true false).reset new hop hstep
  | peekCds =>
    simp only [Lookup.step, pure, Except.pure] at hstep
    injection hstep with hstep; subst hstep
    obtain ⟨e, c, _⟩ := InvCore.peekCds (S := S) (L := L) (ever := ever) h.cache
    exact h.peek e c
  | peekArea aid =>
    simp only [Lookup.step, pure, Except.pure] at hstep
    injection hstep with hstep; subst hstep
    obtain ⟨e, c, _⟩ := peekArea_spec h.cache aid
    exact h.peek e c
  | byName gid =>
    obtain ⟨g, _, e⟩ := getByName_ok hstep
    subst e
    exact h.peek (by constructor <;> rfl) ⟨h.cache.cds, h.cache.slot, h.cache.tuple⟩
  | withinRegions =>
    simp only [Lookup.step, pure, Except.pure] at hstep
    injection hstep with hstep; subst hstep
    exact h.peek (by constructor <;> rfl) ⟨h.cache.cds, h.cache.slot, h.cache.tuple⟩
  | hasCds aid gid =>
    simp only [Lookup.step, pure, Except.pure] at hstep
    injection hstep with hstep; subst hstep
    exact h.peek (by constructor <;> rfl) ⟨h.cache.cds, h.cache.slot, h.cache.tuple⟩
  | setCores gid cs =>
    simpa [opAreas] using h.setCores gid cs hstep
  | indexOf aid gid =>
    obtain ⟨i, _, e⟩ := indexOf_ok hstep
    subst e
    obtain ⟨e, c, _, _⟩ := peekRegen_spec h.cache aid
    exact h.peek { len := e.len, genes := e.genes, byName := e.byName, byLoc := e.byLoc, regions := e.regions,
                   protos := e.protos, cands := e.cands, subs := e.subs, members := e.members,
                   sections := e.sections, defs := e.defs, regionOf := e.regionOf } ⟨c.cds, c.slot, c.tuple⟩

theorem liveAfter_append (ops : List Op) (op : Op) : liveAfter (ops ++ [op]) = (liveAfter ops).step op := by
  simp [liveAfter, List.foldl_append]

theorem opsAreas_append (ops : List Op) (op : Op) : opsAreas (ops ++ [op]) = opsAreas ops ++ opAreas op := by
  simp [opsAreas]

theorem foldlM_inv : ∀ (ops seen : List Op) (r0 r : Rec), Inv S (liveAfter seen) (opsAreas seen) r0 → (∀ op ∈ ops, OpOK op) →
    ops.foldlM step r0 = .ok r → Inv S (liveAfter (seen ++ ops)) (opsAreas (seen ++ ops)) r
  | [], seen, r0, r, h, _, hrun => by
    simp only [List.foldlM_nil, pure, Except.pure] at hrun
    injection hrun with hrun
    subst hrun
    simpa using h
  | op :: ops, seen, r0, r, h, hok, hrun => by
    simp only [List.foldlM_cons, bind, Except.bind] at hrun
    cases hs : step r0 op with
    | error e => rw [hs] at hrun; cases hrun
    | ok r1 =>
      rw [hs] at hrun
      have h1 := h.step op (hok op (by simp)) hs
      rw [← liveAfter_append, ← opsAreas_append] at h1
      have := foldlM_inv ops (seen ++ [op]) r1 r h1 (fun o ho => hok o (by simp [ho])) hrun
      simpa using this

/-- every successful history ends in a state satisfying the invariant -/
theorem run_inv {len : Int} {ops : List Op} {r : Rec} (hok : ∀ op ∈ ops, OpOK op) (hrun : run len ops = .ok r) :
    Inv True (liveAfter ops) (opsAreas ops) r := by
  have := foldlM_inv ops [] { len := len } r (by simpa [liveAfter, opsAreas] using Inv.init True len) hok hrun
  simpa using this

/-! ### histories in which genes are re-annotated at any time (`runLoose`) -/

theorem Inv.stepLoose {L : Live} {ever : List AreaT} {r r' : Rec} (h : Inv False L ever r) (op : Op) (hop : OpOK op)
    (hstep : Lookup.stepLoose r op = .ok r') : Inv False (L.step op) (ever ++ opAreas op) r' := by
  cases op with
  | setCores gid cs =>
    simp only [Lookup.stepLoose, pure, Except.pure] at hstep
    injection hstep with hstep; subst hstep
    simpa [opAreas] using h.rewriteCores gid cs (fun hf => hf.elim)
  | cds g => exact h.step _ hop hstep
  | area a => exact h.step _ hop hstep
  | clearRegions => exact h.step _ hop hstep
  | clearSubs new => exact h.step _ hop hstep
  | clearCands new => exact h.step _ hop hstep
  | clearProtos new => exact h.step _ hop hstep
  | peekCds => exact h.step _ hop hstep
  | peekArea aid => exact h.step _ hop hstep
  | byName gid => exact h.step _ hop hstep
  | withinRegions => exact h.step _ hop hstep
  | hasCds aid gid => exact h.step _ hop hstep
  | indexOf aid gid => exact h.step _ hop hstep

theorem foldlM_invLoose : ∀ (ops seen : List Op) (r0 r : Rec), Inv False (liveAfter seen) (opsAreas seen) r0 →
    (∀ op ∈ ops, OpOK op) → ops.foldlM stepLoose r0 = .ok r → Inv False (liveAfter (seen ++ ops)) (opsAreas (seen ++ ops)) r
  | [], seen, r0, r, h, _, hrun => by
    simp only [List.foldlM_nil, pure, Except.pure] at hrun
    injection hrun with hrun
    subst hrun
    simpa using h
  | op :: ops, seen, r0, r, h, hok, hrun => by
    simp only [List.foldlM_cons, bind, Except.bind] at hrun
    cases hs : stepLoose r0 op with
    | error e => rw [hs] at hrun; cases hrun
    | ok r1 =>
      rw [hs] at hrun
      have h1 := h.stepLoose op (hok op (by simp)) hs
      rw [← liveAfter_append, ← opsAreas_append] at h1
      have := foldlM_invLoose ops (seen ++ [op]) r1 r h1 (fun o ho => hok o (by simp [ho])) hrun
      simpa using this

/-- every successful history with annotation rewrites at any time satisfies the invariant except for its
    definition-set part -/
theorem runLoose_inv {len : Int} {ops : List Op} {r : Rec} (hok : ∀ op ∈ ops, OpOK op) (hrun : runLoose len ops = .ok r) :
    Inv False (liveAfter ops) (opsAreas ops) r := by
  have := foldlM_invLoose ops [] { len := len } r (by simpa [liveAfter, opsAreas] using Inv.init False len) hok hrun
  simpa using this

end ASV.Lookup
