/-
  C06 helper lemmas, part 4: association-list dictionaries, `insertAt`, `bisectLeft` bounds,
  renumbering (`number x = index x + 1`).
-/
import ASV.Model.Regions
namespace ASV.Regions
open ASV

/-! ### dictionaries -/

theorem Dict.get_set {β} (d : Dict β) (k k' : Nat) (v : β) :
    (d.set k v).get k' = if k = k' then some v else d.get k' := by
  simp [Dict.set, Dict.get]

theorem setNone_get (d : Dict (Option Nat)) (ids : List Nat) (k : Nat) :
    (setNone d ids).get k = if k ∈ ids then some none else d.get k := by
  induction ids generalizing d with
  | nil => simp [setNone]
  | cons i is ih =>
    simp only [setNone, List.foldl_cons] at ih ⊢
    rw [ih, Dict.get_set]
    by_cases h1 : k ∈ is
    · simp [h1]
    · by_cases h2 : i = k
      · subst h2; simp [h1]
      · have : ¬ k = i := fun e => h2 e.symm
        simp [h1, h2, this]

theorem foldl_set_get {α} (d : Dict (Option Nat)) (xs : List α) (key : α → Nat) (v : Option Nat) (k : Nat) :
    (xs.foldl (fun acc x => acc.set (key x) v) d).get k = if k ∈ xs.map key then some v else d.get k := by
  induction xs generalizing d with
  | nil => simp
  | cons x xs ih =>
    simp only [List.foldl_cons, List.map_cons, List.mem_cons]
    rw [ih, Dict.get_set]
    by_cases h1 : k ∈ xs.map key
    · simp [h1]
    · by_cases h2 : key x = k
      · simp [h1, h2]
      · have : ¬ k = key x := fun e => h2 e.symm
        simp [h1, h2, this]

/-! ### insertion -/

theorem insertAt_perm {α} (l : List α) (i : Nat) (x : α) : (insertAt l i x).Perm (x :: l) := by
  simp only [insertAt]
  have h : (l.take i ++ x :: l.drop i).Perm (x :: (l.take i ++ l.drop i)) := List.perm_middle
  rw [List.take_append_drop] at h
  exact h

theorem insertAt_length_eq {α} (l : List α) (i : Nat) (x : α) : (insertAt l i x).length = l.length + 1 := by
  simpa using (insertAt_perm l i x).length_eq

theorem insertAt_get_lt {α} (l : List α) (i j : Nat) (x : α) (h : j < i) (hi : i ≤ l.length) :
    (insertAt l i x)[j]? = l[j]? := by
  simp only [insertAt]
  rw [List.getElem?_append_left (by simp; omega), List.getElem?_take_of_lt h]

theorem insertAt_drop {α} (l : List α) (i : Nat) (x : α) (hi : i ≤ l.length) :
    (insertAt l i x).drop i = x :: l.drop i := by
  simp only [insertAt]
  rw [List.drop_append_of_le_length (by simp; omega)]
  simp [List.drop_take, Nat.min_eq_left hi]

/-! ### `bisect_left` stays inside [lo, hi] -/

theorem bisectLeft_bounds (lt : Feat → E Bool) (a : List Feat) (fuel lo hi r : Nat) (h : lo ≤ hi)
    (hr : bisectLeft lt a fuel lo hi = .ok r) : lo ≤ r ∧ r ≤ hi := by
  induction fuel generalizing lo hi with
  | zero =>
    simp only [bisectLeft, pure, Except.pure, Except.ok.injEq] at hr
    omega
  | succ n ih =>
    simp only [bisectLeft] at hr
    split at hr
    · next hlt =>
      split at hr
      · cases hr
      · next y _ =>
        simp only [bind, Except.bind] at hr
        split at hr
        · cases hr
        · next b _ =>
          cases b with
          | true =>
            simp only [if_true] at hr
            have := ih _ _ (by omega) hr
            omega
          | false =>
            simp only [Bool.false_eq_true, if_false] at hr
            have := ih _ _ (by omega) hr
            omega
    · simp only [pure, Except.pure, Except.ok.injEq] at hr
      omega

theorem checkNoOverlap_ok (region : Feat) (rs : List Feat) (h : checkNoOverlap region rs = .ok ()) :
    ∀ x ∈ rs, locationsOverlap region.loc x.loc = false := by
  induction rs with
  | nil => simp
  | cons x xs ih =>
    simp only [checkNoOverlap] at h
    split at h
    · cases h
    · next hov =>
      intro y hy
      simp only [List.mem_cons] at hy
      rcases hy with rfl | hy
      · simpa using hov
      · exact ih h y hy

/-- `regionIndex` succeeds only with an index inside the list and if the new region overlaps no existing one -/
theorem regionIndex_ok (region : Feat) (i r : Nat) (rs : List Feat)
    (hr : regionIndex region i rs = .ok r) :
    (i ≤ r ∧ r ≤ i + rs.length) ∧ ∀ x ∈ rs, locationsOverlap region.loc x.loc = false := by
  induction rs generalizing i with
  | nil =>
    simp only [regionIndex, pure, Except.pure, Except.ok.injEq] at hr
    simp; omega
  | cons x xs ih =>
    simp only [regionIndex, bind, Except.bind] at hr
    split at hr
    · cases hr
    · next hov =>
      split at hr
      · cases hr
      · next b _ =>
        cases b with
        | true =>
          simp only [if_true] at hr
          split at hr
          · cases hr
          · next u hu =>
            simp only [pure, Except.pure, Except.ok.injEq] at hr
            refine ⟨by simp; omega, ?_⟩
            intro y hy
            simp only [List.mem_cons] at hy
            rcases hy with rfl | hy
            · simpa using hov
            · exact checkNoOverlap_ok region xs (by cases u; exact hu) y hy
        | false =>
          simp only [Bool.false_eq_true, if_false] at hr
          have := ih _ hr
          refine ⟨by simp only [List.length_cons]; omega, ?_⟩
          intro y hy
          simp only [List.mem_cons] at hy
          rcases hy with rfl | hy
          · simpa using hov
          · exact this.2 y hy

/-! ### numbering -/

/-- `number x = index x + 1` for every member -/
def Numbered (d : Dict Nat) (l : List Feat) : Prop := ∀ j f, l[j]? = some f → d.get f.id = some (j + 1)

theorem renumberFrom_get_other (d : Dict Nat) (i : Nat) (r : List Feat) (k : Nat) (h : k ∉ r.map (·.id)) :
    (renumberFrom d i r).get k = d.get k := by
  induction r generalizing d i with
  | nil => rfl
  | cons f r ih =>
    simp only [List.map_cons, List.mem_cons, not_or] at h
    simp only [renumberFrom]
    rw [ih _ _ h.2, Dict.get_set]
    have : ¬ f.id = k := fun e => h.1 e.symm
    simp [this]

theorem renumberFrom_get (d : Dict Nat) (i : Nat) (r : List Feat) (hnd : (r.map (·.id)).Nodup) (j : Nat) (f : Feat)
    (hf : r[j]? = some f) : (renumberFrom d i r).get f.id = some (i + j + 1) := by
  induction r generalizing d i j with
  | nil => simp at hf
  | cons g r ih =>
    simp only [List.map_cons, List.nodup_cons] at hnd
    simp only [renumberFrom]
    cases j with
    | zero =>
      simp only [List.getElem?_cons_zero, Option.some.injEq] at hf
      subst hf
      rw [renumberFrom_get_other _ _ _ _ hnd.1, Dict.get_set]
      simp
    | succ j =>
      simp only [List.getElem?_cons_succ] at hf
      rw [ih _ _ hnd.2 j hf]
      congr 1; omega

theorem renumber_numbered (d : Dict Nat) (l : List Feat) (index : Nat) (hnd : (l.map (·.id)).Nodup)
    (hlow : ∀ j f, j < index → l[j]? = some f → d.get f.id = some (j + 1)) :
    Numbered (renumber d l index) l := by
  intro j f hf
  simp only [renumber]
  have hsplit : l = l.take index ++ l.drop index := (List.take_append_drop index l).symm
  have hnd' : ((l.take index).map (·.id) ++ (l.drop index).map (·.id)).Nodup := by
    rw [← List.map_append, ← hsplit]; exact hnd
  have hnd2 := List.nodup_append.1 hnd'
  by_cases hj : j < index
  · have hmem : f ∈ l.take index := by
      have : (l.take index)[j]? = some f := by rw [List.getElem?_take_of_lt hj]; exact hf
      exact List.mem_of_getElem? this
    rw [renumberFrom_get_other _ _ _ _ (by
      intro hin
      exact hnd2.2.2 f.id (List.mem_map.2 ⟨f, hmem, rfl⟩) f.id hin rfl)]
    exact hlow j f hj hf
  · have : (l.drop index)[j - index]? = some f := by
      rw [List.getElem?_drop]; rw [show index + (j - index) = j by omega]; exact hf
    rw [renumberFrom_get _ _ _ hnd2.2.1 (j - index) f this]
    congr 1; omega

end ASV.Regions
