/-
  C02: every ruleset `get_ruleset` hands out reads as the spec says, and keeps doing so whatever is
  requested afterwards (no rule object is shared between cached rulesets).
-/
import ASV.Spec.Rulesets
import ASV.Proofs.Parser.Prefix
import ASV.Proofs.Parser.Basic
namespace ASV.Rulesets
open ASV ASV.Parser

theorem scaleRule_unit (r : Rule) : scaleRule {} r = r := by
  simp [scaleRule, scale]

theorem keep_eq (k : Key) (r : Rule) : keep k r = wantedRule k.names k.cats r := rfl

theorem scaleRule_eq (m : Mul) (r : Rule) : scaleRule m r =
    { r with cutoff := r.cutoff * m.cutoff.1 / m.cutoff.2,
             neighbourhood := r.neighbourhood * m.neighbourhood.1 / m.neighbourhood.2 } := rfl

theorem postInit_length (refs : List Nat) (m : Mul) (h : Heap) : (postInit refs m h).length = h.length := by
  unfold postInit
  induction refs generalizing h with
  | nil => rfl
  | cons i r ih => simp [List.foldl_cons, ih]

/-- rescaling in place touches exactly the referenced objects, each once -/
theorem postInit_get (refs : List Nat) (m : Mul) : ∀ (h : Heap) (j : Nat), refs.Nodup →
    (postInit refs m h)[j]? = if j ∈ refs then (h[j]?).map (scaleRule m) else h[j]? := by
  unfold postInit
  induction refs with
  | nil => intro h j _; simp
  | cons i r ih =>
    intro h j hn
    rw [List.nodup_cons] at hn
    simp only [List.foldl_cons]
    rw [ih _ j hn.2, List.getElem?_modify]
    by_cases hji : j = i
    · subst hji
      simp [hn.1]
    · have : ¬ i = j := fun h => hji h.symm
      by_cases hjr : j ∈ r <;> simp [hji, this, hjr]

theorem filterMap_congr' {α β} {f g : α → Option β} : ∀ {l : List α}, (∀ x ∈ l, f x = g x) →
    l.filterMap f = l.filterMap g
  | [], _ => rfl
  | a :: r, h => by
      simp only [List.filterMap_cons, h a (by simp)]
      rw [filterMap_congr' (fun x hx => h x (by simp [hx]))]

theorem filterMap_filter' {α β} (p : α → Bool) (f : α → Option β) : ∀ (l : List α),
    (l.filter p).filterMap f = l.filterMap (fun x => if p x then f x else none)
  | [] => rfl
  | a :: r => by
      have ih := filterMap_filter' p f r
      by_cases h : p a = true
      · simp only [List.filter_cons, h, ↓reduceIte, List.filterMap_cons, ih]
      · simp only [List.filter_cons, h, Bool.false_eq_true, ↓reduceIte, List.filterMap_cons, ih]

theorem range'_nodup (s n : Nat) : (List.range' s n).Nodup := List.nodup_range'

/-- reading freshly allocated objects through their references -/
theorem read_block {β} (p : Rule → Bool) (f : Rule → β) : ∀ (rules pre : List Rule),
    (List.range' pre.length rules.length).filterMap (fun i => ((pre ++ rules)[i]?).bind fun r =>
      if p r then some (f r) else none) = (rules.filter p).map f := by
  intro rules
  induction rules with
  | nil => intro pre; simp
  | cons r rs ih =>
    intro pre
    have hlen : (pre ++ [r]).length = pre.length + 1 := by simp
    have := ih (pre ++ [r])
    rw [hlen] at this
    simp only [List.append_assoc, List.singleton_append] at this
    simp only [List.length_cons, List.range'_succ, List.filterMap_cons]
    have h0 : (pre ++ r :: rs)[pre.length]? = some r := by simp
    rw [h0]
    by_cases hp : p r = true
    · simp [hp, this]
    · simp [hp, this]

end ASV.Rulesets

namespace ASV.Rulesets
open ASV ASV.Parser

/-- every cached ruleset refers to allocated objects and reads as the spec says -/
def Inv (parsed : String → Except Err (List Rule)) (st : State) : Prop :=
  ∀ p ∈ st.cache, (∀ i ∈ p.2.refs, i < st.heap.length) ∧
    ∃ rules, parsed p.1.strictness = .ok rules ∧ p.2.read st.heap = wanted rules p.1.names p.1.cats p.1.mul ∧
      p.2.mul = p.1.mul

theorem mem_range' {s n i : Nat} : i ∈ List.range' s n ↔ s ≤ i ∧ i < s + n := List.mem_range'_1

/-- one `get_ruleset` call -/
theorem getRuleset_inv (parsed : String → Except Err (List Rule)) (q : Req) (st st' : State) (rs : RS)
    (h : getRuleset parsed q st = .ok (rs, st')) (inv : Inv parsed st) :
    Inv parsed st' ∧ (∃ k, (k, rs) ∈ st'.cache ∧ k.strictness = q.strictness ∧ k.names = sortDedupStr q.names ∧
      k.cats = sortDedupStr q.cats ∧ (q.fungi = false → k.mul = {}) ∧ (q.fungi = true → mkMul q.cmul q.nmul = .ok k.mul)) ∧
      (∀ p ∈ st.cache, p ∈ st'.cache) := by
  unfold getRuleset at h
  simp only [bind_ok] at h
  obtain ⟨mul, hmul, h⟩ := h
  have hmulq : (q.fungi = false → mul = {}) ∧ (q.fungi = true → mkMul q.cmul q.nmul = .ok mul) := by
    unfold reqMul at hmul
    cases hf : q.fungi with
    | false => rw [hf] at hmul; simp at hmul; exact ⟨fun _ => hmul.symm, fun h => (by cases h)⟩
    | true => rw [hf] at hmul; simp at hmul; exact ⟨fun h => (by cases h), fun _ => hmul⟩
  split at h
  · -- cache hit
    rename_i rs0 hl
    cases h
    have hmem : (⟨q.strictness, sortDedupStr q.names, sortDedupStr q.cats, mul⟩, rs) ∈ st.cache := by
      have := hl
      clear inv
      generalize st.cache = c at this
      induction c with
      | nil => cases this
      | cons p ps ih =>
        obtain ⟨a, b⟩ := p
        simp only [List.lookup] at this
        split at this
        · rename_i heq
          cases this
          have : (⟨q.strictness, sortDedupStr q.names, sortDedupStr q.cats, mul⟩ : Key) = a := by simpa using heq
          subst this; simp
        · exact List.mem_cons_of_mem _ (ih this)
    exact ⟨inv, ⟨_, hmem, rfl, rfl, rfl, hmulq⟩, fun p hp => hp⟩
  · -- cache miss: freshly parsed rules
    simp only [bind_ok] at h
    obtain ⟨rules, hparsed, h⟩ := h
    simp only [fromFiles, pure, Except.pure, Except.ok.injEq, Prod.mk.injEq] at h
    obtain ⟨rfl, rfl⟩ := h
    -- names for the pieces
    let key : Key := ⟨q.strictness, sortDedupStr q.names, sortDedupStr q.cats, mul⟩
    let refs := List.range' st.heap.length rules.length
    let heap1 := postInit refs {} (st.heap ++ rules)
    have hnd : refs.Nodup := range'_nodup _ _
    have hget1 : ∀ j : Nat, heap1[j]? = (st.heap ++ rules)[j]? := by
      intro j
      show (postInit refs {} (st.heap ++ rules))[j]? = _
      rw [postInit_get refs {} _ j hnd]
      split
      · cases (st.heap ++ rules)[j]? <;> simp [scaleRule_unit]
      · rfl
    let sel := refs.filter fun i => match heap1[i]? with | some r => keep key r | none => false
    have hsel_sub : ∀ i ∈ sel, i ∈ refs := fun i hi => (List.mem_filter.mp hi).1
    have hsel_nd : sel.Nodup := hnd.filter _
    have hlen2 : (postInit sel mul heap1).length = st.heap.length + rules.length := by
      rw [postInit_length]; show (postInit refs {} (st.heap ++ rules)).length = _
      rw [postInit_length]; simp
    refine ⟨?_, ⟨key, by simp [key], rfl, rfl, rfl, hmulq⟩, fun p hp => by simp [hp]⟩
    intro p hp
    simp only [List.mem_append, List.mem_singleton] at hp
    rcases hp with hp | rfl
    · -- an older ruleset: its objects are below the new block
      obtain ⟨hb, rules0, hp0, hr0, hm0⟩ := inv p hp
      refine ⟨fun i hi => by have := hb i hi; show i < (postInit sel mul heap1).length; rw [hlen2]; omega,
        rules0, hp0, ?_, hm0⟩
      rw [← hr0]
      unfold RS.read
      apply filterMap_congr'
      intro i hi
      have hlt := hb i hi
      have hnot : i ∉ refs := fun hm => by have := (mem_range'.mp hm).1; omega
      show (postInit sel mul heap1)[i]? = st.heap[i]?
      rw [postInit_get sel mul heap1 i hsel_nd, if_neg (fun hm => hnot (hsel_sub i hm)), hget1 i]
      exact List.getElem?_append_left hlt
    · -- the new ruleset
      refine ⟨fun i hi => ?_, rules, hparsed, ?_, rfl⟩
      · have := (mem_range'.mp (hsel_sub i hi)).2
        show i < (postInit sel mul heap1).length
        rw [hlen2]; exact this
      · show (RS.read ⟨sel, mul⟩ (postInit sel mul heap1)) = wanted rules key.names key.cats key.mul
        unfold RS.read wanted
        simp only
        -- read through `sel` = read through the block, keeping the wanted ones
        have hread : sel.filterMap (fun i => (postInit sel mul heap1)[i]?) =
            refs.filterMap (fun i => ((st.heap ++ rules)[i]?).bind fun r =>
              if keep key r then some (scaleRule mul r) else none) := by
          show (refs.filter _).filterMap _ = _
          rw [filterMap_filter']
          apply filterMap_congr'
          intro i hi
          rw [hget1 i]
          cases hx : (st.heap ++ rules)[i]? with
          | none => simp
          | some r =>
            by_cases hk : keep key r = true
            · have hin : i ∈ sel := by
                refine List.mem_filter.mpr ⟨hi, ?_⟩
                simp only [hget1 i, hx, hk]
              simp only [hk, ↓reduceIte, Option.bind_some]
              rw [postInit_get sel mul heap1 i hsel_nd, if_pos hin, hget1 i, hx]
              rfl
            · simp [hk]
        rw [hread, read_block (keep key) (scaleRule mul) rules st.heap]
        rfl

theorem run_inv (parsed : String → Except Err (List Rule)) : ∀ (qs : List Req) (st st' : State) (out : List RS),
    run parsed qs st = .ok (out, st') → Inv parsed st →
    Inv parsed st' ∧ (∀ p ∈ st.cache, p ∈ st'.cache) ∧ out.length = qs.length ∧
      ∀ rs ∈ out, ∃ k, (k, rs) ∈ st'.cache := by
  intro qs
  induction qs with
  | nil =>
    intro st st' out h inv
    simp only [run, pure, Except.pure, Except.ok.injEq, Prod.mk.injEq] at h
    obtain ⟨rfl, rfl⟩ := h
    exact ⟨inv, fun p hp => hp, rfl, fun rs h => by cases h⟩
  | cons q qs ih =>
    intro st st' out h inv
    simp only [run, bind_ok, Prod.exists] at h
    obtain ⟨rs, st1, h1, rest, st2, h2, h⟩ := h
    simp only [pure, Except.pure, Except.ok.injEq, Prod.mk.injEq] at h
    obtain ⟨rfl, rfl⟩ := h
    obtain ⟨inv1, ⟨k, hk, _⟩, hmono1⟩ := getRuleset_inv parsed q st st1 rs h1 inv
    obtain ⟨inv2, hmono2, hlen, hout⟩ := ih st1 st2 rest h2 inv1
    refine ⟨inv2, fun p hp => hmono2 p (hmono1 p hp), by simp [hlen], ?_⟩
    intro r hr
    rcases List.mem_cons.mp hr with rfl | hr
    · exact ⟨k, hmono2 _ hk⟩
    · exact hout r hr

end ASV.Rulesets

namespace ASV.Rulesets
open ASV ASV.Parser

/-- `Ruleset.from_files` (repaired, D201): the rules are scaled by the multipliers exactly once -/
theorem fromFiles_read (rules : List Rule) (m : Mul) (h : Heap) :
    (fromFiles rules m h).1.read (fromFiles rules m h).2 = wanted rules [] [] m := by
  unfold fromFiles RS.read wanted
  simp only
  have hnd := range'_nodup h.length rules.length
  have : (List.range' h.length rules.length).filterMap
      (fun i => (postInit (List.range' h.length rules.length) m (h ++ rules))[i]?) =
      (List.range' h.length rules.length).filterMap (fun i => ((h ++ rules)[i]?).bind fun r =>
        if (fun _ => true) r then some (scaleRule m r) else none) := by
    apply filterMap_congr'
    intro i hi
    rw [postInit_get _ m _ i hnd, if_pos hi]
    cases (h ++ rules)[i]? <;> simp
  rw [this, read_block (fun _ => true) (scaleRule m) rules h]
  rfl

theorem lookup_append_new {α β} [BEq α] (k : α) (v : β) : ∀ (c : List (α × β)), c.lookup k = none → (k == k) = true →
    (c ++ [(k, v)]).lookup k = some v := by
  intro c
  induction c with
  | nil => intro _ hk; simp [List.lookup, hk]
  | cons p ps ih =>
    intro h hk
    obtain ⟨a, b⟩ := p
    simp only [List.cons_append, List.lookup] at h ⊢
    split at h
    · cases h
    · exact ih h hk

/-- asking again for what was just handed out is a cache hit: the same ruleset, nothing changes -/
theorem getRuleset_again (parsed : String → Except Err (List Rule)) (q : Req) (st st' : State) (rs : RS)
    (h : getRuleset parsed q st = .ok (rs, st')) : getRuleset parsed q st' = .ok (rs, st') := by
  unfold getRuleset at h ⊢
  simp only [bind_ok] at h
  obtain ⟨mul, hmul, h⟩ := h
  simp only [hmul, bind, Except.bind]
  split at h
  · rename_i rs0 hl
    cases h
    simp [hl, pure, Except.pure]
  · rename_i hl
    simp only [bind_ok] at h
    obtain ⟨rules, hp, h⟩ := h
    simp only [pure, Except.pure] at h
    cases h
    simp only []
    rw [lookup_append_new _ _ _ hl (by simp)]
    rfl

/-- `check_options` found no issue: the multipliers are positive, the requested names are rules of
    the strictness, the categories are known, and the ruleset `get_ruleset` will hand to the run is
    built and cached -/
theorem checkOptions_ok (parsed : String → Except Err (List Rule)) (allCats : List String) (q : Req)
    (st st' : State) (h : checkOptions parsed allCats q st = .ok (true, st')) :
    ∃ rs rules, getRuleset parsed q st = .ok (rs, st') ∧ getRuleset parsed q st' = .ok (rs, st') ∧
      parsed q.strictness = .ok rules ∧ 0 < q.cmul.1 ∧ 0 < q.nmul.1 ∧
      (∀ n ∈ q.names, ∃ r ∈ rules, r.name = n) ∧ ∀ c ∈ q.cats, c ∈ allCats := by
  unfold checkOptions at h
  simp only [bind_ok] at h
  obtain ⟨rules, hp, h⟩ := h
  split at h
  · simp [pure, Except.pure] at h
  · rename_i hbad
    simp only [Bool.or_eq_true, decide_eq_true_eq, not_or, List.any_eq_true, Bool.not_eq_true', not_exists, not_and,
      Bool.not_eq_false] at hbad
    obtain ⟨⟨⟨hc, hn⟩, hnames⟩, hcats⟩ := hbad
    cases hg : getRuleset parsed q st with
    | error e =>
      rw [hg] at h
      cases e <;> simp [pure, Except.pure] at h
    | ok v =>
      obtain ⟨rs, st1⟩ := v
      rw [hg] at h
      simp only [pure, Except.pure, Except.ok.injEq, Prod.mk.injEq, true_and] at h
      subst h
      refine ⟨rs, rules, rfl, getRuleset_again parsed q st st1 rs hg, hp, by omega, by omega, ?_, ?_⟩
      · intro n hn'
        have := hnames n hn'
        simpa using this
      · intro c hc'
        have := hcats c hc'
        simpa using this

/-- `check_options` reported an issue: nothing was cached -/
theorem checkOptions_bad (parsed : String → Except Err (List Rule)) (allCats : List String) (q : Req)
    (st st' : State) (h : checkOptions parsed allCats q st = .ok (false, st')) : st' = st := by
  unfold checkOptions at h
  simp only [bind_ok] at h
  obtain ⟨rules, hp, h⟩ := h
  split at h
  · simp only [pure, Except.pure, Except.ok.injEq, Prod.mk.injEq, true_and] at h; exact h.symm
  · cases hg : getRuleset parsed q st with
    | error e =>
      rw [hg] at h
      cases e <;> simp [pure, Except.pure] at h
      exact h.symm
    | ok v =>
      rw [hg] at h
      simp [pure, Except.pure] at h

/-- the file lists of two levels: one is the front of the other -/
theorem ruleFilesFor_chain : ∀ (levels : List (String × String)) (a b : String) (fa fb : List String),
    ruleFilesFor levels a = some fa → ruleFilesFor levels b = some fb → fa <+: fb ∨ fb <+: fa := by
  intro levels
  induction levels with
  | nil => intro a b fa fb h; cases h
  | cons p rest ih =>
    obtain ⟨l, f⟩ := p
    intro a b fa fb ha hb
    simp only [ruleFilesFor] at ha hb
    split at ha
    · cases ha
      split at hb
      · cases hb; exact Or.inl (List.prefix_refl _)
      · cases hr : ruleFilesFor rest b with
        | none => rw [hr] at hb; cases hb
        | some r => rw [hr] at hb; cases hb; exact Or.inl ⟨r, rfl⟩
    · cases hra : ruleFilesFor rest a with
      | none => rw [hra] at ha; cases ha
      | some ra =>
        rw [hra] at ha; cases ha
        split at hb
        · cases hb; exact Or.inr ⟨ra, rfl⟩
        · cases hrb : ruleFilesFor rest b with
          | none => rw [hrb] at hb; cases hb
          | some rb =>
            rw [hrb] at hb; cases hb
            rcases ih a b ra rb hra hrb with h | h
            · exact Or.inl (List.cons_prefix_cons.mpr ⟨rfl, h⟩)
            · exact Or.inr (List.cons_prefix_cons.mpr ⟨rfl, h⟩)

/-- the requested level's own file is the last one -/
theorem ruleFilesFor_ne_nil : ∀ (levels : List (String × String)) (a : String) (fa : List String),
    ruleFilesFor levels a = some fa → fa ≠ [] := by
  intro levels
  induction levels with
  | nil => intro a fa h; cases h
  | cons p rest ih =>
    obtain ⟨l, f⟩ := p
    intro a fa h
    simp only [ruleFilesFor] at h
    split at h
    · cases h; simp
    · cases hr : ruleFilesFor rest a with
      | none => rw [hr] at h; cases h
      | some r => rw [hr] at h; cases h; simp

end ASV.Rulesets
