/-
  C19 helper lemmas, part 5: `build_area_rows` as a whole — heights separate the rows, the
  emitted list is in range, same-row areas are disjoint, and the list reads back as exactly the
  features to draw.
-/
import ASV.Proofs.PackingRows
import ASV.Proofs.PackingAreaCases
namespace ASV.Packing
open ASV ASV.Packing.Spec

/-! ### withHeights -/

theorem withHeights_fst : ∀ (rows : List Row) (h : Int),
    (withHeights rows h).map Prod.fst = allContents rows
  | [], _ => rfl
  | r :: rs, h => by
    simp [withHeights, withHeights_fst rs (h + 2), List.map_append, Function.comp_def]

theorem withHeights_ge : ∀ (rows : List Row) (h : Int), ∀ x ∈ withHeights rows h, h ≤ x.2
  | [], _, x, hx => by simp [withHeights] at hx
  | r :: rs, h, x, hx => by
    simp only [withHeights, List.mem_append, List.mem_map] at hx
    rcases hx with ⟨f, _, rfl⟩ | hx
    · simp
    · have := withHeights_ge rs (h + 2) x hx
      omega

theorem withHeights_lt : ∀ (rows : List Row) (h : Int), ∀ x ∈ withHeights rows h,
    x.2 < h + 2 * (rows.length : Int)
  | [], _, x, hx => by simp [withHeights] at hx
  | r :: rs, h, x, hx => by
    simp only [withHeights, List.mem_append, List.mem_map] at hx
    rcases hx with ⟨f, _, rfl⟩ | hx
    · simp only [List.length_cons]; omega
    · have := withHeights_lt rs (h + 2) x hx
      simp only [List.length_cons]; omega

theorem withHeights_mem : ∀ (rows : List Row) (h : Int), ∀ x ∈ withHeights rows h,
    ∃ r ∈ rows, x.1 ∈ r.contents
  | [], _, x, hx => by simp [withHeights] at hx
  | r :: rs, h, x, hx => by
    simp only [withHeights, List.mem_append, List.mem_map] at hx
    rcases hx with ⟨f, hf, rfl⟩ | hx
    · exact ⟨r, by simp, hf⟩
    · obtain ⟨r', hr', hm⟩ := withHeights_mem rs (h + 2) x hx
      exact ⟨r', by simp [hr'], hm⟩

/-- features drawn at the same height are apart on the ring -/
def SeqOK (seq : List (Feat × Int)) : Prop :=
  seq.Pairwise fun x y => x.2 = y.2 → Apart x.1.loc y.1.loc

theorem withHeights_seqOK {L : Int} : ∀ (rows : List Row) (h : Int),
    (∀ r ∈ rows, RowInv L r) → SeqOK (withHeights rows h)
  | [], _, _ => by simp [withHeights, SeqOK]
  | r :: rs, h, hinv => by
    simp only [SeqOK, withHeights]
    rw [List.pairwise_append]
    refine ⟨?_, withHeights_seqOK rs (h + 2) (fun x hx => hinv x (by simp [hx])), ?_⟩
    · rw [List.pairwise_map]
      refine (hinv r (by simp)).apart.imp ?_
      intro a b hab _
      exact hab
    · intro x hx y hy heq
      simp only [List.mem_map] at hx
      obtain ⟨f, _, rfl⟩ := hx
      have := withHeights_ge rs (h + 2) y hy
      simp only at heq
      omega

/-! ### emission -/

theorem emission_some {r : RegionIn} {seq : List (Feat × Int)} (h : emission r = some seq) :
    ∃ subRows candRows protoRows hb,
      pack r.subregions = some subRows ∧ pack (shownCandidates r) = some candRows ∧
      pack r.protos = some protoRows ∧ 2 * ((candRows ++ subRows).length : Int) ≤ hb ∧
      seq = withHeights (candRows ++ subRows) 0 ++ withHeights protoRows hb := by
  simp only [emission, bind, Option.bind_eq_some_iff, pure, Option.some.injEq] at h
  obtain ⟨subRows, h1, candRows, h2, protoRows, h3, rfl⟩ := h
  refine ⟨subRows, candRows, protoRows, _, h1, h2, h3, ?_, rfl⟩
  split <;> omega

theorem emission_isSome {L : Int} (r : RegionIn)
    (h1 : ∀ a ∈ r.subregions, collOK L a.loc = true) (h2 : ∀ a ∈ r.candidates, collOK L a.loc = true)
    (h3 : ∀ a ∈ r.protos, collOK L a.loc = true) : ∃ seq, emission r = some seq := by
  obtain ⟨subRows, e1⟩ := pack_isSome r.subregions (-1) fun a ha => collOK_start_nonneg (h1 a ha)
  obtain ⟨candRows, e2⟩ := pack_isSome (shownCandidates r) (-1) fun a ha =>
    collOK_start_nonneg (h2 a (by simp only [shownCandidates, List.mem_filter] at ha; exact ha.1))
  obtain ⟨protoRows, e3⟩ := pack_isSome r.protos (-1) fun a ha => collOK_start_nonneg (h3 a ha)
  simp only [emission, e1, e2, e3, bind, Option.bind_some, pure]
  exact ⟨_, rfl⟩

theorem emission_seqOK {L : Int} {r : RegionIn} {seq : List (Feat × Int)}
    (h1 : ∀ a ∈ r.subregions, collOK L a.loc = true) (h2 : ∀ a ∈ r.candidates, collOK L a.loc = true)
    (h3 : ∀ a ∈ r.protos, collOK L a.loc = true) (h : emission r = some seq) : SeqOK seq := by
  obtain ⟨subRows, candRows, protoRows, hb, e1, e2, e3, hhb, rfl⟩ := emission_some h
  have i1 := pack_inv r.subregions (-1) subRows h1 e1
  have i2 := pack_inv (shownCandidates r) (-1) candRows (fun a ha =>
    h2 a (by simp only [shownCandidates, List.mem_filter] at ha; exact ha.1)) e2
  have i3 := pack_inv r.protos (-1) protoRows h3 e3
  have iu : ∀ x ∈ candRows ++ subRows, RowInv L x := by
    intro x hx
    simp only [List.mem_append] at hx
    rcases hx with hx | hx
    · exact i2 x hx
    · exact i1 x hx
  simp only [SeqOK]
  rw [List.pairwise_append]
  refine ⟨withHeights_seqOK _ 0 iu, withHeights_seqOK _ hb i3, ?_⟩
  intro x hx y hy heq
  have a1 := withHeights_lt _ 0 x hx
  have a2 := withHeights_ge _ hb y hy
  omega

/-- the features drawn are a permutation of the features to draw -/
theorem emission_perm {r : RegionIn} {seq : List (Feat × Int)} (h : emission r = some seq) :
    (seq.map Prod.fst).Perm (toDraw r) := by
  obtain ⟨subRows, candRows, protoRows, hb, e1, e2, e3, _, rfl⟩ := emission_some h
  have p1 := pack_perm _ _ _ e1
  have p2 := pack_perm _ _ _ e2
  have p3 := pack_perm _ _ _ e3
  simp only [List.map_append, withHeights_fst, toDraw]
  have hc : allContents (candRows ++ subRows) = allContents candRows ++ allContents subRows := by
    simp [allContents]
  rw [hc]
  have hfilter : (r.candidates.filter fun c => !(r.subregions.isEmpty && c.single)) = shownCandidates r := by
    simp only [shownCandidates]
    apply List.filter_congr
    intro x _
    cases r.subregions.isEmpty <;> cases x.single <;> rfl
  rw [hfilter]
  exact (p2.append p1).append p3

theorem emission_feats {c : Ctx} {r : RegionIn} {seq : List (Feat × Int)} (hin : inputOK c r = true)
    (h : emission r = some seq) : ∀ x ∈ seq, featOK c x.1 = true := by
  intro x hx
  have hm : x.1 ∈ toDraw r := (emission_perm h).subset (List.mem_map_of_mem hx)
  simp only [inputOK, Bool.and_eq_true, List.all_eq_true] at hin
  simp only [toDraw, List.mem_append, List.mem_filter] at hm
  rcases hm with (⟨hm, _⟩ | hm) | hm
  · exact hin.1.2 _ hm
  · exact hin.1.1.2 _ hm
  · exact hin.2 _ hm

/-! ### convertAll -/

/-- areas of two features that are apart on the ring do not overlap in the drawing -/
theorem sep_of_apart {c : Ctx} {f g : Feat} {h h' gid gid' : Int} {as bs : List Area}
    (ga : Good c f h gid as) (gb : Good c g h' gid' bs) (hap : Apart f.loc g.loc) :
    ∀ a ∈ as, ∀ b ∈ bs, a.nend ≤ b.nstart ∨ b.nend ≤ a.nstart := by
  intro a ha b hb
  obtain ⟨hna, hpa⟩ := ga.points a ha
  obtain ⟨hnb, hpb⟩ := gb.points b hb
  by_cases hcon : a.nend ≤ b.nstart ∨ b.nend ≤ a.nstart
  · exact hcon
  · exfalso
    have hx1 := hpa (max a.nstart b.nstart) (by omega) (by omega)
    have hx2 := hpb (max a.nstart b.nstart) (by omega) (by omega)
    exact hap.not_sharesBase ⟨_, hx1, hx2⟩

structure BuildOK (c : Ctx) (seq : List (Feat × Int)) (k : Nat) (out : List Area) : Prop where
  range : ∀ a ∈ out, areaInRange (drawRange c).1 (drawRange c).2 a = true
  src : ∀ a ∈ out, ∃ x ∈ seq, ∃ gid as, gid ≠ 0 ∧ Good c x.1 x.2 gid as ∧ a ∈ as
  parse : ∃ ds, parseGo none out = some ds ∧
    ds.mapM (Drawn.shown c.L) = some (seq.map fun x => expectedShown x.1) ∧
    (ds.filterMap Drawn.groupId).Pairwise (· < ·) ∧
    ∀ g ∈ ds.filterMap Drawn.groupId, (k : Int) < g

theorem good_height {c : Ctx} {f : Feat} {h gid : Int} {as : List Area} (g : Good c f h gid as) :
    ∀ a ∈ as, a.height = h := g.height

theorem convertAll_ok {c : Ctx} (hc : regionOK c = true) : ∀ (seq : List (Feat × Int)) (k : Nat),
    (∀ x ∈ seq, featOK c x.1 = true) → ∃ out, convertAll c seq k = some out ∧ BuildOK c seq k out
  | [], k, _ => ⟨[], rfl, ⟨by simp, by simp, ⟨[], by simp [parseGo], by simp, by simp, by simp⟩⟩⟩
  | (f, h) :: rest, k, hall => by
    obtain ⟨more, hmore, bok⟩ := convertAll_ok hc rest (k + 1) (fun x hx => hall x (by simp [hx]))
    obtain ⟨here, hhere, good⟩ := areasOf_good hc (hall (f, h) (by simp)) h ((k : Int) + 1)
    have hhere' : areasOf c f h (↑k + 1) = some here := hhere
    refine ⟨here ++ more, ?_, ?_, ?_, ?_⟩
    · simp [convertAll, hhere', hmore, bind, pure]
    · intro a ha
      simp only [List.mem_append] at ha
      rcases ha with ha | ha
      · exact good.range a ha
      · exact bok.range a ha
    · intro a ha
      simp only [List.mem_append] at ha
      rcases ha with ha | ha
      · exact ⟨(f, h), by simp, _, here, by omega, good, ha⟩
      · obtain ⟨x, hx, gid, as, hg, g, hm⟩ := bok.src a ha
        exact ⟨x, by simp [hx], gid, as, hg, g, hm⟩
    · obtain ⟨ds, hp, hs, hlt, hgt⟩ := bok.parse
      rcases good.drawn with ⟨a, rfl, hg0, hsh⟩ | ⟨a, b, rfl, hga, hgb, hsh, _⟩
      · refine ⟨Drawn.whole a :: ds, ?_, ?_, ?_, ?_⟩
        · simp [parseGo, hg0, hp]
        · simp [List.mapM_cons, hsh, hs, bind, pure]
        · simp only [List.filterMap_cons, Drawn.groupId]; exact hlt
        · intro g hg
          simp only [List.filterMap_cons, Drawn.groupId] at hg
          have := hgt g hg
          push_cast at this; omega
      · have hne : (a.group == 0) = false := by
          simp only [beq_eq_false_iff_ne, ne_eq, hga]; omega
        refine ⟨Drawn.halves a b :: ds, ?_, ?_, ?_, ?_⟩
        · have hk : ¬ ((k : Int) + 1 = 0) := by omega
          simp [parseGo, hga, hgb, hp, hk]
        · simp [List.mapM_cons, hsh, hs, bind, pure]
        · simp only [List.filterMap_cons, Drawn.groupId, List.pairwise_cons]
          refine ⟨?_, hlt⟩
          intro g hg
          have := hgt g hg
          push_cast at this; omega
        · intro g hg
          simp only [List.filterMap_cons, Drawn.groupId, List.mem_cons] at hg
          rcases hg with rfl | hg
          · omega
          · have := hgt g hg
            push_cast at this; omega

/-- same-row areas of the whole emitted list are disjoint -/
theorem convertAll_sep {c : Ctx} (hc : regionOK c = true) : ∀ (seq : List (Feat × Int)) (k : Nat)
    (out : List Area), (∀ x ∈ seq, featOK c x.1 = true) → SeqOK seq → convertAll c seq k = some out →
    out.Pairwise Sep
  | [], k, out, _, _, h => by
    simp only [convertAll, Option.some.injEq] at h
    subst h; simp
  | (f, h) :: rest, k, out, hall, hseq, hout => by
    obtain ⟨more, hmore, bok⟩ := convertAll_ok hc rest (k + 1) (fun x hx => hall x (by simp [hx]))
    obtain ⟨here, hhere, good⟩ := areasOf_good hc (hall (f, h) (by simp)) h ((k : Int) + 1)
    have hhere' : areasOf c f h (↑k + 1) = some here := hhere
    have : out = here ++ more := by
      simp [convertAll, hhere', hmore, bind, pure] at hout
      exact hout.symm
    subst this
    simp only [SeqOK, List.pairwise_cons] at hseq
    rw [List.pairwise_append]
    refine ⟨?_, convertAll_sep hc rest (k + 1) more (fun x hx => hall x (by simp [hx])) hseq.2 hmore, ?_⟩
    · rcases good.drawn with ⟨a, rfl, _⟩ | ⟨a, b, rfl, _, _, _, hsep⟩
      · simp
      · simp only [List.pairwise_cons, List.mem_singleton, forall_eq, List.not_mem_nil,
          false_imp_iff, implies_true, List.Pairwise.nil, and_true]
        intro _; right; exact hsep
    · intro a ha b hb hheq
      obtain ⟨x, hx, gid, as, _, g, hm⟩ := bok.src b hb
      have h1 := good.height a ha
      have h2 := g.height b hm
      have hap := hseq.1 x hx (by show h = x.2; omega)
      exact sep_of_apart good g hap a ha b hm

/-! ### build_area_rows -/

theorem build_some {c : Ctx} {r : RegionIn} {out : List Area} (h : buildAreaRows c r = some out) :
    ∃ seq, emission r = some seq ∧ convertAll c seq 0 = some out := by
  simp only [buildAreaRows, bind, Option.bind_eq_some_iff] at h
  exact h

theorem inputOK_parts {c : Ctx} {r : RegionIn} (hin : inputOK c r = true) :
    regionOK c = true ∧ (∀ a ∈ r.subregions, collOK c.L a.loc = true) ∧
    (∀ a ∈ r.candidates, collOK c.L a.loc = true) ∧ (∀ a ∈ r.protos, collOK c.L a.loc = true) := by
  simp only [inputOK, Bool.and_eq_true, List.all_eq_true] at hin
  have hf : ∀ a, featOK c a = true → collOK c.L a.loc = true := by
    intro a ha
    simp only [featOK, Bool.and_eq_true] at ha
    exact ha.1.1.1
  exact ⟨hin.1.1.1, fun a ha => hf a (hin.1.1.2 a ha), fun a ha => hf a (hin.1.2 a ha),
    fun a ha => hf a (hin.2 a ha)⟩

theorem build_total' {c : Ctx} {r : RegionIn} (hin : inputOK c r = true) :
    ∃ seq out, emission r = some seq ∧ convertAll c seq 0 = some out ∧ buildAreaRows c r = some out ∧
      BuildOK c seq 0 out ∧ SeqOK seq := by
  obtain ⟨hc, h1, h2, h3⟩ := inputOK_parts hin
  obtain ⟨seq, hseq⟩ := emission_isSome r h1 h2 h3
  obtain ⟨out, hout, bok⟩ := convertAll_ok hc seq 0 (emission_feats hin hseq)
  exact ⟨seq, out, hseq, hout, by simp [buildAreaRows, hseq, hout, bind],
    bok, emission_seqOK h1 h2 h3 hseq⟩

end ASV.Packing
