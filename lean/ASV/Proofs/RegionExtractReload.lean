/-
  C12: the file, taken on its own, is what a record that loads it expects.  No feature is written twice; per kind
  of area the written features are exactly the images of the region's areas, they carry `1..n`, each number once,
  in the order in which a loading record numbers them (`numberedAsLoaded`).
-/
import ASV.Proofs.RegionExtractKept
set_option linter.unusedSimpArgs false
set_option linter.unusedSectionVars false
namespace ASV.RegionExtract
open ASV

theorem slice_tags_sublist (fs : List BioFeature) (a b : Int) :
    ((sliceFeatures fs a b).map (·.tag)).Sublist (fs.map (·.tag)) := by
  unfold sliceFeatures
  induction fs with
  | nil => exact List.Sublist.slnil
  | cons f fs ih =>
    by_cases hc : (decide (a ≤ f.loc.start) && decide (f.loc.end ≤ b)) = true
    · simp only [List.filterMap_cons, hc, if_true, List.map_cons]
      exact ih.cons₂ _
    · simp only [List.filterMap_cons, hc, if_false, List.map_cons]
      exact ih.cons _

theorem collectCross_tags_sublist (rd : RegionData) (L n : Int) :
    ∀ (fs : List BioFeature) (steps : List (BioFeature × Option BioFeature)) (i : Nat),
      mapE (crossStep rd L n) fs = .ok steps →
      ((collectCross i steps).map (·.f.tag)).Sublist (fs.map (·.tag))
  | [], steps, i, h => by simp [mapE] at h; subst h; exact List.Sublist.slnil
  | f :: fs, steps, i, h => by
    obtain ⟨b, bs, hb, hbs, rfl⟩ := (mapE_cons_ok _ f fs steps).1 h
    have ih := collectCross_tags_sublist rd L n fs bs (i + 1) hbs
    obtain ⟨p, o⟩ := b
    cases o with
    | none => simp only [collectCross, List.map_cons]; exact ih.cons _
    | some g =>
      obtain ⟨_, l, _, _, _, hg⟩ := crossStep_some rd L n f p g hb
      simp only [collectCross, List.map_cons]
      have : g.tag = f.tag := by rw [hg]
      rw [this]
      exact ih.cons₂ _

theorem nodup_map_inj {α β} (g : α → β) (l : List α) (h : (l.map g).Nodup) (a b : α) (ha : a ∈ l) (hb : b ∈ l)
    (e : g a = g b) : a = b := by
  induction l with
  | nil => simp at ha
  | cons x xs ih =>
    have hc : g x ∉ xs.map g ∧ (xs.map g).Nodup := List.nodup_cons.1 h
    rcases List.mem_cons.1 ha with ha | ha
    · rcases List.mem_cons.1 hb with hb | hb
      · rw [ha, hb]
      · exfalso; apply hc.1; rw [← ha, e]; exact List.mem_map.2 ⟨b, hb, rfl⟩
    · rcases List.mem_cons.1 hb with hb | hb
      · exfalso; apply hc.1; rw [← hb, ← e]; exact List.mem_map.2 ⟨a, ha, rfl⟩
      · exact ih hc.2 ha hb

/-- the step applied to the features after the origin -/
def postStep (rd : RegionData) (L : Int) (f : BioFeature) : E BioFeature :=
  match offsetLocation f.loc (L - rd.start) L with
  | .error e => .error e
  | .ok l => .ok { f with loc := l }

/-- the shape of the base record -/
theorem base_shape (rd : RegionData) (rec : BioRecord) (seq : List Char) (ws : List Working)
    (parent : List BioFeature) (h : buildBaseRecord rd rec = .ok (seq, ws, parent)) :
    (rd.crossesOrigin = false ∧ ws = (sliceFeatures rec.features rd.start rd.end).map (⟨·, none⟩)) ∨
    (rd.crossesOrigin = true ∧ ∃ post steps,
      mapE (postStep rd rec.length) (sliceFeatures rec.features 0 rd.end) = .ok post ∧
      mapE (crossStep rd rec.length ((sliceSeq rec.seq rd.start rec.length ++ sliceSeq rec.seq 0 rd.end).length : Int))
        rec.features = .ok steps ∧
      ws = (sliceFeatures rec.features rd.start rec.length).map (⟨·, none⟩) ++ collectCross 0 steps ++ post.map (⟨·, none⟩)) := by
  unfold buildBaseRecord at h
  split at h
  · rename_i hc
    right
    refine ⟨hc, ?_⟩
    unfold buildRecordFromCrossOrigin at h
    simp only [bind, Except.bind, pure, Except.pure] at h
    split at h
    · cases h
    · split at h
      · cases h
      · rename_i post hpost
        split at h
        · cases h
        · rename_i v hg
          obtain ⟨par, cr⟩ := v
          injection h with h; injection h with h1 h2; injection h2 with h2 h3
          unfold gatherCrossOrigin at hg
          split at hg
          · cases hg
          · rename_i steps hs
            injection hg with hg; injection hg with hg1 hg2
            subst hg2
            exact ⟨post, steps, hpost, hs, h2.symm⟩
  · rename_i hc
    left
    injection h with h; injection h with h1 h2; injection h2 with h2 h3
    exact ⟨by simpa using hc, h2.symm⟩

theorem postStep_tag (rd : RegionData) (L : Int) (f g : BioFeature) (h : postStep rd L f = .ok g) : g.tag = f.tag := by
  unfold postStep at h
  split at h
  · cases h
  · injection h with h; rw [← h]

/-- a feature with parts inside the record starts before it ends -/
theorem start_lt_end (L : Int) (l : Loc) (hne : l.parts ≠ []) (hp : ∀ p ∈ l.parts, PartIn L p) : l.start < l.end := by
  obtain ⟨p, hpm⟩ := List.exists_mem_of_ne_nil _ hne
  have := start_le_part l p hpm
  have := hp p hpm
  unfold PartIn at this
  omega

/-- no feature is written twice -/
theorem written_tags_nodup (rd : RegionData) (rec : BioRecord) (w : Written) (h : writeToGenbank rd rec = .ok w)
    (hwf : wfInput rd rec = true) (hnd : (rec.features.map (·.tag)).Nodup)
    (hspan : ∀ f ∈ rec.features, bridgesOrigin f.loc = true → f.loc.start = 0 ∧ f.loc.end = rec.length) :
    (w.extract.features.map (·.tag)).Nodup := by
  obtain ⟨hL, hcross, _, hfeat⟩ := wf_unpack rd rec hwf
  obtain ⟨seq, ws, parent, adjusted, hb, ha, hfe⟩ := written_features rd rec w h
  have htags : w.extract.features.map (·.tag) = ws.map (·.f.tag) := by
    rw [hfe, List.map_map]
    unfold adjustFeatures at ha
    refine mapE_map_eq _ (·.f.tag) (fun x => x.f.tag) ?_ ws adjusted ha
    intro a b hab
    split at hab
    · cases hab
    · rename_i g hg
      injection hab with hab
      rw [← hab]
      exact (adjustFeature_same rd _ _ a.f g hg).1
  rw [htags]
  rcases base_shape rd rec seq ws parent hb with ⟨_, hws⟩ | ⟨hc, post, steps, hpost, hsteps, hws⟩
  · rw [hws, List.map_map]
    exact List.Nodup.sublist (slice_tags_sublist rec.features rd.start rd.end) hnd
  · obtain ⟨he0, hes, hsL⟩ := hcross hc
    rw [hws]
    simp only [List.map_append, List.map_map]
    have hpre : ((sliceFeatures rec.features rd.start rec.length).map (·.tag)).Nodup :=
      List.Nodup.sublist (slice_tags_sublist _ _ _) hnd
    have hcr : ((collectCross 0 steps).map (·.f.tag)).Nodup :=
      List.Nodup.sublist (collectCross_tags_sublist rd _ _ rec.features steps 0 hsteps) hnd
    have hposttags : post.map (·.tag) = (sliceFeatures rec.features 0 rd.end).map (·.tag) :=
      mapE_map_eq _ (·.tag) (·.tag) (fun a b hab => postStep_tag rd _ a b hab) _ post hpost
    have hpo : (post.map (·.tag)).Nodup := by
      rw [hposttags]; exact List.Nodup.sublist (slice_tags_sublist _ _ _) hnd
    -- where a tag of each section comes from
    have fromPre : ∀ t ∈ (sliceFeatures rec.features rd.start rec.length).map (·.tag),
        ∃ f ∈ rec.features, f.tag = t ∧ rd.start ≤ f.loc.start := by
      intro t ht
      obtain ⟨g, hg, rfl⟩ := List.mem_map.1 ht
      obtain ⟨f, hf, h1, _, hgf⟩ := slice_from _ _ _ g hg
      exact ⟨f, hf, by rw [hgf], h1⟩
    have fromPost : ∀ t ∈ post.map (·.tag), ∃ f ∈ rec.features, f.tag = t ∧ f.loc.end ≤ rd.end := by
      intro t ht
      rw [hposttags] at ht
      obtain ⟨g, hg, rfl⟩ := List.mem_map.1 ht
      obtain ⟨f, hf, _, h2, hgf⟩ := slice_from _ _ _ g hg
      exact ⟨f, hf, by rw [hgf], h2⟩
    have fromCross : ∀ t ∈ (collectCross 0 steps).map (·.f.tag), ∃ f ∈ rec.features, f.tag = t ∧ bridgesOrigin f.loc = true := by
      intro t ht
      obtain ⟨w0, hw0, rfl⟩ := List.mem_map.1 ht
      obtain ⟨f, hf, p, hstep⟩ := collectCross_mem rd _ _ rec.features steps 0 w0 hsteps hw0
      obtain ⟨hb', l, _, _, _, hg⟩ := crossStep_some rd _ _ f p w0.f hstep
      exact ⟨f, hf, by rw [hg], hb'⟩
    have same : ∀ f1 ∈ rec.features, ∀ f2 ∈ rec.features, f1.tag = f2.tag → f1 = f2 :=
      fun f1 h1 f2 h2 e => nodup_map_inj (·.tag) rec.features hnd f1 f2 h1 h2 e
    have hfun : (fun (x : BioFeature) => x.tag) = (fun x => (Working.f (⟨x, none⟩ : Working)).tag) := rfl
    refine List.nodup_append.2 ⟨List.nodup_append.2 ⟨hpre, hcr, ?_⟩, hpo, ?_⟩
    · intro a ha b hb' e
      obtain ⟨f1, hf1, ht1, hs1⟩ := fromPre a ha
      obtain ⟨f2, hf2, ht2, hbr⟩ := fromCross b hb'
      have := same f1 hf1 f2 hf2 (by rw [ht1, ht2, e])
      subst this
      have := (hspan f1 hf1 hbr).1
      omega
    · intro a ha b hb' e
      obtain ⟨f2, hf2, ht2, hend⟩ := fromPost b hb'
      rcases List.mem_append.1 ha with ha | ha
      · obtain ⟨f1, hf1, ht1, hs1⟩ := fromPre a ha
        have := same f1 hf1 f2 hf2 (by rw [ht1, ht2, e])
        subst this
        have := start_lt_end rec.length f1.loc (hfeat f1 hf1).1.1 (hfeat f1 hf1).1.2
        omega
      · obtain ⟨f1, hf1, ht1, hbr⟩ := fromCross a ha
        have := same f1 hf1 f2 hf2 (by rw [ht1, ht2, e])
        subst this
        have := (hspan f1 hf1 hbr).2
        omega

/-! ### small list facts -/

theorem mem_oneTo (k : Nat) (m : Int) : m ∈ oneTo k ↔ 1 ≤ m ∧ m ≤ k := by
  unfold oneTo
  simp only [List.mem_map, List.mem_range]
  constructor
  · rintro ⟨j, hj, rfl⟩; simp only [Int.ofNat_eq_natCast]; omega
  · rintro ⟨h1, h2⟩
    refine ⟨(m - 1).toNat, by omega, ?_⟩
    simp only [Int.ofNat_eq_natCast]; omega

theorem oneTo_sorted (k : Nat) : (oneTo k).Pairwise (· ≤ ·) := by
  unfold oneTo
  rw [List.pairwise_map]
  have : (List.range k).Pairwise (· < ·) := List.pairwise_lt_range
  exact this.imp (by intro a b h; simp only [Int.ofNat_eq_natCast]; omega)

theorem oneTo_nodup (k : Nat) : (oneTo k).Nodup := by
  unfold oneTo
  rw [List.nodup_iff_pairwise_ne, List.pairwise_map]
  have : (List.range k).Pairwise (· < ·) := List.pairwise_lt_range
  exact this.imp (by intro a b h; simp only [Int.ofNat_eq_natCast]; omega)

theorem oneTo_length (k : Nat) : (oneTo k).length = k := by simp [oneTo]

/-- the insertion sort used by `numberedAsLoaded` -/
def sortI (l : List Int) : List Int := l.foldr insertInt' []

theorem insertInt'_perm (x : Int) : ∀ l : List Int, (insertInt' x l).Perm (x :: l)
  | [] => .refl _
  | y :: ys => by
    unfold insertInt'
    split
    · exact .refl _
    · exact ((insertInt'_perm x ys).cons y).trans (.swap x y ys)

theorem sortI_perm : ∀ l : List Int, (sortI l).Perm l
  | [] => .refl _
  | x :: xs => (insertInt'_perm x _).trans ((sortI_perm xs).cons x)

theorem insertInt'_sorted (x : Int) : ∀ l : List Int, l.Pairwise (· ≤ ·) → (insertInt' x l).Pairwise (· ≤ ·)
  | [], _ => by simp [insertInt']
  | y :: ys, h => by
    unfold insertInt'
    have hy := List.pairwise_cons.1 h
    split
    · rename_i hxy
      refine List.pairwise_cons.2 ⟨?_, h⟩
      intro z hz
      rcases List.mem_cons.1 hz with rfl | hz
      · exact hxy
      · exact Int.le_trans hxy (hy.1 z hz)
    · rename_i hxy
      refine List.pairwise_cons.2 ⟨?_, insertInt'_sorted x ys hy.2⟩
      intro z hz
      rcases List.mem_cons.1 ((insertInt'_perm x ys).mem_iff.1 hz) with rfl | hz
      · omega
      · exact hy.1 z hz

theorem sortI_sorted : ∀ l : List Int, (sortI l).Pairwise (· ≤ ·)
  | [] => List.Pairwise.nil
  | x :: xs => insertInt'_sorted x _ (sortI_sorted xs)

/-- two sorted lists with the same elements (as multisets) are equal -/
theorem sorted_perm_eq : ∀ (l₁ l₂ : List Int), l₁.Pairwise (· ≤ ·) → l₂.Pairwise (· ≤ ·) → l₁.Perm l₂ → l₁ = l₂
  | [], l₂, _, _, hp => by rw [List.nil_perm.1 hp]
  | a :: l₁, [], _, _, hp => by have := hp.length_eq; simp at this
  | a :: l₁, b :: l₂, h1, h2, hp => by
    have ha := List.pairwise_cons.1 h1
    have hb := List.pairwise_cons.1 h2
    have hab : a = b := by
      have h3 : a ∈ b :: l₂ := hp.mem_iff.1 (by simp)
      have h4 : b ∈ a :: l₁ := hp.mem_iff.2 (by simp)
      rcases List.mem_cons.1 h3 with e | h3
      · exact e
      · rcases List.mem_cons.1 h4 with e | h4
        · exact e.symm
        · have := hb.1 a h3; have := ha.1 b h4; omega
    subst hab
    rw [sorted_perm_eq l₁ l₂ ha.2 hb.2 (List.Perm.cons_inv hp)]

theorem nodup_filterMap_of_inj {α} (f : α → Option Int) : ∀ (l : List α), l.Nodup →
    (∀ a ∈ l, ∀ b ∈ l, ∀ x, f a = some x → f b = some x → a = b) → (l.filterMap f).Nodup
  | [], _, _ => List.nodup_nil
  | a :: l, hn, hinj => by
    have hc := List.nodup_cons.1 hn
    have ih := nodup_filterMap_of_inj f l hc.2 (fun x hx y hy => hinj x (by simp [hx]) y (by simp [hy]))
    cases hfa : f a with
    | none => simpa [List.filterMap_cons, hfa] using ih
    | some x =>
      simp only [List.filterMap_cons, hfa]
      refine List.nodup_cons.2 ⟨?_, ih⟩
      intro hmem
      obtain ⟨b, hb, hfb⟩ := List.mem_filterMap.1 hmem
      have := hinj a (by simp) b (by simp [hb]) x hfa hfb
      subst this
      exact hc.1 hb

theorem filterMap_nodup_inj {α} (f : α → Option Int) : ∀ (l : List α), (l.filterMap f).Nodup →
    ∀ a ∈ l, ∀ b ∈ l, ∀ x, f a = some x → f b = some x → a = b
  | [], _, a, ha, _, _, _, _, _ => by simp at ha
  | c :: l, hn, a, ha, b, hb, x, hfa, hfb => by
    cases hfc : f c with
    | none =>
      have hn' : (l.filterMap f).Nodup := by simpa [List.filterMap_cons, hfc] using hn
      rcases List.mem_cons.1 ha with rfl | ha
      · rw [hfc] at hfa; cases hfa
      · rcases List.mem_cons.1 hb with rfl | hb
        · rw [hfc] at hfb; cases hfb
        · exact filterMap_nodup_inj f l hn' a ha b hb x hfa hfb
    | some y =>
      have hn' : y ∉ l.filterMap f ∧ (l.filterMap f).Nodup := by
        have : (y :: l.filterMap f).Nodup := by simpa [List.filterMap_cons, hfc] using hn
        exact List.nodup_cons.1 this
      rcases List.mem_cons.1 ha with ha | ha
      · rcases List.mem_cons.1 hb with hb | hb
        · rw [ha, hb]
        · exfalso
          rw [ha, hfc] at hfa; injection hfa with hfa; subst hfa
          exact hn'.1 (List.mem_filterMap.2 ⟨b, hb, hfb⟩)
      · rcases List.mem_cons.1 hb with hb | hb
        · exfalso
          rw [hb, hfc] at hfb; injection hfb with hfb; subst hfb
          exact hn'.1 (List.mem_filterMap.2 ⟨a, ha, hfa⟩)
        · exact filterMap_nodup_inj f l hn'.2 a ha b hb x hfa hfb

theorem filterMap_length_of_all_some {α} (f : α → Option Int) : ∀ (l : List α), (∀ a ∈ l, (f a).isSome = true) →
    (l.filterMap f).length = l.length
  | [], _ => rfl
  | a :: l, h => by
    have ha := h a (by simp)
    cases hfa : f a with
    | none => rw [hfa] at ha; cases ha
    | some x =>
      simp only [List.filterMap_cons, hfa, List.length_cons]
      rw [filterMap_length_of_all_some f l (fun b hb => h b (by simp [hb]))]

/-- every number `1..n` is given to some area -/
theorem numberByPosition_surj (areas : List (Int × Loc)) (rd : RegionData) (L : Int) (hnd : (areas.map (·.1)).Nodup)
    (m : Int) (h1 : 1 ≤ m) (h2 : m ≤ areas.length) :
    ∃ a la, (a, la) ∈ areas ∧ dictGet (numberByPosition areas rd L) a = .ok m := by
  have hperm := sortKeys_perm (areas.map fun a => positionKey rd L a.1 a.2)
  have hlen : (sortKeys (areas.map fun a => positionKey rd L a.1 a.2)).length = areas.length := by
    rw [hperm.length_eq]; simp
  have hj : (m - 1).toNat < (sortKeys (areas.map fun a => positionKey rd L a.1 a.2)).length := by omega
  have hget := List.getElem?_eq_getElem hj
  have hk := List.getElem_mem hj
  have hkm := hperm.mem_iff.1 hk
  obtain ⟨⟨a0, l0⟩, h0, hk0⟩ := List.mem_map.1 hkm
  have := enumerateFrom_get 1 _ (m - 1).toNat _ hget
  refine ⟨a0, l0, h0, dictGet_of_mem _ (numbers_nodup_keys areas rd L hnd) a0 m ?_⟩
  have e : ((sortKeys (areas.map fun a => positionKey rd L a.1 a.2))[(m - 1).toNat]).2.2 = a0 := by rw [← hk0]; rfl
  rw [e] at this
  have e2 : (1 : Int) + ((m - 1).toNat : Nat) = m := by omega
  rw [e2] at this
  exact List.mem_iff_getElem?.2 ⟨_, this⟩

theorem nodupB_iff : ∀ l : List Int, nodupB l = true ↔ l.Nodup
  | [] => by simp [nodupB]
  | x :: xs => by
    simp only [nodupB, Bool.and_eq_true, Bool.not_eq_true', List.nodup_cons, nodupB_iff xs]
    constructor
    · rintro ⟨h1, h2⟩; exact ⟨by simpa using h1, h2⟩
    · rintro ⟨h1, h2⟩; exact ⟨by simpa using h1, h2⟩

/-- the source of a feature of the region record -/
theorem origin_src (rd : RegionData) (rec : BioRecord) (g0 : BioFeature) (ho : Origin rd rec g0) :
    ∃ f ∈ rec.features, g0.tag = f.tag ∧ g0.type = f.type ∧ g0.q = f.q := by
  cases ho with
  | plain f hf _ _ _ hg => exact ⟨f, hf, by rw [hg], by rw [hg], by rw [hg]⟩
  | pre f hf _ _ _ hg => exact ⟨f, hf, by rw [hg], by rw [hg], by rw [hg]⟩
  | post f hf _ _ _ _ _ hg => exact ⟨f, hf, by rw [hg], by rw [hg], by rw [hg]⟩
  | cross f hf _ _ _ _ _ _ hg => exact ⟨f, hf, by rw [hg], by rw [hg], by rw [hg]⟩

theorem areaShape_parts (L : Int) (rd : RegionData) (l : Loc) (h : areaShape L rd l = true) : l.parts ≠ [] := by
  unfold areaShape at h
  split at h <;> simp_all [Loc.parts]

theorem areaShape_twoPart (L : Int) (rd : RegionData) (l : Loc) (h : areaShape L rd l = true)
    (hb : bridgesOrigin l = true) : twoPart L l = true := by
  unfold areaShape at h
  split at h
  · simp [bridgesOrigin] at hb
  · rename_i a b
    simp only [Bool.and_eq_true, Bool.or_eq_true, decide_eq_true_eq, beq_iff_eq] at h
    unfold twoPart
    simp only [Bool.and_eq_true, Bool.or_eq_true, decide_eq_true_eq, beq_iff_eq]
    obtain ⟨⟨⟨⟨⟨⟨⟨h1, h2⟩, h3⟩, h4⟩, h5⟩, h6⟩, h7⟩, _⟩ := h
    exact ⟨by rw [h1, h2], .inl ⟨⟨⟨⟨h3, h4⟩, h5⟩, h6⟩, h7⟩⟩
  · cases h

/-- what is assumed about one kind of area -/
structure KindOK (rd : RegionData) (rec : BioRecord) (type : String) (num : BioFeature → Option Int)
    (areas : List (Int × Loc)) : Prop where
  nodupKeys : (areas.map (·.1)).Nodup
  shape : ∀ a ∈ areas, areaShape rec.length rd a.2 = true
  link : linkedKind type num areas rec = true
  present : ∀ a ∈ areas, ∃ f ∈ rec.features, f.type = type ∧ num f = some a.1
  distinct : ((ofType type rec.features).filterMap num).Nodup
  inside : ∀ a ∈ areas, insideRegion rec.length rd a.2 = true
  /-- how `_adjust_features` renumbers a feature of the kind -/
  renum : ∀ g0 g, adjustFeature rd rec.length (renumbering rd rec.length) g0 = .ok g → g0.type = type →
    ∃ n m, num g0 = some n ∧ num g = some m ∧ dictGet (numberByPosition areas rd rec.length) n = .ok m
  ofQ : ∀ a b : BioFeature, a.q = b.q → num a = num b

theorem consistentKind_unpack (type : String) (num : BioFeature → Option Int) (areas : List (Int × Loc))
    (rd : RegionData) (rec : BioRecord) (h : consistentKind type num areas rd rec = true) :
    (∀ a ∈ areas, ∃ f ∈ rec.features, f.type = type ∧ num f = some a.1) ∧
    ((ofType type rec.features).filterMap num).Nodup ∧
    (∀ a ∈ areas, insideRegion rec.length rd a.2 = true) := by
  unfold consistentKind at h
  simp only [Bool.and_eq_true, List.all_eq_true, List.any_eq_true, beq_iff_eq] at h
  refine ⟨fun a ha => ?_, (nodupB_iff _).1 h.1.2, h.2⟩
  obtain ⟨f, hf, h1, h2⟩ := h.1.1 a ha
  exact ⟨f, hf, h1, h2⟩

section generic
variable (rd : RegionData) (rec : BioRecord) (w : Written) (h : writeToGenbank rd rec = .ok w)
  (hwf : wfInput rd rec = true) (htags : (rec.features.map (·.tag)).Nodup)
  (hspan : ∀ f ∈ rec.features, bridgesOrigin f.loc = true → f.loc.start = 0 ∧ f.loc.end = rec.length)
  (type : String) (num : BioFeature → Option Int) (areas : List (Int × Loc)) (ok : KindOK rd rec type num areas)
include h hwf htags hspan ok

/-- every written feature of the kind is the image of a feature of the record that is an area of the region -/
theorem kind_from (g : BioFeature) (hg : g ∈ w.extract.features) (ht : g.type = type) :
    ∃ f ∈ rec.features, f.type = type ∧ g.tag = f.tag ∧ ∃ n m, num f = some n ∧ num g = some m ∧
      dictGet (numberByPosition areas rd rec.length) n = .ok m ∧ (n, f.loc) ∈ areas := by
  obtain ⟨_, hrange, _⟩ := numberByPosition_spec areas rd rec.length ok.nodupKeys
  obtain ⟨g0, ho, hadj⟩ := written_origin rd rec w h g hg
  obtain ⟨htg, hty, _⟩ := adjustFeature_same rd _ _ g0 g hadj
  obtain ⟨f, hf, hft, hfty, hfq⟩ := origin_src rd rec g0 ho
  obtain ⟨n, m, hn0, hm, hd⟩ := ok.renum g0 g hadj (by rw [← hty]; exact ht)
  obtain ⟨_, _, la, hla⟩ := hrange n m hd
  have hnf : num f = some n := by rw [← ok.ofQ g0 f hfq]; exact hn0
  have hft' : f.type = type := by rw [← hfty, ← hty]; exact ht
  have hl := linkedKind_loc type num areas rec ok.link f hf hft' n hnf la hla
  subst hl
  exact ⟨f, hf, hft', by rw [htg, hft], n, m, hnf, hm, hd, hla⟩

/-- every area of the region is written, with the number the renumbering gives it -/
theorem kind_to (n : Int) (l : Loc) (ha : (n, l) ∈ areas) :
    ∃ f ∈ rec.features, f.type = type ∧ num f = some n ∧ f.loc = l ∧
      ∃ g ∈ w.extract.features, g.tag = f.tag ∧ g.type = type ∧
        ∃ m, num g = some m ∧ dictGet (numberByPosition areas rd rec.length) n = .ok m := by
  obtain ⟨hL, hcross, _, _⟩ := wf_unpack rd rec hwf
  obtain ⟨f, hf, hft, hnf⟩ := ok.present (n, l) ha
  have hl := linkedKind_loc type num areas rec ok.link f hf hft n hnf l ha
  subst hl
  have hshape := ok.shape _ ha
  obtain ⟨g, hg, hgt⟩ := written_contains_inside rd rec w h (fun hc => ⟨(hcross hc).1, (hcross hc).2.2⟩) f hf
    (areaShape_parts _ rd _ hshape) (ok.inside _ ha) (fun _ hb => areaShape_twoPart _ rd _ hshape hb)
  -- its source is `f`
  obtain ⟨g0, ho, hadj⟩ := written_origin rd rec w h g hg
  obtain ⟨htg, hty, _⟩ := adjustFeature_same rd _ _ g0 g hadj
  obtain ⟨f', hf', hft', hfty', hfq'⟩ := origin_src rd rec g0 ho
  have hsame : f' = f := nodup_map_inj (·.tag) rec.features htags f' f hf' hf (by rw [← hft', ← htg, hgt])
  subst hsame
  have hg0t : g0.type = type := by rw [hfty', hft]
  obtain ⟨n', m, hn0, hm, hd⟩ := ok.renum g0 g hadj hg0t
  have : num f' = some n' := by rw [← ok.ofQ g0 f' hfq']; exact hn0
  rw [hnf] at this
  injection this with this
  subst this
  exact ⟨f', hf, hft, hnf, rfl, g, hg, hgt, by rw [hty, hg0t], m, hm, hd⟩

/-- the written features of the kind carry `1..n`, each once, in the order in which a record loading the file
    numbers them -/
theorem kind_numbered (hflo : FollowsLoadOrder type num w.extract.features) :
    numberedAsLoaded num (ofType type w.extract.features) = true ∧
    (ofType type w.extract.features).length = areas.length := by
  obtain ⟨hall, hrange, hmono⟩ := numberByPosition_spec areas rd rec.length ok.nodupKeys
  have hextags := written_tags_nodup rd rec w h hwf htags hspan
  have hTs : ∀ g, g ∈ ofType type w.extract.features ↔ g ∈ w.extract.features ∧ g.type = type := by
    intro g; simp [ofType, List.mem_filter]
  -- all carry a number
  have hsome : ∀ g ∈ ofType type w.extract.features, (num g).isSome = true := by
    intro g hg
    obtain ⟨hg1, hg2⟩ := (hTs g).1 hg
    obtain ⟨_, _, _, _, _, m, _, hm, _⟩ := kind_from rd rec w h hwf htags hspan type num areas ok g hg1 hg2
    rw [hm]; rfl
  -- the list of numbers has no repetition
  have hTsnd : (ofType type w.extract.features).Nodup := by
    have h1 : (w.extract.features).Nodup := List.Pairwise.of_map (fun (x : BioFeature) => x.tag) (fun a b hab e => hab (by rw [e])) hextags
    exact List.Nodup.sublist List.filter_sublist h1
  have hNnd : ((ofType type w.extract.features).filterMap num).Nodup := by
    refine nodup_filterMap_of_inj num _ hTsnd ?_
    intro g1 hg1 g2 hg2 x h1 h2
    obtain ⟨hg1a, hg1b⟩ := (hTs g1).1 hg1
    obtain ⟨hg2a, hg2b⟩ := (hTs g2).1 hg2
    obtain ⟨f1, hf1, hf1t, ht1, n1, m1, hn1, hm1, hd1, ha1⟩ := kind_from rd rec w h hwf htags hspan type num areas ok g1 hg1a hg1b
    obtain ⟨f2, hf2, hf2t, ht2, n2, m2, hn2, hm2, hd2, ha2⟩ := kind_from rd rec w h hwf htags hspan type num areas ok g2 hg2a hg2b
    rw [h1] at hm1; injection hm1 with hm1
    rw [h2] at hm2; injection hm2 with hm2
    have hnn : n1 = n2 := ((hmono n1 n2 f1.loc f2.loc m1 m2 ha1 ha2 hd1 hd2).2 (by rw [← hm1, ← hm2]))
    subst hnn
    have hff : f1 = f2 := filterMap_nodup_inj num _ ok.distinct f1 (by simp [ofType, List.mem_filter, hf1, hf1t])
      f2 (by simp [ofType, List.mem_filter, hf2, hf2t]) n1 hn1 hn2
    subst hff
    exact nodup_map_inj (·.tag) _ hextags g1 g2 hg1a hg2a (by rw [ht1, ht2])
  -- its elements are exactly 1..k
  have hmem : ∀ m, m ∈ (ofType type w.extract.features).filterMap num ↔ m ∈ oneTo areas.length := by
    intro m
    rw [mem_oneTo, List.mem_filterMap]
    constructor
    · rintro ⟨g, hg, hm⟩
      obtain ⟨hg1, hg2⟩ := (hTs g).1 hg
      obtain ⟨_, _, _, _, n, m', _, hm', hd, _⟩ := kind_from rd rec w h hwf htags hspan type num areas ok g hg1 hg2
      rw [hm] at hm'; injection hm' with hm'; subst hm'
      have := hrange n m hd
      exact ⟨this.1, this.2.1⟩
    · rintro ⟨h1, h2⟩
      obtain ⟨a, la, hla, hd⟩ := numberByPosition_surj areas rd rec.length ok.nodupKeys m h1 h2
      obtain ⟨_, _, _, _, _, g, hg, _, hgt, m', hm', hd'⟩ := kind_to rd rec w h hwf htags hspan type num areas ok a la hla
      rw [hd] at hd'; injection hd' with hd'; subst hd'
      exact ⟨g, (hTs g).2 ⟨hg, hgt⟩, hm'⟩
  have hperm : ((ofType type w.extract.features).filterMap num).Perm (oneTo areas.length) :=
    (List.perm_ext_iff_of_nodup hNnd (oneTo_nodup _)).2 hmem
  have hlen : (ofType type w.extract.features).length = areas.length := by
    rw [← filterMap_length_of_all_some num _ hsome, hperm.length_eq, oneTo_length]
  refine ⟨?_, hlen⟩
  unfold numberedAsLoaded
  simp only [Bool.and_eq_true, List.all_eq_true]
  refine ⟨⟨hsome, ?_⟩, ?_⟩
  · rw [hlen]
    have : ((ofType type w.extract.features).filterMap num).foldr insertInt' [] = oneTo areas.length :=
      sorted_perm_eq _ _ (sortI_sorted _) (oneTo_sorted _) ((sortI_perm _).trans hperm)
    rw [this]; simp
  · intro g1 hg1 g2 hg2
    obtain ⟨hg1a, hg1b⟩ := (hTs g1).1 hg1
    obtain ⟨hg2a, hg2b⟩ := (hTs g2).1 hg2
    cases hlt : pairLt (loadKey g1.loc) (loadKey g2.loc) with
    | false => simp
    | true =>
      have s1 := hsome g1 hg1
      have s2 := hsome g2 hg2
      obtain ⟨m1, hm1⟩ := Option.isSome_iff_exists.1 s1
      obtain ⟨m2, hm2⟩ := Option.isSome_iff_exists.1 s2
      have := hflo g1 hg1a g2 hg2a hg1b hg2b m1 m2 hm1 hm2 hlt
      simp [hm1, hm2, this]

end generic

end ASV.RegionExtract
