/-
  C12 — `main.write_outputs`: every region file is cut out of the converted record of its own record.
-/
import ASV.Model.RegionOutputs
namespace ASV.RegionExtract
open ASV

/-- the names `write_outputs` is expected to produce: for every record, in order, one file per region -/
def expectedFiles (records : List AnalysedRecord) : List (String × Nat) :=
  records.flatMap fun r => (List.range r.regions.length).map fun i => (r.id, i + 1)

theorem zip_own {α β} (g : α → β) (l : List α) : l.zip (l.map g) = l.map fun a => (a, g a) := by
  induction l with
  | nil => rfl
  | cons a t ih => simp [ih]

theorem writeRegionsOf_spec (id : String) (bio : BioRecord) :
    ∀ (rds : List RegionData) (k : Nat) (fs : List RegionFile), writeRegionsOf id bio k rds = .ok fs →
      fs.map (fun f => (f.id, f.number)) = (List.range rds.length).map (fun i => (id, i + k)) ∧
      ∀ f ∈ fs, f.id = id ∧ k ≤ f.number ∧
        ∃ rd, rds[f.number - k]? = some rd ∧ writeToGenbank rd bio = .ok f.written := by
  intro rds
  induction rds with
  | nil =>
    intro k fs h
    simp only [writeRegionsOf, Except.ok.injEq] at h
    subst h
    simp
  | cons rd rest ih =>
    intro k fs h
    rw [writeRegionsOf] at h
    cases h1 : writeToGenbank rd bio with
    | error e => rw [h1] at h; cases h
    | ok w =>
      rw [h1] at h
      cases h2 : writeRegionsOf id bio (k + 1) rest with
      | error e => rw [h2] at h; cases h
      | ok more =>
        rw [h2] at h
        simp only [Except.ok.injEq] at h
        subst h
        obtain ⟨hn, hall⟩ := ih (k + 1) more h2
        refine ⟨?_, ?_⟩
        · simp only [List.map_cons, List.length_cons, List.range_succ_eq_map, List.map_map, hn]
          simp only [List.cons.injEq, Nat.zero_add, true_and]
          apply List.map_congr_left
          intro i _
          simp only [Function.comp, Prod.mk.injEq, true_and]
          omega
        · intro f hf
          rcases List.mem_cons.mp hf with rfl | hf
          · exact ⟨rfl, Nat.le_refl _, rd, by simp, h1⟩
          · obtain ⟨h3, h4, rd', h5, h6⟩ := hall f hf
            refine ⟨h3, by omega, rd', ?_, h6⟩
            have e : f.number - k = (f.number - (k + 1)) + 1 := by omega
            rw [e, List.getElem?_cons_succ]
            exact h5

theorem writePairs_own :
    ∀ (records : List AnalysedRecord) (files : List RegionFile),
      writePairs (records.map fun r => (r, r.bio)) = .ok files →
      files.map (fun f => (f.id, f.number)) = expectedFiles records ∧
      ∀ f ∈ files, ∃ r ∈ records, f.id = r.id ∧ 1 ≤ f.number ∧
        ∃ rd, r.regions[f.number - 1]? = some rd ∧ writeToGenbank rd r.bio = .ok f.written := by
  intro records
  induction records with
  | nil =>
    intro files h
    simp only [List.map_nil, writePairs, Except.ok.injEq] at h
    subst h
    simp [expectedFiles]
  | cons r rest ih =>
    intro files h
    rw [List.map_cons, writePairs] at h
    cases h1 : writeRegionsOf r.id r.bio 1 r.regions with
    | error e => rw [h1] at h; cases h
    | ok fs =>
      rw [h1] at h
      cases h2 : writePairs (rest.map fun r => (r, r.bio)) with
      | error e => rw [h2] at h; cases h
      | ok more =>
        rw [h2] at h
        simp only [Except.ok.injEq] at h
        subst h
        obtain ⟨hn, hall⟩ := writeRegionsOf_spec r.id r.bio r.regions 1 fs h1
        obtain ⟨hn', hall'⟩ := ih more h2
        refine ⟨?_, ?_⟩
        · simp only [List.map_append, hn, hn', expectedFiles, List.flatMap_cons]
        · intro f hf
          rcases List.mem_append.mp hf with hf | hf
          · obtain ⟨h3, h4, rd, h5, h6⟩ := hall f hf
            exact ⟨r, List.mem_cons_self, h3, h4, rd, h5, h6⟩
          · obtain ⟨r', hr', rest'⟩ := hall' f hf
            exact ⟨r', List.mem_cons_of_mem _ hr', rest'⟩

/-- every region file `write_outputs` writes is the region of a record of the results, written from that
    record's own converted record, under that record's id and the region's number; and the files are exactly
    one per region of every record, in order -/
theorem writeRegionFiles_own (records : List AnalysedRecord) (files : List RegionFile)
    (h : writeRegionFiles records = .ok files) :
    files.map (fun f => (f.id, f.number)) = expectedFiles records ∧
    ∀ f ∈ files, ∃ r ∈ records, f.id = r.id ∧ 1 ≤ f.number ∧
      ∃ rd, r.regions[f.number - 1]? = some rd ∧ writeToGenbank rd r.bio = .ok f.written := by
  unfold writeRegionFiles at h
  simp only [zip_own] at h
  exact writePairs_own records files h

end ASV.RegionExtract
