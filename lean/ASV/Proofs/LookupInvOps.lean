/-
  C08 helper lemmas, part 5d: the clearing calls and the observing calls preserve the invariant; the
  observing calls return the live values, never a stale cache; whole histories.
-/
import ASV.Proofs.LookupInvArea
namespace ASV.Lookup
open ASV

/-- two states with the same bookkeeping (everything but caches and log) -/
structure CoreEq (r r' : Rec) : Prop where
  len : r'.len = r.len
  genes : r'.genes = r.genes
  byName : r'.byName = r.byName
  byLoc : r'.byLoc = r.byLoc
  regions : r'.regions = r.regions
  protos : r'.protos = r.protos
  cands : r'.cands = r.cands
  subs : r'.subs = r.subs
  members : r'.members = r.members
  sections : r'.sections = r.sections
  defs : r'.defs = r.defs
  regionOf : r'.regionOf = r.regionOf

theorem CoreEq.refl (r : Rec) : CoreEq r r := by constructor <;> rfl

theorem CoreEq.trans {r₁ r₂ r₃ : Rec} (a : CoreEq r₁ r₂) (b : CoreEq r₂ r₃) : CoreEq r₁ r₃ := by
  constructor
  · rw [b.len, a.len]
  · rw [b.genes, a.genes]
  · rw [b.byName, a.byName]
  · rw [b.byLoc, a.byLoc]
  · rw [b.regions, a.regions]
  · rw [b.protos, a.protos]
  · rw [b.cands, a.cands]
  · rw [b.subs, a.subs]
  · rw [b.members, a.members]
  · rw [b.sections, a.sections]
  · rw [b.defs, a.defs]
  · rw [b.regionOf, a.regionOf]

theorem InvCore.congr {S : Prop} {L : Live} {ever : List AreaT} {r r' : Rec} (h : InvCore S L ever r) (e : CoreEq r r') :
    InvCore S L ever r' := by
  have hreg : registered r' = registered r := by simp only [registered, e.regions, e.protos, e.cands, e.subs]
  have hptr : ∀ gid, r'.regionOfGene gid = r.regionOfGene gid := fun gid => by simp only [Rec.regionOfGene, e.regionOf]
  constructor
  · rw [e.genes]; exact h.genesLive
  · rw [e.regions]; exact h.regionsEq
  · rw [e.protos]; exact h.protosEq
  · rw [e.cands]; exact h.candsEq
  · rw [e.subs]; exact h.subsEq
  · rw [hreg]; exact h.liveEver
  · rw [e.genes]; exact h.sorted
  · rw [e.genes]; exact h.ok
  · rw [e.genes]; exact h.ids
  · rw [e.genes, e.byName]; exact h.byName
  · rw [e.genes, e.byLoc]; exact h.byLoc
  · exact h.areasOK
  · rw [e.regions]; exact h.kindsR
  · rw [e.protos, e.cands, e.subs]; exact h.kindsO
  · rw [e.regions]; exact h.disjoint
  · rw [e.genes, e.members]; exact h.membersSound
  · rw [e.genes, e.members, hreg]; exact h.membersComplete
  · rw [e.genes, e.sections]; exact h.sectionsSound
  · rw [e.genes, e.sections, hreg]; exact h.sectionsComplete
  · rw [e.members, e.sections]; exact h.cover
  · rw [e.members, e.defs]; exact h.defsSub
  · rw [e.genes, e.defs]; exact h.defsSound
  · rw [e.genes, e.defs, hreg]; exact h.defsComplete
  · rw [e.genes, e.regionOf]; exact h.regionKeys
  · rw [e.genes, e.regions]; simp only [hptr]; exact h.regionPtr

/-- more collections may have been seen than are needed -/
theorem InvCore.ever_mono {S : Prop} {L : Live} {ever ever' : List AreaT} {r : Rec} (h : InvCore S L ever r)
    (hsub : ∀ a ∈ ever, a ∈ ever') (hok : ∀ a ∈ ever', AreaOK a) : InvCore S L ever' r :=
  { h with
    liveEver := fun a ha => hsub a (h.liveEver a ha)
    areasOK := hok
    membersSound := fun x hx => by
      obtain ⟨g, hg, d, hl, e⟩ := h.membersSound x hx; exact ⟨g, hg, d, hl.mono hsub, e⟩
    sectionsSound := fun x hx => by
      obtain ⟨g, hg, d, s, hl, e⟩ := h.sectionsSound x hx; exact ⟨g, hg, d, s, hl.mono hsub, e⟩
    defsSound := fun hS x hx => by
      obtain ⟨g, hg, d, hl, hd, e⟩ := h.defsSound hS x hx; exact ⟨g, hg, d, hl.mono hsub, hd, e⟩ }

theorem mem_children (r : Rec) (aid gid : Nat) : gid ∈ r.children aid ↔ (aid, gid) ∈ r.members := by
  simp only [Rec.children, List.mem_map, List.mem_filter, beq_iff_eq]
  constructor
  · rintro ⟨x, ⟨hx, rfl⟩, rfl⟩; exact hx
  · intro h; exact ⟨(aid, gid), ⟨h, rfl⟩, rfl⟩

/-! ### `clear_regions` -/

theorem InvCore.clearRegions {S : Prop} {L : Live} {ever : List AreaT} {r : Rec} (h : InvCore S L ever r) :
    InvCore S { L with regions := [] } ever (Lookup.clearRegions r) := by
  have hsub : ∀ a ∈ registered (Lookup.clearRegions r), a ∈ registered r := by
    intro a ha
    have : registered (Lookup.clearRegions r) = r.protos ++ r.cands ++ r.subs := by
      simp [registered, Lookup.clearRegions]
    rw [this] at ha
    simp only [registered, List.mem_append] at ha ⊢
    rcases ha with (ha | ha) | ha <;> simp [ha]
  have hresets : ∀ x ∈ ((r.regions.flatMap fun a => (r.children a.id).map fun gid => (gid, (none : Option Nat))).reverse),
      x.2 = none ∧ ∃ a ∈ r.regions, x.1 ∈ r.children a.id := by
    intro x hx
    rw [List.mem_reverse, List.mem_flatMap] at hx
    obtain ⟨a, ha, hx⟩ := hx
    obtain ⟨gid, hgid, rfl⟩ := List.mem_map.1 hx
    exact ⟨rfl, a, ha, hgid⟩
  refine { genesLive := h.genesLive, regionsEq := rfl, protosEq := h.protosEq, candsEq := h.candsEq,
           subsEq := h.subsEq, liveEver := fun a ha => h.liveEver a (hsub a ha), sorted := h.sorted, ok := h.ok,
           ids := h.ids, byName := h.byName, byLoc := h.byLoc, areasOK := h.areasOK,
           kindsR := by intro a ha; simp [Lookup.clearRegions] at ha,
           kindsO := h.kindsO, disjoint := by simp [Lookup.clearRegions],
           membersSound := h.membersSound,
           membersComplete := fun g hg d hl => h.membersComplete g hg d (hl.mono hsub),
           sectionsSound := h.sectionsSound,
           sectionsComplete := fun g hg d s hl => h.sectionsComplete g hg d s (hl.mono hsub),
           defsSound := h.defsSound, cover := h.cover, defsSub := h.defsSub,
           defsComplete := fun hS g hg d hl hd => h.defsComplete hS g hg d (hl.mono hsub) hd,
           regionKeys := ?_, regionPtr := ?_ }
  · intro x hx
    simp only [Lookup.clearRegions, List.mem_append] at hx
    rcases hx with hx | hx
    · obtain ⟨_, a, _, hgid⟩ := hresets x hx
      obtain ⟨g, hg, d, _, e⟩ := h.membersSound _ ((mem_children r a.id x.1).1 hgid)
      injection e with _ e2
      exact ⟨g, hg, e2.symm⟩
    · exact h.regionKeys x hx
  · intro g hg
    have hnone : (Lookup.clearRegions r).regionOfGene g.id = none := by
      simp only [regionOfGene_eq, Lookup.clearRegions]
      by_cases hex : ∃ x ∈ ((r.regions.flatMap fun a => (r.children a.id).map fun gid => (gid, (none : Option Nat))).reverse), x.1 = g.id
      · exact ptr_hit hex (fun x hx _ => (hresets x hx).1)
      · rw [ptr_skip (fun x hx e => hex ⟨x, hx, e⟩)]
        have hold := h.regionPtr g hg
        simp only [regionOfGene_eq] at hold
        apply hold.2
        intro a ha
        cases hc : containedBy g.loc a.loc
        · rfl
        · exfalso
          apply hex
          have hm := h.membersComplete g hg a ⟨_, a, regions_sub_registered r a ha, hc, downNodes_self g none a⟩
          refine ⟨(g.id, none), ?_, rfl⟩
          rw [List.mem_reverse, List.mem_flatMap]
          exact ⟨a, ha, List.mem_map.2 ⟨g.id, (mem_children r a.id g.id).2 hm, rfl⟩⟩
    exact ⟨fun a ha => by simp [Lookup.clearRegions] at ha, fun _ => hnone⟩

theorem InvCache.clearRegions {r : Rec} (c : InvCache r) : InvCache (Lookup.clearRegions r) :=
  ⟨c.cds, c.slot, c.tuple⟩

theorem Inv.clearRegions {S : Prop} {L : Live} {ever : List AreaT} {r : Rec} (h : Inv S L ever r) :
    Inv S { L with regions := [] } ever (Lookup.clearRegions r) := ⟨h.core.clearRegions, h.cache.clearRegions⟩

/-! ### dropping collections from the record's lists -/

def dropLists (r : Rec) (p c s : Bool) : Rec :=
  { r with protos := if p then [] else r.protos, cands := if c then [] else r.cands, subs := if s then [] else r.subs }
def Live.drop (L : Live) (p c s : Bool) : Live :=
  { L with protos := if p then [] else L.protos, cands := if c then [] else L.cands, subs := if s then [] else L.subs }

theorem Inv.drop {S : Prop} {L : Live} {ever : List AreaT} {r : Rec} (h : Inv S L ever r) (p c s : Bool) :
    Inv S (L.drop p c s) ever (dropLists r p c s) := by
  have hc := h.core
  have hsub : ∀ a ∈ registered (dropLists r p c s), a ∈ registered r := by
    intro a ha
    simp only [registered, dropLists, List.mem_append] at ha ⊢
    rcases ha with ((ha | ha) | ha) | ha
    · simp [ha]
    · cases p <;> simp at ha; simp [ha]
    · cases c <;> simp at ha; simp [ha]
    · cases s <;> simp at ha; simp [ha]
  refine ⟨?_, ⟨h.cache.cds, h.cache.slot, h.cache.tuple⟩⟩
  refine { genesLive := hc.genesLive, regionsEq := hc.regionsEq, protosEq := ?_, candsEq := ?_, subsEq := ?_,
           liveEver := fun a ha => hc.liveEver a (hsub a ha), sorted := hc.sorted, ok := hc.ok,
           ids := hc.ids, byName := hc.byName, byLoc := hc.byLoc, areasOK := hc.areasOK,
           kindsR := hc.kindsR, kindsO := ?_, disjoint := hc.disjoint,
           membersSound := hc.membersSound,
           membersComplete := fun g hg d hl => hc.membersComplete g hg d (hl.mono hsub),
           sectionsSound := hc.sectionsSound,
           sectionsComplete := fun g hg d s hl => hc.sectionsComplete g hg d s (hl.mono hsub),
           defsSound := hc.defsSound, cover := hc.cover, defsSub := hc.defsSub,
           defsComplete := fun hS g hg d hl hd => hc.defsComplete hS g hg d (hl.mono hsub) hd,
           regionKeys := hc.regionKeys, regionPtr := hc.regionPtr }
  · cases p <;> simp [hc.protosEq, dropLists, Live.drop]
  · cases c <;> simp [hc.candsEq, dropLists, Live.drop]
  · cases s <;> simp [hc.subsEq, dropLists, Live.drop]
  · intro a ha
    apply hc.kindsO a
    simp only [dropLists, List.mem_append] at ha ⊢
    rcases ha with (ha | ha) | ha
    · cases p <;> simp at ha; simp [ha]
    · cases c <;> simp at ha; simp [ha]
    · cases s <;> simp at ha; simp [ha]

/-! ### re-creating regions -/

theorem Inv.ever_mono {S : Prop} {L : Live} {ever ever' : List AreaT} {r : Rec} (h : Inv S L ever r)
    (hsub : ∀ a ∈ ever, a ∈ ever') (hok : ∀ a ∈ ever', AreaOK a) : Inv S L ever' r :=
  ⟨h.core.ever_mono hsub hok, h.cache⟩

theorem Inv.createRegions : ∀ (new : List AreaT) {S : Prop} {L : Live} {ever : List AreaT} {r r' : Rec}, Inv S L ever r →
    (∀ a ∈ new, AreaOK a ∧ a.kind = .region) → Lookup.createRegions r new = .ok r' →
    Inv S { L with regions := L.regions ++ new } (ever ++ new) r'
  | [], S, L, ever, r, r', h, _, hrun => by
    simp only [Lookup.createRegions, List.foldlM_nil, pure, Except.pure] at hrun
    injection hrun with hrun; subst hrun
    simpa using h
  | a :: rest, S, L, ever, r, r', h, hnew, hrun => by
    simp only [Lookup.createRegions, List.foldlM_cons, bind, Except.bind] at hrun
    cases hs : Lookup.addArea r a with
    | error e => rw [hs] at hrun; cases hrun
    | ok r1 =>
      rw [hs] at hrun
      obtain ⟨hok, hk⟩ := hnew a (by simp)
      have h1 := h.addArea a hok hs
      have e1 : L.step (.area a) = { L with regions := L.regions ++ [a] } := by simp [Live.step, hk]
      rw [e1] at h1
      have := Inv.createRegions rest h1 (fun x hx => hnew x (by simp [hx])) hrun
      simpa [List.append_assoc] using this

theorem Inv.reset {S : Prop} {L : Live} {ever : List AreaT} {r r' : Rec} (h : Inv S L ever r) (new : List AreaT)
    (hnew : ∀ a ∈ new, AreaOK a ∧ a.kind = .region) (hrun : resetRegions r new = .ok r') :
    Inv S (L.reset new) (ever ++ new) r' := by
  have hok : ∀ a ∈ ever ++ new, AreaOK a := by
    intro a ha
    rcases List.mem_append.1 ha with ha | ha
    · exact h.core.areasOK a ha
    · exact (hnew a ha).1
  unfold resetRegions at hrun
  unfold Live.reset
  rw [← h.core.regionsEq]
  cases he : r.regions.isEmpty with
  | true =>
    simp only [he, if_true, pure, Except.pure] at hrun ⊢
    injection hrun with hrun; subst hrun
    exact h.ever_mono (fun a ha => List.mem_append.2 (Or.inl ha)) hok
  | false =>
    simp only [he, Bool.false_eq_true, if_false] at hrun ⊢
    have := Inv.createRegions new h.clearRegions hnew hrun
    simpa using this

/-! ### the observing calls -/

theorem InvCore.peekCds {S : Prop} {L : Live} {ever : List AreaT} {r : Rec} (c : InvCache r) :
    CoreEq r (peekCds r) ∧ InvCache (peekCds r) ∧ (peekCds r).log = r.log ++ [[r.genes.map (·.id)]] := by
  unfold Lookup.peekCds
  by_cases hd : (r.cdsCacheDirty || r.genes.isEmpty) = true
  · rw [if_pos hd]
    exact ⟨by constructor <;> rfl, ⟨fun _ => rfl, c.slot, c.tuple⟩, rfl⟩
  · rw [if_neg hd]
    have hdirty : r.cdsCacheDirty = false := by
      cases h : r.cdsCacheDirty
      · rfl
      · simp [h] at hd
    refine ⟨by constructor <;> rfl, ⟨c.cds, c.slot, c.tuple⟩, ?_⟩
    show r.log ++ [[r.cdsCache.map (·.id)]] = _
    rw [c.cds hdirty]

/-- reading one section cache: the current list comes back, the cache stays right -/
theorem slotFeatures_spec {r : Rec} (c : InvCache r) (aid : Nat) (s : Section) :
    (slotFeatures r aid s).2 = r.section aid s ∧ InvCache (slotFeatures r aid s).1 ∧
    CoreEq r (slotFeatures r aid s).1 ∧ (slotFeatures r aid s).1.clean = r.clean ∧
    (slotFeatures r aid s).1.tupleVal = r.tupleVal ∧ (slotFeatures r aid s).1.log = r.log := by
  unfold slotFeatures
  by_cases hc : r.slotClean.contains (aid, s) = true
  · rw [if_pos hc]
    have hm : (aid, s) ∈ r.slotClean := by simpa using hc
    have := c.slot (aid, s) hm
    refine ⟨?_, c, CoreEq.refl r, rfl, rfl, rfl⟩
    cases hf : r.slotVal.find? (fun x => x.1 == (aid, s)) with
    | none => rw [hf] at this; simp at this
    | some v => rw [hf] at this; simp at this ⊢; exact this
  · rw [if_neg hc]
    refine ⟨rfl, ⟨c.cds, ?_, ?_⟩, by constructor <;> rfl, rfl, rfl, rfl⟩
    · intro x hx
      simp only [List.mem_cons] at hx
      simp only [List.find?_cons]
      by_cases hxe : x = (aid, s)
      · subst hxe; simp [Rec.section]
      · have : ((aid, s) == x) = false := by simpa using fun e => hxe e.symm
        rcases hx with hx | hx
        · exact absurd hx hxe
        · simp only [this]; exact c.slot x hx
    · exact c.tuple

/-- regenerating a collection's cache: bookkeeping untouched, caches right, and the snapshot now stored for the
    collection is the current contents of its three sections -/
theorem peekRegen_spec {r : Rec} (c : InvCache r) (aid : Nat) :
    CoreEq r (peekRegen r aid) ∧ InvCache (peekRegen r aid) ∧ (peekRegen r aid).log = r.log ∧
    ((peekRegen r aid).tupleVal.find? fun x => x.1 == aid).map (·.2)
      = some [r.section aid .pre, r.section aid .cross, r.section aid .post] := by
  unfold Lookup.peekRegen
  by_cases hc : r.clean.contains aid = true
  · rw [if_pos hc]
    have hm : aid ∈ r.clean := by simpa using hc
    exact ⟨CoreEq.refl r, c, rfl, c.tuple aid hm⟩
  · rw [if_neg hc]
    obtain ⟨v1, c1, e1, k1, t1, l1⟩ := slotFeatures_spec c aid .pre
    obtain ⟨v2, c2, e2, k2, t2, l2⟩ := slotFeatures_spec c1 aid .cross
    obtain ⟨v3, c3, e3, k3, t3, l3⟩ := slotFeatures_spec c2 aid .post
    simp only []
    generalize (slotFeatures r aid .pre).2 = pre at v1 ⊢
    generalize (slotFeatures r aid .pre).1 = ra at *
    generalize (slotFeatures ra aid .cross).2 = cross at v2 ⊢
    generalize (slotFeatures ra aid .cross).1 = rb at *
    generalize (slotFeatures rb aid .post).2 = post at v3 ⊢
    generalize (slotFeatures rb aid .post).1 = rc at *
    have e := (e1.trans e2).trans e3
    have hsa : ∀ s, ra.section aid s = r.section aid s := fun s => by simp only [Rec.section, e1.sections]
    have hsb : ∀ s, rb.section aid s = r.section aid s := fun s => by simp only [Rec.section, (e1.trans e2).sections]
    have hv1 : pre = r.section aid .pre := v1
    have hv2 : cross = r.section aid .cross := by rw [v2, hsa]
    have hv3 : post = r.section aid .post := by rw [v3, hsb]
    refine ⟨?_, ⟨c3.cds, ?_, ?_⟩, ?_, ?_⟩
    · exact { len := e.len, genes := e.genes, byName := e.byName, byLoc := e.byLoc, regions := e.regions,
              protos := e.protos, cands := e.cands, subs := e.subs, members := e.members,
              sections := e.sections, defs := e.defs, regionOf := e.regionOf }
    · exact c3.slot
    · intro x hx
      simp only [List.mem_cons] at hx
      simp only [List.find?_cons]
      by_cases hxe : x = aid
      · subst hxe; simp [Rec.section, hv1, hv2, hv3, e.sections]
      · have : (aid == x) = false := by simpa using fun e => hxe e.symm
        rcases hx with hx | hx
        · exact absurd hx hxe
        · simp only [this]
          have := c3.tuple x hx
          simpa [Rec.section] using this
    · simp only [l3, l2, l1]
    · simp only [List.find?_cons, beq_self_eq_true, Option.map_some, hv1, hv2, hv3]

theorem peekArea_spec {r : Rec} (c : InvCache r) (aid : Nat) :
    CoreEq r (peekArea r aid) ∧ InvCache (peekArea r aid) ∧
    (peekArea r aid).log = r.log ++ [[r.children aid, r.section aid .pre, r.section aid .cross, r.section aid .post]] := by
  obtain ⟨e, c1, l, t⟩ := peekRegen_spec c aid
  unfold Lookup.peekArea
  simp only []
  generalize peekRegen r aid = r1 at e c1 l t ⊢
  refine ⟨?_, ⟨c1.cds, c1.slot, c1.tuple⟩, ?_⟩
  · exact { len := e.len, genes := e.genes, byName := e.byName, byLoc := e.byLoc, regions := e.regions,
            protos := e.protos, cands := e.cands, subs := e.subs, members := e.members,
            sections := e.sections, defs := e.defs, regionOf := e.regionOf }
  · cases hf : r1.tupleVal.find? (fun x => x.1 == aid) with
    | none => rw [hf] at t; simp at t
    | some v =>
      rw [hf] at t; simp at t
      simp only [hf, Option.map_some, Option.getD_some, t, l, Rec.children, e.members]

theorem indexOf_ok {r r' : Rec} {aid gid : Nat} (h : indexOf r aid gid = .ok r') :
    ∃ i, indexIn gid ((peekRegen r aid).children aid) = some i ∧
      r' = { peekRegen r aid with log := (peekRegen r aid).log ++ [[[i]]] } := by
  unfold Lookup.indexOf at h
  simp only [] at h
  cases hf : indexIn gid ((peekRegen r aid).children aid) with
  | none => rw [hf] at h; cases h
  | some i =>
    rw [hf] at h
    simp only [pure, Except.pure] at h
    injection h with h
    exact ⟨i, rfl, h.symm⟩

end ASV.Lookup
