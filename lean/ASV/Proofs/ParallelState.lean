/-
  C18 round 3: (a) exits of processes that are not pool workers never reach the wait loop;
  (b) batches run by an arbitrary batch runner (`poolRunWith`) on complete schedules;
  (c) calls that thread shared state: running them in one process vs. shipping a copy of the
      state with every task batch; link to the C16 model of `fix_record_name_id`.
-/
import ASV.Proofs.ParallelMain
import ASV.Model.Ids
namespace ASV.Parallel

variable {α ε β σ : Type}

/-! ### (a) bystanders -/

theorem await_ready (run : List α → Except ε (List β)) (tasks : List (List α)) (ht : Bool)
    (mr : MapResult ε β) (evs : List Event) (h : mr.ready = true) :
    awaitResultsWith run tasks ht mr evs = mr.get := by
  rw [awaitResultsWith.eq_def]; simp [h]

/-- removing every bystander exit from an event list does not change what the caller sees -/
theorem await_drop_bystanders (run : List α → Except ε (List β)) (tasks : List (List α)) (ht : Bool) :
    ∀ (evs : List Event) (mr : MapResult ε β),
      awaitResultsWith run tasks ht mr (evs.filter fun e => !e.isBystander) =
        awaitResultsWith run tasks ht mr evs
  | [], _ => rfl
  | ev :: rest, mr => by
    by_cases hr : mr.ready = true
    · rw [await_ready run tasks ht mr _ hr, await_ready run tasks ht mr _ hr]
    · have hr' : mr.ready = false := by simpa using hr
      cases ev with
      | bystander p =>
        simp only [List.filter_cons, show (Event.bystander p).isBystander = true from rfl, Bool.not_true, Bool.false_eq_true, if_false]
        rw [await_drop_bystanders run tasks ht rest mr]
        conv => rhs; rw [awaitResultsWith.eq_def]
        simp [hr']
      | timeout =>
        simp only [List.filter_cons, show Event.timeout.isBystander = false from rfl, Bool.not_false, if_true]
        rw [awaitResultsWith.eq_def]
        conv => rhs; rw [awaitResultsWith.eq_def]
        simp only [hr', Bool.false_eq_true, if_false]
        rw [await_drop_bystanders run tasks ht rest mr]
      | died w =>
        simp only [List.filter_cons, show (Event.died w).isBystander = false from rfl, Bool.not_false, if_true]
        rw [awaitResultsWith.eq_def]
        conv => rhs; rw [awaitResultsWith.eq_def]
      | done i =>
        simp only [List.filter_cons, show (Event.done i).isBystander = false from rfl, Bool.not_false, if_true]
        rw [awaitResultsWith.eq_def]
        conv => rhs; rw [awaitResultsWith.eq_def]
        simp only [hr', Bool.false_eq_true, if_false]
        cases tasks[i]? with
        | none => simp only; rw [await_drop_bystanders run tasks ht rest mr]
        | some t => simp only; rw [await_drop_bystanders run tasks ht rest _]

theorem classifyExit_of_mem_before (before after : List Nat) (p : Nat) (h : p ∈ before) :
    classifyExit before after p = .bystander p := by
  simp [classifyExit, poolWorkers, h]

theorem classifyExit_of_worker (before after : List Nat) (p : Nat) (ha : p ∈ after) (hb : p ∉ before) :
    classifyExit before after p = .died p := by
  simp [classifyExit, poolWorkers, ha, hb]

/-! ### (b) an arbitrary batch runner on a complete schedule -/

theorem comprehension_ok_of_all (f : α → Except ε β) :
    ∀ (l : List α), (∀ a ∈ l, ∃ b, f a = .ok b) → ∃ r, comprehension f l = .ok r
  | [], _ => ⟨[], rfl⟩
  | a :: rest, h => by
    obtain ⟨b, hb⟩ := h a (by simp)
    obtain ⟨r, hr⟩ := comprehension_ok_of_all f rest (fun x hx => h x (by simp [hx]))
    exact ⟨b :: r, by simp [comprehension, hb, hr]⟩

/-- the stored blocks of successful batches are the batch results, flattened -/
theorem flatten_full_with (run : List α → Except ε (List β)) :
    ∀ (tasks : List (List α)) (rs : List (List β)), comprehension run tasks = .ok rs →
      (tasks.map (full run)).flatten = rs.flatten.map some
  | [], rs, h => by simp [comprehension] at h; subst h; rfl
  | t :: rest, rs, h => by
    simp only [comprehension] at h
    split at h
    · cases h
    · rename_i r hr
      split at h
      · cases h
      · rename_i rs' hrs'
        cases h
        simp [full, hr, flatten_full_with run rest rs' hrs']

theorem outcome_complete_with (run : List α → Except ε (List β)) (tasks : List (List α)) (ds : List Nat)
    (hperm : ds.Perm (List.range tasks.length)) :
    (∀ rs, comprehension run tasks = .ok rs →
      outcomeOf run tasks (ds.foldl (track run tasks) (.ok [])) = .returned (rs.flatten.map some)) ∧
    (∀ e₀, comprehension run tasks = .error e₀ →
      ∃ e t, t ∈ tasks ∧ run t = .error e ∧
        outcomeOf run tasks (ds.foldl (track run tasks) (.ok [])) = .raised (.task e)) := by
  have hmem : ∀ j, j < tasks.length → j ∈ ds := fun j hj =>
    hperm.mem_iff.mpr (List.mem_range.mpr hj)
  cases hfold : ds.foldl (track run tasks) (.ok []) with
  | ok D =>
    obtain ⟨hok, hin, _⟩ := foldl_track_is_ok run tasks ds [] D hfold
    have hall : ∀ t ∈ tasks, ∃ r, run t = .ok r := by
      intro t ht
      obtain ⟨j, hj, rfl⟩ := List.getElem_of_mem ht
      exact hok j (hmem j hj) _ (List.getElem?_eq_getElem hj)
    have hD : ∀ j, j < tasks.length → j ∈ D := fun j hj => hin j (hmem j hj) hj
    refine ⟨?_, ?_⟩
    · intro rs hrs
      simp only [outcomeOf, blocksOf_all run tasks D hD, flatten_full_with run tasks rs hrs]
    · intro e₀ he₀
      obtain ⟨r, hr⟩ := comprehension_ok_of_all run tasks hall
      rw [hr] at he₀
      cases he₀
  | error e =>
    obtain ⟨i, _, t, hti, hte⟩ := foldl_track_is_error run tasks ds [] e hfold
    have htmem : t ∈ tasks := List.mem_of_getElem? hti
    refine ⟨?_, ?_⟩
    · intro rs hrs
      obtain ⟨b, hb⟩ := comprehension_ok_all run tasks rs hrs t htmem
      rw [hte] at hb
      cases hb
    · intro e₀ _
      exact ⟨e, t, htmem, hte, rfl⟩

/-- `poolRunWith` on a complete schedule (anything may follow it): the batch results in batch
    order, or the exception of a failing batch -/
theorem poolRunWith_complete (run : List α → Except ε (List β)) (hrun : LengthPreserving run)
    (args : List α) (workers : Nat) (hw : 0 < workers) (ht : Bool) (sched rest : List Event)
    (hc : Complete (numChunks args.length workers) sched) :
    (∀ rs, comprehension run (getTasks (chunkSize args.length workers) args) = .ok rs →
      poolRunWith run args workers ht (sched ++ rest) = .returned (rs.flatten.map some)) ∧
    (∀ e₀, comprehension run (getTasks (chunkSize args.length workers) args) = .error e₀ →
      ∃ e t, t ∈ getTasks (chunkSize args.length workers) args ∧ run t = .error e ∧
        poolRunWith run args workers ht (sched ++ rest) = .raised (.task e)) := by
  obtain ⟨hdone, hperm⟩ := hc
  have hm := tasks_length_eq_numChunks args workers hw
  have hsched := eq_map_done_of_all_done sched hdone
  have hlen : (doneIdxs sched).length = numChunks args.length workers := by
    rw [hperm.length_eq, List.length_range]
  have hpre := dones_prefix (ε := ε) ht rest (doneIdxs sched) (numChunks args.length workers) (by omega)
  rw [hlen, Nat.sub_self] at hpre
  have hproc : processed ht (numChunks args.length workers) (sched ++ rest) = doneIdxs sched := by
    rw [hsched] at ⊢
    rw [show doneIdxs (List.map Event.done (doneIdxs sched)) = doneIdxs sched from by rw [← hsched]]
    rw [hpre.1]; simp [processed]
  have hint : interruption (ε := ε) ht (numChunks args.length workers) (sched ++ rest) = none := by
    rw [hsched, hpre.2]; simp [interruption]
  have hvalid : ∀ i ∈ processed ht (numChunks args.length workers) (sched ++ rest),
      i < numChunks args.length workers := by
    rw [hproc]; intro i hi; exact List.mem_range.mp (hperm.mem_iff.mp hi)
  have hrunspec := poolRunWith_spec run hrun args workers hw ht (sched ++ rest) hvalid
  rw [hint, hproc] at hrunspec
  simp only [hlen, Nat.lt_irrefl, if_false] at hrunspec
  have hperm' : (doneIdxs sched).Perm (List.range (getTasks (chunkSize args.length workers) args).length) := by
    rw [hm]; exact hperm
  have hout := outcome_complete_with run _ (doneIdxs sched) hperm'
  rw [hrunspec]
  exact hout

/-! ### (c) shared state -/

theorem map_some_inj : ∀ (l l' : List β), l.map some = l'.map some → l = l'
  | [], [], _ => rfl
  | [], _ :: _, h => by simp at h
  | _ :: _, [], h => by simp at h
  | a :: l, b :: l', h => by
    simp only [List.map_cons, List.cons.injEq, Option.some.injEq] at h
    rw [h.1, map_some_inj l l' h.2]

theorem threaded_append (g : σ → α → Except ε (σ × β)) :
    ∀ (l₁ l₂ : List α) (s : σ),
      threaded g s (l₁ ++ l₂) =
        match threaded g s l₁ with
        | .error e => .error e
        | .ok (s', b₁) =>
          match threaded g s' l₂ with
          | .error e => .error e
          | .ok (s'', b₂) => .ok (s'', b₁ ++ b₂)
  | [], l₂, s => by
    simp only [List.nil_append, threaded]
    cases threaded g s l₂ with
    | error e => rfl
    | ok p => rfl
  | a :: rest, l₂, s => by
    simp only [List.cons_append, threaded]
    cases g s a with
    | error e => rfl
    | ok p =>
      obtain ⟨s', b⟩ := p
      simp only [threaded_append g rest l₂ s']
      cases threaded g s' rest with
      | error e => rfl
      | ok q =>
        obtain ⟨s'', bs⟩ := q
        simp only
        cases threaded g s'' l₂ with
        | error e => rfl
        | ok r => rfl

theorem threaded_length (g : σ → α → Except ε (σ × β)) :
    ∀ (l : List α) (s s' : σ) (bs : List β), threaded g s l = .ok (s', bs) → bs.length = l.length
  | [], s, s', bs, h => by simp [threaded] at h; rw [h.2]; rfl
  | a :: rest, s, s', bs, h => by
    simp only [threaded] at h
    split at h
    · cases h
    · rename_i s₁ b hb
      split at h
      · cases h
      · rename_i bs' hbs'
        cases h
        simp [threaded_length g rest s₁ _ bs' hbs']

theorem shippedChunk_lengthPreserving (g : σ → α → Except ε (σ × β)) (s₀ : σ) :
    LengthPreserving (shippedChunk g s₀) := by
  intro t r h
  unfold shippedChunk at h
  split at h
  · cases h
  · rename_i s' bs hbs
    cases h
    exact threaded_length g t s₀ s' r hbs

/-- walking the batches with the live state `s`: every batch run on the stale copy `s₀` yields
    what it yields on the live state -/
def StaleAgrees (g : σ → α → Except ε (σ × β)) (s₀ : σ) : σ → List (List α) → Prop
  | _, [] => True
  | s, c :: rest =>
    match threaded g s c with
    | .error _ => True
    | .ok (s', out) => shippedChunk g s₀ c = .ok out ∧ StaleAgrees g s₀ s' rest

/-- batches on stale copies reproduce the single-process result exactly when the copies agree -/
theorem shipped_eq_threaded_iff (g : σ → α → Except ε (σ × β)) (s₀ : σ) :
    ∀ (tasks : List (List α)) (s sf : σ) (bs : List β), threaded g s tasks.flatten = .ok (sf, bs) →
      ((∃ rs, comprehension (shippedChunk g s₀) tasks = .ok rs ∧ rs.flatten = bs) ↔
        StaleAgrees g s₀ s tasks)
  | [], s, sf, bs, h => by
    simp [threaded] at h
    simp [StaleAgrees, comprehension, h.2.symm]
  | c :: rest, s, sf, bs, h => by
    simp only [List.flatten_cons, threaded_append] at h
    cases hc : threaded g s c with
    | error e => rw [hc] at h; cases h
    | ok p =>
      obtain ⟨s', o₁⟩ := p
      rw [hc] at h
      simp only at h
      cases hr : threaded g s' rest.flatten with
      | error e => rw [hr] at h; cases h
      | ok q =>
        obtain ⟨s'', o₂⟩ := q
        rw [hr] at h
        simp only [Except.ok.injEq, Prod.mk.injEq] at h
        obtain ⟨_, hbs⟩ := h
        have ih := shipped_eq_threaded_iff g s₀ rest s' s'' o₂ hr
        have hlen₁ := threaded_length g c s s' o₁ hc
        simp only [StaleAgrees, hc]
        constructor
        · rintro ⟨rs, hrs, hflat⟩
          simp only [comprehension] at hrs
          split at hrs
          · cases hrs
          · rename_i r₁ hr₁
            split at hrs
            · cases hrs
            · rename_i rs' hrs'
              cases hrs
              have hl : r₁.length = o₁.length := by
                rw [shippedChunk_lengthPreserving g s₀ c r₁ hr₁, hlen₁]
              rw [List.flatten_cons, ← hbs] at hflat
              obtain ⟨h1, h2⟩ := List.append_inj hflat hl
              exact ⟨by rw [hr₁, h1], ih.mp ⟨rs', hrs', h2⟩⟩
        · rintro ⟨h1, h2⟩
          obtain ⟨rs', hrs', hflat'⟩ := ih.mpr h2
          exact ⟨o₁ :: rs', by simp [comprehension, h1, hrs'], by simp [hflat', hbs]⟩

/-! ### the C16 model of the id loop is `threaded` -/

/-- `fix_record_name_id(record, all_record_ids, allow_long)` as a state-threading call:
    state = the id set, output = the altered record -/
def fixCall (allowLong : Bool) (taken : List Ids.Str) (r : Ids.Rec) :
    Except Ids.Err (List Ids.Str × Ids.Rec) :=
  match Ids.fixRecordNameId allowLong taken r with
  | .error e => .error e
  | .ok (r', t') => .ok (t', r')

theorem fixAll_eq_threaded (allowLong : Bool) :
    ∀ (recs : List Ids.Rec) (taken : List Ids.Str),
      Ids.fixAll allowLong taken recs =
        match threaded (fixCall allowLong) taken recs with
        | .error e => .error e
        | .ok (_, out) => .ok out
  | [], _ => rfl
  | r :: rs, taken => by
    simp only [Ids.fixAll, threaded, fixCall]
    cases Ids.fixRecordNameId allowLong taken r with
    | error e => rfl
    | ok p =>
      obtain ⟨r', t'⟩ := p
      simp only [fixAll_eq_threaded allowLong rs t']
      cases threaded (fixCall allowLong) t' rs with
      | error e => rfl
      | ok q => rfl

end ASV.Parallel

namespace ASV.Parallel

variable {α ε β : Type}

/-! ### the helper looks at `f` only on the batch's own arguments -/

theorem comprehension_congr (f f' : α → Except ε β) :
    ∀ (l : List α), (∀ a ∈ l, f a = f' a) → comprehension f l = comprehension f' l
  | [], _ => rfl
  | a :: rest, h => by
    simp only [comprehension, h a (by simp),
      comprehension_congr f f' rest (fun x hx => h x (by simp [hx]))]

theorem await_congr (run run' : List α → Except ε (List β)) (tasks : List (List α)) (ht : Bool)
    (h : ∀ t ∈ tasks, run t = run' t) :
    ∀ (evs : List Event) (mr : MapResult ε β),
      awaitResultsWith run tasks ht mr evs = awaitResultsWith run' tasks ht mr evs
  | [], mr => by
    rw [awaitResultsWith.eq_def]; conv => rhs; rw [awaitResultsWith.eq_def]
  | ev :: rest, mr => by
    rw [awaitResultsWith.eq_def]; conv => rhs; rw [awaitResultsWith.eq_def]
    cases ev with
    | timeout => simp only [await_congr run run' tasks ht h rest mr]
    | died w => rfl
    | bystander p => simp only [await_congr run run' tasks ht h rest mr]
    | done i =>
      cases hti : tasks[i]? with
      | none => simp only [hti, await_congr run run' tasks ht h rest mr]
      | some t =>
        have ht' : t ∈ tasks := List.mem_of_getElem? hti
        simp only [hti, h t ht', await_congr run run' tasks ht h rest _]

theorem mem_of_mem_getTasksAux (size : Nat) :
    ∀ (fuel : Nat) (l : List α) (t : List α) (a : α), t ∈ getTasksAux size fuel l → a ∈ t → a ∈ l
  | 0, _, _, _, h, _ => by simp [getTasksAux] at h
  | fuel + 1, l, t, a, h, ha => by
    simp only [getTasksAux] at h
    split at h
    · simp at h
    · rcases List.mem_cons.mp h with rfl | h
      · exact List.mem_of_mem_take ha
      · exact List.mem_of_mem_drop (mem_of_mem_getTasksAux size fuel (l.drop size) t a h ha)

/-- two call functions that agree on the arguments of the batch are indistinguishable -/
theorem parallelFunction_congr (configCpus : Nat) (f f' : α → Except ε β) (args : List α) (cpus : Nat)
    (ht : Bool) (evs : List Event) (h : ∀ a ∈ args, f a = f' a) :
    parallelFunction configCpus f args cpus ht evs = parallelFunction configCpus f' args cpus ht evs := by
  unfold parallelFunction poolRun poolRunWith
  rw [comprehension_congr f f' args h]
  have hrun : ∀ t ∈ getTasks (chunkSize args.length (resolveCpus configCpus cpus)) args,
      comprehension f t = comprehension f' t := by
    intro t htm
    exact comprehension_congr f f' t fun a ha => h a (mem_of_mem_getTasksAux _ _ args t a htm ha)
  simp only [await_congr _ _ _ ht hrun]

end ASV.Parallel
