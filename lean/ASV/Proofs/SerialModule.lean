/-
  C10: the `aSModule` feature read back from its Biopython form: C14's round trip of the module-specific qualifiers
  (`Modules.feature_roundtrip`) composed with the generic feature part (`class_leftovers_roundtrip`).
-/
import ASV.Model.SerialModule
import ASV.Proofs.ModulesFeature
import ASV.Proofs.SerialDom
namespace ASV.Serial
open ASV

theorem qget_toMod : ∀ (q : Quals) (k : String), Modules.qget (toModQuals q) k = (Q.get? q k).map some
  | [], _ => rfl
  | (k', v) :: rest, k => by
    have ih := qget_toMod rest k
    unfold Modules.qget at ih ⊢
    simp only [toModQuals, List.map_cons, List.find?_cons, Q.get?] at ih ⊢
    by_cases h : k' = k
    · simp [h]
    · have : (k' == k) = false := by simp [h]
      simp only [this, h, if_false]
      exact ih

theorem qhas_eq_qget (q : Modules.Quals) (k : String) : Modules.qhas q k = (Modules.qget q k).isSome := by
  unfold Modules.qhas Modules.qget
  induction q with
  | nil => rfl
  | cons kv rest ih =>
    simp only [List.any_cons, List.find?_cons]
    cases h : kv.1 == k <;> simp [ih]

theorem get?_ofMod : ∀ (q : Modules.Quals) (k : String), Q.get? (ofModQuals q) k = (Modules.qget q k).map (·.getD [])
  | [], _ => rfl
  | (k', v) :: rest, k => by
    have ih := get?_ofMod rest k
    unfold Modules.qget at ih ⊢
    simp only [ofModQuals, List.map_cons, List.find?_cons, Q.get?] at ih ⊢
    by_cases h : k' = k
    · simp [h]
    · have : (k' == k) = false := by simp [h]
      simp only [this, h, if_false]
      exact ih

theorem fromBiopython_congr (known : String → Option Modules.FDomain) (q q' : Modules.Quals)
    (h1 : Modules.qget q "domains" = Modules.qget q' "domains") (h2 : Modules.qget q "type" = Modules.qget q' "type")
    (h3 : ∀ k ∈ ["complete", "incomplete", "starter_module", "final_module", "iterative"], Modules.qhas q k = Modules.qhas q' k) :
    Modules.ModFeature.fromBiopython known q = Modules.ModFeature.fromBiopython known q' := by
  unfold Modules.ModFeature.fromBiopython
  rw [h1, h2, h3 "complete" (by simp), h3 "incomplete" (by simp), h3 "starter_module" (by simp), h3 "final_module" (by simp),
    h3 "iterative" (by simp)]

theorem get?_eraseAll : ∀ (ks : List String) (q : Quals) (k : String),
    Q.get? (ks.foldl Q.erase q) k = if k ∈ ks then none else Q.get? q k
  | [], _, _ => by simp
  | a :: ks, q, k => by
    rw [List.foldl_cons, get?_eraseAll ks, Q.get?_erase]
    by_cases h1 : k ∈ ks <;> by_cases h2 : k = a <;> simp [h1, h2]

theorem nodup_eraseAll : ∀ (ks : List String) {q : Quals}, Q.Nodup q → Q.Nodup (ks.foldl Q.erase q)
  | [], _, h => h
  | a :: ks, _, h => nodup_eraseAll ks (Q.nodup_erase h a)

/-- the module's own qualifiers in this model's dictionary -/
def modX (f : ModF) : Quals := ofModQuals f.m.toBiopython

theorem nodup_modX (f : ModF) : Q.Nodup (modX f) := by
  unfold modX ofModQuals Modules.ModFeature.toBiopython Modules.flag Q.Nodup Q.keys
  cases f.m.complete <;> cases f.m.starter <;> cases f.m.final <;> cases f.m.iterative <;> simp

theorem modX_other (f : ModF) (k : String) (h : k ∉ moduleKeys) : Q.get? (modX f) k = none := by
  simp only [moduleKeys, List.mem_cons, List.mem_nil_iff, or_false, not_or] at h
  obtain ⟨h1, h2, h3, h4, h5, h6, h7, h8, _⟩ := h
  have n1 : ("domains" == k) = false := by simp; exact fun e => h1 e.symm
  have n2 : ("locus_tags" == k) = false := by simp; exact fun e => h2 e.symm
  have n3 : ("type" == k) = false := by simp; exact fun e => h3 e.symm
  have n4 : ("complete" == k) = false := by simp; exact fun e => h4 e.symm
  have n5 : ("incomplete" == k) = false := by simp; exact fun e => h5 e.symm
  have n6 : ("starter_module" == k) = false := by simp; exact fun e => h6 e.symm
  have n7 : ("final_module" == k) = false := by simp; exact fun e => h7 e.symm
  have n8 : ("iterative" == k) = false := by simp; exact fun e => h8 e.symm
  unfold modX
  rw [get?_ofMod]
  unfold Modules.qget Modules.ModFeature.toBiopython Modules.flag
  cases f.m.complete <;> cases f.m.starter <;> cases f.m.final <;> cases f.m.iterative <;>
    simp [List.find?_cons, n1, n2, n3, n4, n5, n6, n7, n8]

structure ModF.WF (known : String → Option Modules.FDomain) (f : ModF) : Prop where
  feat : f.feat.WF
  byAS : f.feat.byAS = true
  codon : f.feat.codon = none
  type : f.feat.type = "aSModule"
  reserved : ∀ k ∈ moduleKeys, Q.get? f.feat.quals k = none
  /-- what `Module.__init__` checks: at least one domain, all on one strand -/
  valid : Modules.ModFeature.construct f.m.domains f.m.type f.m.complete f.m.starter f.m.final f.m.iterative = .ok f.m
  /-- the record knows the module's domains by name -/
  domains : ∀ d ∈ f.m.domains, known (Modules.removeSpaces d.name) = some d

theorem module_roundtrip (t : Bool) (known : String → Option Modules.FDomain) (f : ModF) (h : f.WF known) (b : Bio)
    (hb : f.toBio = .ok b) :
    ∃ f', ModF.fromBio known b = .ok f' ∧ f'.m = f.m ∧ f'.feat.view t = f.feat.view t ∧ f'.feat.loc = f.feat.loc ∧
      f'.feat.WF ∧ f'.feat.byAS = true := by
  have hX := nodup_modX f
  have hFQ := nodup_finalQuals f.feat (modX f) h.feat.quals
  unfold ModF.toBio at hb
  change f.feat.toBio (modX f) = .ok b at hb
  rw [toBio_eq, h.codon] at hb
  simp only [Except.ok.injEq] at hb
  subst hb
  have look : ∀ k, Q.get? (Q.sortKeys (finalQuals f.feat (modX f))) k = Q.get? (finalQuals f.feat (modX f)) k :=
    fun k => Q.get?_sortKeys hFQ k
  have hW : ∀ k ∈ moduleKeys, Q.get? (Q.sortKeys (finalQuals f.feat (modX f))) k = Q.get? (modX f) k := by
    intro k hk
    have h2 : k ≠ "tool" := by intro e; subst e; simp [moduleKeys] at hk
    have h3 : k ≠ "note" := by intro e; subst e; simp [moduleKeys] at hk
    rw [look]
    cases hm : Q.get? (modX f) k with
    | none => rw [get?_FQ_rest f.feat _ hX k h.codon h2 h3 hm]; exact h.reserved k hk
    | some v => exact get?_FQ_extra f.feat _ hX k v h.codon h2 h3 hm
  -- the module-specific qualifiers: C14's theorem, through the two dictionary forms
  have hq : ∀ k ∈ moduleKeys, Modules.qget (toModQuals (Q.sortKeys (finalQuals f.feat (modX f)))) k
      = (Modules.qget f.m.toBiopython k).map fun v => some (v.getD []) := by
    intro k hk
    rw [qget_toMod, hW k hk]
    unfold modX
    rw [get?_ofMod]
    cases Modules.qget f.m.toBiopython k <;> rfl
  have hdom : Modules.qget f.m.toBiopython "domains" = some (some (f.m.domains.map (·.name))) := by
    simp [Modules.qget, Modules.ModFeature.toBiopython]
  have htyp : Modules.qget f.m.toBiopython "type" = some (some [f.m.type.str]) := by
    simp [Modules.qget, Modules.ModFeature.toBiopython, List.find?_cons]
  have hmod : Modules.ModFeature.fromBiopython known (toModQuals (Q.sortKeys (finalQuals f.feat (modX f)))) = .ok f.m := by
    rw [fromBiopython_congr known _ f.m.toBiopython]
    · exact Modules.feature_roundtrip known f.m h.valid h.domains
    · rw [hq _ (by simp [moduleKeys]), hdom]; rfl
    · rw [hq _ (by simp [moduleKeys]), htyp]; rfl
    · intro k hk
      have hk' : k ∈ moduleKeys := by
        simp only [List.mem_cons, List.mem_nil_iff, or_false] at hk
        rcases hk with e | e | e | e | e <;> subst e <;> simp [moduleKeys]
      rw [qhas_eq_qget, qhas_eq_qget, hq k hk']
      cases Modules.qget f.m.toBiopython k <;> rfl
  unfold ModF.fromBio
  simp only [hmod]
  obtain ⟨f0, e1, e2, e3, e4, e5, _, _, _, _, _⟩ := class_leftovers_roundtrip t f.feat (modX f) moduleKeys
    (moduleKeys.foldl Q.erase (Q.sortKeys (finalQuals f.feat (modX f)))) h.feat h.byAS h.codon hX (modX_other f)
    (by simp [moduleKeys]) h.reserved (nodup_eraseAll _ (Q.nodup_sortKeys hFQ)) (get?_eraseAll _ _)
  rw [h.type] at e1
  rw [e1]
  exact ⟨⟨f0, f.m⟩, rfl, rfl, e2, e3, e4, e5⟩

end ASV.Serial
