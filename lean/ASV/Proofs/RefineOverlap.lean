/-
  Helper lemmas for C13: the overlap pass (`_remove_overlapping`, fix D61) — no two kept results
  collide, every dropped result collides with a kept one that outranks it; the 20 % rule survives
  the neighbour merge.
-/
import ASV.Proofs.RefineProv
namespace ASV.Refine

/-- one margin `m5` (fifths of a residue) for every pair -/
def ClearBy (m5 : Int) (a b : Hit) : Prop := 5 * a.qe - m5 ≤ 5 * b.qs

theorem allStartClearBy_iff (m5 : Int) (l : List Hit) : allStartClearBy m5 l = true ↔ l.Pairwise (ClearBy m5) := by
  simp only [allStartClearBy, pairwiseB_iff, decide_eq_true_eq]
  exact Iff.rfl

theorem conflict_eq (env : Env) (p r : Hit) : conflict env p r = !startsClear env p r := by
  simp only [conflict, startsClear, margin5]
  rw [Int.max_comm (env.len r.prof)]
  by_cases h : 5 * r.qs < 5 * p.qe - max (env.len p.prof) (env.len r.prof)
  · have h' : ¬ (5 * p.qe - max (env.len p.prof) (env.len r.prof) ≤ 5 * r.qs) := by omega
    simp [h, h']
  · have h' : 5 * p.qe - max (env.len p.prof) (env.len r.prof) ≤ 5 * r.qs := by omega
    simp [h, h']

theorem startsClear_le (env : Env) (a b : Hit) :
    startsClear env a b = true ↔ 5 * a.qe - max (env.len a.prof) (env.len b.prof) ≤ 5 * b.qs := by
  simp only [startsClear, decide_eq_true_eq]
  simp only [margin5]

theorem startsClear_iff (env : Env) (p r : Hit) : startsClear env p r = true ↔ conflict env p r = false := by
  rw [conflict_eq]; cases startsClear env p r <;> simp

/-! ### no two kept results collide -/

/-- the earlier-indexed of the two does not collide with the later one -/
def Apart (env : Env) (x y : Nat × Hit) : Prop :=
  (x.1 < y.1 → conflict env x.2 y.2 = false) ∧ (y.1 < x.1 → conflict env y.2 x.2 = false)

theorem Apart.symm {env : Env} {x y : Nat × Hit} (h : Apart env x y) : Apart env y x := ⟨h.2, h.1⟩

theorem apart_of_not_clash {env : Env} {x k : Nat × Hit} (h : clashIdx env x k = false) : Apart env k x := by
  simp only [clashIdx] at h
  constructor
  · intro hlt
    have : ¬ x.1 ≤ k.1 := by omega
    simpa [this] using h
  · intro hlt
    have : x.1 ≤ k.1 := by omega
    simpa [this] using h

theorem keepBest_apart (env : Env) : ∀ (kept l : List (Nat × Hit)), kept.Pairwise (Apart env) →
    (keepBest env kept l).Pairwise (Apart env)
  | kept, [], h => by simpa [keepBest] using h
  | kept, x :: rest, h => by
    simp only [keepBest]
    split
    · exact keepBest_apart env kept rest h
    · rename_i hno
      apply keepBest_apart env (kept ++ [x]) rest
      rw [List.pairwise_append]
      refine ⟨h, by simp, ?_⟩
      intro k hk y hy
      simp at hy; subst hy
      have hno' : ¬ (kept.any fun other => clashIdx env y other) = true := hno
      rw [List.any_eq_true] at hno'
      have : clashIdx env y k = false := by
        cases hc : clashIdx env y k with
        | false => rfl
        | true => exact absurd ⟨k, hk, hc⟩ hno'
      exact apart_of_not_clash this

theorem keptIdx_no_conflict (env : Env) (l : List Hit) :
    (keptIdx env l).Pairwise (fun a b => conflict env a.2 b.2 = false) := by
  have h1 : (keptIdx env l).Pairwise (Apart env) := by
    rw [keptIdx, List.Perm.pairwise_iff (fun {x y} h => Apart.symm h) (sortBy_perm leIdx _)]
    exact keepBest_apart env [] _ List.Pairwise.nil
  exact ((keptIdx_idx_lt env l).and h1).imp (fun h => h.2.1 h.1)

/-- in the order they are returned, no result collides with a later one (any input) -/
theorem removeOverlapping_no_conflict (env : Env) (l : List Hit) :
    (removeOverlapping env l).Pairwise (fun a b => startsClear env a b = true) := by
  rw [removeOverlapping_eq, List.pairwise_map]
  exact (keptIdx_no_conflict env l).imp (fun h => (startsClear_iff env _ _).mpr h)

/-! ### the 20 % rule survives the neighbour merge -/

theorem mergeImmFrom_clear (env : Env) : ∀ (last : Hit) (rest : List Hit),
    (last :: rest).Pairwise (fun a b => startsClear env a b = true) → Sorted (last :: rest) →
    (mergeImmFrom env last rest).Pairwise (fun a b => startsClear env a b = true)
  | last, [], _, _ => by simp [mergeImmFrom]
  | last, d :: rest, hc, hs => by
    have hcp := List.pairwise_cons.mp hc
    have hsp := List.pairwise_cons.mp hs
    have hld : last.qs ≤ d.qs := hsp.1 d (by simp)
    have keep : (last :: mergeImmFrom env d rest).Pairwise (fun a b => startsClear env a b = true) := by
      refine List.Pairwise.cons ?_ (mergeImmFrom_clear env d rest hcp.2 hsp.2)
      intro x hx
      -- `x` starts where one of the remaining hits starts and has its profile
      obtain ⟨F, hF, hm⟩ := mergeImmFrom_from env (d :: rest) d rest [d] (IsMerge.single env d)
        (by intro f hf; simp at hf; subst hf; simp) (fun r hr => List.mem_cons_of_mem _ hr) hsp.2 x hx
      obtain ⟨f₀, rest', e, hq, _⟩ := hm.first
      have hf₀ : f₀ ∈ d :: rest := hF f₀ (by rw [e]; simp)
      have hp : f₀.prof = x.prof := hm.prof f₀ (by rw [e]; simp)
      have h1 := hcp.1 f₀ hf₀
      rw [startsClear_le] at h1 ⊢
      rw [← hp, ← hq]; exact h1
    simp only [mergeImmFrom]
    split
    · exact keep
    · rename_i hpe
      have hpe' : d.prof = last.prof := by simpa using hpe
      split
      · apply mergeImmFrom_clear env (last.merge d) rest
        · refine List.Pairwise.cons ?_ (List.pairwise_cons.mp hcp.2).2
          intro x hx
          have h1 := hcp.1 x (List.mem_cons_of_mem _ hx)
          have h2 := (List.pairwise_cons.mp hcp.2).1 x hx
          rw [startsClear_le] at h1 h2 ⊢
          simp only [Hit.merge, hpe'] at h1 h2 ⊢
          omega
        · refine List.Pairwise.cons ?_ (List.pairwise_cons.mp hsp.2).2
          intro x hx
          rw [merge_qs_of_le hld]
          exact hsp.1 x (List.mem_cons_of_mem _ hx)
      · exact keep

theorem mergeImmediate_clear (env : Env) {l : List Hit}
    (hc : l.Pairwise (fun a b => startsClear env a b = true)) (hs : Sorted l) :
    (mergeImmediate env l).Pairwise (fun a b => startsClear env a b = true) := by
  cases l with
  | nil => simp [mergeImmediate, mergeImmediate?]
  | cons a t => simpa [mergeImmediate, mergeImmediate?] using mergeImmFrom_clear env a t hc hs

/-- every hit produced from `l` carries the profile of an input hit -/
theorem FromInput.prof_mem {env : Env} {l : List Hit} {o : Hit} (h : FromInput env l o) :
    ∃ f ∈ l, f.prof = o.prof := by
  obtain ⟨F, hF, hm⟩ := h
  obtain ⟨f₀, rest, e, _, _⟩ := hm.first
  exact ⟨f₀, hF f₀ (by rw [e]; simp), hm.prof f₀ (by rw [e]; simp)⟩

/-- the exact 20 % rule between any two returned hits, both modes, every input -/
theorem refine_startClear (env : Env) (nb : Bool) (l : List Hit) :
    (refine env nb l).Pairwise (fun a b => startsClear env a b = true) := by
  simp only [refine, beforeIncomplete]
  apply List.Pairwise.sublist (removeIncomplete_sublist env _)
  cases nb with
  | true =>
    simp only [if_true]
    exact mergeImmediate_clear env (removeOverlapping_no_conflict env _)
      ((sortHits_sorted l).sublist (removeOverlapping_sublist env _))
  | false =>
    simp only [Bool.false_eq_true, if_false]
    exact removeOverlapping_no_conflict env _

theorem withinMargin_of_startsClear (env : Env) (a b : Hit) (h : startsClear env a b = true) :
    withinMargin env a b = true := by
  simp only [startsClear, decide_eq_true_eq] at h
  simp only [withinMargin, decide_eq_true_eq]
  simp only [overlapLen]
  omega

/-- corollary: one margin for all pairs, the longest profile among the input hits -/
theorem refine_clearBy (env : Env) (nb : Bool) (m5 : Int) (l : List Hit)
    (hl : ∀ h ∈ l, env.len h.prof ≤ m5) : (refine env nb l).Pairwise (ClearBy m5) := by
  have hprof : ∀ o ∈ refine env nb l, env.len o.prof ≤ m5 := by
    intro o ho
    obtain ⟨f, hf, e⟩ := (refine_from env nb l o ho).prof_mem
    rw [← e]; exact hl f hf
  have aux : ∀ (out : List Hit), (∀ o ∈ out, env.len o.prof ≤ m5) →
      out.Pairwise (fun a b => startsClear env a b = true) → out.Pairwise (ClearBy m5) := by
    intro out
    induction out with
    | nil => intro _ _; exact List.Pairwise.nil
    | cons a t ih =>
      intro hp hpw
      have hpw' := List.pairwise_cons.mp hpw
      refine List.Pairwise.cons ?_ (ih (fun o ho => hp o (List.mem_cons_of_mem _ ho)) hpw'.2)
      intro b hb
      have h1 := hpw'.1 b hb
      have ha := hp a (by simp)
      have hb' := hp b (List.mem_cons_of_mem _ hb)
      rw [startsClear_le] at h1
      simp only [ClearBy]
      omega
  exact aux _ hprof (refine_startClear env nb l)

/-! ### every dropped result collides with a kept one that outranks it -/

theorem keepBest_justified (env : Env) : ∀ (kept l : List (Nat × Hit)),
    l.Pairwise (fun a b => rankBefore a b = true) → ∀ d ∈ l,
    d ∈ keepBest env kept l ∨
      ∃ k ∈ keepBest env kept l, clashIdx env d k = true ∧ (k ∈ kept ∨ rankBefore k d = true)
  | kept, [], _, d, hd => by simp at hd
  | kept, h :: rest, hs, d, hd => by
    have hsp := List.pairwise_cons.mp hs
    simp only [keepBest]
    split
    · rename_i hcl
      rcases List.mem_cons.mp hd with rfl | hd'
      · rw [List.any_eq_true] at hcl
        obtain ⟨k, hk, hc⟩ := hcl
        exact Or.inr ⟨k, keepBest_mono env kept rest k hk, hc, Or.inl hk⟩
      · exact keepBest_justified env kept rest hsp.2 d hd'
    · rcases List.mem_cons.mp hd with rfl | hd'
      · exact Or.inl (keepBest_mono env _ rest d (by simp))
      · rcases keepBest_justified env (kept ++ [h]) rest hsp.2 d hd' with h1 | ⟨k, hk, hc, hr⟩
        · exact Or.inl h1
        · refine Or.inr ⟨k, hk, hc, ?_⟩
          rcases hr with hr | hr
          · rcases List.mem_append.mp hr with h2 | h2
            · exact Or.inl h2
            · simp at h2; subst h2; exact Or.inr (hsp.1 d hd')
          · exact Or.inr hr

/-- index form: the result at position `j` is kept, or a kept result at another position collides
    with it and has the higher score — or the same score and the earlier position -/
theorem keptIdx_justified (env : Env) (l : List Hit) : ∀ x ∈ enumFrom 0 l,
    x ∈ keptIdx env l ∨ ∃ k ∈ keptIdx env l, clashIdx env x k = true ∧
      (x.2.sc < k.2.sc ∨ (k.2.sc = x.2.sc ∧ k.1 < x.1)) := by
  intro x hx
  have hsorted := sortBy_pairwise rankBefore_total rankBefore_trans (enumFrom 0 l)
  rcases keepBest_justified env [] _ hsorted x ((mem_sortBy _).mpr hx) with h | ⟨k, hk, hc, hr⟩
  · exact Or.inl ((mem_sortBy _).mpr h)
  · by_cases hkx : x ∈ keepBest env [] (sortBy rankBefore (enumFrom 0 l))
    · exact Or.inl ((mem_sortBy _).mpr hkx)
    · refine Or.inr ⟨k, (mem_sortBy _).mpr hk, hc, ?_⟩
      rcases hr with hr | hr
      · simp at hr
      · have hk_enum : k ∈ enumFrom 0 l := mem_keptIdx ((mem_sortBy _).mpr hk)
        -- different entries of the enumeration have different indices
        have hne : k.1 ≠ x.1 := by
          intro e
          have h1 := (mem_enumFrom_iff.mp hk_enum).2
          have h2 := (mem_enumFrom_iff.mp hx).2
          rw [e, h2] at h1
          simp only [Option.some.injEq] at h1
          exact hkx (by rw [show x = k from Prod.ext e.symm h1]; exact hk)
        simp only [rankBefore, decide_eq_true_eq] at hr
        omega

end ASV.Refine
