/-
  Helper lemmas for C13: the greedy overlap pass (`_remove_overlapping`) — what it guarantees
  for every input (margin of the longest profile, domination chains) and under one profile length.
-/
import ASV.Proofs.RefineProv
namespace ASV.Refine

/-- one margin `m5` (fifths of a residue) for every pair -/
def ClearBy (m5 : Int) (a b : Hit) : Prop := 5 * a.qe - m5 ≤ 5 * b.qs

theorem allStartClearBy_iff (m5 : Int) (l : List Hit) : allStartClearBy m5 l = true ↔ l.Pairwise (ClearBy m5) := by
  simp only [allStartClearBy, pairwiseB_iff, decide_eq_true_eq]
  exact Iff.rfl

theorem conflict_eq (env : Env) (p r : Hit) : conflict env p r = !startsClear env p r := by
  simp only [conflict, startsClear, margin5]
  rw [Int.max_comm (env.len r.prof)]
  by_cases h : 5 * r.qs < 5 * p.qe - max (env.len p.prof) (env.len r.prof)
  · have h' : ¬ (5 * p.qe - max (env.len p.prof) (env.len r.prof) ≤ 5 * r.qs) := by omega
    simp [h, h']
  · have h' : 5 * p.qe - max (env.len p.prof) (env.len r.prof) ≤ 5 * r.qs := by omega
    simp [h, h']

theorem remOvFrom_clearBy (env : Env) (m5 : Int) : ∀ (p : Hit) (rest : List Hit),
    (∀ h ∈ p :: rest, env.len h.prof ≤ m5) → Sorted (p :: rest) →
    (remOvFrom env p rest).Pairwise (ClearBy m5)
  | p, [], _, _ => by simp [remOvFrom]
  | p, r :: rest, hl, hs => by
    have hsp := List.pairwise_cons.mp hs
    have hs_r : Sorted (r :: rest) := hsp.2
    have hs_p : Sorted (p :: rest) := hs.sublist (List.Sublist.cons_cons p (List.sublist_cons_self r rest))
    have hl_r : ∀ h ∈ r :: rest, env.len h.prof ≤ m5 := fun h hh => hl h (List.mem_cons_of_mem _ hh)
    have hl_p : ∀ h ∈ p :: rest, env.len h.prof ≤ m5 := by
      intro h hh
      rcases List.mem_cons.mp hh with rfl | hh
      · exact hl _ (by simp)
      · exact hl h (by simp [hh])
    simp only [remOvFrom]
    split
    · split
      · exact remOvFrom_clearBy env m5 r rest hl_r hs_r
      · exact remOvFrom_clearBy env m5 p rest hl_p hs_p
    · rename_i hc
      refine List.Pairwise.cons ?_ (remOvFrom_clearBy env m5 r rest hl_r hs_r)
      intro x hx
      have hx' : x ∈ r :: rest := (remOvFrom_sublist env r rest).subset hx
      have hrx : r.qs ≤ x.qs := by
        rcases List.mem_cons.mp hx' with rfl | hx''
        · exact Int.le_refl _
        · exact (List.pairwise_cons.mp hs_r).1 x hx''
      have h1 := hl p (by simp)
      have h2 := hl r (by simp)
      simp only [conflict, decide_eq_true_eq] at hc
      simp only [ClearBy]
      omega

theorem removeOverlapping_clearBy (env : Env) (m5 : Int) {l : List Hit}
    (hl : ∀ h ∈ l, env.len h.prof ≤ m5) (hs : Sorted l) : (removeOverlapping env l).Pairwise (ClearBy m5) := by
  cases l with
  | nil => simp [removeOverlapping, removeOverlapping?]
  | cons a t => simpa [removeOverlapping, removeOverlapping?] using remOvFrom_clearBy env m5 a t hl hs

theorem mergeImmFrom_clearBy (env : Env) (m5 : Int) : ∀ (last : Hit) (rest : List Hit),
    (last :: rest).Pairwise (ClearBy m5) → Sorted (last :: rest) →
    (mergeImmFrom env last rest).Pairwise (ClearBy m5)
  | last, [], _, _ => by simp [mergeImmFrom]
  | last, d :: rest, hc, hs => by
    have hcp := List.pairwise_cons.mp hc
    have hsp := List.pairwise_cons.mp hs
    have hld : last.qs ≤ d.qs := hsp.1 d (by simp)
    have keep : (last :: mergeImmFrom env d rest).Pairwise (ClearBy m5) := by
      refine List.Pairwise.cons ?_ (mergeImmFrom_clearBy env m5 d rest hcp.2 hsp.2)
      intro x hx
      have h1 := (mergeImmFrom_sorted env d rest hsp.2).2 x hx
      have h2 : ClearBy m5 last d := hcp.1 d (by simp)
      simp only [ClearBy] at h2 ⊢
      omega
    simp only [mergeImmFrom]
    split
    · exact keep
    · split
      · apply mergeImmFrom_clearBy env m5 (last.merge d) rest
        · refine List.Pairwise.cons ?_ (List.pairwise_cons.mp hcp.2).2
          intro x hx
          have h1 : ClearBy m5 last x := hcp.1 x (List.mem_cons_of_mem _ hx)
          have h2 : ClearBy m5 d x := (List.pairwise_cons.mp hcp.2).1 x hx
          simp only [ClearBy, Hit.merge] at h1 h2 ⊢
          omega
        · refine List.Pairwise.cons ?_ (List.pairwise_cons.mp hsp.2).2
          intro x hx
          rw [merge_qs_of_le hld]
          exact hsp.1 x (List.mem_cons_of_mem _ hx)
      · exact keep

theorem mergeImmediate_clearBy (env : Env) (m5 : Int) {l : List Hit}
    (hc : l.Pairwise (ClearBy m5)) (hs : Sorted l) : (mergeImmediate env l).Pairwise (ClearBy m5) := by
  cases l with
  | nil => simp [mergeImmediate, mergeImmediate?]
  | cons a t => simpa [mergeImmediate, mergeImmediate?] using mergeImmFrom_clearBy env m5 a t hc hs

/-- every hit produced from `l` carries the profile of an input hit -/
theorem FromInput.prof_mem {env : Env} {l : List Hit} {o : Hit} (h : FromInput env l o) :
    ∃ f ∈ l, f.prof = o.prof := by
  obtain ⟨F, hF, hm⟩ := h
  obtain ⟨f₀, rest, e, _, _⟩ := hm.first
  exact ⟨f₀, hF f₀ (by rw [e]; simp), hm.prof f₀ (by rw [e]; simp)⟩

theorem refine_clearBy (env : Env) (nb : Bool) (m5 : Int) (l : List Hit)
    (hl : ∀ h ∈ l, env.len h.prof ≤ m5) : (refine env nb l).Pairwise (ClearBy m5) := by
  simp only [refine, beforeIncomplete]
  apply List.Pairwise.sublist (removeIncomplete_sublist env _)
  have hl' : ∀ h ∈ sortHits l, env.len h.prof ≤ m5 := fun h hh => hl h (mem_sortHits.mp hh)
  cases nb with
  | true =>
    simp only [if_true]
    exact mergeImmediate_clearBy env m5 (removeOverlapping_clearBy env m5 hl' (sortHits_sorted l))
      ((sortHits_sorted l).sublist (removeOverlapping_sublist env _))
  | false =>
    simp only [Bool.false_eq_true, if_false]
    apply removeOverlapping_clearBy env m5 _ (mergeDomainList_sorted env _)
    intro h hh
    obtain ⟨f, hf, e⟩ := (mergeDomainList_from env (sortHits_sorted l) h hh).prof_mem
    rw [← e]
    exact hl' f hf

/-- with one profile length the exact 20 % rule holds between any two returned hits -/
theorem refine_startClear_uniform (env : Env) (nb : Bool) (len : Int) (l : List Hit)
    (hl : ∀ h ∈ l, env.len h.prof = len) : (refine env nb l).Pairwise (fun a b => startsClear env a b = true) := by
  have hprof : ∀ o ∈ refine env nb l, env.len o.prof = len := by
    intro o ho
    obtain ⟨f, hf, e⟩ := (refine_from env nb l o ho).prof_mem
    rw [← e]; exact hl f hf
  have hc := refine_clearBy env nb len l (fun h hh => by rw [hl h hh]; exact Int.le_refl _)
  -- turn the uniform margin into the pair's own margin
  have aux : ∀ (out : List Hit), (∀ o ∈ out, env.len o.prof = len) → out.Pairwise (ClearBy len) →
      out.Pairwise (fun a b => startsClear env a b = true) := by
    intro out
    induction out with
    | nil => intro _ _; exact List.Pairwise.nil
    | cons a t ih =>
      intro hp hpw
      have hpw' := List.pairwise_cons.mp hpw
      refine List.Pairwise.cons ?_ (ih (fun o ho => hp o (List.mem_cons_of_mem _ ho)) hpw'.2)
      intro b hb
      have h1 := hpw'.1 b hb
      have ha := hp a (by simp)
      have hb' := hp b (List.mem_cons_of_mem _ hb)
      simp only [startsClear, margin5, ha, hb', decide_eq_true_eq, ClearBy] at h1 ⊢
      omega
  exact aux _ hprof hc

theorem withinMargin_of_startsClear (env : Env) (a b : Hit) (h : startsClear env a b = true) :
    withinMargin env a b = true := by
  simp only [startsClear, decide_eq_true_eq] at h
  simp only [withinMargin, decide_eq_true_eq]
  simp only [overlapLen]
  omega

/-! ### domination chains -/

theorem Dominated.score_le {env : Env} {d k : Hit} (h : Dominated env d k) : d.sc ≤ k.sc := by
  induction h with
  | step hb =>
    simp only [beats, Bool.or_eq_true, Bool.and_eq_true, decide_eq_true_eq] at hb
    omega
  | trans hb _ ih =>
    simp only [beats, Bool.or_eq_true, Bool.and_eq_true, decide_eq_true_eq] at hb
    omega

theorem Dominated.extend {env : Env} {d m : Hit} {out : List Hit} (hb : beats env m d = true)
    (hm : m ∈ out ∨ ∃ k ∈ out, Dominated env m k) : ∃ k ∈ out, Dominated env d k := by
  rcases hm with hm | ⟨k, hk, hd⟩
  · exact ⟨m, hm, Dominated.step hb⟩
  · exact ⟨k, hk, Dominated.trans hb hd⟩

theorem remOvFrom_dominated (env : Env) : ∀ (p : Hit) (rest : List Hit), ∀ d ∈ p :: rest,
    d ∈ remOvFrom env p rest ∨ ∃ k ∈ remOvFrom env p rest, Dominated env d k
  | p, [], d, hd => by
    left; simpa [remOvFrom] using hd
  | p, r :: rest, d, hd => by
    simp only [remOvFrom]
    split
    · rename_i hc
      rw [conflict_eq] at hc
      split
      · rename_i hsc
        -- `p` is replaced by the better `r`
        have hb : beats env r p = true := by
          simp only [beats, hc, Bool.true_and, Bool.or_eq_true, decide_eq_true_eq]
          right; omega
        rcases List.mem_cons.mp hd with rfl | hd'
        · exact Or.inr (Dominated.extend hb (remOvFrom_dominated env r rest r (by simp)))
        · exact remOvFrom_dominated env r rest d hd'
      · rename_i hsc
        -- `r` does not score higher: it is dropped against `p`
        have hb : beats env p r = true := by
          simp only [beats, hc, Bool.true_and, Bool.or_eq_true, decide_eq_true_eq]
          left; omega
        rcases List.mem_cons.mp hd with rfl | hd'
        · exact remOvFrom_dominated env d rest d (by simp)
        · rcases List.mem_cons.mp hd' with rfl | hd''
          · exact Or.inr (Dominated.extend hb (remOvFrom_dominated env p rest p (by simp)))
          · exact remOvFrom_dominated env p rest d (List.mem_cons_of_mem _ hd'')
    · rcases List.mem_cons.mp hd with rfl | hd'
      · left; simp
      · rcases remOvFrom_dominated env r rest d hd' with h | ⟨k, hk, hdom⟩
        · left; exact List.mem_cons_of_mem _ h
        · right; exact ⟨k, List.mem_cons_of_mem _ hk, hdom⟩

end ASV.Refine
