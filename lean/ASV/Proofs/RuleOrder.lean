/-
  C07 helper lemmas, rule order / sub-selection, over C03's model of `cluster_prediction.py`:
  what `apply_cluster_rules` records for a rule, and every later stage, looks at the other rules of the
  ruleset only through the rule's own superiors.
-/
import ASV.Props.C03
set_option linter.unusedVariables false
namespace ASV.Proto
open ASV ASV.Rules

/-- rule names identify rules (what `Parser` guarantees: duplicate names are a syntax error) -/
def NamesDistinct (rules : List RuleM) : Prop := ∀ x ∈ rules, ∀ y ∈ rules, x.name = y.name → x = y

theorem NamesDistinct.sub {rules sub : List RuleM} (h : NamesDistinct rules) (hs : ∀ x ∈ sub, x ∈ rules) :
    NamesDistinct sub := fun x hx y hy e => h x (hs x hx) y (hs y hy) e

/-! ### `apply_cluster_rules`: the anchoring genes of a rule -/

/-- membership in `cluster_type_hits[rule]`, without any mention of the rest of the ruleset -/
def AnchorsOf (within : Lookup) (r : Rec) (rule : RuleM) (g : Gene) : Prop :=
  ∃ gene ∈ r.genes, gene.hasRes = true ∧ ∃ ni, nearInfo within r gene rule.cutoff = .ok ni ∧
    anchors (envOf ni rule.cutoff) gene.id rule.cond = true ∧
    (g = gene.id ∨ g ∈ (detect (envOf ni rule.cutoff) gene.id rule.cond).ancillary.map (·.1))

theorem mem_hitsFor_iff (within : Lookup) (r : Rec) (rules : List RuleM) (res : RuleResults)
    (h : ruleResults within r rules = .ok res) (hd : NamesDistinct rules) (rule : RuleM) (hr : rule ∈ rules)
    (g : Gene) : g ∈ hitsFor res rule.name ↔ AnchorsOf within r rule g := by
  rw [ASV.C03.anchor_set within r rules res h rule.name g]
  constructor
  · rintro ⟨gene, hg, hres, rule', hr', hn, ni, hni, ha, hm⟩
    have : rule' = rule := hd rule' hr' rule hr hn
    subst this
    exact ⟨gene, hg, hres, ni, hni, ha, hm⟩
  · rintro ⟨gene, hg, hres, ni, hni, ha, hm⟩
    exact ⟨gene, hg, hres, rule, hr, rfl, ni, hni, ha, hm⟩

theorem mapM_ok_of_forall {α β : Type} (f : α → E β) :
    ∀ (l : List α), (∀ a ∈ l, ∃ b, f a = .ok b) → ∃ out, l.mapM f = .ok out := by
  intro l
  induction l with
  | nil => intro _; exact ⟨[], rfl⟩
  | cons a l ih =>
    intro h
    obtain ⟨b, hb⟩ := h a (by simp)
    obtain ⟨out, ho⟩ := ih (fun x hx => h x (by simp [hx]))
    exact ⟨b :: out, by simp only [List.mapM_cons, hb, ho, bind, Except.bind, pure, Except.pure]⟩

/-- if rule evaluation runs through for a ruleset, it runs through for every selection / re-ordering
    of its rules (the only thing that can raise is the window computation of a gene and a cutoff) -/
theorem ruleResults_ok_of_subset (within : Lookup) (r : Rec) (rules rules' : List RuleM) (res : RuleResults)
    (h : ruleResults within r rules = .ok res) (hs : ∀ x ∈ rules', x ∈ rules) :
    ∃ res', ruleResults within r rules' = .ok res' := by
  have hcache : ∀ g, CacheOK within r g [] := by intro g c ni hc; simp [List.lookup] at hc
  obtain ⟨hmem, hall⟩ := ruleResults_mem within r rules res h
  apply mapM_ok_of_forall
  intro g hg
  simp only [List.mem_filter] at hg
  obtain ⟨x, hx, rfl⟩ := hall g hg.1 hg.2
  obtain ⟨_, _, hdir⟩ := hmem x hx
  have hstep : ∀ rule ∈ rules', ∃ y, (do
      let ni ← nearInfo within r x.1 rule.cutoff
      pure (rule, detect (envOf ni rule.cutoff) x.1.id rule.cond) : E (RuleM × Met)) = .ok y := by
    intro rule hr
    obtain ⟨y, _, hy⟩ := mapM_ok_mem' _ rules x.2 hdir rule (hs rule hr)
    exact ⟨y, hy⟩
  obtain ⟨out, ho⟩ := mapM_ok_of_forall _ rules' hstep
  refine ⟨(x.1, out), ?_⟩
  simp only [bind, Except.bind, pure, Except.pure, evalRulesCached_eq within r x.1 rules' [] (hcache x.1)]
  have : evalRulesDirect within r x.1 rules' = .ok out := ho
  rw [this]

/-! ### `find_protoclusters`: the protoclusters of a rule before extenders / superiors -/

theorem mem_dedupIds (l : List Gene) (g : Gene) : g ∈ dedupIds l ↔ g ∈ l := by
  induction l with
  | nil => simp [dedupIds]
  | cons x xs ih =>
    simp only [dedupIds, List.mem_cons, List.mem_filter, bne_iff_ne, ne_eq, ih]
    constructor
    · rintro (h | ⟨h, _⟩)
      · exact Or.inl h
      · exact Or.inr h
    · intro h
      by_cases e : g = x
      · exact Or.inl e
      · rcases h with h | h
        · exact Or.inl h
        · exact Or.inr ⟨h, e⟩

/-- the clusters of a rule depend on the anchoring genes as a *set* -/
theorem clustersOfRule_congr (r : Rec) (rule : RuleM) (a a' : List Gene) (h : ∀ g, g ∈ a ↔ g ∈ a') :
    clustersOfRule r rule a = clustersOfRule r rule a' := by
  have hf : (r.genes.filter fun g => a.contains g.id) = (r.genes.filter fun g => a'.contains g.id) := by
    apply List.filter_congr
    intro g _
    rw [Bool.eq_iff_iff, List.contains_iff_mem, List.contains_iff_mem]
    exact h g.id
  simp only [clustersOfRule, hf]

/-! ### `rules_by_name[...]` -/

theorem findRule_of_distinct (rules : List RuleM) (hd : NamesDistinct rules) (rule : RuleM) (hr : rule ∈ rules) :
    findRule rules rule.name = .ok rule := by
  simp only [findRule]
  cases hf : rules.find? (·.name == rule.name) with
  | none =>
    have := List.find?_eq_none.1 hf rule hr
    simp at this
  | some x =>
    have hx : x ∈ rules := List.mem_of_find?_eq_some hf
    have hn : x.name = rule.name := by simpa using List.find?_some hf
    rw [hd x hx rule hr hn]
    rfl

/-! ### `apply_extenders` -/

/-- extending a protocluster consults its own rule only -/
theorem extendCluster_independent (within : Lookup) (r : Rec) (rules rules' : List RuleM) (pc : PC) (rule : RuleM)
    (h : findRule rules pc.rule = .ok rule) (h' : findRule rules' pc.rule = .ok rule) :
    extendCluster within r rules pc = extendCluster within r rules' pc := by
  simp only [extendCluster, h, h']

/-! ### `remove_redundant_protoclusters` -/

theorem redundantOuter_congr (within : Lookup) (clusters clusters' : List PC) (pc : PC) (first last : Loc) :
    ∀ (sups : List String), (∀ s ∈ sups, clusters.filter (·.rule == s) = clusters'.filter (·.rule == s)) →
      redundantOuter within clusters pc first last sups = redundantOuter within clusters' pc first last sups := by
  intro sups
  induction sups with
  | nil => intro _; rfl
  | cons s more ih =>
    intro h
    simp only [redundantOuter, h s (by simp), ih (fun t ht => h t (by simp [ht]))]

/-- the redundancy test of a protocluster looks at the protoclusters of its rule's superiors and at
    nothing else of the ruleset -/
theorem isRedundant_congr (within : Lookup) (rules rules' : List RuleM) (clusters clusters' : List PC) (pc : PC)
    (rule : RuleM) (h : findRule rules pc.rule = .ok rule) (h' : findRule rules' pc.rule = .ok rule)
    (hc : ∀ s ∈ rule.superiors, clusters.filter (·.rule == s) = clusters'.filter (·.rule == s)) :
    isRedundant within rules clusters pc = isRedundant within rules' clusters' pc := by
  simp only [isRedundant, h, h', bind, Except.bind]
  cases firstLast within pc with
  | error e => rfl
  | ok fl =>
    obtain ⟨first, last⟩ := fl
    exact redundantOuter_congr within clusters clusters' pc first last rule.superiors hc

theorem isRedundant_no_superiors (within : Lookup) (rules : List RuleM) (clusters : List PC) (pc : PC)
    (rule : RuleM) (h : findRule rules pc.rule = .ok rule) (hs : rule.superiors = [])
    (fl : Loc × Loc) (hfl : firstLast within pc = .ok fl) :
    isRedundant within rules clusters pc = .ok false := by
  obtain ⟨first, last⟩ := fl
  simp only [isRedundant, h, hfl, hs, bind, Except.bind, redundantOuter, pure, Except.pure]

/-- without SUPERIORS the superiors step keeps every protocluster: `remove_redundant_protoclusters` is the
    identity on a ruleset none of whose rules names a superior (whenever every core holds a gene) -/
theorem removeRedundant_no_superiors (within : Lookup) (rules : List RuleM) (clusters : List PC)
    (hr : ∀ pc ∈ clusters, ∃ rule, findRule rules pc.rule = .ok rule ∧ rule.superiors = [])
    (hf : ∀ pc ∈ clusters, ∃ fl, firstLast within pc = .ok fl) :
    removeRedundant within rules clusters = .ok clusters := by
  have key : ∀ l : List PC, (∀ pc ∈ l, pc ∈ clusters) →
      filterE (fun pc => do
        let red ← isRedundant within rules clusters pc
        pure (!red)) l = .ok l := by
    intro l
    induction l with
    | nil => intro _; rfl
    | cons pc rest ih =>
      intro hsub
      obtain ⟨rule, h1, h2⟩ := hr pc (hsub pc (by simp))
      obtain ⟨fl, h3⟩ := hf pc (hsub pc (by simp))
      have hred := isRedundant_no_superiors within rules clusters pc rule h1 h2 fl h3
      have ih' := ih (fun x hx => hsub x (by simp [hx]))
      simp only [bind, Except.bind, pure, Except.pure] at ih'
      simp only [filterE, hred, bind, Except.bind, pure, Except.pure, Bool.not_false, if_true]
      rw [ih']
  exact key clusters (fun _ h => h)

/-! ### `strip_inferior_domains` -/

theorem mem_stripInferior (rules : List RuleM) (d : Doms) (e : Gene × String × List Prof) :
    e ∈ stripInferior rules d ↔
      e ∈ d ∧ ∀ rule, rules.find? (·.name == e.2.1) = some rule → ∀ s ∈ rule.superiors, s ∉ d.keys e.1 := by
  simp only [stripInferior, List.mem_filter]
  constructor
  · rintro ⟨he, hk⟩
    refine ⟨he, fun rule hf s hs hin => ?_⟩
    simp only [hf, Bool.not_eq_eq_eq_not, Bool.not_true, List.any_eq_false] at hk
    exact hk s hs (List.contains_iff_mem.2 hin)
  · rintro ⟨he, hk⟩
    refine ⟨he, ?_⟩
    cases hf : rules.find? (·.name == e.2.1) with
    | none => rfl
    | some rule =>
      simp only [Bool.not_eq_eq_eq_not, Bool.not_true, List.any_eq_false]
      intro s hs hc
      exact hk rule hf s hs (List.contains_iff_mem.1 hc)

end ASV.Proto
