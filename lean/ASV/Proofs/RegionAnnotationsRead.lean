/-
  C12: the annotations `_build_annotations` returns read as `expectedAnn` — the full record's annotations with
  NOTE / Orig. start / Orig. end set in the antiSMASH-Data comment (created after the others when missing).
  The heap after `deepcopyTop` is written out explicitly: the comment dicts of the copy stand at consecutive fresh
  addresses (`addrKeys`), so the one `writeNotes` overwrites is told apart from all others by its address.
-/
import ASV.Proofs.RegionAnnotations
import ASV.Proofs.RegionExtractBases
set_option linter.unusedSimpArgs false
namespace ASV.RegionExtract
open ASV

/-- the entries of a copied structured-comment dict: comment names with consecutive addresses from `n` -/
def addrKeys : Nat → List String → List (String × Nat)
  | _, [] => []
  | n, k :: ks => (k, n) :: addrKeys (n + 1) ks

theorem allocEntries_eq : ∀ (m : List (String × List (String × String))) (h : AHeap),
    allocEntries h m = (h ++ m.map (fun kv => AObj.data kv.2), addrKeys h.length (m.map (·.1)))
  | [], h => by simp [allocEntries, addrKeys]
  | (k, d) :: rest, h => by
    simp only [allocEntries, alloc, allocEntries_eq rest (h ++ [AObj.data d])]
    simp [addrKeys, List.append_assoc]

theorem addrKeys_getElem? : ∀ (ks : List String) (n i : Nat), (addrKeys n ks)[i]? = ks[i]?.map fun k => (k, n + i)
  | [], _, _ => by simp [addrKeys]
  | k :: ks, n, 0 => by simp [addrKeys]
  | k :: ks, n, i + 1 => by
    simp only [addrKeys, List.getElem?_cons_succ, addrKeys_getElem? ks (n + 1) i]
    congr 1; funext x; congr 1; omega

theorem addrKeys_length : ∀ (ks : List String) (n : Nat), (addrKeys n ks).length = ks.length
  | [], _ => rfl
  | _ :: ks, n => by simp [addrKeys, addrKeys_length ks (n + 1)]

/-- reading the entries back from a heap that holds, at the consecutive addresses, the given comment dicts -/
theorem read_addrKeys : ∀ (vals : List (String × List (String × String))) (n : Nat) (H : AHeap),
    (∀ j v, vals[j]? = some v → H[n + j]? = some (.data v.2)) →
    readCommentEntries H (addrKeys n (vals.map (·.1))) = some vals
  | [], _, _, _ => rfl
  | (k, d) :: rest, n, H, hp => by
    have h0 := hp 0 (k, d) rfl
    have ih := read_addrKeys rest (n + 1) H (fun j v hv => by
      have := hp (j + 1) v (by simpa using hv)
      rwa [show n + (j + 1) = n + 1 + j by omega] at this)
    simp only [Nat.add_zero] at h0
    simp only [List.map_cons, addrKeys, readCommentEntries, readData, h0, ih]

theorem read_append (H : AHeap) : ∀ (E1 E2 : List (String × Nat)) (v1 v2 : List (String × List (String × String))),
    readCommentEntries H E1 = some v1 → readCommentEntries H E2 = some v2 →
    readCommentEntries H (E1 ++ E2) = some (v1 ++ v2)
  | [], E2, v1, v2, h1, h2 => by
    simp only [readCommentEntries, Option.some.injEq] at h1
    subst h1
    simpa using h2
  | (k, a) :: E1, E2, v1, v2, h1, h2 => by
    simp only [readCommentEntries] at h1
    cases hd : readData H a with
    | none => simp [hd] at h1
    | some d =>
      cases hr : readCommentEntries H E1 with
      | none => simp [hd, hr] at h1
      | some r =>
        simp only [hd, hr, Option.some.injEq] at h1
        subst h1
        simp only [List.cons_append, readCommentEntries, hd, read_append H E1 E2 r v2 hr h2]

theorem find_addrKeys_none (x : String) : ∀ (ks : List String) (n : Nat),
    (addrKeys n ks).find? (fun e => e.1 == x) = none → ∀ k ∈ ks, (k == x) = false
  | [], _, _ => by simp
  | k :: ks, n, h => by
    simp only [addrKeys, List.find?_cons] at h
    cases hk : (k == x) with
    | true => simp [hk] at h
    | false =>
      simp only [hk] at h
      intro k' hk'
      rcases List.mem_cons.1 hk' with rfl | hk'
      · exact hk
      · exact find_addrKeys_none x ks (n + 1) h k' hk'

theorem find_addrKeys_some (x : String) : ∀ (ks : List String) (n : Nat) (kv : String × Nat),
    (addrKeys n ks).find? (fun e => e.1 == x) = some kv →
    ∃ i, ks[i]? = some kv.1 ∧ kv.2 = n + i ∧ (kv.1 == x) = true
  | [], _, _, h => by simp [addrKeys] at h
  | k :: ks, n, kv, h => by
    simp only [addrKeys, List.find?_cons] at h
    cases hk : (k == x) with
    | true =>
      simp only [hk, Option.some.injEq] at h
      subst h
      exact ⟨0, rfl, rfl, hk⟩
    | false =>
      simp only [hk] at h
      obtain ⟨i, h1, h2, h3⟩ := find_addrKeys_some x ks (n + 1) kv h
      exact ⟨i + 1, by simpa using h1, by omega, h3⟩

theorem nodup_idx : ∀ (l : List String), l.Nodup → ∀ (i j : Nat) (x : String), l[i]? = some x → l[j]? = some x → i = j
  | [], _, i, _, _, hi, _ => by simp at hi
  | a :: l, hnd, i, j, x, hi, hj => by
    obtain ⟨hna, hl⟩ := List.nodup_cons.1 hnd
    cases i with
    | zero =>
      cases j with
      | zero => rfl
      | succ j =>
        simp at hi hj
        subst hi
        exact absurd (List.mem_of_getElem? hj) hna
    | succ i =>
      cases j with
      | zero =>
        simp at hi hj
        subst hj
        exact absurd (List.mem_of_getElem? hi) hna
      | succ j =>
        simp at hi hj
        rw [nodup_idx l hl i j x hi hj]

/-- the three item assignments, on a dict value -/
def notesOf (rd : RegionData) (d : List (String × String)) : List (String × String) :=
  setStr (setStr (setStr d "NOTE" (if rd.crossesOrigin then noteCross else notePlain)) "Orig. start" (toString rd.start))
    "Orig. end" (toString rd.end)

/-- no structured comment on the full record: the copy gets one with just the antiSMASH-Data comment -/
theorem buildAnnotations_reads_none (h : AHeap) (parent : Nat) (rd : RegionData) (other : List (String × String))
    (ht : readTop h parent = some ⟨other, none⟩) :
    ∃ h' a, buildAnnotationsHeap h parent rd = some (h', a) ∧
      readTop h' a = some ⟨other, some [("antiSMASH-Data", notesOf rd [])]⟩ := by
  have e1 : deepcopyTop h parent = some (h ++ [.top other none], h.length) := by
    simp [deepcopyTop, ht, alloc]
  simp only [buildAnnotationsHeap, e1]
  simp [setdefaults, alloc, writeNotes, readData, readTop, readComments, readCommentEntries, notesOf]
  refine ⟨_, _, ⟨rfl, rfl⟩, ?_⟩
  simp [readCommentEntries, readData]

/-- the heap the deep copy of a record with structured comments `m` leaves: the comment dicts, the structured-comment
    dict and the annotations dict, appended in this order -/
def copiedHeap (h : AHeap) (other : List (String × String)) (m : List (String × List (String × String))) : AHeap :=
  h ++ (m.map (fun kv => AObj.data kv.2) ++
    [AObj.comments (addrKeys h.length (m.map (·.1))), AObj.top other (some (h.length + m.length))])

theorem copiedHeap_length (h : AHeap) (other : List (String × String)) (m : List (String × List (String × String))) :
    (copiedHeap h other m).length = h.length + m.length + 2 := by
  simp [copiedHeap]; omega

theorem copiedHeap_top (h : AHeap) (other : List (String × String)) (m : List (String × List (String × String))) :
    (copiedHeap h other m)[h.length + m.length + 1]? = some (.top other (some (h.length + m.length))) := by
  unfold copiedHeap
  rw [List.getElem?_append_right (by omega), List.getElem?_append_right (by simp; omega)]
  simp
  have : h.length + m.length + 1 - h.length - m.length = 1 := by omega
  rw [this]; rfl

theorem copiedHeap_comments (h : AHeap) (other : List (String × String)) (m : List (String × List (String × String))) :
    (copiedHeap h other m)[h.length + m.length]? = some (.comments (addrKeys h.length (m.map (·.1)))) := by
  unfold copiedHeap
  rw [List.getElem?_append_right (by omega), List.getElem?_append_right (by simp)]
  simp

theorem copiedHeap_data (h : AHeap) (other : List (String × String)) (m : List (String × List (String × String)))
    (j : Nat) (v : String × List (String × String)) (hv : m[j]? = some v) :
    (copiedHeap h other m)[h.length + j]? = some (.data v.2) := by
  have hj : j < m.length := (List.getElem?_eq_some_iff.1 hv).1
  unfold copiedHeap
  rw [List.getElem?_append_right (by omega), List.getElem?_append_left (by simp; omega)]
  simp [hv]

theorem deepcopyTop_some (h : AHeap) (parent : Nat) (other : List (String × String))
    (m : List (String × List (String × String))) (ht : readTop h parent = some ⟨other, some m⟩) :
    deepcopyTop h parent = some (copiedHeap h other m, h.length + m.length + 1) := by
  simp [deepcopyTop, ht, alloc, allocEntries_eq, copiedHeap, List.append_assoc]
  omega

/-- the full record has structured comments `m` (distinct names) -/
theorem buildAnnotations_reads_some (h : AHeap) (parent : Nat) (rd : RegionData) (other : List (String × String))
    (m : List (String × List (String × String))) (ht : readTop h parent = some ⟨other, some m⟩)
    (hnd : (m.map (·.1)).Nodup) :
    ∃ h' a, buildAnnotationsHeap h parent rd = some (h', a) ∧
      readTop h' a = some ⟨other, some (
        if m.any (·.1 == "antiSMASH-Data") then
          m.map fun kv => if kv.1 == "antiSMASH-Data" then (kv.1, notesOf rd kv.2) else kv
        else m ++ [("antiSMASH-Data", notesOf rd [])])⟩ := by
  simp only [buildAnnotationsHeap, deepcopyTop_some h parent other m ht]
  have hlen := copiedHeap_length h other m
  have htop := copiedHeap_top h other m
  have hcom := copiedHeap_comments h other m
  have hdat := copiedHeap_data h other m
  generalize copiedHeap h other m = H1 at *
  simp only [setdefaults, htop, hcom]
  cases hfind : (addrKeys h.length (m.map (·.1))).find? (fun e => e.1 == "antiSMASH-Data") with
  | some kv =>
    obtain ⟨i, hki, hkv2, hkx⟩ := find_addrKeys_some _ _ _ _ hfind
    rw [List.getElem?_map] at hki
    cases hmi : m[i]? with
    | none => simp [hmi] at hki
    | some v =>
      simp only [hmi, Option.map_some, Option.some.injEq] at hki
      have hi : i < m.length := (List.getElem?_eq_some_iff.1 hmi).1
      have hany : m.any (·.1 == "antiSMASH-Data") = true := by
        rw [List.any_eq_true]; exact ⟨v, List.mem_of_getElem? hmi, by rw [hki]; exact hkx⟩
      simp only [hany, if_true, writeNotes, readData, hkv2, hdat i v hmi]
      refine ⟨_, _, rfl, ?_⟩
      have hne1 : h.length + i ≠ h.length + m.length + 1 := by omega
      have hne2 : h.length + i ≠ h.length + m.length := by omega
      simp only [readTop, List.getElem?_set_ne hne1, htop, readComments, List.getElem?_set_ne hne2, hcom]
      have hkeys : m.map (·.1) = (m.map fun kv => if kv.1 == "antiSMASH-Data" then (kv.1, notesOf rd kv.2) else kv).map (·.1) := by
        rw [List.map_map]; apply List.map_congr_left; intro kv _; simp only [Function.comp]; split <;> rfl
      rw [hkeys, read_addrKeys]
      · intro j v' hv'
        rw [List.getElem?_map] at hv'
        cases hmj : m[j]? with
        | none => simp [hmj] at hv'
        | some vj =>
          simp only [hmj, Option.map_some, Option.some.injEq] at hv'
          by_cases hji : j = i
          · subst hji
            rw [hmi] at hmj; injection hmj with hmj; subst hmj
            rw [hki] at hv'
            simp only [hkx, if_true] at hv'
            subst hv'
            rw [List.getElem?_set_self (by omega)]
            rfl
          · have hkj : (vj.1 == "antiSMASH-Data") = false := by
              cases hq : (vj.1 == "antiSMASH-Data") with
              | false => rfl
              | true =>
                exfalso
                apply hji
                have e1 : vj.1 = "antiSMASH-Data" := by simpa using hq
                have e2 : v.1 = "antiSMASH-Data" := by rw [hki]; simpa using hkx
                exact nodup_idx _ hnd j i "antiSMASH-Data" (by simp [List.getElem?_map, hmj, e1]) (by simp [List.getElem?_map, hmi, e2])
            simp only [hkj, Bool.false_eq_true, if_false] at hv'
            subst hv'
            rw [List.getElem?_set_ne (by omega)]
            exact hdat j vj hmj
  | none =>
    have hno := find_addrKeys_none _ _ _ hfind
    have hany : m.any (·.1 == "antiSMASH-Data") = false := by
      rw [List.any_eq_false]
      intro kv hkv
      simp [hno kv.1 (List.mem_map.2 ⟨kv, hkv, rfl⟩)]
    simp only [hany, Bool.false_eq_true, if_false, alloc, hlen]
    -- the heap after the two `setdefault`s, and the new comment dict's address
    generalize hH2 : (H1 ++ [AObj.data []]).set (h.length + m.length)
      (AObj.comments (addrKeys h.length (m.map (·.1)) ++ [("antiSMASH-Data", h.length + m.length + 2)])) = H2
    have h2len : H2.length = h.length + m.length + 3 := by rw [← hH2]; simp [hlen]
    have h2d : H2[h.length + m.length + 2]? = some (.data []) := by
      rw [← hH2, List.getElem?_set_ne (by omega), List.getElem?_append_right (by omega), hlen]; simp
    have h2top : H2[h.length + m.length + 1]? = some (.top other (some (h.length + m.length))) := by
      rw [← hH2, List.getElem?_set_ne (by omega), List.getElem?_append_left (by omega)]; exact htop
    have h2com : H2[h.length + m.length]? = some (.comments (addrKeys h.length (m.map (·.1)) ++
        [("antiSMASH-Data", h.length + m.length + 2)])) := by
      rw [← hH2, List.getElem?_set_self (by simp [hlen]; omega)]
    have h2dat : ∀ j v, m[j]? = some v → H2[h.length + j]? = some (.data v.2) := by
      intro j v hv
      have hj : j < m.length := (List.getElem?_eq_some_iff.1 hv).1
      rw [← hH2, List.getElem?_set_ne (by omega), List.getElem?_append_left (by omega)]
      exact hdat j v hv
    simp only [writeNotes, readData, h2d]
    refine ⟨_, _, rfl, ?_⟩
    have hne1 : h.length + m.length + 2 ≠ h.length + m.length + 1 := by omega
    have hne2 : h.length + m.length + 2 ≠ h.length + m.length := by omega
    simp only [readTop, List.getElem?_set_ne hne1, h2top, readComments, List.getElem?_set_ne hne2, h2com]
    rw [read_append _ _ _ m [("antiSMASH-Data", notesOf rd [])]]
    · apply read_addrKeys
      intro j v hv
      have hj : j < m.length := (List.getElem?_eq_some_iff.1 hv).1
      rw [List.getElem?_set_ne (by omega)]
      exact h2dat j v hv
    · simp only [readCommentEntries, readData, List.getElem?_set_self (show h.length + m.length + 2 < H2.length by omega)]
      rfl

/-- `_build_annotations` succeeds on every readable annotations dict with distinct comment names, and what it
    returns reads as `expectedAnn` -/
theorem buildAnnotations_reads (h : AHeap) (parent : Nat) (rd : RegionData) (t : AnnTree)
    (ht : readTop h parent = some t) (hnd : ((t.sc.getD []).map (·.1)).Nodup) :
    ∃ h' a, buildAnnotationsHeap h parent rd = some (h', a) ∧ readTop h' a = some (expectedAnn t rd) := by
  obtain ⟨other, sc⟩ := t
  cases sc with
  | none =>
    obtain ⟨h', a, h1, h2⟩ := buildAnnotations_reads_none h parent rd other ht
    refine ⟨h', a, h1, ?_⟩
    rw [h2]
    simp [expectedAnn, wraps_eq, notesOf]
  | some m =>
    obtain ⟨h', a, h1, h2⟩ := buildAnnotations_reads_some h parent rd other m ht (by simpa using hnd)
    refine ⟨h', a, h1, ?_⟩
    rw [h2]
    simp only [expectedAnn, wraps_eq, notesOf, Option.getD_some]

end ASV.RegionExtract
