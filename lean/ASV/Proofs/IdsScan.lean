/-
  C16 helper lemmas (last round): `generate_unique_id` returns the LEAST free counter, and the
  scanners that stand for the regular expressions of `_shorten_ids` agree with the declarative
  (backtracking) meaning of the patterns.
-/
import ASV.Proofs.Ids
namespace ASV.Ids

theorem genLoop_least {pre : Str} {taken : List Str} :
    ∀ {fuel c : Nat} {n : Str} {k : Nat}, genLoop pre taken fuel c = some (n, k) →
      ∀ j, c ≤ j → j < k → mkName pre j ∈ taken
  | 0, _, _, _, h => by simp [genLoop] at h
  | fuel + 1, c, n, k, h => by
    unfold genLoop at h
    split at h
    · rename_i hc
      intro j hj hjk
      by_cases hjc : j = c
      · subst hjc; simpa using hc
      · exact genLoop_least h j (by omega) hjk
    · simp only [Option.some.injEq, Prod.mk.injEq] at h
      intro j hj hjk
      omega

theorem generateUniqueId_least {pre : Str} {taken : List Str} {start : Nat} {maxLength : Int} {n : Str} {k : Nat}
    (h : generateUniqueId pre taken start maxLength = .ok (n, k)) :
    start ≤ k ∧ ∀ j, start ≤ j → j < k → mkName pre j ∈ taken := by
  unfold generateUniqueId at h
  split at h
  · simp at h
  · rename_i name c hg
    split at h
    · simp at h
    · simp only [Except.ok.injEq, Prod.mk.injEq] at h
      obtain ⟨rfl, rfl⟩ := h
      exact ⟨(genLoop_some hg).2.2, genLoop_least hg⟩

/-! ### `(\d+)\b` — declarative meaning vs. scanner -/

/-- the declarative (backtracking) meaning of `(\d+)\b` anchored at the head of `s`, given that the
    match is preceded by anything: `ds` is a non-empty run of digits that is a prefix of `s`, and
    there is a word boundary after it — the last digit is a word character, so the next
    character must not be one (or the string ends) -/
def MatchDigitsB (s ds : Str) : Prop :=
  ds ≠ [] ∧ (∀ c ∈ ds, c.isDigit = true) ∧ ∃ rest, s = ds ++ rest ∧ (rest = [] ∨ ∃ c tl, rest = c :: tl ∧ isWord c = false)

theorem isWord_of_isDigit {c : Char} (h : c.isDigit = true) : isWord c = true := by
  unfold isWord Char.isAlphanum
  simp [h]

theorem takeWhile_append_of_all {p : Char → Bool} : ∀ {ds rest : Str}, (∀ c ∈ ds, p c = true) →
    (rest = [] ∨ ∃ c tl, rest = c :: tl ∧ p c = false) →
    (ds ++ rest).takeWhile p = ds ∧ (ds ++ rest).dropWhile p = rest
  | [], rest, _, hr => by
    rcases hr with rfl | ⟨c, tl, rfl, hc⟩
    · simp
    · simp [hc]
  | d :: ds, rest, hd, hr => by
    have hdp : p d = true := hd d List.mem_cons_self
    have ih := takeWhile_append_of_all (ds := ds) (rest := rest) (fun c hc => hd c (List.mem_cons_of_mem _ hc)) hr
    simp [hdp, ih.1, ih.2]

/-- the scanner finds exactly the declarative matches: in particular the match is unique (greedy =
    the only candidate, no success by backtracking) -/
theorem digitsThenBoundary_iff (s ds : Str) : digitsThenBoundary s = some ds ↔ MatchDigitsB s ds := by
  constructor
  · intro h
    unfold digitsThenBoundary at h
    simp only at h
    split at h
    · simp at h
    · rename_i hne
      have hne' : s.takeWhile Char.isDigit ≠ [] := by simpa using hne
      have hall : ∀ c ∈ s.takeWhile Char.isDigit, c.isDigit = true := fun c hc => List.all_eq_true.mp List.all_takeWhile c hc
      have hsplit : s = s.takeWhile Char.isDigit ++ s.dropWhile Char.isDigit := (List.takeWhile_append_dropWhile).symm
      split at h
      · rename_i hrest
        simp only [Option.some.injEq] at h
        subst h
        exact ⟨hne', hall, [], by rw [← hrest]; exact hsplit, Or.inl rfl⟩
      · rename_i c tl hrest
        split at h
        · simp at h
        · rename_i hw
          simp only [Option.some.injEq] at h
          subst h
          exact ⟨hne', hall, c :: tl, by rw [← hrest]; exact hsplit, Or.inr ⟨c, tl, rfl, by simpa using hw⟩⟩
  · rintro ⟨hne, hall, rest, rfl, hrest⟩
    have hr' : rest = [] ∨ ∃ c tl, rest = c :: tl ∧ Char.isDigit c = false := by
      rcases hrest with h | ⟨c, tl, h, hw⟩
      · exact Or.inl h
      · refine Or.inr ⟨c, tl, h, ?_⟩
        cases hd : c.isDigit with
        | false => rfl
        | true => rw [isWord_of_isDigit hd] at hw; exact absurd hw (by simp)
    obtain ⟨ht, hdr⟩ := takeWhile_append_of_all hall hr'
    unfold digitsThenBoundary
    simp only [ht, hdr]
    have : ds.isEmpty = false := by cases ds with | nil => exact absurd rfl hne | cons _ _ => rfl
    simp only [this]
    rcases hrest with rfl | ⟨c, tl, rfl, hw⟩
    · simp
    · simp [hw]

/-! ### `x?` and the anchored pattern `onti?g?(\d+)\b` -/

/-- `x?P`: skip nothing or consume one `x`, then `P` -/
def OptThen (x : Char) (P : Str → Prop) (r : Str) : Prop := ∃ r1, (r1 = r ∨ r = x :: r1) ∧ P r1

/-- when what follows can never start with `x`, the optional character has to be consumed if it is
    there: `x?P` means `P` after `optChar x` -/
theorem optThen_iff {x : Char} {P : Str → Prop} (hP : ∀ s, P s → s.head? ≠ some x) (r : Str) :
    OptThen x P r ↔ P (optChar x r) := by
  unfold OptThen
  cases r with
  | nil =>
    simp only [optChar]
    constructor
    · rintro ⟨r1, h | h, hp⟩
      · exact h ▸ hp
      · simp at h
    · exact fun hp => ⟨[], Or.inl rfl, hp⟩
  | cons c cs =>
    by_cases hc : c = x
    · subst hc
      simp only [optChar, beq_self_eq_true, if_true]
      constructor
      · rintro ⟨r1, h | h, hp⟩
        · subst h
          exact absurd rfl (hP _ hp)
        · simp only [List.cons.injEq, true_and] at h
          exact h ▸ hp
      · exact fun hp => ⟨cs, Or.inr rfl, hp⟩
    · have hcx : (c == x) = false := by simpa using hc
      simp only [optChar, hcx]
      constructor
      · rintro ⟨r1, h | h, hp⟩
        · exact h ▸ hp
        · simp only [List.cons.injEq] at h
          exact absurd h.1 hc
      · exact fun hp => ⟨c :: cs, Or.inl rfl, hp⟩

theorem matchDigitsB_head {s ds : Str} (h : MatchDigitsB s ds) : ∃ d tl, s = d :: tl ∧ d.isDigit = true := by
  obtain ⟨hne, hall, rest, rfl, _⟩ := h
  cases ds with
  | nil => exact absurd rfl hne
  | cons d tl => exact ⟨d, tl ++ rest, rfl, hall d List.mem_cons_self⟩

/-- the declarative meaning of `onti?g?(\d+)\b` anchored at the head of `s` -/
def MatchContig (s ds : Str) : Prop :=
  ∃ r, s = 'o' :: 'n' :: 't' :: r ∧ OptThen 'i' (OptThen 'g' (fun r2 => MatchDigitsB r2 ds)) r

theorem matchContigAt_iff (s ds : Str) : matchContigAt s = some ds ↔ MatchContig s ds := by
  have hg : ∀ t, MatchDigitsB t ds → t.head? ≠ some 'g' := by
    intro t ht
    obtain ⟨d, tl, rfl, hd⟩ := matchDigitsB_head ht
    intro heq
    simp only [List.head?_cons, Option.some.injEq] at heq
    subst heq
    exact absurd hd (by decide)
  have hi : ∀ t, OptThen 'g' (fun r2 => MatchDigitsB r2 ds) t → t.head? ≠ some 'i' := by
    rintro t ⟨r1, h | h, hp⟩ heq
    · subst h
      obtain ⟨d, tl, rfl, hd⟩ := matchDigitsB_head hp
      simp only [List.head?_cons, Option.some.injEq] at heq
      subst heq
      exact absurd hd (by decide)
    · subst h
      simp at heq
  have key : ∀ r, OptThen 'i' (OptThen 'g' (fun r2 => MatchDigitsB r2 ds)) r ↔
      digitsThenBoundary (optChar 'g' (optChar 'i' r)) = some ds := by
    intro r
    rw [optThen_iff hi, optThen_iff hg, digitsThenBoundary_iff]
  unfold MatchContig
  constructor
  · intro h
    unfold matchContigAt at h
    split at h
    · rename_i r
      exact ⟨r, rfl, (key r).mpr h⟩
    · simp at h
  · rintro ⟨r, rfl, h⟩
    simp only [matchContigAt]
    exact (key r).mp h

/-- the declarative meaning of `caff?o?l?d?(\d+)\b` anchored at the head of `s` -/
def MatchScaffold (s ds : Str) : Prop :=
  ∃ r, s = 'c' :: 'a' :: 'f' :: r ∧
    OptThen 'f' (OptThen 'o' (OptThen 'l' (OptThen 'd' (fun r2 => MatchDigitsB r2 ds)))) r

/-- head of anything matched by a chain of optional letters followed by digits: a digit or one of the letters -/
theorem optThen_head {x : Char} {P : Str → Prop} {ok : Char → Prop} (hx : ok x)
    (hP : ∀ t, P t → ∃ c tl, t = c :: tl ∧ ok c) (t : Str) (h : OptThen x P t) : ∃ c tl, t = c :: tl ∧ ok c := by
  obtain ⟨r1, h | h, hp⟩ := h
  · exact h ▸ hP _ hp
  · exact ⟨x, r1, h, hx⟩

theorem matchScaffoldAt_iff (s ds : Str) : matchScaffoldAt s = some ds ↔ MatchScaffold s ds := by
  -- heads: after `d?` a digit; after `l?` a digit or d; …
  have h0 : ∀ t, MatchDigitsB t ds → ∃ c tl, t = c :: tl ∧ (c.isDigit = true) := fun t ht => matchDigitsB_head ht
  have h1 := fun t => optThen_head (x := 'd') (P := fun r2 => MatchDigitsB r2 ds)
    (ok := fun c => c.isDigit = true ∨ c = 'd') (Or.inr rfl)
    (fun t ht => (h0 t ht).imp fun c hc => hc.imp fun tl h => ⟨h.1, Or.inl h.2⟩) t
  have h2 := fun t => optThen_head (x := 'l') (P := OptThen 'd' (fun r2 => MatchDigitsB r2 ds))
    (ok := fun c => c.isDigit = true ∨ c = 'd' ∨ c = 'l') (Or.inr (Or.inr rfl))
    (fun t ht => (h1 t ht).imp fun c hc => hc.imp fun tl h => ⟨h.1, h.2.elim Or.inl (fun e => Or.inr (Or.inl e))⟩) t
  have h3 := fun t => optThen_head (x := 'o') (P := OptThen 'l' (OptThen 'd' (fun r2 => MatchDigitsB r2 ds)))
    (ok := fun c => c.isDigit = true ∨ c = 'd' ∨ c = 'l' ∨ c = 'o') (Or.inr (Or.inr (Or.inr rfl)))
    (fun t ht => (h2 t ht).imp fun c hc => hc.imp fun tl h =>
      ⟨h.1, h.2.elim Or.inl (fun e => Or.inr (e.elim Or.inl (fun e => Or.inr (Or.inl e))))⟩) t
  have nd : ∀ t, MatchDigitsB t ds → t.head? ≠ some 'd' := by
    intro t ht heq
    obtain ⟨c, tl, rfl, hc⟩ := h0 t ht
    simp only [List.head?_cons, Option.some.injEq] at heq
    subst heq; exact absurd hc (by decide)
  have nl : ∀ t, OptThen 'd' (fun r2 => MatchDigitsB r2 ds) t → t.head? ≠ some 'l' := by
    intro t ht heq
    obtain ⟨c, tl, rfl, hc⟩ := h1 t ht
    simp only [List.head?_cons, Option.some.injEq] at heq
    subst heq
    rcases hc with hc | hc
    · exact absurd hc (by decide)
    · exact absurd hc (by decide)
  have no : ∀ t, OptThen 'l' (OptThen 'd' (fun r2 => MatchDigitsB r2 ds)) t → t.head? ≠ some 'o' := by
    intro t ht heq
    obtain ⟨c, tl, rfl, hc⟩ := h2 t ht
    simp only [List.head?_cons, Option.some.injEq] at heq
    subst heq
    rcases hc with hc | hc | hc
    · exact absurd hc (by decide)
    · exact absurd hc (by decide)
    · exact absurd hc (by decide)
  have nf : ∀ t, OptThen 'o' (OptThen 'l' (OptThen 'd' (fun r2 => MatchDigitsB r2 ds))) t → t.head? ≠ some 'f' := by
    intro t ht heq
    obtain ⟨c, tl, rfl, hc⟩ := h3 t ht
    simp only [List.head?_cons, Option.some.injEq] at heq
    subst heq
    rcases hc with hc | hc | hc | hc
    · exact absurd hc (by decide)
    · exact absurd hc (by decide)
    · exact absurd hc (by decide)
    · exact absurd hc (by decide)
  have key : ∀ r, OptThen 'f' (OptThen 'o' (OptThen 'l' (OptThen 'd' (fun r2 => MatchDigitsB r2 ds)))) r ↔
      digitsThenBoundary (optChar 'd' (optChar 'l' (optChar 'o' (optChar 'f' r)))) = some ds := by
    intro r
    rw [optThen_iff nf, optThen_iff no, optThen_iff nl, optThen_iff nd, digitsThenBoundary_iff]
  unfold MatchScaffold
  constructor
  · intro h
    unfold matchScaffoldAt at h
    split at h
    · rename_i r
      exact ⟨r, rfl, (key r).mpr h⟩
    · simp at h
  · rintro ⟨r, rfl, h⟩
    simp only [matchScaffoldAt]
    exact (key r).mp h

/-- `re.search` with a one-candidate-per-position matcher: the result is the match at the
    leftmost start position that has one -/
theorem searchFrom_iff (m : Str → Option Str) (r : Str) : ∀ (s : Str), searchFrom m s = some r ↔
    ∃ pre suf, s = pre ++ suf ∧ m suf = some r ∧
      ∀ pre' suf', s = pre' ++ suf' → pre'.length < pre.length → m suf' = none
  | [] => by
    simp only [searchFrom]
    constructor
    · intro h
      exact ⟨[], [], rfl, h, fun _ _ _ hl => absurd hl (by simp)⟩
    · rintro ⟨pre, suf, hs, hm, _⟩
      have : suf = [] := by
        have := congrArg List.length hs
        simp only [List.length_nil, List.length_append] at this
        exact List.eq_nil_of_length_eq_zero (by omega)
      exact this ▸ hm
  | c :: cs => by
    unfold searchFrom
    cases hmc : m (c :: cs) with
    | some x =>
      simp only [Option.some.injEq]
      constructor
      · rintro rfl
        exact ⟨[], c :: cs, rfl, hmc, fun _ _ _ hl => absurd hl (by simp)⟩
      · rintro ⟨pre, suf, hs, hm, hmin⟩
        cases pre with
        | nil =>
          simp only [List.nil_append] at hs
          rw [← hs, hmc] at hm
          exact Option.some.inj hm
        | cons p ps =>
          have := hmin [] (c :: cs) rfl (by simp)
          rw [hmc] at this
          simp at this
    | none =>
      simp only
      rw [searchFrom_iff m r cs]
      constructor
      · rintro ⟨pre, suf, hs, hm, hmin⟩
        refine ⟨c :: pre, suf, by simp [hs], hm, ?_⟩
        intro pre' suf' hs' hl
        cases pre' with
        | nil =>
          simp only [List.nil_append] at hs'
          exact hs' ▸ hmc
        | cons p ps =>
          simp only [List.cons_append, List.cons.injEq] at hs'
          exact hmin ps suf' hs'.2 (by simpa using hl)
      · rintro ⟨pre, suf, hs, hm, hmin⟩
        cases pre with
        | nil =>
          simp only [List.nil_append] at hs
          rw [← hs, hmc] at hm
          simp at hm
        | cons p ps =>
          simp only [List.cons_append, List.cons.injEq] at hs
          refine ⟨ps, suf, hs.2, hm, ?_⟩
          intro pre' suf' hs' hl
          exact hmin (c :: pre') suf' (by simp [hs']) (by simpa using hl)

end ASV.Ids
