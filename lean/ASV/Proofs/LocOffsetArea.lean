/-
  `offset_location` for origin-spanning spans `[x, L) + [0, y)` on a ring (C04, used by C12).
-/
import ASV.Proofs.LocConnectRing
set_option linter.unusedSimpArgs false
set_option linter.unusedVariables false
namespace ASV


/-- an origin-spanning span `[x, L) + [0, y)` -/
def areaTwo (x y L : Int) (s : Strand) : Loc := .compound [⟨x, L, s⟩, ⟨0, y, s⟩]

theorem area_unroll (x y L k i : Int) (hL : 0 < L) (hy0 : 0 < y) (hyx : y ≤ x) (hxL : x < L) :
    (∃ j, (areaTwo x y L s).mem j = true ∧ RotOf L k i j) ↔ (∃ j', (x ≤ j' ∧ j' < L + y) ∧ RotOf L k i j') := by
  constructor
  · rintro ⟨j, hj, c, hc⟩
    rw [areaTwo, mem_two] at hj
    dsimp only at hj
    rcases hj with h | h
    · exact ⟨j, ⟨by omega, by omega⟩, c, hc⟩
    · refine ⟨j + L, ⟨by omega, by omega⟩, c - 1, ?_⟩
      rw [Int.sub_mul]; omega
  · rintro ⟨j', ⟨h1, h2⟩, c, hc⟩
    by_cases hlt : j' < L
    · exact ⟨j', by rw [areaTwo, mem_two]; dsimp only; omega, c, hc⟩
    · refine ⟨j' - L, by rw [areaTwo, mem_two]; dsimp only; omega, c + 1, ?_⟩
      rw [Int.add_mul]; omega



def offAreaTwo (x y L k : Int) (s : Strand) : Loc :=
  if y = x ∨ k % L = 0 then areaTwo x y L s
  else if x + k % L < L then .compound [⟨x + k % L, L, s⟩, ⟨0, y + k % L, s⟩]
  else if y + k % L - 1 < L then .simple ⟨x + k % L - L, y + k % L, s⟩
  else .compound [⟨x + k % L - L, L, s⟩, ⟨0, y + k % L - L, s⟩]

theorem mod_of_shift (a q L v : Int) (hk : a = v + q * L) (h0 : 0 ≤ v) (h1 : v < L) : a % L = v := by
  rw [hk, Int.add_mul_emod_self_right]; exact Int.emod_eq_of_lt h0 h1

theorem offset_general (l : Loc) (k L : Int) (hL0 : L ≠ 0) (hk : k ≠ 0) (hlt : ¬ L < 1) (hlen : ¬ l.len = L)
    (htriv : offsetTrivial l k L = false) :
    offsetLocation l k L = (do let parts ← shiftedParts l k true; wrapParts parts L) := by
  simp [offsetLocation, hL0, hk, hlt, hlen, htriv]

theorem shifted_area (x y L k : Int) (s : Strand) (hy0 : 0 < y) (hxL : x < L) :
    shiftedParts (areaTwo x y L s) k true = .ok [⟨x + k, L + k, s⟩, ⟨k, y + k, s⟩] := by
  have c1 : ¬ L ≤ x := by omega
  have c2 : ¬ y ≤ 0 := by omega
  simp [shiftedParts, areaTwo, Loc.parts, c1, c2, pure, Except.pure, bind, Except.bind]

theorem offset_area_eq (x y L k : Int) (s : Strand) (hL : 0 < L) (hy0 : 0 < y) (hyx : y ≤ x) (hxL : x < L) :
    offsetLocation (areaTwo x y L s) k L = .ok (offAreaTwo x y L k s) := by
  have hL0 : L ≠ 0 := by omega
  have hlt : ¬ L < 1 := by omega
  obtain ⟨q, hq, hk0, hk1⟩ := emod_shift k L hL
  unfold offAreaTwo
  by_cases hk : k = 0
  · subst hk
    have : (0 : Int) % L = 0 := by simp
    simp [offsetLocation, this, pure, Except.pure]
  · by_cases hfull : y = x
    · subst hfull
      have hlen : (areaTwo y y L s).len = L := by simp [areaTwo, Loc.len, Loc.parts, Part.len]
      simp [offsetLocation, hL0, hk, hlen, hlt, pure, Except.pure]
    · have hlen : ¬ (areaTwo x y L s).len = L := by simp [areaTwo, Loc.len, Loc.parts, Part.len]; omega
      have htriv : offsetTrivial (areaTwo x y L s) k L = false := by
        have h1 : (areaTwo x y L s).end = L := by simp [areaTwo, Loc.end, maxList]; omega
        have h2 : (areaTwo x y L s).start = 0 := by simp [areaTwo, Loc.start, minList]; omega
        simp only [offsetTrivial, h1, h2, Bool.and_eq_false_iff, decide_eq_false_iff_not]
        omega
      rw [offset_general _ k L hL0 hk hlt hlen htriv, shifted_area x y L k s hy0 hxL]
      simp only [hfull, false_or]
      by_cases hκ : k % L = 0
      · have m1 : (x + k) % L = x := mod_of_shift _ q L x (by omega) (by omega) hxL
        have m2 : (L + k - 1) % L = L - 1 := mod_of_shift _ q L (L - 1) (by omega) (by omega) (by omega)
        have m3 : (y + k - 1) % L = y - 1 := mod_of_shift _ q L (y - 1) (by omega) (by omega) (by omega)
        have hx0 : 0 ≤ x := by omega
        have hyL : y ≤ L := by omega
        simp [wrapParts, hκ, m1, m2, m3, mergeAdjacent, Loc.ofParts, pure, Except.pure, bind, Except.bind, areaTwo, hL0,
          hx0, hxL, hy0, hyL]
      · simp only [hκ, if_false]
        have hκ0 : 0 < k % L := by omega
        have m2 : (L + k - 1) % L = k % L - 1 := mod_of_shift _ (q + 1) L (k % L - 1) (by rw [Int.add_mul]; omega) (by omega) (by omega)
        have m0 : k % L % L = k % L := Int.emod_eq_of_lt hk0 hk1
        by_cases hA : x + k % L < L
        · -- A: first part still ends at the record end, the origin-side part grows
          have m1 : (x + k) % L = x + k % L := mod_of_shift _ q L (x + k % L) (by omega) (by omega) hA
          have m3 : (y + k - 1) % L = y + k % L - 1 := mod_of_shift _ q L (y + k % L - 1) (by omega) (by omega) (by omega)
          simp only [hA, if_true]
          have c1 : ¬ ((0 ≤ x + k % L ∧ x + k % L < k % L) ∧ k % L ≤ L) := by omega
          have c2 : k % L < y + k % L ∧ y + k % L ≤ L := by omega
          have c3 : ¬ (L = 0) := hL0
          simp [wrapParts, m0, m1, m2, m3, mergeAdjacent, Loc.ofParts, pure, Except.pure, bind, Except.bind, hL0,
            c1, c2, hk0]
          omega
        · simp only [hA, if_false]
          have m1 : (x + k) % L = x + k % L - L := mod_of_shift _ (q + 1) L (x + k % L - L) (by rw [Int.add_mul]; omega) (by omega) (by omega)
          by_cases hB : y + k % L - 1 < L
          · have m3 : (y + k - 1) % L = y + k % L - 1 := mod_of_shift _ q L (y + k % L - 1) (by omega) (by omega) hB
            simp only [hB, if_true]
            have c1 : (0 ≤ x + k % L - L ∧ x + k % L - L < k % L) ∧ k % L ≤ L := by omega
            have c2 : k % L < y + k % L ∧ y + k % L ≤ L := by omega
            have c4 : L ≤ x + k % L := by omega
            simp [wrapParts, m0, m1, m2, m3, mergeAdjacent, Loc.ofParts, pure, Except.pure, bind, Except.bind, hL0,
              c1, c2, c4, hk0]
          · have m3 : (y + k - 1) % L = y + k % L - 1 - L := mod_of_shift _ (q + 1) L (y + k % L - 1 - L) (by rw [Int.add_mul]; omega) (by omega) (by omega)
            simp only [hB, if_false]
            have c1 : (0 ≤ x + k % L - L ∧ x + k % L - L < k % L) ∧ k % L ≤ L := by omega
            have c2 : ¬ (k % L < y + k % L - 1 - L + 1 ∧ y + k % L - 1 - L + 1 ≤ L) := by omega
            have c5 : ¬ (k % L < y + k % L - L ∧ y + k % L - L ≤ L) := by omega
            have c4 : L ≤ x + k % L := by omega
            have e3 : y + k % L - 1 - L + 1 = y + k % L - L := by omega
            simp [wrapParts, m0, m1, m2, m3, mergeAdjacent, Loc.ofParts, pure, Except.pure, bind, Except.bind, hL0,
              c1, c2, c4, c5, e3, hk0]
            omega



theorem offAreaTwo_mem (x y L k : Int) (s : Strand) (hL : 0 < L) (hy0 : 0 < y) (hyx : y ≤ x) (hxL : x < L) (i : Int) :
    (offAreaTwo x y L k s).mem i = true ↔
      (0 ≤ i ∧ i < L ∧ ∃ j, (areaTwo x y L s).mem j = true ∧ RotOf L k i j) := by
  obtain ⟨q, hq, hk0, hk1⟩ := emod_shift k L hL
  obtain ⟨q', hq', hs0, hs1⟩ := emod_shift (x + k) L hL
  have key : ∀ i, 0 ≤ i → i < L →
      ((∃ j, (areaTwo x y L s).mem j = true ∧ RotOf L k i j) ↔
        (((x + k) % L ≤ i ∧ i < (x + k) % L + (L + y - x)) ∨ i < (x + k) % L + (L + y - x) - L)) := by
    intro i hi0 hi1
    rw [area_unroll x y L k i hL hy0 hyx hxL]
    exact rot_interval x (L + y) k L ((x + k) % L) q' hL (by omega) (by omega) hq' hs0 hs1 i hi0 hi1
  unfold offAreaTwo
  by_cases hc : y = x ∨ k % L = 0
  · rw [if_pos hc, areaTwo, mem_two]
    dsimp only
    rcases hc with hfull | hκ
    · constructor
      · intro h; exact ⟨by omega, by omega, (key i (by omega) (by omega)).2 (by omega)⟩
      · rintro ⟨h0, h1, _⟩; omega
    · have m1 : (x + k) % L = x := mod_of_shift _ q L x (by omega) (by omega) hxL
      constructor
      · intro h; exact ⟨by omega, by omega, (key i (by omega) (by omega)).2 (by rw [m1]; omega)⟩
      · rintro ⟨h0, h1, hj⟩
        have := (key i h0 h1).1 hj
        rw [m1] at this; omega
  · rw [if_neg hc]
    have hfull : ¬ y = x := fun h => hc (Or.inl h)
    have hκ : ¬ k % L = 0 := fun h => hc (Or.inr h)
    by_cases hA : x + k % L < L
    · rw [if_pos hA, mem_two]
      dsimp only
      have m1 : (x + k) % L = x + k % L := mod_of_shift _ q L (x + k % L) (by omega) (by omega) hA
      constructor
      · intro h; exact ⟨by omega, by omega, (key i (by omega) (by omega)).2 (by rw [m1]; omega)⟩
      · rintro ⟨h0, h1, hj⟩
        have := (key i h0 h1).1 hj
        rw [m1] at this; omega
    · rw [if_neg hA]
      have m1 : (x + k) % L = x + k % L - L := mod_of_shift _ (q + 1) L (x + k % L - L) (by rw [Int.add_mul]; omega) (by omega) (by omega)
      by_cases hB : y + k % L - 1 < L
      · rw [if_pos hB, mem_simple]
        dsimp only
        constructor
        · intro h; exact ⟨by omega, by omega, (key i (by omega) (by omega)).2 (by rw [m1]; omega)⟩
        · rintro ⟨h0, h1, hj⟩
          have := (key i h0 h1).1 hj
          rw [m1] at this; omega
      · rw [if_neg hB, mem_two]
        dsimp only
        constructor
        · intro h; exact ⟨by omega, by omega, (key i (by omega) (by omega)).2 (by rw [m1]; omega)⟩
        · rintro ⟨h0, h1, hj⟩
          have := (key i h0 h1).1 hj
          rw [m1] at this; omega


end ASV
