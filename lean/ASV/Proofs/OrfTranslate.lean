/-
  C15 helper lemmas: the translation given to the feature created for an ORF over unambiguous DNA
  is the protein the ORF encodes: a leading M, then one residue per codon up to (excluding) the stop.
-/
import ASV.Proofs.OrfScan
namespace ASV.Orf
open ASV

/-- what the proofs need to know about a codon table (checked by `decide` on the regenerated ones) -/
structure TableOk (tbl : List (Seq × Char)) (stops : List Seq) : Prop where
  total : ∀ a ∈ acgt, ∀ b ∈ acgt, ∀ c ∈ acgt, (lookupAa tbl [a, b, c]).isSome = true ∨ [a, b, c] ∈ stops
  stopsOut : ∀ c ∈ stops, lookupAa tbl c = none
  stopsDoc : ∀ c ∈ stops, c ∈ docStopCodons
  docStops : ∀ c ∈ docStopCodons, c ∈ stops
  valid : ∀ p ∈ tbl, ['*', 'B', 'J', 'O', 'U', 'Z'].contains p.2 = false

theorem table11_ok : TableOk Gen.forwardTable11 Gen.stopCodons11 :=
  ⟨by decide, by decide, by decide, by decide, by decide⟩
theorem table1_ok : TableOk Gen.forwardTable1 Gen.stopCodons1 :=
  ⟨by decide, by decide, by decide, by decide, by decide⟩

theorem acgt_upper : ∀ c ∈ acgt, c.toUpper = c := by decide
theorem acgt_not_gap : ∀ c ∈ acgt, (c != '-') = true := by decide

theorem lookupAa_mem (tbl : List (Seq × Char)) (c : Seq) (aa : Char) (h : lookupAa tbl c = some aa) :
    (c, aa) ∈ tbl := by
  unfold lookupAa at h
  cases hf : tbl.find? (fun p => p.1 == c) with
  | none => rw [hf] at h; simp at h
  | some p =>
    rw [hf] at h
    have hp := List.find?_some hf
    have hm := List.mem_of_find?_eq_some hf
    simp only [Option.map_some, Option.some.injEq] at h
    simp only [beq_iff_eq] at hp
    rw [← hp, ← h]; exact hm

/-- codons that are all in the table, then a stop: translation to the stop is the residues of the first ones -/
theorem translateCodons_prefix (tbl : List (Seq × Char)) (stops : List Seq) (stop : Seq) (rest : List Seq)
    (hstop : stop ∈ stops) (hout : lookupAa tbl stop = none) :
    ∀ (pre : List Seq), (∀ c ∈ pre, (lookupAa tbl c).isSome = true) →
      translateCodons tbl stops true (pre ++ stop :: rest) = some (pre.map fun c => (lookupAa tbl c).getD 'X') := by
  intro pre
  induction pre with
  | nil =>
    intro _
    simp only [List.nil_append, translateCodons, hout, List.contains_eq_mem, hstop, decide_true, if_true, List.map_nil]
  | cons c cs ih =>
    intro h
    have hc := h c List.mem_cons_self
    obtain ⟨aa, haa⟩ := Option.isSome_iff_exists.1 hc
    simp only [List.cons_append, translateCodons, haa, ih (fun x hx => h x (List.mem_cons_of_mem _ hx)),
      Option.map_some, List.map_cons, Option.getD_some]

theorem codonAt_length (w : Seq) (i : Nat) (h : i + 3 ≤ w.length) : (codonAt w i).length = 3 := by
  simp only [codonAt, List.length_take, List.length_drop]; omega

/-- the codons of the ORF's own nucleotides are the window's codons from `s` on -/
theorem codonAt_orfSeq (w : Seq) (s e i : Nat) (h : 3 * i + 3 ≤ e + 3 - s) :
    codonAt (orfSeq w s e) (3 * i) = codonAt w (s + 3 * i) := by
  unfold codonAt orfSeq
  rw [List.drop_take, List.take_take, List.drop_drop]
  congr 1
  omega

theorem orfSeq_length (w : Seq) (s e : Nat) (h : e + 3 ≤ w.length) : (orfSeq w s e).length = e + 3 - s := by
  simp only [orfSeq, List.length_take, List.length_drop]; omega

theorem codonAt_subset_orfSeq (w : Seq) (s e i : Nat) (h : 3 * i + 3 ≤ e + 3 - s) :
    ∀ c ∈ codonAt w (s + 3 * i), c ∈ orfSeq w s e := by
  intro c hc
  rw [← codonAt_orfSeq w s e i h] at hc
  unfold codonAt at hc
  exact List.mem_of_mem_drop (List.mem_of_mem_take hc)

/-- an in-frame codon of an ORF over ACGT that is not a stop codon has a residue -/
theorem lookup_of_acgt (tbl : List (Seq × Char)) (stops : List Seq) (hok : TableOk tbl stops) (codon : Seq)
    (hlen : codon.length = 3) (hacgt : ∀ c ∈ codon, c ∈ acgt) (hns : isStopDoc codon = false) :
    (lookupAa tbl codon).isSome = true := by
  match codon, hlen with
  | [a, b, c], _ =>
    rcases hok.total a (hacgt a (by simp)) b (hacgt b (by simp)) c (hacgt c (by simp)) with h | h
    · exact h
    · have := hok.stopsDoc _ h
      simp only [isStopDoc, List.contains_eq_mem, decide_eq_false_iff_not] at hns
      exact absurd this hns

theorem replaceInvalid_id (tbl : List (Seq × Char)) (stops : List Seq) (hok : TableOk tbl stops) (cs : List Seq)
    (h : ∀ c ∈ cs, (lookupAa tbl c).isSome = true) :
    replaceInvalid (cs.map fun c => (lookupAa tbl c).getD 'X') = cs.map fun c => (lookupAa tbl c).getD 'X' := by
  unfold replaceInvalid
  rw [List.map_map]
  apply List.map_congr_left
  intro c hc
  obtain ⟨aa, haa⟩ := Option.isSome_iff_exists.1 (h c hc)
  have := hok.valid _ (lookupAa_mem tbl c aa haa)
  simp only [Function.comp, haa, Option.getD_some]
  simp only at this
  rw [this]; rfl

/-- the feature created for an ORF over upper-case ACGT carries the protein the ORF encodes -/
theorem featureTranslation_orf (tbl : List (Seq × Char)) (stops : List Seq) (hok : TableOk tbl stops)
    (w : Seq) (s e : Nat) (horf : IsOrf w s e) (hacgt : ∀ c ∈ orfSeq w s e, c ∈ acgt) :
    featureTranslation tbl stops (orfSeq w s e) = some (specProtein tbl w s e) := by
  have hframe := horf.frame
  have hlt := horf.lt
  have hin := horf.inside
  obtain ⟨k, hk⟩ : ∃ k, e = s + 3 * (k + 1) := ⟨(e - s) / 3 - 1, by omega⟩
  subst hk
  have hlen := orfSeq_length w s (s + 3 * (k + 1)) hin
  -- no gaps, already upper case
  have hfilter : (orfSeq w s (s + 3 * (k + 1))).filter (· != '-') = orfSeq w s (s + 3 * (k + 1)) :=
    List.filter_eq_self.2 fun c hc => acgt_not_gap c (hacgt c hc)
  have hupper : upper (orfSeq w s (s + 3 * (k + 1))) = orfSeq w s (s + 3 * (k + 1)) := by
    unfold upper
    conv => rhs; rw [← List.map_id (orfSeq w s (s + 3 * (k + 1)))]
    apply List.map_congr_left
    intro c hc
    exact acgt_upper c (hacgt c hc)
  -- the codons: k + 1 residue codons, then the stop
  have hcodons : codonsOf (orfSeq w s (s + 3 * (k + 1))) =
      ((List.range (k + 1)).map fun i => codonAt w (s + 3 * i)) ++ [codonAt w (s + 3 * (k + 1))] := by
    unfold codonsOf
    rw [hlen, show (s + 3 * (k + 1) + 3 - s) / 3 = k + 1 + 1 by omega, List.range_succ, List.map_append,
      List.map_singleton, codonAt_orfSeq w s _ (k + 1) (by omega)]
    congr 1
    apply List.map_congr_left
    intro i hi
    rw [List.mem_range] at hi
    exact codonAt_orfSeq w s _ i (by omega)
  have hpre : ∀ c ∈ (List.range (k + 1)).map (fun i => codonAt w (s + 3 * i)), (lookupAa tbl c).isSome = true := by
    intro c hc
    obtain ⟨i, hi, rfl⟩ := List.mem_map.1 hc
    rw [List.mem_range] at hi
    apply lookup_of_acgt tbl stops hok _ (codonAt_length w _ (by omega))
      (fun x hx => hacgt x (codonAt_subset_orfSeq w s _ i (by omega) x hx))
    by_cases h0 : i = 0
    · subst h0
      cases hsd : isStopDoc (codonAt w (s + 3 * 0)) with
      | false => rfl
      | true =>
        have hs0 : isStartDoc (codonAt w (s + 3 * 0)) = true := by simpa [StartAt] using horf.start
        exact (not_start_and_stop _ hs0 hsd).elim
    · cases hsd : isStopDoc (codonAt w (s + 3 * i)) with
      | false => rfl
      | true => exact (horf.noStop (s + 3 * i) (by omega) (by omega) (by omega) hsd).elim
  have hstop : codonAt w (s + 3 * (k + 1)) ∈ stops := by
    apply hok.docStops
    have := horf.stop
    simpa [StopAt, isStopDoc] using this
  have htrans := translateCodons_prefix tbl stops _ [] hstop (hok.stopsOut _ hstop) _ hpre
  unfold featureTranslation aaTranslation
  simp only [hfilter]
  unfold bioTranslate
  rw [hupper, hcodons, htrans]
  rw [List.range_succ_eq_map, List.map_cons, List.map_cons]
  simp only
  rw [show (replaceInvalid ((lookupAa tbl (codonAt w (s + 3 * 0))).getD 'X' ::
        List.map (fun c => (lookupAa tbl c).getD 'X')
          (List.map (fun i => codonAt w (s + 3 * i)) (List.map Nat.succ (List.range k)))))
      = (lookupAa tbl (codonAt w (s + 3 * 0))).getD 'X' ::
        List.map (fun c => (lookupAa tbl c).getD 'X')
          (List.map (fun i => codonAt w (s + 3 * i)) (List.map Nat.succ (List.range k))) by
    have := replaceInvalid_id tbl stops hok _ hpre
    rw [List.range_succ_eq_map, List.map_cons, List.map_cons] at this
    exact this]
  simp only
  unfold specProtein
  rw [show (s + 3 * (k + 1) - s) / 3 - 1 = k by omega]
  have hrest : List.map (fun c => (lookupAa tbl c).getD 'X')
      (List.map (fun i => codonAt w (s + 3 * i)) (List.map Nat.succ (List.range k)))
      = (List.range k).map fun i => (lookupAa tbl (codonAt w (s + 3 * (i + 1)))).getD 'X' := by
    simp only [List.map_map]; rfl
  rw [hrest]
  split
  · rfl
  · rename_i hM
    simp only [bne_iff_ne, ne_eq, Decidable.not_not] at hM
    rw [hM]

end ASV.Orf
