/-
  Helper lemmas for C12 (region extraction): `mapE`, the restore loop, the extract's sequence.
-/
import ASV.Spec.RegionExtract
import ASV.Proofs.Loc
set_option linter.unusedSimpArgs false
namespace ASV.RegionExtract
open ASV

/-! ### `mapE` -/

theorem mapE_nil {α β} (f : α → E β) : mapE f [] = .ok [] := rfl

theorem mapE_cons_ok {α β} (f : α → E β) (a : α) (as : List α) (r : List β) :
    mapE f (a :: as) = .ok r ↔ ∃ b bs, f a = .ok b ∧ mapE f as = .ok bs ∧ r = b :: bs := by
  simp only [mapE]
  cases hfa : f a with
  | error e => simp
  | ok b =>
    cases hm : mapE f as with
    | error e => simp
    | ok bs =>
      simp only [Except.ok.injEq]
      constructor
      · intro h; exact ⟨b, bs, rfl, rfl, h.symm⟩
      · rintro ⟨b', bs', hb, hbs, hr⟩
        cases hb; cases hbs; exact hr.symm

theorem mapE_length {α β} (f : α → E β) (l : List α) (r : List β) (h : mapE f l = .ok r) : r.length = l.length := by
  induction l generalizing r with
  | nil => simp [mapE] at h; subst h; rfl
  | cons a as ih =>
    obtain ⟨b, bs, _, hbs, rfl⟩ := (mapE_cons_ok f a as r).1 h
    simp [ih bs hbs]

theorem mapE_mem {α β} (f : α → E β) (l : List α) (r : List β) (h : mapE f l = .ok r) (b : β) (hb : b ∈ r) :
    ∃ a ∈ l, f a = .ok b := by
  induction l generalizing r with
  | nil => simp [mapE] at h; subst h; simp at hb
  | cons a as ih =>
    obtain ⟨b', bs, hb', hbs, rfl⟩ := (mapE_cons_ok f a as r).1 h
    rcases List.mem_cons.1 hb with rfl | hb
    · exact ⟨a, by simp, hb'⟩
    · obtain ⟨a', ha', h'⟩ := ih bs hbs hb
      exact ⟨a', by simp [ha'], h'⟩

theorem mapE_mem_src {α β} (f : α → E β) (l : List α) (r : List β) (h : mapE f l = .ok r) (a : α) (ha : a ∈ l) :
    ∃ b ∈ r, f a = .ok b := by
  induction l generalizing r with
  | nil => simp at ha
  | cons a' as ih =>
    obtain ⟨b', bs, hb', hbs, rfl⟩ := (mapE_cons_ok f a' as r).1 h
    rcases List.mem_cons.1 ha with rfl | ha
    · exact ⟨b', by simp, hb'⟩
    · obtain ⟨b, hb, h'⟩ := ih bs hbs ha
      exact ⟨b, by simp [hb], h'⟩

/-- a property every successful call establishes holds across the mapped lists -/
theorem mapE_map_eq {α β γ} (f : α → E β) (ga : α → γ) (gb : β → γ)
    (hf : ∀ a b, f a = .ok b → gb b = ga a) (l : List α) (r : List β) (h : mapE f l = .ok r) :
    r.map gb = l.map ga := by
  induction l generalizing r with
  | nil => simp [mapE] at h; subst h; rfl
  | cons a as ih =>
    obtain ⟨b, bs, hb, hbs, rfl⟩ := (mapE_cons_ok f a as r).1 h
    simp [hf a b hb, ih bs hbs]

/-! ### the parent record is restored -/

theorem crossStep_type (rd : RegionData) (L n : Int) (f p : BioFeature) (o : Option BioFeature)
    (h : crossStep rd L n f = .ok (p, o)) : p.type = f.type := by
  unfold crossStep at h
  split at h
  · split at h
    · cases h
    · split at h <;> (injection h with h; injection h with h1 h2; subst h1; rfl)
  · injection h with h; injection h with h1 h2; subst h1; rfl

theorem gather_types (rd : RegionData) (L n : Int) (fs parent : List BioFeature) (ws : List Working)
    (h : gatherCrossOrigin rd L n fs = .ok (parent, ws)) : parent.map (·.type) = fs.map (·.type) := by
  unfold gatherCrossOrigin at h
  split at h
  · cases h
  · rename_i steps hs
    injection h with h; injection h with h1 h2; subst h1
    rw [List.map_map]
    exact mapE_map_eq _ (·.type) (fun s => s.1.type) (fun a b hb => crossStep_type rd L n a b.1 b.2 hb) fs steps hs

theorem modifyAt_types (g : BioFeature → BioFeature) (hg : ∀ f, (g f).type = f.type) :
    ∀ (l : List BioFeature) (i : Nat), (modifyAt l i g).map (·.type) = l.map (·.type)
  | [], _ => rfl
  | x :: xs, 0 => by simp [modifyAt, hg]
  | x :: xs, i + 1 => by simp [modifyAt, modifyAt_types g hg xs i]

theorem applyAliases_types : ∀ (ws : List Working) (parent : List BioFeature),
    (applyAliases parent ws).map (·.type) = parent.map (·.type)
  | [], _ => rfl
  | w :: ws, parent => by
    unfold applyAliases
    split
    · rename_i i _
      rw [applyAliases_types ws]
      exact modifyAt_types (fun f => { f with loc := w.f.loc, q := w.f.q, tag := w.f.tag }) (fun _ => rfl) parent i
    · exact applyAliases_types ws parent

theorem restore_eq : ∀ (fs orig : List BioFeature), fs.map (·.type) = orig.map (·.type) →
    restore fs (orig.map fun f => (f.loc, f.q, f.tag)) = orig
  | [], [], _ => rfl
  | [], _ :: _, h => by simp at h
  | _ :: _, [], h => by simp at h
  | f :: fs, o :: os, h => by
    simp only [List.map_cons, List.cons.injEq] at h
    simp only [List.map_cons, restore, restore_eq fs os h.2, List.cons.injEq, and_true]
    cases f; cases o; simp_all

theorem buildBase_types (rd : RegionData) (rec : BioRecord) (seq : List Char) (ws : List Working)
    (parent : List BioFeature) (h : buildBaseRecord rd rec = .ok (seq, ws, parent)) :
    parent.map (·.type) = rec.features.map (·.type) := by
  unfold buildBaseRecord at h
  split at h
  · unfold buildRecordFromCrossOrigin at h
    simp only [bind, Except.bind, pure, Except.pure] at h
    split at h
    · cases h
    · split at h
      · cases h
      · split at h
        · cases h
        · rename_i _ _ _ _ pw hg
          injection h with h; injection h with h1 h2; injection h2 with h2 h3; subst h3
          exact gather_types rd _ _ _ _ _ hg
  · injection h with h; injection h with h1 h2; injection h2 with h2 h3; subst h3; rfl

/-- the restore loop gives every feature of the full record its location and qualifiers back -/
theorem writeToGenbank_parent (rd : RegionData) (rec : BioRecord) (w : Written)
    (h : writeToGenbank rd rec = .ok w) : w.parentAfter = rec.features := by
  unfold writeToGenbank at h
  simp only [bind, Except.bind, pure, Except.pure] at h
  split at h
  · cases h
  · rename_i v hb
    obtain ⟨seq, ws, parent1⟩ := v
    simp only at h
    split at h
    · cases h
    · injection h with h; subst h
      simp only
      apply restore_eq
      rw [applyAliases_types]
      exact buildBase_types rd rec seq ws parent1 hb

/-! ### the sequence of the region file -/

theorem take_drop_range (seq : List Char) (s e : Nat) (hse : s ≤ e) (he : e ≤ seq.length) :
    (seq.take e).drop s = (List.range (e - s)).map (fun j => seq.getD (s + j) 'N') := by
  apply List.ext_getElem?
  intro j
  simp only [List.getElem?_drop, List.getElem?_take, List.getElem?_map]
  by_cases hj : j < e - s
  · have h1 : s + j < e := by omega
    have h2 : s + j < seq.length := by omega
    simp [hj, h1, List.getD, List.getElem?_eq_getElem h2]
  · have h1 : ¬ s + j < e := by omega
    simp [hj, h1]

/-- a region that does not run over the origin: the file's sequence is nucleotide by nucleotide the
    record's, read from the region's start -/
theorem sliceSeq_plain_spec (seq : List Char) (rd : RegionData) (h0 : 0 ≤ rd.start) (h1 : rd.start < rd.end)
    (h2 : rd.end ≤ seq.length) :
    sliceSeq seq rd.start rd.end = expectedSeq seq.length rd seq := by
  have hw : wraps rd = false := by simp [wraps]; omega
  unfold sliceSeq expectedSeq intRange
  simp only [regionLen, toRecord, hw, Bool.false_eq_true, if_false]
  rw [take_drop_range seq rd.start.toNat rd.end.toNat (by omega) (by omega), List.map_map]
  have : (rd.end - rd.start).toNat = rd.end.toNat - rd.start.toNat := by omega
  rw [this]
  apply List.map_congr_left
  intro j _
  simp only [Function.comp, Int.ofNat_eq_natCast]
  congr 1
  omega

theorem sliceSeq_wrap_spec (seq : List Char) (rd : RegionData) (h0 : 0 < rd.end) (h1 : rd.end ≤ rd.start)
    (h2 : rd.start < seq.length) :
    sliceSeq seq rd.start seq.length ++ sliceSeq seq 0 rd.end = expectedSeq seq.length rd seq := by
  have hw : wraps rd = true := by simp [wraps]; omega
  unfold sliceSeq expectedSeq intRange
  simp only [regionLen, toRecord, hw, if_true]
  rw [take_drop_range seq rd.start.toNat (Int.toNat (seq.length : Int)) (by omega) (by omega),
    take_drop_range seq (Int.toNat 0) rd.end.toNat (by omega) (by omega), List.map_map]
  have hlen : ((seq.length : Int) - rd.start + rd.end).toNat = ((Int.toNat (seq.length : Int)) - rd.start.toNat) + (rd.end.toNat - Int.toNat 0) := by omega
  rw [hlen, List.range_add, List.map_append, List.map_map]
  congr 1
  · apply List.map_congr_left
    intro j hj
    simp only [Function.comp, List.mem_range, Int.ofNat_eq_natCast] at hj ⊢
    congr 1
    have : (rd.start + (j : Int)) % (seq.length : Int) = rd.start + j := Int.emod_eq_of_lt (by omega) (by omega)
    rw [this]
    omega
  · apply List.map_congr_left
    intro k hk
    simp only [Function.comp, List.mem_range, Int.ofNat_eq_natCast] at hk ⊢
    congr 1
    have e1 : rd.start + ((Int.toNat (seq.length : Int) - rd.start.toNat + k : Nat) : Int) = (k : Int) + 1 * (seq.length : Int) := by omega
    rw [e1, Int.add_mul_emod_self_right, Int.emod_eq_of_lt (by omega) (by omega)]
    omega

/-- what `write_to_genbank` writes as sequence -/
theorem writeToGenbank_seq (rd : RegionData) (rec : BioRecord) (w : Written)
    (h : writeToGenbank rd rec = .ok w) :
    w.extract.seq = if rd.crossesOrigin then sliceSeq rec.seq rd.start rec.length ++ sliceSeq rec.seq 0 rd.end
                    else sliceSeq rec.seq rd.start rd.end := by
  unfold writeToGenbank at h
  simp only [bind, Except.bind, pure, Except.pure] at h
  split at h
  · cases h
  · rename_i v hb
    obtain ⟨seq, ws, parent1⟩ := v
    simp only at h
    split at h
    · cases h
    · injection h with h; subst h
      simp only
      unfold buildBaseRecord at hb
      split at hb
      · rename_i hc
        simp only [hc, if_true]
        unfold buildRecordFromCrossOrigin at hb
        simp only [bind, Except.bind, pure, Except.pure] at hb
        split at hb
        · cases hb
        · split at hb
          · cases hb
          · split at hb
            · cases hb
            · injection hb with hb; injection hb with h1 h2; exact h1.symm
      · rename_i hc
        simp only [hc]
        injection hb with hb; injection hb with h1 h2; exact h1.symm

end ASV.RegionExtract
