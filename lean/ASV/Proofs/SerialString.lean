/-
  The textual form of a location (`str(location)`, as stored in `core_location` qualifiers and in the
  results JSON) is read back by `location_from_string` as the same location (C10).
  The character-level proof lives in the shared `ASV/Proofs/LocString.lean` (C04 `string_roundtrip`);
  this file only lifts it from `List Char` to `String`.
-/
import ASV.Proofs.LocString
namespace ASV
open ASV

theorem locFromString_locToString (l : Loc) (h : l.parts ≠ []) : locFromString (locToString l) = some l := by
  unfold locFromString locToString
  rw [String.toList_ofList]
  exact locFromChars_locChars l h

end ASV
