/-
  The textual form of a location (`str(location)`, as stored in `core_location` qualifiers and in the
  results JSON) is read back by `location_from_string` as the same location — character level (C10).
-/
import ASV.Model.LocString
namespace ASV
open ASV

/-! ### characters -/

theorem digit_ne {c : Char} (h : c.isDigit = true) :
    c ≠ '-' ∧ c ≠ ':' ∧ c ≠ ']' ∧ c ≠ '(' ∧ c ≠ '{' ∧ c ≠ ',' ∧ c ≠ '+' ∧ c ≠ '?' ∧ c ≠ ')' ∧ c ≠ '[' := by
  refine ⟨?_, ?_, ?_, ?_, ?_, ?_, ?_, ?_, ?_, ?_⟩ <;> (intro e; subst e; revert h; decide)

theorem natChars_digit {n : Nat} {c : Char} (h : c ∈ natChars n) : c.isDigit = true :=
  Nat.isDigit_of_mem_toDigits (by decide) (by decide) h

theorem natChars_ne_nil (n : Nat) : natChars n ≠ [] := Nat.toDigits_ne_nil

theorem natChars_all_digit (n : Nat) : (natChars n).all Char.isDigit = true := by
  rw [List.all_eq_true]; intro c hc; exact natChars_digit hc

/-- every character of a printed integer is a digit or the minus sign -/
theorem intChars_mem {i : Int} {c : Char} (h : c ∈ intChars i) : c = '-' ∨ c.isDigit = true := by
  unfold intChars at h
  split at h
  · rcases List.mem_cons.1 h with h | h
    · exact Or.inl h
    · exact Or.inr (natChars_digit h)
  · exact Or.inr (natChars_digit h)

theorem intChars_ne_nil (i : Int) : intChars i ≠ [] := by
  unfold intChars; split
  · simp
  · exact natChars_ne_nil _

/-- the last character of a printed integer is a digit -/
theorem intChars_getLast_digit (i : Int) : ((intChars i).getLast (intChars_ne_nil i)).isDigit = true := by
  have key : ∀ n, ∀ h : natChars n ≠ [], ((natChars n).getLast h).isDigit = true :=
    fun n h => natChars_digit (List.getLast_mem h)
  unfold intChars
  split
  · rw [List.getLast_cons (natChars_ne_nil _)]; exact key _ _
  · exact key _ _

/-! ### `int(str(i)) = i` -/

theorem parseInt_natChars (n : Nat) : parseInt (natChars n) = some (n : Int) := by
  have hne := natChars_ne_nil n
  have hall := natChars_all_digit n
  have hval : Nat.ofDigitChars 10 (natChars n) 0 = n := Nat.ofDigitChars_ten_toDigits
  cases hds : natChars n with
  | nil => exact absurd hds hne
  | cons d rest =>
    have hd : d.isDigit = true := natChars_digit (by rw [hds]; simp)
    have hd' : d ≠ '-' := (digit_ne hd).1
    rw [hds] at hall hval
    unfold parseInt
    split
    · rename_i heq; cases heq
    · rename_i ds heq
      have : d = '-' := by injection heq with h1 _
      exact absurd this hd'
    · rename_i ds h1 h2
      simp only [hall, if_true, hval]

theorem parseInt_intChars (i : Int) : parseInt (intChars i) = some i := by
  unfold intChars
  split
  · rename_i hneg
    have hne := natChars_ne_nil i.natAbs
    have hall := natChars_all_digit i.natAbs
    have hval : Nat.ofDigitChars 10 (natChars i.natAbs) 0 = i.natAbs := Nat.ofDigitChars_ten_toDigits
    unfold parseInt
    have hemp : (natChars i.natAbs).isEmpty = false := by
      cases h : natChars i.natAbs with
      | nil => exact absurd h hne
      | cons _ _ => rfl
    simp only [hemp, hall, hval, Bool.not_false, Bool.and_self, if_true]
    congr 1; omega
  · rename_i hpos
    rw [parseInt_natChars]; congr 1; omega

/-! ### splitting -/

theorem splitFirst_append (c : Char) (a b : List Char) (h : c ∉ a) : splitFirst c (a ++ c :: b) = some (a, b) := by
  induction a with
  | nil => simp [splitFirst]
  | cons x a ih =>
    have hx : x ≠ c := fun e => h (by simp [e])
    have ha : c ∉ a := fun m => h (List.mem_cons_of_mem _ m)
    simp [splitFirst, hx, ih ha]

/-! ### one part -/

theorem strandChars_mem {s : Strand} {c : Char} (h : c ∈ strandChars s) : c = '(' ∨ c = '+' ∨ c = '-' ∨ c = '?' ∨ c = ')' := by
  cases s with
  | fwd => simp [strandChars] at h; rcases h with h | h | h <;> simp [h]
  | rev => simp [strandChars] at h; rcases h with h | h | h <;> simp [h]
  | zero => simp [strandChars] at h; rcases h with h | h | h <;> simp [h]
  | none => simp [strandChars] at h

/-- every character of a printed part -/
theorem partChars_mem {p : Part} {c : Char} (h : c ∈ partChars p) :
    c.isDigit = true ∨ c = '[' ∨ c = ':' ∨ c = ']' ∨ c = '(' ∨ c = '+' ∨ c = '-' ∨ c = '?' ∨ c = ')' := by
  unfold partChars at h
  simp only [List.mem_cons, List.mem_append, or_assoc] at h
  rcases h with h | h | h | h | h | h
  · simp [h]
  · rcases intChars_mem h with h | h <;> simp [h]
  · simp [h]
  · rcases intChars_mem h with h | h <;> simp [h]
  · simp [h]
  · rcases strandChars_mem h with h | h | h | h | h <;> simp [h]

theorem partChars_no_comma (p : Part) : ',' ∉ partChars p := by
  intro h
  rcases partChars_mem h with h | h | h | h | h | h | h | h | h
  · exact absurd h (by decide)
  all_goals exact absurd h (by decide)

theorem partChars_no_brace (p : Part) : '{' ∉ partChars p := by
  intro h
  rcases partChars_mem h with h | h | h | h | h | h | h | h | h
  · exact absurd h (by decide)
  all_goals exact absurd h (by decide)

theorem colon_not_in_int (i : Int) : ':' ∉ intChars i := by
  intro h; rcases intChars_mem h with h | h
  · exact absurd h (by decide)
  · exact absurd h (by decide)

theorem bracket_not_in_int (i : Int) : ']' ∉ intChars i := by
  intro h; rcases intChars_mem h with h | h
  · exact absurd h (by decide)
  · exact absurd h (by decide)

theorem paren_not_in_int (i : Int) : '(' ∉ intChars i := by
  intro h; rcases intChars_mem h with h | h
  · exact absurd h (by decide)
  · exact absurd h (by decide)

/-- the character before the last one of `X ++ [a, b, c]` is `b` -/
theorem second_last3 (x : List Char) (a b c : Char) : ((x ++ [a, b, c]).reverse.drop 1).head? = some b := by
  simp

/-- the character before the closing bracket is the last digit of the end coordinate -/
theorem second_last_none (x y : List Char) (hy : y ≠ []) :
    ((x ++ y ++ [']']).reverse.drop 1).head? = some (y.getLast hy) := by
  simp only [List.reverse_append, List.reverse_cons, List.reverse_nil, List.nil_append, List.singleton_append,
    List.drop_succ_cons, List.drop_zero]
  cases hr : y.reverse with
  | nil => exact absurd (List.reverse_eq_nil_iff.1 hr) hy
  | cons z zs =>
    have : y.getLast hy = z := by
      have := List.getLast_eq_head_reverse (l := y) hy
      rw [this]; simp [hr]
    simp [this]

theorem parseSingle_partChars (p : Part) : parseSingle (partChars p) = some p := by
  obtain ⟨lo, hi, s⟩ := p
  have h1 : splitFirst ':' (partChars ⟨lo, hi, s⟩) = some ('[' :: intChars lo, intChars hi ++ ']' :: strandChars s) := by
    have : partChars ⟨lo, hi, s⟩ = ('[' :: intChars lo) ++ ':' :: (intChars hi ++ ']' :: strandChars s) := by
      simp [partChars]
    rw [this]
    apply splitFirst_append
    intro h
    rcases List.mem_cons.1 h with h | h
    · exact absurd h (by decide)
    · exact colon_not_in_int lo h
  have h2 : splitFirst ']' (intChars hi ++ ']' :: strandChars s) = some (intChars hi, strandChars s) :=
    splitFirst_append _ _ _ (bracket_not_in_int hi)
  unfold parseSingle
  simp only [h1, h2, Option.bind_some, List.drop_succ_cons, List.drop_zero, parseInt_intChars,
    bind, pure]
  cases s with
  | fwd =>
    have : partChars ⟨lo, hi, .fwd⟩ = ('[' :: intChars lo ++ ':' :: intChars hi ++ [']']) ++ ['(', '+', ')'] := by
      simp [partChars, strandChars]
    rw [this, second_last3]; rfl
  | rev =>
    have : partChars ⟨lo, hi, .rev⟩ = ('[' :: intChars lo ++ ':' :: intChars hi ++ [']']) ++ ['(', '-', ')'] := by
      simp [partChars, strandChars]
    rw [this, second_last3]; rfl
  | zero =>
    have : partChars ⟨lo, hi, .zero⟩ = ('[' :: intChars lo ++ ':' :: intChars hi ++ [']']) ++ ['(', '?', ')'] := by
      simp [partChars, strandChars]
    rw [this, second_last3]; rfl
  | none =>
    have hform : partChars ⟨lo, hi, .none⟩ = ('[' :: intChars lo ++ [':']) ++ intChars hi ++ [']'] := by
      simp [partChars, strandChars]
    have hsl := second_last_none ('[' :: intChars lo ++ [':']) (intChars hi) (intChars_ne_nil hi)
    have hd := intChars_getLast_digit hi
    obtain ⟨n1, n2, n3, n4, n5, n6, n7, n8, n9, n10⟩ := digit_ne hd
    have hnp : (('[' :: intChars lo ++ [':']) ++ intChars hi ++ [']']).contains '(' = false := by
      rw [List.contains_eq_mem]
      apply decide_eq_false
      intro hm
      rcases List.mem_append.1 hm with hm | hm
      · rcases List.mem_append.1 hm with hm | hm
        · rcases List.mem_cons.1 hm with hm | hm
          · exact absurd hm (by decide)
          · rcases List.mem_append.1 hm with hm | hm
            · exact paren_not_in_int lo hm
            · simp at hm
        · exact paren_not_in_int hi hm
      · simp at hm
    rw [hform]
    rw [hsl]
    split
    · rename_i heq; injection heq with heq; exact absurd heq n1
    · rename_i heq; injection heq with heq; exact absurd heq n7
    · rename_i heq; injection heq with heq; exact absurd heq n8
    · rw [hnp]; simp

/-! ### several parts -/

theorem splitCommaSpace_skip (x acc rest : List Char) (h : ',' ∉ x) :
    splitCommaSpace acc (x ++ rest) = splitCommaSpace (x.reverse ++ acc) rest := by
  induction x generalizing acc with
  | nil => simp
  | cons c x ih =>
    have hc : c ≠ ',' := fun e => h (by simp [e])
    have hx : ',' ∉ x := fun m => h (List.mem_cons_of_mem _ m)
    have step : splitCommaSpace acc (c :: (x ++ rest)) = splitCommaSpace (c :: acc) (x ++ rest) := by
      rw [splitCommaSpace.eq_def]
      split
      · rename_i heq; cases heq
      · rename_i heq; injection heq with h1 _; exact absurd h1 hc
      · rename_i heq; injection heq with h1 h2; subst h1; subst h2; rfl
    rw [List.cons_append, step, ih _ hx]
    simp

theorem splitCommaSpace_join (x : List Char) (xs : List (List Char)) (acc : List Char)
    (h : ∀ y ∈ x :: xs, ',' ∉ y) :
    splitCommaSpace acc (joinParts (x :: xs)) = (acc.reverse ++ x) :: xs := by
  induction xs generalizing x acc with
  | nil =>
    have := splitCommaSpace_skip x acc [] (h x (by simp))
    simp only [List.append_nil] at this
    simp [joinParts, this, splitCommaSpace]
  | cons y ys ih =>
    have hx := h x (by simp)
    have hrest : ∀ z ∈ y :: ys, ',' ∉ z := fun z hz => h z (List.mem_cons_of_mem _ hz)
    have : joinParts (x :: y :: ys) = x ++ (',' :: ' ' :: joinParts (y :: ys)) := by simp [joinParts]
    rw [this, splitCommaSpace_skip _ _ _ hx]
    rw [splitCommaSpace.eq_def]
    simp only [List.reverse_append, List.reverse_reverse]
    rw [ih y [] hrest]
    simp

theorem mapM_parseSingle (ps : List Part) : (ps.map partChars).mapM parseSingle = some ps := by
  induction ps with
  | nil => rfl
  | cons p ps ih => simp [List.mapM_cons, parseSingle_partChars, ih]

/-- `location_from_string(str(location)) == location` for every location with at least one part -/
theorem locFromChars_locChars (l : Loc) (h : l.parts ≠ []) : locFromChars (locChars l) = some l := by
  cases l with
  | simple p =>
    have hb : (partChars p).contains '{' = false := by
      rw [List.contains_eq_mem]; exact decide_eq_false (partChars_no_brace p)
    simp [locFromChars, locChars, parseSingle_partChars]
    intro hm; exact absurd hm (partChars_no_brace p)
  | compound ps =>
    cases ps with
    | nil => exact absurd rfl h
    | cons p ps =>
      have hform : locChars (.compound (p :: ps)) = ['j', 'o', 'i', 'n'] ++ '{' :: (joinParts ((p :: ps).map partChars) ++ ['}']) := by
        simp [locChars]
      have hc : (locChars (.compound (p :: ps))).contains '{' = true := by
        rw [hform, List.contains_eq_mem]; simp
      have hdl : (locChars (.compound (p :: ps))).dropLast = ['j', 'o', 'i', 'n'] ++ '{' :: joinParts ((p :: ps).map partChars) := by
        rw [hform]
        have : ['j', 'o', 'i', 'n'] ++ '{' :: (joinParts ((p :: ps).map partChars) ++ ['}'])
            = (['j', 'o', 'i', 'n'] ++ '{' :: joinParts ((p :: ps).map partChars)) ++ ['}'] := by simp
        rw [this, List.dropLast_concat]
      have hs : splitFirst '{' (['j', 'o', 'i', 'n'] ++ '{' :: joinParts ((p :: ps).map partChars))
          = some (['j', 'o', 'i', 'n'], joinParts ((p :: ps).map partChars)) :=
        splitFirst_append _ _ _ (by decide)
      have hj : splitCommaSpace [] (joinParts ((p :: ps).map partChars)) = (p :: ps).map partChars := by
        have := splitCommaSpace_join (partChars p) (ps.map partChars) [] (by
          intro y hy
          rcases List.mem_cons.1 hy with e | hm
          · subst e; exact partChars_no_comma p
          · obtain ⟨q, _, rfl⟩ := List.mem_map.1 hm; exact partChars_no_comma q)
        simpa using this
      unfold locFromChars
      simp only [hc, Bool.not_true, Bool.false_eq_true, if_false, hdl, hs, hj, Option.bind_eq_bind, Option.bind_some,
        mapM_parseSingle, bind, pure]

theorem locFromString_locToString (l : Loc) (h : l.parts ≠ []) : locFromString (locToString l) = some l := by
  simp [locFromString, locToString, locFromChars_locChars l h]

end ASV
