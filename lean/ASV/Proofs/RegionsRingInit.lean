/-
  C06 helper lemmas, part 17: on a ring `Region(candidates, subregions)` never raises for the areas of a joined
  family: the containment check of the `parent` setter passes for every child, also of a two-part region.
-/
import ASV.Proofs.RegionsRingOrder
namespace ASV.Regions
open ASV ASV.Components

/-- a well-formed span shorter than half the record misses a base of the record -/
theorem short_span_misses {L : Int} (hL : 0 < L) (c : Loc) (hwf : areaWF L L c = true) (hlen : 2 * c.len < L) :
    ∃ i, 0 ≤ i ∧ i < L ∧ c.mem i = false := by
  unfold areaWF at hwf
  split at hwf
  · next p hp =>
    simp only [Bool.and_eq_true, decide_eq_true_eq] at hwf
    have hl : c.len = p.hi - p.lo := by simp [Loc.len, hp, Part.len]
    by_cases h0 : 0 < p.lo
    · refine ⟨0, by omega, hL, ?_⟩
      simp only [Loc.mem, hp, List.any_cons, List.any_nil, Bool.or_false]
      rw [← Bool.not_eq_true, Part.mem_iff]; omega
    · refine ⟨L - 1, by omega, by omega, ?_⟩
      simp only [Loc.mem, hp, List.any_cons, List.any_nil, Bool.or_false]
      rw [← Bool.not_eq_true, Part.mem_iff]; omega
  · next p q hp =>
    simp only [Bool.and_eq_true, decide_eq_true_eq] at hwf
    have hl : c.len = (p.hi - p.lo) + (q.hi - q.lo) := by simp [Loc.len, hp, Part.len]
    refine ⟨q.hi, by omega, by omega, ?_⟩
    simp only [Loc.mem, hp, List.any_cons, List.any_nil, Bool.or_false, Bool.or_eq_false_iff]
    constructor <;> (rw [← Bool.not_eq_true, Part.mem_iff]; omega)
  · cases hwf

/-- the check of the `parent` setter: a well-formed area whose bases all lie in a well-formed span that does not
    cover the whole record is contained in it part by part -/
theorem parent_check_passes {L : Int} {r child : Loc} (hr : RingArea L r) (hc : RingArea L child)
    (hsub : ∀ i, child.mem i = true → r.mem i = true) (hmiss : ∃ i, 0 ≤ i ∧ i < L ∧ r.mem i = false) :
    locationContainsOther r child = true := by
  obtain ⟨m, hm0, hmL, hmr⟩ := hmiss
  rcases hr with ⟨p, rfl, hp0, hp1, hp2⟩ | ⟨a, b, rfl, hb0, hba, haL⟩ <;>
    rcases hc with ⟨q, rfl, hq0, hq1, hq2⟩ | ⟨x, y, rfl, hy0, hyx, hxL⟩
  · have h1 := hsub q.lo (by rw [mem_simple]; omega)
    have h2 := hsub (q.hi - 1) (by rw [mem_simple]; omega)
    rw [mem_simple] at h1 h2
    simp only [locationContainsOther, Loc.parts, List.all_cons, List.all_nil, List.any_cons, List.any_nil, partContains,
      Bool.or_false, Bool.and_true, Bool.and_eq_true, decide_eq_true_eq]
    omega
  · have h1 := hsub 0 (by rw [mem_areaTwo]; omega)
    have h2 := hsub (L - 1) (by rw [mem_areaTwo]; omega)
    rw [mem_simple] at h1 h2
    rw [← Bool.not_eq_true, mem_simple] at hmr
    omega
  · rw [← Bool.not_eq_true, mem_areaTwo] at hmr
    have h1 := hsub q.lo (by rw [mem_simple]; omega)
    have h2 := hsub (q.hi - 1) (by rw [mem_simple]; omega)
    rw [mem_areaTwo] at h1 h2
    -- the missed base lies between the two parts, so a single part cannot straddle it
    have h3 : ¬ (q.lo ≤ m ∧ m < q.hi) := by
      intro h
      have := hsub m (by rw [mem_simple]; exact h)
      rw [mem_areaTwo] at this
      omega
    simp only [locationContainsOther, areaTwo, Loc.parts, List.all_cons, List.all_nil, List.any_cons, List.any_nil,
      partContains, Bool.or_false, Bool.and_true, Bool.and_eq_true, Bool.or_eq_true, decide_eq_true_eq]
    omega
  · rw [← Bool.not_eq_true, mem_areaTwo] at hmr
    have h1 := hsub x (by rw [mem_areaTwo]; omega)
    have h2 := hsub (y - 1) (by rw [mem_areaTwo]; omega)
    rw [mem_areaTwo] at h1 h2
    have h3 : ¬ ((x ≤ m ∧ m < L) ∨ (0 ≤ m ∧ m < y)) := by
      intro h
      have := hsub m (by rw [mem_areaTwo]; exact h)
      rw [mem_areaTwo] at this
      omega
    simp only [locationContainsOther, areaTwo, Loc.parts, List.all_cons, List.all_nil, List.any_cons, List.any_nil,
      partContains, Bool.or_false, Bool.and_true, Bool.and_eq_true, Bool.or_eq_true, decide_eq_true_eq]
    omega


theorem collectionInitCheck_ringArea {L : Int} {l : Loc} (h : RingArea L l) : collectionInitCheck l = .ok () := by
  rcases h with ⟨p, rfl, h0, h1, h2⟩ | ⟨x, y, rfl, hy0, hyx, hxL⟩
  · exact collectionInitCheck_simple p h0 (by omega)
  · have hov : partsOverlap (⟨x, L, .fwd⟩ : Part) ⟨0, y, .fwd⟩ = false := by
      rw [← Bool.not_eq_true, partsOverlap_iff _ _ (by simp only; omega) (by simp only; omega)]
      rintro ⟨i, h1, h2⟩
      rw [Part.mem_iff] at h1 h2
      simp only at h1 h2
      omega
    have hs : (areaTwo x y L .fwd).start = 0 := by
      simp only [areaTwo, Loc.start, List.map, minList, List.foldl]; omega
    have he : (areaTwo x y L .fwd).end = L := by
      simp only [areaTwo, Loc.end, List.map, maxList, List.foldl]; omega
    have hstr : (areaTwo x y L .fwd).strand = .fwd := by simp [areaTwo, Loc.strand]
    simp only [collectionInitCheck, hs, he, hstr]
    simp [areaTwo, Loc.parts, strandsUsed, hov, pure, Except.pure, bind, Except.bind]
    omega

theorem Joined.sub {all ms : List Feat} (hj : Joined all ms) : ∀ f ∈ ms, f ∈ all := by
  induction hj with
  | single a ha => intro f hf; simp at hf; subst hf; exact ha
  | join m1 m2 ms _ _ _ hms ih1 ih2 =>
    intro f hf
    rcases (hms f).1 hf with h | h
    · exact ih1 f h
    · exact ih2 f h

/-- **`Region(candidates, subregions)` never raises** for the areas of a joined family on a ring: the wrap point is
    inferred, `connect_locations` succeeds, the constructor checks pass and so does the containment check of the
    `parent` setter for every child — and the new region's location has exactly the children's bases -/
theorem mkRegion_ring_ok {L : Int} (hL : 0 < L) {all : List Feat} (hring : ∀ f ∈ all, RingArea L f.loc)
    (harc : ArcUnions L all) (s : State) (cands subs fam : List Feat) (hj : Joined all fam)
    (hmem : ∀ f, f ∈ subs ++ cands ↔ f ∈ fam) :
    ∃ s1 r, mkRegion s cands subs = .ok (s1, r) ∧ RingArea L r.loc ∧
      ∀ i, r.loc.mem i = true ↔ ∃ f ∈ fam, f.loc.mem i = true := by
  have hsub : ∀ f ∈ fam, f ∈ all := hj.sub
  have hch : ∀ f ∈ subs ++ cands, RingArea L f.loc := fun f hf => hring f (hsub f ((hmem f).1 hf))
  have hfamne : fam ≠ [] := by
    cases hj with
    | single a _ => simp
    | join m1 m2 ms h1 _ hsh hms =>
      obtain ⟨a, ha, _⟩ := hsh
      exact List.ne_nil_of_mem ((hms a).2 (Or.inl ha))
  have hne : subs ++ cands ≠ [] := by
    obtain ⟨x, hx⟩ := List.exists_mem_of_ne_nil _ hfamne
    exact List.ne_nil_of_mem ((hmem x).2 hx)
  have hemp : (cands.isEmpty && subs.isEmpty) = false := by
    cases cands <;> cases subs <;> simp_all
  obtain ⟨c, hwf, hlen, hc⟩ := harc fam hj
  have hlocs : ∀ l ∈ (subs ++ cands).map (·.loc), RingArea L l := by
    intro l hl
    obtain ⟨f, hf, rfl⟩ := List.mem_map.1 hl
    exact hch f hf
  have hunion : ∀ j, c.mem j = true ↔ ∃ l ∈ (subs ++ cands).map (·.loc), l.mem j = true := by
    intro j
    rw [hc j]
    constructor
    · rintro ⟨m, hm, hmj⟩
      exact ⟨m.loc, List.mem_map.2 ⟨m, (hmem m).2 hm, rfl⟩, hmj⟩
    · rintro ⟨l, hl, hlj⟩
      obtain ⟨f, hf, rfl⟩ := List.mem_map.1 hl
      exact ⟨f, (hmem f).1 hf, hlj⟩
  cases hany : ((subs ++ cands).map (·.loc)).any bridgesOrigin with
  | true =>
    obtain ⟨r, hr, hra, hrm⟩ := connect_ring_exact hL _ (by simpa using hne) hlocs c hwf hlen hunion
    have hmiss : ∃ i, 0 ≤ i ∧ i < L ∧ r.mem i = false := by
      obtain ⟨i, h0, h1, h2⟩ := short_span_misses hL c hwf hlen
      refine ⟨i, h0, h1, ?_⟩
      rw [← Bool.not_eq_true] at h2 ⊢
      intro h
      exact h2 ((hunion i).2 ((hrm i).1 h))
    have hpar : ∀ ch ∈ subs ++ cands, locationContainsOther r ch.loc = true := by
      intro ch hch'
      apply parent_check_passes hra (hch ch hch') _ hmiss
      intro i hi
      exact (hrm i).2 ⟨ch.loc, List.mem_map.2 ⟨ch, hch', rfl⟩, hi⟩
    refine ⟨afterMk s (subs ++ cands), ⟨s.nextRid, .region, r, cands.map (·.id), subs.map (·.id), []⟩, ?_, hra, ?_⟩
    · simp only [mkRegion, hemp, Bool.false_eq_true, if_false, regionWrap_ring _ hlocs hany, hr,
        collectionInitCheck_ringArea hra, bind, Except.bind, pure, Except.pure]
      rw [setParents_ok _ _ _ hpar]
      rfl
    · intro i
      show r.mem i = true ↔ _
      rw [hrm i, ← hunion i, hc i]
  | false =>
    have hline : ∀ f ∈ subs ++ cands, LineArea L f.loc := by
      intro f hf
      refine (hch f hf).line_of_not_bridging ?_
      have := List.any_eq_false.1 hany f.loc (List.mem_map.2 ⟨f, hf, rfl⟩)
      simpa using this
    have hmk := mkRegion_line (len := L) s cands subs hne hline
    have hb := hull_bounds _ hne hline
    refine ⟨_, _, hmk, Or.inl ⟨_, rfl, hb.1, hb.2.1, hb.2.2⟩, ?_⟩
    intro i
    have hlinefam : ∀ m ∈ fam, LineArea L m.loc := fun m hm => hline m ((hmem m).2 hm)
    obtain ⟨lo, hi', hu, ⟨x, hx, ex⟩, hlo, ⟨y, hy, ey⟩, hhi, _⟩ := joined_line_union hj hlinefam
    have e1 : minList ((subs ++ cands).map fLo) = lo := by
      apply minList_eq
      · exact List.mem_map.2 ⟨x, (hmem x).2 hx, ex⟩
      · intro v hv
        obtain ⟨f, hf, rfl⟩ := List.mem_map.1 hv
        exact hlo f ((hmem f).1 hf)
    have e2 : maxList ((subs ++ cands).map fHi) = hi' := by
      apply maxList_eq
      · exact List.mem_map.2 ⟨y, (hmem y).2 hy, ey⟩
      · intro v hv
        obtain ⟨f, hf, rfl⟩ := List.mem_map.1 hv
        exact hhi f ((hmem f).1 hf)
    show (hullLoc (subs ++ cands)).mem i = true ↔ _
    rw [hullLoc, e1, e2, mem_simple, hu i]

end ASV.Regions
