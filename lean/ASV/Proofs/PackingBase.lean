/-
  C19 helper lemmas, part 1: shapes of well-formed locations and the basic accessors.
-/
import ASV.Spec.Layout
namespace ASV.Packing
open ASV ASV.Packing.Spec

/-- a well-formed collection location is one non-empty part, or `[s, L) + [0, e)` -/
theorem collOK_cases {L : Int} {l : Loc} (h : collOK L l = true) :
    (∃ p, l = .simple p ∧ 0 ≤ p.lo ∧ p.lo < p.hi ∧ p.hi ≤ L) ∨
    (∃ s e, l = .compound [⟨s, L, .fwd⟩, ⟨0, e, .fwd⟩] ∧ 0 < e ∧ e < s ∧ s < L) := by
  cases l with
  | simple p =>
    left
    simp only [collOK, Bool.and_eq_true, decide_eq_true_eq] at h
    exact ⟨p, rfl, h.1.1, h.1.2, h.2⟩
  | compound ps =>
    right
    match ps, h with
    | [], h => simp [collOK] at h
    | [_], h => simp [collOK] at h
    | _ :: _ :: _ :: _, h => simp [collOK] at h
    | [⟨plo, phi, ps⟩, ⟨qlo, qhi, qs⟩], h =>
      simp only [collOK, Bool.and_eq_true, decide_eq_true_eq, beq_iff_eq] at h
      obtain ⟨⟨⟨⟨⟨⟨h1, h2⟩, h3⟩, h4⟩, h5⟩, h6⟩, h7⟩ := h
      subst h1 h2 h3 h7
      exact ⟨plo, qhi, rfl, h4, h5, h6⟩

@[simp] theorem locStart_simple (p : Part) : locStart (.simple p) = p.lo := rfl
@[simp] theorem locEnd_simple (p : Part) : locEnd (.simple p) = p.hi := rfl
@[simp] theorem locStart_cross (s L e : Int) :
    locStart (.compound [⟨s, L, .fwd⟩, ⟨0, e, .fwd⟩]) = s := by
  simp [locStart, Loc.strand]
@[simp] theorem locEnd_cross (s L e : Int) :
    locEnd (.compound [⟨s, L, .fwd⟩, ⟨0, e, .fwd⟩]) = e := by
  simp [locEnd, Loc.strand]

theorem announced_ok (c : Ctx) (h : regionOK c = true) : announcedOk c (announced c) = true := by
  obtain ⟨reg, L, circ⟩ := c
  simp only [regionOK, Bool.and_eq_true] at h
  rcases collOK_cases h.1 with ⟨p, rfl, _⟩ | ⟨s, e, rfl, _⟩
  · simp [announcedOk, announced, drawRange, Ctx.regionCrosses, Loc.parts, Loc.start, Loc.end]
  · simp [announcedOk, announced, drawRange, Ctx.regionCrosses, Loc.parts, Ctx.lastPart]

end ASV.Packing
