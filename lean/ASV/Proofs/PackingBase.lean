/-
  C19 helper lemmas, part 1: shapes of well-formed locations and the basic accessors.
-/
import ASV.Spec.Layout
namespace ASV.Packing
open ASV ASV.Packing.Spec

/-- a well-formed collection location is one non-empty part, or `[s, L) + [0, e)` -/
theorem collOK_cases {L : Int} {l : Loc} (h : collOK L l = true) :
    (∃ p, l = .simple p ∧ 0 ≤ p.lo ∧ p.lo < p.hi ∧ p.hi ≤ L) ∨
    (∃ s e, l = .compound [⟨s, L, .fwd⟩, ⟨0, e, .fwd⟩] ∧ 0 < e ∧ e ≤ s ∧ s < L) := by
  cases l with
  | simple p =>
    left
    simp only [collOK, Bool.and_eq_true, decide_eq_true_eq] at h
    exact ⟨p, rfl, h.1.1, h.1.2, h.2⟩
  | compound ps =>
    right
    match ps, h with
    | [], h => simp [collOK] at h
    | [_], h => simp [collOK] at h
    | _ :: _ :: _ :: _, h => simp [collOK] at h
    | [⟨plo, phi, ps⟩, ⟨qlo, qhi, qs⟩], h =>
      simp only [collOK, Bool.and_eq_true, decide_eq_true_eq, beq_iff_eq] at h
      obtain ⟨⟨⟨⟨⟨⟨h1, h2⟩, h3⟩, h4⟩, h5⟩, h6⟩, h7⟩ := h
      subst h1 h2 h3 h7
      exact ⟨plo, qhi, rfl, h4, h5, h6⟩

@[simp] theorem locStart_simple (p : Part) : locStart (.simple p) = p.lo := rfl
@[simp] theorem locEnd_simple (p : Part) : locEnd (.simple p) = p.hi := rfl
@[simp] theorem locStart_cross (s L e : Int) :
    locStart (.compound [⟨s, L, .fwd⟩, ⟨0, e, .fwd⟩]) = s := by
  simp [locStart, Loc.strand]
@[simp] theorem locEnd_cross (s L e : Int) :
    locEnd (.compound [⟨s, L, .fwd⟩, ⟨0, e, .fwd⟩]) = e := by
  simp [locEnd, Loc.strand]

theorem announced_ok (c : Ctx) (h : regionOK c = true) : announcedOk c (announced c) = true := by
  obtain ⟨reg, L, circ⟩ := c
  simp only [regionOK, Bool.and_eq_true] at h
  rcases collOK_cases h.1 with ⟨p, rfl, _⟩ | ⟨s, e, rfl, _⟩
  · simp [announcedOk, announced, drawRange, Ctx.regionCrosses, Loc.parts, Loc.start, Loc.end]
  · simp [announcedOk, announced, drawRange, Ctx.regionCrosses, Loc.parts, Ctx.lastPart]

/-! ### overlap ↔ intervals -/

theorem partsOverlap_false {a b : Part} (h : partsOverlap a b = false) : a.hi ≤ b.lo ∨ b.hi ≤ a.lo := by
  simp only [partsOverlap, Part.mem, Bool.or_eq_false_iff, Bool.and_eq_false_iff,
    decide_eq_false_iff_not] at h
  omega

/-- every part of the first location lies entirely before or after every part of the second -/
def Apart (a b : Loc) : Prop := ∀ p ∈ a.parts, ∀ q ∈ b.parts, p.hi ≤ q.lo ∨ q.hi ≤ p.lo

theorem Apart.symm {a b : Loc} (h : Apart a b) : Apart b a :=
  fun q hq p hp => (h p hp q hq).symm

theorem collOK_parts {L : Int} {l : Loc} (h : collOK L l = true) :
    ∀ p ∈ l.parts, 0 ≤ p.lo ∧ p.lo < p.hi ∧ p.hi ≤ L := by
  rcases collOK_cases h with ⟨p, rfl, h1, h2, h3⟩ | ⟨s, e, rfl, h1, h2, h3⟩
  · intro q hq
    simp only [Loc.parts, List.mem_singleton] at hq
    subst hq; exact ⟨h1, h2, h3⟩
  · intro q hq
    simp only [Loc.parts, List.mem_cons, List.not_mem_nil, or_false] at hq
    rcases hq with rfl | rfl
    · simp only; omega
    · simp only; omega

theorem apart_of_noOverlap {a b : Loc} (h : locationsOverlap a b = false) : Apart a b := by
  intro p hp q hq
  have hpq : partsOverlap p q = false := by
    simp only [locationsOverlap, List.any_eq_false] at h
    have := h p hp
    simp only [List.any_eq_true, not_exists, not_and, Bool.not_eq_true] at this
    exact this q hq
  exact partsOverlap_false hpq

theorem Apart.not_sharesBase {a b : Loc} (h : Apart a b) : ¬ SharesBase a b := by
  rintro ⟨i, hi, hj⟩
  simp only [Loc.mem, List.any_eq_true] at hi hj
  obtain ⟨p, hp, hpi⟩ := hi
  obtain ⟨q, hq, hqi⟩ := hj
  simp only [Part.mem, Bool.and_eq_true, decide_eq_true_eq] at hpi hqi
  have := h p hp q hq
  omega


end ASV.Packing
