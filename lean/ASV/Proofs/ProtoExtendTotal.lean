/-
  C03: `apply_extenders` on one protocluster always returns when all genes of a circular record lie in a
  wide arc and the core is a single span of it.
-/
import ASV.Proofs.ProtoRingMerge
import ASV.Proofs.ProtoExtendRing
namespace ASV.Proto
open ASV ASV.Rules ASV.Chains

theorem connect_gene_part_ringW (L c A B : Int) (harc : WideArc L c A B) (p : Part) (hp0 : A ≤ p.lo) (hp1 : p.lo < p.hi)
    (hp2 : p.hi ≤ B) (cds : Loc) (h : GeneIn L A B cds) :
    ∃ s, connect [cds, Loc.simple p] (some L) = .ok (.simple ⟨min p.lo cds.start, max p.hi cds.end, s⟩) := by
  have hlt := h.ok.start_lt_end
  have hL : 0 < L := harc.Lpos (by omega)
  have hh := harc.half
  rw [connect_ring_nowrap [cds, Loc.simple p] L (by simp) hL
    (by intro l hl; simp at hl; rcases hl with rfl | rfl
        · exact ⟨h.ok.ne, h.ok.nb⟩
        · simp [Loc.parts, bridgesOrigin])
    (by intro l hl; simp at hl; rcases hl with rfl | rfl
        · exact hlt
        · exact hp1)
    (by intro f hf s hs
        have := h.lo; have := h.hi
        simp only [List.mem_cons, List.mem_nil_iff, or_false] at hf hs
        have e1 : (Loc.simple p).start = p.lo := rfl
        have e2 : (Loc.simple p).end = p.hi := rfl
        rcases hf with rfl | rfl <;> rcases hs with rfl | rfl <;> (try rw [e1]) <;> (try rw [e2]) <;> omega)]
  refine ⟨commonStrand [cds, Loc.simple p], ?_⟩
  simp only [minList, maxList, List.map_cons, List.map_nil, List.foldl_cons, List.foldl_nil, Loc.start, Loc.end]
  rw [Int.min_comm, Int.max_comm]

theorem fold_connect_wide (r : Rec) (hcirc : r.circular = true) (c A B : Int) (harc : WideArc r.len c A B) :
    ∀ (l : List GeneInfo) (p : Part), (∀ g ∈ l, GeneIn r.len A B g.loc) → A ≤ p.lo → p.lo < p.hi → p.hi ≤ B →
    ∃ q, l.foldlM (fun core cds => connect [cds.loc, core] r.wrap) (Loc.simple p) = .ok (.simple q) ∧
      A ≤ q.lo ∧ q.lo ≤ p.lo ∧ p.hi ≤ q.hi ∧ q.hi ≤ B := by
  have hw : r.wrap = some r.len := by simp [Rec.wrap, hcirc]
  intro l
  induction l with
  | nil => intro p _ h0 h1 h2; exact ⟨p, rfl, h0, Int.le_refl _, Int.le_refl _, h2⟩
  | cons g rest ih =>
    intro p hok h0 h1 h2
    have hg := hok g (by simp)
    obtain ⟨s, hc⟩ := connect_gene_part_ringW r.len c A B harc p h0 h1 h2 g.loc hg
    have hglo := hg.lo; have hghi := hg.hi; have hglt := hg.ok.start_lt_end
    obtain ⟨q, hq, b1, b2, b3, b4⟩ := ih ⟨min p.lo g.loc.start, max p.hi g.loc.end, s⟩
      (fun x hx => hok x (by simp [hx])) (by simp only; omega) (by simp only; omega) (by simp only; omega)
    refine ⟨q, ?_, b1, by simp only at b2; omega, by simp only at b3; omega, b4⟩
    simp only [List.foldlM_cons, hw, hc, bind, Except.bind]
    simpa [hw] using hq

/-- **totality**: all genes of the circular record in a wide arc, single-span core in it, lookup answering with
    genes of the record and at least one: `apply_extenders` returns for this protocluster -/
theorem extendCluster_total_wide (within : Lookup) (r : Rec) (hcirc : r.circular = true) (rules : List RuleM)
    (pc : PC) (rule : RuleM) (hrule : findRule rules pc.rule = .ok rule) (hn : 0 ≤ rule.nbhd) (A B : Int)
    (harc : WideArc r.len rule.cutoff A B) (hgenes : ∀ g ∈ r.genes, GeneIn r.len A B g.loc)
    (p : Part) (hcore : pc.core = .simple p) (h0 : A ≤ p.lo) (h1 : p.lo < p.hi) (h2 : p.hi ≤ B)
    (hne : within pc.core false ≠ []) :
    ∃ pc' d, extendCluster within r rules pc = .ok (pc', d) := by
  have hlo := harc.lo; have hhi := harc.hi
  have hL : 0 < r.len := harc.Lpos (by omega)
  have hidx := bisectLeft_line r.genes pc.core (by rw [hcore]; simp [bridgesOrigin]) (fun g hg => (hgenes g hg).ok.nb)
  obtain ⟨firstC, hf⟩ : ∃ x, (within pc.core false).head? = some x := by
    cases hw : within pc.core false with
    | nil => exact absurd hw hne
    | cons a t => exact ⟨a, rfl⟩
  obtain ⟨lastC, hl⟩ : ∃ x, (within pc.core false).getLast? = some x := by
    cases hw : within pc.core false with
    | nil => exact absurd hw hne
    | cons a t => exact ⟨_, List.getLast?_eq_getLast (by simp)⟩
  simp only [extendCluster, hrule, hidx, hf, hl, bind, Except.bind]
  rw [hcore]
  -- the walk backwards
  have hback : ∀ g ∈ markExt r rule (Loc.simple p) firstC (cycle r r.genes (List.takeWhile (fun g => ltLoc' g.loc (Loc.simple p)) r.genes).length false),
      GeneIn r.len A B g.loc := fun g hg => hgenes g (cycle_sub r r.genes _ false g (markExt_sub r rule _ firstC _ g hg))
  obtain ⟨q1, hq1, a1, a2, a3, a4⟩ := fold_connect_wide r hcirc rule.cutoff A B harc _ p hback h0 h1 h2
  rw [hq1]
  simp only []
  have hforw : ∀ g ∈ markExt r rule (Loc.simple q1) lastC (cycle r r.genes (List.takeWhile (fun g => ltLoc' g.loc (Loc.simple p)) r.genes).length true),
      GeneIn r.len A B g.loc := fun g hg => hgenes g (cycle_sub r r.genes _ true g (markExt_sub r rule _ lastC _ g hg))
  obtain ⟨q2, hq2, b1, b2, b3, b4⟩ := fold_connect_wide r hcirc rule.cutoff A B harc _ q1 hforw a1 (by omega) a4
  rw [hq2]
  have hcontains : locationContainsOther (Loc.simple q2) (Loc.simple p) = true := by
    simp only [locationContainsOther, Loc.parts, List.all_cons, List.all_nil, List.any_cons, List.any_nil,
      Bool.or_false, Bool.and_true, partContains, Bool.and_eq_true, decide_eq_true_eq]
    omega
  have hd0 : 0 ≤ min rule.nbhd ((r.len - (q2.hi - q2.lo)) / 2 + 1) := by omega
  have hdL : min rule.nbhd ((r.len - (q2.hi - q2.lo)) / 2 + 1) ≤ r.len := by omega
  have harea := (extSimpleRing_area q2.lo q2.hi _ r.len hL (by omega) (by omega) (by omega) hd0 hdL).1
  simp only [hcontains, Bool.not_true, Bool.false_eq_true, if_false,
    extendArea_ring_simple r hcirc hL q2 rule.nbhd (by omega) (by omega) (by omega) hn true,
    mkPC_simple_area _ _ r.len _ harea, pure, Except.pure]
  exact ⟨_, _, rfl⟩

end ASV.Proto
