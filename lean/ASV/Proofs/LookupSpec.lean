/-
  C08 helper lemmas, part 3: the lookup's tests are the spec's predicates; the multi-part branch;
  membership and order of the result.
-/
import ASV.Proofs.LookupWithin
namespace ASV.Lookup
open ASV

/-! ### the code's tests are the spec's predicates -/

theorem containedBy_eq_spec {g : Loc} (hg : ∀ p ∈ g.parts, p.lo ≤ p.hi) (q : Loc) :
    containedBy g q = specContained g q := by
  rw [Bool.eq_iff_iff]
  simp only [containedBy, locationContainsOther, specContained, List.all_eq_true, List.any_eq_true, partContains,
    Bool.and_eq_true, decide_eq_true_eq]
  constructor
  · intro h gp hgp
    obtain ⟨qp, hqp, h1⟩ := h gp hgp
    exact ⟨qp, hqp, by omega, by omega⟩
  · intro h gp hgp
    obtain ⟨qp, hqp, h1⟩ := h gp hgp
    have := hg gp hgp
    exact ⟨qp, hqp, by omega⟩

theorem overlapsWith_eq_spec {g q : Loc} (hg : g.PartsNonEmpty) (hq : q.PartsNonEmpty) :
    overlapsWith g q = specShares g q := by
  simp only [overlapsWith, specShares]
  exact (sharesPts_eq_overlap g q hg hq).symm

theorem simple_nonEmpty {q : Part} (hq : q.lo < q.hi) : (Loc.simple q).PartsNonEmpty := by
  intro p hp; simp [Loc.parts] at hp; subst hp; exact hq

/-- a gene contained in a location shares a base with it -/
theorem shares_of_contained {g q : Loc} (hg : LocOK g) (h : specContained g q = true) : specShares g q = true := by
  rw [specShares, sharesPts_iff]
  obtain ⟨gp, hgp⟩ := List.exists_mem_of_ne_nil _ hg.1
  simp only [specContained, List.all_eq_true, List.any_eq_true, Bool.and_eq_true, decide_eq_true_eq] at h
  obtain ⟨qp, hqp, h1, h2⟩ := h gp hgp
  have := (hg.2.1 gp hgp).2
  refine ⟨gp.lo, ?_, ?_⟩
  · simp only [Loc.mem, List.any_eq_true, Part.mem_iff]; exact ⟨gp, hgp, by omega, by omega⟩
  · simp only [Loc.mem, List.any_eq_true, Part.mem_iff]; exact ⟨qp, hqp, by omega, by omega⟩

theorem keep_eq_spec {f : Gene} (hf : LocOK f.loc) {q : Loc} (hq : q.PartsNonEmpty) (ov : Bool) :
    keep q ov f = specKeeps ov f.loc q := by
  have hle : ∀ p ∈ f.loc.parts, p.lo ≤ p.hi := fun p hp => by have := (hf.2.1 p hp).2; omega
  cases ov
  · simp [keep, specKeeps, containedBy_eq_spec hle]
  · simp only [keep, specKeeps, containedBy_eq_spec hle, overlapsWith_eq_spec hf.nonEmpty hq, Bool.true_and, if_true]
    cases hc : specContained f.loc q
    · simp
    · simp [shares_of_contained hf hc]

/-- sharing a base with a multi-part location is sharing a base with one of its parts -/
theorem shares_iff_part (g q : Loc) :
    specShares g q = true ↔ ∃ p ∈ q.parts, specShares g (.simple p) = true := by
  simp only [specShares, sharesPts_iff, Loc.SharesBase]
  constructor
  · rintro ⟨i, h1, h2⟩
    simp only [Loc.mem, List.any_eq_true] at h2
    obtain ⟨p, hp, hi⟩ := h2
    exact ⟨p, hp, i, h1, by simp [Loc.mem, Loc.parts, hi]⟩
  · rintro ⟨p, hp, i, h1, h2⟩
    refine ⟨i, h1, ?_⟩
    simp only [Loc.mem, Loc.parts, List.any_cons, List.any_nil, Bool.or_false] at h2
    simp only [Loc.mem, List.any_eq_true]
    exact ⟨p, hp, h2⟩

/-! ### de-duplication -/

theorem foldl_step_eq (l acc : List Gene) :
    l.foldl (fun acc f => if acc.contains f then acc else acc ++ [f]) acc
      = acc ++ (dedup l).filter (fun x => !acc.contains x) := by
  induction l generalizing acc with
  | nil => simp [dedup]
  | cons x l ih =>
    simp only [List.foldl_cons, dedup]
    by_cases hx : acc.contains x = true
    · simp only [hx, if_true]
      rw [ih acc]
      congr 1
      simp only [List.filter_cons, hx, Bool.not_true, Bool.false_eq_true, if_false, List.filter_filter]
      apply List.filter_congr
      intro y _
      by_cases hy : y = x
      · subst hy
        have : y ∈ acc := by simpa using hx
        simp [this]
      · simp [hy]
    · simp only [hx, if_false, Bool.false_eq_true]
      rw [ih (acc ++ [x])]
      have hx' : acc.contains x = false := by simpa using hx
      simp only [List.filter_cons, hx', Bool.not_false, if_true, List.filter_filter, List.append_assoc,
        List.cons_append, List.nil_append]
      congr 2
      apply List.filter_congr
      intro y _
      by_cases hy : y = x
      · subst hy; simp
      · simp [hy, List.contains_append, List.elem_eq_contains]

theorem extendNew_eq (acc found : List Gene) :
    extendNew acc found = acc ++ (dedup found).filter (fun x => !acc.contains x) := foldl_step_eq found acc

theorem mem_dedup (l : List Gene) (x : Gene) : x ∈ dedup l ↔ x ∈ l := by
  induction l with
  | nil => simp [dedup]
  | cons a l ih =>
    simp only [dedup, List.mem_cons, List.mem_filter, ih]
    by_cases h : x = a
    · simp [h]
    · simp [h]

theorem nodup_dedup (l : List Gene) : (dedup l).Nodup := by
  induction l with
  | nil => simp [dedup]
  | cons a l ih =>
    simp only [dedup, List.nodup_cons, List.mem_filter]
    exact ⟨by simp, ih.filter _⟩

theorem dedup_nodup (l : List Gene) (h : l.Nodup) : dedup l = l := by
  induction l with
  | nil => rfl
  | cons x l ih =>
    obtain ⟨hx, hl⟩ := List.nodup_cons.1 h
    simp only [dedup, ih hl]
    congr 1
    rw [List.filter_eq_self]
    intro y hy
    have : y ≠ x := fun e => hx (by rw [← e]; exact hy)
    simpa using this

/-- de-duplicating two duplicate-free runs: the first, then what is new in the second -/
theorem dedup_append_nodup (A B : List Gene) (hA : A.Nodup) (hB : B.Nodup) :
    dedup (A ++ B) = A ++ B.filter (fun x => !A.contains x) := by
  induction A with
  | nil =>
    simp only [List.nil_append, dedup_nodup B hB, List.contains_nil, Bool.not_false]
    exact (List.filter_eq_self.2 (fun _ _ => rfl)).symm
  | cons x A ih =>
    obtain ⟨hx, hA'⟩ := List.nodup_cons.1 hA
    simp only [List.cons_append, dedup, ih hA', List.filter_append, List.filter_filter]
    congr 1
    congr 1
    · rw [List.filter_eq_self]
      intro y hy
      have : y ≠ x := fun e => hx (by rw [← e]; exact hy)
      simpa using this
    · apply List.filter_congr
      intro y _
      by_cases hy : y = x
      · subst hy; simp
      · have : x ≠ y := fun e => hy e.symm
        simp [hy, this]

/-- collecting part after part with "skip what is already there" is de-duplicating the concatenation -/
theorem foldl_extendNew (F : Part → List Gene) (ps : List Part) (acc : List Gene) :
    ps.foldl (fun acc p => extendNew acc (F p)) acc
      = (ps.flatMap F).foldl (fun acc f => if acc.contains f then acc else acc ++ [f]) acc := by
  induction ps generalizing acc with
  | nil => simp
  | cons p ps ih =>
    simp only [List.foldl_cons, List.flatMap_cons, List.foldl_append]
    rw [ih]
    rfl

theorem collect_eq_dedup (F : Part → List Gene) (ps : List Part) :
    ps.foldl (fun acc p => extendNew acc (F p)) [] = dedup (ps.flatMap F) := by
  rw [foldl_extendNew, foldl_step_eq]
  simp

/-! ### the whole lookup -/

/-- a query location: every part non-empty and not below 0 -/
def QueryOK (q : Loc) : Prop := q.parts ≠ [] ∧ ∀ p ∈ q.parts, 0 ≤ p.lo ∧ p.lo < p.hi

theorem clampQuery_id {p : Part} (h : 0 ≤ p.lo) : clampQuery p = p := by
  simp [clampQuery]; omega

theorem within1_eq_spec {fs : List Gene} (hs : Sorted fs) (hok : GenesOK fs) (p : Part) (ov : Bool)
    (h0 : 0 ≤ p.lo) (h1 : p.lo < p.hi) :
    within1 fs p ov = fs.filter fun g => specKeeps ov g.loc (.simple p) := by
  rw [within1_exact hs hok p ov (by rw [clampQuery_id h0]; exact h1), clampQuery_id h0]
  apply List.filter_congr
  intro f hf
  exact keep_eq_spec (hok f hf) (simple_nonEmpty h1) ov

theorem mem_specPartHits (fs : List Gene) (p : Part) (x : Gene) :
    x ∈ specPartHits fs p ↔ x ∈ fs ∧ specShares x.loc (.simple p) = true := by
  simp only [specPartHits, List.mem_append, List.mem_filter]
  cases crosses x.loc <;> simp

theorem flatMap_congr' {α β} (f g : α → List β) (l : List α) (h : ∀ x ∈ l, f x = g x) : l.flatMap f = l.flatMap g := by
  induction l with
  | nil => rfl
  | cons a l ih =>
    simp only [List.flatMap_cons]
    rw [h a (by simp), ih (fun x hx => h x (by simp [hx]))]

theorem specWithin_nil (q : Loc) (ov : Bool) : specWithin [] q ov = [] := by
  unfold specWithin
  split
  · rfl
  · rfl
  · have : ∀ ps : List Part, ps.flatMap (specPartHits []) = [] := by
      intro ps; induction ps with
      | nil => rfl
      | cons a l ih => simp [List.flatMap_cons, ih, specPartHits]
    simp [this, dedup]

/-- the lookup returns the spec's list (same genes, same order) -/
theorem within_eq_spec {fs : List Gene} (hs : Sorted fs) (hok : GenesOK fs) (q : Loc) (ov : Bool) (hq : QueryOK q) :
    within fs q ov = specWithin fs q ov := by
  by_cases hfs : fs = []
  · subst hfs; simp [within, specWithin_nil]
  · have hne : fs.isEmpty = false := by simpa using hfs
    rcases hparts : q.parts with _ | ⟨p1, _ | ⟨p2, rest⟩⟩
    · exact absurd hparts hq.1
    · have hpq := hq.2 p1 (by rw [hparts]; simp)
      simp only [within, specWithin, hparts, hne, Bool.false_eq_true, if_false]
      exact within1_eq_spec hs hok p1 ov hpq.1 hpq.2
    · simp only [within, specWithin, hparts, hne, Bool.false_eq_true, if_false]
      rw [← hparts]
      have hF : ∀ p ∈ q.parts, crossingLast (within1 fs p true) = specPartHits fs p := by
        intro p hp
        have hpq := hq.2 p hp
        rw [within1_eq_spec hs hok p true hpq.1 hpq.2]
        simp [crossingLast, specPartHits, specKeeps]
      rw [collect_eq_dedup, flatMap_congr' _ _ _ hF]
      have hD : ∀ x ∈ dedup (q.parts.flatMap (specPartHits fs)), x ∈ fs ∧ specShares x.loc q = true := by
        intro x hx
        rw [mem_dedup, List.mem_flatMap] at hx
        obtain ⟨p, hp, hx⟩ := hx
        rw [mem_specPartHits] at hx
        exact ⟨hx.1, (shares_iff_part x.loc q).2 ⟨p, hp, hx.2⟩⟩
      cases ov
      · simp only [Bool.false_eq_true, if_false]
        apply List.filter_congr
        intro x hx
        have hle : ∀ p ∈ x.loc.parts, p.lo ≤ p.hi := fun p hp => by
          have := ((hok x (hD x hx).1).2.1 p hp).2; omega
        simp [specKeeps, containedBy_eq_spec hle]
      · simp only [if_true, specKeeps]
        symm
        rw [List.filter_eq_self]
        intro x hx
        exact (hD x hx).2

/-- exactly the kept genes are returned -/
theorem mem_within {fs : List Gene} (hs : Sorted fs) (hok : GenesOK fs) (q : Loc) (ov : Bool) (hq : QueryOK q) (x : Gene) :
    x ∈ within fs q ov ↔ x ∈ fs ∧ specKeeps ov x.loc q = true := by
  rw [within_eq_spec hs hok q ov hq]
  rcases hparts : q.parts with _ | ⟨p1, _ | ⟨p2, rest⟩⟩
  · exact absurd hparts hq.1
  · simp only [specWithin, hparts, List.mem_filter]
    have e : specKeeps ov x.loc (.simple p1) = specKeeps ov x.loc q := by
      have hp' : (Loc.simple p1).parts = q.parts := by rw [hparts]; rfl
      simp only [specKeeps, specShares, specContained, sharesPts, Loc.mem, hp']
    rw [e]
  · simp only [specWithin, hparts]
    rw [← hparts]
    simp only [List.mem_filter, mem_dedup, List.mem_flatMap, mem_specPartHits]
    constructor
    · rintro ⟨⟨p, _, hx, _⟩, hk⟩; exact ⟨hx, hk⟩
    · rintro ⟨hx, hk⟩
      refine ⟨?_, hk⟩
      have hsh : specShares x.loc q = true := by
        cases ov
        · exact shares_of_contained (hok x hx) (by simpa [specKeeps] using hk)
        · simpa [specKeeps] using hk
      obtain ⟨p, hp, h⟩ := (shares_iff_part x.loc q).1 hsh
      exact ⟨p, hp, hx, h⟩

end ASV.Lookup
