/-
  C08 helper lemmas, part 2: the single-part lookup returns exactly the kept genes, in list order.
-/
import ASV.Proofs.LookupKey
namespace ASV.Lookup
open ASV

/-- the gene list is in `Feature.__lt__` order -/
def Sorted (fs : List Gene) : Prop := fs.Pairwise fun a b => locLt b.loc a.loc = false

def GenesOK (fs : List Gene) : Prop := ∀ g ∈ fs, LocOK g.loc

/-- the test the lookup applies to a candidate -/
def keep (ql : Loc) (ov : Bool) (f : Gene) : Bool := containedBy f.loc ql || (ov && overlapsWith f.loc ql)

theorem exists_part_start {l : Loc} (h : LocOK l) : ∃ p ∈ l.parts, p.lo = l.start := by
  cases l with
  | simple p => exact ⟨p, by simp [Loc.parts], rfl⟩
  | compound ps =>
    have hne : ps.map (·.lo) ≠ [] := by
      have := h.1; simp [Loc.parts] at this; simpa using this
    obtain ⟨p, hp, e⟩ := List.mem_map.1 (minList_mem hne)
    exact ⟨p, by simpa [Loc.parts] using hp, e⟩

theorem contained_simple_iff (g : Loc) (q : Part) :
    containedBy g (.simple q) = true ↔ ∀ p ∈ g.parts, q.lo ≤ p.lo ∧ p.lo ≤ p.hi ∧ p.hi ≤ q.hi := by
  simp [containedBy, locationContainsOther, Loc.parts, partContains, and_assoc]

theorem not_contained_of_start_lt {l : Loc} {q : Part} (h : LocOK l) (hs : l.start < q.lo) :
    containedBy l (.simple q) = false := by
  cases hc : containedBy l (.simple q)
  · rfl
  · obtain ⟨p, hp, e⟩ := exists_part_start h
    have := (contained_simple_iff l q).1 hc p hp
    omega

theorem overlaps_simple_imp {l : Loc} {q : Part} (hl : l.PartsNonEmpty) (hq : q.lo < q.hi)
    (h : overlapsWith l (.simple q) = true) :
    ∃ p ∈ l.parts, ∃ i, p.lo ≤ i ∧ i < p.hi ∧ q.lo ≤ i ∧ i < q.hi := by
  simp only [overlapsWith, locationsOverlap, Loc.parts, List.any_eq_true, List.mem_singleton] at h
  obtain ⟨p, hp, q', rfl, h⟩ := h
  obtain ⟨i, h1, h2⟩ := (partsOverlap_iff p q' (hl p hp) hq).1 h
  rw [Part.mem_iff] at h1 h2
  exact ⟨p, hp, i, h1.1, h1.2, h2.1, h2.2⟩

theorem not_keep_of_start_ge {f : Gene} {q : Part} {ov : Bool} (h : LocOK f.loc) (hq : q.lo < q.hi)
    (hs : q.hi ≤ f.loc.start) :
    keep (.simple q) ov f = false := by
  cases hk : keep (.simple q) ov f
  · rfl
  · exfalso
    simp only [keep, Bool.or_eq_true, Bool.and_eq_true] at hk
    rcases hk with hk | ⟨_, hk⟩
    · obtain ⟨p, hp⟩ := List.exists_mem_of_ne_nil _ h.1
      have h1 := (contained_simple_iff f.loc q).1 hk p hp
      have h2 := (start_le_part f.loc p hp).1
      have h3 := (h.2.1 p hp).2
      omega
    · obtain ⟨p, hp, i, h1, h2, h3, h4⟩ := overlaps_simple_imp h.nonEmpty hq hk
      have := (start_le_part f.loc p hp).1
      omega

theorem end_gt_of_keep {f : Gene} {q : Part} {ov : Bool} (h : LocOK f.loc) (hq : q.lo < q.hi)
    (hk : keep (.simple q) ov f = true) : f.loc.end > q.lo := by
  simp only [keep, Bool.or_eq_true, Bool.and_eq_true] at hk
  rcases hk with hk | ⟨_, hk⟩
  · obtain ⟨p, hp⟩ := List.exists_mem_of_ne_nil _ h.1
    have h1 := (contained_simple_iff f.loc q).1 hk p hp
    have h2 := (start_le_part f.loc p hp).2
    have h3 := (h.2.1 p hp).2
    omega
  · obtain ⟨p, hp, i, h1, h2, h3, h4⟩ := overlaps_simple_imp h.nonEmpty hq hk
    have := (start_le_part f.loc p hp).2
    omega

/-! ### order facts -/

theorem start_le_of_not_lt {a b : Loc} (ha : bridgesOrigin a = false) (hb : bridgesOrigin b = false)
    (h : locLt b a = false) : a.start ≤ b.start := by
  rw [locLt_false_iff, cmpStart_linear ha, cmpStart_linear hb] at h
  omega

theorem start_le_of_lt_simple {a : Loc} {q : Part} (ha : bridgesOrigin a = false)
    (h : locLt a (.simple q) = true) : a.start ≤ q.lo := by
  have hq : bridgesOrigin (.simple q) = false := rfl
  have hs : (Loc.simple q).start = q.lo := rfl
  rw [locLt_true_iff, cmpStart_linear ha, cmpStart_linear hq, hs] at h
  omega

theorem Sorted.sublist {fs gs : List Gene} (h : Sorted fs) (hs : gs.Sublist fs) : Sorted gs :=
  List.Pairwise.sublist hs h

/-- after the leading origin-crossing genes nothing crosses the origin -/
theorem linear_after_crossing {fs : List Gene} (hs : Sorted fs) (hok : GenesOK fs) :
    ∀ f ∈ fs.dropWhile (fun f => crosses f.loc), bridgesOrigin f.loc = false := by
  have hsub : (fs.dropWhile fun f => crosses f.loc).Sublist fs := List.dropWhile_sublist _
  have hs' := hs.sublist hsub
  intro f hf
  match hd : fs.dropWhile (fun f => crosses f.loc) with
  | [] => rw [hd] at hf; simp at hf
  | y :: rest =>
    have hy : crosses y.loc = false := by
      have := List.head_dropWhile_not (fun f : Gene => crosses f.loc) (l := fs) (by rw [hd]; simp)
      simpa [hd] using this
    rw [hd] at hf hs'
    rcases List.mem_cons.1 hf with rfl | hf
    · exact hy
    · have hlt : locLt f.loc y.loc = false := (List.pairwise_cons.1 hs').1 f hf
      have hoky : LocOK y.loc := hok y (hsub.subset (by rw [hd]; simp))
      have hokf : LocOK f.loc := hok f (hsub.subset (by rw [hd]; simp [hf]))
      apply linear_of_cmpStart_nonneg hokf
      have h0 := cmpStart_nonneg_linear hoky hy
      rw [locLt_false_iff] at hlt
      omega

/-! ### the single-part lookup -/

theorem mem_takeWhile_imp' {α} (p : α → Bool) : ∀ (l : List α) (x : α), x ∈ l.takeWhile p → p x = true
  | [], x, h => by simp at h
  | a :: l, x, h => by
    simp only [List.takeWhile_cons] at h
    split at h
    · rcases List.mem_cons.1 h with rfl | h
      · assumption
      · exact mem_takeWhile_imp' p l x h
    · simp at h


theorem filter_eq_nil_of_all_false {α} (k : α → Bool) (l : List α) (h : ∀ x ∈ l, k x = false) : l.filter k = [] := by
  rw [List.filter_eq_nil_iff]
  intro x hx; simp [h x hx]

/-- the list surgery of `within1`, with the two facts that make it sound left abstract -/
theorem within1_core (crossing earlier same after : List Gene) (k c2 e : Gene → Bool) (ov : Bool)
    (hE : ∀ f ∈ earlier, k f = true → (ov = true ∧ e f = true))
    (hW : ∀ f ∈ (same ++ after).dropWhile c2, k f = false) :
    (crossing ++ (if ov then earlier.filter e else []) ++ (same ++ after).takeWhile c2).filter k
      = (crossing ++ ((earlier ++ same) ++ after)).filter k := by
  have h1 : (if ov then earlier.filter e else []).filter k = earlier.filter k := by
    cases ov
    · simp only [Bool.false_eq_true, if_false, List.filter_nil]
      symm
      apply filter_eq_nil_of_all_false
      intro f hf
      cases hk : k f
      · rfl
      · exact absurd (hE f hf hk).1 (by simp)
    · simp only [if_true, List.filter_filter]
      apply List.filter_congr
      intro f hf
      cases hk : k f
      · simp
      · simp [(hE f hf hk).2]
  have h2 : ((same ++ after).takeWhile c2).filter k = (same ++ after).filter k := by
    conv => rhs; rw [← List.takeWhile_append_dropWhile (p := c2) (l := same ++ after)]
    rw [List.filter_append, filter_eq_nil_of_all_false k _ hW, List.append_nil]
  simp only [List.filter_append, h1, h2, List.append_assoc]

theorem reverse_split {α} (p : α → Bool) (l : List α) :
    l = (l.reverse.dropWhile p).reverse ++ (l.reverse.takeWhile p).reverse := by
  have := List.takeWhile_append_dropWhile (p := p) (l := l.reverse)
  have h2 := congrArg List.reverse this
  simp only [List.reverse_append, List.reverse_reverse] at h2
  exact h2.symm

/-- once a gene of a sorted run of non-crossing genes starts at or after the query's end, nothing
    from there on is kept -/
theorem tail_not_kept {X : List Gene} (hsX : Sorted X) (hlin : ∀ f ∈ X, bridgesOrigin f.loc = false)
    (hok : ∀ f ∈ X, LocOK f.loc) (q : Part) (ov : Bool) (hq : q.lo < q.hi) :
    ∀ f ∈ X.dropWhile (fun f => decide (f.loc.start < q.hi)), keep (.simple q) ov f = false := by
  intro f hf
  have hsubD : (X.dropWhile (fun f => decide (f.loc.start < q.hi))).Sublist X := List.dropWhile_sublist _
  have hsd : Sorted (X.dropWhile (fun f => decide (f.loc.start < q.hi))) := hsX.sublist hsubD
  have hstart : q.hi ≤ f.loc.start := by
    match hd : X.dropWhile (fun f => decide (f.loc.start < q.hi)) with
    | [] => rw [hd] at hf; simp at hf
    | y :: rest =>
      have hy : decide (y.loc.start < q.hi) = false := by
        have := List.head_dropWhile_not (fun f : Gene => decide (f.loc.start < q.hi)) (l := X) (by rw [hd]; simp)
        simpa [hd] using this
      have hy' : q.hi ≤ y.loc.start := by simpa using hy
      rw [hd] at hsd hf hsubD
      rcases List.mem_cons.1 hf with rfl | hfr
      · exact hy'
      · have := (List.pairwise_cons.1 hsd).1 f hfr
        have := start_le_of_not_lt (hlin y (hsubD.subset (by simp))) (hlin f (hsubD.subset (by simp [hfr]))) this
        omega
  exact not_keep_of_start_ge (hok f (hsubD.subset hf)) hq hstart

/-- in a sorted run of non-crossing genes that all sort before the query, the ones left after walking
    back over "same start as the query" start strictly before the query -/
theorem earlier_start_lt {B : List Gene} (hsB : Sorted B) (hlin : ∀ f ∈ B, bridgesOrigin f.loc = false)
    (q : Part) (hlt : ∀ f ∈ B, locLt f.loc (.simple q) = true) :
    ∀ f ∈ (B.reverse.dropWhile (fun f => f.loc.start == q.lo)).reverse, f.loc.start < q.lo := by
  intro f hf
  have hfd : f ∈ B.reverse.dropWhile (fun f => f.loc.start == q.lo) := List.mem_reverse.1 hf
  have hsubD : (B.reverse.dropWhile (fun f => f.loc.start == q.lo)).Sublist B.reverse := List.dropWhile_sublist _
  have hrev : (B.reverse.dropWhile (fun f => f.loc.start == q.lo)).Pairwise
      (fun a b => locLt a.loc b.loc = false) := by
    apply List.Pairwise.sublist hsubD
    rw [List.pairwise_reverse]
    exact hsB
  match hd : B.reverse.dropWhile (fun f => f.loc.start == q.lo) with
  | [] => rw [hd] at hfd; simp at hfd
  | x :: rest =>
    have hx : (x.loc.start == q.lo) = false := by
      have := List.head_dropWhile_not (fun f : Gene => f.loc.start == q.lo) (l := B.reverse) (by rw [hd]; simp)
      simpa [hd] using this
    rw [hd] at hsubD hrev hfd
    have memB : ∀ g ∈ x :: rest, g ∈ B := fun g hg => List.mem_reverse.1 (hsubD.subset hg)
    have hxs := start_le_of_lt_simple (hlin x (memB x (by simp))) (hlt x (memB x (by simp)))
    have hxne : x.loc.start ≠ q.lo := by simpa using hx
    rcases List.mem_cons.1 hfd with rfl | hfr
    · omega
    · have := (List.pairwise_cons.1 hrev).1 f hfr
      have := start_le_of_not_lt (hlin f (memB f (by simp [hfr]))) (hlin x (memB x (by simp))) this
      omega

/-- the single-part branch of the lookup returns exactly the genes that pass the test, in list order -/
theorem within1_exact {fs : List Gene} (hs : Sorted fs) (hok : GenesOK fs) (q0 : Part) (ov : Bool)
    (hq : (clampQuery q0).lo < (clampQuery q0).hi) :
    within1 fs q0 ov = fs.filter (keep (.simple (clampQuery q0)) ov) := by
  generalize hqd : clampQuery q0 = q at hq
  let c := fun f : Gene => crosses f.loc
  let lt := fun f : Gene => locLt f.loc (.simple q)
  let eqs := fun f : Gene => f.loc.start == q.lo
  have hlin := linear_after_crossing hs hok
  have hsub1 : (fs.dropWhile c).Sublist fs := List.dropWhile_sublist _
  have hsl : Sorted (fs.dropWhile c) := hs.sublist hsub1
  have h1 : fs = fs.takeWhile c ++ fs.dropWhile c := (List.takeWhile_append_dropWhile).symm
  have h2 : fs.dropWhile c = (fs.dropWhile c).takeWhile lt ++ (fs.dropWhile c).dropWhile lt :=
    (List.takeWhile_append_dropWhile).symm
  have h3 := reverse_split eqs ((fs.dropWhile c).takeWhile lt)
  have hbefore_sub : ((fs.dropWhile c).takeWhile lt).Sublist (fs.dropWhile c) := List.takeWhile_sublist _
  have hEs := earlier_start_lt (hsl.sublist hbefore_sub) (fun f hf => hlin f (hbefore_sub.subset hf)) q
    (fun f hf => mem_takeWhile_imp' lt _ f hf)
  have hE : ∀ f ∈ (((fs.dropWhile c).takeWhile lt).reverse.dropWhile eqs).reverse,
      keep (.simple q) ov f = true → (ov = true ∧ decide (f.loc.end > q.lo) = true) := by
    intro f hf hk
    have hfb : f ∈ (fs.dropWhile c).takeWhile lt :=
      List.mem_reverse.1 ((List.dropWhile_sublist _).subset (List.mem_reverse.1 hf))
    have hff : f ∈ fs := hsub1.subset (hbefore_sub.subset hfb)
    refine ⟨?_, by simpa using end_gt_of_keep (hok f hff) hq hk⟩
    cases ov
    · exfalso
      have := not_contained_of_start_lt (hok f hff) (hEs f hf)
      simp [keep, this] at hk
    · rfl
  have hsuf : ((((fs.dropWhile c).takeWhile lt).reverse.takeWhile eqs).reverse ++ (fs.dropWhile c).dropWhile lt).Sublist
      (fs.dropWhile c) := by
    conv => rhs; rw [h2, h3]
    rw [List.append_assoc]
    exact List.sublist_append_right _ _
  have hW := tail_not_kept (hsl.sublist hsuf) (fun f hf => hlin f (hsuf.subset hf))
    (fun f hf => hok f (hsub1.subset (hsuf.subset hf))) q ov hq
  have core := within1_core (fs.takeWhile c)
    (((fs.dropWhile c).takeWhile lt).reverse.dropWhile eqs).reverse
    (((fs.dropWhile c).takeWhile lt).reverse.takeWhile eqs).reverse
    ((fs.dropWhile c).dropWhile lt) (keep (.simple q) ov) (fun f => decide (f.loc.start < q.hi))
    (fun f => decide (f.loc.end > q.lo)) ov hE hW
  rw [← h3, ← h2, ← h1] at core
  rw [← core]
  simp only [within1, hqd]
  rfl

end ASV.Lookup
