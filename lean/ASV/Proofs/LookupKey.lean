/-
  C08 helper lemmas, part 1: the sort key of `Feature.__lt__` on well-formed gene locations.
    * a location that does not cross the origin sorts by its start coordinate (≥ 0)
    * a location that crosses the origin has a negative key, so it sorts before every other
-/
import ASV.Proofs.LocOrder
import ASV.Spec.Lookup
namespace ASV.Lookup
open ASV

/-- a gene location the record accepts: at least one part, every part non-empty and not below 0,
    and the sort key exists (`split_origin_bridging_location` does not raise) -/
def LocOK (l : Loc) : Prop :=
  l.parts ≠ [] ∧ (∀ p ∈ l.parts, 0 ≤ p.lo ∧ p.lo < p.hi) ∧ ∃ k, comparatorStart l = .ok k

theorem LocOK.nonEmpty {l : Loc} (h : LocOK l) : l.PartsNonEmpty := fun p hp => (h.2.1 p hp).2

/-! ### split sections are made of the location's own parts -/

theorem splitFwd_snd_mem (acc ps : List Part) : ∀ x ∈ (splitFwd acc ps).2, x ∈ acc ∨ x ∈ ps := by
  fun_induction splitFwd acc ps with
  | case1 acc => intro x hx; left; exact List.mem_reverse.1 hx
  | case2 p rest ih =>
    intro x hx
    rcases ih x hx with h | h
    · right; simp at h; simp [h]
    · right; simp [h]
  | case3 u us p rest hlt ih =>
    intro x hx
    rcases ih x hx with h | h
    · simp at h; rcases h with h | h | h
      · right; simp [h]
      · left; simp [h]
      · left; simp [h]
    · right; simp [h]
  | case4 u us p rest hlt =>
    intro x hx; left; exact List.mem_reverse.1 hx

theorem splitRev_snd_mem (acc ps : List Part) : ∀ x ∈ (splitRev acc ps).2, x ∈ ps := by
  fun_induction splitRev acc ps with
  | case1 acc => intro x hx; simp at hx
  | case2 p rest ih => intro x hx; simp [ih x hx]
  | case3 l ls p rest hlt ih => intro x hx; simp [ih x hx]
  | case4 l ls p rest hlt => intro x hx; simpa using hx

theorem splitBridging_compound_ok {ps lower upper : List Part} (h : splitBridging (.compound ps) = .ok (lower, upper)) :
    (if (Loc.compound ps).strand != Strand.rev then splitFwd [] ps else splitRev [] ps) = (lower, upper)
    ∧ upper ≠ [] := by
  unfold splitBridging at h
  simp only [bind, Except.bind, pure, Except.pure, throw, throwThe, MonadExceptOf.throw] at h
  split at h
  · simp at h
  · split at h
    · rename_i hs
      simp only [hs, if_true]
      split at h
      · simp at h
      · rename_i he
        split at h
        · simp at h
        · injection h with h
          refine ⟨h, ?_⟩
          intro e
          have : (splitFwd [] ps).2 = upper := (Prod.mk.inj h).2
          simp [this, e] at he
    · rename_i hs
      simp only [hs]
      split at h
      · simp at h
      · rename_i he
        split at h
        · simp at h
        · injection h with h
          refine ⟨h, ?_⟩
          intro e
          have : (splitRev [] ps).2 = upper := (Prod.mk.inj h).2
          simp [this, e] at he

/-- the upper section `split_origin_bridging_location` returns is a non-empty selection of the parts -/
theorem splitBridging_upper {l : Loc} {lower upper : List Part} (h : splitBridging l = .ok (lower, upper))
    (hb : bridgesOrigin l = true) : upper ≠ [] ∧ ∀ x ∈ upper, x ∈ l.parts := by
  cases l with
  | simple p => simp [bridgesOrigin] at hb
  | compound ps =>
    obtain ⟨h1, h2⟩ := splitBridging_compound_ok h
    refine ⟨h2, ?_⟩
    intro x hx
    have h3 : (if (Loc.compound ps).strand != Strand.rev then splitFwd [] ps else splitRev [] ps).2 = upper := by
      rw [h1]
    rw [← h3] at hx
    simp only [Loc.parts]
    split at hx
    · rcases splitFwd_snd_mem [] ps x hx with h' | h'
      · simp at h'
      · exact h'
    · exact splitRev_snd_mem [] ps x hx

/-! ### the key -/

theorem cmpStart_linear {l : Loc} (hb : bridgesOrigin l = false) : cmpStart l = l.start := by
  simp [cmpStart, comparatorStart, hb, pure, Except.pure]

theorem comparatorStart_linear {l : Loc} (hb : bridgesOrigin l = false) : comparatorStart l = .ok l.start := by
  simp [comparatorStart, hb, pure, Except.pure]

theorem start_nonneg {l : Loc} (h : LocOK l) : 0 ≤ l.start := by
  cases l with
  | simple p => exact (h.2.1 p (by simp [Loc.parts])).1
  | compound ps =>
    have hne : ps.map (·.lo) ≠ [] := by
      have := h.1; simp [Loc.parts] at this; simpa using this
    obtain ⟨p, hp, e⟩ := List.mem_map.1 (minList_mem hne)
    have := (h.2.1 p (by simpa [Loc.parts] using hp)).1
    simp only [Loc.start]; omega

theorem start_lt_end {l : Loc} (h : LocOK l) : l.start < l.end := by
  obtain ⟨p, hp⟩ := List.exists_mem_of_ne_nil _ h.1
  have := start_le_part l p hp
  have := (h.2.1 p hp).2
  omega

/-- a well-formed location crossing the origin has a negative key -/
theorem cmpStart_crossing {l : Loc} (h : LocOK l) (hb : bridgesOrigin l = true) : cmpStart l < 0 := by
  obtain ⟨k, hk⟩ := h.2.2
  have hk' := hk
  simp only [comparatorStart, hb, if_true, bind, Except.bind] at hk
  split at hk
  · simp at hk
  · rename_i v hv
    obtain ⟨lower, upper⟩ := v
    simp only [pure, Except.pure] at hk
    injection hk with hk
    obtain ⟨hne, hsub⟩ := splitBridging_upper hv hb
    obtain ⟨u, hu⟩ := List.exists_mem_of_ne_nil _ hne
    have h1 : minList (upper.map (·.lo)) ≤ u.lo := minList_le_of_mem (List.mem_map.2 ⟨u, hu, rfl⟩)
    have h2 : u.hi ≤ maxList (upper.map (·.hi)) := le_maxList_of_mem (List.mem_map.2 ⟨u, hu, rfl⟩)
    have h3 := (h.2.1 u (hsub u hu)).2
    simp only [cmpStart, hk']
    omega

theorem cmpStart_nonneg_linear {l : Loc} (h : LocOK l) (hb : bridgesOrigin l = false) : 0 ≤ cmpStart l := by
  rw [cmpStart_linear hb]; exact start_nonneg h

/-- on well-formed locations a non-negative key means "does not cross the origin" -/
theorem linear_of_cmpStart_nonneg {l : Loc} (h : LocOK l) (hk : 0 ≤ cmpStart l) : bridgesOrigin l = false := by
  cases hb : bridgesOrigin l
  · rfl
  · have := cmpStart_crossing h hb; omega

/-- the model's total comparison is `Feature.__lt__` of the shared location model -/
theorem featureLt_eq_locLt {a b : Loc} (ha : ∃ k, comparatorStart a = .ok k) (hb : ∃ k, comparatorStart b = .ok k) :
    featureLt a b = .ok (locLt a b) := by
  obtain ⟨ka, hka⟩ := ha
  obtain ⟨kb, hkb⟩ := hb
  rw [featureLt_eq a b ka kb hka hkb]
  simp [locLt, sortKey, cmpStart, hka, hkb, pairLt, keyLt]

theorem pairLt_irrefl (a : Int × Int) : pairLt a a = false := by simp [pairLt]

theorem pairLt_trans {a b c : Int × Int} (h1 : pairLt a b = true) (h2 : pairLt b c = true) : pairLt a c = true := by
  simp only [pairLt, Bool.or_eq_true, Bool.and_eq_true, decide_eq_true_eq, beq_iff_eq] at *
  omega

/-- `a ≤ b` (i.e. `¬ b < a`) and `b < c` give `a < c` -/
theorem pairLt_of_le_of_lt {a b c : Int × Int} (h1 : pairLt b a = false) (h2 : pairLt b c = true) :
    pairLt a c = true := by
  simp only [pairLt, Bool.or_eq_true, Bool.and_eq_true, decide_eq_true_eq, beq_iff_eq, Bool.or_eq_false_iff,
    Bool.and_eq_false_iff, decide_eq_false_iff_not, beq_eq_false_iff_ne] at *
  omega

theorem pairLt_iff (a b : Int × Int) : pairLt a b = true ↔ a.1 < b.1 ∨ (a.1 = b.1 ∧ a.2 < b.2) := by
  simp only [pairLt, Bool.or_eq_true, Bool.and_eq_true, decide_eq_true_eq, beq_iff_eq]
theorem locLt_true_iff (a b : Loc) : locLt a b = true ↔
    cmpStart a < cmpStart b ∨ (cmpStart a = cmpStart b ∧ a.len < b.len) := by
  unfold locLt; rw [pairLt_iff]; exact Iff.rfl
theorem locLt_false_iff (a b : Loc) : locLt a b = false ↔
    cmpStart b < cmpStart a ∨ (cmpStart a = cmpStart b ∧ b.len ≤ a.len) := by
  rw [← Bool.not_eq_true, locLt_true_iff]; omega

end ASV.Lookup
