/-
  C14 helper lemmas, part 13: the assembly line *with separators* — border modules are only merged
  between direct neighbours (no gene in between, same region, same strand), in transcription order.
-/
import ASV.Proofs.ModulesLine
namespace ASV.Modules
open T Spec

def sameHdr (a b : LineItem) : Prop :=
  a.index = b.index ∧ a.strand = b.strand ∧ a.region = b.region ∧ a.barrier = b.barrier

theorem sameHdr.rfl' (a : LineItem) : sameHdr a a := ⟨rfl, rfl, rfl, rfl⟩

theorem mergeable_congr {a a' b b' : LineItem} (ha : sameHdr a a') (hb : sameHdr b b') :
    mergeable a b = mergeable a' b' := by
  unfold mergeable
  rw [ha.1, ha.2.1, ha.2.2.1, ha.2.2.2, hb.1, hb.2.1, hb.2.2.1, hb.2.2.2]



theorem interleave_cons (q : Option LineItem) (x : LineItem) (xs : List LineItem) :
    interleave q (x :: xs) = sepBefore q x ++ (isReverse x.strand, x.comps) :: interleave (some x) xs := rfl

theorem sepB_congr (q : Option LineItem) {x x' : LineItem} (h : sameHdr x x') : sepBefore q x = sepBefore q x' := by
  cases q with
  | none => rfl
  | some p => simp only [sepBefore, sepBefore, mergeable_congr (sameHdr.rfl' p) h]

theorem interleave_congr_prev {p p' : LineItem} (h : sameHdr p p') (xs : List LineItem) :
    interleave (some p) xs = interleave (some p') xs := by
  cases xs with
  | nil => rfl
  | cons x xs =>
    simp only [interleave_cons, sepBefore, sepBefore, mergeable_congr h (sameHdr.rfl' x)]

def lastOr (p : Option LineItem) (a : List LineItem) : Option LineItem :=
  match a.getLast? with
  | some x => some x
  | none => p

theorem lastOr_cons (p : Option LineItem) (x : LineItem) (a : List LineItem) :
    lastOr p (x :: a) = lastOr (some x) a := by
  cases a with
  | nil => rfl
  | cons y ys =>
    have : (y :: ys).getLast? = some ((y :: ys).getLast (List.cons_ne_nil _ _)) :=
      List.getLast?_eq_some_getLast _
    simp [lastOr, List.getLast?_cons_cons, this]

theorem interleave_append : ∀ (a : List LineItem) (p : Option LineItem) (b : List LineItem),
    interleave p (a ++ b) = interleave p a ++ interleave (lastOr p a) b
  | [], p, b => by simp [interleave, lastOr]
  | x :: a, p, b => by
    simp only [List.cons_append, interleave_cons, interleave_append a (some x) b, lastOr_cons,
               List.append_assoc, List.cons_append]

/-- two mergeable neighbours may exchange components at their common border -/
theorem lineGo_exchange (preE : List (Bool × List Comp)) (q : Option LineItem) (x y x' y' : LineItem)
    (rest : List LineItem) (hx : sameHdr x x') (hy : sameHdr y y') (hm : mergeable x y = true)
    (hex : if isReverse x.strand then y.comps ++ x.comps = y'.comps ++ x'.comps
           else x.comps ++ y.comps = x'.comps ++ y'.comps) (acc : List Comp) :
    lineGo (preE ++ interleave q (x :: y :: rest)) acc = lineGo (preE ++ interleave q (x' :: y' :: rest)) acc := by
  have hm' : mergeable x' y' = true := by rw [← mergeable_congr hx hy]; exact hm
  have hs : x.strand = y.strand := by
    unfold mergeable at hm; simp only [Bool.and_eq_true, beq_iff_eq] at hm; exact hm.1.1.2
  have s1 : sepBefore (some x) y = [] := by simp [sepBefore, hm]
  have s2 : sepBefore (some x') y' = [] := by simp [sepBefore, hm']
  simp only [interleave_cons, s1, s2, List.nil_append]
  rw [← sepB_congr q hx, ← interleave_congr_prev hy rest, ← hx.2.1, ← hy.2.1, ← hs]
  rw [← List.append_assoc, ← List.append_assoc]
  apply lineGo_congr_prefix
  intro acc'
  exact lineGo_pair _ _ _ _ _ _ hex acc'

/-! ### items -/

def itemR (r : GeneResult) : LineItem := ⟨r.index, r.strand, r.region, r.modules.flatMap (·.components), r.bare⟩
def itemG (g : Gene) : LineItem :=
  ⟨g.index, g.strand, g.region, keptComps g.name g.domains, (keptComps g.name g.domains).isEmpty⟩
def hdr2 (r : GeneResult) : String × Int × Nat × Nat × Bool := (r.name, r.strand, r.region, r.index, r.bare)
def ghdr2 (g : Gene) : String × Int × Nat × Nat × Bool :=
  (g.name, g.strand, g.region, g.index, (keptComps g.name g.domains).isEmpty)

/-- the genes are numbered consecutively from `n` -/
def Consec : Nat → List Gene → Prop
  | _, [] => True
  | n, g :: rest => g.index = n ∧ Consec (n + 1) rest

theorem chainGo_blocks : ∀ (genes : List Gene) (n : Nat) (results : List GeneResult) (live : Bool),
    Consec n genes →
    (live = true → ∀ prev, results.getLast? = some prev → prev.index + 1 = n) →
    (∀ g ∈ genes, g.name.isEmpty = false ∧ ∀ d ∈ g.domains, (classify d.label).isSome = true) →
    (∀ r ∈ results, ∀ m ∈ r.modules, Good m) →
    (∀ r ∈ results, r.bare = true → r.modules = []) →
    ∃ out, chainGo genes results live = .ok out ∧ (∀ r ∈ out, ∀ m ∈ r.modules, Good m)
      ∧ out.map hdr2 = results.map hdr2 ++ (genes.filter liveGene).map ghdr2
      ∧ ∀ acc, lineGo (interleave none (out.map itemR)) acc
              = lineGo (interleave none (results.map itemR ++ (genes.filter liveGene).map itemG)) acc := by
  intro genes
  induction genes with
  | nil => intro n results live _ _ _ hr _; exact ⟨results, rfl, hr, by simp, by simp⟩
  | cons g rest ih =>
    intro n results live hcon hlink hg hr hbare
    obtain ⟨hidx, hcon'⟩ := hcon
    have hrest : ∀ g ∈ rest, g.name.isEmpty = false ∧ ∀ d ∈ g.domains, (classify d.label).isSome = true :=
      fun x hx => hg x (List.mem_cons_of_mem _ hx)
    simp only [chainGo]
    cases hskip : (g.domains.isEmpty && !g.hasMotifs) with
    | true =>
      simp only [if_true]
      have hl : liveGene g = false := by simp [liveGene, hskip]
      simp only [List.filter_cons, hl, Bool.false_eq_true, if_false]
      exact ih (n + 1) results false hcon' (fun h => by cases h) hrest hr hbare
    | false =>
      simp only [Bool.false_eq_true, if_false]
      have hl : liveGene g = true := by simp [liveGene, hskip]
      simp only [List.filter_cons, hl, if_true, List.map_cons]
      obtain ⟨ms, hb, hs, hflat, _⟩ := build_spec g.domains g.name (hg g (List.mem_cons_self)).1 (hg g (List.mem_cons_self)).2
      obtain ⟨ms', hb', hms⟩ := build_good g.domains g.name (hg g (List.mem_cons_self)).1 (hg g (List.mem_cons_self)).2
      rw [hb] at hb'; injection hb' with hb'; subst hb'
      rw [hb]
      simp only
      have hempty : ms.isEmpty = (keptComps g.name g.domains).isEmpty := by
        rw [← kept_eq, ← hflat]
        cases ms with
        | nil => rfl
        | cons m ms' =>
          have hne := (hs m (List.mem_cons_self)).2
          cases hc : m.components with
          | nil => exact absurd hc hne
          | cons c cs => simp [hc]
      have hitem : itemR ⟨g.name, g.strand, g.region, ms, g.index, ms.isEmpty⟩ = itemG g := by
        unfold itemR itemG; simp only; rw [hflat, kept_eq, hempty]
      have linkNext : ∀ (l : List GeneResult) (x : GeneResult), x.index = g.index →
          (true = true → ∀ prev, (l ++ [x]).getLast? = some prev → prev.index + 1 = n + 1) := by
        intro l x hx _ prev hp
        rw [List.getLast?_concat] at hp; injection hp with hp; subst hp; rw [hx, hidx]
      have plain : ∃ out, chainGo rest (results ++ [⟨g.name, g.strand, g.region, ms, g.index, ms.isEmpty⟩]) true = .ok out
          ∧ (∀ r ∈ out, ∀ m ∈ r.modules, Good m)
          ∧ out.map hdr2 = results.map hdr2 ++ ghdr2 g :: (rest.filter liveGene).map ghdr2
          ∧ ∀ acc, lineGo (interleave none (out.map itemR)) acc
              = lineGo (interleave none (results.map itemR ++ itemG g :: (rest.filter liveGene).map itemG)) acc := by
        have happ : ∀ r ∈ results ++ [(⟨g.name, g.strand, g.region, ms, g.index, ms.isEmpty⟩ : GeneResult)], ∀ m ∈ r.modules, Good m := by
          intro r hrm
          rcases List.mem_append.mp hrm with h | h
          · exact hr r h
          · simp at h; subst h; exact hms
        have hbare' : ∀ r ∈ results ++ [(⟨g.name, g.strand, g.region, ms, g.index, ms.isEmpty⟩ : GeneResult)],
            r.bare = true → r.modules = [] := by
          intro r hrm hb
          rcases List.mem_append.mp hrm with h | h
          · exact hbare r h hb
          · simp at h; subst h; simpa using hb
        obtain ⟨out, ho, h1, h2, h3⟩ := ih (n + 1) _ true hcon' (linkNext results _ rfl) hrest happ hbare'
        refine ⟨out, ho, h1, ?_, ?_⟩
        · rw [h2]; simp [hdr2, ghdr2, hempty]
        · intro acc; rw [h3]; simp [hitem]
      cases hprev : (if live = true then results.getLast? else none) with
      | none => exact plain
      | some prev =>
        simp only
        have hlive : live = true := by
          cases live with
          | false => simp at hprev
          | true => rfl
        have hgl : results.getLast? = some prev := by rw [hlive] at hprev; simpa using hprev
        have hsplit := getLast?_split results prev hgl
        have hpm : prev ∈ results := List.mem_of_getLast? hgl
        have hpg := hr prev hpm
        have hpidx : prev.index + 1 = g.index := by rw [hidx]; exact hlink hlive prev hgl
        cases hcond : (!prev.modules.isEmpty && !ms.isEmpty && prev.region == g.region) with
        | false => simp only [Bool.false_eq_true, if_false]; exact plain
        | true =>
          simp only [if_true]
          have hreg : prev.region = g.region := by
            simp only [Bool.and_eq_true, beq_iff_eq] at hcond; exact hcond.2
          have hdl : ∀ r ∈ results.dropLast, ∀ m ∈ r.modules, Good m := fun r h => hr r (mem_dropLast h)
          have hpb : prev.bare = false := by
            cases hb : prev.bare with
            | false => rfl
            | true =>
              have := hbare prev hpm hb
              simp [this] at hcond
          have hib : ms.isEmpty = false := by
            simp only [Bool.and_eq_true, Bool.not_eq_true'] at hcond; exact hcond.1.2
          have finish : ∀ (pm im : List Module), (∀ m ∈ pm, Good m) → (∀ m ∈ im, Good m) →
              (∀ preE q restI acc,
                 lineGo (preE ++ interleave q (⟨prev.index, prev.strand, prev.region, pm.flatMap (·.components), prev.bare⟩
                                               :: ⟨g.index, g.strand, g.region, im.flatMap (·.components), ms.isEmpty⟩ :: restI)) acc
                 = lineGo (preE ++ interleave q (itemR prev :: itemG g :: restI)) acc) →
              ∃ out, chainGo rest (results.dropLast ++ [{ prev with modules := pm },
                                      { (⟨g.name, g.strand, g.region, ms, g.index, ms.isEmpty⟩ : GeneResult) with modules := im }]) true = .ok out
                ∧ (∀ r ∈ out, ∀ m ∈ r.modules, Good m)
                ∧ out.map hdr2 = results.map hdr2 ++ ghdr2 g :: (rest.filter liveGene).map ghdr2
                ∧ ∀ acc, lineGo (interleave none (out.map itemR)) acc
                    = lineGo (interleave none (results.map itemR ++ itemG g :: (rest.filter liveGene).map itemG)) acc := by
            intro pm im hpmg himg hline
            have hgood : ∀ r ∈ results.dropLast ++ [{ prev with modules := pm },
                { (⟨g.name, g.strand, g.region, ms, g.index, ms.isEmpty⟩ : GeneResult) with modules := im }], ∀ m ∈ r.modules, Good m := by
              intro x hx
              rcases List.mem_append.mp hx with h | h
              · exact hdl x h
              · simp at h
                rcases h with h | h
                · subst h; exact hpmg
                · subst h; exact himg
            have hlinkN := linkNext (results.dropLast ++ [{ prev with modules := pm }])
              { (⟨g.name, g.strand, g.region, ms, g.index, ms.isEmpty⟩ : GeneResult) with modules := im } rfl
            rw [List.append_assoc] at hlinkN
            have hbare' : ∀ r ∈ results.dropLast ++ ([{ prev with modules := pm }] ++
                [{ (⟨g.name, g.strand, g.region, ms, g.index, ms.isEmpty⟩ : GeneResult) with modules := im }]),
                r.bare = true → r.modules = [] := by
              intro x hx hb
              rcases List.mem_append.mp hx with h | h
              · exact hbare x (mem_dropLast h) hb
              · simp at h
                rcases h with h | h
                · subst h; simp only at hb; rw [hpb] at hb; cases hb
                · subst h; simp only at hb; rw [hib] at hb; cases hb
            obtain ⟨out, ho, h1, h2, h3⟩ := ih (n + 1) _ true hcon' hlinkN hrest hgood hbare'
            refine ⟨out, ho, h1, ?_, ?_⟩
            · rw [h2]
              conv => rhs; rw [hsplit]
              simp [hdr2, ghdr2, hempty]
            · intro acc
              rw [h3]
              conv => rhs; rw [hsplit]
              simp only [List.map_append, List.map_cons, List.map_nil, List.append_assoc, List.cons_append,
                         List.nil_append]
              rw [interleave_append, interleave_append]
              exact hline _ _ _ acc
          cases hstr : (g.strand == -1) with
          | true =>
            simp only [if_true]
            have hgs : g.strand = -1 := by simpa using hstr
            obtain ⟨r, hc, h1, h2, _, h4⟩ := combine_good prev.strand g.strand prev.modules ms hms hpg
            rw [hc]
            simp only
            apply finish r.cur r.prev h2 h1
            intro preE q restI acc
            by_cases hse : prev.strand = g.strand
            · have hflat2 := combineOK_flat h4
              simp only [List.flatMap_append] at hflat2
              apply lineGo_exchange preE q _ _ _ _ restI
              · exact ⟨rfl, rfl, rfl, rfl⟩
              · exact ⟨rfl, rfl, rfl, hempty⟩
              · unfold mergeable; simp [hpidx, hreg, hse, hpb, hib]
              · have hb1 : isReverse prev.strand = true := by rw [hse, hgs]; rfl
                simp only [hb1, if_true]
                rw [hflat2]; unfold itemR itemG; simp only; rw [← kept_eq, ← hflat]
            · rw [combine_diff_strand _ _ _ _ hse] at hc
              injection hc with hc; subst hc
              rw [← hitem]; rfl
          | false =>
            simp only [Bool.false_eq_true, if_false]
            have hgs : g.strand ≠ -1 := by simpa using hstr
            obtain ⟨r, hc, h1, h2, _, h4⟩ := combine_good g.strand prev.strand ms prev.modules hpg hms
            rw [hc]
            simp only
            apply finish r.prev r.cur h1 h2
            intro preE q restI acc
            by_cases hse : g.strand = prev.strand
            · have hflat2 := combineOK_flat h4
              simp only [List.flatMap_append] at hflat2
              apply lineGo_exchange preE q _ _ _ _ restI
              · exact ⟨rfl, rfl, rfl, rfl⟩
              · exact ⟨rfl, rfl, rfl, hempty⟩
              · unfold mergeable; simp [hpidx, hreg, hse, hpb, hib]
              · have hb1 : isReverse prev.strand = false := by
                  rw [← hse]; simpa [isReverse] using hgs
                simp only [hb1, Bool.false_eq_true, if_false]
                rw [hflat2]; unfold itemR itemG; simp only; rw [← kept_eq, ← hflat]
            · rw [combine_diff_strand _ _ _ _ hse] at hc
              injection hc with hc; subst hc
              rw [← hitem]; rfl


/-! ### the reported modules against the line with separators -/

def sameHdrOpt : Option LineItem → Option LineItem → Prop
  | none, none => True
  | some a, some b => sameHdr a b
  | _, _ => False

theorem sepBefore_congr {q q' : Option LineItem} {x x' : LineItem} (hq : sameHdrOpt q q') (hx : sameHdr x x') :
    sepBefore q x = sepBefore q' x' := by
  cases q with
  | none => cases q' with
    | none => rfl
    | some _ => cases hq
  | some p => cases q' with
    | none => cases hq
    | some p' => simp only [sepBefore, mergeable_congr hq hx]

theorem lineGo_interleave_sublist {α} (f1 f2 : α → LineItem)
    (h : ∀ r, sameHdr (f1 r) (f2 r) ∧ (f1 r).comps.Sublist (f2 r).comps) :
    ∀ (R : List α) (q q' : Option LineItem) (acc acc' : List Comp), sameHdrOpt q q' → acc.Sublist acc' →
      (lineGo (interleave q (R.map f1)) acc).Sublist (lineGo (interleave q' (R.map f2)) acc')
  | [], _, _, _, _, _, ha => ha
  | r :: R, q, q', acc, acc', hq, ha => by
    obtain ⟨h1, h2⟩ := h r
    simp only [List.map_cons, interleave_cons]
    rw [sepBefore_congr hq h1, h1.2.1]
    have ih := lineGo_interleave_sublist f1 f2 h R (some (f1 r)) (some (f2 r))
    -- the separator part is the same on both sides: case on it
    cases hsep : sepBefore q' (f2 r) with
    | nil =>
      simp only [List.nil_append]
      cases isReverse (f2 r).strand with
      | true => simp only [lineGo]; exact ih _ _ h1 (h2.append ha)
      | false =>
        simp only [lineGo]
        exact (ha.append h2).append (ih [] [] h1 (List.Sublist.refl _))
    | cons e es =>
      have : sepBefore q' (f2 r) = [(false, [sepComp])] := by
        unfold sepBefore at hsep ⊢
        cases q' with
        | none => simp at hsep
        | some p =>
          simp only at hsep ⊢
          cases hm : mergeable p (f2 r) with
          | true => rw [hm] at hsep; simp at hsep
          | false => simp
      rw [this] at hsep
      injection hsep with he hes; subst he; subst hes
      simp only [List.cons_append, List.nil_append, lineGo]
      apply (ha.append (List.Sublist.refl _)).append
      cases isReverse (f2 r).strand with
      | true => simp only [lineGo]; exact ih _ _ h1 (h2.append (List.Sublist.refl _))
      | false =>
        simp only [lineGo]
        exact ((List.Sublist.refl _).append h2).append (ih [] [] h1 (List.Sublist.refl _))

theorem mem_interleave (q : Option LineItem) : ∀ (l : List LineItem) (q : Option LineItem) (x : LineItem), x ∈ l →
    (isReverse x.strand, x.comps) ∈ interleave q l
  | [], _, _, h => by cases h
  | y :: l, q, x, h => by
    rw [interleave_cons]
    rcases List.mem_cons.mp h with h | h
    · subst h; exact List.mem_append_right _ (List.mem_cons_self)
    · exact List.mem_append_right _ (List.mem_cons_of_mem _ (mem_interleave q l (some y) x h))

theorem zip_report_items : ∀ (live : List Gene) (R : List GeneResult), R.map hdr2 = live.map ghdr2 →
    (live.zip (R.map report)).map (fun (g, o) =>
        (⟨g.index, g.strand, g.region, o.2.flatten, (keptComps g.name g.domains).isEmpty⟩ : LineItem))
      = R.map (fun r => (⟨r.index, r.strand, r.region, (report r).2.flatten, r.bare⟩ : LineItem))
  | [], [], _ => rfl
  | [], _ :: _, h => by simp at h
  | _ :: _, [], h => by simp at h
  | g :: live, r :: R, h => by
    simp only [List.map_cons, List.cons.injEq] at h
    obtain ⟨h1, h2⟩ := h
    simp only [List.map_cons, List.zip_cons_cons, zip_report_items live R h2]
    simp only [hdr2, ghdr2, Prod.mk.injEq] at h1
    obtain ⟨_, a, b, c, d⟩ := h1
    rw [a, b, c, d]

theorem sep_not_known : ¬ Known sepComp := by
  intro h; have := h.2; simp [sepComp] at this

/-- what the caller loop guarantees, with separators -/
theorem chain_blocks_spec (genes : List Gene) (hcon : Consec 0 genes)
    (hg : ∀ g ∈ genes, g.name.isEmpty = false ∧ ∀ d ∈ g.domains, (classify d.label).isSome = true) :
    ∃ R, chainGo genes [] false = .ok R
      ∧ chainLine (R.map itemR) = chainLine (geneItems genes)
      ∧ chainBlocksOK genes (R.map report) = true := by
  obtain ⟨R, hR, hgood, hh, hline⟩ := chainGo_blocks genes 0 [] false hcon (fun h => by cases h) hg
    (fun r hr => by cases hr) (fun r hr => by cases hr)
  simp only [List.map_nil, List.nil_append] at hh hline
  have hexact : chainLine (R.map itemR) = chainLine (geneItems genes) := by
    unfold chainLine geneItems
    rw [hline []]; rfl
  refine ⟨R, hR, hexact, ?_⟩
  unfold chainBlocksOK
  simp only [Bool.and_eq_true]
  refine ⟨⟨?_, ?_⟩, ?_⟩
  · rw [beq_iff_eq]
    have := congrArg (List.map Prod.fst) hh
    simp only [List.map_map] at this ⊢
    exact this
  · rw [List.isSublist_iff_sublist, zip_report_items _ _ hh, ← hexact]
    unfold chainLine
    apply lineGo_interleave_sublist _ itemR _ R none none [] [] trivial (List.Sublist.refl _)
    intro r
    exact ⟨⟨rfl, rfl, rfl, rfl⟩, filter_flatMap_sublist bigModule (·.components) r.modules⟩
  · rw [List.all_eq_true]
    intro o ho
    obtain ⟨r, hr, rfl⟩ := List.mem_map.mp ho
    rw [List.all_eq_true]
    intro cs hcs
    obtain ⟨m, hm, rfl⟩ := List.mem_map.mp hcs
    have hm' : m ∈ r.modules := (List.mem_filter.mp hm).1
    rw [Bool.and_eq_true]
    constructor
    · obtain ⟨a, b, hab⟩ := comps_infix_flatMap m r.modules hm'
      have he : (isReverse (itemR r).strand, (itemR r).comps) ∈ interleave none (R.map itemR) :=
        mem_interleave none _ none _ (List.mem_map.mpr ⟨r, hr, rfl⟩)
      obtain ⟨a2, b2, hab2⟩ := lineGo_infix _ [] _ he
      rw [← hexact]
      unfold chainLine
      rw [hab2]
      show isInfixB m.components (a2 ++ r.modules.flatMap (·.components) ++ b2) = true
      rw [hab]
      have := isInfixB_of_append m.components (a2 ++ a) (b ++ b2)
      simpa [List.append_assoc] using this
    · cases hc : m.components.contains sepComp with
      | false => rfl
      | true =>
        have hmem : sepComp ∈ m.components := List.contains_iff_mem.mp hc
        exact absurd ((hgood r hr m hm').2 sepComp hmem) sep_not_known


/-! ### region order and numbering -/

theorem mem_regionGenes (cross : Option Nat) (genes : List Gene) (g : Gene) (h : g ∈ regionGenes cross genes) :
    g ∈ genes := by
  unfold regionGenes at h
  cases cross with
  | none => exact h
  | some s =>
    rcases List.mem_append.mp h with h | h <;> exact (List.mem_filter.mp h).1

theorem reindexFrom_spec : ∀ (l : List Gene) (n : Nat),
    Consec n ((l.zipIdx n).map fun (g, i) => { g with index := i })
    ∧ ∀ g' ∈ (l.zipIdx n).map (fun (g, i) => ({ g with index := i } : Gene)),
        ∃ g ∈ l, g'.domains = g.domains ∧ g'.name = g.name
  | [], _ => ⟨trivial, by intro g h; cases h⟩
  | a :: l, n => by
    obtain ⟨h1, h2⟩ := reindexFrom_spec l (n + 1)
    simp only [List.zipIdx_cons, List.map_cons]
    refine ⟨⟨rfl, h1⟩, ?_⟩
    intro g' hg'
    rcases List.mem_cons.mp hg' with h | h
    · subst h; exact ⟨a, List.mem_cons_self, rfl, rfl⟩
    · obtain ⟨g, hg, e1, e2⟩ := h2 g' h
      exact ⟨g, List.mem_cons_of_mem _ hg, e1, e2⟩

theorem consec_reindex (l : List Gene) : Consec 0 (reindex l) := (reindexFrom_spec l 0).1

theorem reindex_mem (l : List Gene) (g' : Gene) (h : g' ∈ reindex l) :
    ∃ g ∈ l, g'.domains = g.domains ∧ g'.name = g.name := (reindexFrom_spec l 0).2 g' h

end ASV.Modules
