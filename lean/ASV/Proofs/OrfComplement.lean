/-
  C15 helper lemma: Biopython's complement table (regenerated) commutes with ASCII upper-casing,
  so the reverse-strand extraction theorem needs no assumption about the record's case.
-/
import ASV.Spec.Orf
namespace ASV.Orf
open ASV

theorem complement_upper_keys :
    ∀ p ∈ Gen.complementPairs, (complement p.1).toUpper = complement p.1.toUpper := by decide

theorem complement_upper_lower :
    ∀ n : Fin 26, (complement (Char.ofNat (97 + n.val))).toUpper
      = complement (Char.ofNat (97 + n.val)).toUpper := by decide

theorem complement_of_not_key (c : Char) (h : ∀ p ∈ Gen.complementPairs, p.1 ≠ c) : complement c = c := by
  unfold complement
  have : Gen.complementPairs.find? (fun p => p.1 == c) = none := by
    rw [List.find?_eq_none]
    intro p hp
    simpa using h p hp
  rw [this]

theorem complement_upper (c : Char) : (complement c).toUpper = complement c.toUpper := by
  by_cases hkey : ∃ p ∈ Gen.complementPairs, p.1 = c
  · obtain ⟨p, hp, rfl⟩ := hkey
    exact complement_upper_keys p hp
  · have hnk : ∀ p ∈ Gen.complementPairs, p.1 ≠ c := fun p hp he => hkey ⟨p, hp, he⟩
    by_cases hl : 'a'.val ≤ c.val ∧ c.val ≤ 'z'.val
    · -- a lower-case letter: one of 26 characters
      have h1 : 97 ≤ c.toNat := by
        have := hl.1; rw [UInt32.le_iff_toNat_le] at this; exact this
      have h2 : c.toNat ≤ 122 := by
        have := hl.2; rw [UInt32.le_iff_toNat_le] at this; exact this
      have := complement_upper_lower ⟨c.toNat - 97, by omega⟩
      simp only at this
      rw [show 97 + (c.toNat - 97) = c.toNat by omega, Char.ofNat_toNat] at this
      exact this
    · have hup : c.toUpper = c := by unfold Char.toUpper; rw [dif_neg hl]
      rw [hup, complement_of_not_key c hnk, hup]

end ASV.Orf
