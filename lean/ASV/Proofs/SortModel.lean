/-
  C05: the model of CPython's `list.sort` for short lists (`pySort`: `count_run`, then binary
  insertion) is THE stable sort whenever `<` is a strict weak order: it returns the same list as the
  stable insertion sort `sortBy` — so for consistent comparisons nothing depends on the algorithm
  (nor on the 64-element limit of the modelled variant).
-/
import ASV.Proofs.RingHybrid
set_option linter.unusedSectionVars false
set_option linter.unusedVariables false
set_option linter.unusedSimpArgs false
namespace ASV.CC

section
variable {α : Type} [DecidableEq α]

/-- a strict weak order: irreflexive, transitive, incomparability transitive -/
structure WeakOrder (lt : α → α → Bool) : Prop where
  irr : ∀ a, lt a a = false
  trans : ∀ a b c, lt a b = true → lt b c = true → lt a c = true
  inc : ∀ a b c, lt a b = false → lt b a = false → lt b c = false → lt c b = false → lt a c = false ∧ lt c a = false

theorem WeakOrder.asymm {lt : α → α → Bool} (w : WeakOrder lt) {a b : α} (h : lt a b = true) : lt b a = false := by
  cases hb : lt b a
  · rfl
  · have := w.trans a b a h hb; rw [w.irr a] at this; cases this

/-- `≤` is transitive -/
theorem WeakOrder.le_trans {lt : α → α → Bool} (w : WeakOrder lt) {a b c : α} (h1 : lt b a = false) (h2 : lt c b = false) :
    lt c a = false := by
  cases hca : lt c a
  · rfl
  · exfalso
    cases hbc : lt b c
    · cases hab : lt a b
      · have := (w.inc a b c hab h1 hbc h2).2
        rw [hca] at this; cases this
      · have := w.trans c a b hca hab; rw [h2] at this; cases this
    · have := w.trans b c a hbc hca; rw [h1] at this; cases this

theorem WeakOrder.lt_of_lt_of_le {lt : α → α → Bool} (w : WeakOrder lt) {a b c : α} (h1 : lt a b = true) (h2 : lt c b = false) :
    lt a c = true := by
  cases hac : lt a c
  · have := w.le_trans h2 hac; rw [h1] at this; cases this
  · rfl

theorem WeakOrder.lt_of_le_of_lt {lt : α → α → Bool} (w : WeakOrder lt) {a b c : α} (h1 : lt b a = false) (h2 : lt b c = true) :
    lt a c = true := by
  cases hac : lt a c
  · have := w.le_trans hac h1; rw [h2] at this; cases this
  · rfl

/-! ### the order a stable sort realises: `<`, ties in the order of the input -/

theorem before_trans {a b c : α} {l : List α} (hn : l.Nodup) (h1 : Before a b l) (h2 : Before b c l) : Before a c l := by
  induction l with
  | nil => cases h1
  | cons x rest ih =>
    have hc := List.nodup_cons.1 hn
    rcases h1 with ⟨e1, hb⟩ | h1
    · rcases h2 with ⟨e2, hc'⟩ | h2
      · exact Or.inl ⟨e1, hc'⟩
      · exact Or.inl ⟨e1, (before_mem h2).2⟩
    · rcases h2 with ⟨e2, _⟩ | h2
      · exfalso; subst e2; exact hc.1 (before_mem h1).2
      · exact Or.inr (ih hc.2 h1 h2)

/-- smaller, or tied and earlier in `l` -/
def StableLt (lt : α → α → Bool) (l : List α) (a b : α) : Prop := lt a b = true ∨ (lt b a = false ∧ Before a b l)

theorem stableLt_irr {lt : α → α → Bool} (w : WeakOrder lt) {l : List α} (hn : l.Nodup) (a : α) : ¬ StableLt lt l a a := by
  rintro (h | ⟨_, h⟩)
  · rw [w.irr a] at h; cases h
  · exact before_ne hn h rfl

theorem stableLt_trans {lt : α → α → Bool} (w : WeakOrder lt) {l : List α} (hn : l.Nodup) {a b c : α}
    (h1 : StableLt lt l a b) (h2 : StableLt lt l b c) : StableLt lt l a c := by
  rcases h1 with h1 | ⟨h1, b1⟩ <;> rcases h2 with h2 | ⟨h2, b2⟩
  · exact Or.inl (w.trans a b c h1 h2)
  · exact Or.inl (w.lt_of_lt_of_le h1 h2)
  · exact Or.inl (w.lt_of_le_of_lt h1 h2)
  · exact Or.inr ⟨w.le_trans h1 h2, before_trans hn b1 b2⟩

theorem stableLt_le {lt : α → α → Bool} (w : WeakOrder lt) {l : List α} {a b : α} (h : StableLt lt l a b) : lt b a = false := by
  rcases h with h | ⟨h, _⟩
  · exact w.asymm h
  · exact h

/-- two lists ascending for an irreflexive transitive relation, with the same elements, are equal -/
theorem pairwise_perm_eq {R : α → α → Prop} (hirr : ∀ a, ¬ R a a) (htrans : ∀ a b c, R a b → R b c → R a c)
    {l₁ l₂ : List α} (h₁ : l₁.Pairwise R) (h₂ : l₂.Pairwise R) (hp : l₁.Perm l₂) : l₁ = l₂ := by
  induction l₁ generalizing l₂ with
  | nil => exact (List.nil_perm.1 hp).symm
  | cons a as ih =>
    cases l₂ with
    | nil => exact absurd (List.perm_nil.1 hp) (by simp)
    | cons b bs =>
      have ha := List.pairwise_cons.1 h₁
      have hb := List.pairwise_cons.1 h₂
      have hab : a = b := by
        by_cases e : a = b
        · exact e
        · exfalso
          have h1 : a ∈ bs := by
            rcases List.mem_cons.1 (hp.mem_iff.1 List.mem_cons_self) with h | h
            · exact absurd h e
            · exact h
          have h2 : b ∈ as := by
            rcases List.mem_cons.1 (hp.mem_iff.2 List.mem_cons_self) with h | h
            · exact absurd h.symm e
            · exact h
          exact hirr a (htrans a b a (ha.1 b h2) (hb.1 a h1))
      subst hab
      rw [ih ha.2 hb.2 (List.Perm.cons_inv hp)]

/-! ### the stable insertion sort realises it -/

theorem insertBy_pairwise (lt : α → α → Bool) {R : α → α → Prop} (htrans : ∀ a b c, R a b → R b c → R a c)
    (x : α) (l : List α) (h1 : ∀ y, y ∈ l → lt y x = true → R y x) (h2 : ∀ y, y ∈ l → lt y x = false → R x y)
    (h : l.Pairwise R) : (insertBy lt x l).Pairwise R := by
  induction l with
  | nil => simp [insertBy]
  | cons y ys ih =>
    have hc := List.pairwise_cons.1 h
    simp only [insertBy]
    split
    · rename_i hyx
      refine List.pairwise_cons.2 ⟨?_, ih (fun z hz => h1 z (List.mem_cons_of_mem _ hz))
        (fun z hz => h2 z (List.mem_cons_of_mem _ hz)) hc.2⟩
      intro z hz
      rcases (mem_insertBy lt x z ys).1 hz with e | e
      · rw [e]; exact h1 y List.mem_cons_self hyx
      · exact hc.1 z e
    · rename_i hyx
      have hxy : R x y := h2 y List.mem_cons_self (by simpa using hyx)
      refine List.pairwise_cons.2 ⟨?_, h⟩
      intro z hz
      rcases List.mem_cons.1 hz with e | e
      · rw [e]; exact hxy
      · exact htrans x y z hxy (hc.1 z e)

theorem before_of_split {x y : α} {pre rest : List α} (hy : y ∈ rest) : Before x y (pre ++ x :: rest) := by
  induction pre with
  | nil => exact Or.inl ⟨rfl, hy⟩
  | cons p ps ih => exact Or.inr ih

theorem sortBy_pairwise_stable {lt : α → α → Bool} (w : WeakOrder lt) {l : List α} (hn : l.Nodup) :
    ∀ (pre s : List α), l = pre ++ s → (sortBy lt s).Pairwise (StableLt lt l) := by
  intro pre s
  induction s generalizing pre with
  | nil => intro _; simp [sortBy]
  | cons x rest ih =>
    intro hl
    have : sortBy lt (x :: rest) = insertBy lt x (sortBy lt rest) := rfl
    rw [this]
    have hrest := ih (pre ++ [x]) (by rw [hl]; simp)
    apply insertBy_pairwise lt (R := StableLt lt l) (fun a b c h1 h2 => stableLt_trans w hn h1 h2) x _ _ _ hrest
    · intro y _ hyx; exact Or.inl hyx
    · intro y hy hyx
      have hyr : y ∈ rest := (mem_sortBy lt y rest).1 hy
      exact Or.inr ⟨hyx, by rw [hl]; exact before_of_split hyr⟩

/-! ### CPython's algorithm realises it too -/

/-- consecutive elements related -/
def ChainR (R : α → α → Prop) : List α → Prop
  | [] => True
  | [_] => True
  | a :: b :: rest => R a b ∧ ChainR R (b :: rest)

theorem chain_pairwise {R : α → α → Prop} (htrans : ∀ a b c, R a b → R b c → R a c) :
    ∀ l : List α, ChainR R l → l.Pairwise R
  | [], _ => List.Pairwise.nil
  | [a], _ => by simp
  | a :: b :: rest, h => by
    have ih := chain_pairwise htrans (b :: rest) h.2
    refine List.pairwise_cons.2 ⟨?_, ih⟩
    intro z hz
    rcases List.mem_cons.1 hz with e | e
    · rw [e]; exact h.1
    · exact htrans a b z h.1 ((List.pairwise_cons.1 ih).1 z e)

/-- the run `count_run` finds: `prev` followed by the first `n − k` elements of the rest -/
theorem countRunGo_chain (lt : α → α → Bool) (desc : Bool) (prev : α) (k : Nat) (rest : List α) :
    ∃ m, countRunGo lt desc prev k rest = k + m ∧ m ≤ rest.length ∧
      ChainR (fun a b => if desc then lt b a = true else lt b a = false) (prev :: rest.take m) := by
  induction rest generalizing prev k with
  | nil => exact ⟨0, by simp [countRunGo], by simp, by simp [ChainR]⟩
  | cons x xs ih =>
    simp only [countRunGo]
    cases desc
    · simp only [Bool.false_eq_true, if_false]
      split
      · exact ⟨0, by simp, by simp, by simp [ChainR]⟩
      · rename_i hx
        obtain ⟨m, e, hm, hc⟩ := ih x (k + 1)
        refine ⟨m + 1, by rw [e]; omega, by simp; omega, ?_⟩
        simp only [List.take_succ_cons, ChainR]
        exact ⟨by simpa using hx, hc⟩
    · simp only [if_true]
      split
      · rename_i hx
        obtain ⟨m, e, hm, hc⟩ := ih x (k + 1)
        refine ⟨m + 1, by rw [e]; omega, by simp; omega, ?_⟩
        simp only [List.take_succ_cons, ChainR]
        exact ⟨by simpa using hx, hc⟩
      · exact ⟨0, by simp, by simp, by simp [ChainR]⟩


/-- the binary search of `binarysort` on an ascending list: everything before the position it
    returns is `≤ pivot`, everything from it on is `> pivot` -/
theorem binSearch_spec {lt : α → α → Bool} (w : WeakOrder lt) (s : List α) (pivot : α)
    (hs : s.Pairwise fun a b => lt b a = false) (fuel l r : Nat)
    (hl : ∀ j (hj : j < s.length), j < l → lt pivot s[j] = false)
    (hr : ∀ j (hj : j < s.length), r ≤ j → lt pivot s[j] = true)
    (hlr : l ≤ r) (hrl : r ≤ s.length) (hf : r - l < fuel) :
    binSearch lt s pivot fuel l r ≤ s.length ∧
    (∀ j (hj : j < s.length), j < binSearch lt s pivot fuel l r → lt pivot s[j] = false) ∧
    (∀ j (hj : j < s.length), binSearch lt s pivot fuel l r ≤ j → lt pivot s[j] = true) := by
  induction fuel generalizing l r with
  | zero => omega
  | succ n ih =>
    simp only [binSearch]
    by_cases hlt : l < r
    · rw [if_pos hlt]
      have hp : l + (r - l) / 2 < s.length := by omega
      rw [List.getElem?_eq_getElem hp]
      dsimp only
      cases hc : lt pivot s[l + (r - l) / 2]
      · simp only [Bool.false_eq_true, if_false]
        apply ih
        · intro j hj hjl
          by_cases e : j = l + (r - l) / 2
          · subst e; exact hc
          · have hjp : j < l + (r - l) / 2 := by omega
            have := (List.pairwise_iff_getElem.1 hs) j (l + (r - l) / 2) hj hp hjp
            exact w.le_trans this hc
        · exact hr
        · omega
        · exact hrl
        · omega
      · simp only [if_true]
        apply ih
        · exact hl
        · intro j hj hjr
          by_cases e : j = l + (r - l) / 2
          · subst e; exact hc
          · have hjp : l + (r - l) / 2 < j := by omega
            have := (List.pairwise_iff_getElem.1 hs) (l + (r - l) / 2) j hp hj hjp
            exact w.lt_of_lt_of_le hc this
        · omega
        · omega
        · omega
    · rw [if_neg hlt]
      have : l = r := by omega
      subst this
      exact ⟨hrl, hl, hr⟩

theorem before_of_mem_pre {x y : α} {pre rest : List α} (hy : y ∈ pre) : Before y x (pre ++ x :: rest) := by
  induction pre with
  | nil => cases hy
  | cons p ps ih =>
    by_cases e : p = y
    · exact Or.inl ⟨e, by simp⟩
    · rcases List.mem_cons.1 hy with h | h
      · exact absurd h.symm e
      · exact Or.inr (ih h)

/-- inserting the next element of the input at the position the binary search finds keeps the list
    ascending for the stable order -/
theorem binInsert_pairwise {lt : α → α → Bool} (w : WeakOrder lt) {L : List α} (hn : L.Nodup) (s : List α) (pivot : α)
    (hs : s.Pairwise (StableLt lt L)) (hb : ∀ y, y ∈ s → Before y pivot L) :
    (binInsert lt s pivot).Pairwise (StableLt lt L) := by
  have hweak : s.Pairwise fun a b => lt b a = false := hs.imp (fun h => stableLt_le w h)
  obtain ⟨hi, h1, h2⟩ := binSearch_spec w s pivot hweak (s.length + 1) 0 s.length
    (fun j hj h => by omega) (fun j hj h => by omega) (Nat.zero_le _) (Nat.le_refl _) (by omega)
  simp only [binInsert]
  generalize binSearch lt s pivot (s.length + 1) 0 s.length = i at hi h1 h2
  have hsplit := List.take_append_drop i s
  have hs' : (List.take i s ++ List.drop i s).Pairwise (StableLt lt L) := by rw [hsplit]; exact hs
  obtain ⟨ht, hd, hcross⟩ := List.pairwise_append.1 hs'
  have htake : ∀ y, y ∈ List.take i s → StableLt lt L y pivot := by
    intro y hy
    obtain ⟨j, hj, e⟩ := List.mem_take_iff_getElem.1 hy
    have hjl : j < s.length := by omega
    have := h1 j hjl (by omega)
    rw [e] at this
    exact Or.inr ⟨this, hb y (List.mem_of_mem_take hy)⟩
  have hdrop : ∀ z, z ∈ List.drop i s → StableLt lt L pivot z := by
    intro z hz
    obtain ⟨j, hj, e⟩ := List.mem_drop_iff_getElem.1 hz
    have := h2 (i + j) (by omega) (by omega)
    rw [e] at this
    exact Or.inl this
  refine List.pairwise_append.2 ⟨ht, List.pairwise_cons.2 ⟨hdrop, hd⟩, ?_⟩
  intro a ha b hb'
  rcases List.mem_cons.1 hb' with e | e
  · rw [e]; exact htake a ha
  · exact hcross a ha b e

theorem foldl_binInsert_pairwise {lt : α → α → Bool} (w : WeakOrder lt) {L : List α} (hn : L.Nodup) :
    ∀ (rest pre run : List α), L = pre ++ rest → (∀ y, y ∈ run ↔ y ∈ pre) → run.Pairwise (StableLt lt L) →
      (rest.foldl (binInsert lt) run).Pairwise (StableLt lt L) := by
  intro rest
  induction rest with
  | nil => intro pre run _ _ h; simpa using h
  | cons x xs ih =>
    intro pre run hL hmem hp
    simp only [List.foldl_cons]
    apply ih (pre ++ [x]) (binInsert lt run x) (by rw [hL]; simp)
    · intro y
      rw [(perm_binInsert lt run x).mem_iff]
      simp only [List.mem_cons, List.mem_append, List.mem_nil_iff, or_false, hmem]
      constructor
      · rintro (h | h)
        · exact Or.inr h
        · exact Or.inl h
      · rintro (h | h)
        · exact Or.inr h
        · exact Or.inl h
    · apply binInsert_pairwise w hn run x hp
      intro y hy
      rw [hL]
      exact before_of_mem_pre ((hmem y).1 hy)

/-- consecutive elements of a prefix of the input, tied or ascending, are in the stable order -/
theorem chain_stable_asc {lt : α → α → Bool} {L : List α} :
    ∀ (s pre : List α) (m : Nat), L = pre ++ s → ChainR (fun a b => lt b a = false) (s.take m) →
      ChainR (StableLt lt L) (s.take m) := by
  intro s
  induction s with
  | nil => intro pre m _ _; simp [ChainR]
  | cons a rest ih =>
    intro pre m hL hc
    cases m with
    | zero => simp [ChainR]
    | succ m =>
      cases rest with
      | nil => simp [ChainR]
      | cons b rest' =>
        cases m with
        | zero => simp [ChainR]
        | succ m =>
          simp only [List.take_succ_cons, ChainR] at hc ⊢
          refine ⟨Or.inr ⟨hc.1, by rw [hL]; exact before_of_split (by simp)⟩, ?_⟩
          have := ih (pre ++ [a]) (m + 1) (by rw [hL]; simp) (by simpa [List.take_succ_cons] using hc.2)
          simpa [List.take_succ_cons] using this

theorem countRun_spec (lt : α → α → Bool) (L : List α) :
    (countRun lt L).1 ≤ L.length ∧
    ChainR (fun a b => if (countRun lt L).2 then lt b a = true else lt b a = false) (L.take (countRun lt L).1) := by
  match L with
  | [] => simp [countRun, ChainR]
  | [a] => simp [countRun, ChainR]
  | a :: b :: rest =>
    simp only [countRun]
    split
    · rename_i hba
      obtain ⟨m, e, hm, hc⟩ := countRunGo_chain lt true b 2 rest
      simp only [e, if_true] at hc ⊢
      refine ⟨by simp; omega, ?_⟩
      have : List.take (2 + m) (a :: b :: rest) = a :: b :: rest.take m := by
        rw [show 2 + m = (m + 1) + 1 by omega]; simp [List.take_succ_cons]
      rw [this]
      exact ⟨hba, hc⟩
    · rename_i hba
      obtain ⟨m, e, hm, hc⟩ := countRunGo_chain lt false b 2 rest
      simp only [e, Bool.false_eq_true, if_false] at hc ⊢
      refine ⟨by simp; omega, ?_⟩
      have : List.take (2 + m) (a :: b :: rest) = a :: b :: rest.take m := by
        rw [show 2 + m = (m + 1) + 1 by omega]; simp [List.take_succ_cons]
      rw [this]
      exact ⟨by simpa using hba, hc⟩

/-- CPython's short-list sort returns a list ascending for the stable order -/
theorem pySort_pairwise_stable {lt : α → α → Bool} (w : WeakOrder lt) {L : List α} (hn : L.Nodup) :
    (pySort lt L).Pairwise (StableLt lt L) := by
  obtain ⟨hlen, hchain⟩ := countRun_spec lt L
  simp only [pySort]
  apply foldl_binInsert_pairwise w hn (L.drop (countRun lt L).1) (L.take (countRun lt L).1) _
    (List.take_append_drop _ _).symm
  · intro y
    split
    · exact List.mem_reverse
    · exact Iff.rfl
  · cases hd : (countRun lt L).2
    · simp only [hd, Bool.false_eq_true, if_false] at hchain ⊢
      have := chain_stable_asc (lt := lt) (L := L) L [] (countRun lt L).1 (by simp) hchain
      exact chain_pairwise (R := StableLt lt L) (fun a b c h1 h2 => stableLt_trans w hn h1 h2) _ this
    · simp only [hd, if_true] at hchain ⊢
      have hp : (L.take (countRun lt L).1).Pairwise (fun a b => lt b a = true) :=
        chain_pairwise (R := fun a b => lt b a = true) (fun a b c h1 h2 => w.trans c b a h2 h1) _ hchain
      rw [List.pairwise_reverse]
      exact hp.imp (fun h => Or.inl h)

/-- for a strict weak order CPython's short-list sort is the stable sort -/
theorem pySort_eq_sortBy {lt : α → α → Bool} (w : WeakOrder lt) {L : List α} (hn : L.Nodup) :
    pySort lt L = sortBy lt L := by
  apply pairwise_perm_eq (R := StableLt lt L) (fun a => stableLt_irr w hn a)
    (fun a b c h1 h2 => stableLt_trans w hn h1 h2)
  · exact pySort_pairwise_stable w hn
  · exact sortBy_pairwise_stable w hn [] L (by simp)
  · exact (perm_pySort lt L).trans (perm_sortBy lt L).symm

end
end ASV.CC
