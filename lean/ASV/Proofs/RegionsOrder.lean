/-
  C06 helper lemmas, part 7: location order.  `bisect_left` and the scan of `add_region` find the split
  point of a key-sorted list; on a linear record every list of the record stays sorted by
  (start, longer first) through every operation.
-/
import ASV.Proofs.RegionsInv
import ASV.Proofs.RegionsComponents
namespace ASV.Regions
open ASV

/-- `bisect_left` on a list sorted by key, with a comparison that is the key order: the result splits
    the list into the elements smaller than `x` and the rest -/
theorem bisectLeft_sorted (key : Feat → Int × Int) (kx : Int × Int) (l : List Feat) (lt : Feat → E Bool)
    (hs : SortedBy key l) (hlt : ∀ y ∈ l, lt y = .ok (keyLt (key y) kx))
    (fuel lo hi : Nat) (hlo : lo ≤ hi) (hhi : hi ≤ l.length) (hf : hi - lo < fuel)
    (h1 : ∀ j y, j < lo → l[j]? = some y → keyLt (key y) kx = true)
    (h2 : ∀ j y, hi ≤ j → l[j]? = some y → keyLt (key y) kx = false) :
    ∃ r, bisectLeft lt l fuel lo hi = .ok r ∧ r ≤ l.length ∧
      (∀ j y, j < r → l[j]? = some y → keyLt (key y) kx = true) ∧
      (∀ j y, r ≤ j → l[j]? = some y → keyLt (key y) kx = false) := by
  induction fuel generalizing lo hi with
  | zero => omega
  | succ n ih =>
    simp only [bisectLeft]
    by_cases hlh : lo < hi
    · simp only [hlh, if_true]
      have hmid : (lo + hi) / 2 < l.length := by omega
      obtain ⟨y, hy⟩ : ∃ y, l[(lo + hi) / 2]? = some y := ⟨l[(lo + hi) / 2], by simp [hmid]⟩
      have hym : y ∈ l := List.mem_of_getElem? hy
      simp only [hy, hlt y hym, bind, Except.bind]
      have hpair := List.pairwise_iff_getElem.1 hs
      cases hk : keyLt (key y) kx with
      | true =>
        simp only [if_true]
        apply ih _ _ (by omega) hhi (by omega)
        · intro j z hj hz
          by_cases hjm : j < (lo + hi) / 2
          · -- z before y in a sorted list: key z ≤ key y < kx
            have hjl : j < l.length := by omega
            have hz' : l[j] = z := by
              have := List.getElem?_eq_getElem hjl; rw [this] at hz; simpa using hz
            have hy' : l[(lo + hi) / 2] = y := by
              have := List.getElem?_eq_getElem hmid; rw [this] at hy; simpa using hy
            have := hpair j ((lo + hi) / 2) hjl hmid hjm
            rw [hz', hy'] at this
            rw [keyLt_false_iff] at this
            rw [keyLt_iff] at hk ⊢
            omega
          · have : j = (lo + hi) / 2 := by omega
            subst this
            rw [hy] at hz
            cases hz
            exact hk
        · exact h2
      | false =>
        simp only [Bool.false_eq_true, if_false]
        apply ih _ _ (by omega) (by omega) (by omega) h1
        intro j z hj hz
        by_cases hjm : (lo + hi) / 2 < j
        · have hjl : j < l.length := by
            by_cases hc : j < l.length
            · exact hc
            · rw [List.getElem?_eq_none (by omega)] at hz; cases hz
          have hz' : l[j] = z := by
            have := List.getElem?_eq_getElem hjl; rw [this] at hz; simpa using hz
          have hy' : l[(lo + hi) / 2] = y := by
            have := List.getElem?_eq_getElem hmid; rw [this] at hy; simpa using hy
          have := hpair ((lo + hi) / 2) j hmid hjl hjm
          rw [hz', hy'] at this
          rw [keyLt_false_iff] at this hk ⊢
          omega
        · have : j = (lo + hi) / 2 := by omega
          subst this
          rw [hy] at hz
          cases hz
          exact hk
    · simp only [hlh, if_false, pure, Except.pure]
      refine ⟨lo, rfl, by omega, h1, ?_⟩
      intro j y hj hy
      exact h2 j y (by omega) hy

/-- `bisect` with any comparison that is monotone along a key-sorted list (true on a prefix, false on the
    rest): the result is the split point.  Covers `bisect_left` (`l[mid] < x`) and `bisect_right`
    (`not (x < l[mid])`). -/
theorem bisect_mono (key : Feat → Int × Int) (P : Feat → Bool) (l : List Feat) (lt : Feat → E Bool)
    (hs : SortedBy key l) (hlt : ∀ y ∈ l, lt y = .ok (P y))
    (hmono : ∀ a b, keyLt (key b) (key a) = false → P b = true → P a = true)
    (fuel lo hi : Nat) (hlo : lo ≤ hi) (hhi : hi ≤ l.length) (hf : hi - lo < fuel)
    (h1 : ∀ j y, j < lo → l[j]? = some y → P y = true)
    (h2 : ∀ j y, hi ≤ j → l[j]? = some y → P y = false) :
    ∃ r, bisectLeft lt l fuel lo hi = .ok r ∧ r ≤ l.length ∧
      (∀ j y, j < r → l[j]? = some y → P y = true) ∧
      (∀ j y, r ≤ j → l[j]? = some y → P y = false) := by
  induction fuel generalizing lo hi with
  | zero => omega
  | succ n ih =>
    simp only [bisectLeft]
    by_cases hlh : lo < hi
    · simp only [hlh, if_true]
      have hmid : (lo + hi) / 2 < l.length := by omega
      obtain ⟨y, hy⟩ : ∃ y, l[(lo + hi) / 2]? = some y := ⟨l[(lo + hi) / 2], by simp [hmid]⟩
      have hym : y ∈ l := List.mem_of_getElem? hy
      simp only [hy, hlt y hym, bind, Except.bind]
      have hpair := List.pairwise_iff_getElem.1 hs
      cases hk : P y with
      | true =>
        simp only [if_true]
        apply ih _ _ (by omega) hhi (by omega)
        · intro j z hj hz
          by_cases hjm : j < (lo + hi) / 2
          · have hjl : j < l.length := by omega
            have hz' : l[j] = z := by
              have := List.getElem?_eq_getElem hjl; rw [this] at hz; simpa using hz
            have hy' : l[(lo + hi) / 2] = y := by
              have := List.getElem?_eq_getElem hmid; rw [this] at hy; simpa using hy
            have := hpair j ((lo + hi) / 2) hjl hmid hjm
            rw [hz', hy'] at this
            exact hmono z y this hk
          · have : j = (lo + hi) / 2 := by omega
            subst this
            rw [hy] at hz
            cases hz
            exact hk
        · exact h2
      | false =>
        simp only [Bool.false_eq_true, if_false]
        apply ih _ _ (by omega) (by omega) (by omega) h1
        intro j z hj hz
        by_cases hjm : (lo + hi) / 2 < j
        · have hjl : j < l.length := by
            by_cases hc : j < l.length
            · exact hc
            · rw [List.getElem?_eq_none (by omega)] at hz; cases hz
          have hz' : l[j] = z := by
            have := List.getElem?_eq_getElem hjl; rw [this] at hz; simpa using hz
          have hy' : l[(lo + hi) / 2] = y := by
            have := List.getElem?_eq_getElem hmid; rw [this] at hy; simpa using hy
          have := hpair ((lo + hi) / 2) j hmid hjl hjm
          rw [hz', hy'] at this
          cases hz2 : P z with
          | false => rfl
          | true => rw [hmono y z this hz2] at hk; cases hk
        · have : j = (lo + hi) / 2 := by omega
          subst this
          rw [hy] at hz
          cases hz
          exact hk
    · simp only [hlh, if_false, pure, Except.pure]
      refine ⟨lo, rfl, by omega, h1, ?_⟩
      intro j y hj hy
      exact h2 j y (by omega) hy

/-- inserting at such a split point keeps the list sorted -/
theorem insertAt_sorted (key : Feat → Int × Int) (x : Feat) (l : List Feat) (r : Nat) (hr : r ≤ l.length)
    (hs : SortedBy key l)
    (h1 : ∀ j y, j < r → l[j]? = some y → keyLt (key x) (key y) = false)
    (h2 : ∀ j y, r ≤ j → l[j]? = some y → keyLt (key y) (key x) = false) :
    SortedBy key (insertAt l r x) := by
  simp only [SortedBy, insertAt]
  have hsplit := List.take_append_drop r l
  have hs' : (l.take r ++ l.drop r).Pairwise (fun a b => keyLt (key b) (key a) = false) := by rw [hsplit]; exact hs
  have hp := List.pairwise_append.1 hs'
  refine List.pairwise_append.2 ⟨hp.1, List.pairwise_cons.2 ⟨?_, hp.2.1⟩, ?_⟩
  · intro y hy
    obtain ⟨j, hj⟩ := List.getElem?_of_mem hy
    rw [List.getElem?_drop] at hj
    exact h2 (r + j) y (by omega) hj
  · intro a ha b hb
    simp only [List.mem_cons] at hb
    rcases hb with rfl | hb
    · obtain ⟨j, hj⟩ := List.getElem?_of_mem ha
      have hjr : j < r := by
        by_cases hc : j < r
        · exact hc
        · rw [List.getElem?_eq_none (by simp; omega)] at hj
          cases hj
      rw [List.getElem?_take_of_lt hjr] at hj
      exact h1 j a hjr hj
    · exact hp.2.2 a ha b hb


/-- sort key of a member of a linear record -/
def lkey (f : Feat) : Int × Int := lineKey f.loc

theorem insertSorted_sorted {len : Int} {l : List Feat} {d : Dict Nat} {x : Feat} {l' : List Feat} {d' : Dict Nat}
    (hs : SortedBy lkey l) (hl : ∀ y ∈ l, LineArea len y.loc) (hx : LineArea len x.loc)
    (h : insertSorted l d x = .ok (l', d')) : SortedBy lkey l' := by
  obtain ⟨r, hr1, hr2, hr3, hr4⟩ := bisectLeft_sorted lkey (lkey x) l (fun y => collectionLt y.loc x.loc) hs
    (fun y hy => collectionLt_line (hl y hy) hx) (l.length + 1) 0 l.length (Nat.zero_le _) (Nat.le_refl _) (by omega)
    (by intro j y hj; omega)
    (by intro j y hj hy; rw [List.getElem?_eq_none (by omega)] at hy; cases hy)
  simp only [insertSorted, insertSortedWith, hr1, bind, Except.bind, pure, Except.pure, Except.ok.injEq, Prod.mk.injEq] at h
  rw [← h.1]
  apply insertAt_sorted lkey x l r hr2 hs
  · intro j y hj hy
    have := hr3 j y hj hy
    rw [keyLt_iff] at this
    rw [keyLt_false_iff]
    omega
  · exact hr4

/-- the same for `bisect_right` (add_protocluster / add_subregion) -/
theorem insertSortedRight_sorted {len : Int} {l : List Feat} {d : Dict Nat} {x : Feat} {l' : List Feat} {d' : Dict Nat}
    (hs : SortedBy lkey l) (hl : ∀ y ∈ l, LineArea len y.loc) (hx : LineArea len x.loc)
    (h : insertSortedRight l d x = .ok (l', d')) : SortedBy lkey l' := by
  obtain ⟨r, hr1, hr2, hr3, hr4⟩ := bisect_mono lkey (fun y => !keyLt (lkey x) (lkey y)) l
    (fun y => do pure (!(← collectionLt x.loc y.loc))) hs
    (fun y hy => by simp only [collectionLt_line hx (hl y hy), bind, Except.bind, pure, Except.pure]; rfl)
    (by
      intro a b hab hb
      simp only [Bool.not_eq_true', keyLt_false_iff] at hab hb ⊢
      omega)
    (l.length + 1) 0 l.length (Nat.zero_le _) (Nat.le_refl _) (by omega)
    (by intro j y hj; omega)
    (by intro j y hj hy; rw [List.getElem?_eq_none (by omega)] at hy; cases hy)
  unfold insertSortedRight insertSortedWith at h
  rw [show bisectLeft (fun y => do pure (!(← collectionLt x.loc y.loc))) l (l.length + 1) 0 l.length = .ok r from hr1] at h
  simp only [bind, Except.bind, pure, Except.pure, Except.ok.injEq, Prod.mk.injEq] at h
  rw [← h.1]
  apply insertAt_sorted lkey x l r hr2 hs
  · intro j y hj hy
    have := hr3 j y hj hy
    simpa using this
  · intro j y hj hy
    have := hr4 j y hj hy
    simp only [Bool.not_eq_false', keyLt_iff] at this
    rw [keyLt_false_iff]
    omega

theorem regionIndex_sorted (key : Feat → Int × Int) (region : Feat) (l : List Feat) (hs : SortedBy key l)
    (hlt : ∀ y ∈ l, collectionLt region.loc y.loc = .ok (keyLt (key region) (key y))) (i r : Nat)
    (h : regionIndex region i l = .ok r) :
    (∀ j y, j < r - i → l[j]? = some y → keyLt (key region) (key y) = false) ∧
    (∀ j y, r - i ≤ j → l[j]? = some y → keyLt (key y) (key region) = false) := by
  induction l generalizing i with
  | nil => simp
  | cons x xs ih =>
    have hs' := List.pairwise_cons.1 hs
    simp only [regionIndex, hlt x (by simp), bind, Except.bind] at h
    split at h
    · cases h
    · cases hk : keyLt (key region) (key x) with
      | true =>
        simp only [hk, if_true] at h
        split at h
        · cases h
        · simp only [pure, Except.pure, Except.ok.injEq] at h
          subst h
          refine ⟨by intro j y hj; omega, ?_⟩
          intro j y _ hy
          have hy' : y ∈ x :: xs := List.mem_of_getElem? hy
          simp only [List.mem_cons] at hy'
          rw [keyLt_iff] at hk
          rcases hy' with rfl | hy'
          · rw [keyLt_false_iff]; omega
          · have := hs'.1 y hy'
            rw [keyLt_false_iff] at this ⊢
            omega
      | false =>
        simp only [hk, Bool.false_eq_true, if_false] at h
        have hb := (regionIndex_ok region (i + 1) r xs h).1
        obtain ⟨ih1, ih2⟩ := ih hs'.2 (fun y hy => hlt y (by simp [hy])) (i + 1) h
        constructor
        · intro j y hj hy
          cases j with
          | zero => simp only [List.getElem?_cons_zero, Option.some.injEq] at hy; subst hy; exact hk
          | succ j =>
            simp only [List.getElem?_cons_succ] at hy
            exact ih1 j y (by omega) hy
        · intro j y hj hy
          cases j with
          | zero => omega
          | succ j =>
            simp only [List.getElem?_cons_succ] at hy
            exact ih2 j y (by omega) hy


/-- linear record, every member a non-empty single span inside it, every list in location order -/
structure LineSorted (s : State) : Prop where
  lin : s.circular = false
  locs : ∀ f ∈ s.protos ++ s.cands ++ s.subs ++ s.pool ++ s.regions, LineArea s.len f.loc
  sP : SortedBy lkey s.protos
  sC : SortedBy lkey s.cands
  sS : SortedBy lkey s.subs
  sR : SortedBy lkey s.regions

/-- the areas an operation introduces are non-empty single spans inside the record -/
def OpLine (len : Int) : Op → Prop
  | .addProto loc => LineArea len loc
  | .addSub loc => LineArea len loc
  | _ => True

theorem mem5 {s : State} {f : Feat} :
    f ∈ s.protos ++ s.cands ++ s.subs ++ s.pool ++ s.regions ↔
      f ∈ s.protos ∨ f ∈ s.cands ∨ f ∈ s.subs ∨ f ∈ s.pool ∨ f ∈ s.regions := by
  simp only [List.mem_append, or_assoc]

theorem addRegion_ok' {s s' : State} {region : Feat} (h : addRegion s region = .ok s') :
    ∃ index, regionIndex region 0 s.regions = .ok index ∧ index ≤ s.regions.length ∧
      s'.regions = insertAt s.regions index { region with cdses := cdsWithin s.cds region.loc } ∧
      s'.protos = s.protos ∧ s'.cands = s.cands ∧ s'.subs = s.subs ∧ s'.pool = s.pool ∧ s'.len = s.len ∧
      s'.circular = s.circular := by
  simp only [addRegion, bind, Except.bind, pure, Except.pure] at h
  split at h
  · cases h
  · split at h
    · cases h
    · next index hidx =>
      simp only [Except.ok.injEq] at h
      have := regionIndex_ok region 0 index s.regions hidx
      subst h
      exact ⟨index, hidx, by omega, rfl, rfl, rfl, rfl, rfl, rfl, rfl⟩

theorem mkAddRegion_sorted {s s1 s2 : State} {cands subs : List Feat} {r : Feat} (hl : LineSorted s)
    (hc : ∀ f ∈ cands, f ∈ s.cands ++ s.pool) (hs : ∀ f ∈ subs, f ∈ s.subs)
    (hmk : mkRegion s cands subs = .ok (s1, r)) (hadd : addRegion s1 r = .ok s2) : LineSorted s2 := by
  have hne : subs ++ cands ≠ [] := by
    intro he
    have h1 : cands = [] := (List.append_eq_nil_iff.1 he).2
    have h2 : subs = [] := (List.append_eq_nil_iff.1 he).1
    subst h1; subst h2
    simp [mkRegion, bind, Except.bind] at hmk
  have hch : ∀ f ∈ subs ++ cands, LineArea s.len f.loc := by
    intro f hf
    apply hl.locs f
    rw [mem5]
    rcases List.mem_append.1 hf with h | h
    · exact Or.inr (Or.inr (Or.inl (hs f h)))
    · rcases List.mem_append.1 (hc f h) with h' | h'
      · exact Or.inr (Or.inl h')
      · exact Or.inr (Or.inr (Or.inr (Or.inl h')))
  have hmk' := mkRegion_line (len := s.len) s cands subs hne hch
  rw [hmk'] at hmk
  simp only [Except.ok.injEq, Prod.mk.injEq] at hmk
  obtain ⟨rfl, rfl⟩ := hmk
  have hb := hull_bounds _ hne hch
  have hrl : LineArea s.len (newRegion s cands subs).loc := ⟨_, rfl, hb.1, hb.2.1, hb.2.2⟩
  obtain ⟨index, hidx, hle, e1, e2, e3, e4, e5, e6, e7⟩ := addRegion_ok' hadd
  have hregs : ∀ y ∈ s.regions, LineArea s.len y.loc := fun y hy => hl.locs y (by rw [mem5]; simp [hy])
  refine ⟨by rw [e7]; exact hl.lin, ?_, by rw [e2]; exact hl.sP, by rw [e3]; exact hl.sC, by rw [e4]; exact hl.sS, ?_⟩
  · intro f hf
    rw [mem5, e1, e2, e3, e4, e5, (insertAt_perm _ _ _).mem_iff, List.mem_cons] at hf
    rw [e6]
    show LineArea s.len f.loc
    rcases hf with h | h | h | h | h | h
    · exact hl.locs f (mem5.2 (Or.inl h))
    · exact hl.locs f (mem5.2 (Or.inr (Or.inl h)))
    · exact hl.locs f (mem5.2 (Or.inr (Or.inr (Or.inl h))))
    · exact hl.locs f (mem5.2 (Or.inr (Or.inr (Or.inr (Or.inl h)))))
    · subst h; exact hrl
    · exact hregs f h
  · rw [e1]
    have hsr : SortedBy lkey (afterMk s (subs ++ cands)).regions := hl.sR
    obtain ⟨h1, h2⟩ := regionIndex_sorted lkey (newRegion s cands subs) (afterMk s (subs ++ cands)).regions hsr
      (fun y hy => collectionLt_line hrl (hregs y hy)) 0 index hidx
    apply insertAt_sorted lkey _ _ index hle hsr
    · intro j y hj hy; exact h1 j y (by omega) hy
    · intro j y hj hy; exact h2 j y (by omega) hy

theorem addSections_sorted {s s' : State} {secs : List Sec} (hi : Inv s) (hl : LineSorted s)
    (hsub : ∀ sec ∈ secs, ∀ a ∈ sec.2, a ∈ s.cands ++ s.pool ++ s.subs)
    (h : addSections s secs = .ok s') : LineSorted s' := by
  induction secs generalizing s with
  | nil =>
    simp only [addSections, pure, Except.pure, Except.ok.injEq] at h
    subst h; exact hl
  | cons sec secs ih =>
    obtain ⟨l, areas⟩ := sec
    rw [addSections_cons'] at h
    simp only [bind, Except.bind] at h
    split at h
    · cases h
    · next v hmk =>
      obtain ⟨s1, r⟩ := v
      simp only at h
      split at h
      · cases h
      · next s2 hadd =>
        have hin := hsub (l, areas) (by simp)
        have hc : ∀ f ∈ areas.filter (·.kind == .cand), f ∈ s.cands ++ s.pool := by
          intro f hf
          obtain ⟨hfa, hk⟩ := List.mem_filter.1 hf
          rcases List.mem_append.1 (hin f hfa) with h1 | h1
          · exact h1
          · have := hi.kindS f h1
            simp [this] at hk
        have hs : ∀ f ∈ areas.filter (·.kind != .cand), f ∈ s.subs := by
          intro f hf
          obtain ⟨hfa, hk⟩ := List.mem_filter.1 hf
          rcases List.mem_append.1 (hin f hfa) with h1 | h1
          · rcases List.mem_append.1 h1 with h2 | h2
            · have := hi.kindC f h2
              simp [this] at hk
            · have := hi.kindPool f h2
              simp [this] at hk
          · exact h1
        obtain ⟨hi2, hsame⟩ := mkAddRegion_inv hi hc hs hmk hadd
        exact ih hi2 (mkAddRegion_sorted hl hc hs hmk hadd) (by
          intro sec hsec a ha
          rw [hsame.2.1, hsame.2.2.1, hsame.2.2.2.1]
          exact hsub sec (by simp [hsec]) a ha) h

theorem createRegionsOf_sorted {s s' : State} {cands subs : List Feat} (hi : Inv s) (hl : LineSorted s)
    (hc : ∀ f ∈ cands, f ∈ s.cands ++ s.pool) (hs : ∀ f ∈ subs, f ∈ s.subs) (hnd : (ids (cands ++ subs)).Nodup)
    (h : createRegionsOf s cands subs = .ok s') : LineSorted s' := by
  simp only [createRegionsOf] at h
  split at h
  · simp only [pure, Except.pure, Except.ok.injEq] at h
    subst h; exact hl
  · simp only [bind, Except.bind] at h
    split at h
    · cases h
    · next secs hsecs =>
      have hp := sectionsOf_perm hnd hsecs
      apply addSections_sorted hi hl _ h
      intro sec hsec a ha
      have := hp.mem_iff.1 (List.mem_flatten.2 ⟨sec.2, List.mem_map.2 ⟨sec, hsec, rfl⟩, ha⟩)
      rcases List.mem_append.1 this with h1 | h1
      · exact List.mem_append.2 (Or.inl (hc a h1))
      · exact List.mem_append.2 (Or.inr (hs a h1))

theorem createRegions_sorted {s s' : State} (hi : Inv s) (hl : LineSorted s) (h : createRegions s = .ok s') :
    LineSorted s' :=
  createRegionsOf_sorted hi hl (fun f hf => List.mem_append.2 (Or.inl hf)) (fun f hf => hf) (nodup_areas hi) h

theorem mkCand_loc {s s1 : State} {pids : List Nat} {c : Feat} (h : mkCand s pids = .ok (s1, c)) :
    ∃ ps, (∀ p ∈ ps, p ∈ s.protos) ∧ ps ≠ [] ∧ connect (ps.map (·.loc)) s.wrap = .ok c.loc ∧
      s1.protos = s.protos ∧ s1.cands = s.cands ∧ s1.subs = s.subs ∧ s1.pool = s.pool ∧ s1.regions = s.regions ∧
      s1.len = s.len ∧ s1.circular = s.circular := by
  simp only [mkCand, bind, Except.bind, pure, Except.pure] at h
  split at h
  · cases h
  · next hemp =>
    split at h
    · cases h
    · next ps hps =>
      split at h
      · cases h
      · next loc hloc =>
        split at h
        · cases h
        · split at h
          · cases h
          · next par hpar =>
            simp only [Except.ok.injEq, Prod.mk.injEq] at h
            obtain ⟨h1, h2⟩ := h
            have hfa := findAll_ok hps
            refine ⟨ps, hfa.2, ?_, by rw [← h2]; exact hloc, by rw [← h1], by rw [← h1], by rw [← h1], by rw [← h1],
              by rw [← h1], by rw [← h1], by rw [← h1]⟩
            intro he
            subst he
            have := hfa.1
            simp only [ids, List.map_nil] at this
            subst this
            simp at hemp

theorem lineKey_hull_area {len : Int} (ps : List Feat) (hne : ps ≠ []) (h : ∀ p ∈ ps, LineArea len p.loc) (loc : Loc)
    (hc : connect (ps.map (·.loc)) none = .ok loc) : LineArea len loc := by
  rw [connect_line _ (by simpa using hne)] at hc
  · simp only [Except.ok.injEq] at hc
    subst hc
    have hb := hull_bounds ps hne h
    simp only [List.map_map]
    exact ⟨_, rfl, hb.1, hb.2.1, hb.2.2⟩
  · intro l hl
    obtain ⟨f, hf, rfl⟩ := List.mem_map.1 hl
    exact (h f hf).parts

theorem sortedBy_nil (key : Feat → Int × Int) : SortedBy key [] := List.Pairwise.nil

theorem clearRegions_sorted {s : State} (hl : LineSorted s) : LineSorted (clearRegions s) := by
  refine ⟨hl.lin, ?_, hl.sP, hl.sC, hl.sS, sortedBy_nil _⟩
  intro f hf
  have hf' := mem5.1 hf
  simp only [clearRegions_fields, List.not_mem_nil, or_false] at hf'
  exact hl.locs f (mem5.2 (by
    rcases hf' with h | h | h | h
    · exact Or.inl h
    · exact Or.inr (Or.inl h)
    · exact Or.inr (Or.inr (Or.inl h))
    · exact Or.inr (Or.inr (Or.inr (Or.inl h)))))

theorem dropProtos_sorted {s : State} (hl : LineSorted s) : LineSorted { s with protos := [] } := by
  refine ⟨hl.lin, ?_, sortedBy_nil _, hl.sC, hl.sS, hl.sR⟩
  intro f hf
  have hf' := mem5.1 hf
  simp only [List.not_mem_nil, false_or] at hf'
  exact hl.locs f (mem5.2 (Or.inr hf'))

theorem dropCands_sorted {s : State} (hl : LineSorted s) (par : Dict (Option Nat)) :
    LineSorted { s with cands := [], parent := par } := by
  refine ⟨hl.lin, ?_, hl.sP, sortedBy_nil _, hl.sS, hl.sR⟩
  intro f hf
  have hf' := mem5.1 hf
  simp only [List.not_mem_nil, false_or] at hf'
  exact hl.locs f (mem5.2 (by
    rcases hf' with h | h
    · exact Or.inl h
    · exact Or.inr (Or.inr h)))

theorem dropSubs_sorted {s : State} (hl : LineSorted s) : LineSorted { s with subs := [] } := by
  refine ⟨hl.lin, ?_, hl.sP, hl.sC, sortedBy_nil _, hl.sR⟩
  intro f hf
  have hf' := mem5.1 hf
  simp only [List.not_mem_nil, false_or] at hf'
  exact hl.locs f (mem5.2 (by
    rcases hf' with h | h | h
    · exact Or.inl h
    · exact Or.inr (Or.inl h)
    · exact Or.inr (Or.inr (Or.inr h))))

theorem clearCandidates_sorted {s s' : State} (hi : Inv s) (hl : LineSorted s) (h : clearCandidates s = .ok s') :
    LineSorted s' ∧ s'.len = s.len := by
  simp only [clearCandidates] at h
  split at h
  · have hi' := clearRegions_inv (dropCands_inv hi)
    exact ⟨createRegions_sorted hi' (clearRegions_sorted (dropCands_sorted hl _)) h, (createRegions_inv hi' h).2.2.2.2.2.1⟩
  · simp only [pure, Except.pure, Except.ok.injEq] at h
    subst h
    exact ⟨dropCands_sorted hl _, rfl⟩

/-- every operation keeps a linear record's lists in location order -/
theorem step_sorted {s s' : State} (op : Op) (hi : Inv s) (hl : LineSorted s) (hop : OpLine s.len op)
    (h : step s op = .ok s') : LineSorted s' ∧ s'.len = s.len := by
  have hw : s.wrap = none := by simp [State.wrap, hl.lin]
  cases op with
  | addProto loc =>
    obtain ⟨l, d, hins, rfl⟩ := addProtocluster_ok h
    have hp := (insertSortedRight_numbered hi.numP (by
      have hnp := nodup_parts hi
      simp only [ids, List.map_cons, List.nodup_cons]
      refine ⟨?_, hnp.1⟩
      intro hm
      obtain ⟨f, hf, e⟩ := List.mem_map.1 hm
      have := hi.fresh f (by simp [hf])
      omega) hins).2
    refine ⟨⟨hl.lin, ?_, ?_, hl.sC, hl.sS, hl.sR⟩, rfl⟩
    · intro f hf
      rw [mem5] at hf
      show LineArea s.len f.loc
      rcases hf with h | h | h | h | h
      · rcases List.mem_cons.1 (hp.mem_iff.1 h) with rfl | h
        · exact hop
        · exact hl.locs f (mem5.2 (Or.inl h))
      · exact hl.locs f (mem5.2 (Or.inr (Or.inl h)))
      · exact hl.locs f (mem5.2 (Or.inr (Or.inr (Or.inl h))))
      · exact hl.locs f (mem5.2 (Or.inr (Or.inr (Or.inr (Or.inl h)))))
      · exact hl.locs f (mem5.2 (Or.inr (Or.inr (Or.inr (Or.inr h)))))
    · exact insertSortedRight_sorted (x := ⟨s.nextId, .proto, loc, [], [], []⟩) hl.sP
        (fun y hy => hl.locs y (mem5.2 (Or.inl hy))) hop hins
  | addSub loc =>
    obtain ⟨l, d, hins, rfl⟩ := addSubregion_ok h
    have hp := (insertSortedRight_numbered hi.numS (by
      have hnp := nodup_parts hi
      simp only [ids, List.map_cons, List.nodup_cons]
      refine ⟨?_, hnp.2.2.1⟩
      intro hm
      obtain ⟨f, hf, e⟩ := List.mem_map.1 hm
      have := hi.fresh f (by simp [hf])
      omega) hins).2
    refine ⟨⟨hl.lin, ?_, hl.sP, hl.sC, ?_, hl.sR⟩, rfl⟩
    · intro f hf
      rw [mem5] at hf
      show LineArea s.len f.loc
      rcases hf with h | h | h | h | h
      · exact hl.locs f (mem5.2 (Or.inl h))
      · exact hl.locs f (mem5.2 (Or.inr (Or.inl h)))
      · rcases List.mem_cons.1 (hp.mem_iff.1 h) with rfl | h
        · exact hop
        · exact hl.locs f (mem5.2 (Or.inr (Or.inr (Or.inl h))))
      · exact hl.locs f (mem5.2 (Or.inr (Or.inr (Or.inr (Or.inl h)))))
      · exact hl.locs f (mem5.2 (Or.inr (Or.inr (Or.inr (Or.inr h)))))
    · exact insertSortedRight_sorted (x := ⟨s.nextId, .sub, loc, [], [], []⟩) hl.sS
        (fun y hy => hl.locs y (mem5.2 (Or.inr (Or.inr (Or.inl hy))))) hop hins
  | mkCand pids =>
    simp only [step, bind, Except.bind, pure, Except.pure] at h
    split at h
    · cases h
    · next v hv =>
      obtain ⟨s1, c⟩ := v
      simp only [Except.ok.injEq] at h
      subst h
      obtain ⟨ps, hps, hne, hconn, e1, e2, e3, e4, e5, e6, e7⟩ := mkCand_loc hv
      rw [hw] at hconn
      have hcl : LineArea s.len c.loc :=
        lineKey_hull_area ps hne (fun p hp => hl.locs p (mem5.2 (Or.inl (hps p hp)))) _ hconn
      refine ⟨⟨by show s1.circular = false; rw [e7]; exact hl.lin, ?_, by show SortedBy lkey s1.protos; rw [e1]; exact hl.sP,
        by show SortedBy lkey s1.cands; rw [e2]; exact hl.sC, by show SortedBy lkey s1.subs; rw [e3]; exact hl.sS,
        by show SortedBy lkey s1.regions; rw [e5]; exact hl.sR⟩, e6⟩
      intro f hf
      have hf' : f ∈ s1.protos ∨ f ∈ s1.cands ∨ f ∈ s1.subs ∨ f ∈ s1.pool ++ [c] ∨ f ∈ s1.regions := mem5.1 hf
      rw [e1, e2, e3, e4, e5] at hf'
      show LineArea s1.len f.loc
      rw [e6]
      rcases hf' with h | h | h | h | h
      · exact hl.locs f (mem5.2 (Or.inl h))
      · exact hl.locs f (mem5.2 (Or.inr (Or.inl h)))
      · exact hl.locs f (mem5.2 (Or.inr (Or.inr (Or.inl h))))
      · rcases List.mem_append.1 h with h | h
        · exact hl.locs f (mem5.2 (Or.inr (Or.inr (Or.inr (Or.inl h)))))
        · simp only [List.mem_singleton] at h; subst h; exact hcl
      · exact hl.locs f (mem5.2 (Or.inr (Or.inr (Or.inr (Or.inr h)))))
  | addCand id =>
    obtain ⟨x, l, d, hx, hins, rfl⟩ := addCandidate_ok h
    have hxp := findId_some hx
    have hxl : LineArea s.len x.loc := hl.locs x (mem5.2 (Or.inr (Or.inr (Or.inr (Or.inl hxp.1)))))
    have hp := (insertSorted_numbered hi.numC (by
      have hnp := nodup_parts hi
      have := hi.nodup
      simp only [ids_append] at this
      have h1 := List.nodup_append.1 this
      simp only [ids, List.map_cons, List.nodup_cons]
      refine ⟨?_, hnp.2.1⟩
      intro hm
      exact h1.2.2 x.id (List.mem_append.2 (Or.inl (List.mem_append.2 (Or.inr hm)))) x.id (mem_ids.2 ⟨x, hxp.1, rfl⟩) rfl) hins).2
    refine ⟨⟨hl.lin, ?_, hl.sP, ?_, hl.sS, hl.sR⟩, rfl⟩
    · intro f hf
      rw [mem5] at hf
      show LineArea s.len f.loc
      rcases hf with h | h | h | h | h
      · exact hl.locs f (mem5.2 (Or.inl h))
      · rcases List.mem_cons.1 (hp.mem_iff.1 h) with rfl | h
        · exact hxl
        · exact hl.locs f (mem5.2 (Or.inr (Or.inl h)))
      · exact hl.locs f (mem5.2 (Or.inr (Or.inr (Or.inl h))))
      · exact hl.locs f (mem5.2 (Or.inr (Or.inr (Or.inr (Or.inl (List.mem_filter.1 h).1)))))
      · exact hl.locs f (mem5.2 (Or.inr (Or.inr (Or.inr (Or.inr h)))))
    · exact insertSorted_sorted hl.sC (fun y hy => hl.locs y (mem5.2 (Or.inr (Or.inl hy)))) hxl hins
  | reparent pids cid =>
    simp only [step] at h
    split at h
    · cases h
    · simp only [bind, Except.bind, pure, Except.pure] at h
      split at h
      · cases h
      · split at h
        · cases h
        · split at h
          · cases h
          · simp only [Except.ok.injEq] at h
            subst h
            exact ⟨⟨hl.lin, hl.locs, hl.sP, hl.sC, hl.sS, hl.sR⟩, rfl⟩
  | addRegion cs ss =>
    simp only [step, bind, Except.bind] at h
    split at h
    · cases h
    · next cands hc =>
      split at h
      · cases h
      · next subs hs =>
        split at h
        · cases h
        · next v hmk =>
          obtain ⟨s1, r⟩ := v
          have hc' : ∀ f ∈ cands, f ∈ s.cands ++ s.pool := fun f hf => List.mem_append.2 (Or.inl ((findAll_ok hc).2 f hf))
          have := mkAddRegion_sorted hl hc' (findAll_ok hs).2 hmk h
          exact ⟨this, (mkAddRegion_inv hi hc' (findAll_ok hs).2 hmk h).2.2.2.2.2.1⟩
  | createRegionsWith cs ss =>
    have hinv := step_createRegionsWith_inv hi h
    simp only [step, bind, Except.bind] at h
    split at h
    · cases h
    · next cands hc =>
      split at h
      · cases h
      · next subs hs =>
        split at h
        · cases h
        · next hnd =>
          refine ⟨createRegionsOf_sorted hi hl (findAll_ok hc).2 (findAll_ok hs).2 ?_ h, hinv.2.2.2.2.2.1⟩
          have : ((cs ++ ss).Nodup) := by simpa using hnd
          rw [ids_append, (findAll_ok hc).1, (findAll_ok hs).1]
          exact this
  | clearRegions =>
    simp only [step, pure, Except.pure, Except.ok.injEq] at h
    subst h
    refine ⟨⟨hl.lin, ?_, hl.sP, hl.sC, hl.sS, sortedBy_nil _⟩, rfl⟩
    intro f hf
    have hf' := mem5.1 hf
    simp only [clearRegions_fields, List.not_mem_nil, or_false] at hf'
    exact hl.locs f (mem5.2 (by
      rcases hf' with h | h | h | h
      · exact Or.inl h
      · exact Or.inr (Or.inl h)
      · exact Or.inr (Or.inr (Or.inl h))
      · exact Or.inr (Or.inr (Or.inr (Or.inl h)))))
  | createRegions =>
    exact ⟨createRegions_sorted hi hl h, (createRegions_inv hi h).2.2.2.2.2.1⟩
  | clearProtos =>
    have h' : clearCandidates { s with protos := [] } = .ok s' := h
    exact clearCandidates_sorted (s := { s with protos := [] }) (dropProtos_inv hi) (dropProtos_sorted hl) h'
  | clearCands => exact clearCandidates_sorted hi hl h
  | clearSubs =>
    simp only [step, clearSubregions] at h
    split at h
    · have hi' := clearRegions_inv (dropSubs_inv hi)
      exact ⟨createRegions_sorted hi' (clearRegions_sorted (dropSubs_sorted hl)) h, (createRegions_inv hi' h).2.2.2.2.2.1⟩
    · simp only [pure, Except.pure, Except.ok.injEq] at h
      subst h
      exact ⟨dropSubs_sorted hl, rfl⟩


/-- … and so does every history of operations that add well-formed areas -/
theorem run_sorted {s s' : State} (ops : List Op) (hi : Inv s) (hl : LineSorted s) (hops : ∀ op ∈ ops, OpLine s.len op)
    (h : run s ops = .ok s') : LineSorted s' := by
  induction ops generalizing s with
  | nil => simp only [run, pure, Except.pure, Except.ok.injEq] at h; subst h; exact hl
  | cons op ops ih =>
    simp only [run, bind, Except.bind] at h
    split at h
    · cases h
    · next s1 hs1 =>
      obtain ⟨hl1, hlen⟩ := step_sorted op hi hl (hops op (by simp)) hs1
      exact ih (step_inv op hi hs1) hl1 (by intro o ho; rw [hlen]; exact hops o (by simp [ho])) h

theorem init_sorted (len : Int) (cds : List Loc) : LineSorted { len := len, circular := false, cds := cds } :=
  ⟨rfl, by intro f hf; simp at hf, sortedBy_nil _, sortedBy_nil _, sortedBy_nil _, sortedBy_nil _⟩


end ASV.Regions
