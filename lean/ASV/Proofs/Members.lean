/-
  C05: what every group / candidate is made of — members come from the input, no member twice,
  non-single candidates have at least two members, every candidate satisfies the constructor's
  guarantees (location = connected span of the members, containing each of them).
-/
import ASV.Proofs.Coverage
set_option linter.unusedSectionVars false
set_option linter.unusedVariables false
namespace ASV.CC
open ASV.CC.Spec

/-! ### small list facts -/

/-- two different elements -/
def Two {α : Type} (g : List α) : Prop := ∃ a b, a ∈ g ∧ b ∈ g ∧ a ≠ b

theorem two_le_length {α : Type} {l : List α} (h : Two l) : 2 ≤ l.length := by
  obtain ⟨a, b, ha, hb, hab⟩ := h
  match l, ha, hb with
  | [x], ha, hb =>
    have h1 : a = x := by simpa using ha
    have h2 : b = x := by simpa using hb
    exact absurd (h1.trans h2.symm) hab
  | x :: y :: r, _, _ => simp

theorem two_of_nodup {α : Type} {l : List α} (hn : l.Nodup) (h : 2 ≤ l.length) : Two l := by
  match l, hn, h with
  | x :: y :: r, hn, _ =>
    refine ⟨x, y, by simp, by simp, ?_⟩
    intro e
    have := (List.nodup_cons.1 hn).1
    rw [e] at this
    exact this List.mem_cons_self

theorem two_mono {α : Type} {a b : List α} (h : Two a) (hs : ∀ x, x ∈ a → x ∈ b) : Two b := by
  obtain ⟨x, y, hx, hy, hxy⟩ := h
  exact ⟨x, y, hs x hx, hs y hy, hxy⟩

theorem nodup_sortBy {α : Type} [DecidableEq α] (lt : α → α → Bool) {l : List α} (h : l.Nodup) : (sortBy lt l).Nodup :=
  (perm_sortBy lt l).nodup_iff.2 h

/-- `a` occurs before `b` in the list -/
def Before {β : Type} (a b : β) : List β → Prop
  | [] => False
  | x :: rest => (x = a ∧ b ∈ rest) ∨ Before a b rest

theorem before_mem {β : Type} {a b : β} {l : List β} (h : Before a b l) : a ∈ l ∧ b ∈ l := by
  induction l with
  | nil => cases h
  | cons x rest ih =>
    rcases h with ⟨e, hb⟩ | h
    · exact ⟨e ▸ List.mem_cons_self, List.mem_cons_of_mem _ hb⟩
    · exact ⟨List.mem_cons_of_mem _ (ih h).1, List.mem_cons_of_mem _ (ih h).2⟩

theorem before_ne {β : Type} {a b : β} {l : List β} (hn : l.Nodup) (h : Before a b l) : a ≠ b := by
  induction l with
  | nil => cases h
  | cons x rest ih =>
    have hc := List.nodup_cons.1 hn
    rcases h with ⟨e, hb⟩ | h
    · intro e2; subst e; subst e2; exact hc.1 hb
    · exact ih hc.2 h

theorem before_total {β : Type} {a b : β} {l : List β} (ha : a ∈ l) (hb : b ∈ l) (hab : a ≠ b) :
    Before a b l ∨ Before b a l := by
  induction l with
  | nil => cases ha
  | cons x rest ih =>
    rcases List.mem_cons.1 ha with e1 | h1 <;> rcases List.mem_cons.1 hb with e2 | h2
    · exact absurd (e1.trans e2.symm) hab
    · exact Or.inl (Or.inl ⟨e1.symm, h2⟩)
    · exact Or.inr (Or.inl ⟨e2.symm, h1⟩)
    · rcases ih h1 h2 with h | h
      · exact Or.inl (Or.inr h)
      · exact Or.inr (Or.inr h)

theorem mem_pairsWhere {β γ : Type} (rel : β → β → Bool) (mk : β → β → γ) (l : List β) (g : γ) :
    g ∈ pairsWhere rel mk l ↔ ∃ a b, Before a b l ∧ rel a b = true ∧ g = mk a b := by
  induction l with
  | nil => simp [pairsWhere, Before]
  | cons x rest ih =>
    simp only [pairsWhere, List.mem_append, List.mem_map, List.mem_filter, ih, Before]
    constructor
    · rintro (⟨b, ⟨hb, hr⟩, e⟩ | ⟨a, b, hbf, hr, e⟩)
      · exact ⟨x, b, Or.inl ⟨rfl, hb⟩, hr, e.symm⟩
      · exact ⟨a, b, Or.inr hbf, hr, e⟩
    · rintro ⟨a, b, (⟨e1, hb⟩ | hbf), hr, e⟩
      · subst e1; exact Or.inl ⟨b, ⟨hb, hr⟩, e.symm⟩
      · exact Or.inr ⟨a, b, hbf, hr, e⟩

/-! ### `_merge_sets` keeps sizes and distinctness -/

theorem mergeSets_wf {G : List (List Proto)} (hG : ∀ g, g ∈ G → Two g) :
    ∀ r, r ∈ mergeSets G → r.Nodup ∧ 2 ≤ r.length := by
  intro r hr
  obtain ⟨r0, h0, e⟩ := mem_mergeSets.1 hr
  subst e
  have hn := mergeSetsCore_nodup groupKey G r0 h0
  obtain ⟨g, hg, _, hsub⟩ := mergeSetsCore_contains_input groupKey G r0 h0
  refine ⟨nodup_sortProtos hn, ?_⟩
  have : Two r0 := two_mono (hG g hg) hsub
  simp only [length_sortProtos]
  exact two_le_length this

theorem mergeSets_from {G : List (List Proto)} {r : List Proto} (hr : r ∈ mergeSets G) :
    ∀ x, x ∈ r → ∃ g, g ∈ G ∧ x ∈ g := fun x hx => (mergeSets_union G x).1 ⟨r, hr, hx⟩

/-! ### `_find_hybrids` -/

theorem scanContained_from (core : Loc) (limit : Int) (group cs : List Proto) :
    ∀ p, p ∈ scanContained core limit group cs → p ∈ group ∨ p ∈ cs := by
  induction cs generalizing group with
  | nil => intro p hp; left; simpa [scanContained] using hp
  | cons c rest ih =>
    intro p hp
    simp only [scanContained] at hp
    split at hp
    · exact Or.inl hp
    · split at hp
      · rcases ih _ p hp with h | h
        · rcases List.mem_append.1 h with h1 | h1
          · exact Or.inl h1
          · right; have : p = c := by simpa using h1
            rw [this]; exact List.mem_cons_self
        · exact Or.inr (List.mem_cons_of_mem _ h)
      · rcases ih _ p hp with h | h
        · exact Or.inl h
        · exact Or.inr (List.mem_cons_of_mem _ h)

theorem scanContained_nodup (core : Loc) (limit : Int) (group cs : List Proto) (hg : group.Nodup) :
    (scanContained core limit group cs).Nodup := by
  induction cs generalizing group with
  | nil => simpa [scanContained] using hg
  | cons c rest ih =>
    simp only [scanContained]
    split
    · exact hg
    · split
      · rename_i hc
        apply ih
        refine List.nodup_append.2 ⟨hg, by simp, ?_⟩
        intro x hx y hy e
        have : y = c := by simpa using hy
        subst this; subst e
        simp at hc
        exact hc.1 hx
      · exact ih _ hg

theorem extendGroup_wf {wrap : Option Int} {byCore g g' : List Proto} (h : extendGroup wrap byCore g = .ok g')
    (hn : g.Nodup) : g'.Nodup ∧ ∀ p, p ∈ g' → p ∈ g ∨ p ∈ byCore := by
  unfold extendGroup at h
  split at h
  · cases h
  · dsimp only at h
    injection h with h
    subst h
    split
    · refine ⟨scanContained_nodup _ _ _ _ (scanContained_nodup _ _ _ _ hn), ?_⟩
      intro p hp
      rcases scanContained_from _ _ _ _ p hp with h1 | h1
      · rcases scanContained_from _ _ _ _ p h1 with h2 | h2
        · exact Or.inl h2
        · exact Or.inr (List.mem_of_mem_drop h2)
      · exact Or.inr h1
    · refine ⟨scanContained_nodup _ _ _ _ hn, ?_⟩
      intro p hp
      rcases scanContained_from _ _ _ _ p hp with h2 | h2
      · exact Or.inl h2
      · exact Or.inr (List.mem_of_mem_drop h2)

theorem extendGroups_wf {wrap : Option Int} {byCore : List Proto} {gs gs' : List (List Proto)}
    (h : extendGroups wrap byCore gs = .ok gs') (hn : ∀ g, g ∈ gs → g.Nodup ∧ 2 ≤ g.length) :
    ∀ g', g' ∈ gs' → g'.Nodup ∧ 2 ≤ g'.length ∧ ∀ p, p ∈ g' → (∃ g, g ∈ gs ∧ p ∈ g) ∨ p ∈ byCore := by
  induction gs generalizing gs' with
  | nil => simp only [extendGroups] at h; injection h with h; subst h; intro g' hg'; cases hg'
  | cons g0 rest ih =>
    simp only [extendGroups] at h
    split at h
    · cases h
    · rename_i g0' h0
      split at h
      · cases h
      · rename_i rest' hr
        injection h with h; subst h
        intro g' hg'
        rcases List.mem_cons.1 hg' with e | e
        · subst e
          obtain ⟨hnd, hfrom⟩ := extendGroup_wf h0 (hn g0 List.mem_cons_self).1
          refine ⟨hnd, ?_, ?_⟩
          · have := List.Nodup.length_le_of_subset (hn g0 List.mem_cons_self).1 (fun x hx => extendGroup_sub h0 x hx)
            have := (hn g0 List.mem_cons_self).2
            omega
          · intro p hp
            rcases hfrom p hp with h1 | h1
            · exact Or.inl ⟨g0, List.mem_cons_self, h1⟩
            · exact Or.inr h1
        · obtain ⟨a, b, c⟩ := ih hr (fun g hg => hn g (List.mem_cons_of_mem _ hg)) g' e
          refine ⟨a, b, ?_⟩
          intro p hp
          rcases c p hp with ⟨g, hg, hpg⟩ | h1
          · exact Or.inl ⟨g, List.mem_cons_of_mem _ hg, hpg⟩
          · exact Or.inr h1

theorem findHybrids_wf {clusters : List Proto} {wrap : Option Int} {hg : List (List Proto)} {un : List Proto}
    (h : findHybrids clusters wrap = .ok (hg, un)) (hn : clusters.Nodup) :
    (∀ g, g ∈ hg → g.Nodup ∧ 2 ≤ g.length ∧ ∀ p, p ∈ g → p ∈ clusters) ∧ un.Nodup ∧ ∀ p, p ∈ un → p ∈ clusters := by
  unfold findHybrids at h
  split at h
  · cases h
  · dsimp only at h
    split at h
    · cases h
    · rename_i extended hext
      injection h with h
      injection h with h1 h2
      subst h1; subst h2
      generalize hgroups : (pairsWhere shares (fun a b => [a, b]) (sortBy coreKeyLt clusters) ++
        match (sortBy coreKeyLt clusters).head?, (sortBy coreKeyLt clusters).getLast? with
        | some f, some l => if (f != l && shares f l) = true then [[f, l]] else []
        | x, x_1 => []) = groups at hext ⊢
      have hsn : (sortBy coreKeyLt clusters).Nodup := nodup_sortBy _ hn
      -- every pair group: two different protoclusters of the input
      have hpair : ∀ g, g ∈ groups → Two g ∧ ∀ p, p ∈ g → p ∈ clusters := by
        intro g hg
        rw [← hgroups] at hg
        rcases List.mem_append.1 hg with h1 | h1
        · obtain ⟨a, b, hbf, _, e⟩ := (mem_pairsWhere _ _ _ _).1 h1
          subst e
          have hm := before_mem hbf
          refine ⟨⟨a, b, by simp, by simp, before_ne hsn hbf⟩, ?_⟩
          intro p hp
          rcases List.mem_cons.1 hp with e | e
          · rw [e]; exact (mem_sortBy _ _ _).1 hm.1
          · have : p = b := by simpa using e
            rw [this]; exact (mem_sortBy _ _ _).1 hm.2
        · split at h1
          · rename_i f l hf hl
            split at h1
            · rename_i hcond
              have hg' : g = [f, l] := by simpa using h1
              subst hg'
              have hfl : f ≠ l := by
                have : (f != l) = true := by
                  simp only [Bool.and_eq_true] at hcond; exact hcond.1
                simpa using this
              refine ⟨⟨f, l, by simp, by simp, hfl⟩, ?_⟩
              intro p hp
              rcases List.mem_cons.1 hp with e | e
              · rw [e]; exact (mem_sortBy _ _ _).1 (List.mem_of_head? hf)
              · have : p = l := by simpa using e
                rw [this]; exact (mem_sortBy _ _ _).1 (List.mem_of_getLast? hl)
            · cases h1
          · cases h1
      have hmerged : ∀ m, m ∈ mergeSets groups → m.Nodup ∧ 2 ≤ m.length :=
        mergeSets_wf (fun g hg => (hpair g hg).1)
      have hext' := extendGroups_wf hext hmerged
      refine ⟨?_, ?_, ?_⟩
      · intro g hg
        obtain ⟨e, he, rfl⟩ := List.mem_map.1 hg
        obtain ⟨a, b, c⟩ := hext' e he
        refine ⟨nodup_sortProtos a, by simpa [length_sortProtos] using b, ?_⟩
        intro p hp
        rcases c p (mem_sortProtos.1 hp) with ⟨m, hm, hpm⟩ | h1
        · obtain ⟨g0, hg0, hpg0⟩ := mergeSets_from hm p hpm
          exact (hpair g0 hg0).2 p hpg0
        · have := (mem_sortBy _ _ _).1 h1
          exact (List.mem_filter.1 this).1
      · exact nodup_sortProtos ((hn.filter _).filter _)
      · intro p hp
        have := mem_sortProtos.1 hp
        exact (List.mem_filter.1 (List.mem_filter.1 this).1).1


/-! ### `_find_interleaved` -/

theorem walk_wf (core : Loc) (total : Nat) (l cg f : List Proto) (hcg : cg.Nodup) :
    (walk core total l cg f).1.Nodup ∧ ∀ p, p ∈ (walk core total l cg f).1 → p ∈ cg ∨ p ∈ l := by
  induction l generalizing cg f with
  | nil => simp only [walk]; exact ⟨hcg, fun p hp => Or.inl hp⟩
  | cons c rest ih =>
    simp only [walk]
    split
    · exact ⟨hcg, fun p hp => Or.inl hp⟩
    · split
      · exact ⟨hcg, fun p hp => Or.inl hp⟩
      · have hn : (if cg.contains c = true then cg else cg ++ [c]).Nodup := by
          split
          · exact hcg
          · rename_i hc
            refine List.nodup_append.2 ⟨hcg, by simp, ?_⟩
            intro x hx y hy e
            have : y = c := by simpa using hy
            subst this; subst e
            simp at hc; exact hc hx
        obtain ⟨a, b⟩ := ih (if cg.contains c = true then cg else cg ++ [c]) (if f.contains c = true then f else f ++ [c]) hn
        refine ⟨a, ?_⟩
        intro p hp
        rcases b p hp with h | h
        · split at h
          · exact Or.inl h
          · rcases List.mem_append.1 h with h1 | h1
            · exact Or.inl h1
            · have : p = c := by simpa using h1
              rw [this]; exact Or.inr List.mem_cons_self
        · exact Or.inr (List.mem_cons_of_mem _ h)

theorem findCross_wf {cc : List CandC} {un : List Proto} {groups groups' : List (List Proto)} {wrap : Option Int}
    {found : List Proto} (h : findCrossOriginInterleaved cc un groups wrap = .ok (found, groups')) :
    ∀ g, g ∈ groups' → g ∈ groups ∨ (Two g ∧ ∀ p, p ∈ g → (∃ c, c ∈ cc ∧ p ∈ c.1.members) ∨ p ∈ un) := by
  unfold findCrossOriginInterleaved at h
  split at h
  · injection h with h; injection h with h1 h2; subst h1; subst h2
    exact fun g hg => Or.inl hg
  · split at h
    · injection h with h; injection h with h1 h2; subst h1; subst h2
      exact fun g hg => Or.inl hg
    · dsimp only at h
      split at h
      · cases h
      · rename_i core hcore
        split at h
        · cases h
        · rename_i hcg0
          generalize hcg0def : dedup (List.flatMap (fun c =>
              if (List.filter (fun p => bridgesOrigin p.core) c.1.members).isEmpty = true then c.1.members
              else List.filter (fun p => bridgesOrigin p.core) c.1.members)
              (List.filter (fun c => twoParts c.2) cc)) = cg0 at h hcg0
          generalize hback : walk core un.length (List.drop 1 un).reverse cg0 [] = back at h
          generalize hfwd : walk core un.length un back.1 back.2 = fwd at h
          have hcg0n : cg0.Nodup := by rw [← hcg0def]; exact nodup_dedup _
          have hb := walk_wf core un.length (List.drop 1 un).reverse cg0 [] hcg0n
          rw [hback] at hb
          have hf := walk_wf core un.length un back.1 back.2 hb.1
          rw [hfwd] at hf
          have hcg0_from : ∀ q, q ∈ cg0 → ∃ c, c ∈ cc ∧ q ∈ c.1.members := by
            intro q hq
            rw [← hcg0def] at hq
            have hq := mem_dedup.1 hq
            obtain ⟨c, hc, hqc⟩ := List.mem_flatMap.1 hq
            refine ⟨c, (List.mem_filter.1 hc).1, ?_⟩
            split at hqc
            · exact hqc
            · exact (List.mem_filter.1 hqc).1
          split at h
          · injection h with h; injection h with h1 h2; subst h1; subst h2
            exact fun g hg => Or.inl hg
          · split at h
            · injection h with h; injection h with h1 h2; subst h1; subst h2
              exact fun g hg => Or.inl hg
            · split at h
              · rename_i hlen
                injection h with h; injection h with h1 h2; subst h1; subst h2
                intro g hg
                rcases List.mem_append.1 hg with h1 | h1
                · exact Or.inl h1
                · right
                  have : g = fwd.1 := by simpa using h1
                  subst this
                  refine ⟨two_of_nodup hf.1 (by omega), ?_⟩
                  intro p hp
                  rcases hf.2 p hp with h2 | h2
                  · rcases hb.2 p h2 with h3 | h3
                    · exact Or.inl (hcg0_from p h3)
                    · exact Or.inr (List.mem_of_mem_drop (List.mem_reverse.1 h3))
                  · exact Or.inr h2
              · injection h with h; injection h with h1 h2; subst h1; subst h2
                exact fun g hg => Or.inl hg

theorem mem_interleavedRow {c : Proto} {rest : List Proto} {g : List Proto} (h : g ∈ interleavedRow c rest) :
    ∃ o, o ∈ rest ∧ g = [c, o] := by
  induction rest with
  | nil => simp [interleavedRow] at h
  | cons o rest ih =>
    simp only [interleavedRow] at h
    split at h
    · cases h
    · split at h
      · rcases List.mem_cons.1 h with e | e
        · exact ⟨o, List.mem_cons_self, e⟩
        · obtain ⟨o', ho', e'⟩ := ih e
          exact ⟨o', List.mem_cons_of_mem _ ho', e'⟩
      · obtain ⟨o', ho', e'⟩ := ih h
        exact ⟨o', List.mem_cons_of_mem _ ho', e'⟩

theorem mem_interleavedPairs {l : List Proto} {g : List Proto} (h : g ∈ interleavedPairs l) :
    ∃ a b, Before a b l ∧ g = [a, b] := by
  induction l with
  | nil => simp [interleavedPairs] at h
  | cons c rest ih =>
    simp only [interleavedPairs, List.mem_append] at h
    rcases h with h | h
    · obtain ⟨o, ho, e⟩ := mem_interleavedRow h
      exact ⟨c, o, Or.inl ⟨rfl, ho⟩, e⟩
    · obtain ⟨a, b, hbf, e⟩ := ih h
      exact ⟨a, b, Or.inr hbf, e⟩

/-- a candidate with at least two different members -/
def CandBig (c : Cand) : Prop := c.members.Nodup ∧ 2 ≤ c.members.length

theorem two_dedup_append_left {a b : List Proto} (h : Two a) : Two (dedup (a ++ b)) :=
  two_mono h (fun x hx => mem_dedup.2 (List.mem_append.2 (Or.inl hx)))

theorem findInterleaved_wf {clusters : List Proto} {cands : List Cand} {wrap : Option Int}
    {ig : List (List Proto)} {un : List Proto} (h : findInterleaved clusters cands wrap = .ok (ig, un))
    (hn : clusters.Nodup) (hc : ∀ c, c ∈ cands → CandBig c) :
    (∀ g, g ∈ ig → g.Nodup ∧ 2 ≤ g.length ∧ ∀ p, p ∈ g → p ∈ clusters ∨ ∃ c, c ∈ cands ∧ p ∈ c.members) ∧
    un.Nodup ∧ ∀ p, p ∈ un → p ∈ clusters := by
  unfold findInterleaved at h
  dsimp only at h
  split at h
  · cases h
  · rename_i cc hcc
    have hccfst : ∀ x, x ∈ cc → x.1 ∈ cands := by
      split at hcc
      · exact withCores_fst hcc
      · injection hcc with hcc; subst hcc; intro x hx; cases hx
    have hccTwo : ∀ x, x ∈ cc → Two x.1.members := fun x hx =>
      two_of_nodup (hc _ (hccfst x hx)).1 (hc _ (hccfst x hx)).2
    split at h
    · cases h
    · rename_i found1 groups hx
      have hxw := findCross_wf hx
      injection h with h; injection h with h1 h2; subst h1; subst h2
      have hbn : (sortBy coreStartLt clusters).Nodup := nodup_sortBy _ hn
      have hmemb : ∀ p, p ∈ sortBy coreStartLt clusters → p ∈ clusters := fun p hp => (mem_sortBy _ _ _).1 hp
      have hgroups : ∀ g, g ∈ groups → Two g ∧ ∀ p, p ∈ g → p ∈ clusters ∨ ∃ c, c ∈ cands ∧ p ∈ c.members := by
        intro g hg
        rcases hxw g hg with h0 | ⟨h1, h2⟩
        · rcases List.mem_append.1 h0 with h12 | h3
          · rcases List.mem_append.1 h12 with h1 | h2
            · -- candidate x candidate
              simp only [findInterleavedCandidates, List.mem_append] at h1
              have key : ∀ a b : CandC, a ∈ cc → b ∈ cc → g = dedup (a.1.members ++ b.1.members) →
                  Two g ∧ ∀ p, p ∈ g → p ∈ clusters ∨ ∃ c, c ∈ cands ∧ p ∈ c.members := by
                intro a b ha hb e
                subst e
                refine ⟨two_dedup_append_left (hccTwo a ha), ?_⟩
                intro p hp
                rcases List.mem_append.1 (mem_dedup.1 hp) with h | h
                · exact Or.inr ⟨a.1, hccfst a ha, h⟩
                · exact Or.inr ⟨b.1, hccfst b hb, h⟩
              rcases h1 with h1 | h1
              · obtain ⟨a, b, hbf, _, e⟩ := (mem_pairsWhere _ _ _ _).1 h1
                exact key a b (before_mem hbf).1 (before_mem hbf).2 e
              · split at h1
                · split at h1
                  · rename_i a b ha hb
                    split at h1
                    · have e : g = dedup (a.1.members ++ b.1.members) := by simpa using h1
                      exact key a b (List.mem_of_head? ha) (List.mem_of_getLast? hb) e
                    · cases h1
                  · cases h1
                · cases h1
            · -- unassigned x unassigned
              obtain ⟨a, b, hbf, e⟩ := mem_interleavedPairs h2
              subst e
              have hm := before_mem hbf
              refine ⟨⟨a, b, by simp, by simp, before_ne hbn hbf⟩, ?_⟩
              intro p hp
              rcases List.mem_cons.1 hp with e | e
              · rw [e]; exact Or.inl (hmemb a hm.1)
              · have : p = b := by simpa using e
                rw [this]; exact Or.inl (hmemb b hm.2)
          · -- unassigned x candidate
            obtain ⟨cl, hcl, hg3⟩ := List.mem_flatMap.1 h3
            obtain ⟨c, hcf, e⟩ := List.mem_map.1 hg3
            subst e
            have hcc' := (List.mem_filter.1 hcf).1
            refine ⟨two_dedup_append_left (hccTwo c hcc'), ?_⟩
            intro p hp
            rcases List.mem_append.1 (mem_dedup.1 hp) with h | h
            · exact Or.inr ⟨c.1, hccfst c hcc', h⟩
            · have : p = cl := by simpa using h
              rw [this]; exact Or.inl (hmemb cl hcl)
        · refine ⟨h1, ?_⟩
          intro p hp
          rcases h2 p hp with ⟨c, hc', hpc⟩ | h3
          · exact Or.inr ⟨c.1, hccfst c hc', hpc⟩
          · exact Or.inl (hmemb p h3)
      refine ⟨?_, ?_, ?_⟩
      · intro g hg
        obtain ⟨a, b⟩ := mergeSets_wf (fun g hg => (hgroups g hg).1) g hg
        refine ⟨a, b, ?_⟩
        intro p hp
        obtain ⟨g0, hg0, hp0⟩ := mergeSets_from hg p hp
        exact (hgroups g0 hg0).2 p hp0
      · exact nodup_sortProtos (hn.filter _)
      · intro p hp
        exact (List.mem_filter.1 (mem_sortProtos.1 hp)).1

/-! ### `_find_neighbouring` -/

theorem findNeighbouring_wf {singles : List Proto} {cands : List Cand} (hn : singles.Nodup)
    (hc : ∀ c, c ∈ cands → CandBig c) :
    ∀ g, g ∈ findNeighbouring singles cands → g.Nodup ∧ 2 ≤ g.length ∧
      ∀ p, p ∈ g → p ∈ singles ∨ ∃ c, c ∈ cands ∧ p ∈ c.members := by
  have hcTwo : ∀ c, c ∈ cands → Two c.members := fun c h => two_of_nodup (hc c h).1 (hc c h).2
  unfold findNeighbouring
  dsimp only
  generalize hG : (findNeighbouringCandidates cands ++ _ ++ _ ++ findNeighbouringProtoclusters singles) = G
  have hgroups : ∀ g, g ∈ G → Two g ∧ ∀ p, p ∈ g → p ∈ singles ∨ ∃ c, c ∈ cands ∧ p ∈ c.members := by
    intro g hg
    rw [← hG] at hg
    have cs : ∀ (c : Cand) (s : Proto), c ∈ cands → s ∈ singles → g = dedup (c.members ++ [s]) →
        Two g ∧ ∀ p, p ∈ g → p ∈ singles ∨ ∃ c, c ∈ cands ∧ p ∈ c.members := by
      intro c s hcm hs e
      subst e
      refine ⟨two_dedup_append_left (hcTwo c hcm), ?_⟩
      intro p hp
      rcases List.mem_append.1 (mem_dedup.1 hp) with h | h
      · exact Or.inr ⟨c, hcm, h⟩
      · have : p = s := by simpa using h
        rw [this]; exact Or.inl hs
    rcases List.mem_append.1 hg with h123 | h4
    · rcases List.mem_append.1 h123 with h12 | h3
      · rcases List.mem_append.1 h12 with h1 | h2
        · obtain ⟨a, b, hbf, _, e⟩ := (mem_pairsWhere _ _ _ _).1 h1
          subst e
          have hm := before_mem hbf
          refine ⟨two_dedup_append_left (hcTwo a hm.1), ?_⟩
          intro p hp
          rcases List.mem_append.1 (mem_dedup.1 hp) with h | h
          · exact Or.inr ⟨a, hm.1, h⟩
          · exact Or.inr ⟨b, hm.2, h⟩
        · obtain ⟨s, hs, hg2⟩ := List.mem_flatMap.1 h2
          obtain ⟨c, hcf, e⟩ := List.mem_map.1 hg2
          exact cs c s (List.mem_filter.1 hcf).1 hs e.symm
      · obtain ⟨c, hce, hg3⟩ := List.mem_flatMap.1 h3
        have hcc : c ∈ cands := by
          split at hce
          · rcases List.mem_append.1 hce with h | h
            · split at h
              · rename_i c0 hh
                split at h
                · have : c = c0 := by simpa using h
                  rw [this]; exact List.mem_of_head? hh
                · cases h
              · cases h
            · split at h
              · split at h
                · rename_i c0 hl
                  split at h
                  · have : c = c0 := by simpa using h
                    rw [this]; exact List.mem_of_getLast? hl
                  · cases h
                · cases h
              · cases h
          · cases hce
        split at hg3
        · rename_i s hfind
          have hs := List.mem_of_find?_eq_some hfind
          have e : g = dedup (c.members ++ [s]) := by simpa using hg3
          exact cs c s hcc (List.mem_filter.1 hs).1 e
        · cases hg3
    · simp only [findNeighbouringProtoclusters, List.mem_append] at h4
      have pp : ∀ a b : Proto, a ∈ singles → b ∈ singles → a ≠ b → g = [a, b] →
          Two g ∧ ∀ p, p ∈ g → p ∈ singles ∨ ∃ c, c ∈ cands ∧ p ∈ c.members := by
        intro a b ha hb hab e
        subst e
        refine ⟨⟨a, b, by simp, by simp, hab⟩, ?_⟩
        intro p hp
        rcases List.mem_cons.1 hp with e | e
        · rw [e]; exact Or.inl ha
        · have : p = b := by simpa using e
          rw [this]; exact Or.inl hb
      rcases h4 with h4 | h4
      · obtain ⟨a, b, hbf, _, e⟩ := (mem_pairsWhere _ _ _ _).1 h4
        exact pp a b (before_mem hbf).1 (before_mem hbf).2 (before_ne hn hbf) e
      · split at h4
        · split at h4
          · rename_i f l hf hl
            split at h4
            · rename_i hcond
              have hfl : f ≠ l := by
                have : (f != l) = true := by
                  simp only [Bool.and_eq_true] at hcond; exact hcond.1
                simpa using this
              exact pp f l (List.mem_of_head? hf) (List.mem_of_getLast? hl) hfl (by simpa using h4)
            · cases h4
          · cases h4
        · cases h4
  intro g hg
  obtain ⟨a, b⟩ := mergeSets_wf (fun g hg => (hgroups g hg).1) g hg
  refine ⟨a, b, ?_⟩
  intro p hp
  obtain ⟨g0, hg0, hp0⟩ := mergeSets_from hg p hp
  exact (hgroups g0 hg0).2 p hp0


/-! ### `build_candidates` -/

/-- what holds for every candidate in the table, for input `ps` -/
structure CandWF (wrap : Option Int) (ps : List Proto) (c : Cand) : Prop where
  ok : CandOK wrap c
  nodup : c.members.Nodup
  big : 2 ≤ c.members.length
  notSingle : c.kind ≠ .single
  fromInput : ∀ m, m ∈ c.members → m ∈ ps

def TableWF (wrap : Option Int) (ps : List Proto) (t : Table) : Prop :=
  (∀ c, c ∈ t.values → CandWF wrap ps c) ∧ (∀ p, p ∈ t.singles → p ∈ ps)

theorem values_set {t : Table} {k : Int × Int} {c d : Cand} (h : d ∈ (t.set k c).values) : d = c ∨ d ∈ t.values := by
  obtain ⟨kd, hkd⟩ := mem_values.1 h
  rcases mem_setGo_new hkd with e | e
  · left; injection e
  · exact Or.inr (mem_values.2 ⟨kd, e⟩)

theorem nodup_diffL {α : Type} [DecidableEq α] {a b : List α} (h : a.Nodup) : (diffL a b).Nodup := h.filter _

theorem buildOne_wf {wrap : Option Int} {ps : List Proto} {kind : Kind} {t t' : Table} {g : List Proto}
    (h : buildOne wrap kind t g = .ok t') (hk : kind ≠ .single) (hg : g.Nodup) (hgp : ∀ p, p ∈ g → p ∈ ps)
    (ht : TableWF wrap ps t) : TableWF wrap ps t' := by
  unfold buildOne at h
  split at h
  · cases h
  · rename_i hassert
    have hlen : 2 ≤ g.length := by
      have : ¬kind = Kind.single → 1 < g.length := by simpa using hassert
      have := this hk
      omega
    split at h
    · cases h
    · rename_i cand hcand
      obtain ⟨hkind, hmem, hok⟩ := mkCand_ok hcand
      have hcandwf : CandWF wrap ps cand := by
        refine ⟨hok, ?_, ?_, ?_, ?_⟩
        · rw [hmem]; exact nodup_sortProtos hg
        · rw [hmem]; simpa [length_sortProtos] using hlen
        · rw [hkind]; exact hk
        · intro m hm; rw [hmem] at hm; exact hgp m (mem_sortProtos.1 hm)
      dsimp only at h
      split at h
      · injection h with h; subst h
        refine ⟨?_, ht.2⟩
        intro c hc
        rcases values_set hc with e | e
        · rw [e]; exact hcandwf
        · exact ht.1 c e
      · rename_i ex hget
        have hexwf : CandWF wrap ps ex := ht.1 ex (mem_values.2 ⟨_, getGo_mem hget⟩)
        split at h
        · split at h
          · cases h
          injection h with h; subst h; exact ht
        · split at h
          · cases h
          · rename_i repl hrepl
            obtain ⟨hrk, hrm, hrok⟩ := mkCand_ok hrepl
            have hextras_from : ∀ p, p ∈ diffL (dedup g) ex.members → p ∈ ps := fun p hp =>
              hgp p (mem_dedup.1 (mem_diffL.1 hp).1)
            have hreplwf : CandWF wrap ps repl := by
              refine ⟨hrok, ?_, ?_, ?_, ?_⟩
              · rw [hrm]
                apply nodup_sortProtos
                refine List.nodup_append.2 ⟨nodup_dedup _, nodup_diffL (nodup_dedup _), ?_⟩
                intro x hx y hy e
                subst e
                exact (mem_diffL.1 hy).2 (mem_dedup.1 hx)
              · rw [hrm]
                have h1 : ex.members.length ≤ (dedup ex.members ++ diffL (dedup g) ex.members).length :=
                  List.Nodup.length_le_of_subset hexwf.nodup
                    (fun x hx => List.mem_append.2 (Or.inl (mem_dedup.2 hx)))
                have := hexwf.big
                simp only [length_sortProtos]
                omega
              · rw [hrk]; exact hexwf.notSingle
              · intro m hm
                rw [hrm] at hm
                rcases List.mem_append.1 (mem_sortProtos.1 hm) with h1 | h1
                · exact hexwf.fromInput m (mem_dedup.1 h1)
                · exact hextras_from m h1
            injection h with h; subst h
            have hvals : ∀ c, c ∈ (t.set (locKey cand.loc) repl).values → CandWF wrap ps c := by
              intro c hc
              rcases values_set hc with e | e
              · rw [e]; exact hreplwf
              · exact ht.1 c e
            split
            · refine ⟨hvals, ?_⟩
              intro p hp
              rcases mem_unionL.1 hp with h1 | h1
              · exact ht.2 p h1
              · exact hextras_from p h1
            · exact ⟨hvals, ht.2⟩

theorem buildCandidates_wf {wrap : Option Int} {ps : List Proto} {kind : Kind} {t t' : Table} {gs : List (List Proto)}
    (h : buildCandidates wrap kind t gs = .ok t') (hk : kind ≠ .single)
    (hg : ∀ g, g ∈ gs → g.Nodup ∧ ∀ p, p ∈ g → p ∈ ps) (ht : TableWF wrap ps t) : TableWF wrap ps t' := by
  induction gs generalizing t with
  | nil => simp only [buildCandidates] at h; injection h with h; subst h; exact ht
  | cons g gs ih =>
    simp only [buildCandidates] at h
    split at h
    · cases h
    · rename_i t1 h1
      exact ih h (fun g' hg' => hg g' (List.mem_cons_of_mem _ hg'))
        (buildOne_wf h1 hk (hg g List.mem_cons_self).1 (hg g List.mem_cons_self).2 ht)

/-! ### the singles pass -/

theorem addSingles_wf {wrap : Option Int} {t : Table} {l : List Proto} {ss : List Cand}
    (h : addSingles wrap t l = .ok ss) :
    ∀ c, c ∈ ss → CandOK wrap c ∧ c.kind = .single ∧ ∃ p, p ∈ l ∧ c.members = [p] ∧
      ¬ (∃ ex, t.get (locKey p.loc) = some ex ∧ p ∈ ex.members) := by
  induction l generalizing ss with
  | nil => simp only [addSingles] at h; injection h with h; subst h; intro c hc; cases hc
  | cons q rest ih =>
    simp only [addSingles] at h
    cases hrest : addSingles wrap t rest with
    | error e => rw [hrest] at h; cases h
    | ok cs =>
      rw [hrest] at h
      dsimp only at h
      have hrec : ∀ c, c ∈ cs → CandOK wrap c ∧ c.kind = .single ∧ ∃ p, p ∈ q :: rest ∧ c.members = [p] ∧
          ¬ (∃ ex, t.get (locKey p.loc) = some ex ∧ p ∈ ex.members) := by
        intro c hc
        obtain ⟨a, b, p, hp, e, hno⟩ := ih hrest c hc
        exact ⟨a, b, p, List.mem_cons_of_mem _ hp, e, hno⟩
      have single : (¬ ∃ ex, t.get (locKey q.loc) = some ex ∧ q ∈ ex.members) → ∀ ss', (match mkCand wrap Kind.single [q] with
            | Except.error e => Except.error e
            | Except.ok c => Except.ok (c :: cs)) = Except.ok ss' →
          ∀ c, c ∈ ss' → CandOK wrap c ∧ c.kind = .single ∧ ∃ p, p ∈ q :: rest ∧ c.members = [p] ∧
            ¬ (∃ ex, t.get (locKey p.loc) = some ex ∧ p ∈ ex.members) := by
        intro hno ss' h
        split at h
        · cases h
        · rename_i c0 hc0
          injection h with h; subst h
          obtain ⟨hk0, hm0, hok0⟩ := mkCand_ok hc0
          intro c hc
          rcases List.mem_cons.1 hc with e | e
          · subst e; exact ⟨hok0, hk0, q, List.mem_cons_self, hm0, hno⟩
          · exact hrec c e
      cases hget : t.get (locKey q.loc) with
      | none =>
        simp only [hget, Bool.false_eq_true, if_false] at h
        exact single (by rintro ⟨ex, hex, _⟩; rw [hget] at hex; cases hex) ss h
      | some ex =>
        simp only [hget] at h
        by_cases hm : ex.members.contains q = true
        · simp only [hm, if_true] at h
          injection h with h; subst h
          exact hrec
        · simp only [hm, Bool.false_eq_true, if_false] at h
          refine single ?_ ss h
          rintro ⟨ex', hex', hq⟩
          rw [hget] at hex'; injection hex' with e; subst e
          exact hm (by simpa using hq)

/-! ### the whole formation -/

/-- what holds for every candidate returned -/
structure OutWF (wrap : Option Int) (ps : List Proto) (c : Cand) : Prop where
  ok : CandOK wrap c
  nodup : c.members.Nodup
  fromInput : ∀ m, m ∈ c.members → m ∈ ps
  size : (c.kind = .single → c.members.length = 1) ∧ (c.kind ≠ .single → 2 ≤ c.members.length)

theorem candWF_out {wrap : Option Int} {ps : List Proto} {c : Cand} (h : CandWF wrap ps c) : OutWF wrap ps c :=
  ⟨h.ok, h.nodup, h.fromInput, fun e => absurd e h.notSingle, fun _ => h.big⟩

theorem formationCore_wf {ps : List Proto} {wrap : Option Int} {cs : List Cand}
    (h : formationCore ps wrap = .ok cs) (hn : ps.Nodup) : ∀ c, c ∈ cs → OutWF wrap ps c := by
  unfold formationCore at h
  split at h
  · injection h with h; subst h; intro c hc; cases hc
  · dsimp only at h
    split at h
    · cases h
    · rename_i hgroups un1 hH
      split at h
      · cases h
      · rename_i t1 hB1
        split at h
        · cases h
        · rename_i igroups un2 hI
          split at h
          · cases h
          · rename_i t2 hB2
            split at h
            · cases h
            · rename_i t3 hB3
              split at h
              · cases h
              · rename_i singles hS
                injection h with h; subst h
                have hun0 : (sortProtos ps).Nodup := nodup_sortProtos hn
                have hps0 : ∀ p, p ∈ sortProtos ps → p ∈ ps := fun p hp => mem_sortProtos.1 hp
                obtain ⟨hH1, hH2, hH3⟩ := findHybrids_wf hH hun0
                have ht0 : TableWF wrap ps ⟨[], []⟩ := ⟨fun c hc => by simp [Table.values] at hc, fun p hp => by cases hp⟩
                have ht1 : TableWF wrap ps t1 := buildCandidates_wf hB1 (by decide)
                  (fun g hg => ⟨(hH1 g hg).1, fun p hp => hps0 p ((hH1 g hg).2.2 p hp)⟩) ht0
                have hbig1 : ∀ c, c ∈ sortCands t1.values → CandBig c := fun c hc =>
                  ⟨(ht1.1 c (mem_sortCands.1 hc)).nodup, (ht1.1 c (mem_sortCands.1 hc)).big⟩
                obtain ⟨hI1, hI2, hI3⟩ := findInterleaved_wf hI hH2 hbig1
                have ht2 : TableWF wrap ps t2 := buildCandidates_wf hB2 (by decide)
                  (fun g hg => ⟨(hI1 g hg).1, fun p hp => by
                    rcases (hI1 g hg).2.2 p hp with h1 | ⟨c, hc, hpc⟩
                    · exact hps0 p (hH3 p h1)
                    · exact (ht1.1 c (mem_sortCands.1 hc)).fromInput p hpc⟩) ht1
                have hbig2 : ∀ c, c ∈ sortCands t2.values → CandBig c := fun c hc =>
                  ⟨(ht2.1 c (mem_sortCands.1 hc)).nodup, (ht2.1 c (mem_sortCands.1 hc)).big⟩
                have hN := findNeighbouring_wf hI2 hbig2
                have ht3 : TableWF wrap ps t3 := buildCandidates_wf hB3 (by decide)
                  (fun g hg => ⟨(hN g hg).1, fun p hp => by
                    rcases (hN g hg).2.2 p hp with h1 | ⟨c, hc, hpc⟩
                    · exact hps0 p (hH3 p (hI3 p h1))
                    · exact (ht2.1 c (mem_sortCands.1 hc)).fromInput p hpc⟩) ht2
                intro c hc
                rcases List.mem_append.1 hc with h1 | h1
                · exact candWF_out (ht3.1 c (mem_sortCands.1 h1))
                · obtain ⟨a, b, p, hp, e, _⟩ := addSingles_wf hS c h1
                  refine ⟨a, by rw [e]; simp, ?_, ?_⟩
                  · intro m hm
                    rw [e] at hm
                    have : m = p := by simpa using hm
                    subst this
                    rcases List.mem_append.1 (mem_dedup.1 (mem_sortProtos.1 hp)) with h2 | h2
                    · exact hps0 m (hH3 m (hI3 m h2))
                    · exact ht3.2 m h2
                  · exact ⟨fun _ => by rw [e]; rfl, fun hne => absurd b hne⟩


/-! ### the final sanity check -/

theorem assigned_length {ps : List Proto} {wrap : Option Int} {cs : List Cand}
    (h : formationCore ps wrap = .ok cs) (hn : ps.Nodup) : (assigned cs).length = ps.length := by
  have hwf := formationCore_wf h hn
  have hcov := formationCore_cover h
  have h1 : (assigned cs).length ≤ ps.length := by
    apply List.Nodup.length_le_of_subset (nodup_dedup _)
    intro p hp
    obtain ⟨c, hc, hpc⟩ := List.mem_flatMap.1 (mem_dedup.1 hp)
    exact (hwf c hc).fromInput p hpc
  have h2 : ps.length ≤ (assigned cs).length := by
    apply List.Nodup.length_le_of_subset hn
    intro p hp
    obtain ⟨c, hc, hpc⟩ := hcov p hp
    exact mem_dedup.2 (List.mem_flatMap.2 ⟨c, hc, hpc⟩)
  omega

theorem formation_eq_core {ps : List Proto} {wrap : Option Int} {cs : List Cand}
    (h : formationCore ps wrap = .ok cs) (hn : ps.Nodup) : formation ps wrap = .ok (sortCands cs) := by
  unfold formation
  rw [h]
  dsimp only
  rw [assigned_length h hn]
  simp

theorem formation_ok_core {ps : List Proto} {wrap : Option Int} {cs : List Cand}
    (h : formation ps wrap = .ok cs) : ∃ cs0, formationCore ps wrap = .ok cs0 ∧ cs = sortCands cs0 := by
  unfold formation at h
  split at h
  · cases h
  · rename_i cs0 h0
    split at h
    · cases h
    · injection h with h
      exact ⟨cs0, h0, h.symm⟩

theorem formation_error_core {ps : List Proto} {wrap : Option Int} {e : String}
    (h : formationCore ps wrap = .error e) : formation ps wrap = .error e := by
  unfold formation; rw [h]

end ASV.CC
