/-
  C06 helper lemmas, part 9: re-adding areas the way `Record.from_biopython` does (written order with
  `bisect_right`; candidate clusters last-to-first with `bisect_left`) reproduces the written order.
-/
import ASV.Proofs.RegionsOrder
namespace ASV.Regions
open ASV

/-- `bisect_right` puts an area whose key is not smaller than any key of the list at the end -/
theorem insertSortedRight_append {len : Int} {l : List Feat} {d : Dict Nat} {x : Feat}
    (hs : SortedBy lkey (l ++ [x])) (hl : ∀ y ∈ l, LineArea len y.loc) (hx : LineArea len x.loc) :
    ∃ d', insertSortedRight l d x = .ok (l ++ [x], d') := by
  have hsl : SortedBy lkey l := (List.pairwise_append.1 hs).1
  have hle : ∀ y ∈ l, keyLt (lkey x) (lkey y) = false := fun y hy => (List.pairwise_append.1 hs).2.2 y hy x (by simp)
  obtain ⟨r, hr1, hr2, hr3, hr4⟩ := bisect_mono lkey (fun y => !keyLt (lkey x) (lkey y)) l
    (fun y => do pure (!(← collectionLt x.loc y.loc))) hsl
    (fun y hy => by simp only [collectionLt_line hx (hl y hy), bind, Except.bind, pure, Except.pure]; rfl)
    (by
      intro a b hab hb
      simp only [Bool.not_eq_true', keyLt_false_iff] at hab hb ⊢
      omega)
    (l.length + 1) 0 l.length (Nat.zero_le _) (Nat.le_refl _) (by omega)
    (by intro j y hj; omega)
    (by intro j y hj hy; rw [List.getElem?_eq_none (by omega)] at hy; cases hy)
  have hr : r = l.length := by
    by_cases hlt : r < l.length
    · have h1 := hr4 r l[r] (Nat.le_refl _) (by simp [hlt])
      have h2 := hle l[r] (List.getElem_mem hlt)
      simp [h2] at h1
    · omega
  subst hr
  unfold insertSortedRight insertSortedWith
  rw [show bisectLeft (fun y => do pure (!(← collectionLt x.loc y.loc))) l (l.length + 1) 0 l.length = .ok l.length from hr1]
  simp only [bind, Except.bind, pure, Except.pure, insertAt_length]
  exact ⟨_, rfl⟩

/-- `bisect_left` puts an area whose key is not larger than any key of the list at the front -/
theorem insertSorted_front {len : Int} {l : List Feat} {d : Dict Nat} {x : Feat}
    (hs : SortedBy lkey (x :: l)) (hl : ∀ y ∈ l, LineArea len y.loc) (hx : LineArea len x.loc) :
    ∃ d', insertSorted l d x = .ok (x :: l, d') := by
  have hs' := List.pairwise_cons.1 hs
  obtain ⟨r, hr1, hr2, hr3, hr4⟩ := bisectLeft_sorted lkey (lkey x) l (fun y => collectionLt y.loc x.loc) hs'.2
    (fun y hy => collectionLt_line (hl y hy) hx) (l.length + 1) 0 l.length (Nat.zero_le _) (Nat.le_refl _) (by omega)
    (by intro j y hj; omega)
    (by intro j y hj hy; rw [List.getElem?_eq_none (by omega)] at hy; cases hy)
  have hr : r = 0 := by
    by_cases h0 : 0 < r
    · have hlt : 0 < l.length := by omega
      have h1 := hr3 0 l[0] h0 (by simp [hlt])
      have h2 := hs'.1 l[0] (List.getElem_mem hlt)
      rw [h2] at h1
      cases h1
    · omega
  subst hr
  simp only [insertSorted, insertSortedWith, hr1, bind, Except.bind, pure, Except.pure, insertAt, List.take_zero, List.drop_zero,
    List.nil_append]
  exact ⟨_, rfl⟩

/-- `Record.from_biopython`: protoclusters and subregions are added again in the order they were written -/
def readdInOrder : List Feat → List Feat → E (List Feat)
  | acc, [] => pure acc
  | acc, x :: rest => do
    let (l, _) ← insertSortedRight acc [] x
    readdInOrder l rest

/-- … candidate clusters from the last written to the first (`add_candidate_cluster` uses `bisect_left`) -/
def readdFromLast : List Feat → List Feat → E (List Feat)
  | acc, [] => pure acc
  | acc, x :: rest => do
    let (l, _) ← insertSorted acc [] x
    readdFromLast l rest

theorem readdInOrder_same {len : Int} (acc rest : List Feat) (hs : SortedBy lkey (acc ++ rest))
    (hl : ∀ y ∈ acc ++ rest, LineArea len y.loc) : readdInOrder acc rest = .ok (acc ++ rest) := by
  induction rest generalizing acc with
  | nil => simp [readdInOrder, pure, Except.pure]
  | cons x rest ih =>
    have hs1 : SortedBy lkey (acc ++ [x]) := by
      have : SortedBy lkey ((acc ++ [x]) ++ rest) := by simpa using hs
      exact (List.pairwise_append.1 this).1
    obtain ⟨d', hd⟩ := insertSortedRight_append (d := []) hs1 (fun y hy => hl y (by simp [hy])) (hl x (by simp))
    simp only [readdInOrder, hd, bind, Except.bind]
    rw [ih (acc ++ [x]) (by simpa using hs) (by intro y hy; exact hl y (by simpa using hy))]
    simp

theorem readdFromLast_same {len : Int} (acc rest : List Feat) (hs : SortedBy lkey (rest.reverse ++ acc))
    (hl : ∀ y ∈ rest.reverse ++ acc, LineArea len y.loc) : readdFromLast acc rest = .ok (rest.reverse ++ acc) := by
  induction rest generalizing acc with
  | nil => simp [readdFromLast, pure, Except.pure]
  | cons x rest ih =>
    have hs' : SortedBy lkey (rest.reverse ++ (x :: acc)) := by simpa using hs
    have hs1 : SortedBy lkey (x :: acc) := (List.pairwise_append.1 hs').2.1
    obtain ⟨d', hd⟩ := insertSorted_front (d := []) hs1 (fun y hy => hl y (by simp [hy])) (hl x (by simp))
    simp only [readdFromLast, hd, bind, Except.bind]
    rw [ih (x :: acc) hs' (by intro y hy; exact hl y (by simpa using hy))]
    simp

end ASV.Regions
