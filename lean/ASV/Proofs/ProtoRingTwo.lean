/-
  C03, lemma (i) for two-part cores: `_extend_area_location` of an origin-spanning core `[x, L) + [0, y)` on a
  circular record in closed form, and what the cutoff window built from it contains.
-/
import ASV.Proofs.ProtoRingWide
import ASV.Proofs.LocExtendArea
namespace ASV.Proto
open ASV ASV.Chains

theorem areaTwo_len (x y L : Int) : (areaTwo x y L .fwd).len = (L - x) + y := by
  simp [areaTwo, Loc.len, Loc.parts, Part.len]

theorem extAreaRing_shape (x y d L : Int) :
    (∃ p, extAreaRing x y d L = .simple p) ∨ (∃ a b, extAreaRing x y d L = .compound [⟨a, L, .fwd⟩, ⟨0, b, .fwd⟩]) := by
  unfold extAreaRing
  split
  · exact Or.inl ⟨_, rfl⟩
  · exact Or.inr ⟨_, _, rfl⟩

/-- `_extend_area_location` of a forward origin-spanning core: the distance is capped at
    `(x − y)/2 + 1` (half of what the core leaves free, plus one); without `force_cross_origin` the result
    is `extend_location`'s closed form -/
theorem extendArea_ring_two (r : Rec) (hcirc : r.circular = true) (x y c : Int) (hy0 : 0 < y) (hyx : y ≤ x)
    (hxL : x < r.len) (hc : 0 ≤ c) :
    extendArea r (areaTwo x y r.len .fwd) c false = .ok (extAreaRing x y (min c ((x - y) / 2 + 1)) r.len) := by
  have hL : 0 < r.len := by omega
  have hd0 : 0 ≤ min c ((x - y) / 2 + 1) := by omega
  have hb := bridges_areaTwo_fwd x y r.len hy0 hyx
  have hext := extend_area_ring_eq x y (min c ((x - y) / 2 + 1)) r.len hL hy0 hyx hxL hd0
  have hwf := extAreaRing_wf x y (min c ((x - y) / 2 + 1)) r.len hL hy0 hyx hxL hd0
  have hshape := extAreaRing_shape x y (min c ((x - y) / 2 + 1)) r.len
  have hconn := connect_self _ r.len hL hwf hshape
  have hcap : (r.len - (areaTwo x y r.len .fwd).len) / 2 + 1 = (x - y) / 2 + 1 := by
    rw [areaTwo_len]; congr 2; omega
  have hstrand : (areaTwo x y r.len .fwd).strand = .fwd := by simp [areaTwo, Loc.strand]
  have hplen : (areaTwo x y r.len .fwd).parts.length = 2 := by simp [areaTwo, Loc.parts]
  have hparts : ¬ ((extAreaRing x y (min c ((x - y) / 2 + 1)) r.len).parts.length > 2) := by
    rcases hshape with ⟨q, hq⟩ | ⟨a, b, hq⟩ <;> rw [hq] <;> simp [Loc.parts]
  have hle : (extAreaRing x y (min c ((x - y) / 2 + 1)) r.len).parts.length ≤ 2 := by omega
  simp [extendArea, hcirc, hstrand, hplen, hb, hcap, hext, Rec.wrap, hconn, hle, bind, Except.bind, pure, Except.pure]

theorem RingArea.partsNonEmpty {L : Int} {c : Loc} (h : RingArea L c) : c.PartsNonEmpty := by
  obtain ⟨hwf, ⟨p, rfl⟩ | ⟨a, b, rfl⟩⟩ := h
  · intro q hq
    simp only [areaWF, Loc.parts, Bool.and_eq_true, decide_eq_true_eq] at hwf
    simp only [Loc.parts, List.mem_singleton] at hq; subst hq; omega
  · intro q hq
    simp only [areaWF, Loc.parts, Bool.and_eq_true, decide_eq_true_eq] at hwf
    simp only [Loc.parts, List.mem_cons, List.mem_nil_iff, or_false] at hq
    rcases hq with rfl | rfl <;> simp only <;> omega

/-- the cutoff window of a two-part core: an area, exactly the bases within the capped distance of the core
    the shorter way round, and a gene shares a base with it iff one of its bases is that close to the core -/
theorem window_two_part (r : Rec) (hcirc : r.circular = true) (x y c : Int) (hy0 : 0 < y) (hyx : y ≤ x)
    (hxL : x < r.len) (hc : 0 ≤ c) :
    ∃ W, extendArea r (areaTwo x y r.len .fwd) c false = .ok W ∧ RingArea r.len W ∧
      (∀ i, W.mem i = true ↔ (0 ≤ i ∧ i < r.len ∧
        ∃ j, (areaTwo x y r.len .fwd).mem j = true ∧ ringAbs r.len i j ≤ min c ((x - y) / 2 + 1))) ∧
      ∀ g : Loc, g.PartsNonEmpty → (locationsOverlap g W = true ↔
        ∃ i j, g.mem i = true ∧ 0 ≤ i ∧ i < r.len ∧ (areaTwo x y r.len .fwd).mem j = true ∧
          ringAbs r.len i j ≤ min c ((x - y) / 2 + 1)) := by
  have hL : 0 < r.len := by omega
  have hd0 : 0 ≤ min c ((x - y) / 2 + 1) := by omega
  have harea : RingArea r.len (extAreaRing x y (min c ((x - y) / 2 + 1)) r.len) :=
    ⟨extAreaRing_wf x y _ r.len hL hy0 hyx hxL hd0, extAreaRing_shape x y _ r.len⟩
  have hmem := extAreaRing_mem x y (min c ((x - y) / 2 + 1)) r.len hL hy0 hyx hxL hd0
  refine ⟨_, extendArea_ring_two r hcirc x y c hy0 hyx hxL hc, harea, hmem, ?_⟩
  intro g hg
  rw [locationsOverlap_iff g _ hg harea.partsNonEmpty]
  constructor
  · rintro ⟨i, hi, hW⟩
    obtain ⟨h0, h1, j, hj, hr⟩ := (hmem i).1 hW
    exact ⟨i, j, hi, h0, h1, hj, hr⟩
  · rintro ⟨i, j, hi, h0, h1, hj, hr⟩
    exact ⟨i, hi, (hmem i).2 ⟨h0, h1, j, hj, hr⟩⟩

/-- the location `_extend_area_location(core, n, force_cross_origin=True)` gives an origin-spanning core -/
def nbhdTwo (x y d L : Int) : Loc :=
  if x - y < 2 * d then .compound [⟨(x - y) / 2 + y, L, .fwd⟩, ⟨0, max y ((x - y) / 2 + y - 1), .fwd⟩]
  else .compound [⟨x - d, L, .fwd⟩, ⟨0, y + d, .fwd⟩]

theorem extendArea_ring_two_force (r : Rec) (hcirc : r.circular = true) (x y c : Int) (hy0 : 0 < y) (hyx : y ≤ x)
    (hxL : x < r.len) (hc : 0 ≤ c) :
    extendArea r (areaTwo x y r.len .fwd) c true = .ok (nbhdTwo x y (min c ((x - y) / 2 + 1)) r.len) := by
  have hL : 0 < r.len := by omega
  have hd0 : 0 ≤ min c ((x - y) / 2 + 1) := by omega
  have hb := bridges_areaTwo_fwd x y r.len hy0 hyx
  have hext := extend_area_ring_eq x y (min c ((x - y) / 2 + 1)) r.len hL hy0 hyx hxL hd0
  have hwf := extAreaRing_wf x y (min c ((x - y) / 2 + 1)) r.len hL hy0 hyx hxL hd0
  have hshape := extAreaRing_shape x y (min c ((x - y) / 2 + 1)) r.len
  have hconn := connect_self _ r.len hL hwf hshape
  have hcap : (r.len - (areaTwo x y r.len .fwd).len) / 2 + 1 = (x - y) / 2 + 1 := by
    rw [areaTwo_len]; congr 2; omega
  have hstrand : (areaTwo x y r.len .fwd).strand = .fwd := by simp [areaTwo, Loc.strand]
  have hplen : (areaTwo x y r.len .fwd).parts.length = 2 := by simp [areaTwo, Loc.parts]
  have hhead : (areaTwo x y r.len .fwd).parts.head? = some ⟨x, r.len, .fwd⟩ := by simp [areaTwo, Loc.parts]
  have hlast : (areaTwo x y r.len .fwd).parts.getLast? = some ⟨0, y, .fwd⟩ := by simp [areaTwo, Loc.parts]
  by_cases hcase : x - y < 2 * min c ((x - y) / 2 + 1)
  · have he : extAreaRing x y (min c ((x - y) / 2 + 1)) r.len = .simple ⟨0, r.len, .fwd⟩ := by
      unfold extAreaRing; rw [if_pos hcase]
    rw [he] at hext hconn
    have hn : nbhdTwo x y (min c ((x - y) / 2 + 1)) r.len =
        .compound [⟨(x - y) / 2 + y, r.len, .fwd⟩, ⟨0, max y ((x - y) / 2 + y - 1), .fwd⟩] := by
      unfold nbhdTwo; rw [if_pos hcase]
    rw [hn]
    have hlenW : (Loc.simple ⟨0, r.len, .fwd⟩).len = r.len := by simp [Loc.len, Loc.parts, Part.len]
    have hbW : bridgesOrigin (Loc.simple ⟨0, r.len, .fwd⟩) = false := rfl
    have hstrW : (Loc.simple ⟨0, r.len, .fwd⟩).strand = .fwd := rfl
    have hpl : (Loc.compound [⟨(x - y) / 2 + y, r.len, .fwd⟩, ⟨0, max y ((x - y) / 2 + y - 1), .fwd⟩]).parts.length = 2 := rfl
    simp [extendArea, hcirc, hstrand, hplen, hb, hcap, hext, Rec.wrap, hconn, hhead, hlast, hlenW, hbW, hstrW, hpl,
      bind, Except.bind, pure, Except.pure]
  · have he : extAreaRing x y (min c ((x - y) / 2 + 1)) r.len =
        .compound [⟨x - min c ((x - y) / 2 + 1), r.len, .fwd⟩, ⟨0, y + min c ((x - y) / 2 + 1), .fwd⟩] := by
      unfold extAreaRing; rw [if_neg hcase]
    rw [he] at hext hconn
    have hn : nbhdTwo x y (min c ((x - y) / 2 + 1)) r.len =
        .compound [⟨x - min c ((x - y) / 2 + 1), r.len, .fwd⟩, ⟨0, y + min c ((x - y) / 2 + 1), .fwd⟩] := by
      unfold nbhdTwo; rw [if_neg hcase]
    rw [hn]
    have hb2 : bridgesOrigin (Loc.compound [⟨x - min c ((x - y) / 2 + 1), r.len, .fwd⟩, ⟨0, y + min c ((x - y) / 2 + 1), .fwd⟩]) = true :=
      bridges_areaTwo_fwd (x - min c ((x - y) / 2 + 1)) (y + min c ((x - y) / 2 + 1)) r.len (by omega) (by omega)
    have hpl : (Loc.compound [⟨x - min c ((x - y) / 2 + 1), r.len, .fwd⟩, ⟨0, y + min c ((x - y) / 2 + 1), .fwd⟩]).parts.length = 2 := rfl
    simp [extendArea, hcirc, hstrand, hplen, hb, hcap, hext, Rec.wrap, hconn, hb2, hpl, bind, Except.bind, pure,
      Except.pure]

theorem nbhdTwo_props (x y d L : Int) (hy0 : 0 < y) (hyx : y ≤ x) (hxL : x < L) (hd : 0 ≤ d)
    (hdcap : d ≤ (x - y) / 2 + 1) :
    (∃ a b, nbhdTwo x y d L = .compound [⟨a, L, .fwd⟩, ⟨0, b, .fwd⟩] ∧ 0 < b ∧ b ≤ a ∧ a < L ∧ a ≤ x ∧ y ≤ b) := by
  unfold nbhdTwo
  by_cases hcase : x - y < 2 * d
  · rw [if_pos hcase]
    exact ⟨_, _, rfl, by omega, by omega, by omega, by omega, by omega⟩
  · rw [if_neg hcase]
    exact ⟨_, _, rfl, by omega, by omega, by omega, by omega, by omega⟩

/-- `Protocluster(core, surrounds)` succeeds for an origin-spanning core inside an origin-spanning area -/
theorem mkPC_two (rule : String) (x y a b L : Int) (hy0 : 0 < y) (hyx : y ≤ x) (hb0 : 0 < b) (hba : b ≤ a) (haL : a < L) :
    mkPC rule (areaTwo x y L .fwd) (.compound [⟨a, L, .fwd⟩, ⟨0, b, .fwd⟩]) =
      .ok ⟨rule, areaTwo x y L .fwd, .compound [⟨a, L, .fwd⟩, ⟨0, b, .fwd⟩]⟩ := by
  have hbc := bridges_areaTwo_fwd x y L hy0 hyx
  have hbw : bridgesOrigin (.compound [⟨a, L, .fwd⟩, ⟨0, b, .fwd⟩]) = true := bridges_areaTwo_fwd a b L hb0 hba
  have h1 : ¬ (b = L) := by omega
  have h2 : ¬ (minList [a, 0] > maxList [L, b]) := by simp [minList, maxList]; omega
  have h3 : ¬ (minList [a, 0] < 0) := by simp [minList]; omega
  have hcl : (areaTwo x y L .fwd).parts.length = 2 := by simp [areaTwo, Loc.parts]
  simp [mkPC, hbc, hbw, areaTwo, Loc.parts, Loc.start, Loc.end, Loc.strand, dupEnds, h1, h2, h3, pure, Except.pure]

/-- the protocluster of an origin-spanning core: `_extend_area_location(…, force_cross_origin=True)` and the
    constructor succeed; the location spans the origin, is a well-formed area and covers the core -/
theorem protocluster_two_part (r : Rec) (hcirc : r.circular = true) (rule : String) (x y n : Int) (hy0 : 0 < y)
    (hyx : y ≤ x) (hxL : x < r.len) (hn : 0 ≤ n) :
    ∃ W, extendArea r (areaTwo x y r.len .fwd) n true = .ok W ∧
      mkPC rule (areaTwo x y r.len .fwd) W = .ok ⟨rule, areaTwo x y r.len .fwd, W⟩ ∧
      RingArea r.len W ∧ bridgesOrigin W = true ∧ Covers W (areaTwo x y r.len .fwd) := by
  obtain ⟨a, b, hW, hb0, hba, haL, hax, hyb⟩ := nbhdTwo_props x y (min n ((x - y) / 2 + 1)) r.len hy0 hyx hxL
    (by omega) (by omega)
  refine ⟨_, extendArea_ring_two_force r hcirc x y n hy0 hyx hxL hn, ?_, ?_, ?_, ?_⟩
  · rw [hW]; exact mkPC_two rule x y a b r.len hy0 hyx hb0 hba haL
  · rw [hW]
    refine ⟨?_, Or.inr ⟨a, b, rfl⟩⟩
    simp [areaWF, Loc.parts]; omega
  · rw [hW]; exact bridges_areaTwo_fwd a b r.len hb0 hba
  · rw [hW]
    intro i hi
    simp only [areaTwo, Loc.mem, Loc.parts, List.any_cons, List.any_nil, Bool.or_false, Bool.or_eq_true, Part.mem_iff] at hi ⊢
    omega

end ASV.Proto
