/-
  C03, lemma (i) for two-part cores: `_extend_area_location` of an origin-spanning core `[x, L) + [0, y)` on a
  circular record in closed form, and what the cutoff window built from it contains.
-/
import ASV.Proofs.ProtoRingWide
import ASV.Proofs.LocExtendArea
namespace ASV.Proto
open ASV ASV.Chains

theorem areaTwo_len (x y L : Int) : (areaTwo x y L .fwd).len = (L - x) + y := by
  simp [areaTwo, Loc.len, Loc.parts, Part.len]

theorem extAreaRing_shape (x y d L : Int) :
    (∃ p, extAreaRing x y d L = .simple p) ∨ (∃ a b, extAreaRing x y d L = .compound [⟨a, L, .fwd⟩, ⟨0, b, .fwd⟩]) := by
  unfold extAreaRing
  split
  · exact Or.inl ⟨_, rfl⟩
  · exact Or.inr ⟨_, _, rfl⟩

/-- `_extend_area_location` of a forward origin-spanning core: the distance is capped at
    `(x − y)/2 + 1` (half of what the core leaves free, plus one); without `force_cross_origin` the result
    is `extend_location`'s closed form -/
theorem extendArea_ring_two (r : Rec) (hcirc : r.circular = true) (x y c : Int) (hy0 : 0 < y) (hyx : y ≤ x)
    (hxL : x < r.len) (hc : 0 ≤ c) :
    extendArea r (areaTwo x y r.len .fwd) c false = .ok (extAreaRing x y (min c ((x - y) / 2 + 1)) r.len) := by
  have hL : 0 < r.len := by omega
  have hd0 : 0 ≤ min c ((x - y) / 2 + 1) := by omega
  have hb := bridges_areaTwo_fwd x y r.len hy0 hyx
  have hext := extend_area_ring_eq x y (min c ((x - y) / 2 + 1)) r.len hL hy0 hyx hxL hd0
  have hwf := extAreaRing_wf x y (min c ((x - y) / 2 + 1)) r.len hL hy0 hyx hxL hd0
  have hshape := extAreaRing_shape x y (min c ((x - y) / 2 + 1)) r.len
  have hconn := connect_self _ r.len hL hwf hshape
  have hcap : (r.len - (areaTwo x y r.len .fwd).len) / 2 + 1 = (x - y) / 2 + 1 := by
    rw [areaTwo_len]; congr 2; omega
  have hstrand : (areaTwo x y r.len .fwd).strand = .fwd := by simp [areaTwo, Loc.strand]
  have hplen : (areaTwo x y r.len .fwd).parts.length = 2 := by simp [areaTwo, Loc.parts]
  have hparts : ¬ ((extAreaRing x y (min c ((x - y) / 2 + 1)) r.len).parts.length > 2) := by
    rcases hshape with ⟨q, hq⟩ | ⟨a, b, hq⟩ <;> rw [hq] <;> simp [Loc.parts]
  have hle : (extAreaRing x y (min c ((x - y) / 2 + 1)) r.len).parts.length ≤ 2 := by omega
  simp [extendArea, hcirc, hstrand, hplen, hb, hcap, hext, Rec.wrap, hconn, hle, bind, Except.bind, pure, Except.pure]

theorem RingArea.partsNonEmpty {L : Int} {c : Loc} (h : RingArea L c) : c.PartsNonEmpty := by
  obtain ⟨hwf, ⟨p, rfl⟩ | ⟨a, b, rfl⟩⟩ := h
  · intro q hq
    simp only [areaWF, Loc.parts, Bool.and_eq_true, decide_eq_true_eq] at hwf
    simp only [Loc.parts, List.mem_singleton] at hq; subst hq; omega
  · intro q hq
    simp only [areaWF, Loc.parts, Bool.and_eq_true, decide_eq_true_eq] at hwf
    simp only [Loc.parts, List.mem_cons, List.mem_nil_iff, or_false] at hq
    rcases hq with rfl | rfl <;> simp only <;> omega

/-- the cutoff window of a two-part core: an area, exactly the bases within the capped distance of the core
    the shorter way round, and a gene shares a base with it iff one of its bases is that close to the core -/
theorem window_two_part (r : Rec) (hcirc : r.circular = true) (x y c : Int) (hy0 : 0 < y) (hyx : y ≤ x)
    (hxL : x < r.len) (hc : 0 ≤ c) :
    ∃ W, extendArea r (areaTwo x y r.len .fwd) c false = .ok W ∧ RingArea r.len W ∧
      (∀ i, W.mem i = true ↔ (0 ≤ i ∧ i < r.len ∧
        ∃ j, (areaTwo x y r.len .fwd).mem j = true ∧ ringAbs r.len i j ≤ min c ((x - y) / 2 + 1))) ∧
      ∀ g : Loc, g.PartsNonEmpty → (locationsOverlap g W = true ↔
        ∃ i j, g.mem i = true ∧ 0 ≤ i ∧ i < r.len ∧ (areaTwo x y r.len .fwd).mem j = true ∧
          ringAbs r.len i j ≤ min c ((x - y) / 2 + 1)) := by
  have hL : 0 < r.len := by omega
  have hd0 : 0 ≤ min c ((x - y) / 2 + 1) := by omega
  have harea : RingArea r.len (extAreaRing x y (min c ((x - y) / 2 + 1)) r.len) :=
    ⟨extAreaRing_wf x y _ r.len hL hy0 hyx hxL hd0, extAreaRing_shape x y _ r.len⟩
  have hmem := extAreaRing_mem x y (min c ((x - y) / 2 + 1)) r.len hL hy0 hyx hxL hd0
  refine ⟨_, extendArea_ring_two r hcirc x y c hy0 hyx hxL hc, harea, hmem, ?_⟩
  intro g hg
  rw [locationsOverlap_iff g _ hg harea.partsNonEmpty]
  constructor
  · rintro ⟨i, hi, hW⟩
    obtain ⟨h0, h1, j, hj, hr⟩ := (hmem i).1 hW
    exact ⟨i, j, hi, h0, h1, hj, hr⟩
  · rintro ⟨i, j, hi, h0, h1, hj, hr⟩
    exact ⟨i, hi, (hmem i).2 ⟨h0, h1, j, hj, hr⟩⟩

end ASV.Proto
