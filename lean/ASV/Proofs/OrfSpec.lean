/-
  C15 helper lemmas: the executable forms of the spec (`isOrfB`, `specOrfs`) agree with the
  propositional ones, so what the driver evaluates on implementation output is what the
  theorems talk about.
-/
import ASV.Spec.Orf
namespace ASV.Orf
open ASV

theorem isOrfB_iff (w : Seq) (s e : Nat) : isOrfB w s e = true ↔ IsOrf w s e := by
  simp only [isOrfB, Bool.and_eq_true, beq_iff_eq, decide_eq_true_eq, List.all_eq_true,
    List.mem_range, Bool.or_eq_true, List.any_eq_true, Bool.and_eq_false_imp,
    Bool.not_eq_eq_eq_not, Bool.not_true]
  constructor
  · rintro ⟨⟨⟨⟨⟨⟨h1, h2⟩, h3⟩, h4⟩, h5⟩, h6⟩, h7⟩
    refine ⟨h1, h2, h3, h4, h5, ?_, ?_⟩
    · intro q hq1 hq2 hq3 hq4
      have := h6 q hq2
      simp only [StopAt] at hq4
      simp_all
    · intro p hp1 hp2 hp3
      rcases h7 p hp1 with h | ⟨q, hq, hq'⟩
      · simp only [StartAt] at hp3
        simp_all
      · exact ⟨q, hq'.1.1, hq, hq'.1.2, hq'.2⟩
  · intro h
    refine ⟨⟨⟨⟨⟨⟨h.frame, h.lt⟩, h.inside⟩, h.start⟩, h.stop⟩, ?_⟩, ?_⟩
    · intro q hq h1
      have := h.noStop q h1.1 hq h1.2
      simp only [StopAt] at this
      simpa using this
    · intro p hp
      by_cases h2 : p % 3 = s % 3
      · by_cases h3 : isStartDoc (codonAt w p) = true
        · obtain ⟨q, a, b, c, d⟩ := h.first p hp h2 h3
          exact Or.inr ⟨q, b, ⟨a, c⟩, d⟩
        · simp_all
      · simp_all

instance (w : Seq) (s e : Nat) : Decidable (IsOrf w s e) := decidable_of_iff _ (isOrfB_iff w s e)

/-- the brute-force enumeration lists exactly the ORFs of the window -/
theorem mem_specOrfs (w : Seq) (s e : Nat) : (s, e) ∈ specOrfs w ↔ IsOrf w s e := by
  simp only [specOrfs, List.mem_flatMap, List.mem_filter, List.mem_range, List.mem_map,
    Prod.mk.injEq]
  constructor
  · rintro ⟨s', ⟨_, _⟩, e', ⟨⟨_, _⟩, h⟩, rfl, rfl⟩
    exact (isOrfB_iff w _ _).1 h
  · intro h
    have hb := (isOrfB_iff w s e).2 h
    have h1 := h.lt; have h2 := h.inside
    exact ⟨s, ⟨by omega, h.start⟩, e, ⟨⟨by omega, h.stop⟩, hb⟩, rfl, rfl⟩

end ASV.Orf
