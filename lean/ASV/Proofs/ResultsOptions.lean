/-
  C11 helper lemmas, part 6: the sideloader's options (load / regenerate) and the PFAM version guard.
-/
import ASV.Proofs.ResultsFile
namespace ASV.Results
open ASV.Results.Spec

theorem mapO_mem {α β} (f : α → Outcome β) : ∀ (l : List α) (ys : List β), mapO f l = .reuse ys →
    ∀ y ∈ ys, ∃ x ∈ l, f x = .reuse y
  | [], ys, h, y, hy => by simp [mapO] at h; subst h; cases hy
  | x :: xs, ys, h, y, hy => by
    simp only [mapO] at h
    obtain ⟨a, ha, h⟩ := bind_eq_reuse h
    obtain ⟨as, has, h⟩ := bind_eq_reuse h
    simp at h; subst h
    rcases List.mem_cons.mp hy with rfl | hy'
    · exact ⟨x, by simp, ha⟩
    · obtain ⟨x', hx', hf⟩ := mapO_mem f xs as has y hy'
      exact ⟨x', by simp [hx'], hf⟩

theorem map'_eq_reuse {α β} {o : Outcome α} {f : α → β} {b : β} (h : o.map' f = .reuse b) :
    ∃ a, o = .reuse a ∧ f a = b := by
  cases o with
  | reuse a => simp [Outcome.map'] at h; exact ⟨a, rfl, h⟩
  | discard => simp [Outcome.map'] at h
  | refuse e => simp [Outcome.map'] at h

/-- a sub-region the constructor accepted satisfies the class invariant for that origin -/
theorem SubAnn.valid_of_make {start stop label tool details origin s}
    (h : SubAnn.make start stop label tool details origin = .reuse s) (hn : Tool.nameOk tool.name = true) :
    SubAnn.valid origin s = true := by
  have hs := SubAnn.make_eq h
  subst hs
  simp [SubAnn.valid, h, Outcome.isReuse, hn]

namespace SideOpts

theorem manualArea_valid {r : RecInfo} {o : SideOpts} {l} (h : manualArea r o = .reuse l) :
    ∀ s ∈ l, SubAnn.valid r.origin s = true := by
  unfold manualArea at h
  split at h
  · split at h
    · obtain ⟨a, ha, hl⟩ := map'_eq_reuse h
      subst hl
      intro s hs
      simp at hs; subst hs
      exact SubAnn.valid_of_make ha (by decide)
    · simp at h; subst h; intro s hs; cases hs
  · simp at h; subst h; intro s hs; cases hs

theorem markerArea_valid {r : RecInfo} {p : Int} {name : String} {s : SubAnn}
    (h : markerArea r p name = .reuse (some s)) : SubAnn.valid r.origin s = true := by
  unfold markerArea at h
  split at h
  · simp at h
  · split at h
    · rename_i hc
      obtain ⟨a, ha, hl⟩ := map'_eq_reuse h
      simp at hl; subst hl
      have := SubAnn.valid_of_make ha (by decide)
      have ho : r.origin = some r.length := by unfold RecInfo.origin; rw [if_pos hc]
      rw [ho]; exact this
    · rename_i hc
      obtain ⟨a, ha, hl⟩ := map'_eq_reuse h
      simp at hl; subst hl
      have := SubAnn.valid_of_make ha (by decide)
      have ho : r.origin = none := by unfold RecInfo.origin; rw [if_neg hc]
      rw [ho]; exact this

/-- whatever `load` returns satisfies the class invariant of SideloadedResults for this record
    (given that the parsed file annotations do) -/
theorem load_valid {r : RecInfo} {o : SideOpts} {x : Sideloaded} (h : load r o = .reuse x)
    (hf : ∀ s ∈ o.fileSubs, SubAnn.valid r.origin s = true)
    (hp : ∀ p ∈ o.fileProtos, ProtoAnn.valid r.origin p = true) : x.valid r.ctx = true := by
  unfold load at h
  obtain ⟨manual, hm, h⟩ := bind_eq_reuse h
  obtain ⟨marked, hk, h⟩ := bind_eq_reuse h
  simp at h; subst h
  simp only [Sideloaded.valid, RecInfo.ctx, Bool.and_eq_true, beq_self_eq_true, true_and, List.all_eq_true]
  refine ⟨?_, hp⟩
  intro s hs
  simp only [List.mem_append, List.mem_filterMap, id] at hs
  rcases hs with hs | hs | ⟨a, ha, hs⟩
  · exact hf s hs
  · exact manualArea_valid hm s hs
  · subst hs
    obtain ⟨name, _, hn⟩ := mapO_mem _ _ _ hk (some s) ha
    exact markerArea_valid hn

theorem regenerate_enabled {r : RecInfo} {o : SideOpts} {x y : Sideloaded} (he : o.enabled = true)
    (hv : x.valid r.ctx = true) (hl : load r o = .reuse y) :
    regenerate r o x.toJson = Sideloaded.regenerate r.ctx (some y) x.toJson := by
  unfold regenerate
  simp only [he, if_true]
  split
  · rename_i heq; simp [Sideloaded.toJson] at heq
  · rw [Sideloaded.fromJson_toJson r.ctx x hv, hl]

end SideOpts

/-! ### annotate_cds_features reaches every stored CDSResults, inside or outside protoclusters -/

theorem updState_keys (m : List (String × CdsState)) (name : String) (f : CdsState → CdsState) :
    name ∈ (updState m name f).map (·.1) ∧ ∀ k ∈ m.map (·.1), k ∈ (updState m name f).map (·.1) := by
  unfold updState
  split
  · rename_i h
    have hkeys : (m.map fun p => if p.1 == name then (p.1, f p.2) else p).map (·.1) = m.map (·.1) := by
      rw [List.map_map]
      apply List.map_congr_left
      intro p _
      simp only [Function.comp]
      split <;> rfl
    rw [hkeys]
    refine ⟨?_, fun k hk => hk⟩
    simp only [List.any_eq_true, beq_iff_eq] at h
    obtain ⟨p, hp, hn⟩ := h
    exact List.mem_map.mpr ⟨p, hp, hn⟩
  · refine ⟨by simp, fun k hk => ?_⟩
    rw [List.map_append]
    exact List.mem_append_left _ hk

theorem foldl_updState_keys (tool : String) : ∀ (l : List CdsRes) (m : List (String × CdsState)),
    (∀ k ∈ m.map (·.1), k ∈ (l.foldl (fun m c => updState m c.cdsName (fun st => c.annotate tool st)) m).map (·.1))
    ∧ ∀ c ∈ l, c.cdsName ∈ (l.foldl (fun m c => updState m c.cdsName (fun st => c.annotate tool st)) m).map (·.1)
  | [], m => ⟨fun k hk => hk, fun c hc => by cases hc⟩
  | c :: rest, m => by
    have h1 := updState_keys m c.cdsName (fun st => c.annotate tool st)
    have ih := foldl_updState_keys tool rest (updState m c.cdsName (fun st => c.annotate tool st))
    simp only [List.foldl_cons]
    refine ⟨fun k hk => ih.1 k (h1.2 k hk), fun c' hc' => ?_⟩
    rcases List.mem_cons.mp hc' with rfl | hr
    · exact ih.1 _ h1.1
    · exact ih.2 c' hr

/-! ### PFAM version guard -/

theorem versionKeys_mem : ∀ (l : List String) (r : List (List Nat × String)), versionKeys l = some r →
    ∀ p ∈ r, p.2 ∈ l
  | [], r, h, p, hp => by simp [versionKeys] at h; subst h; cases hp
  | v :: vs, r, h, p, hp => by
    simp only [versionKeys] at h
    split at h
    · rename_i k r' hk hr
      simp at h; subst h
      rcases List.mem_cons.mp hp with rfl | hp'
      · simp
      · exact List.mem_cons_of_mem _ (versionKeys_mem vs r' hr p hp')
    · simp at h


theorem pfamKeepAllowed_eq (m : HmmerModule) (o : PfamOpts) (v : String) :
    Spec.pfamKeepAllowed m o v = (o.wanted m == v) := by
  cases m <;> rfl

theorem hmmerRun_keep_iff (m : HmmerModule) (o : PfamOpts) (r : HmmerRes) (v : String)
    (hv : dbVersionOfPath r.database = .reuse v) :
    hmmerRunOnRecord m o (some r) = (if Spec.pfamKeepAllowed m o v then .reuse (.keep r) else .reuse (.rerun (o.wanted m))) := by
  simp only [hmmerRunOnRecord, hv, pfamKeepAllowed_eq]

end ASV.Results
