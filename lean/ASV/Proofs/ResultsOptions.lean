/-
  C11 helper lemmas, part 6: the sideloader's options (load / regenerate) and the PFAM version guard.
-/
import ASV.Proofs.ResultsFile
namespace ASV.Results
open ASV.Results.Spec

theorem mapO_mem {α β} (f : α → Outcome β) : ∀ (l : List α) (ys : List β), mapO f l = .reuse ys →
    ∀ y ∈ ys, ∃ x ∈ l, f x = .reuse y
  | [], ys, h, y, hy => by simp [mapO] at h; subst h; cases hy
  | x :: xs, ys, h, y, hy => by
    simp only [mapO] at h
    obtain ⟨a, ha, h⟩ := bind_eq_reuse h
    obtain ⟨as, has, h⟩ := bind_eq_reuse h
    simp at h; subst h
    rcases List.mem_cons.mp hy with rfl | hy'
    · exact ⟨x, by simp, ha⟩
    · obtain ⟨x', hx', hf⟩ := mapO_mem f xs as has y hy'
      exact ⟨x', by simp [hx'], hf⟩

theorem map'_eq_reuse {α β} {o : Outcome α} {f : α → β} {b : β} (h : o.map' f = .reuse b) :
    ∃ a, o = .reuse a ∧ f a = b := by
  cases o with
  | reuse a => simp [Outcome.map'] at h; exact ⟨a, rfl, h⟩
  | discard => simp [Outcome.map'] at h
  | refuse e => simp [Outcome.map'] at h

/-- a sub-region the constructor accepted satisfies the class invariant for that origin -/
theorem SubAnn.valid_of_make {start stop label tool details origin s}
    (h : SubAnn.make start stop label tool details origin = .reuse s) (hn : Tool.nameOk tool.name = true) :
    SubAnn.valid origin s = true := by
  have hs := SubAnn.make_eq h
  subst hs
  simp [SubAnn.valid, h, Outcome.isReuse, hn]

namespace SideOpts

theorem manualArea_valid {r : RecInfo} {o : SideOpts} {l} (h : manualArea r o = .reuse l) :
    ∀ s ∈ l, SubAnn.valid r.origin s = true := by
  unfold manualArea at h
  split at h
  · split at h
    · obtain ⟨a, ha, hl⟩ := map'_eq_reuse h
      subst hl
      intro s hs
      simp at hs; subst hs
      exact SubAnn.valid_of_make ha (by decide)
    · simp at h; subst h; intro s hs; cases hs
  · simp at h; subst h; intro s hs; cases hs

theorem markerArea_valid {r : RecInfo} {p : Int} {name : String} {s : SubAnn}
    (h : markerArea r p name = .reuse (some s)) : SubAnn.valid r.origin s = true := by
  unfold markerArea at h
  split at h
  · simp at h
  · split at h
    · rename_i hc
      obtain ⟨a, ha, hl⟩ := map'_eq_reuse h
      simp at hl; subst hl
      have := SubAnn.valid_of_make ha (by decide)
      have ho : r.origin = some r.length := by unfold RecInfo.origin; rw [if_pos hc]
      rw [ho]; exact this
    · rename_i hc
      obtain ⟨a, ha, hl⟩ := map'_eq_reuse h
      simp at hl; subst hl
      have := SubAnn.valid_of_make ha (by decide)
      have ho : r.origin = none := by unfold RecInfo.origin; rw [if_neg hc]
      rw [ho]; exact this

/-- whatever `load` returns satisfies the class invariant of SideloadedResults for this record
    (given that the parsed file annotations do) -/
theorem load_valid {r : RecInfo} {o : SideOpts} {x : Sideloaded} (h : load r o = .reuse x)
    (hf : ∀ s ∈ o.fileSubs, SubAnn.valid r.origin s = true)
    (hp : ∀ p ∈ o.fileProtos, ProtoAnn.valid r.origin p = true) : x.valid r.ctx = true := by
  unfold load at h
  obtain ⟨manual, hm, h⟩ := bind_eq_reuse h
  obtain ⟨marked, hk, h⟩ := bind_eq_reuse h
  simp at h; subst h
  simp only [Sideloaded.valid, RecInfo.ctx, Bool.and_eq_true, beq_self_eq_true, true_and, List.all_eq_true]
  refine ⟨?_, hp⟩
  intro s hs
  simp only [List.mem_append, List.mem_filterMap, id] at hs
  rcases hs with hs | hs | ⟨a, ha, hs⟩
  · exact hf s hs
  · exact manualArea_valid hm s hs
  · subst hs
    obtain ⟨name, _, hn⟩ := mapO_mem _ _ _ hk (some s) ha
    exact markerArea_valid hn

theorem regenerate_enabled {r : RecInfo} {o : SideOpts} {x y : Sideloaded} (he : o.enabled = true)
    (hv : x.valid r.ctx = true) (hl : load r o = .reuse y) :
    regenerate r o x.toJson = Sideloaded.regenerate r.ctx (some y) x.toJson := by
  unfold regenerate
  simp only [he, if_true]
  split
  · rename_i heq; simp [Sideloaded.toJson] at heq
  · rw [Sideloaded.fromJson_toJson r.ctx x hv, hl]

end SideOpts

/-! ### PFAM version guard -/

theorem pfamKeepAllowed_eq (m : HmmerModule) (o : PfamOpts) (v : String) :
    Spec.pfamKeepAllowed m o v = (o.wanted m == v) := by
  cases m <;> rfl

theorem hmmerRun_keep_iff (m : HmmerModule) (o : PfamOpts) (r : HmmerRes) (v : String)
    (hv : dbVersionOfPath r.database = .reuse v) :
    hmmerRunOnRecord m o (some r) = (if Spec.pfamKeepAllowed m o v then .reuse (.keep r) else .reuse (.rerun (o.wanted m))) := by
  simp only [hmmerRunOnRecord, hv, pfamKeepAllowed_eq]

end ASV.Results
