/-
  C05: the containment scan of `_find_hybrids` on a circular record.  When the protoclusters that
  share with nobody have single-part cores (no origin-spanning core among them), the `bisect − 1`
  window, the early `break` and the second scan for an origin-spanning group core lose none of them.
-/
import ASV.Proofs.NoDupRing
set_option linter.unusedSectionVars false
set_option linter.unusedVariables false
set_option linter.unusedSimpArgs false
namespace ASV.CC
open ASV.CC.Spec

/-- nothing sorts before the value: the insertion point is the front -/
theorem bisectLeft_go_zero (a : List Int) (x : Int) (h : ∀ j, j < a.length → ¬ a.getD j 0 < x) (fuel hi : Nat)
    (hhi : hi ≤ a.length) : bisectLeft.go a x fuel 0 hi = 0 := by
  induction fuel generalizing hi with
  | zero => rfl
  | succ n ih =>
    simp only [bisectLeft.go]
    split
    · rename_i hlt
      have hm : (0 + hi) / 2 < a.length := by omega
      rw [if_neg (h _ hm)]
      exact ih _ (by omega)
    · rfl

theorem bisectLeft_zero (a : List Int) (x : Int) (h : ∀ y, y ∈ a → x ≤ y) : bisectLeft a x = 0 := by
  apply bisectLeft_go_zero a x _ _ _ (Nat.le_refl _)
  intro j hj
  rw [getD_lt a j hj]
  have := h a[j] (List.getElem_mem hj)
  omega

/-- a scan that never breaks tests every protocluster of the list -/
theorem scanContained_nobreak (core : Loc) (limit : Int) (g l : List Proto) (hnb : ∀ c, c ∈ l → ¬ c.loc.start > limit) :
    ∀ p, p ∈ l → locationContainsOther core p.core = true → p ∈ scanContained core limit g l := by
  induction l generalizing g with
  | nil => intro p hp; cases hp
  | cons c rest ih =>
    intro p hp hcont
    simp only [scanContained]
    rw [if_neg (hnb c List.mem_cons_self)]
    have hrest : ∀ g', p ∈ rest → p ∈ scanContained core limit g' rest := fun g' hpr =>
      ih g' (fun q hq => hnb q (List.mem_cons_of_mem _ hq)) p hpr hcont
    split
    · rcases List.mem_cons.1 hp with e | e
      · exact scanContained_sub _ _ _ _ p (by rw [e]; simp)
      · exact hrest _ e
    · rename_i hcond
      rcases List.mem_cons.1 hp with e | e
      · apply scanContained_sub
        subst e
        simp only [hcont, Bool.and_true, Bool.not_eq_true', Bool.not_eq_false] at hcond
        simpa using hcond
      · exact hrest _ e

/-- the scan of one group on a circular record of length `L` -/
theorem extendGroup_complete_ring {L : Int} (hL : 0 < L) {byCore m e : List Proto}
    (h : extendGroup (some L) byCore m = .ok e) (hm : m ≠ []) (hmc : ∀ x, x ∈ m → RingIn L x.core)
    (hs : SortedBy (fun p : Proto => p.core.start) byCore)
    (hv : ∀ p, p ∈ byCore → ValidCore p ∧ RingIn L p.core) :
    ∃ core, connect (m.map (·.core)) (some L) = .ok core ∧
      ∀ p, p ∈ byCore → locationContainsOther core p.core = true → p ∈ e := by
  obtain ⟨core, hc, hwf, hsh, _⟩ := connect_ring_ok (m.map (·.core)) L (by simpa using hm) hL
    (fun l hl => by obtain ⟨x, hx, e⟩ := List.mem_map.1 hl; rw [← e]; exact hmc x hx)
  refine ⟨core, hc, ?_⟩
  unfold extendGroup at h
  rw [hc] at h
  dsimp only at h
  injection h with h
  -- facts about the scanned list
  have hstarts : (byCore.map coreStart).Pairwise (· ≤ ·) := by
    rw [List.pairwise_map]
    refine hs.imp_of_mem ?_
    intro a b ha hb hab
    obtain ⟨ra, hra, _, _⟩ := (hv a ha).1
    obtain ⟨rb, hrb, _, _⟩ := (hv b hb).1
    simp only [coreStart, hra, hrb, featStart_simple]
    simp only [hra, hrb, Loc.start] at hab
    exact hab
  have hinside : ∀ p, p ∈ byCore → ∃ r, p.core = .simple r ∧ 0 ≤ r.lo ∧ r.lo < r.hi ∧ r.hi ≤ L ∧ p.loc.start ≤ r.lo := by
    intro p hp
    obtain ⟨⟨r, hr, h1, h2⟩, ⟨_, hin, _⟩⟩ := hv p hp
    have := hin r (by rw [hr]; simp [Loc.parts])
    exact ⟨r, hr, this.1, h1, this.2.2, h2⟩
  rcases hsh with ⟨k, rfl⟩ | ⟨a, b, rfl⟩
  · -- a single-part group core: as on a linear record
    simp only [Loc.parts, List.length_singleton, Nat.lt_irrefl, if_false, Loc.end, Loc.start] at h
    subst h
    intro p hp hcont
    obtain ⟨r, hr, _, hne, _, _⟩ := hinside p hp
    have hk' := (contains_simple k r).1 (by rw [← hr]; exact hcont)
    have hsplit := List.take_append_drop ((max 0 (Int.ofNat (bisectLeft (byCore.map coreStart) k.lo) - 1)).toNat) byCore
    have hp' : p ∈ List.take ((max 0 (Int.ofNat (bisectLeft (byCore.map coreStart) k.lo) - 1)).toNat) byCore ++
        List.drop ((max 0 (Int.ofNat (bisectLeft (byCore.map coreStart) k.lo) - 1)).toNat) byCore := by rw [hsplit]; exact hp
    rcases List.mem_append.1 hp' with h1 | h1
    · exfalso
      obtain ⟨j, hj, e⟩ := List.mem_take_iff_getElem.1 h1
      have hjlen : j < byCore.length := by omega
      have hjb : j < bisectLeft (byCore.map coreStart) k.lo := by
        simp only [Int.ofNat_eq_natCast] at hj
        omega
      have := bisectLeft_spec (byCore.map coreStart) k.lo hstarts j hjb (by simpa using hjlen)
      rw [getD_lt _ j (by simpa using hjlen), List.getElem_map, e] at this
      simp only [coreStart, hr, featStart_simple] at this
      omega
    · refine scanContained_complete k m _ ?_ ?_ p h1 hcont
      · exact hs.sublist (List.drop_sublist _ _)
      · intro q hq; exact (hv q (List.mem_of_mem_drop hq)).1
  · -- an origin-spanning group core `[a, L) + [0, b)`: its start is 0, nothing is skipped, and the
    -- first scan (limit `L`) never breaks
    simp only [areaWF, Loc.parts, Bool.and_eq_true, decide_eq_true_eq] at hwf
    have hstart : (Loc.compound [⟨a, L, .fwd⟩, ⟨0, b, .fwd⟩]).start = 0 := by
      simp only [Loc.start, List.map, minList, List.foldl]
      omega
    have hend : (Loc.compound [⟨a, L, .fwd⟩, ⟨0, b, .fwd⟩]).end = L := by
      simp only [Loc.end, List.map, maxList, List.foldl]
      omega
    have hb0 : bisectLeft (byCore.map coreStart) 0 = 0 := by
      apply bisectLeft_zero
      intro y hy
      obtain ⟨p, hp, e⟩ := List.mem_map.1 hy
      obtain ⟨r, hr, h0, _⟩ := hinside p hp
      rw [← e]
      simp only [coreStart, hr, featStart_simple]
      exact h0
    rw [hstart, hend, hb0] at h
    simp only [Loc.parts, List.length_cons, List.length_nil] at h
    subst h
    intro p hp hcont
    have hnb : ∀ c, c ∈ byCore → ¬ c.loc.start > L := by
      intro c hc
      obtain ⟨r, _, _, _, _, _⟩ := hinside c hc
      omega
    have hfirst : p ∈ scanContained (Loc.compound [⟨a, L, .fwd⟩, ⟨0, b, .fwd⟩]) L m byCore :=
      scanContained_nobreak _ L m byCore hnb p hp hcont
    have hidx : (max 0 (Int.ofNat 0 - 1)).toNat = 0 := by decide
    rw [hidx, List.drop_zero]
    first
      | exact scanContained_sub _ _ _ _ p hfirst
      | exact hfirst

/-- circular records: every hybrid group is a sharing class plus **exactly** the protoclusters that
    share with nobody and whose core lies inside the class's connected core, provided the
    protoclusters that share with nobody have single-part cores -/
theorem findHybrids_complete_ring {L : Int} (hL : 0 < L) {clusters : List Proto} {hg : List (List Proto)} {un : List Proto}
    (h : findHybrids clusters (some L) = .ok (hg, un)) (hn : clusters.Nodup)
    (hv1 : ∀ p, p ∈ clusters → RingIn L p.core)
    (hv2 : ∀ p, p ∈ clusters → (∀ q, q ∈ clusters → q ≠ p → shares p q = false) → ValidCore p) :
    ∀ g, g ∈ hg → ∃ (m : List Proto) (core : Loc), (∀ x, x ∈ m → x ∈ g) ∧ 2 ≤ m.length ∧
        (∀ a b, a ∈ m → b ∈ m → Linked (shareGroups clusters) a b) ∧
        connect (m.map (·.core)) (some L) = .ok core ∧
        ∀ p, p ∈ clusters → (∀ q, q ∈ clusters → q ≠ p → shares p q = false) →
          (p ∈ g ↔ locationContainsOther core p.core = true) := by
  apply findHybrids_complete_gen h hn
  intro byCore m e hme hmne hmfrom hs hby
  exact extendGroup_complete_ring hL hme hmne (fun x hx => hv1 x (hmfrom x hx)) hs
    (fun q hq => ⟨hv2 q (hby q hq).1 (hby q hq).2, hv1 q (hby q hq).1⟩)

end ASV.CC
