/-
  C03 helper lemmas: on a linear record `find_protoclusters`' core computation is the sorted sweep
  of `ASV.ChainSweep` over the spans of the anchoring genes.
-/
import ASV.Model.Protocluster
import ASV.Spec.Chains
import ASV.Proofs.LocOrder
import ASV.Proofs.ChainSweep
namespace ASV.Proto
open ASV ASV.ChainSweep

/-- an anchoring gene of a linear record: at least one exon, exons in order (not bridging the
    origin), every exon non-empty and inside the record -/
structure GeneOK (len : Int) (l : Loc) : Prop where
  ne : l.parts ≠ []
  nb : bridgesOrigin l = false
  parts : ∀ p ∈ l.parts, 0 ≤ p.lo ∧ p.lo < p.hi ∧ p.hi ≤ len

theorem start_attained (l : Loc) (hne : l.parts ≠ []) : ∃ p ∈ l.parts, p.lo = l.start := by
  cases l with
  | simple q => exact ⟨q, by simp [Loc.parts], rfl⟩
  | compound ps =>
    simp only [Loc.parts] at hne
    have hne' : ps.map (·.lo) ≠ [] := by simpa using hne
    obtain ⟨p, hp, e⟩ := List.mem_map.1 (minList_mem hne')
    exact ⟨p, hp, e⟩

theorem end_attained (l : Loc) (hne : l.parts ≠ []) : ∃ p ∈ l.parts, p.hi = l.end := by
  cases l with
  | simple q => exact ⟨q, by simp [Loc.parts], rfl⟩
  | compound ps =>
    simp only [Loc.parts] at hne
    have hne' : ps.map (·.hi) ≠ [] := by simpa using hne
    obtain ⟨p, hp, e⟩ := List.mem_map.1 (maxList_mem hne')
    exact ⟨p, hp, e⟩

theorem GeneOK.start_nonneg {len : Int} {l : Loc} (h : GeneOK len l) : 0 ≤ l.start := by
  obtain ⟨p, hp, e⟩ := start_attained l h.ne
  have := h.parts p hp
  omega

theorem GeneOK.end_le {len : Int} {l : Loc} (h : GeneOK len l) : l.end ≤ len := by
  obtain ⟨p, hp, e⟩ := end_attained l h.ne
  have := h.parts p hp
  omega

theorem GeneOK.start_lt_end {len : Int} {l : Loc} (h : GeneOK len l) : l.start < l.end := by
  obtain ⟨p, hp, e⟩ := start_attained l h.ne
  have := h.parts p hp
  have := (start_le_part l p hp).2
  omega

/-! ### `_extend_area_location` on a linear record -/

theorem makeForwards_simple (p : Part) : makeForwards (.simple p) = .simple ⟨p.lo, p.hi, .fwd⟩ := by
  cases hs : p.strand <;> simp [makeForwards, Loc.parts, Loc.strand, hs, Loc.ofParts, fl]

theorem connect_single_simple (p : Part) : connect [Loc.simple p] none = .ok (.simple p) := by
  rw [connect_line [Loc.simple p] (by simp) (by intro l hl; simp at hl; subst hl; simp [Loc.parts, bridgesOrigin])]
  cases p
  simp [minList, maxList, Loc.start, Loc.end, commonStrand, Loc.strand]

/-- the neighbourhood / cutoff window of a single-part area on a linear record -/
theorem extendArea_line (r : Rec) (hlin : r.circular = false) (p : Part) (d : Int) (force : Bool) :
    extendArea r (.simple p) d force = .ok (.simple ⟨max 0 (p.lo - d), min (p.hi + d) r.len, .fwd⟩) := by
  obtain ⟨lo, hi, st⟩ := p
  cases st <;>
  simp [extendArea, hlin, Rec.wrap, Loc.parts, bridgesOrigin, Loc.strand, makeForwards_simple,
    extend_simple_line, connect_single_simple, bind, Except.bind, pure, Except.pure]

/-! ### ordering -/

theorem comparatorStart_nb (l : Loc) (h : bridgesOrigin l = false) : comparatorStart l = .ok l.start := by
  simp [comparatorStart, h, pure, Except.pure]

theorem featureLt_nb (a b : Loc) (ha : bridgesOrigin a = false) (hb : bridgesOrigin b = false) :
    featureLt a b = .ok (keyLt (a.start, a.len) (b.start, b.len)) :=
  featureLt_eq a b _ _ (comparatorStart_nb a ha) (comparatorStart_nb b hb)

theorem Sorted.cons_of_forall {lo : Loc → Int} {a : Loc} {l : List Loc} (h : ∀ x ∈ l, lo a ≤ lo x)
    (hs : Sorted lo l) : Sorted lo (a :: l) := by
  cases l with
  | nil => trivial
  | cons b t => exact ⟨h b (by simp), hs⟩

theorem insertFeat_ok (x : Loc) (hx : bridgesOrigin x = false) (ys : List Loc)
    (hys : ∀ y ∈ ys, bridgesOrigin y = false) (hs : Sorted Loc.start ys) :
    ∃ zs, insertFeat x ys = .ok zs ∧ zs.Perm (x :: ys) ∧ Sorted Loc.start zs := by
  induction ys with
  | nil => exact ⟨[x], rfl, List.Perm.refl _, trivial⟩
  | cons y ys ih =>
    have hy := hys y (by simp)
    simp only [insertFeat, featureLt_nb y x hy hx, bind, Except.bind]
    by_cases hk : keyLt (y.start, y.len) (x.start, x.len) = true
    · obtain ⟨zs, hz, hp, hsz⟩ := ih (fun z hz => hys z (by simp [hz])) hs.tail
      simp only [hk, if_true, hz, pure, Except.pure]
      refine ⟨y :: zs, rfl, ?_, ?_⟩
      · exact (List.Perm.cons y hp).trans (List.Perm.swap x y ys)
      · refine Sorted.cons_of_forall ?_ hsz
        intro z hz
        have hz' := hp.mem_iff.1 hz
        simp only [List.mem_cons] at hz'
        rcases hz' with rfl | hz'
        · simp only [keyLt, Bool.or_eq_true, Bool.and_eq_true, decide_eq_true_eq, beq_iff_eq] at hk
          omega
        · exact hs.head_le z hz'
    · simp only [hk, pure, Except.pure]
      refine ⟨x :: y :: ys, rfl, List.Perm.refl _, ?_⟩
      refine ⟨?_, hs⟩
      simp only [keyLt, Bool.or_eq_true, Bool.and_eq_true, decide_eq_true_eq, beq_iff_eq] at hk
      omega

theorem sortFeats_ok (ls : List Loc) (h : ∀ l ∈ ls, bridgesOrigin l = false) :
    ∃ s, sortFeats ls = .ok s ∧ s.Perm ls ∧ Sorted Loc.start s := by
  induction ls with
  | nil => exact ⟨[], rfl, List.Perm.refl _, trivial⟩
  | cons x xs ih =>
    obtain ⟨s, hs, hp, hsorted⟩ := ih (fun l hl => h l (by simp [hl]))
    obtain ⟨zs, hz, hpz, hsz⟩ := insertFeat_ok x (h x (by simp)) s
      (fun y hy => h y (by simp [hp.mem_iff.1 hy])) hsorted
    refine ⟨zs, ?_, hpz.trans (List.Perm.cons x hp), hsz⟩
    simp only [sortFeats, hs, bind, Except.bind, hz]

/-! ### the overlap test of the sweep -/

/-- for a gene starting at or after the core, "shares a base with the core widened by the cutoff"
    is "starts fewer than `cutoff` positions after the core's end" -/
theorem overlap_window_iff (len c : Int) (hc : 0 ≤ c) (cds : Loc) (hcds : GeneOK len cds) (p : Part)
    (h0 : 0 ≤ p.lo) (h1 : p.lo < p.hi) (h2 : p.hi ≤ len) (hge : p.lo ≤ cds.start) :
    locationsOverlap cds (.simple ⟨max 0 (p.lo - c), min (p.hi + c) len, .fwd⟩) = true ↔ cds.start < p.hi + c := by
  have hwne : (Loc.simple ⟨max 0 (p.lo - c), min (p.hi + c) len, .fwd⟩).PartsNonEmpty := by
    intro q hq; simp [Loc.parts] at hq; subst hq; simp only; omega
  have hcne : cds.PartsNonEmpty := fun q hq => (hcds.parts q hq).2.1
  rw [locationsOverlap_iff cds _ hcne hwne]
  constructor
  · rintro ⟨i, hi, hj⟩
    simp only [Loc.mem, List.any_eq_true, Part.mem_iff] at hi
    obtain ⟨q, hq, h3, h4⟩ := hi
    simp only [Loc.mem, Loc.parts, List.any_cons, List.any_nil, Bool.or_false, Part.mem_iff] at hj
    have := (start_le_part cds q hq).1
    omega
  · intro hlt
    obtain ⟨q, hq, e⟩ := start_attained cds hcds.ne
    have hqq := hcds.parts q hq
    refine ⟨q.lo, ?_, ?_⟩
    · simp only [Loc.mem, List.any_eq_true, Part.mem_iff]
      exact ⟨q, hq, by omega, by omega⟩
    · simp only [Loc.mem, Loc.parts, List.any_cons, List.any_nil, Bool.or_false, Part.mem_iff]
      omega

/-! ### the sweep of the model is the abstract sweep -/

def ivOf (l : Loc) : Int × Int := (l.start, l.end)

def IsSimple (l : Loc) : Prop := ∃ p, l = .simple p

theorem connect_gene_line (cds : Loc) (len : Int) (h : GeneOK len cds) :
    connect [cds] none = .ok (.simple ⟨cds.start, cds.end, cds.strand⟩) := by
  rw [connect_line [cds] (by simp) (by intro l hl; simp at hl; subst hl; exact ⟨h.ne, h.nb⟩)]
  simp [minList, maxList, commonStrand]

theorem connect_pair_line (p : Part) (cds : Loc) (len : Int) (h : GeneOK len cds) :
    ∃ s, connect [Loc.simple p, cds] none = .ok (.simple ⟨min p.lo cds.start, max p.hi cds.end, s⟩) := by
  rw [connect_line [Loc.simple p, cds] (by simp)
    (by intro l hl; simp at hl; rcases hl with rfl | rfl
        · simp [Loc.parts, bridgesOrigin]
        · exact ⟨h.ne, h.nb⟩)]
  exact ⟨commonStrand [Loc.simple p, cds], by simp [minList, maxList, Loc.start, Loc.end]⟩

theorem sweepCores_line (r : Rec) (hlin : r.circular = false) (c : Int) (hc : 0 ≤ c) (rest : List Loc) :
    ∀ (cur : Grp Loc) (p : Part) (older : List Loc),
      p.lo = cur.glo → p.hi = cur.ghi → 0 ≤ p.lo → p.lo < p.hi → p.hi ≤ r.len →
      (∀ y ∈ rest, GeneOK r.len y) → (∀ y ∈ rest, p.lo ≤ y.start) → Sorted Loc.start rest →
      ∃ out, sweepCores r c (.simple p :: older) rest = .ok (out ++ older) ∧
        out.map ivOf = ((go Loc.start Loc.end c cur rest).map fun g => (g.glo, g.ghi)).reverse ∧
        ∀ l ∈ out, IsSimple l := by
  induction rest with
  | nil =>
    intro cur p older e1 e2 _ _ _ _ _ _
    refine ⟨[.simple p], by simp [sweepCores, pure, Except.pure], ?_, ?_⟩
    · simp [go, ivOf, Loc.start, Loc.end, e1, e2]
    · intro l hl; simp at hl; exact ⟨p, hl⟩
  | cons y ys ih =>
    intro cur p older e1 e2 h0 h1 h2 hok hge hsorted
    have hy := hok y (by simp)
    have hwin := overlap_window_iff r.len c hc y hy p h0 h1 h2 (hge y (by simp))
    have hlen : ¬ ((Loc.simple ⟨max 0 (p.lo - c), min (p.hi + c) r.len, Strand.fwd⟩).len < (Loc.simple p).len) := by
      simp only [Loc.len, Loc.parts, List.map_cons, List.map_nil, List.sum_cons, List.sum_nil, Part.len]
      omega
    simp only [sweepCores, extendArea_line r hlin p c false, bind, Except.bind, hlen, if_false]
    by_cases hlt : y.start < p.hi + c
    · have hov := hwin.2 hlt
      obtain ⟨s, hconn⟩ := connect_pair_line p y r.len hy
      simp only [hov, if_true, Rec.wrap, hlin, Bool.false_eq_true, if_false, hconn]
      have hlt' : y.start < cur.ghi + c := by omega
      obtain ⟨out, ho, hm, hsimple⟩ := ih ⟨min cur.glo y.start, max cur.ghi y.end, cur.members ++ [y]⟩
        ⟨min p.lo y.start, max p.hi y.end, s⟩ older (by simp only; omega) (by simp only; omega)
        (by have := hy.start_nonneg; simp only; omega) (by have := hy.start_lt_end; simp only; omega)
        (by have := hy.end_le; simp only; omega) (fun z hz => hok z (by simp [hz]))
        (fun z hz => by have := hge z (by simp [hz]); simp only; omega) hsorted.tail
      refine ⟨out, ho, ?_, hsimple⟩
      simp only [go, hlt', if_true]
      exact hm
    · have hov : locationsOverlap y (.simple ⟨max 0 (p.lo - c), min (p.hi + c) r.len, .fwd⟩) = false := by
        cases hb : locationsOverlap y (.simple ⟨max 0 (p.lo - c), min (p.hi + c) r.len, .fwd⟩)
        · rfl
        · exact absurd (hwin.1 hb) hlt
      have hconn := connect_gene_line y r.len hy
      simp only [hov, Bool.false_eq_true, if_false, Rec.wrap, hlin, hconn]
      have hlt' : ¬ y.start < cur.ghi + c := by omega
      obtain ⟨out, ho, hm, hsimple⟩ := ih ⟨y.start, y.end, [y]⟩ ⟨y.start, y.end, y.strand⟩ (.simple p :: older)
        rfl rfl hy.start_nonneg hy.start_lt_end hy.end_le (fun z hz => hok z (by simp [hz]))
        (fun z hz => hsorted.head_le z hz) hsorted.tail
      refine ⟨out ++ [.simple p], by simpa using ho, ?_, ?_⟩
      · simp only [go, hlt', if_false, List.map_append, hm, List.map_cons, List.map_nil, List.reverse_cons]
        simp [ivOf, Loc.start, Loc.end, e1, e2]
      · intro l hl
        simp only [List.mem_append, List.mem_singleton] at hl
        rcases hl with hl | rfl
        · exact hsimple l hl
        · exact ⟨p, rfl⟩

theorem fixFirstLast_line (r : Rec) (hlin : r.circular = false) (c : Int) (cores : List Loc) (hne : cores ≠ []) :
    fixFirstLast r c cores = .ok cores := by
  cases cores with
  | nil => exact absurd rfl hne
  | cons first rest =>
    simp only [fixFirstLast]
    cases rest.getLast? with
    | none => rfl
    | some last => simp [hlin, pure, Except.pure]

theorem filter_all_true {α} (p : α → Bool) (l : List α) (h : ∀ x ∈ l, p x = true) : l.filter p = l := by
  induction l with
  | nil => rfl
  | cons x xs ih => simp [List.filter, h x (by simp), ih (fun y hy => h y (by simp [hy]))]

theorem filter_all_false {α} (p : α → Bool) (l : List α) (h : ∀ x ∈ l, p x = false) : l.filter p = [] := by
  induction l with
  | nil => rfl
  | cons x xs ih => simp [List.filter, h x (by simp), ih (fun y hy => h y (by simp [hy]))]

/-- on a linear record the cores are the hulls of the groups the sorted sweep forms -/
theorem findCores_line (r : Rec) (hlin : r.circular = false) (c : Int) (hc : 0 ≤ c) (anchors : List Loc)
    (hne : anchors ≠ []) (hok : ∀ l ∈ anchors, GeneOK r.len l) :
    ∃ sorted cores, sorted.Perm anchors ∧ Sorted Loc.start sorted ∧ findCores r c anchors = .ok cores ∧
      cores.map ivOf = (sweep Loc.start Loc.end c sorted).map (fun g => (g.glo, g.ghi)) ∧
      ∀ l ∈ cores, IsSimple l := by
  obtain ⟨s1, h1, p1, _⟩ := sortFeats_ok anchors (fun l hl => (hok l hl).nb)
  have hnb1 : ∀ l ∈ s1, bridgesOrigin l = false := fun l hl => (hok l (p1.mem_iff.1 hl)).nb
  obtain ⟨s2, h2, p2, sorted2⟩ := sortFeats_ok s1 hnb1
  have hperm : s2.Perm anchors := p2.trans p1
  have hok2 : ∀ l ∈ s2, GeneOK r.len l := fun l hl => hok l (hperm.mem_iff.1 hl)
  have hf1 : s1.filter bridgesOrigin = [] := filter_all_false _ _ hnb1
  have hf2 : (s1.filter fun l => !bridgesOrigin l) = s1 := filter_all_true _ _ (fun l hl => by simp [hnb1 l hl])
  cases s2 with
  | nil => exact absurd (List.perm_nil.1 hperm.symm) hne
  | cons y ys =>
    have hy := hok2 y (by simp)
    obtain ⟨out, ho, hm, hsimple⟩ := sweepCores_line r hlin c hc ys ⟨y.start, y.end, [y]⟩
      ⟨y.start, y.end, y.strand⟩ [] rfl rfl hy.start_nonneg hy.start_lt_end hy.end_le
      (fun z hz => hok2 z (by simp [hz])) (fun z hz => sorted2.head_le z hz) sorted2.tail
    have hone : out ≠ [] := by
      intro e
      have := congrArg List.length hm
      subst e
      simp only [List.map_nil, List.length_nil, List.length_reverse, List.length_map] at this
      cases hg : go Loc.start Loc.end c ⟨y.start, y.end, [y]⟩ ys with
      | nil =>
        have := go_flatten Loc.start Loc.end c ⟨y.start, y.end, [y]⟩ ys
        rw [hg] at this
        simp at this
      | cons g gs => rw [hg] at this; simp at this
    refine ⟨y :: ys, out.reverse, hperm, sorted2, ?_, ?_, ?_⟩
    · simp only [findCores, h1, bind, Except.bind, hf1, hf2, h2, List.mapM_nil, pure, Except.pure, List.reverse_nil]
      simp only [sweepCores, Rec.wrap, hlin, Bool.false_eq_true, if_false, connect_gene_line y r.len hy,
        bind, Except.bind]
      rw [ho]
      simp only [List.append_nil]
      exact fixFirstLast_line r hlin c out.reverse (by simpa using hone)
    · rw [List.map_reverse, hm, List.reverse_reverse]
      rfl
    · intro l hl
      exact hsimple l (by simpa using hl)

end ASV.Proto
