/-
  C14 helper lemmas, part 10: `Good` modules (sound + constructed components) are preserved by
  `combine`, and the caller loop of generate_domains therefore never fails.
-/
import ASV.Proofs.ModulesCombineTop
namespace ASV.Modules
open T Spec

/-- sound, and every component is a constructed Component -/
def Good (m : Module) : Prop := Sound m ∧ ∀ c ∈ m.components, Known c

theorem combineOK_flat {s : Bool} {prev cur prev' cur' : List Module} {mg : Option (List Comp × Bool)}
    (h : combineOK s (prev.map view) (cur.map view) (prev'.map view) (cur'.map view) mg = true) :
    (prev' ++ cur').flatMap (·.components) = (prev ++ cur).flatMap (·.components) := by
  unfold combineOK at h
  simp only [Bool.and_eq_true, beq_iff_eq] at h
  have := h.1
  rw [← List.map_append, ← List.map_append, flatMap_view, flatMap_view] at this
  exact this

/-- `combine_modules` on good module lists: never fails, lists stay good, spec holds -/
theorem combine_good (cs ps : Int) (cur prev : List Module)
    (hp : ∀ m ∈ prev, Good m) (hc : ∀ m ∈ cur, Good m) :
    ∃ r, combine cs ps cur prev = .ok r ∧ (∀ m ∈ r.prev, Good m) ∧ (∀ m ∈ r.cur, Good m) ∧
      (∀ m, r.merged = some m → r.prev.getLast? = some m) ∧
      combineOK (cs == ps) (prev.map view) (cur.map view) (r.prev.map view) (r.cur.map view)
        (r.merged.map view) = true := by
  obtain ⟨r, hr, h1, h2, h3, h4⟩ := combine_spec cs ps cur prev (fun m hm => (hp m hm).1) (fun m hm => (hc m hm).1)
  have hflat := combineOK_flat h4
  have hknown : ∀ m ∈ r.prev ++ r.cur, ∀ c ∈ m.components, Known c := by
    intro m hm c hcm
    have : c ∈ (r.prev ++ r.cur).flatMap (·.components) := List.mem_flatMap.mpr ⟨m, hm, hcm⟩
    rw [hflat] at this
    obtain ⟨m0, hm0, hc0⟩ := List.mem_flatMap.mp this
    rcases List.mem_append.mp hm0 with h | h
    · exact (hp m0 h).2 c hc0
    · exact (hc m0 h).2 c hc0
  exact ⟨r, hr, fun m hm => ⟨h1 m hm, hknown m (List.mem_append_left _ hm)⟩,
         fun m hm => ⟨h2 m hm, hknown m (List.mem_append_right _ hm)⟩, h3, h4⟩

/-- the modules `build` returns are good -/
theorem build_good (ds : List Domain) (name : String) (hn : name.isEmpty = false)
    (hc : ∀ d ∈ ds, (classify d.label).isSome = true) :
    ∃ ms, build ds name = .ok ms ∧ ∀ m ∈ ms, Good m := by
  obtain ⟨ms, hb, hs, hflat, _⟩ := build_spec ds name hn hc
  refine ⟨ms, hb, fun m hm => ⟨(hs m hm).1, ?_⟩⟩
  intro c hcm
  have hmem : c ∈ ms.flatMap (·.components) := List.mem_flatMap.mpr ⟨m, hm, hcm⟩
  rw [hflat] at hmem
  obtain ⟨d, hd, rfl⟩ := List.mem_map.mp (List.mem_filter.mp hmem).1
  exact ⟨hc d ((mem_sortDomains ds d).mp hd), hn⟩

theorem mem_dropLast {α} {l : List α} {a : α} (h : a ∈ l.dropLast) : a ∈ l :=
  List.dropLast_subset l h

/-- the caller loop: never fails, every module it keeps is good -/
theorem chainGo_good : ∀ (genes : List Gene) (results : List GeneResult) (live : Bool),
    (∀ g ∈ genes, g.name.isEmpty = false ∧ ∀ d ∈ g.domains, (classify d.label).isSome = true) →
    (∀ r ∈ results, ∀ m ∈ r.modules, Good m) →
    ∃ out, chainGo genes results live = .ok out ∧ ∀ r ∈ out, ∀ m ∈ r.modules, Good m := by
  intro genes
  induction genes with
  | nil => intro results live _ hr; exact ⟨results, rfl, hr⟩
  | cons g rest ih =>
    intro results live hg hr
    have hrest : ∀ g ∈ rest, g.name.isEmpty = false ∧ ∀ d ∈ g.domains, (classify d.label).isSome = true :=
      fun x hx => hg x (List.mem_cons_of_mem _ hx)
    simp only [chainGo]
    cases hskip : (g.domains.isEmpty && !g.hasMotifs) with
    | true => simp only [if_true]; exact ih results false hrest hr
    | false =>
      simp only [Bool.false_eq_true, if_false]
      obtain ⟨ms, hb, hms⟩ := build_good g.domains g.name (hg g (List.mem_cons_self)).1 (hg g (List.mem_cons_self)).2
      rw [hb]
      simp only
      have happ : ∀ r ∈ results ++ [(⟨g.name, g.strand, g.region, ms, g.index, ms.isEmpty⟩ : GeneResult)], ∀ m ∈ r.modules, Good m := by
        intro r hrm
        rcases List.mem_append.mp hrm with h | h
        · exact hr r h
        · simp at h; subst h; exact hms
      cases hprev : (if live = true then results.getLast? else none) with
      | none => exact ih _ true hrest happ
      | some prev =>
        simp only
        have hpm : prev ∈ results := by
          cases live with
          | false => simp at hprev
          | true => simp at hprev; exact List.mem_of_getLast? hprev
        have hpg := hr prev hpm
        cases hcond : (!prev.modules.isEmpty && !ms.isEmpty && prev.region == g.region) with
        | false => simp only [Bool.false_eq_true, if_false]; exact ih _ true hrest happ
        | true =>
          simp only [if_true]
          have hdl : ∀ r ∈ results.dropLast, ∀ m ∈ r.modules, Good m := fun r h => hr r (mem_dropLast h)
          cases hstr : (g.strand == -1) with
          | true =>
            simp only [if_true]
            obtain ⟨r, hc, h1, h2, _, _⟩ := combine_good prev.strand g.strand prev.modules ms hms hpg
            rw [hc]
            simp only
            apply ih _ true hrest
            intro x hx
            rcases List.mem_append.mp hx with h | h
            · exact hdl x h
            · simp at h
              rcases h with h | h
              · subst h; exact h2
              · subst h; exact h1
          | false =>
            simp only [Bool.false_eq_true, if_false]
            obtain ⟨r, hc, h1, h2, _, _⟩ := combine_good g.strand prev.strand ms prev.modules hpg hms
            rw [hc]
            simp only
            apply ih _ true hrest
            intro x hx
            rcases List.mem_append.mp hx with h | h
            · exact hdl x h
            · simp at h
              rcases h with h | h
              · subst h; exact h1
              · subst h; exact h2

end ASV.Modules
