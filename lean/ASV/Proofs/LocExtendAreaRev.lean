/-
  `Record.extend_location` on a circular record for the reverse-strand origin-spanning span
  `[0, y)(−), [x, L)(−)` (the part order Biopython gives a reverse-strand feature over the origin) — C04.
-/
import ASV.Proofs.LocExtendArea
import ASV.Proofs.LocConnectRingIn
set_option linter.unusedSimpArgs false
set_option linter.unusedVariables false
namespace ASV

/-- closed form: the whole record as soon as the two extended ends pass each other, else both ends moved by `d`
    (parts stay in the reverse-strand order) -/
def extAreaRingRev (x y d L : Int) : Loc :=
  if x - y < 2 * d then .simple ⟨0, L, .rev⟩
  else .compound [⟨0, y + d, .rev⟩, ⟨x - d, L, .rev⟩]

theorem extend_area_ring_rev_eq (x y d L : Int) (hL : 0 < L) (hy0 : 0 < y) (hyx : y ≤ x) (hxL : x < L) (hd : 0 ≤ d) :
    extendLocation (areaTwoRev x y L) d L true = .ok (extAreaRingRev x y d L) := by
  unfold extAreaRingRev
  have hno : partsOverlap (⟨x, L, .rev⟩ : Part) (⟨0, y, .rev⟩ : Part) = false := by
    simp only [partsOverlap, Part.mem, Bool.or_eq_false_iff, Bool.and_eq_false_iff, decide_eq_false_iff_not]; omega
  have hb : bridgesOrigin (Loc.compound [⟨0, y, .rev⟩, ⟨x, L, .rev⟩]) = true := bridges_areaTwoRev x y L hy0 hyx
  by_cases hG : x - y < 2 * d
  · rw [if_pos hG]
    have h0 : ¬ x < y := by omega
    simp [extendLocation, hb, areaTwoRev, Loc.strand, Loc.parts, pure, Except.pure, h0, hG]
  · rw [if_neg hG]
    have hA : ¬ (x - d < 0) := by omega
    have hB : ¬ (y + d > L) := by omega
    have e1 : max 0 (x - d) = x - d := by omega
    have e2 : min (y + d) L = y + d := by omega
    have o5 : partsOverlap (⟨x - d, L, .rev⟩ : Part) (⟨0, y + d, .rev⟩ : Part) = false := by
      simp only [partsOverlap, Part.mem, Bool.or_eq_false_iff, Bool.and_eq_false_iff, decide_eq_false_iff_not]; omega
    simp [extendLocation, hb, areaTwoRev, Loc.strand, Loc.parts, setHead, setLast, pure, Except.pure, bind, Except.bind,
      hG, hA, hB, mergeEnds, hno, e1, e2, o5]

theorem extAreaRingRev_mem_gap (x y d L : Int) (hL : 0 < L) (hy0 : 0 < y) (hyx : y ≤ x) (hxL : x < L) (hd : 0 ≤ d) (i : Int) :
    (extAreaRingRev x y d L).mem i = true ↔ (0 ≤ i ∧ i < L ∧ ¬ (y + d ≤ i ∧ i < x - d)) := by
  unfold extAreaRingRev
  by_cases hG : x - y < 2 * d
  · rw [if_pos hG, mem_simple]; dsimp only; omega
  · rw [if_neg hG, mem_two]; dsimp only; omega

/-- the bases of the closed form are exactly those within ring distance `d` of the span -/
theorem extAreaRingRev_mem (x y d L : Int) (hL : 0 < L) (hy0 : 0 < y) (hyx : y ≤ x) (hxL : x < L) (hd : 0 ≤ d) (i : Int) :
    (extAreaRingRev x y d L).mem i = true ↔
      (0 ≤ i ∧ i < L ∧ ∃ j, (areaTwoRev x y L).mem j = true ∧ ringAbs L i j ≤ d) := by
  rw [extAreaRingRev_mem_gap x y d L hL hy0 hyx hxL hd]
  simp only [areaTwoRev, mem_two, ringAbs, iabs_def, Int.min_def]
  constructor
  · rintro ⟨hi0, hi1, hgap⟩
    refine ⟨hi0, hi1, ?_⟩
    by_cases a : x ≤ i
    · exact ⟨i, Or.inr ⟨a, hi1⟩, by grind⟩
    · by_cases b : i < y
      · exact ⟨i, Or.inl ⟨hi0, b⟩, by grind⟩
      · by_cases c : i < y + d
        · exact ⟨y - 1, Or.inl ⟨by omega, by omega⟩, by grind⟩
        · exact ⟨x, Or.inr ⟨by omega, hxL⟩, by grind⟩
  · rintro ⟨hi0, hi1, j, hj, hr⟩
    refine ⟨hi0, hi1, ?_⟩
    grind

end ASV
