/-
  C15 helper lemmas: the location reported for an ORF extracts (Biopython reading: slice,
  reverse-complement on strand −1, parts concatenated in order) to the ORF's own nucleotides.
-/
import ASV.Proofs.OrfCoords
namespace ASV.Orf
open ASV

theorem getElem?_slice (rec : Seq) (a m t : Nat) :
    ((rec.drop a).take m)[t]? = if t < m then rec[a + t]? else none := by
  rw [List.getElem?_take, List.getElem?_drop]

theorem sliceI_nat (rec : Seq) (a m : Nat) (lo hi : Int) (hlo : lo = a) (hhi : hi = (a : Int) + m) :
    sliceI rec lo hi = (rec.drop a).take m := by
  subst hlo hhi
  unfold sliceI
  rw [show ((a : Int)).toNat = a by omega, show ((a : Int) + m - a).toNat = m by omega]

/-- index `t` of the reverse complement of a slice -/
theorem getElem?_revSlice (comp : Char → Char) (rec : Seq) (a m t : Nat) (h : a + m ≤ rec.length) :
    ((((rec.drop a).take m).map comp).reverse)[t]? =
      if t < m then (rec[a + (m - 1 - t)]?).map comp else none := by
  have hl : (((rec.drop a).take m).map comp).length = m := by
    simp only [List.length_map, List.length_take, List.length_drop]; omega
  by_cases ht : t < m
  · rw [List.getElem?_reverse (by omega), hl, List.getElem?_map, getElem?_slice]
    simp only [ht, if_true]
    rw [if_pos (by omega)]
  · rw [if_neg ht]
    exact List.getElem?_eq_none (by simp only [List.length_reverse]; omega)

/-- position on the ring of the `t`-th base above a base whose reduced coordinate is `a` -/
theorem ring_index (x : Int) (L a t : Nat) (ha : x % (L : Int) = a) (ht : a + t < 2 * L) :
    ((x + (t : Int)) % (L : Int)).toNat = if a + t < L then a + t else a + t - L := by
  split
  · rw [emod_shift _ _ _ (by omega) (by omega)]; omega
  · rw [emod_shift_wrap _ _ _ (by omega) (by omega)]; omega

theorem orfSeq_getElem? (w : Seq) (s e t : Nat) :
    (orfSeq w s e)[t]? = if t < e + 3 - s then w[s + t]? else none := by
  unfold orfSeq; exact getElem?_slice w s (e + 3 - s) t

/-- forward strand, ring -/
theorem extract_fwd_ring (comp : Char → Char) (rec w : Seq) (offset : Int) (s e : Nat)
    (hL : 0 < rec.length) (hwin : WindowFwd rec w offset rec.length)
    (hs : s < e) (he : e + 3 ≤ w.length) (hlen : orfLen s e ≤ rec.length) :
    extract comp rec (orfLoc true w.length offset (some (rec.length : Int)) s e) = orfSeq w s e := by
  rw [orfLoc_ring true _ _ _ _ _ (by omega) hs hlen]
  have hnn : 0 ≤ orfBase true w.length offset s e % (rec.length : Int) := Int.emod_nonneg _ (by omega)
  have hlt : orfBase true w.length offset s e % (rec.length : Int) < rec.length := Int.emod_lt_of_pos _ (by omega)
  obtain ⟨a, ha⟩ := Int.eq_ofNat_of_zero_le hnn
  have hm : orfLen s e = ((e + 3 - s : Nat) : Int) := by simp only [orfLen]; omega
  have hidx : ∀ t, t < e + 3 - s → w[s + t]? =
      rec[if a + t < rec.length then a + t else a + t - rec.length]? := by
    intro t ht
    rw [hwin (s + t) (by omega), ← ring_index (orfBase true w.length offset s e) rec.length a t ha (by omega)]
    rw [show offset + ((s + t : Nat) : Int) = orfBase true w.length offset s e + (t : Int) by
      simp only [orfBase, if_true]; omega]
  have hlt' : a < rec.length := by omega
  have hlen' : e + 3 - s ≤ rec.length := by omega
  rw [ha, hm]
  apply List.ext_getElem?
  intro t
  rw [orfSeq_getElem?]
  split
  · -- one part
    rename_i hc
    simp only [extract, Loc.parts, List.map_cons, List.map_nil, List.flatten_cons, List.flatten_nil,
      List.append_nil, extractPart, dirStrand, if_true]
    rw [sliceI_nat rec a (e + 3 - s) _ _ rfl rfl, getElem?_slice]
    by_cases ht : t < e + 3 - s
    · simp only [ht, if_true]; rw [hidx t ht, if_pos (by omega)]
    · simp only [ht, if_false]
  · -- two parts: up to the origin, then after it
    rename_i hc
    simp only [extract, Loc.parts, if_true, List.map_cons, List.map_nil, List.flatten_cons,
      List.flatten_nil, List.append_nil, extractPart, dirStrand]
    rw [sliceI_nat rec a (rec.length - a) _ _ rfl (by omega),
      sliceI_nat rec 0 (a + (e + 3 - s) - rec.length) 0 _ (by simp) (by omega)]
    rw [List.getElem?_append, getElem?_slice, getElem?_slice]
    have hl1 : ((rec.drop a).take (rec.length - a)).length = rec.length - a := by
      simp only [List.length_take, List.length_drop]; omega
    rw [hl1]
    by_cases ht : t < e + 3 - s
    · simp only [ht, if_true]; rw [hidx t ht]
      by_cases h1 : t < rec.length - a
      · simp only [h1, if_true]; rw [if_pos (by omega)]
      · simp only [h1, if_false]; rw [if_pos (by omega), if_neg (by omega)]; congr 1; omega
    · simp only [ht, if_false]
      rw [if_neg (by omega), if_neg (by omega)]

theorem revSlice_length (comp : Char → Char) (rec : Seq) (a m : Nat) (h : a + m ≤ rec.length) :
    ((((rec.drop a).take m).map comp).reverse).length = m := by
  simp only [List.length_reverse, List.length_map, List.length_take, List.length_drop]; omega

/-- reverse strand, ring -/
theorem extract_rev_ring (comp : Char → Char) (rec w : Seq) (offset : Int) (s e : Nat)
    (hL : 0 < rec.length) (hwin : WindowRev comp rec w offset rec.length)
    (hs : s < e) (he : e + 3 ≤ w.length) (hlen : orfLen s e ≤ rec.length) :
    extract comp rec (orfLoc false w.length offset (some (rec.length : Int)) s e) = orfSeq w s e := by
  rw [orfLoc_ring false _ _ _ _ _ (by omega) hs hlen]
  have hnn : 0 ≤ orfBase false w.length offset s e % (rec.length : Int) := Int.emod_nonneg _ (by omega)
  have hlt : orfBase false w.length offset s e % (rec.length : Int) < rec.length := Int.emod_lt_of_pos _ (by omega)
  obtain ⟨b, hb⟩ := Int.eq_ofNat_of_zero_le hnn
  have hm : orfLen s e = ((e + 3 - s : Nat) : Int) := by simp only [orfLen]; omega
  have hidx : ∀ t, t < e + 3 - s → w[s + t]? =
      (rec[if b + (e + 3 - s - 1 - t) < rec.length then b + (e + 3 - s - 1 - t)
           else b + (e + 3 - s - 1 - t) - rec.length]?).map comp := by
    intro t ht
    rw [hwin (s + t) (by omega),
      ← ring_index (orfBase false w.length offset s e) rec.length b (e + 3 - s - 1 - t) hb (by omega)]
    rw [show offset + ((w.length : Int) - 1 - ((s + t : Nat) : Int))
        = orfBase false w.length offset s e + ((e + 3 - s - 1 - t : Nat) : Int) by
      simp only [orfBase, Bool.false_eq_true, if_false]; omega]
  have hlt' : b < rec.length := by omega
  have hlen' : e + 3 - s ≤ rec.length := by omega
  rw [hb, hm]
  apply List.ext_getElem?
  intro t
  rw [orfSeq_getElem?]
  split
  · -- one part
    rename_i hc
    simp only [extract, Loc.parts, List.map_cons, List.map_nil, List.flatten_cons, List.flatten_nil,
      List.append_nil, extractPart, dirStrand, Bool.false_eq_true, if_false]
    rw [sliceI_nat rec b (e + 3 - s) _ _ rfl rfl, getElem?_revSlice comp rec b _ t (by omega)]
    by_cases ht : t < e + 3 - s
    · simp only [ht, if_true]; rw [hidx t ht, if_pos (by omega)]
    · simp only [ht, if_false]
  · -- two parts, in transcription order: after the origin first, then the part before it
    rename_i hc
    simp only [extract, Loc.parts, Bool.false_eq_true, if_false, List.map_cons, List.map_nil,
      List.flatten_cons, List.flatten_nil, List.append_nil, extractPart, dirStrand]
    rw [sliceI_nat rec 0 (b + (e + 3 - s) - rec.length) 0 _ (by simp) (by omega),
      sliceI_nat rec b (rec.length - b) _ _ rfl (by omega)]
    rw [List.getElem?_append, revSlice_length comp rec 0 _ (by omega),
      getElem?_revSlice comp rec 0 _ t (by omega),
      getElem?_revSlice comp rec b _ (t - (b + (e + 3 - s) - rec.length)) (by omega)]
    by_cases ht : t < e + 3 - s
    · simp only [ht, if_true]; rw [hidx t ht]
      by_cases h1 : t < b + (e + 3 - s) - rec.length
      · simp only [h1, if_true]; rw [if_neg (by omega)]; congr 2; omega
      · simp only [h1, if_false]; rw [if_pos (by omega), if_pos (by omega)]; congr 2; omega
    · simp only [ht, if_false]
      rw [if_neg (by omega), if_neg (by omega)]

/-- forward strand, line (`record_length=None`) -/
theorem extract_fwd_line (comp : Char → Char) (rec w : Seq) (offset : Int) (s e : Nat)
    (hwin : WindowFwdLin rec w offset) (hs : s < e) (he : e + 3 ≤ w.length) :
    extract comp rec (orfLoc true w.length offset none s e) = orfSeq w s e := by
  rw [orfLoc_line true _ _ _ _ hs]
  obtain ⟨h0, hwin⟩ := hwin
  obtain ⟨o, ho⟩ := Int.eq_ofNat_of_zero_le h0
  subst ho
  simp only [extract, Loc.parts, List.map_cons, List.map_nil, List.flatten_cons, List.flatten_nil,
    List.append_nil, extractPart, dirStrand, if_true]
  rw [sliceI_nat rec (s + o) (e + 3 - s) _ _ (by simp only [orfBase, if_true]; omega)
    (by simp only [orfBase, orfLen, if_true]; omega)]
  apply List.ext_getElem?
  intro t
  rw [orfSeq_getElem?, getElem?_slice]
  by_cases ht : t < e + 3 - s
  · simp only [ht, if_true]
    rw [hwin (s + t) (by omega)]
    congr 1; omega
  · simp only [ht, if_false]

/-- reverse strand, line -/
theorem extract_rev_line (comp : Char → Char) (rec w : Seq) (offset : Int) (s e : Nat)
    (hwin : WindowRevLin comp rec w offset) (hfit : offset + w.length ≤ rec.length)
    (hs : s < e) (he : e + 3 ≤ w.length) :
    extract comp rec (orfLoc false w.length offset none s e) = orfSeq w s e := by
  rw [orfLoc_line false _ _ _ _ hs]
  obtain ⟨h0, hwin⟩ := hwin
  obtain ⟨o, ho⟩ := Int.eq_ofNat_of_zero_le h0
  subst ho
  simp only [extract, Loc.parts, List.map_cons, List.map_nil, List.flatten_cons, List.flatten_nil,
    List.append_nil, extractPart, dirStrand, Bool.false_eq_true, if_false]
  rw [sliceI_nat rec (w.length + o - (e + 2) - 1) (e + 3 - s) _ _
    (by simp only [orfBase, Bool.false_eq_true, if_false]; omega)
    (by simp only [orfBase, orfLen, Bool.false_eq_true, if_false]; omega)]
  apply List.ext_getElem?
  intro t
  rw [orfSeq_getElem?, getElem?_revSlice comp rec _ _ t (by omega)]
  by_cases ht : t < e + 3 - s
  · simp only [ht, if_true]
    rw [hwin (s + t) (by omega)]
    congr 2; omega
  · simp only [ht, if_false]

end ASV.Orf
