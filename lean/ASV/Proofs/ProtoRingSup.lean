/-
  C03 helper lemma for the superiors clause on a circular record: for area cores, "covers every base"
  is what `location_contains_other` tests — unless the covering core is the whole ring written as two
  touching parts.
-/
import ASV.Proofs.ProtoRingFinal
namespace ASV.Proto
open ASV ASV.Chains

theorem mem_simple' (p : Part) (i : Int) : (Loc.simple p).mem i = true ↔ p.lo ≤ i ∧ i < p.hi := by
  simp [Loc.mem, Loc.parts, Part.mem_iff]

theorem mem_two' (p q : Part) (i : Int) :
    (Loc.compound [p, q]).mem i = true ↔ (p.lo ≤ i ∧ i < p.hi) ∨ (q.lo ≤ i ∧ i < q.hi) := by
  simp [Loc.mem, Loc.parts, Part.mem_iff]

/-- on a ring, an area core that covers every base of another area core contains it in the sense of
    `location_contains_other` (each part of the inner one inside one part of the outer one), provided the
    outer one is not the whole ring split into two touching parts -/
theorem contains_of_covers_ring (L : Int) (outer inner : Loc) (ho : RingArea L outer) (hi : RingArea L inner)
    (hnt : ∀ a b, outer = .compound [⟨a, L, .fwd⟩, ⟨0, b, .fwd⟩] → b < a) (hc : Covers outer inner) :
    locationContainsOther outer inner = true := by
  obtain ⟨hwo, ⟨p, rfl⟩ | ⟨a, b, rfl⟩⟩ := ho <;> obtain ⟨hwi, ⟨q, rfl⟩ | ⟨c, d, rfl⟩⟩ := hi
  · -- simple / simple
    simp only [areaWF, Loc.parts, Bool.and_eq_true, decide_eq_true_eq] at hwo hwi
    have h1 := (mem_simple' p q.lo).1 (hc q.lo ((mem_simple' q q.lo).2 (by omega)))
    have h2 := (mem_simple' p (q.hi - 1)).1 (hc (q.hi - 1) ((mem_simple' q (q.hi - 1)).2 (by omega)))
    simp only [locationContainsOther, Loc.parts, List.all_cons, List.all_nil, List.any_cons, List.any_nil,
      Bool.or_false, Bool.and_true, partContains, Bool.and_eq_true, decide_eq_true_eq]
    omega
  · -- simple outer / two-part inner
    simp only [areaWF, Loc.parts, Bool.and_eq_true, decide_eq_true_eq] at hwo hwi
    have h1 := (mem_simple' p c).1 (hc c ((mem_two' _ _ c).2 (Or.inl ⟨by simp, by simp only; omega⟩)))
    have h2 := (mem_simple' p (L - 1)).1 (hc (L - 1) ((mem_two' _ _ (L - 1)).2 (Or.inl ⟨by simp only; omega, by simp only; omega⟩)))
    have h3 := (mem_simple' p 0).1 (hc 0 ((mem_two' _ _ 0).2 (Or.inr ⟨by simp, by simp only; omega⟩)))
    have h4 := (mem_simple' p (d - 1)).1 (hc (d - 1) ((mem_two' _ _ (d - 1)).2 (Or.inr ⟨by simp only; omega, by simp only; omega⟩)))
    simp only [locationContainsOther, Loc.parts, List.all_cons, List.all_nil, List.any_cons, List.any_nil,
      Bool.or_false, Bool.and_true, partContains, Bool.and_eq_true, decide_eq_true_eq]
    omega
  · -- two-part outer / simple inner
    have hba := hnt a b rfl
    simp only [areaWF, Loc.parts, Bool.and_eq_true, decide_eq_true_eq] at hwo hwi
    have h1 := (mem_two' _ _ q.lo).1 (hc q.lo ((mem_simple' q q.lo).2 (by omega)))
    have h2 := (mem_two' _ _ (q.hi - 1)).1 (hc (q.hi - 1) ((mem_simple' q (q.hi - 1)).2 (by omega)))
    simp only at h1 h2
    simp only [locationContainsOther, Loc.parts, List.all_cons, List.all_nil, List.any_cons, List.any_nil,
      Bool.or_false, Bool.and_true, partContains, Bool.and_eq_true, decide_eq_true_eq, Bool.or_eq_true]
    by_cases hq : a ≤ q.lo
    · left; omega
    · right
      have hlt : q.lo < b := by omega
      by_cases hd : q.hi ≤ b
      · omega
      · -- then `b` itself is a base of the inner core, but not of the outer one
        have h3 := (mem_two' _ _ b).1 (hc b ((mem_simple' q b).2 (by omega)))
        simp only at h3
        omega
  · -- two-part / two-part
    have hba := hnt a b rfl
    simp only [areaWF, Loc.parts, Bool.and_eq_true, decide_eq_true_eq] at hwo hwi
    have h1 := (mem_two' _ _ c).1 (hc c ((mem_two' _ _ c).2 (Or.inl ⟨by simp, by simp only; omega⟩)))
    have h4 := (mem_two' _ _ (d - 1)).1 (hc (d - 1) ((mem_two' _ _ (d - 1)).2 (Or.inr ⟨by simp only; omega, by simp only; omega⟩)))
    simp only at h1 h4
    simp only [locationContainsOther, Loc.parts, List.all_cons, List.all_nil, List.any_cons, List.any_nil,
      Bool.or_false, Bool.and_true, partContains, Bool.and_eq_true, decide_eq_true_eq, Bool.or_eq_true]
    have hca : a ≤ c := by
      rcases h1 with h | h
      · omega
      · -- c < b < a ≤ … : then `b` lies in the inner upper part but not in the outer core
        exfalso
        have h3 := (mem_two' _ _ b).1 (hc b ((mem_two' _ _ b).2 (Or.inl ⟨by simp only; omega, by simp only; omega⟩)))
        simp only at h3
        omega
    have hdb : d ≤ b := by
      rcases h4 with h | h
      · exfalso
        have h3 := (mem_two' _ _ b).1 (hc b ((mem_two' _ _ b).2 (Or.inr ⟨by simp only; omega, by simp only; omega⟩)))
        simp only at h3
        omega
      · omega
    constructor
    · left; omega
    · right; omega

theorem filterE_ok_true {α : Type} (p : α → E Bool) : ∀ (l out : List α), filterE p l = .ok out →
    ∀ x ∈ out, p x = .ok true := by
  intro l
  induction l with
  | nil => intro out h x hx; simp only [filterE, pure, Except.pure, Except.ok.injEq] at h; subst h; cases hx
  | cons a l ih =>
    intro out h x hx
    simp only [filterE, bind, Except.bind] at h
    cases hp : p a with
    | error e => simp [hp] at h
    | ok b =>
      simp only [hp] at h
      cases hrest : filterE p l with
      | error e => simp [hrest] at h
      | ok rest =>
        simp only [hrest, pure, Except.pure, Except.ok.injEq] at h
        subst h
        cases b with
        | true =>
          simp only [if_true, List.mem_cons] at hx
          rcases hx with rfl | hx
          · exact hp
          · exact ih rest hrest x hx
        | false =>
          simp only [Bool.false_eq_true, if_false] at hx
          exact ih rest hrest x hx

/-- what `remove_redundant_protoclusters` keeps was judged not redundant against its whole input -/
theorem removeRedundant_kept (within : Lookup) (rules : List RuleM) (clusters kept : List PC)
    (h : removeRedundant within rules clusters = .ok kept) :
    kept.Sublist clusters ∧ ∀ pc ∈ kept, isRedundant within rules clusters pc = .ok false := by
  refine ⟨filterE_sublist _ clusters kept h, ?_⟩
  intro pc hpc
  have := filterE_ok_true _ clusters kept h pc hpc
  simp only [bind, Except.bind] at this
  cases hr : isRedundant within rules clusters pc with
  | error e => simp [hr] at this
  | ok b =>
    simp only [hr, pure, Except.pure, Except.ok.injEq] at this
    cases b with
    | true => simp at this
    | false => rfl

end ASV.Proto
