/-
  Helper lemmas for C13 (reused by C17): the stable insertion sort of `Model/Refine.lean`.
-/
import ASV.Model.Refine
namespace ASV.Refine

variable {α : Type} (le : α → α → Bool)

theorem insertBy_perm (a : α) : ∀ l : List α, (insertBy le a l).Perm (a :: l)
  | [] => by simp [insertBy]
  | b :: l => by
    simp only [insertBy]
    split
    · exact List.Perm.refl _
    · exact ((insertBy_perm a l).cons b).trans (List.Perm.swap a b l)

theorem sortBy_perm : ∀ l : List α, (sortBy le l).Perm l
  | [] => by simp [sortBy]
  | a :: l => by
    simp only [sortBy]
    exact (insertBy_perm le a _).trans ((sortBy_perm l).cons a)

theorem mem_insertBy {a x : α} {l : List α} : x ∈ insertBy le a l ↔ x = a ∨ x ∈ l := by
  rw [(insertBy_perm le a l).mem_iff]; simp

theorem mem_sortBy {x : α} {l : List α} : x ∈ sortBy le l ↔ x ∈ l :=
  (sortBy_perm le l).mem_iff

theorem length_sortBy (l : List α) : (sortBy le l).length = l.length := (sortBy_perm le l).length_eq

theorem sortBy_ne_nil {l : List α} (h : l ≠ []) : sortBy le l ≠ [] := by
  intro h'
  have := length_sortBy le l
  rw [h'] at this
  cases l with
  | nil => exact h rfl
  | cons a t => simp at this

variable {le}

theorem insertBy_pairwise (total : ∀ a b, le a b = true ∨ le b a = true)
    (trans : ∀ a b c, le a b = true → le b c = true → le a c = true) (a : α) :
    ∀ l : List α, l.Pairwise (fun x y => le x y = true) → (insertBy le a l).Pairwise (fun x y => le x y = true)
  | [], _ => by simp [insertBy]
  | b :: l, h => by
    simp only [insertBy]
    rw [List.pairwise_cons] at h
    split
    · rename_i hab
      refine List.Pairwise.cons ?_ (List.Pairwise.cons h.1 h.2)
      intro x hx
      rcases List.mem_cons.mp hx with rfl | hx
      · exact hab
      · exact trans _ _ _ hab (h.1 x hx)
    · rename_i hab
      have hba : le b a = true := by
        rcases total a b with h1 | h1
        · exact absurd h1 hab
        · exact h1
      refine List.Pairwise.cons ?_ (insertBy_pairwise total trans a l h.2)
      intro x hx
      rcases (mem_insertBy le).mp hx with rfl | hx
      · exact hba
      · exact h.1 x hx

theorem sortBy_pairwise (total : ∀ a b, le a b = true ∨ le b a = true)
    (trans : ∀ a b c, le a b = true → le b c = true → le a c = true) :
    ∀ l : List α, (sortBy le l).Pairwise (fun x y => le x y = true)
  | [] => by simp [sortBy]
  | a :: l => by
    simp only [sortBy]
    exact insertBy_pairwise total trans a _ (sortBy_pairwise total trans l)

/-- a total, transitive, antisymmetric key makes the sorted list a function of the multiset -/
theorem sortBy_eq_of_perm (total : ∀ a b, le a b = true ∨ le b a = true)
    (trans : ∀ a b c, le a b = true → le b c = true → le a c = true)
    (antisymm : ∀ a b, le a b = true → le b a = true → a = b)
    {l₁ l₂ : List α} (h : l₁.Perm l₂) : sortBy le l₁ = sortBy le l₂ := by
  apply List.Perm.eq_of_pairwise (le := fun x y => le x y = true)
  · intro a b _ _ hab hba; exact antisymm a b hab hba
  · exact sortBy_pairwise total trans l₁
  · exact sortBy_pairwise total trans l₂
  · exact (sortBy_perm le l₁).trans (h.trans (sortBy_perm le l₂).symm)

/-- an already sorted list is left alone (stability is not even needed) -/
theorem sortBy_of_pairwise : ∀ {l : List α}, l.Pairwise (fun x y => le x y = true) → sortBy le l = l
  | [], _ => rfl
  | a :: l, h => by
    rw [List.pairwise_cons] at h
    simp only [sortBy, sortBy_of_pairwise h.2]
    cases l with
    | nil => rfl
    | cons b t => simp [insertBy, h.1 b (by simp)]

/-! ### `dedupAdj` -/

theorem dedupAdj_sublist [DecidableEq α] : ∀ l : List α, (dedupAdj l).Sublist l
  | [] => by simp [dedupAdj]
  | [a] => by simp [dedupAdj]
  | a :: b :: l => by
    simp only [dedupAdj]
    split
    · exact (dedupAdj_sublist (b :: l)).trans (List.sublist_cons_self a _)
    · exact (dedupAdj_sublist (b :: l)).cons_cons a

theorem mem_dedupAdj [DecidableEq α] : ∀ {l : List α} {x : α}, x ∈ dedupAdj l ↔ x ∈ l
  | [], x => by simp [dedupAdj]
  | [a], x => by simp [dedupAdj]
  | a :: b :: l, x => by
    simp only [dedupAdj]
    split
    · rename_i hab
      subst hab
      rw [mem_dedupAdj (l := a :: l)]
      simp
    · rw [List.mem_cons, mem_dedupAdj (l := b :: l)]
      simp

theorem dedupAdj_ne_nil [DecidableEq α] {l : List α} (h : l ≠ []) : dedupAdj l ≠ [] := by
  cases l with
  | nil => exact absurd rfl h
  | cons a t =>
    intro h'
    have : a ∈ dedupAdj (a :: t) := mem_dedupAdj.mpr (by simp)
    rw [h'] at this
    simp at this

end ASV.Refine

/-! ### the same for an order that is total / transitive only on the elements satisfying `P` -/
namespace ASV.Refine
variable {α : Type} {le : α → α → Bool} (P : α → Prop)

theorem insertBy_pairwise_on (total : ∀ a b, P a → P b → le a b = true ∨ le b a = true)
    (trans : ∀ a b c, P a → P b → P c → le a b = true → le b c = true → le a c = true) (a : α) (ha : P a) :
    ∀ l : List α, (∀ x ∈ l, P x) → l.Pairwise (fun x y => le x y = true) →
      (insertBy le a l).Pairwise (fun x y => le x y = true)
  | [], _, _ => by simp [insertBy]
  | b :: l, hP, h => by
    simp only [insertBy]
    rw [List.pairwise_cons] at h
    have hb : P b := hP b (by simp)
    have hl : ∀ x ∈ l, P x := fun x hx => hP x (List.mem_cons_of_mem _ hx)
    split
    · rename_i hab
      refine List.Pairwise.cons ?_ (List.Pairwise.cons h.1 h.2)
      intro x hx
      rcases List.mem_cons.mp hx with rfl | hx
      · exact hab
      · exact trans _ _ _ ha hb (hl x hx) hab (h.1 x hx)
    · rename_i hab
      have hba : le b a = true := by
        rcases total a b ha hb with h1 | h1
        · exact absurd h1 hab
        · exact h1
      refine List.Pairwise.cons ?_ (insertBy_pairwise_on total trans a ha l hl h.2)
      intro x hx
      rcases (mem_insertBy le).mp hx with rfl | hx
      · exact hba
      · exact h.1 x hx

theorem sortBy_pairwise_on (total : ∀ a b, P a → P b → le a b = true ∨ le b a = true)
    (trans : ∀ a b c, P a → P b → P c → le a b = true → le b c = true → le a c = true) :
    ∀ l : List α, (∀ x ∈ l, P x) → (sortBy le l).Pairwise (fun x y => le x y = true)
  | [], _ => by simp [sortBy]
  | a :: l, hP => by
    simp only [sortBy]
    have hl : ∀ x ∈ l, P x := fun x hx => hP x (List.mem_cons_of_mem _ hx)
    exact insertBy_pairwise_on P total trans a (hP a (by simp)) _
      (fun x hx => hl x ((mem_sortBy le).mp hx)) (sortBy_pairwise_on total trans l hl)

end ASV.Refine
