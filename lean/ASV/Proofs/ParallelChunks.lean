/-
  C18 helper lemmas: CPython's chunking (`_get_tasks`, chunk size, number of chunks) and the
  slice assignment of `MapResult._set` seen as replacing one block of a list of blocks.
-/
import ASV.Proofs.Parallel
namespace ASV.Parallel

variable {α ε β γ : Type}

/-- all blocks have `cs` elements except possibly the last, which has at most `cs` -/
def Uniform (cs : Nat) : List (List γ) → Prop
  | [] => True
  | [b] => b.length ≤ cs
  | b :: b' :: rest => b.length = cs ∧ Uniform cs (b' :: rest)

theorem Uniform.of_lengths {δ : Type} (cs : Nat) :
    ∀ (bs : List (List γ)) (bs' : List (List δ)),
      bs.map List.length = bs'.map List.length → Uniform cs bs → Uniform cs bs'
  | [], [], _, _ => trivial
  | [], _ :: _, h, _ => by simp at h
  | _ :: _, [], h, _ => by simp at h
  | [b], [b'], h, hu => by
    simp only [List.map_cons, List.map_nil, List.cons.injEq, and_true] at h
    simp only [Uniform] at hu ⊢
    omega
  | [_], _ :: _ :: _, h, _ => by simp at h
  | _ :: _ :: _, [_], h, _ => by simp at h
  | b :: b₂ :: rest, b' :: b₂' :: rest', h, hu => by
    simp only [List.map_cons, List.cons.injEq] at h
    simp only [Uniform] at hu ⊢
    refine ⟨by omega, ?_⟩
    apply Uniform.of_lengths cs (b₂ :: rest) (b₂' :: rest') _ hu.2
    simp only [List.map_cons, List.cons.injEq]
    exact h.2

/-! ### `_get_tasks` -/

theorem getTasksAux_nil (size fuel : Nat) : getTasksAux size fuel ([] : List α) = [] := by
  cases fuel <;> simp [getTasksAux]

theorem getTasksAux_flatten (size : Nat) (hs : 0 < size) :
    ∀ (fuel : Nat) (l : List α), l.length ≤ fuel → (getTasksAux size fuel l).flatten = l
  | 0, l, h => by
    have : l = [] := List.eq_nil_of_length_eq_zero (by omega)
    subst this; rfl
  | fuel + 1, l, h => by
    simp only [getTasksAux]
    split
    · rename_i hemp
      cases l with
      | nil => rfl
      | cons a t =>
        obtain ⟨s, rfl⟩ : ∃ s, size = s + 1 := ⟨size - 1, by omega⟩
        simp at hemp
    · have hl : (l.drop size).length ≤ fuel := by
        cases l with
        | nil => simp
        | cons a t => simp only [List.length_drop, List.length_cons] at h ⊢; omega
      simp only [List.flatten_cons, getTasksAux_flatten size hs fuel (l.drop size) hl, List.take_append_drop]

theorem getTasks_flatten (size : Nat) (hs : 0 < size) (l : List α) : (getTasks size l).flatten = l :=
  getTasksAux_flatten size hs l.length l (Nat.le_refl _)

theorem getTasksAux_uniform (size : Nat) (hs : 0 < size) :
    ∀ (fuel : Nat) (l : List α), l.length ≤ fuel → Uniform size (getTasksAux size fuel l)
  | 0, _, _ => trivial
  | fuel + 1, l, h => by
    simp only [getTasksAux]
    split
    · trivial
    · rename_i hne
      have hl : (l.drop size).length ≤ fuel := by
        cases l with
        | nil => simp
        | cons a t => simp only [List.length_drop, List.length_cons] at h ⊢; omega
      have ih := getTasksAux_uniform size hs fuel (l.drop size) hl
      generalize hrest : getTasksAux size fuel (l.drop size) = rest at ih
      cases rest with
      | nil => simp only [Uniform, List.length_take]; omega
      | cons b rest' =>
        refine ⟨?_, ih⟩
        -- the remainder is non-empty, so the slice was full
        have hdrop : l.drop size ≠ [] := by
          intro hd
          rw [hd, getTasksAux_nil] at hrest
          cases hrest
        have : size < l.length := by
          have := List.length_pos_iff.mpr hdrop
          simp only [List.length_drop] at this
          omega
        simp only [List.length_take]
        omega

theorem getTasks_uniform (size : Nat) (hs : 0 < size) (l : List α) : Uniform size (getTasks size l) :=
  getTasksAux_uniform size hs l.length l (Nat.le_refl _)

theorem getTasksAux_length (size : Nat) (hs : 0 < size) :
    ∀ (fuel : Nat) (l : List α), l.length ≤ fuel →
      (getTasksAux size fuel l).length = l.length / size + (if l.length % size ≠ 0 then 1 else 0)
  | 0, l, h => by
    have : l = [] := List.eq_nil_of_length_eq_zero (by omega)
    subst this; simp [getTasksAux]
  | fuel + 1, l, h => by
    simp only [getTasksAux]
    split
    · rename_i hemp
      cases l with
      | nil => simp
      | cons a t =>
        obtain ⟨s, rfl⟩ : ∃ s, size = s + 1 := ⟨size - 1, by omega⟩
        simp at hemp
    · rename_i hne
      have hpos : 0 < l.length := by
        cases l with
        | nil => simp at hne
        | cons a t => simp
      have hl : (l.drop size).length ≤ fuel := by
        simp only [List.length_drop]; omega
      rw [List.length_cons, getTasksAux_length size hs fuel (l.drop size) hl, List.length_drop]
      by_cases hge : size ≤ l.length
      · have h1 : l.length / size = (l.length - size) / size + 1 := by
          rw [Nat.div_eq l.length size]; simp [hs, hge]
        have h2 : l.length % size = (l.length - size) % size := Nat.mod_eq_sub_mod hge
        rw [h1, h2]; omega
      · have hlt : l.length < size := by omega
        have h0 : l.length - size = 0 := by omega
        have hne0 : l.length ≠ 0 := by omega
        rw [h0, Nat.div_eq_of_lt hlt, Nat.mod_eq_of_lt hlt]
        simp [hne0]

theorem getTasks_length (size : Nat) (hs : 0 < size) (l : List α) :
    (getTasks size l).length = l.length / size + (if l.length % size ≠ 0 then 1 else 0) :=
  getTasksAux_length size hs l.length l (Nat.le_refl _)

/-! ### chunk size / number of chunks -/

theorem ceilDiv_eq (a b : Nat) (hb : 0 < b) :
    ceilDiv a b = a / b + (if a % b ≠ 0 then 1 else 0) := by
  unfold ceilDiv
  have hdm := Nat.div_add_mod a b
  have hlt := Nat.mod_lt a hb
  by_cases hr : a % b = 0
  · simp only [hr, ne_eq, not_true_eq_false, if_false, Nat.add_zero]
    have h0 : (b - 1) / b = 0 := Nat.div_eq_of_lt (by omega)
    have : a + b - 1 = b * (a / b) + (b - 1) := by omega
    rw [this, Nat.mul_add_div hb, h0, Nat.add_zero]
  · simp only [ne_eq, hr, not_false_eq_true, if_true]
    have h0 : (a % b - 1) / b = 0 := Nat.div_eq_of_lt (by omega)
    have e1 : b * (a / b + 1) = b * (a / b) + b := Nat.mul_succ _ _
    have : a + b - 1 = b * (a / b + 1) + (a % b - 1) := by rw [e1]; omega
    rw [this, Nat.mul_add_div hb, h0, Nat.add_zero]

theorem chunkSize_eq_ceilDiv (n workers : Nat) (hw : 0 < workers) :
    chunkSize n workers = ceilDiv n (4 * workers) := by
  rw [ceilDiv_eq n (4 * workers) (by omega), Nat.mul_comm 4 workers]
  unfold chunkSize
  by_cases hn : n = 0
  · subst hn; simp
  · simp only [hn, if_false]
    split <;> rfl

theorem chunkSize_pos (n workers : Nat) (hn : 0 < n) : 0 < chunkSize n workers := by
  unfold chunkSize
  have hn' : n ≠ 0 := by omega
  simp only [hn', if_false]
  by_cases hq : n / (workers * 4) = 0
  · have : n % (workers * 4) ≠ 0 := by
      intro hmod
      have := Nat.div_add_mod n (workers * 4)
      rw [hq, hmod] at this
      simp at this
      omega
    simp [this]
  · generalize n / (workers * 4) = q at hq ⊢
    split <;> omega

/-- the number of task batches equals the spec's `numChunks` -/
theorem tasks_length_eq_numChunks (args : List α) (workers : Nat) (hw : 0 < workers) :
    (getTasks (chunkSize args.length workers) args).length = numChunks args.length workers := by
  unfold numChunks
  rw [← chunkSize_eq_ceilDiv _ _ hw]
  by_cases hn : args.length = 0
  · have : args = [] := List.eq_nil_of_length_eq_zero hn
    subst this
    simp [getTasks, getTasksAux, ceilDiv, chunkSize]
  · have hpos := chunkSize_pos args.length workers (by omega)
    rw [getTasks_length _ hpos, ceilDiv_eq _ _ hpos]

end ASV.Parallel
