/-
  Properties of the closed form of `connect_locations` on a ring: covers every input, is a
  well-formed span, is never longer than the line hull (C04).
-/
import ASV.Proofs.LocConnectRingIn
set_option linter.unusedSimpArgs false
set_option linter.unusedVariables false
namespace ASV

theorem hullOf_mem (ls : List Loc) (l : Loc) (hl : l ∈ ls) (i : Int) (hi : l.mem i = true) :
    (hullOf ls).mem i = true := by
  simp only [Loc.mem, List.any_eq_true, Part.mem_iff] at hi
  obtain ⟨p, hp, h1, h2⟩ := hi
  have hs := start_le_part l p hp
  have h3 : minList (ls.map (·.start)) ≤ l.start := minList_le_of_mem (List.mem_map.2 ⟨l, hl, rfl⟩)
  have h4 : l.end ≤ maxList (ls.map (·.end)) := le_maxList_of_mem (List.mem_map.2 ⟨l, hl, rfl⟩)
  simp only [hullOf, mem_simple]
  omega

/-- the closed form covers every base of every reduced location -/
theorem connR_covers (rs : List RLoc) (L : Int) (hL : 0 < L) (hok : ∀ r ∈ rs, r.OK L)
    (r : RLoc) (hr : r ∈ rs) (i : Int) (hi : (r.toLoc L).mem i = true) : (connR rs L).mem i = true := by
  obtain ⟨q, hq, hq1, hq2⟩ := chunk_of_mem hr hi
  unfold connR
  by_cases htwo : rs.any RLoc.isTwo = true
  · rw [if_pos htwo]
    match rs, hok, hr, hq, htwo with
    | [r1], _, hr, _, _ =>
      simp only [List.mem_singleton] at hr; subst hr
      exact hi
    | [], _, hr, _, _ => cases hr
    | r1 :: r2 :: rest, hok, hr, hq, htwo =>
      obtain ⟨hpre, hpost, hhi, hlo⟩ := hull_two_ends L _ hok htwo
      obtain ⟨hu0, hu1, hu2, hu3⟩ := hull_pre hok hpre
      obtain ⟨hl0, hl1, hl2, hl3⟩ := hull_post hok hpost
      simp only [connB]
      have hin : 0 ≤ i ∧ i < L := by
        rcases hq with hq | hq
        · have := mem_preOf hok hq; omega
        · have := mem_postOf hok hq; omega
      split
      · rw [mem_two]
        dsimp only
        rcases hq with hq | hq
        · have := hullP_bounds _ _ hq; left; omega
        · have := hullP_bounds _ _ hq; right; omega
      · rw [mem_simple]; exact hin
  · rw [if_neg htwo]
    unfold connA
    split
    · split
      · next hpost =>
        rcases hq with hq | hq
        · have := hullP_bounds _ _ hq; rw [mem_simple]; omega
        · rw [hpost] at hq; cases hq
      · split
        · next hpre =>
          rcases hq with hq | hq
          · rw [hpre] at hq; cases hq
          · have := hullP_bounds _ _ hq; rw [mem_simple]; omega
        · next hpost hpre =>
          obtain ⟨hu0, hu1, hu2, hu3⟩ := hull_pre hok hpre
          obtain ⟨hl0, hl1, hl2, hl3⟩ := hull_post hok hpost
          split
          · rw [mem_two]
            simp only [fl]
            rcases hq with hq | hq
            · have := hullP_bounds _ _ hq; have := mem_preOf hok hq; left; omega
            · have := hullP_bounds _ _ hq; have := mem_postOf hok hq; right; omega
          · rw [mem_simple]
            dsimp only
            rcases hq with hq | hq
            · have := hullP_bounds _ _ hq; omega
            · have := hullP_bounds _ _ hq; omega
    · exact hullOf_mem _ _ (List.mem_map.2 ⟨r, hr, rfl⟩) i hi

theorem toLoc_bounds {L : Int} {r : RLoc} (h : r.OK L) : 0 ≤ (r.toLoc L).start ∧ (r.toLoc L).start < (r.toLoc L).end ∧ (r.toLoc L).end ≤ L := by
  cases r with
  | one p => exact h
  | two x y =>
    obtain ⟨h1, h2, h3⟩ := h
    simp only [RLoc.toLoc, Loc.start, Loc.end, fl, List.map, minList, maxList, List.foldl]
    omega

/-- the closed form is a well-formed span: one part inside the record, or two parts meeting at the origin -/
theorem connR_wf (rs : List RLoc) (L : Int) (hL : 0 < L) (hne : rs ≠ []) (hok : ∀ r ∈ rs, r.OK L) :
    areaWF L L (connR rs L) = true := by
  have hL0 : L ≠ 0 := by omega
  unfold connR
  by_cases htwo : rs.any RLoc.isTwo = true
  · rw [if_pos htwo]
    match rs, hok, htwo with
    | [], _, htwo => simp at htwo
    | [r1], hok, htwo =>
      cases r1 with
      | one p => simp [RLoc.isTwo] at htwo
      | two x y =>
        obtain ⟨h1, h2, h3⟩ : (RLoc.two x y).OK L := hok _ (by simp)
        simp [connB, RLoc.toLoc, areaWF, Loc.parts, fl, hL0]; omega
    | r1 :: r2 :: rest, hok, htwo =>
      obtain ⟨hpre, hpost, hhi, hlo⟩ := hull_two_ends L _ hok htwo
      obtain ⟨hu0, hu1, hu2, hu3⟩ := hull_pre hok hpre
      obtain ⟨hl0, hl1, hl2, hl3⟩ := hull_post hok hpost
      simp only [connB]
      split
      · simp [areaWF, Loc.parts, hL0]; omega
      · simp [areaWF, Loc.parts, hL0]; omega
  · rw [if_neg htwo]
    unfold connA
    split
    · split
      · next hpost =>
        have hpre : preOf L rs ≠ [] := fun h => chunks_ne L rs hne h hpost
        obtain ⟨hu0, hu1, hu2, hu3⟩ := hull_pre hok hpre
        simp [areaWF, Loc.parts]; omega
      · split
        · next hpost hpre =>
          obtain ⟨hl0, hl1, hl2, hl3⟩ := hull_post hok hpost
          simp [areaWF, Loc.parts]; omega
        · next hpost hpre =>
          obtain ⟨hu0, hu1, hu2, hu3⟩ := hull_pre hok hpre
          obtain ⟨hl0, hl1, hl2, hl3⟩ := hull_post hok hpost
          split
          · simp [areaWF, Loc.parts, fl, hL0]; omega
          · simp [areaWF, Loc.parts]; omega
    · have hne' : rs.map (RLoc.toLoc L) ≠ [] := by simpa using hne
      have h1 : (rs.map (RLoc.toLoc L)).map (·.start) ≠ [] := by simpa using hne
      have h2 : (rs.map (RLoc.toLoc L)).map (·.end) ≠ [] := by simpa using hne
      obtain ⟨l1, hl1, e1⟩ := List.mem_map.1 (minList_mem h1)
      obtain ⟨l2, hl2, e2⟩ := List.mem_map.1 (maxList_mem h2)
      obtain ⟨r1, hr1, rfl⟩ := List.mem_map.1 hl1
      obtain ⟨r2, hr2, rfl⟩ := List.mem_map.1 hl2
      have b1 := toLoc_bounds (hok r1 hr1)
      have b2 := toLoc_bounds (hok r2 hr2)
      have b3 : minList ((rs.map (RLoc.toLoc L)).map (·.start)) ≤ (r2.toLoc L).start :=
        minList_le_of_mem (List.mem_map.2 ⟨_, hl2, rfl⟩)
      simp only [hullOf, areaWF, Loc.parts, Bool.and_eq_true, decide_eq_true_eq]
      omega

end ASV
