/-
  Helper lemmas for C13: `filter_result_multiple` returns its hits in the order of the gene's list.
-/
import ASV.Proofs.HitFilterMultiple
import ASV.Proofs.HitFilterEquiv
namespace ASV.HitFilter
open ASV.Refine

/-- `enumerate(l)` starting at `n` -/
def enumG {α} (n : Nat) : List α → List (Nat × α)
  | [] => []
  | h :: t => (n, h) :: enumG (n + 1) t

theorem enumG_map_snd {α} : ∀ (n : Nat) (l : List α), (enumG n l).map (·.2) = l
  | _, [] => rfl
  | n, h :: t => by simp [enumG, enumG_map_snd (n + 1) t]

theorem mem_enumG_iff {α} : ∀ {n : Nat} {l : List α} {x : Nat × α},
    x ∈ enumG n l ↔ n ≤ x.1 ∧ l[x.1 - n]? = some x.2
  | n, [], x => by simp [enumG]
  | n, h :: t, x => by
    simp only [enumG, List.mem_cons, mem_enumG_iff (n := n + 1) (l := t)]
    constructor
    · rintro (rfl | ⟨h1, h2⟩)
      · simp
      · refine ⟨by omega, ?_⟩
        have : x.1 - n = (x.1 - (n + 1)) + 1 := by omega
        rw [this, List.getElem?_cons_succ]; exact h2
    · rintro ⟨h1, h2⟩
      by_cases e : x.1 = n
      · left
        rw [e, Nat.sub_self, List.getElem?_cons_zero] at h2
        simp only [Option.some.injEq] at h2
        exact Prod.ext e h2.symm
      · right
        refine ⟨by omega, ?_⟩
        have : x.1 - n = (x.1 - (n + 1)) + 1 := by omega
        rw [this, List.getElem?_cons_succ] at h2; exact h2

theorem sublist_enumG_of_sorted {α} : ∀ (l : List α) (n : Nat) (k : List (Nat × α)),
    (∀ x ∈ k, x ∈ enumG n l) → k.Pairwise (fun a b => a.1 < b.1) → k.Sublist (enumG n l)
  | [], _, k, hk, _ => by
    cases k with
    | nil => exact List.Sublist.refl _
    | cons x _ => have := hk x (by simp); simp [enumG] at this
  | h :: t, n, k, hk, hs => by
    cases k with
    | nil => exact List.nil_sublist _
    | cons x k' =>
      have hsp := List.pairwise_cons.mp hs
      have hx := hk x (by simp)
      simp only [enumG, List.mem_cons] at hx
      have tail_mem : ∀ y ∈ k', y ∈ enumG (n + 1) t := by
        intro y hy
        have h1 := hk y (List.mem_cons_of_mem _ hy)
        simp only [enumG, List.mem_cons] at h1
        rcases h1 with rfl | h1
        · have hlt := hsp.1 _ hy
          rcases hx with rfl | hx
          · simp at hlt
          · have := (mem_enumG_iff.mp hx).1; simp only at hlt; omega
        · exact h1
      simp only [enumG]
      rcases hx with rfl | hx
      · exact (sublist_enumG_of_sorted t (n + 1) k' tail_mem hsp.2).cons_cons _
      · apply List.Sublist.cons
        apply sublist_enumG_of_sorted t (n + 1) (x :: k') _ hs
        intro y hy
        rcases List.mem_cons.mp hy with rfl | hy
        · exact hx
        · exact tail_mem y hy

/-- the reported hits come in the order of the gene's hit list -/
theorem filterMultiple_sublist (hits : List FHit) : (filterMultiple hits).Sublist hits := by
  have inv := final_inv hits
  -- every recorded (index, hit) really is the hit at that index
  have hidx : ∀ e ∈ scanMultiple [] 0 hits, e.2 ∈ enumG 0 hits := by
    intro e he
    obtain ⟨l1, l2, hfb, hlen, _⟩ := inv.sound e he
    rw [mem_enumG_iff]
    refine ⟨Nat.zero_le _, ?_⟩
    rw [Nat.sub_zero, ← hlen, hfb.1]
    simp
  let K := sortBy (fun (a b : Nat × FHit) => decide (a.1 ≤ b.1)) ((scanMultiple [] 0 hits).map (·.2))
  have hK_mem : ∀ x ∈ K, x ∈ enumG 0 hits := by
    intro x hx
    obtain ⟨e, he, rfl⟩ := List.mem_map.mp ((mem_sortBy _).mp hx)
    exact hidx e he
  have hK_le : K.Pairwise (fun a b => a.1 ≤ b.1) :=
    (sortBy_pairwise (le := fun (a b : Nat × FHit) => decide (a.1 ≤ b.1))
      (by intro a b; simp only [decide_eq_true_eq]; omega)
      (by intro a b c; simp only [decide_eq_true_eq]; omega) _).imp (fun h => by simpa using h)
  -- different recorded entries have different indices: equal index, equal hit, equal profile, equal key
  have hK_ne : K.Pairwise (fun a b => a.1 ≠ b.1) := by
    have hE : ((scanMultiple [] 0 hits).map (·.2)).Pairwise (fun a b => a.1 ≠ b.1) := by
      rw [List.pairwise_map]
      have hkeys := inv.keys
      rw [List.Nodup, List.pairwise_map] at hkeys
      refine List.Pairwise.imp_of_mem ?_ hkeys
      intro a b ha hb hne hidxeq
      apply hne
      have h1 := (mem_enumG_iff.mp (hidx a ha)).2
      have h2 := (mem_enumG_iff.mp (hidx b hb)).2
      rw [hidxeq, h2] at h1
      simp only [Option.some.injEq] at h1
      obtain ⟨_, _, _, _, pa⟩ := inv.sound a ha
      obtain ⟨_, _, _, _, pb⟩ := inv.sound b hb
      rw [← pa, ← pb, h1]
    exact (List.Perm.pairwise_iff (fun {x y} h => fun e => h e.symm) (sortBy_perm _ _)).mpr hE
  have hK_lt : K.Pairwise (fun a b => a.1 < b.1) := (hK_le.and hK_ne).imp (fun h => by omega)
  have := (sublist_enumG_of_sorted hits 0 K hK_mem hK_lt).map (·.2)
  rw [enumG_map_snd] at this
  exact this

/-- a sub-list of a duplicate-free list is that list filtered by membership -/
theorem sublist_eq_filter_mem : ∀ {l' l : List FHit}, l'.Sublist l → l.Nodup → l' = l.filter (fun x => l'.contains x)
  | _, _, .slnil, _ => rfl
  | l', _, .cons a (l₂ := l) h, hn => by
    have hn' := List.nodup_cons.mp hn
    have ha : l'.contains a = false := by
      rw [← Bool.not_eq_true, List.contains_iff_mem]
      exact fun hm => hn'.1 (h.subset hm)
    rw [List.filter_cons, ha]
    simp only [Bool.false_eq_true, if_false]
    exact sublist_eq_filter_mem h hn'.2
  | _, _, .cons_cons a (l₁ := l') (l₂ := l) h, hn => by
    have hn' := List.nodup_cons.mp hn
    rw [List.filter_cons]
    simp only [List.contains_cons, beq_self_eq_true, Bool.true_or, if_true, List.cons.injEq, true_and]
    rw [sublist_eq_filter_mem h hn'.2]
    apply List.filter_congr
    intro x hx
    have hxa : (x == a) = false := by
      rw [beq_eq_false_iff_ne]
      intro e; subst e; exact hn'.1 hx
    rw [← sublist_eq_filter_mem h hn'.2]
    simp [hxa]

end ASV.HitFilter
