/-
  C14 helper lemmas, part 11: the caller loop keeps the assembly line — merging border modules
  never changes the order in which the domains are read along the transcription direction, for
  either strand (this is what the strand-dependent argument order of `combine_modules` in
  `generate_domains` is for).
-/
import ASV.Proofs.ModulesChain
namespace ASV.Modules
open T Spec

/-! ### `lineGo` -/

theorem lineGo_congr_prefix {l l' : List (Bool × List Comp)}
    (h : ∀ acc, lineGo l acc = lineGo l' acc) :
    ∀ (pre : List (Bool × List Comp)) (acc : List Comp), lineGo (pre ++ l) acc = lineGo (pre ++ l') acc
  | [], acc => h acc
  | (true, cs) :: pre, acc => by
    simp only [List.cons_append, lineGo]; exact lineGo_congr_prefix h pre _
  | (false, cs) :: pre, acc => by
    simp only [List.cons_append, lineGo]; rw [lineGo_congr_prefix h pre []]

/-- two adjacent genes of equal orientation may exchange components at their common border -/
theorem lineGo_pair (b : Bool) (xc yc xc' yc' : List Comp) (post : List (Bool × List Comp))
    (h : if b then yc ++ xc = yc' ++ xc' else xc ++ yc = xc' ++ yc') (acc : List Comp) :
    lineGo ((b, xc) :: (b, yc) :: post) acc = lineGo ((b, xc') :: (b, yc') :: post) acc := by
  cases b with
  | true =>
    simp only [lineGo, if_true] at h ⊢
    rw [← List.append_assoc, ← List.append_assoc, h]
  | false =>
    simp only [lineGo, Bool.false_eq_true, if_false, List.nil_append] at h ⊢
    have : ∀ t : List Comp, acc ++ xc ++ (yc ++ t) = acc ++ (xc ++ yc) ++ t := by intro t; simp [List.append_assoc]
    rw [this, h]; simp [List.append_assoc]

theorem lineGo_sublist {α} (f1 f2 : α → Bool × List Comp)
    (h : ∀ r, (f1 r).1 = (f2 r).1 ∧ (f1 r).2.Sublist (f2 r).2) :
    ∀ (R : List α) (acc acc' : List Comp), acc.Sublist acc' →
      (lineGo (R.map f1) acc).Sublist (lineGo (R.map f2) acc')
  | [], _, _, ha => ha
  | r :: R, acc, acc', ha => by
    obtain ⟨h1, h2⟩ := h r
    simp only [List.map_cons]
    cases e1 : f1 r with
    | mk b1 c1 =>
      cases e2 : f2 r with
      | mk b2 c2 =>
        rw [e1, e2] at h1 h2
        simp only at h1 h2
        subst h1
        cases b1 with
        | true => simp only [lineGo]; exact lineGo_sublist f1 f2 h R _ _ (h2.append ha)
        | false =>
          simp only [lineGo]
          exact (ha.append h2).append (lineGo_sublist f1 f2 h R [] [] (List.Sublist.refl _))

/-- every gene's components are a contiguous block of the line -/
theorem lineGo_infix : ∀ (l : List (Bool × List Comp)) (acc : List Comp) (e : Bool × List Comp), e ∈ l →
    ∃ a b, lineGo l acc = a ++ e.2 ++ b
  | [], _, _, h => by cases h
  | (true, cs) :: rest, acc, e, h => by
    simp only [lineGo]
    rcases List.mem_cons.mp h with h | h
    · subst h
      have : ∀ (l : List (Bool × List Comp)) (pre x post : List Comp),
          ∃ a b, lineGo l (pre ++ x ++ post) = a ++ x ++ b := by
        intro l
        induction l with
        | nil => intro pre x post; exact ⟨pre, post, rfl⟩
        | cons y ys ih =>
          intro pre x post
          cases y with
          | mk yb yc =>
            cases yb with
            | true =>
              simp only [lineGo]
              have := ih (yc ++ pre) x post
              simpa [List.append_assoc] using this
            | false =>
              simp only [lineGo]
              exact ⟨pre, post ++ yc ++ lineGo ys [], by simp [List.append_assoc]⟩
      have := this rest [] cs acc
      simpa using this
    · exact lineGo_infix rest _ e h
  | (false, cs) :: rest, acc, e, h => by
    simp only [lineGo]
    rcases List.mem_cons.mp h with h | h
    · subst h; exact ⟨acc, lineGo rest [], rfl⟩
    · obtain ⟨a, b, hab⟩ := lineGo_infix rest [] e h
      exact ⟨acc ++ cs ++ a, b, by rw [hab]; simp [List.append_assoc]⟩

theorem isInfixB_of_append (m : List Comp) : ∀ (a b : List Comp), isInfixB m (a ++ m ++ b) = true
  | [], b => by
    have hp : m.isPrefixOf (m ++ b) = true := by
      rw [List.isPrefixOf_iff_prefix]; exact List.prefix_append m b
    cases hm : m ++ b with
    | nil =>
      simp only [List.nil_append, hm, isInfixB]
      rw [hm] at hp; exact hp
    | cons x xs =>
      simp only [List.nil_append, hm, isInfixB, Bool.or_eq_true]
      rw [hm] at hp; exact Or.inl hp
  | x :: a, b => by
    simp only [List.cons_append, isInfixB, Bool.or_eq_true]
    exact Or.inr (isInfixB_of_append m a b)

/-! ### entries -/

def entry (r : GeneResult) : Bool × List Comp := (isReverse r.strand, r.modules.flatMap (·.components))
def kentry (g : Gene) : Bool × List Comp := (isReverse g.strand, keptComps g.name g.domains)
def hdr (r : GeneResult) : String × Int := (r.name, r.strand)
def ghdr (g : Gene) : String × Int := (g.name, g.strand)

theorem kept_eq (name : String) (ds : List Domain) :
    ((sortDomains ds).map (toComp name)).filter notIgnored = keptComps name ds := by
  unfold keptComps
  generalize sortDomains ds = l
  induction l with
  | nil => rfl
  | cons d l ih =>
    have e : notIgnored (toComp name d) = !ignoredDomain d := rfl
    simp only [List.map_cons, List.filter_cons, e]
    cases h : (!ignoredDomain d)
    · simpa using ih
    · simp only [if_true, List.map_cons, ih]; rfl

/-- different strands: `combine_modules` changes nothing -/
theorem combine_diff_strand (cs ps : Int) (cur prev : List Module) (h : cs ≠ ps) :
    combine cs ps cur prev = .ok ⟨none, prev, cur⟩ := by
  unfold combine
  have : (cs != ps) = true := by simpa [bne_iff_ne] using h
  simp [this]

/-- the loop invariant: goodness, headers, and the assembly line -/
theorem chainGo_line : ∀ (genes : List Gene) (results : List GeneResult) (live : Bool),
    (∀ g ∈ genes, g.name.isEmpty = false ∧ ∀ d ∈ g.domains, (classify d.label).isSome = true) →
    (∀ r ∈ results, ∀ m ∈ r.modules, Good m) →
    ∃ out, chainGo genes results live = .ok out ∧ (∀ r ∈ out, ∀ m ∈ r.modules, Good m)
      ∧ out.map hdr = results.map hdr ++ (genes.filter liveGene).map ghdr
      ∧ ∀ acc, lineGo (out.map entry) acc
              = lineGo (results.map entry ++ (genes.filter liveGene).map kentry) acc := by
  intro genes
  induction genes with
  | nil => intro results live _ hr; exact ⟨results, rfl, hr, by simp, by simp⟩
  | cons g rest ih =>
    intro results live hg hr
    have hrest : ∀ g ∈ rest, g.name.isEmpty = false ∧ ∀ d ∈ g.domains, (classify d.label).isSome = true :=
      fun x hx => hg x (List.mem_cons_of_mem _ hx)
    simp only [chainGo]
    cases hskip : (g.domains.isEmpty && !g.hasMotifs) with
    | true =>
      simp only [if_true]
      have hl : liveGene g = false := by simp [liveGene, hskip]
      simp only [List.filter_cons, hl, Bool.false_eq_true, if_false]
      exact ih results false hrest hr
    | false =>
      simp only [Bool.false_eq_true, if_false]
      have hl : liveGene g = true := by simp [liveGene, hskip]
      simp only [List.filter_cons, hl, if_true, List.map_cons]
      obtain ⟨ms, hb, hs, hflat, _⟩ := build_spec g.domains g.name (hg g (List.mem_cons_self)).1 (hg g (List.mem_cons_self)).2
      obtain ⟨ms', hb', hms⟩ := build_good g.domains g.name (hg g (List.mem_cons_self)).1 (hg g (List.mem_cons_self)).2
      rw [hb] at hb'; injection hb' with hb'; subst hb'
      rw [hb]
      simp only
      have hentry : entry ⟨g.name, g.strand, g.region, ms, g.index, ms.isEmpty⟩ = kentry g := by
        unfold entry kentry; simp only; rw [hflat, kept_eq]
      -- the plain "append the new gene" continuation
      have plain : ∃ out, chainGo rest (results ++ [⟨g.name, g.strand, g.region, ms, g.index, ms.isEmpty⟩]) true = .ok out
          ∧ (∀ r ∈ out, ∀ m ∈ r.modules, Good m)
          ∧ out.map hdr = results.map hdr ++ ghdr g :: (rest.filter liveGene).map ghdr
          ∧ ∀ acc, lineGo (out.map entry) acc
              = lineGo (results.map entry ++ kentry g :: (rest.filter liveGene).map kentry) acc := by
        have happ : ∀ r ∈ results ++ [(⟨g.name, g.strand, g.region, ms, g.index, ms.isEmpty⟩ : GeneResult)], ∀ m ∈ r.modules, Good m := by
          intro r hrm
          rcases List.mem_append.mp hrm with h | h
          · exact hr r h
          · simp at h; subst h; exact hms
        obtain ⟨out, ho, h1, h2, h3⟩ := ih _ true hrest happ
        refine ⟨out, ho, h1, ?_, ?_⟩
        · rw [h2]; simp [hdr, ghdr]
        · intro acc; rw [h3]; simp [hentry]
      cases hprev : (if live = true then results.getLast? else none) with
      | none => exact plain
      | some prev =>
        simp only
        have hgl : results.getLast? = some prev := by
          cases live with
          | false => simp at hprev
          | true => simpa using hprev
        have hsplit := getLast?_split results prev hgl
        have hpm : prev ∈ results := List.mem_of_getLast? hgl
        have hpg := hr prev hpm
        cases hcond : (!prev.modules.isEmpty && !ms.isEmpty && prev.region == g.region) with
        | false => simp only [Bool.false_eq_true, if_false]; exact plain
        | true =>
          simp only [if_true]
          have hdl : ∀ r ∈ results.dropLast, ∀ m ∈ r.modules, Good m := fun r h => hr r (mem_dropLast h)
          -- common finish: new last two entries `p'`, `i'` with the same headers and an exchange at the border
          have finish : ∀ (pm im : List Module), (∀ m ∈ pm, Good m) → (∀ m ∈ im, Good m) →
              (∀ acc post, lineGo ((isReverse prev.strand, pm.flatMap (·.components))
                                   :: (isReverse g.strand, im.flatMap (·.components)) :: post) acc
                         = lineGo (entry prev :: kentry g :: post) acc) →
              ∃ out, chainGo rest (results.dropLast ++ [{ prev with modules := pm },
                                      { (⟨g.name, g.strand, g.region, ms, g.index, ms.isEmpty⟩ : GeneResult) with modules := im }]) true = .ok out
                ∧ (∀ r ∈ out, ∀ m ∈ r.modules, Good m)
                ∧ out.map hdr = results.map hdr ++ ghdr g :: (rest.filter liveGene).map ghdr
                ∧ ∀ acc, lineGo (out.map entry) acc
                    = lineGo (results.map entry ++ kentry g :: (rest.filter liveGene).map kentry) acc := by
            intro pm im hpmg himg hline
            have hgood : ∀ r ∈ results.dropLast ++ [{ prev with modules := pm },
                { (⟨g.name, g.strand, g.region, ms, g.index, ms.isEmpty⟩ : GeneResult) with modules := im }], ∀ m ∈ r.modules, Good m := by
              intro x hx
              rcases List.mem_append.mp hx with h | h
              · exact hdl x h
              · simp at h
                rcases h with h | h
                · subst h; exact hpmg
                · subst h; exact himg
            obtain ⟨out, ho, h1, h2, h3⟩ := ih _ true hrest hgood
            refine ⟨out, ho, h1, ?_, ?_⟩
            · rw [h2]
              conv => rhs; rw [hsplit]
              simp [hdr, ghdr]
            · intro acc
              rw [h3]
              conv => rhs; rw [hsplit]
              simp only [List.map_append, List.map_cons, List.map_nil, List.append_assoc, List.cons_append,
                         List.nil_append]
              apply lineGo_congr_prefix
              intro acc'
              exact hline acc' _
          cases hstr : (g.strand == -1) with
          | true =>
            simp only [if_true]
            have hgs : g.strand = -1 := by simpa using hstr
            obtain ⟨r, hc, h1, h2, _, h4⟩ := combine_good prev.strand g.strand prev.modules ms hms hpg
            rw [hc]
            simp only
            apply finish r.cur r.prev h2 h1
            intro acc post
            by_cases hse : prev.strand = g.strand
            · have hflat2 := combineOK_flat h4
              have hb1 : isReverse prev.strand = true := by rw [hse, hgs]; rfl
              have hb2 : isReverse g.strand = true := by rw [hgs]; rfl
              rw [← hentry]
              unfold entry
              simp only [hb1, hb2]
              apply lineGo_pair true
              simp only [if_true]
              simp only [List.flatMap_append] at hflat2
              exact hflat2
            · rw [combine_diff_strand _ _ _ _ hse] at hc
              injection hc with hc; subst hc
              rw [← hentry]; rfl
          | false =>
            simp only [Bool.false_eq_true, if_false]
            have hgs : g.strand ≠ -1 := by simpa using hstr
            obtain ⟨r, hc, h1, h2, _, h4⟩ := combine_good g.strand prev.strand ms prev.modules hpg hms
            rw [hc]
            simp only
            apply finish r.prev r.cur h1 h2
            intro acc post
            by_cases hse : g.strand = prev.strand
            · have hflat2 := combineOK_flat h4
              have hb2 : isReverse g.strand = false := by simpa [isReverse] using hgs
              have hb1 : isReverse prev.strand = false := by rw [← hse]; exact hb2
              rw [← hentry]
              unfold entry
              simp only [hb1, hb2]
              apply lineGo_pair false
              simp only [Bool.false_eq_true, if_false]
              simp only [List.flatMap_append] at hflat2
              exact hflat2
            · rw [combine_diff_strand _ _ _ _ hse] at hc
              injection hc with hc; subst hc
              rw [← hentry]; rfl


/-! ### the reported (filtered) modules -/

def bigModule (m : Module) : Bool := m.components.length > 1

/-- a gene's reported modules as the spec sees them -/
def report (r : GeneResult) : String × List (List Comp) :=
  (r.name, (r.modules.filter bigModule).map (·.components))

theorem zip_report : ∀ (live : List Gene) (R : List GeneResult), R.map hdr = live.map ghdr →
    (live.zip (R.map report)).map (fun (g, o) => (isReverse g.strand, o.2.flatten))
      = R.map (fun r => (isReverse r.strand, (report r).2.flatten))
  | [], [], _ => rfl
  | [], _ :: _, h => by simp at h
  | _ :: _, [], h => by simp at h
  | g :: live, r :: R, h => by
    simp only [List.map_cons, List.cons.injEq] at h
    obtain ⟨h1, h2⟩ := h
    simp only [List.map_cons, List.zip_cons_cons, zip_report live R h2]
    have : r.strand = g.strand := by
      have := congrArg Prod.snd h1; simpa [hdr, ghdr] using this
    rw [this]

theorem filter_flatMap_sublist {α β} (p : α → Bool) (f : α → List β) :
    ∀ l : List α, ((l.filter p).map f).flatten.Sublist (l.flatMap f)
  | [] => List.Sublist.refl _
  | a :: l => by
    simp only [List.filter_cons, List.flatMap_cons]
    cases p a with
    | true =>
      simp only [if_true, List.map_cons, List.flatten_cons]
      exact (List.Sublist.refl _).append (filter_flatMap_sublist p f l)
    | false =>
      simp only [Bool.false_eq_true, if_false]
      exact List.Sublist.trans (filter_flatMap_sublist p f l) (List.sublist_append_right _ _)

theorem comps_infix_flatMap (m : Module) : ∀ (ms : List Module), m ∈ ms →
    ∃ a b, ms.flatMap (·.components) = a ++ m.components ++ b
  | [], h => by cases h
  | x :: ms, h => by
    rcases List.mem_cons.mp h with h | h
    · subst h; exact ⟨[], ms.flatMap (·.components), by simp⟩
    · obtain ⟨a, b, hab⟩ := comps_infix_flatMap m ms h
      exact ⟨x.components ++ a, b, by simp [hab, List.append_assoc]⟩

/-- what the caller loop as a whole guarantees about the assembly line -/
theorem chain_line_spec (genes : List Gene)
    (hg : ∀ g ∈ genes, g.name.isEmpty = false ∧ ∀ d ∈ g.domains, (classify d.label).isSome = true) :
    ∃ R, chainGo genes [] false = .ok R
      ∧ (∀ r ∈ R, ∀ m ∈ r.modules, Good m)
      ∧ R.map hdr = (genes.filter liveGene).map ghdr
      ∧ assemblyLine (R.map entry) = geneLine genes
      ∧ chainLineOK genes (R.map report) = true := by
  obtain ⟨R, hR, hgood, hh, hline⟩ := chainGo_line genes [] false hg (fun r hr => by cases hr)
  simp only [List.map_nil, List.nil_append] at hh hline
  have hexact : assemblyLine (R.map entry) = geneLine genes := by
    unfold assemblyLine geneLine assemblyLine
    rw [hline []]; rfl
  refine ⟨R, hR, hgood, hh, hexact, ?_⟩
  unfold chainLineOK
  simp only [Bool.and_eq_true]
  refine ⟨⟨?_, ?_⟩, ?_⟩
  · rw [beq_iff_eq]
    have := congrArg (List.map Prod.fst) hh
    simp only [List.map_map] at this ⊢
    exact this
  · rw [List.isSublist_iff_sublist, zip_report _ _ hh, ← hexact]
    unfold assemblyLine
    apply lineGo_sublist _ entry _ R [] [] (List.Sublist.refl _)
    intro r
    exact ⟨rfl, filter_flatMap_sublist bigModule (·.components) r.modules⟩
  · rw [List.all_eq_true]
    intro o ho
    obtain ⟨r, hr, rfl⟩ := List.mem_map.mp ho
    rw [List.all_eq_true]
    intro cs hcs
    obtain ⟨m, hm, rfl⟩ := List.mem_map.mp hcs
    have hm' : m ∈ r.modules := (List.mem_filter.mp hm).1
    obtain ⟨a, b, hab⟩ := comps_infix_flatMap m r.modules hm'
    have he : entry r ∈ R.map entry := List.mem_map.mpr ⟨r, hr, rfl⟩
    obtain ⟨a2, b2, hab2⟩ := lineGo_infix (R.map entry) [] (entry r) he
    rw [← hexact]
    unfold assemblyLine
    rw [hab2]
    show isInfixB m.components (a2 ++ r.modules.flatMap (·.components) ++ b2) = true
    rw [hab]
    have := isInfixB_of_append m.components (a2 ++ a) (b ++ b2)
    simpa [List.append_assoc] using this

end ASV.Modules
