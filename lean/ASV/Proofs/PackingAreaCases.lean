/-
  C19 helper lemmas, part 4: `add_area_from_feature` case by case (region simple / origin-spanning
  x feature simple / origin-spanning x kind x where the core lies).
-/
import ASV.Proofs.PackingAreas
namespace ASV.Packing
open ASV ASV.Packing.Spec

/-- close one of the numeric side goals of `good_single` / `good_pair` -/
local macro "fin" : tactic =>
  `(tactic| (simp [Area.fromFeature, Area.offset, drawRange, Feat.start, Feat.end, Feat.coreStart,
      Feat.coreEnd, Loc.start, Loc.end, Drawn.shown, expectedShown, foldS, foldE, Loc.mem, Loc.parts,
      Part.mem, minList, maxList, ringOffset, Loc.len, Part.len] <;> (try intros) <;> omega))

theorem areasOf_good_R1 {c : Ctx} {f : Feat} (hf : featOK c f = true) (h gid : Int)
    (R p : Part) (hr : c.region = .simple R) (hp : f.loc = .simple p) (hR1 : 0 ≤ R.lo) (hR3 : R.hi ≤ c.L)
    (h1 : R.lo ≤ p.lo) (h2 : p.lo < p.hi) (h3 : p.hi ≤ R.hi) :
    ∃ as, areasOf c f h gid = some as ∧ Good c f h gid as := by
  obtain ⟨region, L, circ⟩ := c
  obtain ⟨loc, kind, core, single, product⟩ := f
  simp only at hr hp hR3
  subst hr hp
  have hcr : Feat.crosses ⟨.simple p, kind, core, single, product⟩ = false := by
    simp [Feat.crosses, Loc.parts]
  have hrc : Ctx.regionCrosses ⟨.simple R, L, circ⟩ = false := by simp [Ctx.regionCrosses, Loc.parts]
  refine ⟨[Area.fromFeature ⟨.simple p, kind, core, single, product⟩ h], ?_, ?_⟩
  · simp [areasOf, hcr, hrc]
  · cases kind
    · -- protocluster: needs the core
      obtain ⟨k0, k1, k2, k3⟩ := proto_core hf rfl
      simp only at k0 k1 k2 k3
      rcases core_cases k0 k1 k2 k3 with
        ⟨p', q, hp', hq, g1, g2, g3⟩ | ⟨s, e, q, hp', _⟩ | ⟨s, e, cs, ce, hp', _⟩
      · try simp only at hp' hq
        cases hp'
        subst hq
        apply good_single <;> fin
      · simp at hp'
      · simp at hp'
    all_goals apply good_single <;> fin

/-- whole-record circular region, origin-spanning feature: two halves -/
theorem areasOf_good_R2 {c : Ctx} {f : Feat} (hf : featOK c f = true) (h gid : Int)
    (st : Strand) (s e : Int) (hr : c.region = .simple ⟨0, c.L, st⟩) (hcirc : c.circular = true)
    (hp : f.loc = .compound [⟨s, c.L, .fwd⟩, ⟨0, e, .fwd⟩]) (he1 : 0 < e) (he2 : e ≤ s) (he3 : s < c.L) :
    ∃ as, areasOf c f h gid = some as ∧ Good c f h gid as := by
  obtain ⟨region, L, circ⟩ := c
  obtain ⟨loc, kind, core, single, product⟩ := f
  simp only at hr hp hcirc he3
  subst hr hp hcirc
  have hcr : Feat.crosses ⟨.compound [⟨s, L, .fwd⟩, ⟨0, e, .fwd⟩], kind, core, single, product⟩ = true := by
    simp [Feat.crosses, Loc.parts]
  have hrc : Ctx.regionCrosses ⟨.simple ⟨0, L, st⟩, L, true⟩ = false := by simp [Ctx.regionCrosses, Loc.parts]
  have hext : Ctx.extend ⟨.simple ⟨0, L, st⟩, L, true⟩ = true := by simp [Ctx.extend, hrc]
  cases kind
  · obtain ⟨k0, k1, k2, k3⟩ := proto_core hf rfl
    simp only at k0 k1 k2 k3
    rcases core_cases k0 k1 k2 k3 with
      ⟨p', q, hp', _⟩ | ⟨s', e', q, hp', hq, g1, g2⟩ | ⟨s', e', cs, ce, hp', hq, g1, g2, g3, g4, g5⟩
    · simp at hp'
    · try simp only at hp' hq
      cases hp'
      subst hq
      rcases g2 with ⟨g2, g3⟩ | ⟨g2, g3⟩
      · have hge : s ≤ q.lo := g2
        simp [areasOf, hext, hcr, hrc, adjustCrossOrigin, Area.crossesOrigin, Area.fromFeature, Feat.start,
          Feat.end, Feat.coreStart, Feat.coreEnd, he2, hge]
        have : ¬ (q.hi ≤ q.lo) := by omega
        simp [this]
        apply good_pair <;> fin
      · have hlt : ¬ (s ≤ q.lo) := by omega
        simp [areasOf, hext, hcr, hrc, adjustCrossOrigin, Area.crossesOrigin, Area.fromFeature, Feat.start,
          Feat.end, Feat.coreStart, Feat.coreEnd, he2, hlt]
        have : ¬ (q.hi ≤ q.lo) := by omega
        simp [this]
        apply good_pair <;> fin
    · try simp only at hp' hq
      cases hp'
      subst hq
      have : ce ≤ cs := by omega
      simp [areasOf, hext, hcr, hrc, adjustCrossOrigin, Area.crossesOrigin, Area.fromFeature, Feat.start,
        Feat.end, Feat.coreStart, Feat.coreEnd, he2, this]
      apply good_pair <;> fin
  · simp [areasOf, hext, hcr, hrc, adjustCrossOrigin, Area.crossesOrigin, Area.fromFeature, Feat.start, Feat.end, he2]
    apply good_pair <;> fin
  · simp [areasOf, hext, hcr, hrc, adjustCrossOrigin, Area.crossesOrigin, Area.fromFeature, Feat.start, Feat.end, he2]
    apply good_pair <;> fin

/-- origin-spanning region, simple feature: unchanged before the origin, shifted by `L` after it -/
theorem areasOf_good_R3 {c : Ctx} {f : Feat} (hf : featOK c f = true) (h gid : Int)
    (S E : Int) (p : Part) (hr : c.region = .compound [⟨S, c.L, .fwd⟩, ⟨0, E, .fwd⟩])
    (hcirc : c.circular = true) (hE1 : 0 < E) (hE2 : E ≤ S) (hE3 : S < c.L)
    (hp : f.loc = .simple p) (h2 : p.lo < p.hi)
    (h3 : (S ≤ p.lo ∧ p.hi ≤ c.L) ∨ (0 ≤ p.lo ∧ p.hi ≤ E)) :
    ∃ as, areasOf c f h gid = some as ∧ Good c f h gid as := by
  obtain ⟨region, L, circ⟩ := c
  obtain ⟨loc, kind, core, single, product⟩ := f
  simp only at hr hp hcirc hE3 h3
  subst hr hp hcirc
  have hcr : Feat.crosses ⟨.simple p, kind, core, single, product⟩ = false := by
    simp [Feat.crosses, Loc.parts]
  have hrc : Ctx.regionCrosses ⟨.compound [⟨S, L, .fwd⟩, ⟨0, E, .fwd⟩], L, true⟩ = true := by
    simp [Ctx.regionCrosses, Loc.parts]
  have hext : Ctx.extend ⟨.compound [⟨S, L, .fwd⟩, ⟨0, E, .fwd⟩], L, true⟩ = true := by
    simp [Ctx.extend, hrc]
  have hlast : Ctx.lastPart ⟨.compound [⟨S, L, .fwd⟩, ⟨0, E, .fwd⟩], L, true⟩ = ⟨0, E, .fwd⟩ := by
    simp [Ctx.lastPart, Loc.parts]
  rcases h3 with ⟨h3, h4⟩ | ⟨h3, h4⟩
  · -- before the origin
    have hnot : ¬ (p.hi ≤ E) := by omega
    have hin : locationContainsOther (.simple ⟨0, E, .fwd⟩) (.simple p) = false := by
      simp [locationContainsOther, Loc.parts, partContains, hnot]
    refine ⟨[Area.fromFeature ⟨.simple p, kind, core, single, product⟩ h], ?_, ?_⟩
    · simp [areasOf, hcr, hext, hlast, hin]
    · cases kind
      · obtain ⟨k0, k1, k2, k3⟩ := proto_core hf rfl
        simp only at k0 k1 k2 k3
        rcases core_cases k0 k1 k2 k3 with
          ⟨p', q, hp', hq, g1, g2, g3⟩ | ⟨s, e, q, hp', _⟩ | ⟨s, e, cs, ce, hp', _⟩
        · cases hp'
          subst hq
          apply good_single <;> fin
        · simp at hp'
        · simp at hp'
      all_goals apply good_single <;> fin
  · -- after the origin
    have hin : locationContainsOther (.simple ⟨0, E, .fwd⟩) (.simple p) = true := by
      simp [locationContainsOther, Loc.parts, partContains]
      omega
    refine ⟨[(Area.fromFeature ⟨.simple p, kind, core, single, product⟩ h).offset L], ?_, ?_⟩
    · simp [areasOf, hcr, hext, hlast, hin, hrc]
    · cases kind
      · obtain ⟨k0, k1, k2, k3⟩ := proto_core hf rfl
        simp only at k0 k1 k2 k3
        rcases core_cases k0 k1 k2 k3 with
          ⟨p', q, hp', hq, g1, g2, g3⟩ | ⟨s, e, q, hp', _⟩ | ⟨s, e, cs, ce, hp', _⟩
        · cases hp'
          subst hq
          apply good_single <;> fin
        · simp at hp'
        · simp at hp'
      all_goals apply good_single <;> fin

/-- origin-spanning region, origin-spanning feature: one area continuing past `L` -/
theorem areasOf_good_R5 {c : Ctx} {f : Feat} (hf : featOK c f = true) (h gid : Int)
    (S E s e : Int) (hr : c.region = .compound [⟨S, c.L, .fwd⟩, ⟨0, E, .fwd⟩])
    (hcirc : c.circular = true) (hE1 : 0 < E) (hE2 : E ≤ S) (hE3 : S < c.L)
    (hp : f.loc = .compound [⟨s, c.L, .fwd⟩, ⟨0, e, .fwd⟩]) (he1 : 0 < e) (he2 : e ≤ s) (he3 : s < c.L)
    (hs : S ≤ s) (he : e ≤ E) :
    ∃ as, areasOf c f h gid = some as ∧ Good c f h gid as := by
  obtain ⟨region, L, circ⟩ := c
  obtain ⟨loc, kind, core, single, product⟩ := f
  simp only at hr hp hcirc hE3 he3
  subst hr hp hcirc
  have hcr : Feat.crosses ⟨.compound [⟨s, L, .fwd⟩, ⟨0, e, .fwd⟩], kind, core, single, product⟩ = true := by
    simp [Feat.crosses, Loc.parts]
  have hrc : Ctx.regionCrosses ⟨.compound [⟨S, L, .fwd⟩, ⟨0, E, .fwd⟩], L, true⟩ = true := by
    simp [Ctx.regionCrosses, Loc.parts]
  have hext : Ctx.extend ⟨.compound [⟨S, L, .fwd⟩, ⟨0, E, .fwd⟩], L, true⟩ = true := by
    simp [Ctx.extend, hrc]
  cases kind
  · obtain ⟨k0, k1, k2, k3⟩ := proto_core hf rfl
    simp only at k0 k1 k2 k3
    rcases core_cases k0 k1 k2 k3 with
      ⟨p', q, hp', _⟩ | ⟨s', e', q, hp', hq, g1, g2⟩ | ⟨s', e', cs, ce, hp', hq, g1, g2, g3, g4, g5⟩
    · simp at hp'
    · cases hp'
      subst hq
      rcases g2 with ⟨g2, g3⟩ | ⟨g2, g3⟩
      · have hge : s ≤ q.lo := g2
        simp [areasOf, hext, hcr, hrc, adjustCrossOrigin, Area.crossesOrigin, Area.fromFeature, Feat.start,
          Feat.end, Feat.coreStart, Feat.coreEnd, he2, hge]
        have : ¬ (q.hi ≤ q.lo) := by omega
        simp [this]
        apply good_single <;> fin
      · have hlt : ¬ (s ≤ q.lo) := by omega
        simp [areasOf, hext, hcr, hrc, adjustCrossOrigin, Area.crossesOrigin, Area.fromFeature, Feat.start,
          Feat.end, Feat.coreStart, Feat.coreEnd, he2, hlt]
        have : ¬ (q.hi ≤ q.lo) := by omega
        simp [this]
        apply good_single <;> fin
    · cases hp'
      subst hq
      have : ce ≤ cs := by omega
      simp [areasOf, hext, hcr, hrc, adjustCrossOrigin, Area.crossesOrigin, Area.fromFeature, Feat.start,
        Feat.end, Feat.coreStart, Feat.coreEnd, he2, this]
      apply good_single <;> fin
  · simp [areasOf, hext, hcr, hrc, adjustCrossOrigin, Area.crossesOrigin, Area.fromFeature, Feat.start, Feat.end, he2]
    apply good_single <;> fin
  · simp [areasOf, hext, hcr, hrc, adjustCrossOrigin, Area.crossesOrigin, Area.fromFeature, Feat.start, Feat.end, he2]
    apply good_single <;> fin

/-- every well-formed feature of a well-formed region is converted without error into areas that
    are in range, at the requested height, cover only bases of the feature and read back as
    exactly that feature -/
theorem areasOf_good {c : Ctx} {f : Feat} (hc : regionOK c = true) (hf : featOK c f = true)
    (h gid : Int) : ∃ as, areasOf c f h gid = some as ∧ Good c f h gid as := by
  rcases shape_cases hc hf with ⟨R, p, hr, hp, h1, h2, h3, h4, h5⟩ |
      ⟨st, s, e, hr, hci, hp, h1, h2, h3⟩ |
      ⟨S, E, p, hr, hci, h1, h2, h3, hp, h4, h5⟩ |
      ⟨S, E, s, e, hr, hci, h1, h2, h3, hp, h4, h5, h6, h7, h8⟩
  · exact areasOf_good_R1 hf h gid R p hr hp h1 h2 h3 h4 h5
  · exact areasOf_good_R2 hf h gid st s e hr hci hp h1 h2 h3
  · exact areasOf_good_R3 hf h gid S E p hr hci h1 h2 h3 hp h4 h5
  · exact areasOf_good_R5 hf h gid S E s e hr hci h1 h2 h3 hp h4 h5 h6 h7 h8

end ASV.Packing
