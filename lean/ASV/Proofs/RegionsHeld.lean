/-
  C06 helper lemmas, part 8: no stale parent link for any object whatsoever (held references included),
  after any history.
-/
import ASV.Proofs.RegionsInv
namespace ASV.Regions
open ASV

/-- every parent link held by any object whatsoever — in the record's lists or merely referenced from
    outside after a `clear_*` — names a region of the record that lists the object, or a candidate cluster
    (of the record, or constructed and not stored) that lists it.  Nothing points at a region or candidate
    cluster that is gone. -/
def ParentsLive (s : State) : Prop :=
  ∀ k p, s.parentOf k = some p →
    (∃ r ∈ s.regions, r.id = p ∧ k ∈ r.kids ++ r.subs) ∨ (∃ c ∈ s.cands ++ s.pool, c.id = p ∧ k ∈ c.kids)

theorem mkAddRegion_live {s s1 s2 : State} {cands subs : List Feat} {r : Feat} (hp : ParentsLive s)
    (hmk : mkRegion s cands subs = .ok (s1, r)) (hadd : addRegion s1 r = .ok s2) :
    ParentsLive s2 ∧ s2.cands = s.cands ∧ s2.pool = s.pool := by
  obtain ⟨hrid, hrk, hrs, _, rfl⟩ := mkRegion_ok hmk
  obtain ⟨index, hle, hno, rfl⟩ := addRegion_ok hadd
  refine ⟨?_, rfl, rfl⟩
  intro k p hk
  have hpar : (((subs ++ cands).foldl (fun d c => d.set c.id (some s.nextRid)) s.parent).get k).join
      = if k ∈ ids (subs ++ cands) then some s.nextRid else s.parentOf k := parentOf_foldl s (subs ++ cands) s.nextRid k
  simp only [State.parentOf] at hk
  rw [hpar] at hk
  have hmem : ∀ x, x ∈ insertAt s.regions index ({ r with cdses := cdsWithin s.cds r.loc } : Feat) ↔
      x = { r with cdses := cdsWithin s.cds r.loc } ∨ x ∈ s.regions := by
    intro x; rw [(insertAt_perm _ _ _).mem_iff]; simp
  by_cases hm : k ∈ ids (subs ++ cands)
  · rw [if_pos hm] at hk
    simp only [Option.some.injEq] at hk
    left
    refine ⟨{ r with cdses := cdsWithin s.cds r.loc }, (hmem _).2 (Or.inl rfl), by simp only [hrid, hk], ?_⟩
    simp only [hrk, hrs]
    simp only [ids_append, List.mem_append] at hm ⊢
    exact hm.symm
  · rw [if_neg hm] at hk
    rcases hp k p hk with ⟨x, hx, e1, e2⟩ | h
    · exact Or.inl ⟨x, (hmem x).2 (Or.inr hx), e1, e2⟩
    · exact Or.inr h

theorem addSections_live {s s' : State} {secs : List Sec} (hp : ParentsLive s) (h : addSections s secs = .ok s') :
    ParentsLive s' := by
  induction secs generalizing s with
  | nil => simp only [addSections, pure, Except.pure, Except.ok.injEq] at h; subst h; exact hp
  | cons sec secs ih =>
    obtain ⟨l, areas⟩ := sec
    rw [addSections_cons'] at h
    simp only [bind, Except.bind] at h
    split at h
    · cases h
    · next v hmk =>
      obtain ⟨s1, r⟩ := v
      simp only at h
      split at h
      · cases h
      · next s2 hadd => exact ih (mkAddRegion_live hp hmk hadd).1 h

theorem createRegionsOf_live {s s' : State} {cands subs : List Feat} (hp : ParentsLive s)
    (h : createRegionsOf s cands subs = .ok s') : ParentsLive s' := by
  simp only [createRegionsOf] at h
  split at h
  · simp only [pure, Except.pure, Except.ok.injEq] at h; subst h; exact hp
  · simp only [bind, Except.bind] at h
    split at h
    · cases h
    · exact addSections_live hp h

theorem clearRegions_live {s : State} (hp : ParentsLive s) : ParentsLive (clearRegions s) := by
  intro k p hk
  rw [clearRegions_parentOf] at hk
  split at hk
  · cases hk
  · next hn =>
    rcases hp k p hk with ⟨r, hr, _, e2⟩ | h
    · exact absurd ⟨r, hr, e2⟩ hn
    · exact Or.inr h

theorem dropCands_live {s : State} (hp : ParentsLive s) :
    ParentsLive { s with cands := [], parent := s.cands.foldl (fun acc c => setNone acc c.kids) s.parent } := by
  intro k p hk
  have hpar : (((s.cands.foldl (fun acc c => setNone acc c.kids) s.parent).get k).join)
      = if ∃ c ∈ s.cands, k ∈ c.kids then none else s.parentOf k := by
    rw [clearKids_get]
    split <;> rfl
  simp only [State.parentOf] at hk
  rw [hpar] at hk
  split at hk
  · cases hk
  · next hn =>
    rcases hp k p hk with h | ⟨c, hc, e1, e2⟩
    · exact Or.inl h
    · rcases List.mem_append.1 hc with h1 | h1
      · exact absurd ⟨c, h1, e2⟩ hn
      · exact Or.inr ⟨c, by simp [h1], e1, e2⟩

theorem clearCandidates_live {s s' : State} (hp : ParentsLive s) (h : clearCandidates s = .ok s') : ParentsLive s' := by
  simp only [clearCandidates] at h
  split at h
  · exact createRegionsOf_live (clearRegions_live (dropCands_live hp)) h
  · simp only [pure, Except.pure, Except.ok.injEq] at h
    subst h
    exact dropCands_live hp

/-- every operation keeps all parent links alive -/
theorem step_live {s s' : State} (op : Op) (hi : Inv s) (hp : ParentsLive s) (h : step s op = .ok s') :
    ParentsLive s' := by
  cases op with
  | addProto loc =>
    obtain ⟨l, d, _, rfl⟩ := addProtocluster_ok h
    exact hp
  | addSub loc =>
    obtain ⟨l, d, _, rfl⟩ := addSubregion_ok h
    exact hp
  | mkCand pids =>
    simp only [step, bind, Except.bind, pure, Except.pure] at h
    split at h
    · cases h
    · next v hv =>
      obtain ⟨s1, c⟩ := v
      simp only [Except.ok.injEq] at h
      obtain ⟨ps, hps, hpm, hcid, hck, _, rfl⟩ := mkCand_ok hv
      subst h
      intro k p hk
      simp only [State.parentOf] at hk
      rw [parentOf_foldl s ps s.nextId k] at hk
      by_cases hm : k ∈ ids ps
      · rw [if_pos hm] at hk
        simp only [Option.some.injEq] at hk
        exact Or.inr ⟨c, by simp, by rw [hcid, hk], by rw [hck, ← hps]; exact hm⟩
      · rw [if_neg hm] at hk
        rcases hp k p hk with h | ⟨c', hc', e1, e2⟩
        · exact Or.inl h
        · refine Or.inr ⟨c', ?_, e1, e2⟩
          simp only [List.mem_append] at hc' ⊢
          rcases hc' with h1 | h1
          · exact Or.inl h1
          · exact Or.inr (Or.inl h1)
  | addCand id =>
    obtain ⟨x, l, d, hx, hins, rfl⟩ := addCandidate_ok h
    have hnp := nodup_parts hi
    have hxp := findId_some hx
    have hpool := pool_split hnp.2.2.2.1 hx
    obtain ⟨index, _, rfl, _⟩ := insertSortedWith_ok (lt := fun y => collectionLt y.loc x.loc) hins
    intro k p hk
    rcases hp k p hk with h | ⟨c, hc, e1, e2⟩
    · exact Or.inl h
    · refine Or.inr ⟨c, ?_, e1, e2⟩
      simp only [List.mem_append, (insertAt_perm _ _ _).mem_iff, List.mem_cons] at hc ⊢
      rcases hc with h1 | h1
      · exact Or.inl (Or.inr h1)
      · rcases List.mem_cons.1 (hpool.mem_iff.1 h1) with rfl | h2
        · exact Or.inl (Or.inl rfl)
        · exact Or.inr h2
  | reparent pids cid =>
    simp only [step] at h
    split at h
    · cases h
    · next c hc =>
      simp only [bind, Except.bind, pure, Except.pure] at h
      split at h
      · cases h
      · next ps hps =>
        split at h
        · cases h
        · next hall =>
          split at h
          · cases h
          · next par hpar =>
            simp only [Except.ok.injEq] at h
            subst h
            have hcm := findId_some hc
            have hfa := findAll_ok hps
            intro k p hk
            simp only [State.parentOf] at hk
            rw [setParents_eq hpar, parentOf_foldl s ps c.id k] at hk
            by_cases hm : k ∈ ids ps
            · rw [if_pos hm] at hk
              simp only [Option.some.injEq] at hk
              refine Or.inr ⟨c, hcm.1, hk, ?_⟩
              rw [hfa.1] at hm
              have : (pids.all fun k => c.kids.contains k) = true := by simpa using hall
              simpa using List.all_eq_true.1 this k hm
            · rw [if_neg hm] at hk
              exact hp k p hk
  | addRegion cs ss =>
    simp only [step, bind, Except.bind] at h
    split at h
    · cases h
    · split at h
      · cases h
      · split at h
        · cases h
        · next v hmk =>
          obtain ⟨s1, r⟩ := v
          exact (mkAddRegion_live hp hmk h).1
  | createRegionsWith cs ss =>
    simp only [step, bind, Except.bind] at h
    split at h
    · cases h
    · split at h
      · cases h
      · split at h
        · cases h
        · exact createRegionsOf_live hp h
  | clearProtos =>
    have h' : clearCandidates { s with protos := [] } = .ok s' := h
    exact clearCandidates_live (s := { s with protos := [] }) hp h'
  | clearCands => exact clearCandidates_live hp h
  | clearSubs =>
    simp only [step, clearSubregions] at h
    split at h
    · exact createRegionsOf_live (clearRegions_live (s := { s with subs := [] }) hp) h
    · simp only [pure, Except.pure, Except.ok.injEq] at h
      subst h
      exact hp
  | clearRegions =>
    simp only [step, pure, Except.pure, Except.ok.injEq] at h
    subst h
    exact clearRegions_live hp
  | createRegions => exact createRegionsOf_live hp h

/-- … and so does every history -/
theorem run_live {s s' : State} (ops : List Op) (hi : Inv s) (hp : ParentsLive s) (h : run s ops = .ok s') :
    ParentsLive s' := by
  induction ops generalizing s with
  | nil => simp only [run, pure, Except.pure, Except.ok.injEq] at h; subst h; exact hp
  | cons op ops ih =>
    simp only [run, bind, Except.bind] at h
    split at h
    · cases h
    · next s1 hs1 => exact ih (step_inv op hi hs1) (step_live op hi hp hs1) h

theorem init_live (len : Int) (circ : Bool) (cds : List Loc) : ParentsLive { len := len, circular := circ, cds := cds } := by
  intro k p hk
  simp [State.parentOf, Dict.get] at hk

end ASV.Regions
