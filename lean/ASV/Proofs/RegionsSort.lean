/-
  C06 helper lemmas, part 1: the comparison of well-formed areas is the lexicographic order of
  their sort key; the stable insertion sort and `bisect_left` of the model, run with a pure
  comparison, are their textbook versions (permutation, sortedness, insertion point).
-/
import ASV.Proofs.LocOrder
import ASV.Model.Regions
namespace ASV.Regions
open ASV

theorem keyLt_iff (a b : Int × Int) : keyLt a b = true ↔ a.1 < b.1 ∨ (a.1 = b.1 ∧ a.2 < b.2) := by
  simp [keyLt]

theorem keyLt_false_iff (a b : Int × Int) : keyLt a b = false ↔ b.1 < a.1 ∨ (a.1 = b.1 ∧ b.2 ≤ a.2) := by
  rw [← Bool.not_eq_true, keyLt_iff]; omega

/-! ### areas on a linear record -/

/-- a single non-empty part inside the record -/
def LineArea (len : Int) (l : Loc) : Prop := ∃ p, l = .simple p ∧ 0 ≤ p.lo ∧ p.lo < p.hi ∧ p.hi ≤ len

/-- the sort key of `CDSCollection.__lt__` for a location that does not span the origin -/
def lineKey (l : Loc) : Int × Int := (l.start, -l.len)

theorem collectionLt_line {len : Int} {a b : Loc} (ha : LineArea len a) (hb : LineArea len b) :
    collectionLt a b = .ok (keyLt (lineKey a) (lineKey b)) := by
  obtain ⟨p, rfl, hp0, hp1, hp2⟩ := ha
  obtain ⟨q, rfl, hq0, hq1, hq2⟩ := hb
  simp only [collectionLt, locationContainsOther, Loc.parts, List.all_cons, List.all_nil, List.any_cons, List.any_nil,
    partContains, comparatorStart, bridgesOrigin, Bool.or_false, Bool.and_true, Bool.false_eq_true, if_false,
    bind, Except.bind, pure, Except.pure]
  split
  · next h =>
    simp only [Bool.and_eq_true, decide_eq_true_eq, Bool.not_eq_true', Bool.and_eq_false_iff, decide_eq_false_iff_not] at h
    congr 1
    symm
    rw [keyLt_iff]
    simp only [lineKey, Loc.start, Loc.len, Loc.parts, Part.len, List.map, List.sum_cons, List.sum_nil]
    omega
  · congr 1

/-! ### pure insertion sort -/

def insertP (lt : Feat → Feat → Bool) (x : Feat) : List Feat → List Feat
  | [] => [x]
  | y :: ys => if lt y x then y :: insertP lt x ys else x :: y :: ys

def sortP (lt : Feat → Feat → Bool) : List Feat → List Feat
  | [] => []
  | x :: xs => insertP lt x (sortP lt xs)

theorem insertP_perm (lt : Feat → Feat → Bool) (x : Feat) (l : List Feat) : (insertP lt x l).Perm (x :: l) := by
  induction l with
  | nil => simp [insertP]
  | cons y ys ih =>
    simp only [insertP]
    split
    · exact (List.Perm.cons y ih).trans (List.Perm.swap x y ys)
    · exact List.Perm.refl _

theorem sortP_perm (lt : Feat → Feat → Bool) (l : List Feat) : (sortP lt l).Perm l := by
  induction l with
  | nil => simp [sortP]
  | cons x xs ih => exact (insertP_perm lt x _).trans (List.Perm.cons x ih)

theorem insertArea_eq (lt : Feat → Feat → Bool) (x : Feat) (l : List Feat)
    (h : ∀ y ∈ l, collectionLt y.loc x.loc = .ok (lt y x)) : insertArea x l = .ok (insertP lt x l) := by
  induction l with
  | nil => rfl
  | cons y ys ih =>
    simp only [insertArea, insertP, h y (by simp), bind, Except.bind]
    split
    · rw [ih (fun z hz => h z (by simp [hz]))]; rfl
    · rfl

theorem sortAreas_eq (lt : Feat → Feat → Bool) (l : List Feat)
    (h : ∀ x ∈ l, ∀ y ∈ l, collectionLt y.loc x.loc = .ok (lt y x)) : sortAreas l = .ok (sortP lt l) := by
  induction l with
  | nil => rfl
  | cons x xs ih =>
    simp only [sortAreas, sortP, bind, Except.bind]
    rw [ih (fun a ha b hb => h a (by simp [ha]) b (by simp [hb]))]
    simp only
    exact insertArea_eq lt x _ (fun y hy => h x (by simp) y (by simp [(sortP_perm lt xs).mem_iff.1 hy]))

/-- a comparison that is the strict order of a key -/
def KeyOrder (key : Feat → Int × Int) (lt : Feat → Feat → Bool) : Prop := ∀ a b, lt a b = keyLt (key a) (key b)

/-- sorted by key (non-strictly) -/
def SortedBy (key : Feat → Int × Int) (l : List Feat) : Prop := l.Pairwise (fun a b => keyLt (key b) (key a) = false)

theorem insertP_sorted {key : Feat → Int × Int} {lt : Feat → Feat → Bool} (hk : KeyOrder key lt) (x : Feat) (l : List Feat)
    (hs : SortedBy key l) : SortedBy key (insertP lt x l) := by
  induction l with
  | nil => simp [insertP, SortedBy]
  | cons y ys ih =>
    have hs' := List.pairwise_cons.1 hs
    simp only [insertP]
    split
    · next hlt =>
      rw [hk] at hlt
      refine List.pairwise_cons.2 ⟨?_, ih hs'.2⟩
      intro z hz
      have hz' := (insertP_perm lt x ys).mem_iff.1 hz
      simp only [List.mem_cons] at hz'
      rcases hz' with rfl | hz'
      · rw [keyLt_iff] at hlt; rw [keyLt_false_iff]; omega
      · exact hs'.1 z hz'
    · next hnlt =>
      rw [hk, Bool.not_eq_true] at hnlt
      refine List.pairwise_cons.2 ⟨?_, hs⟩
      intro z hz
      simp only [List.mem_cons] at hz
      rcases hz with rfl | hz
      · exact hnlt
      · have := hs'.1 z hz
        rw [keyLt_false_iff] at *
        omega

theorem sortP_sorted {key : Feat → Int × Int} {lt : Feat → Feat → Bool} (hk : KeyOrder key lt) (l : List Feat) :
    SortedBy key (sortP lt l) := by
  induction l with
  | nil => simp [sortP, SortedBy]
  | cons x xs ih => exact insertP_sorted hk x _ ih

end ASV.Regions
