/-
  C05: the interleaved pass on a circular record — the group added by the origin-crossing step
  consists of protoclusters that are linked by chains of units with overlapping cores, so the
  interleaved groups are exactly the chain classes of "cores overlap" on every record.
-/
import ASV.Proofs.RingFacts
set_option linter.unusedSectionVars false
set_option linter.unusedVariables false
namespace ASV.CC
open ASV.CC.Spec

theorem linked_symm {α : Type} {G : List (List α)} {a b : α} (h : Linked G a b) : Linked G b a := by
  induction h with
  | base hg ha hb => exact Linked.base hg hb ha
  | trans _ _ ih1 ih2 => exact Linked.trans ih2 ih1

/-- chains are kept when every set of the first family is chain-connected in the second -/
theorem linked_of_conn {α : Type} {G1 G2 : List (List α)}
    (h : ∀ g, g ∈ G1 → ∀ a b, a ∈ g → b ∈ g → Linked G2 a b) {a b : α} (hl : Linked G1 a b) : Linked G2 a b := by
  induction hl with
  | base hg ha hb => exact h _ hg _ _ ha hb
  | trans _ _ ih1 ih2 => exact Linked.trans ih1 ih2

theorem connect_nil (wrap : Option Int) : connect [] wrap = .error "value-error" := by
  simp [connect, connectLocations, bind, Except.bind, throw, throwThe, MonadExceptOf.throw]

/-- on a linear record there is no origin-crossing group -/
theorem crossGroup_none {cc : List CandC} {clusters : List Proto} {wrap : Option Int} {g : List Proto}
    (hno : ∀ x, x ∈ cc → twoParts x.2 = false) (h : CrossGroup cc clusters wrap g) : False := by
  obtain ⟨core, _, hc, _⟩ := h
  have : (cc.filter fun c => twoParts c.2) = [] := by
    rw [List.filter_eq_nil_iff]; intro x hx; simp [hno x hx]
  rw [this, List.map_nil, connect_nil] at hc
  cases hc

/-- the combined core of a candidate on a ring -/
theorem candCore_ring {L : Int} (hL : 0 < L) {c : Cand} {k : Loc} (hne : c.members ≠ [])
    (hin : ∀ m, m ∈ c.members → RingIn L m.core) (h : candCore (some L) c = .ok k) :
    areaWF L L k = true ∧ Shaped L k := by
  obtain ⟨r, hr, hwf, hsh, _⟩ := connect_ring_ok (c.members.map (·.core)) L (by simpa using hne) hL
    (fun l hl => by obtain ⟨m, hm, e⟩ := List.mem_map.1 hl; rw [← e]; exact hin m hm)
  simp only [candCore] at h
  rw [hr] at h
  injection h with h
  subst h
  exact ⟨hwf, hsh⟩

theorem withCores_snd {wrap : Option Int} {cands : List Cand} {cc : List CandC} (h : withCores wrap cands = .ok cc) :
    ∀ x, x ∈ cc → candCore wrap x.1 = .ok x.2 := by
  induction cands generalizing cc with
  | nil => simp only [withCores] at h; injection h with h; subst h; intro x hx; cases hx
  | cons c cs ih =>
    simp only [withCores] at h
    split at h
    · cases h
    · rename_i k hk
      split at h
      · cases h
      · rename_i r hr
        injection h with h; subst h
        intro x hx
        rcases List.mem_cons.1 hx with e | e
        · subst e; exact hk
        · exact ih hr x e

/-- the group of the origin-crossing step is chain-connected by overlapping cores -/
theorem crossGroup_linked {L : Int} (hL : 0 < L) {clusters : List Proto} {cands : List Cand} {cc : List CandC}
    (hcc : withCores (some L) cands = .ok cc)
    (hcv : ∀ c, c ∈ cands → c.members ≠ [] ∧ ∀ m, m ∈ c.members → RingIn L m.core)
    (hne : ∀ p, p ∈ clusters → p.core.PartsNonEmpty)
    {g : List Proto} (h : CrossGroup cc clusters (some L) g) :
    ∀ a b, a ∈ g → b ∈ g → Linked (overlapGroups (interleaveUnits clusters cc)) a b := by
  obtain ⟨core, u0, hcore, hu0c, hu0o, hu0g, helem⟩ := h
  -- every origin-spanning combined core is an origin-spanning span
  have htwo : ∀ x, x ∈ cc → twoParts x.2 = true → TwoArea L x.2 := by
    intro x hx h2
    have hc := hcv x.1 (withCores_fst hcc x hx)
    obtain ⟨hwf, hsh⟩ := candCore_ring hL hc.1 hc.2 (withCores_snd hcc x hx)
    exact twoParts_twoArea hsh hwf h2
  have hmemne : ∀ x, x ∈ cc → x.1.members ≠ [] := fun x hx => (hcv x.1 (withCores_fst hcc x hx)).1
  -- overlapping the connected span means overlapping one of the spans
  have hcross : ∀ u : Proto, u ∈ clusters → locationsOverlap u.core core = true →
      ∃ x, x ∈ cc ∧ twoParts x.2 = true ∧ locationsOverlap x.2 u.core = true := by
    intro u hu ho
    have hls : ∀ l, l ∈ (cc.filter fun c => twoParts c.2).map (·.2) → TwoArea L l := by
      intro l hl
      obtain ⟨x, hx, e⟩ := List.mem_map.1 hl
      rw [← e]
      exact htwo x (List.mem_filter.1 hx).1 (List.mem_filter.1 hx).2
    have hnel : (cc.filter fun c => twoParts c.2).map (·.2) ≠ [] := by
      intro e; rw [e, connect_nil] at hcore; cases hcore
    obtain ⟨r, hr, hunion⟩ := connect_twoAreas_union _ L hnel hL hls
    rw [hcore] at hr
    injection hr with hr
    subst hr
    -- a shared base lies in one of the spans
    have hcne : core.PartsNonEmpty := by
      obtain ⟨r', hr', hwf, hsh, _⟩ := connect_ring_ok _ L hnel hL (fun l hl => (twoArea_strict (hls l hl)).ringIn)
      rw [hcore] at hr'; injection hr' with hr'; subst hr'
      rcases hsh with ⟨p, rfl⟩ | ⟨a, b, rfl⟩
      · simp only [areaWF, Loc.parts, Bool.and_eq_true, decide_eq_true_eq] at hwf
        intro q hq; simp only [Loc.parts, List.mem_singleton] at hq; subst hq; omega
      · simp only [areaWF, Loc.parts, Bool.and_eq_true, decide_eq_true_eq] at hwf
        intro q hq
        simp only [Loc.parts, List.mem_cons, List.mem_nil_iff, or_false] at hq
        rcases hq with rfl | rfl <;> simp <;> omega
    obtain ⟨i, hiu, hic⟩ := (locationsOverlap_iff u.core core (hne u hu) hcne).1 ho
    obtain ⟨l, hl, hil⟩ := hunion i hic
    obtain ⟨x, hx, e⟩ := List.mem_map.1 hl
    refine ⟨x, (List.mem_filter.1 hx).1, (List.mem_filter.1 hx).2, ?_⟩
    rw [e]
    exact (locationsOverlap_iff l u.core (twoArea_nonEmpty (hls l hl)) (hne u hu)).2 ⟨i, hil, hiu⟩
  -- candidate unit + protocluster unit with overlapping cores: one set of the spec family
  have hcu : ∀ (x : CandC) (u : Proto), x ∈ cc → u ∈ clusters → locationsOverlap x.2 u.core = true →
      (x.1.members ++ [u]) ∈ overlapGroups (interleaveUnits clusters cc) := by
    intro x u hx hu ho
    refine mem_overlapGroups.2 ⟨⟨x.1.members, x.2⟩, ⟨[u], u.core⟩, ?_, ho, rfl⟩
    exact before_append.2 (Or.inr (Or.inl ⟨List.mem_map.2 ⟨x, hx, rfl⟩, List.mem_map.2 ⟨u, hu, rfl⟩⟩))
  -- two different origin-spanning candidates: one set of the spec family contains both
  have hxx : ∀ (x y : CandC), x ∈ cc → y ∈ cc → twoParts x.2 = true → twoParts y.2 = true → x ≠ y →
      ∀ a b, a ∈ x.1.members → b ∈ y.1.members → Linked (overlapGroups (interleaveUnits clusters cc)) a b := by
    intro x y hx hy h2x h2y hxy a b ha hb
    have ho := twoArea_overlap (htwo x hx h2x) (htwo y hy h2y)
    rcases before_total hx hy hxy with hbf | hbf
    · refine Linked.base (g := x.1.members ++ y.1.members) (mem_overlapGroups.2 ⟨⟨x.1.members, x.2⟩, ⟨y.1.members, y.2⟩, ?_, ho, rfl⟩)
        (List.mem_append.2 (Or.inl ha)) (List.mem_append.2 (Or.inr hb))
      exact before_append.2 (Or.inl (before_map (fun x : CandC => (⟨x.1.members, x.2⟩ : U)) hbf))
    · refine Linked.base (g := y.1.members ++ x.1.members) (mem_overlapGroups.2 ⟨⟨y.1.members, y.2⟩, ⟨x.1.members, x.2⟩, ?_,
          (by rw [locationsOverlap_comm]; exact ho), rfl⟩)
        (List.mem_append.2 (Or.inr ha)) (List.mem_append.2 (Or.inl hb))
      exact before_append.2 (Or.inl (before_map (fun x : CandC => (⟨x.1.members, x.2⟩ : U)) hbf))
  -- the anchor: `u0` and an origin-spanning candidate `x0` it overlaps
  obtain ⟨x0, hx0, h2x0, hox0⟩ := hcross u0 hu0c hu0o
  have hG0 := hcu x0 u0 hx0 hu0c hox0
  -- every member of an origin-spanning candidate is linked to `u0`
  have hmem_u0 : ∀ (x : CandC), x ∈ cc → twoParts x.2 = true → ∀ e, e ∈ x.1.members →
      Linked (overlapGroups (interleaveUnits clusters cc)) e u0 := by
    intro x hx h2x e he
    by_cases hxe : x = x0
    · subst hxe
      exact Linked.base hG0 (List.mem_append.2 (Or.inl he)) (List.mem_append.2 (Or.inr (by simp)))
    · obtain ⟨m0, hm0⟩ := List.exists_mem_of_ne_nil _ (hmemne x0 hx0)
      exact Linked.trans (hxx x x0 hx hx0 h2x h2x0 hxe e m0 he hm0)
        (Linked.base hG0 (List.mem_append.2 (Or.inl hm0)) (List.mem_append.2 (Or.inr (by simp))))
  have hall : ∀ e, e ∈ g → Linked (overlapGroups (interleaveUnits clusters cc)) e u0 := by
    intro e he
    rcases helem e he with ⟨x, hx, h2x, hex⟩ | ⟨hec, heo⟩
    · exact hmem_u0 x hx h2x e hex
    · obtain ⟨x, hx, h2x, hox⟩ := hcross e hec heo
      obtain ⟨m, hm⟩ := List.exists_mem_of_ne_nil _ (hmemne x hx)
      exact Linked.trans
        (Linked.base (hcu x e hx hec hox) (List.mem_append.2 (Or.inr (by simp))) (List.mem_append.2 (Or.inl hm)))
        (hmem_u0 x hx h2x m hm)
  intro a b ha hb
  exact Linked.trans (hall a ha) (linked_symm (hall b hb))

/-- the interleaved groups of any record are exactly the chain classes of "cores overlap" -/
theorem findInterleaved_classes_ring {L : Int} (hL : 0 < L) {clusters : List Proto} {cands : List Cand} {cc : List CandC}
    {ig : List (List Proto)} {un : List Proto} (h : findInterleaved clusters cands (some L) = .ok (ig, un))
    (hcc : withCores (some L) cands = .ok cc) (hn : clusters.Nodup) (hne : ∀ p, p ∈ clusters → p.core.PartsNonEmpty)
    (hcv : ∀ c, c ∈ cands → c.members ≠ [] ∧ ∀ m, m ∈ c.members → RingIn L m.core) :
    ∀ a b, (∃ r, r ∈ ig ∧ a ∈ r ∧ b ∈ r) ↔ Linked (overlapGroups (interleaveUnits clusters cc)) a b := by
  obtain ⟨G, hG, h1, h2⟩ := findInterleaved_groups h hcc hn hne
  intro a b
  rw [hG, mergeSets_linked]
  refine ⟨linked_of_conn ?_, linked_of_cover h1⟩
  intro g hg x y hx hy
  rcases h2 g hg with ⟨g', hg', hsub⟩ | hcross
  · exact Linked.base hg' (hsub x hx) (hsub y hy)
  · exact crossGroup_linked hL hcc hcv hne hcross x y hx hy

end ASV.CC
