/-
  C03 helper lemmas for circular records: when the anchoring genes of a rule lie in an arc `[A, B)`
  that stays at least the rule's distances away from the origin and spans at most half of the
  record, `find_protoclusters` computes on the ring exactly what it computes on a line.
-/
import ASV.Proofs.ProtoRules
import ASV.Proofs.LocConnectRingIn
import ASV.Proofs.LocExtend
namespace ASV.Proto
open ASV ASV.ChainSweep ASV.Chains

/-! ### `connect_locations` on a ring for locations in an arc shorter than half the ring -/

theorem connect_ring_nowrap (ls : List Loc) (L : Int) (hne : ls ≠ []) (hL : 0 < L)
    (h : ∀ l ∈ ls, l.parts ≠ [] ∧ bridgesOrigin l = false) (hpos : ∀ l ∈ ls, l.start < l.end)
    (hno : ∀ f ∈ ls, ∀ s ∈ ls, ¬ (s.start - f.end > L / 2)) :
    connect ls (some L) = .ok (.simple ⟨minList (ls.map (·.start)), maxList (ls.map (·.end)), commonStrand ls⟩) := by
  have hany : ls.any bridgesOrigin = false := by
    rw [List.any_eq_false]; intro l hl; simp [(h l hl).2]
  have hred := mapM_reduce ls (some L) h
  have hmap : ls.map Loc.span = (ls.map fun l => (⟨l.start, l.end, l.strand⟩ : Part)).map Loc.simple := by
    rw [List.map_map]; rfl
  rw [hmap] at hred
  have hw : isWrappingShorter ((ls.map fun l => (⟨l.start, l.end, l.strand⟩ : Part)).map Loc.simple) L = false := by
    apply nowrap_simples _ L hL
    · intro q hq
      obtain ⟨l, hl, rfl⟩ := List.mem_map.1 hq
      exact hpos l hl
    · intro f hf s hs _
      obtain ⟨lf, hlf, rfl⟩ := List.mem_map.1 hf
      obtain ⟨l2, hl2, rfl⟩ := List.mem_map.1 hs
      exact hno lf hlf l2 hl2
  have := connectLocations_A_nowrap 3 ls L _ hne (by simpa using hne) hL hred hany hw
  show connectLocations 4 ls (some L) = _
  rw [this, ← hmap]
  have e1 : (ls.map Loc.span).map (·.start) = ls.map (·.start) := by rw [List.map_map]; rfl
  have e2 : (ls.map Loc.span).map (·.end) = ls.map (·.end) := by rw [List.map_map]; rfl
  simp only [hullOf, commonStrand_span, e1, e2]

/-- a gene inside the arc `[A, B)` -/
structure GeneIn (len A B : Int) (l : Loc) : Prop where
  ok : GeneOK len l
  lo : A ≤ l.start
  hi : l.end ≤ B

/-- the arc: `d` away from both ends of the coordinate range and at most half of the record -/
structure InnerArc (L d A B : Int) : Prop where
  dpos : 0 ≤ d
  left : d ≤ A
  right : B + d ≤ L
  half : 2 * (B - A) ≤ L

theorem InnerArc.Lpos {L d A B : Int} (h : InnerArc L d A B) (hab : A < B) : 0 < L := by
  have := h.dpos; have := h.left; have := h.right; omega

theorem connect_gene_ring (L A B d : Int) (harc : InnerArc L d A B) (cds : Loc) (h : GeneIn L A B cds) :
    connect [cds] (some L) = .ok (.simple ⟨cds.start, cds.end, cds.strand⟩) := by
  have hlt := h.ok.start_lt_end
  have hL : 0 < L := harc.Lpos (by have := h.lo; have := h.hi; omega)
  rw [connect_ring_nowrap [cds] L (by simp) hL (by intro l hl; simp at hl; subst hl; exact ⟨h.ok.ne, h.ok.nb⟩)
    (by intro l hl; simp at hl; subst hl; exact hlt)
    (by intro f hf s hs; simp at hf hs; subst hf; subst hs; have := harc.half; have := h.lo; have := h.hi; omega)]
  simp [minList, maxList, commonStrand]

theorem connect_pair_ring (L A B d : Int) (harc : InnerArc L d A B) (p : Part) (hp0 : A ≤ p.lo) (hp1 : p.lo < p.hi)
    (hp2 : p.hi ≤ B) (cds : Loc) (h : GeneIn L A B cds) :
    ∃ s, connect [Loc.simple p, cds] (some L) = .ok (.simple ⟨min p.lo cds.start, max p.hi cds.end, s⟩) := by
  have hlt := h.ok.start_lt_end
  have hL : 0 < L := harc.Lpos (by omega)
  have hh := harc.half
  rw [connect_ring_nowrap [Loc.simple p, cds] L (by simp) hL
    (by intro l hl; simp at hl; rcases hl with rfl | rfl
        · simp [Loc.parts, bridgesOrigin]
        · exact ⟨h.ok.ne, h.ok.nb⟩)
    (by intro l hl; simp at hl; rcases hl with rfl | rfl
        · exact hp1
        · exact hlt)
    (by intro f hf s hs
        have := h.lo; have := h.hi
        simp only [List.mem_cons, List.mem_nil_iff, or_false] at hf hs
        have e1 : (Loc.simple p).start = p.lo := rfl
        have e2 : (Loc.simple p).end = p.hi := rfl
        rcases hf with rfl | rfl <;> rcases hs with rfl | rfl <;> (try rw [e1]) <;> (try rw [e2]) <;> omega)]
  exact ⟨commonStrand [Loc.simple p, cds], by simp [minList, maxList, Loc.start, Loc.end]⟩

/-- the cutoff / neighbourhood window of a single-part area inside the arc: no wrap, no cap -/
theorem extendArea_ring_inner (r : Rec) (hcirc : r.circular = true) (A B d : Int) (harc : InnerArc r.len d A B)
    (p : Part) (hp0 : A ≤ p.lo) (hp1 : p.lo < p.hi) (hp2 : p.hi ≤ B) (force : Bool) :
    extendArea r (.simple p) d force = .ok (.simple ⟨max 0 (p.lo - d), min (p.hi + d) r.len, .fwd⟩) := by
  have hd := harc.dpos; have hl := harc.left; have hr := harc.right; have hh := harc.half
  have hL : 0 < r.len := harc.Lpos (by omega)
  -- the cap does not bite
  have hcap : min d ((r.len - (Loc.simple p).len) / 2 + 1) = d := by
    simp only [Loc.len, Loc.parts, List.map_cons, List.map_nil, List.sum_cons, List.sum_nil, Part.len]
    omega
  have hext := extend_simple_ring_eq ⟨p.lo, p.hi, .fwd⟩ d r.len (by simp only; omega) hp1 (by simp only; omega) hd (by omega)
  have hform : extSimpleRing ⟨p.lo, p.hi, .fwd⟩ d r.len = .simple ⟨p.lo - d, p.hi + d, .fwd⟩ := by
    have c1 : ¬ (p.lo - d < 0) := by omega
    have c2 : ¬ (p.hi + d > r.len) := by omega
    simp [extSimpleRing, c1, c2]
  have hconn : connect [Loc.simple ⟨p.lo - d, p.hi + d, .fwd⟩] (some r.len) = .ok (.simple ⟨p.lo - d, p.hi + d, .fwd⟩) := by
    rw [connect_ring_nowrap _ r.len (by simp) hL (by intro l hl; simp at hl; subst hl; simp [Loc.parts, bridgesOrigin])
      (by intro l hl; simp at hl; subst hl; simp only [Loc.start, Loc.end]; omega)
      (by intro f hf s hs; simp at hf hs; subst hf; subst hs; simp only [Loc.start, Loc.end]; omega)]
    simp [minList, maxList, commonStrand, Loc.start, Loc.end, Loc.strand]
  have e1 : max 0 (p.lo - d) = p.lo - d := by omega
  have e2 : min (p.hi + d) r.len = p.hi + d := by omega
  rw [e1, e2]
  obtain ⟨lo, hi, st⟩ := p
  simp only at hext hform hconn hcap ⊢
  cases st <;>
  simp [extendArea, hcirc, Rec.wrap, Loc.parts, bridgesOrigin, Loc.strand, makeForwards_simple, hcap,
    hext, hform, hconn, bind, Except.bind, pure, Except.pure]

/-! ### the sweep, given that widening and joining behave as on a line inside the arc -/

/-- what the sweep needs from `_extend_area_location` and `connect_locations` inside the arc `[A, B)` -/
structure FlatOps (r : Rec) (c A B : Int) : Prop where
  ext : ∀ p : Part, A ≤ p.lo → p.lo < p.hi → p.hi ≤ B →
    extendArea r (.simple p) c false = .ok (.simple ⟨max 0 (p.lo - c), min (p.hi + c) r.len, .fwd⟩)
  conn1 : ∀ cds, GeneIn r.len A B cds → connect [cds] r.wrap = .ok (.simple ⟨cds.start, cds.end, cds.strand⟩)
  conn2 : ∀ (p : Part) cds, A ≤ p.lo → p.lo < p.hi → p.hi ≤ B → GeneIn r.len A B cds →
    ∃ s, connect [Loc.simple p, cds] r.wrap = .ok (.simple ⟨min p.lo cds.start, max p.hi cds.end, s⟩)

theorem sweepCores_arc (r : Rec) (c A B : Int) (hc : 0 ≤ c) (hA : 0 ≤ A) (hB : B ≤ r.len) (ops : FlatOps r c A B)
    (rest : List Loc) :
    ∀ (cur : Grp Loc) (p : Part) (older : List Loc),
      p.lo = cur.glo → p.hi = cur.ghi → A ≤ p.lo → p.lo < p.hi → p.hi ≤ B →
      (∀ y ∈ rest, GeneIn r.len A B y) → (∀ y ∈ rest, p.lo ≤ y.start) → Sorted Loc.start rest →
      ∃ out, sweepCores r c (.simple p :: older) rest = .ok (out ++ older) ∧
        out.map ivOf = ((go Loc.start Loc.end c cur rest).map fun g => (g.glo, g.ghi)).reverse ∧
        ∀ l ∈ out, IsSimple l := by
  induction rest with
  | nil =>
    intro cur p older e1 e2 _ _ _ _ _ _
    refine ⟨[.simple p], by simp [sweepCores, pure, Except.pure], ?_, ?_⟩
    · simp [go, ivOf, Loc.start, Loc.end, e1, e2]
    · intro l hl; simp at hl; exact ⟨p, hl⟩
  | cons y ys ih =>
    intro cur p older e1 e2 h0 h1 h2 hok hge hsorted
    have hy := hok y (by simp)
    have hwin := overlap_window_iff r.len c hc y hy.ok p (by omega) h1 (by omega) (hge y (by simp))
    have hlen : ¬ ((Loc.simple ⟨max 0 (p.lo - c), min (p.hi + c) r.len, Strand.fwd⟩).len < (Loc.simple p).len) := by
      simp only [Loc.len, Loc.parts, List.map_cons, List.map_nil, List.sum_cons, List.sum_nil, Part.len]
      omega
    simp only [sweepCores, ops.ext p h0 h1 h2, bind, Except.bind, hlen, if_false]
    by_cases hlt : y.start < p.hi + c
    · have hov := hwin.2 hlt
      obtain ⟨s, hconn⟩ := ops.conn2 p y h0 h1 h2 hy
      simp only [hov, if_true, hconn]
      have hlt' : y.start < cur.ghi + c := by omega
      have hylo := hy.lo; have hyhi := hy.hi; have hylt := hy.ok.start_lt_end
      obtain ⟨out, ho, hm, hsimple⟩ := ih ⟨min cur.glo y.start, max cur.ghi y.end, cur.members ++ [y]⟩
        ⟨min p.lo y.start, max p.hi y.end, s⟩ older (by simp only; omega) (by simp only; omega)
        (by simp only; omega) (by simp only; omega) (by simp only; omega) (fun z hz => hok z (by simp [hz]))
        (fun z hz => by have := hge z (by simp [hz]); simp only; omega) hsorted.tail
      refine ⟨out, ho, ?_, hsimple⟩
      simp only [go, hlt', if_true]
      exact hm
    · have hov : locationsOverlap y (.simple ⟨max 0 (p.lo - c), min (p.hi + c) r.len, .fwd⟩) = false := by
        cases hb : locationsOverlap y (.simple ⟨max 0 (p.lo - c), min (p.hi + c) r.len, .fwd⟩)
        · rfl
        · exact absurd (hwin.1 hb) hlt
      simp only [hov, Bool.false_eq_true, if_false, ops.conn1 y hy]
      have hlt' : ¬ y.start < cur.ghi + c := by omega
      obtain ⟨out, ho, hm, hsimple⟩ := ih ⟨y.start, y.end, [y]⟩ ⟨y.start, y.end, y.strand⟩ (.simple p :: older)
        rfl rfl hy.lo hy.ok.start_lt_end hy.hi (fun z hz => hok z (by simp [hz]))
        (fun z hz => hsorted.head_le z hz) hsorted.tail
      refine ⟨out ++ [.simple p], by simpa using ho, ?_, ?_⟩
      · simp only [go, hlt', if_false, List.map_append, hm, List.map_cons, List.map_nil, List.reverse_cons]
        simp [ivOf, Loc.start, Loc.end, e1, e2]
      · intro l hl
        simp only [List.mem_append, List.mem_singleton] at hl
        rcases hl with hl | rfl
        · exact hsimple l hl
        · exact ⟨p, rfl⟩

/-- the first group of the sweep starts where the current group starts, and no group starts earlier -/
theorem go_glo (lo hi : Loc → Int) (c : Int) : ∀ (ys : List Loc) (cur : Grp Loc), (∀ y ∈ ys, cur.glo ≤ lo y) →
    Sorted lo ys → (∃ g rest, go lo hi c cur ys = g :: rest ∧ g.glo = cur.glo) ∧ ∀ g ∈ go lo hi c cur ys, cur.glo ≤ g.glo := by
  intro ys
  induction ys with
  | nil => intro cur _ _; exact ⟨⟨cur, [], rfl, rfl⟩, by intro g hg; simp [go] at hg; subst hg; exact Int.le_refl _⟩
  | cons y ys ih =>
    intro cur hs hsorted
    have hy := hs y (by simp)
    simp only [go]
    split
    · obtain ⟨⟨g, rest, e, eg⟩, hall⟩ := ih ⟨min cur.glo (lo y), max cur.ghi (hi y), cur.members ++ [y]⟩
        (fun z hz => by have := hs z (by simp [hz]); simp only; omega) hsorted.tail
      refine ⟨⟨g, rest, e, by rw [eg]; simp only; omega⟩, ?_⟩
      intro g' hg'
      have := hall g' hg'
      simp only at this; omega
    · obtain ⟨_, hall⟩ := ih ⟨lo y, hi y, [y]⟩ (fun z hz => hsorted.head_le z hz) hsorted.tail
      refine ⟨⟨cur, _, rfl, rfl⟩, ?_⟩
      intro g' hg'
      simp only [List.mem_cons] at hg'
      rcases hg' with rfl | hg'
      · exact Int.le_refl _
      · have := hall g' hg'
        simp only at this; omega

theorem fixFirstLast_sorted (r : Rec) (c : Int) (cores : List Loc) (first : Loc) (rest : List Loc)
    (he : cores = first :: rest) (h : ∀ l ∈ cores, first.start ≤ l.start) : fixFirstLast r c cores = .ok cores := by
  subst he
  simp only [fixFirstLast]
  cases hl : rest.getLast? with
  | none => rfl
  | some last =>
    have hmem : last ∈ first :: rest := List.mem_cons_of_mem _ (List.mem_of_getLast? hl)
    have := h last hmem
    have hn : ¬ (first.start > last.start) := by omega
    simp [hn, pure, Except.pure]

/-- `find_protoclusters`' cores are the hulls of the sweep groups whenever the anchors lie in an arc
    on which widening and joining behave as on a line -/
theorem findCores_arc (r : Rec) (c A B : Int) (hc : 0 ≤ c) (hA : 0 ≤ A) (hB : B ≤ r.len) (ops : FlatOps r c A B)
    (anchors : List Loc) (hne : anchors ≠ []) (hok : ∀ l ∈ anchors, GeneIn r.len A B l) :
    ∃ sorted cores, sorted.Perm anchors ∧ Sorted Loc.start sorted ∧ findCores r c anchors = .ok cores ∧
      cores.map ivOf = (sweep Loc.start Loc.end c sorted).map (fun g => (g.glo, g.ghi)) ∧
      ∀ l ∈ cores, IsSimple l := by
  obtain ⟨s1, h1, p1, _⟩ := sortFeats_ok anchors (fun l hl => (hok l hl).ok.nb)
  have hnb1 : ∀ l ∈ s1, bridgesOrigin l = false := fun l hl => (hok l (p1.mem_iff.1 hl)).ok.nb
  obtain ⟨s2, h2, p2, sorted2⟩ := sortFeats_ok s1 hnb1
  have hperm : s2.Perm anchors := p2.trans p1
  have hok2 : ∀ l ∈ s2, GeneIn r.len A B l := fun l hl => hok l (hperm.mem_iff.1 hl)
  have hf1 : s1.filter bridgesOrigin = [] := filter_all_false _ _ hnb1
  have hf2 : (s1.filter fun l => !bridgesOrigin l) = s1 := filter_all_true _ _ (fun l hl => by simp [hnb1 l hl])
  cases s2 with
  | nil => exact absurd (List.perm_nil.1 hperm.symm) hne
  | cons y ys =>
    have hy := hok2 y (by simp)
    obtain ⟨out, ho, hm, hsimple⟩ := sweepCores_arc r c A B hc hA hB ops ys ⟨y.start, y.end, [y]⟩
      ⟨y.start, y.end, y.strand⟩ [] rfl rfl hy.lo hy.ok.start_lt_end hy.hi
      (fun z hz => hok2 z (by simp [hz])) (fun z hz => sorted2.head_le z hz) sorted2.tail
    obtain ⟨⟨g0, grest, hgo, hg0⟩, hall⟩ := go_glo Loc.start Loc.end c ys ⟨y.start, y.end, [y]⟩
      (fun z hz => sorted2.head_le z hz) sorted2.tail
    have hrev : out.reverse.map ivOf = (go Loc.start Loc.end c ⟨y.start, y.end, [y]⟩ ys).map fun g => (g.glo, g.ghi) := by
      rw [List.map_reverse, hm, List.reverse_reverse]
    -- the cores ascend from the first one
    have hcores : ∃ first rest, out.reverse = first :: rest ∧ ∀ l ∈ out.reverse, first.start ≤ l.start := by
      rw [hgo] at hrev
      cases hor : out.reverse with
      | nil => rw [hor] at hrev; simp at hrev
      | cons first rest =>
        refine ⟨first, rest, rfl, ?_⟩
        rw [hor] at hrev
        simp only [List.map_cons, List.cons.injEq, ivOf, Prod.mk.injEq] at hrev
        intro l hl
        have hl' : ivOf l ∈ (first :: rest).map ivOf := List.mem_map.2 ⟨l, hl, rfl⟩
        have hl2 : ivOf l ∈ (g0 :: grest).map fun g => (g.glo, g.ghi) := by
          simp only [List.map_cons, ivOf]
          rw [← hrev.1.1, ← hrev.1.2, ← hrev.2]
          simpa [ivOf] using hl'
        obtain ⟨g, hg, e⟩ := List.mem_map.1 hl2
        have hge := hall g (by rw [hgo]; exact hg)
        simp only [ivOf, Prod.mk.injEq] at e
        have h1' := hrev.1.1
        have h2' := e.1
        have h3' := hg0
        simp only at hge h3'
        omega
    obtain ⟨first, rest', hfr, hasc⟩ := hcores
    refine ⟨y :: ys, out.reverse, hperm, sorted2, ?_, ?_, ?_⟩
    · simp only [findCores, h1, bind, Except.bind, hf1, hf2, h2, List.mapM_nil, pure, Except.pure, List.reverse_nil]
      simp only [sweepCores, ops.conn1 y hy, bind, Except.bind]
      rw [ho]
      simp only [List.append_nil]
      exact fixFirstLast_sorted r c out.reverse first rest' hfr hasc
    · rw [hrev]; rfl
    · intro l hl
      exact hsimple l (by simpa using hl)

/-! ### instances: the line, and the inner arc of a ring -/

theorem flatOps_ring (r : Rec) (hcirc : r.circular = true) (c A B : Int) (harc : InnerArc r.len c A B) :
    FlatOps r c A B := by
  have hw : r.wrap = some r.len := by simp [Rec.wrap, hcirc]
  refine ⟨fun p h0 h1 h2 => extendArea_ring_inner r hcirc A B c harc p h0 h1 h2 false, ?_, ?_⟩
  · intro cds h; rw [hw]; exact connect_gene_ring r.len A B c harc cds h
  · intro p cds h0 h1 h2 h; rw [hw]; exact connect_pair_ring r.len A B c harc p h0 h1 h2 cds h

theorem nearB_ring_inner_iff (L c A B : Int) (harc : InnerArc L c A B) (a b : Loc)
    (ha : GeneIn L A B a) (hb : GeneIn L A B b) :
    nearB L c a b = true ↔ reach Loc.start Loc.end c a b := by
  have hlt := ha.ok.start_lt_end
  have hL : L ≠ 0 := by have := harc.Lpos (by have := ha.lo; have := ha.hi; omega); omega
  simp only [nearB, spanLoc_nb L a ha.ok.nb, spanLoc_nb L b hb.ok.nb, reach]
  exact nearB_simple_ring L c A B harc.dpos hL harc.half _ _ ha.ok.start_lt_end hb.ok.start_lt_end ha.lo ha.hi hb.lo hb.hi

end ASV.Proto
