/-
  C15 helper lemmas: the chunk `find_all_orfs` cuts for an intergenic area (and its reverse
  complement) is a window of the record in the sense of `WindowFwd` / `WindowRev`.
-/
import ASV.Proofs.OrfArea
namespace ASV.Orf
open ASV

theorem chunkOf_window (rec : Seq) (st en : Int) (hok : AreaOk rec.length (st, en))
    (hen : en ≤ rec.length) : WindowFwd rec (chunkOf rec st en) st rec.length := by
  intro k hk
  have hlen := chunkOf_length rec st en hok hen
  obtain ⟨h1, h2, h3, h4⟩ := hok
  simp only at h1 h2 h3 h4
  unfold chunkOf
  split
  · rename_i hst
    simp only [slice]
    rw [List.getElem?_take, List.getElem?_drop, if_pos (by omega),
      Int.emod_eq_of_lt (by omega) (by omega)]
    congr 1; omega
  · rename_i hst
    simp only [slice]
    rw [List.getElem?_append]
    have hl : (rec.drop ((rec.length : Int) + st).toNat).length = (-st).toNat := by
      simp only [List.length_drop]; omega
    rw [hl]
    split
    · rw [List.getElem?_drop, emod_of_decomp _ _ (st + k + rec.length) (-1) (by omega) (by omega) (by omega)]
      congr 1; omega
    · rw [List.getElem?_take, List.getElem?_drop, if_pos (by omega),
        Int.emod_eq_of_lt (by omega) (by omega)]
      congr 1; omega

theorem windowRev_of_fwd (rec chunk : Seq) (o L : Int) (h : WindowFwd rec chunk o L) :
    WindowRev complement rec (revComp chunk) o L := by
  intro k hk
  rw [revComp_length] at hk
  rw [revComp_length]
  unfold revComp
  rw [List.getElem?_reverse (by simp only [List.length_map]; exact hk), List.length_map,
    List.getElem?_map, h (chunk.length - 1 - k) (by omega)]
  congr 4
  omega

/-- upper-casing both the record and the window keeps the forward window relation -/
theorem windowFwd_upper (rec w : Seq) (o L : Int) (h : WindowFwd rec w o L) :
    WindowFwd (upper rec) (upper w) o L := by
  intro k hk
  rw [upper_length] at hk
  simp only [upper, List.getElem?_map, h k hk]

/-- same for the reverse window, for a complement that commutes with upper-casing -/
theorem windowRev_upper (comp : Char → Char) (hcomm : ∀ c, (comp c).toUpper = comp c.toUpper)
    (rec w : Seq) (o L : Int) (h : WindowRev comp rec w o L) :
    WindowRev comp (upper rec) (upper w) o L := by
  intro k hk
  rw [upper_length] at hk
  rw [upper_length]
  simp only [upper, List.getElem?_map, h k hk, Option.map_map]
  congr 1
  funext c
  exact hcomm c

end ASV.Orf
